package amf0x

import (
	"encoding/json"
	"fmt"
	"math"
	"strings"

	"github.com/ossrs/go-oryx-lib/amf0"
	"verifharness/ld"
)

// Histories of spec/amf0/Amf0Live.tla: values as live objects. A case of kind "live" is the sequence of
// calls of one behaviour of that machine - objects are created, Set into containers that may themselves be
// attached already, assigned in place, replaced by a decoded copy - and after every call the node the
// behaviour chose to observe, with the specification's encoding of the value that node has at that moment.
// This file executes the calls on the library's objects; what an observation must satisfy is the business
// of the property (C05: Size() and the library's layout, C06: the AMF0 specification's layout).

// Step is one step of a history.
type Step struct {
	Op        string          `json:"op"`
	N         int             `json:"n"`    // the node the call is made on / the node observed
	ID        int             `json:"id"`   // newc, setnew, setnewc: the identity of the object created
	M         int             `json:"m"`    // setnode: the existing object that is attached
	Key       *ld.Field       `json:"key"`  // setnew, setnewc, setnode
	Val       *Node           `json:"val"`  // setnew, assign
	Kind      string          `json:"kind"` // newc, setnewc
	How       string          `json:"how"`  // load: "api" | "decoded"
	V         *Node           `json:"v"`    // load, redecode: the tree ...
	IDs       []int           `json:"ids"`  // ... and the identities of its nodes in preorder
	Enc       json.RawMessage `json:"enc"`  // load, redecode, marshal: the specification's encoding
	Size      int             `json:"size"`
	O         string          `json:"o"`          // newc, setnew, setnewc: how the new object is made (origin), "" = constructor
	Into      string          `json:"into"`       // redecode: "discovery" | "zero" (UnmarshalBinary on a zero value the caller declared)
	Orig      []string        `json:"orig"`       // load: the origin of every node, parallel to ids
	HasStrict bool            `json:"has_strict"` // marshal (C06): the value holds a strict array with elements ...
	EncKeyed  json.RawMessage `json:"enc_keyed"`  // ... and this is its encoding in the layout StrictKeyed
}

// Live is the heap of one history: node identity -> library object.
type Live struct {
	Seed int
	Objs map[int]amf0.Amf0
}

// Observe is called for every "marshal" step with the object the specification names. It returns
// "" or the description of a failure.
type Observe func(k int, st *Step, a amf0.Amf0) string

// newContainer makes a container the way its origin says: the exported types are usable as Go zero values.
func newContainer(kind, origin string) amf0.Amf0 {
	if kind == "strictk" {
		kind = "strict"
	}
	switch kind + "/" + origin {
	case "obj/", "obj/new":
		return amf0.NewObject()
	case "ecma/", "ecma/new":
		return amf0.NewEcmaArray()
	case "strict/", "strict/new":
		return amf0.NewStrictArray()
	case "obj/zero":
		var o amf0.Object
		return &o
	case "ecma/zero":
		var o amf0.EcmaArray
		return &o
	case "strict/zero":
		var o amf0.StrictArray
		return &o
	case "obj/lit":
		return &amf0.Object{}
	case "ecma/lit":
		return &amf0.EcmaArray{}
	case "strict/lit":
		return &amf0.StrictArray{}
	case "obj/alloc":
		return new(amf0.Object)
	case "ecma/alloc":
		return new(amf0.EcmaArray)
	case "strict/alloc":
		return new(amf0.StrictArray)
	}
	Broken("unknown container kind / origin %q / %q", kind, origin)
	return nil
}

// ScalarAs makes a scalar the way its origin says: constructor, typed conversion of a Go value, or a declared
// zero value that is assigned through its pointer.
func ScalarAs(n *Node, origin string, seed int) amf0.Amf0 {
	switch origin {
	case "", "new", "lib":
		return Scalar(n, seed)
	case "conv":
		switch n.T {
		case "num":
			x := amf0.Number(math.Float64frombits(n.Bits()))
			return &x
		case "bool":
			x := amf0.Boolean(n.V)
			return &x
		case "str":
			x := amf0.String(Text(*n.S, seed))
			return &x
		}
	case "zero":
		switch n.T {
		case "num":
			var x amf0.Number
			p := &x
			*p = amf0.Number(math.Float64frombits(n.Bits()))
			return p
		case "bool":
			var x amf0.Boolean
			p := &x
			*p = amf0.Boolean(n.V)
			return p
		case "str":
			var x amf0.String
			p := &x
			*p = amf0.String(Text(*n.S, seed))
			return p
		}
	}
	Broken("a %s can not be made as %q", n.T, origin)
	return nil
}

// DecodeInto reads one value by UnmarshalBinary on a zero value of the container type the caller declared
// (no Discovery): `var o amf0.Object; o.UnmarshalBinary(p)`.
func DecodeInto(kind string, p []byte) Decoded {
	a := newContainer(kind, "zero")
	if err := a.UnmarshalBinary(p); err != nil {
		return Decoded{Err: fmt.Errorf("UnmarshalBinary on a zero-value %s: %v", kind, err)}
	}
	return Decoded{OK: true, Value: a, Size: a.Size()}
}

// setOn is container.Set(key, v) on whichever container type a is.
func setOn(a amf0.Amf0, key string, v amf0.Amf0) bool {
	switch c := a.(type) {
	case *amf0.Object:
		c.Set(key, v)
	case *amf0.EcmaArray:
		c.Set(key, v)
	case *amf0.StrictArray:
		c.Set(key, v)
	default:
		return false
	}
	return true
}

// pairsOf lists (name, value) of a container node; the elements of a specification strict array carry the
// names the library's layout needs (it has no positional API).
func pairsOf(n *Node, seed int) ([]string, []*Node) {
	var ks []string
	var vs []*Node
	if n.T == "strict" {
		for i := range n.E {
			ks = append(ks, IdxKey(i+1, seed))
			vs = append(vs, &n.E[i])
		}
		return ks, vs
	}
	for i := range n.P {
		ks = append(ks, Text(n.P[i].K, seed))
		vs = append(vs, &n.P[i].V)
	}
	return ks, vs
}

func isContainer(n *Node) bool {
	return n.T == "obj" || n.T == "ecma" || n.T == "strict" || n.T == "strictk"
}

func (l *Live) pop(ids *[]int) int {
	if len(*ids) == 0 {
		Broken("live case: fewer identities than nodes")
	}
	id := (*ids)[0]
	*ids = (*ids)[1:]
	return id
}

// build constructs the tree through the public API and registers every object under its identity (preorder).
func (l *Live) build(n *Node, ids *[]int, orig *[]string) amf0.Amf0 {
	id := l.pop(ids)
	o := ""
	if len(*orig) > 0 {
		o = (*orig)[0]
		*orig = (*orig)[1:]
	}
	if !isContainer(n) {
		s := ScalarAs(n, o, l.Seed)
		if s == nil {
			Broken("unknown node type %q", n.T)
		}
		l.Objs[id] = s
		return s
	}
	c := newContainer(n.T, o)
	l.Objs[id] = c
	ks, vs := pairsOf(n, l.Seed)
	for i := range ks {
		setOn(c, ks[i], l.build(vs[i], ids, orig))
	}
	return c
}

// bind walks a decoded value along the tree and registers its objects (names are distinct: Get finds each).
func (l *Live) bind(n *Node, a amf0.Amf0, ids *[]int, path string) error {
	id := l.pop(ids)
	if a == nil {
		return fmt.Errorf("%s: no value under this name in the decoded tree", path)
	}
	l.Objs[id] = a
	if !isContainer(n) {
		return nil
	}
	g, ok := a.(getter)
	if !ok {
		return fmt.Errorf("%s: decoded value is %s, want a container", path, Kind(a))
	}
	ks, vs := pairsOf(n, l.Seed)
	for i := range ks {
		if err := l.bind(vs[i], g.Get(ks[i]), ids, fmt.Sprintf("%s[%d:%s]", path, i, keyName(ks[i]))); err != nil {
			return err
		}
	}
	return nil
}

// decodeInto: the specification's encoding of the tree is unmarshalled by the library into fresh objects, which
// must be the tree (both properties say so: the step is only taken outside the known finding's shadow), and
// which are the nodes from now on.
func (l *Live) decodeInto(st *Step, zero bool) string {
	want, free := MustLDFree(st.Enc, l.Seed)
	if len(want) != st.Size {
		Broken("live case: encoding has %d bytes, size says %d", len(want), st.Size)
	}
	var d Decoded
	if zero {
		d = DecodeInto(st.V.T, want)
	} else {
		d = Decode(want)
	}
	if !d.OK {
		return fmt.Sprintf("decoding the specification's encoding of the node's value (%d bytes) failed: %v", len(want), d.Err)
	}
	if d.Size != st.Size {
		return fmt.Sprintf("Size() after decoding the specification's encoding = %d, it has %d bytes", d.Size, st.Size)
	}
	if err := Same(st.V, d.Value, l.Seed, "v"); err != nil {
		return fmt.Sprintf("decoded tree differs from the value that was encoded: %v", err)
	}
	_ = free
	ids := append([]int(nil), st.IDs...)
	if err := l.bind(st.V, d.Value, &ids, "v"); err != nil {
		return err.Error()
	}
	if len(ids) != 0 {
		Broken("live case: more identities than nodes")
	}
	return ""
}

func (l *Live) obj(id int) amf0.Amf0 {
	a, ok := l.Objs[id]
	if !ok {
		Broken("live case: node %d does not exist", id)
	}
	return a
}

// assign is *n = value on a number / string / boolean object.
func assign(a amf0.Amf0, v *Node, seed int) bool {
	switch x := a.(type) {
	case *amf0.Number:
		if v.T != "num" {
			return false
		}
		*x = amf0.Number(math.Float64frombits(v.Bits()))
	case *amf0.String:
		if v.T != "str" {
			return false
		}
		*x = amf0.String(Text(*v.S, seed))
	case *amf0.Boolean:
		if v.T != "bool" {
			return false
		}
		*x = amf0.Boolean(v.V)
	default:
		return false
	}
	return true
}

// History renders the calls up to and including step k.
func History(steps []Step, k int) string {
	var sb strings.Builder
	for i := 0; i <= k && i < len(steps); i++ {
		st := &steps[i]
		if i > 0 {
			sb.WriteString("; ")
		}
		key := ""
		if st.Key != nil {
			key = keyName(string(ld.LD{*st.Key}.Must(0)))
		}
		switch st.Op {
		case "load":
			fmt.Fprintf(&sb, "#1 := %s tree (%s, %d bytes) %s%s", st.V.T, shape(st.V), st.Size,
				map[string]string{"api": "built with Set", "decoded": "decoded", "decoded-zero": "decoded into a zero value"}[st.How], origins(st))
		case "newc":
			fmt.Fprintf(&sb, "#%d := %s", st.ID, made(st.Kind, st.O))
		case "setnew":
			fmt.Fprintf(&sb, "#%d.Set(%s, #%d := %s)", st.N, key, st.ID, made(st.Val.T, st.O))
		case "setnewc":
			fmt.Fprintf(&sb, "#%d.Set(%s, #%d := %s)", st.N, key, st.ID, made(st.Kind, st.O))
		case "setnode":
			fmt.Fprintf(&sb, "#%d.Set(%s, #%d)", st.N, key, st.M)
		case "assign":
			fmt.Fprintf(&sb, "*#%d = %s", st.N, st.Val.T)
		case "redecode":
			fmt.Fprintf(&sb, "#%d := decoded copy of #%d%s", st.N, st.N, map[string]string{"zero": " (UnmarshalBinary on a zero value)"}[st.Into])
		case "marshal":
			fmt.Fprintf(&sb, "marshal #%d", st.N)
		}
	}
	return sb.String()
}

// made renders how an object was made.
func made(t, origin string) string {
	switch origin {
	case "", "new":
		return "New(" + t + ")"
	case "zero":
		return "address of a declared zero " + t
	case "lit":
		return "&" + t + "{}"
	case "alloc":
		return "new(" + t + ")"
	case "conv":
		return "address of a converted Go value (" + t + ")"
	}
	return t + " made as " + origin
}

// origins lists the nodes of a loaded tree that no constructor made.
func origins(st *Step) string {
	s := ""
	for i, o := range st.Orig {
		if o != "" && o != "new" && o != "lib" && i < len(st.IDs) {
			s += fmt.Sprintf(" #%d=%s", st.IDs[i], o)
		}
	}
	if s != "" {
		s = ", made as:" + s
	}
	return s
}

// shape is the nesting of a tree in one line: o{e{s{..}.}.}
func shape(n *Node) string {
	if !isContainer(n) {
		return "."
	}
	_, vs := pairsOf(n, 0)
	s := n.T[:1] + "{"
	for _, v := range vs {
		s += shape(v)
	}
	return s + "}"
}

// RunLive executes a history. It returns the index of the failing step and what failed, or (-1, "").
func RunLive(steps []Step, seed int, observe Observe) (int, string) {
	l := &Live{Seed: seed, Objs: map[int]amf0.Amf0{}}
	for k := range steps {
		st := &steps[k]
		switch st.Op {
		case "load":
			if st.V == nil {
				Broken("live case: load without a tree")
			}
			switch st.How {
			case "api":
				ids := append([]int(nil), st.IDs...)
				orig := append([]string(nil), st.Orig...)
				if len(orig) != 0 && len(orig) != len(ids) {
					Broken("live case: %d origins for %d nodes", len(orig), len(ids))
				}
				l.build(st.V, &ids, &orig)
				if len(ids) != 0 {
					Broken("live case: more identities than nodes")
				}
			case "decoded", "decoded-zero":
				if f := l.decodeInto(st, st.How == "decoded-zero"); f != "" {
					return k, f
				}
			default:
				Broken("live case: unknown way to load %q", st.How)
			}
		case "newc":
			l.Objs[st.ID] = newContainer(st.Kind, st.O)
		case "setnew":
			s := ScalarAs(st.Val, st.O, seed)
			if s == nil || st.Key == nil {
				Broken("live case: setnew without a scalar / a name")
			}
			if !setOn(l.obj(st.N), Text(*st.Key, seed), s) {
				Broken("live case: node %d is not a container", st.N)
			}
			l.Objs[st.ID] = s
		case "setnewc":
			c := newContainer(st.Kind, st.O)
			if st.Key == nil || !setOn(l.obj(st.N), Text(*st.Key, seed), c) {
				Broken("live case: node %d is not a container", st.N)
			}
			l.Objs[st.ID] = c
		case "setnode":
			if st.Key == nil || !setOn(l.obj(st.N), Text(*st.Key, seed), l.obj(st.M)) {
				Broken("live case: node %d is not a container", st.N)
			}
		case "assign":
			if !assign(l.obj(st.N), st.Val, seed) {
				Broken("live case: node %d (%s) can not be assigned a %s", st.N, Kind(l.obj(st.N)), st.Val.T)
			}
		case "redecode":
			if st.V == nil {
				Broken("live case: redecode without a tree")
			}
			if f := l.decodeInto(st, st.Into == "zero"); f != "" {
				return k, f
			}
		case "marshal":
			if f := observe(k, st, l.obj(st.N)); f != "" {
				return k, f
			}
		default:
			Broken("live case: unknown step %q", st.Op)
		}
	}
	return -1, ""
}
