// Package amf0x is the part the C05 and C06 replayers share: the value trees of
// spec/amf0/Amf0.tla as Go data, building them through the library's public API,
// and comparing a library value with a tree. It contains no AMF0 encoder or
// decoder: every expected byte and every expected outcome comes from the case.
package amf0x

import (
	"bytes"
	"encoding/binary"
	"encoding/json"
	"fmt"
	"math"
	"os"

	"github.com/ossrs/go-oryx-lib/amf0"
	"verifharness/ld"
)

// Broken stops the replayer: the case or the harness is inconsistent, which says
// nothing about the library (vcheck turns a dead replayer into exit 2).
func Broken(format string, a ...interface{}) {
	fmt.Fprintf(os.Stderr, "amf0 replayer broken: "+format+"\n", a...)
	os.Exit(3)
}

// Node is a value tree: num(b) bool(v) str(s) null undef obj(p) ecma(c,p) strict(e) strictk(p).
type Node struct {
	T string    `json:"t"`
	B []int     `json:"b,omitempty"`
	V bool      `json:"v,omitempty"`
	S *ld.Field `json:"s,omitempty"`
	C []int     `json:"c,omitempty"`
	P []Pair    `json:"p,omitempty"`
	E []Node    `json:"e,omitempty"`
}

// Pair is <<name, value>>.
type Pair struct {
	K ld.Field
	V Node
}

// UnmarshalJSON reads the two-element array TLC prints for a pair.
func (p *Pair) UnmarshalJSON(b []byte) error {
	var raw []json.RawMessage
	if err := json.Unmarshal(b, &raw); err != nil {
		return err
	}
	if len(raw) != 2 {
		return fmt.Errorf("pair with %d elements", len(raw))
	}
	if err := json.Unmarshal(raw[0], &p.K); err != nil {
		return err
	}
	return json.Unmarshal(raw[1], &p.V)
}

// Text expands a text field (name or string content).
func Text(f ld.Field, seed int) string {
	return string(ld.LD{f}.Must(seed))
}

// IdxKey is the name the StrictKeyed layout gives element i (1-based) of a specification strict array.
func IdxKey(i, seed int) string {
	return string(ld.FillBytes(1, i, seed))
}

// Bits is the bit pattern of a num node.
func (n *Node) Bits() uint64 {
	if len(n.B) != 8 {
		Broken("num with %d bytes", len(n.B))
	}
	b := make([]byte, 8)
	for i, x := range n.B {
		b[i] = byte(x)
	}
	return binary.BigEndian.Uint64(b)
}

// Count is the count of an ecma node.
func (n *Node) Count() uint32 {
	if len(n.C) != 2 {
		Broken("ecma count with %d limbs", len(n.C))
	}
	return uint32(n.C[0])<<16 | uint32(n.C[1])
}

// Buildable says whether New*/Set can produce the tree (ECMA count 0; distinct names are the caller's business).
func (n *Node) Buildable() bool {
	switch n.T {
	case "ecma":
		if n.Count() != 0 {
			return false
		}
		fallthrough
	case "obj", "strictk":
		for i := range n.P {
			if !n.P[i].V.Buildable() {
				return false
			}
		}
	case "strict":
		for i := range n.E {
			if !n.E[i].Buildable() {
				return false
			}
		}
	}
	return true
}

// Scalar builds a scalar through the constructors.
func Scalar(n *Node, seed int) amf0.Amf0 {
	switch n.T {
	case "num":
		return amf0.NewNumber(math.Float64frombits(n.Bits()))
	case "bool":
		return amf0.NewBoolean(n.V)
	case "str":
		return amf0.NewString(Text(*n.S, seed))
	case "null":
		return amf0.NewNull()
	case "undef":
		return amf0.NewUndefined()
	}
	return nil
}

// Build constructs the tree through the public API, Set calls in wire order.
func Build(n *Node, seed int) amf0.Amf0 {
	if s := Scalar(n, seed); s != nil {
		return s
	}
	switch n.T {
	case "obj":
		o := amf0.NewObject()
		for i := range n.P {
			o.Set(Text(n.P[i].K, seed), Build(&n.P[i].V, seed))
		}
		return o
	case "ecma":
		o := amf0.NewEcmaArray()
		for i := range n.P {
			o.Set(Text(n.P[i].K, seed), Build(&n.P[i].V, seed))
		}
		return o
	case "strictk":
		o := amf0.NewStrictArray()
		for i := range n.P {
			o.Set(Text(n.P[i].K, seed), Build(&n.P[i].V, seed))
		}
		return o
	case "strict":
		// the library has no positional API: the elements get the names the deviation's layout uses
		o := amf0.NewStrictArray()
		for i := range n.E {
			o.Set(IdxKey(i+1, seed), Build(&n.E[i], seed))
		}
		return o
	}
	Broken("unknown node type %q", n.T)
	return nil
}

// Call is one step of a behaviour of the specification's builder.
type Call struct {
	Op    string
	Kind  string   // new
	Key   ld.Field // set, child
	Value Node     // set
}

// UnmarshalJSON reads ["new", kind] / ["set", name, scalar] / ["child", name].
func (c *Call) UnmarshalJSON(b []byte) error {
	var raw []json.RawMessage
	if err := json.Unmarshal(b, &raw); err != nil {
		return err
	}
	if len(raw) < 2 {
		return fmt.Errorf("call with %d elements", len(raw))
	}
	if err := json.Unmarshal(raw[0], &c.Op); err != nil {
		return err
	}
	switch c.Op {
	case "new":
		return json.Unmarshal(raw[1], &c.Kind)
	case "set":
		if len(raw) != 3 {
			return fmt.Errorf("set with %d elements", len(raw))
		}
		if err := json.Unmarshal(raw[1], &c.Key); err != nil {
			return err
		}
		return json.Unmarshal(raw[2], &c.Value)
	case "child":
		return json.Unmarshal(raw[1], &c.Key)
	}
	return fmt.Errorf("unknown call %q", c.Op)
}

type setter interface {
	amf0.Amf0
	set(key string, v amf0.Amf0)
}
type objS struct{ *amf0.Object }
type ecmaS struct{ *amf0.EcmaArray }
type strictS struct{ *amf0.StrictArray }

func (o objS) set(k string, v amf0.Amf0)    { o.Object.Set(k, v) }
func (o ecmaS) set(k string, v amf0.Amf0)   { o.EcmaArray.Set(k, v) }
func (o strictS) set(k string, v amf0.Amf0) { o.StrictArray.Set(k, v) }

func unwrap(s setter) amf0.Amf0 {
	switch x := s.(type) {
	case objS:
		return x.Object
	case ecmaS:
		return x.EcmaArray
	case strictS:
		return x.StrictArray
	}
	return nil
}

// Replay executes the builder's calls on the library (Set replaces, New opens, child closes) and
// returns the finished top-level container.
func Replay(calls []Call, seed int) amf0.Amf0 {
	var stack []setter
	for _, c := range calls {
		switch c.Op {
		case "new":
			switch c.Kind {
			case "obj":
				stack = append(stack, objS{amf0.NewObject()})
			case "ecma":
				stack = append(stack, ecmaS{amf0.NewEcmaArray()})
			case "strict":
				stack = append(stack, strictS{amf0.NewStrictArray()})
			default:
				Broken("unknown container kind %q", c.Kind)
			}
		case "set":
			if len(stack) == 0 {
				Broken("set on an empty stack")
			}
			s := Scalar(&c.Value, seed)
			if s == nil {
				Broken("set of a non-scalar")
			}
			stack[len(stack)-1].set(Text(c.Key, seed), s)
		case "child":
			if len(stack) < 2 {
				Broken("child on a stack of %d", len(stack))
			}
			child := stack[len(stack)-1]
			stack = stack[:len(stack)-1]
			stack[len(stack)-1].set(Text(c.Key, seed), unwrap(child))
		}
	}
	if len(stack) != 1 {
		Broken("behaviour ends with %d open containers", len(stack))
	}
	return unwrap(stack[0])
}

// Kind names the class of a library value the way the specification's Discover does.
func Kind(a amf0.Amf0) string {
	switch a.(type) {
	case *amf0.Number:
		return "num"
	case *amf0.Boolean:
		return "bool"
	case *amf0.String:
		return "str"
	case *amf0.Object:
		return "obj"
	case *amf0.EcmaArray:
		return "ecma"
	case *amf0.StrictArray:
		return "strict"
	}
	// null, undefined and the object end are unexported types: recognise them by what they write
	if b, err := a.MarshalBinary(); err == nil {
		switch {
		case len(b) == 1 && b[0] == 5:
			return "null"
		case len(b) == 1 && b[0] == 6:
			return "undef"
		case bytes.Equal(b, []byte{0, 0, 9}):
			return "objend"
		}
	}
	return fmt.Sprintf("%T", a)
}

type getter interface {
	Get(key string) amf0.Amf0
}

// Same walks the library value along the tree: types, number bits, booleans, string bytes, and for
// containers Get(name) for every name (Get answers with the first pair of that name; the pairs
// behind it, their order and the ECMA count are only observable by marshalling, which the caller
// compares with the expected bytes). The elements of a specification strict array have no
// accessor in the library: keyed tells under which names to look for them, or not at all.
func Same(n *Node, a amf0.Amf0, seed int, path string) error {
	if a == nil {
		return fmt.Errorf("%s: nil value, want %s", path, n.T)
	}
	want := n.T
	if want == "strictk" {
		want = "strict"
	}
	if k := Kind(a); k != want {
		return fmt.Errorf("%s: library value is %s, want %s", path, k, want)
	}
	switch n.T {
	case "num":
		got := math.Float64bits(float64(*a.(*amf0.Number)))
		if got != n.Bits() {
			return fmt.Errorf("%s: number bits %#016x, want %#016x", path, got, n.Bits())
		}
	case "bool":
		if bool(*a.(*amf0.Boolean)) != n.V {
			return fmt.Errorf("%s: boolean %v, want %v", path, !n.V, n.V)
		}
	case "str":
		got := string(*a.(*amf0.String))
		if w := Text(*n.S, seed); got != w {
			return fmt.Errorf("%s: string differs (%s)", path, firstDiff([]byte(got), []byte(w)))
		}
	case "obj", "ecma", "strictk":
		g := a.(getter)
		seen := map[string]bool{}
		for i := range n.P {
			k := Text(n.P[i].K, seed)
			if seen[k] {
				continue
			}
			seen[k] = true
			sub := fmt.Sprintf("%s[%d:%s]", path, i, keyName(k))
			if err := Same(&n.P[i].V, g.Get(k), seed, sub); err != nil {
				return err
			}
		}
	case "strict":
		// no accessor for positions; the caller compares the marshalled bytes
	}
	return nil
}

func keyName(k string) string {
	if len(k) > 8 {
		return fmt.Sprintf("%x..(%d bytes)", k[:8], len(k))
	}
	return fmt.Sprintf("%x", k)
}

func firstDiff(a, b []byte) string {
	n := len(a)
	if len(b) < n {
		n = len(b)
	}
	for i := 0; i < n; i++ {
		if a[i] != b[i] {
			return fmt.Sprintf("len %d vs %d, first difference at offset %d: %#02x vs %#02x", len(a), len(b), i, a[i], b[i])
		}
	}
	return fmt.Sprintf("len %d vs %d, common prefix equal", len(a), len(b))
}

// Decoded is what the library made of a byte string.
type Decoded struct {
	OK    bool
	Err   error
	Value amf0.Amf0
	Size  int
}

// Decode reads one value the way every caller of the library does: Discovery on the first byte,
// UnmarshalBinary into the fresh value it returns, Size() to know how far it went.
func Decode(p []byte) Decoded {
	a, err := amf0.Discovery(p)
	if err != nil {
		return Decoded{Err: fmt.Errorf("Discovery: %v", err)}
	}
	if a == nil {
		return Decoded{Err: fmt.Errorf("Discovery returned nil without an error")}
	}
	if err := a.UnmarshalBinary(p); err != nil {
		return Decoded{Err: fmt.Errorf("UnmarshalBinary: %v", err)}
	}
	return Decoded{OK: true, Value: a, Size: a.Size()}
}

// MustLD parses and expands a layout descriptor of the case.
func MustLD(raw json.RawMessage, seed int) []byte {
	l, err := ld.Parse(raw)
	if err != nil {
		Broken("bad layout descriptor: %v", err)
	}
	b, err := l.Expand(seed)
	if err != nil {
		Broken("bad layout descriptor: %v", err)
	}
	return b
}

// MustLDFree is MustLD plus the positions the format leaves to the writer (the ECMA array's associative count,
// which amf0_spec_121207 2.10 does not tie to the number of pairs and no accessor of the library shows).
func MustLDFree(raw json.RawMessage, seed int) ([]byte, []bool) {
	l, err := ld.Parse(raw)
	if err != nil {
		Broken("bad layout descriptor: %v", err)
	}
	b, err := l.Expand(seed)
	if err != nil {
		Broken("bad layout descriptor: %v", err)
	}
	return b, l.Free()
}

// Cat concatenates byte strings into a fresh slice with no spare capacity.
func Cat(parts ...[]byte) []byte {
	n := 0
	for _, p := range parts {
		n += len(p)
	}
	out := make([]byte, 0, n)
	for _, p := range parts {
		out = append(out, p...)
	}
	return out
}

// FirstDiff describes where two byte strings differ.
func FirstDiff(a, b []byte) string { return firstDiff(a, b) }

// Dk is the specification's prediction of what a StrictKeyed decoder makes of bytes in the
// specification's layout (computed on the seed-0 expansion).
type Dk struct {
	OK bool  `json:"ok"`
	N  int   `json:"n"`
	Re json.RawMessage `json:"re"` // layout descriptor
}

// Case is one case emitted by spec/amf0/Gen_Amf0.tla.
type Case struct {
	Kind      string          `json:"kind"`
	Fam       string          `json:"fam"`
	V         Node            `json:"v"`
	Enc       json.RawMessage `json:"enc"`
	Size      int             `json:"size"`
	API       bool            `json:"api"`
	Next      *Node           `json:"next"`
	EncNext   json.RawMessage `json:"enc_next"`
	SizeNext  int             `json:"size_next"`
	Trail     json.RawMessage `json:"trail"`
	Calls     []Call          `json:"calls"`
	Wire      json.RawMessage `json:"wire"`
	HasStrict bool            `json:"has_strict"`
	EncKeyed  json.RawMessage `json:"enc_keyed"`
	Dk        *Dk             `json:"dk"`
	// marker cases
	M     int    `json:"m"`
	Class string `json:"class"`
	Items []Item `json:"items"`
	// live cases (spec/amf0/Amf0Live.tla, live.go)
	Steps []Step `json:"steps"`
}

// Item is one position of a marker byte: at the top, in an object, an ECMA array, a strict array.
type Item struct {
	W    string          `json:"w"`
	Enc  json.RawMessage `json:"enc"`
	OK   bool            `json:"ok"`
	Size int             `json:"size"`
	Dk   *Dk             `json:"dk"`
}

// ParseCase decodes a case; a case that does not parse is a broken generator, not a verdict.
func ParseCase(raw json.RawMessage) *Case {
	var c Case
	if err := json.Unmarshal(raw, &c); err != nil {
		Broken("unparsable case: %v: %.300s", err, raw)
	}
	return &c
}

// Matches says whether the library's decoding is exactly the deviation's prediction.
func (d *Dk) Matches(got Decoded) (bool, string) {
	if d.OK != got.OK {
		return false, fmt.Sprintf("a StrictKeyed decoder would %s, the library %s", okWord(d.OK), okWord(got.OK))
	}
	if !d.OK {
		return true, ""
	}
	if got.Size != d.N {
		return false, fmt.Sprintf("a StrictKeyed decoder would consume %d bytes, the library's Size() is %d", d.N, got.Size)
	}
	re, err := got.Value.MarshalBinary()
	if err != nil {
		return false, fmt.Sprintf("re-marshal failed: %v", err)
	}
	want, free := MustLDFree(d.Re, 0)
	if df := ld.DiffFree(re, want, free); df != "" {
		return false, "the library's value differs from what a StrictKeyed decoder would hold: " + df
	}
	return true, ""
}

func okWord(ok bool) string {
	if ok {
		return "succeed"
	}
	return "fail"
}
