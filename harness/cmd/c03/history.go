package main

import (
	"encoding/json"
	"fmt"
	"math"
	"reflect"
	"time"

	"github.com/ossrs/go-oryx-lib/rtmp"
	"verifharness/rp"
	"verifharness/rtmpx"
	"verifharness/transport"
)

type item struct {
	I    string    `json:"i"`
	P    rtmpx.Pkt `json:"p"`
	Type int       `json:"type"`
	N    int       `json:"n"`
	ID   int       `json:"id"`
}

type hstep struct {
	Op       string            `json:"op"`
	P        rtmpx.Pkt         `json:"p"`
	It       item              `json:"it"`
	Out      string            `json:"out"`
	Kind     string            `json:"kind"`
	Type     int               `json:"type"`
	Consumed int               `json:"consumed"`
	Tid      json.RawMessage   `json:"tid"`
	Pending  []json.RawMessage `json:"pending"`
}

type historyCase struct {
	Steps []hstep `json:"steps"`
}

// pendingOf renders the specification's pending set as sorted "tid=name".
func pendingOf(raw []json.RawMessage) (map[float64]string, error) {
	m := map[float64]string{}
	for _, r := range raw {
		var pair []json.RawMessage
		if err := json.Unmarshal(r, &pair); err != nil || len(pair) != 2 {
			return nil, fmt.Errorf("bad pending entry %s", r)
		}
		var tid []int
		var name string
		if err := json.Unmarshal(pair[0], &tid); err != nil {
			return nil, err
		}
		if err := json.Unmarshal(pair[1], &name); err != nil {
			return nil, err
		}
		m[rtmpx.NumOf(tid)] = name
	}
	return m, nil
}

func samePending(p *rtmp.Protocol, raw []json.RawMessage) error {
	want, err := pendingOf(raw)
	if err != nil {
		rp.Bug("%v", err)
	}
	tids, names := p.VerifPending()
	got := map[float64]string{}
	for k := range tids {
		got[tids[k]] = names[k]
	}
	if !reflect.DeepEqual(got, want) {
		return fmt.Errorf("outstanding requests %v, specification says %v", got, want)
	}
	return nil
}

func newWaitTarget(kind string) interface{} {
	switch kind {
	case "ConnectAppResPacket":
		var p *rtmp.ConnectAppResPacket
		return &p
	case "CreateStreamResPacket":
		var p *rtmp.CreateStreamResPacket
		return &p
	case "CallPacket":
		var p *rtmp.CallPacket
		return &p
	case "ConnectAppPacket":
		var p *rtmp.ConnectAppPacket
		return &p
	case "CreateStreamPacket":
		var p *rtmp.CreateStreamPacket
		return &p
	case "PublishPacket":
		var p *rtmp.PublishPacket
		return &p
	case "PlayPacket":
		var p *rtmp.PlayPacket
		return &p
	case "SetChunkSize":
		var p *rtmp.SetChunkSize
		return &p
	case "WindowAcknowledgementSize":
		var p *rtmp.WindowAcknowledgementSize
		return &p
	case "SetPeerBandwidth":
		var p *rtmp.SetPeerBandwidth
		return &p
	case "UserControl":
		var p *rtmp.UserControl
		return &p
	}
	rp.Bug("unknown wait kind %s", kind)
	return nil
}

func init() {
	registry["history"] = func(c *rp.Ctx, i int, raw json.RawMessage) rp.Result {
		var cs historyCase
		if err := json.Unmarshal(raw, &cs); err != nil {
			panic(err)
		}
		a, b := transport.NewPair()
		pa, peer := rtmp.NewProtocol(a), rtmp.NewProtocol(b)
		consumedItems := 0 // how many peer items A has consumed
		var sent []item
		closed := false
		for k, s := range cs.Steps {
			laterInline := false
			for _, s2 := range cs.Steps[k:] {
				laterInline = laterInline || s2.Op == "send_inline"
			}
			if s.Op != "peer" && !closed && !laterInline {
				// the peer has said everything (its items all come first): a call that wants more than the
				// specification says meets the end of the stream instead of blocking forever
				closed = true
				b.Out.CloseWrite()
			}
			// everything A may read in a recv / expect step has been written before it: a call that wants more than the
			// specification says fails at once instead of waiting (the stream cannot be closed yet when an inline answer follows)
			b.Out.NoBlock = s.Op == "recv" || s.Op == "expectpkt" || s.Op == "expectmsg"
			switch s.Op {
			case "peer":
				sent = append(sent, s.It)
				var err error
				if s.It.I == "pkt" {
					err = peer.WritePacket(s.It.P.Build(c.Seed), 1)
				} else {
					err = peer.WriteMessage(rtmpx.Msg{ID: s.It.ID, Type: s.It.Type, Sid: 1, Ts: int64(100 * k), Len: s.It.N}.Build(c.Seed))
				}
				if err != nil {
					return rp.Fail(i, "step %d: peer write failed: %v", k, err)
				}
			case "send":
				if err := pa.WritePacket(s.P.Build(c.Seed), 1); err != nil {
					return rp.Fail(i, "step %d: WritePacket(%s) failed: %v", k, s.P.K, err)
				}
				if err := samePending(pa, s.Pending); err != nil {
					return rp.Fail(i, "step %d after sending %s: %v", k, s.P.K, err)
				}
			case "send_inline":
				// the peer's answer is put on A's input, read and decoded by A's reader while A's WritePacket is
				// still inside the transport write (one-shot gate on A's output)
				type dec struct {
					kind string
					err  error
				}
				res := make(chan dec, 1)
				a.Out.WriteGate = func(call int, p []byte) error {
					a.Out.WriteGate = nil
					if err := peer.WritePacket(s.It.P.Build(c.Seed), 1); err != nil {
						rp.Bug("peer write failed: %v", err)
					}
					go func() {
						m, err := pa.ReadMessage()
						if err != nil {
							res <- dec{"readerr", err}
							return
						}
						pkt, err := pa.DecodeMessage(m)
						if err != nil {
							res <- dec{"error", err}
							return
						}
						res <- dec{typeName(pkt), nil}
					}()
					select {
					case d := <-res:
						res <- d
					case <-time.After(20 * time.Second):
						res <- dec{"stall", nil}
					}
					return nil
				}
				if err := pa.WritePacket(s.P.Build(c.Seed), 1); err != nil {
					return rp.Fail(i, "step %d: WritePacket(%s) failed: %v", k, s.P.K, err)
				}
				d := <-res
				if d.kind != s.Out {
					return rp.Fail(i, "step %d: the answer %s arriving while the request %s(tid %v) was being handed to the transport decoded as %s (err %v), specification says %s",
						k, describe(s.It), s.P.K, rtmpx.NumOf(s.P.Tid), d.kind, d.err, s.Out)
				}
				if err := samePending(pa, s.Pending); err != nil {
					return rp.Fail(i, "step %d after %s answered during its write: %v", k, s.P.K, err)
				}
			case "recv":
				m, err := pa.ReadMessage()
				if err != nil {
					return rp.Fail(i, "step %d: ReadMessage failed: %v", k, err)
				}
				consumedItems++
				c.Hold(i, "payload of a message returned by ReadMessage", m.Payload) // the caller's: later reads must not write to it
				pkt, err := pa.DecodeMessage(m)
				got := "error"
				if err == nil {
					got = typeName(pkt)
				}
				if got != s.Out {
					return rp.Fail(i, "step %d: %s decoded as %s (err %v), specification says %s", k, describe(sent[consumedItems-1]), got, err, s.Out)
				}
				if err := samePending(pa, s.Pending); err != nil {
					return rp.Fail(i, "step %d after decoding %s: %v", k, describe(sent[consumedItems-1]), err)
				}
			case "expectpkt":
				target := newWaitTarget(s.Kind)
				_, err := pa.ExpectPacket(target)
				consumedItems += s.Consumed
				if s.Out == "ok" {
					if err != nil {
						return rp.Fail(i, "step %d: ExpectPacket(%s) failed: %v; specification: ok after consuming %d items", k, s.Kind, err, s.Consumed)
					}
					got := reflect.ValueOf(target).Elem().Interface()
					if typeName(got) != s.Kind {
						return rp.Fail(i, "step %d: ExpectPacket(%s) returned %s", k, s.Kind, typeName(got))
					}
					// it must be the FIRST packet of that kind: the transaction id identifies which one
					if len(s.Tid) > 2 {
						var tid []int
						json.Unmarshal(s.Tid, &tid)
						var gotTid float64
						switch p := got.(type) {
						case *rtmp.ConnectAppResPacket:
							gotTid = float64(p.TransactionID)
						case *rtmp.CreateStreamResPacket:
							gotTid = float64(p.TransactionID)
						}
						if math.Float64bits(gotTid) != math.Float64bits(rtmpx.NumOf(tid)) {
							return rp.Fail(i, "step %d: ExpectPacket(%s) returned transaction %v, the first arriving one is %v", k, s.Kind, gotTid, rtmpx.NumOf(tid))
						}
					}
				} else if err == nil {
					return rp.Fail(i, "step %d: ExpectPacket(%s) succeeded; specification: error at item %d", k, s.Kind, s.Consumed)
				}
				if err := samePending(pa, s.Pending); err != nil {
					return rp.Fail(i, "step %d after ExpectPacket(%s): %v", k, s.Kind, err)
				}
			case "expectmsg":
				m, err := pa.ExpectMessage(rtmp.MessageType(s.Type))
				if err != nil {
					return rp.Fail(i, "step %d: ExpectMessage(%d) failed: %v", k, s.Type, err)
				}
				consumedItems += s.Consumed
				want := sent[consumedItems-1]
				if int(m.MessageType) != s.Type {
					return rp.Fail(i, "step %d: ExpectMessage(%d) returned type %d", k, s.Type, m.MessageType)
				}
				c.Hold(i, "payload of a message returned by ExpectMessage", m.Payload)
				if want.I == "media" {
					if err := (rtmpx.Msg{ID: want.ID, Type: want.Type, Sid: 1, Ts: int64(m.Timestamp), Len: want.N}).Same(m, c.Seed); err != nil {
						return rp.Fail(i, "step %d: ExpectMessage(%d) did not return the first message of that type: %v", k, s.Type, err)
					}
				} else {
					exp, _ := want.P.Build(c.Seed).MarshalBinary()
					if string(exp) != string(m.Payload) {
						return rp.Fail(i, "step %d: ExpectMessage(%d) did not return the first message of that type (%s)", k, s.Type, describe(want))
					}
				}
				if err := samePending(pa, s.Pending); err != nil {
					return rp.Fail(i, "step %d after ExpectMessage: %v", k, err)
				}
			default:
				rp.Bug("unknown op %q", s.Op)
			}
		}
		return rp.Result{OK: true}
	}
}

func describe(it item) string {
	if it.I == "pkt" {
		if len(it.P.Tid) == 8 {
			return fmt.Sprintf("%s(tid %v)", it.P.K, rtmpx.NumOf(it.P.Tid))
		}
		return it.P.K
	}
	return fmt.Sprintf("media(type %d, %d bytes)", it.Type, it.N)
}
