package main

import (
	"bytes"
	"encoding/json"
	"fmt"
	"math"
	"reflect"
	"strings"

	"github.com/ossrs/go-oryx-lib/amf0"
	"github.com/ossrs/go-oryx-lib/rtmp"
	"verifharness/ld"
	"verifharness/rp"
	"verifharness/rtmpx"
	"verifharness/transport"
)

// C03: packets of spec/rtmp/RtmpPacket.tla (codec + wire + dispatch) and histories of
// spec/rtmp/RtmpTxn.tla (transaction matching, typed waits) against the real library.

var registry = map[string]rp.Replayer{}
var batchRegistry = map[string]rp.Batch{}

func main() { rp.Main(registry, batchRegistry) }

// fieldRec is one field of the packet as the specification sees it: the library's name of the field, the value
// (RtmpPacket!Fields) and its layout.
type fieldRec struct {
	F string          `json:"f"`
	V fieldVal        `json:"v"`
	E json.RawMessage `json:"e"`
}

type fieldVal struct {
	rtmpx.Val
	Hi uint32 `json:"hi"`
	Lo uint32 `json:"lo"`
}

// UnmarshalJSON: "v" of a u16/u8 value is a number, of a bool value a boolean.
func (f *fieldVal) UnmarshalJSON(b []byte) error {
	var probe struct {
		A  string          `json:"a"`
		V  json.RawMessage `json:"v"`
		Hi uint32          `json:"hi"`
		Lo uint32          `json:"lo"`
	}
	if err := json.Unmarshal(b, &probe); err != nil {
		return err
	}
	switch probe.A {
	case "u16", "u8":
		f.A = probe.A
		return json.Unmarshal(probe.V, &f.Lo)
	case "u32":
		f.A, f.Hi, f.Lo = probe.A, probe.Hi, probe.Lo
		return nil
	case "absent":
		f.A = probe.A
		return nil
	}
	return json.Unmarshal(b, &f.Val)
}

type packetCase struct {
	P       rtmpx.Pkt       `json:"p"`
	Enc     json.RawMessage `json:"enc"`
	Size    int             `json:"size"`
	Mtype   int             `json:"mtype"`
	Pending string          `json:"pending"`
	Kind    string          `json:"kind"`
	Fields  []fieldRec      `json:"fields"`
}

func typeName(p interface{}) string {
	return strings.TrimPrefix(fmt.Sprintf("%T", p), "*rtmp.")
}

// request registers the request a response needs at the receiving endpoint.
func request(name string, tid []int) rtmp.Packet {
	switch name {
	case "connect":
		v := rtmp.NewConnectAppPacket()
		v.TransactionID = amf0.Number(rtmpx.NumOf(tid))
		return v
	case "createStream":
		v := rtmp.NewCreateStreamPacket()
		v.TransactionID = amf0.Number(rtmpx.NumOf(tid))
		return v
	}
	return nil
}

// blank is RtmpPacket!Target(k, "zero"): a packet of the kind's Go type in which nothing is set (the zero value; the
// connect packets with the object their decoder fills in place, there is no other way to unmarshal into one).
func blank(k string) rtmp.Packet {
	switch k {
	case "connect":
		v := &rtmp.ConnectAppPacket{}
		v.CommandObject = amf0.NewObject()
		return v
	case "connectRes":
		v := &rtmp.ConnectAppResPacket{}
		v.CommandObject = amf0.NewObject()
		return v
	case "createStream":
		return &rtmp.CreateStreamPacket{}
	case "createStreamRes":
		return &rtmp.CreateStreamResPacket{}
	case "publish":
		return &rtmp.PublishPacket{}
	case "play":
		return &rtmp.PlayPacket{}
	case "call":
		return &rtmp.CallPacket{}
	case "scs":
		return &rtmp.SetChunkSize{}
	case "winack":
		return &rtmp.WindowAcknowledgementSize{}
	case "peerbw":
		return &rtmp.SetPeerBandwidth{}
	case "uc":
		return &rtmp.UserControl{}
	}
	panic("unknown packet kind " + k)
}

// checkField compares one field of a decoded packet with the specification's value.
func checkField(fv reflect.Value, f fieldRec, seed int) error {
	isNil := func() bool {
		switch fv.Kind() {
		case reflect.Interface, reflect.Ptr:
			return fv.IsNil()
		}
		return false
	}
	switch f.V.A {
	case "absent":
		switch fv.Kind() {
		case reflect.Interface, reflect.Ptr:
			if !fv.IsNil() {
				b, _ := fv.Interface().(amf0.Amf0).MarshalBinary()
				return fmt.Errorf("holds a value (% x), nothing was sent for it", clip(b))
			}
		case reflect.Int32, reflect.Int, reflect.Int64:
			if fv.Int() != 0 {
				return fmt.Errorf("= %d, nothing was sent for it", fv.Int())
			}
		default:
			rp.Bug("field %s: absent value for a %v", f.F, fv.Type())
		}
		return nil
	case "u32", "u16", "u8":
		want := uint64(f.V.Hi<<16 | f.V.Lo)
		var got uint64
		switch fv.Kind() {
		case reflect.Uint8, reflect.Uint16, reflect.Uint32, reflect.Uint64, reflect.Uint:
			got = fv.Uint()
		case reflect.Int32:
			got = uint64(uint32(int32(fv.Int())))
		default:
			rp.Bug("field %s: number for a %v", f.F, fv.Type())
		}
		if got != want {
			return fmt.Errorf("= %d (%#x), sent %d (%#x)", got, got, want, want)
		}
		return nil
	}
	// AMF0 values
	switch x := fv.Interface().(type) {
	case amf0.String:
		if f.V.A != "str" && f.V.A != "strf" {
			rp.Bug("field %s: %s for a string", f.F, f.V.A)
		}
		if want := f.V.Str(seed); string(x) != want {
			return fmt.Errorf("= %s, sent %s", quote(string(x)), quote(want))
		}
		return nil
	case amf0.Number:
		if f.V.A != "num" {
			rp.Bug("field %s: %s for a number", f.F, f.V.A)
		}
		if want := rtmpx.NumOf(f.V.B); math.Float64bits(float64(x)) != math.Float64bits(want) {
			return fmt.Errorf("= %v, sent %v", float64(x), want)
		}
		return nil
	}
	if isNil() {
		return fmt.Errorf("holds nothing, sent a value of kind %s", f.V.A)
	}
	a, ok := fv.Interface().(amf0.Amf0)
	if !ok {
		rp.Bug("field %s of type %v is not an AMF0 value", f.F, fv.Type())
	}
	l, err := ld.Parse(f.E)
	if err != nil {
		panic(err)
	}
	want := l.Must(seed)
	got, err := a.MarshalBinary()
	if err != nil {
		return fmt.Errorf("does not marshal: %v", err)
	}
	if !bytes.Equal(got, want) {
		return fmt.Errorf("holds a different value than was sent (%s value): %s", f.V.A, rp.FirstDiff(got, want))
	}
	if a.Size() != len(want) {
		return fmt.Errorf("Size() = %d, the value occupies %d bytes", a.Size(), len(want))
	}
	return nil
}

func clip(b []byte) []byte {
	if len(b) > 16 {
		return b[:16]
	}
	return b
}

func quote(s string) string {
	if len(s) > 24 {
		return fmt.Sprintf("%q... (%d bytes)", s[:24], len(s))
	}
	return fmt.Sprintf("%q", s)
}

// checkFields compares every field of a decoded packet with the specification's values.
func checkFields(pkt rtmp.Packet, fields []fieldRec, seed int) error {
	v := reflect.ValueOf(pkt).Elem()
	for _, f := range fields {
		fv := v.FieldByName(f.F)
		if !fv.IsValid() {
			rp.Bug("%T has no field %s", pkt, f.F)
		}
		if err := checkField(fv, f, seed); err != nil {
			return fmt.Errorf("field %s %v", f.F, err)
		}
	}
	return nil
}

// decoded checks what the property says about a packet decoded from payload want: equal field values, Size() is the
// number of bytes it was decoded from, re-marshalling gives the same payload.
func decoded(cs *packetCase, how string, pkt rtmp.Packet, want []byte, seed int) error {
	if err := checkFields(pkt, cs.Fields, seed); err != nil {
		return fmt.Errorf("%s, %s: %v", cs.P.K, how, err)
	}
	if pkt.Size() != len(want) {
		return fmt.Errorf("%s, %s: Size() of the decoded packet = %d, the payload has %d bytes", cs.P.K, how, pkt.Size(), len(want))
	}
	again, err := pkt.MarshalBinary()
	if err != nil {
		return fmt.Errorf("%s, %s: the decoded packet does not marshal: %v", cs.P.K, how, err)
	}
	if !bytes.Equal(again, want) {
		return fmt.Errorf("%s, %s: the decoded packet re-marshals differently: %s", cs.P.K, how, rp.FirstDiff(again, want))
	}
	return nil
}

// deviationOf names the deviation of RtmpPacket a failure looks like, if any.
func deviationOf(cs *packetCase, seed int) string {
	if n := len(cs.Fields); n > 3 && cs.Mtype == 20 {
		last := cs.Fields[n-1]
		if (last.V.A == "str" || last.V.A == "strf") && last.V.Str(seed) == "" {
			return "C03/empty-is-absent"
		}
	}
	return ""
}

func init() {
	registry["packets"] = func(c *rp.Ctx, i int, raw json.RawMessage) rp.Result {
		var cs packetCase
		if err := json.Unmarshal(raw, &cs); err != nil {
			panic(err)
		}
		l, err := ld.Parse(cs.Enc)
		if err != nil {
			panic(err)
		}
		want := l.Must(c.Seed)
		if len(want) != cs.Size {
			rp.Bug("specification size %d but layout has %d bytes", cs.Size, len(want))
		}
		if len(cs.Fields) == 0 {
			rp.Bug("case without fields")
		}
		failed := func(err error) rp.Result {
			r := rp.Fail(i, "%v", err)
			r.Deviation = deviationOf(&cs, c.Seed)
			return r
		}

		// (1) codec: marshal = the specification's layout, Size() = its length
		pkt := cs.P.Build(c.Seed)
		got, err := pkt.MarshalBinary()
		if err != nil {
			return rp.Fail(i, "%s: marshal failed: %v", cs.P.K, err)
		}
		if !bytes.Equal(got, want) {
			return failed(fmt.Errorf("%s: marshalled bytes differ from the specification's layout: %s", cs.P.K, rp.FirstDiff(got, want)))
		}
		if pkt.Size() != cs.Size {
			return failed(fmt.Errorf("%s: Size() = %d but %d bytes are marshalled", cs.P.K, pkt.Size(), cs.Size))
		}
		if int(pkt.Type()) != cs.Mtype {
			return rp.Fail(i, "%s: message type %d, want %d", cs.P.K, pkt.Type(), cs.Mtype)
		}
		if err := checkFields(pkt, cs.Fields, c.Seed); err != nil {
			rp.Bug("%s: the packet built for the case does not hold the specification's values: %v", cs.P.K, err)
		}
		// (2) unmarshal (RtmpCodec!Unmarshal) into the packet the library's constructor makes and into a blank one:
		// the specification's field values, whatever the packet held before
		for _, t := range []struct {
			how string
			pkt rtmp.Packet
		}{{"unmarshalled into the constructor's packet", cs.P.Fresh()}, {"unmarshalled into a blank packet", blank(cs.P.K)}} {
			if err := t.pkt.UnmarshalBinary(want); err != nil {
				return failed(fmt.Errorf("%s, %s: unmarshal of its own encoding failed: %v", cs.P.K, t.how, err))
			}
			if err := decoded(&cs, t.how, t.pkt, want, c.Seed); err != nil {
				return failed(err)
			}
			if err := sameFields(pkt, t.pkt); err != nil {
				return failed(fmt.Errorf("%s, %s: field values differ from the sender's: %v", cs.P.K, t.how, err))
			}
		}

		// (3) wire: written by one endpoint, decoded by the peer as the type the protocol defines - once through
		// ReadMessage + DecodeMessage, once through the typed wait ExpectPacket
		if cs.P.K == "scs" && (cs.P.Hi<<16|cs.P.Lo) == 0 {
			return rp.Result{OK: true} // chunk size 0 is not a size anybody may announce on the wire
		}
		a, b := transport.NewPair()
		pa, pb := rtmp.NewProtocol(a), rtmp.NewProtocol(b)
		for _, path := range []string{"DecodeMessage", "ExpectPacket"} {
			if req := request(cs.Pending, cs.P.Tid); req != nil {
				if err := pb.WritePacket(req, 0); err != nil {
					return rp.Fail(i, "registering the request failed: %v", err)
				}
				if _, err := pa.ReadMessage(); err != nil {
					return rp.Fail(i, "peer could not read the request: %v", err)
				}
			}
			if err := pa.WritePacket(cs.P.Build(c.Seed), 1); err != nil {
				return rp.Fail(i, "%s: WritePacket failed: %v", cs.P.K, err)
			}
			var m *rtmp.Message
			var dec rtmp.Packet
			how := "sent and decoded by the peer's " + path
			if path == "DecodeMessage" {
				if m, err = pb.ReadMessage(); err != nil {
					return rp.Fail(i, "%s: peer ReadMessage failed: %v", cs.P.K, err)
				}
				if dec, err = pb.DecodeMessage(m); err != nil {
					return failed(fmt.Errorf("%s: peer DecodeMessage failed: %v", cs.P.K, err))
				}
			} else {
				b.Out.CloseWrite() // nothing else will come: a wait that skips the packet ends instead of blocking
				a.Out.CloseWrite()
				target := newWaitTarget(cs.Kind)
				if m, err = pb.ExpectPacket(target); err != nil {
					return failed(fmt.Errorf("%s: the peer's ExpectPacket(%s) did not return it: %v", cs.P.K, cs.Kind, err))
				}
				dec, _ = reflect.ValueOf(target).Elem().Interface().(rtmp.Packet)
			}
			if int(m.MessageType) != cs.Mtype || !bytes.Equal(m.Payload, want) {
				return rp.Fail(i, "%s: message on the wire: type %d, payload %s", cs.P.K, m.MessageType, rp.FirstDiff(m.Payload, want))
			}
			if tn := typeName(dec); tn != cs.Kind {
				return rp.Fail(i, "%s, %s: arrives as %s, the protocol defines %s", cs.P.K, how, tn, cs.Kind)
			}
			if err := decoded(&cs, how, dec, want, c.Seed); err != nil {
				return failed(err)
			}
		}
		return rp.Result{OK: true}
	}
}

// sameFields compares exported scalar fields and the AMF0 trees (through their encoding) of two packets.
func sameFields(a, b rtmp.Packet) error {
	va, vb := reflect.ValueOf(a).Elem(), reflect.ValueOf(b).Elem()
	if va.Type() != vb.Type() {
		return fmt.Errorf("types %v vs %v", va.Type(), vb.Type())
	}
	return sameStruct(va, vb, va.Type().Name())
}

func sameStruct(va, vb reflect.Value, path string) error {
	for k := 0; k < va.NumField(); k++ {
		f := va.Type().Field(k)
		fa, fb := va.Field(k), vb.Field(k)
		name := path + "." + f.Name
		if f.Anonymous && fa.Kind() == reflect.Struct {
			if err := sameStruct(fa, fb, name); err != nil {
				return err
			}
			continue
		}
		if f.PkgPath != "" {
			continue // unexported
		}
		switch x := fa.Interface().(type) {
		case amf0.Number:
			// compare bit patterns: NaN != NaN
			if fmt.Sprintf("%x", amf0Bytes(&x)) != fmt.Sprintf("%x", amf0BytesNum(fb.Interface().(amf0.Number))) {
				return fmt.Errorf("%s: %v vs %v", name, x, fb.Interface())
			}
		case amf0.String:
			if x != fb.Interface().(amf0.String) {
				return fmt.Errorf("%s: %q vs %q", name, x, fb.Interface())
			}
		case amf0.Amf0:
			y, _ := fb.Interface().(amf0.Amf0)
			if (x == nil || reflect.ValueOf(x).IsNil()) != (y == nil || reflect.ValueOf(y).IsNil()) {
				return fmt.Errorf("%s: presence differs", name)
			}
			if x != nil && !reflect.ValueOf(x).IsNil() {
				ba, _ := x.MarshalBinary()
				bb, _ := y.MarshalBinary()
				if !bytes.Equal(ba, bb) {
					return fmt.Errorf("%s: value trees differ", name)
				}
			}
		default:
			if !reflect.DeepEqual(fa.Interface(), fb.Interface()) {
				return fmt.Errorf("%s: %v vs %v", name, fa.Interface(), fb.Interface())
			}
		}
	}
	return nil
}

func amf0Bytes(n *amf0.Number) []byte   { b, _ := n.MarshalBinary(); return b }
func amf0BytesNum(n amf0.Number) []byte { return amf0Bytes(&n) }
