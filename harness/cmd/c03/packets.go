package main

import (
	"bytes"
	"encoding/json"
	"fmt"
	"reflect"
	"strings"

	"github.com/ossrs/go-oryx-lib/amf0"
	"github.com/ossrs/go-oryx-lib/rtmp"
	"verifharness/ld"
	"verifharness/rp"
	"verifharness/rtmpx"
	"verifharness/transport"
)

// C03: packets of spec/rtmp/RtmpPacket.tla (codec + wire + dispatch) and histories of
// spec/rtmp/RtmpTxn.tla (transaction matching, typed waits) against the real library.

var registry = map[string]rp.Replayer{}
var batchRegistry = map[string]rp.Batch{}

func main() { rp.Main(registry, batchRegistry) }

type packetCase struct {
	P       rtmpx.Pkt       `json:"p"`
	Enc     json.RawMessage `json:"enc"`
	Size    int             `json:"size"`
	Mtype   int             `json:"mtype"`
	Pending string          `json:"pending"`
	Kind    string          `json:"kind"`
}

func typeName(p interface{}) string {
	return strings.TrimPrefix(fmt.Sprintf("%T", p), "*rtmp.")
}

// request registers the request a response needs at the receiving endpoint.
func request(name string, tid []int) rtmp.Packet {
	switch name {
	case "connect":
		v := rtmp.NewConnectAppPacket()
		v.TransactionID = amf0.Number(rtmpx.NumOf(tid))
		return v
	case "createStream":
		v := rtmp.NewCreateStreamPacket()
		v.TransactionID = amf0.Number(rtmpx.NumOf(tid))
		return v
	}
	return nil
}

func init() {
	registry["packets"] = func(c *rp.Ctx, i int, raw json.RawMessage) rp.Result {
		var cs packetCase
		if err := json.Unmarshal(raw, &cs); err != nil {
			panic(err)
		}
		l, err := ld.Parse(cs.Enc)
		if err != nil {
			panic(err)
		}
		want := l.Must(c.Seed)
		if len(want) != cs.Size {
			rp.Bug("specification size %d but layout has %d bytes", cs.Size, len(want))
		}

		// (1) codec: marshal = the specification's layout, Size() = its length
		pkt := cs.P.Build(c.Seed)
		got, err := pkt.MarshalBinary()
		if err != nil {
			return rp.Fail(i, "%s: marshal failed: %v", cs.P.K, err)
		}
		if !bytes.Equal(got, want) {
			return rp.Fail(i, "%s: marshalled bytes differ from the specification's layout: %s", cs.P.K, rp.FirstDiff(got, want))
		}
		if pkt.Size() != cs.Size {
			return rp.Fail(i, "%s: Size() = %d but %d bytes are marshalled", cs.P.K, pkt.Size(), cs.Size)
		}
		if int(pkt.Type()) != cs.Mtype {
			return rp.Fail(i, "%s: message type %d, want %d", cs.P.K, pkt.Type(), cs.Mtype)
		}
		// (2) unmarshal into a fresh packet: equal field values, re-marshal reproduces the bytes
		fresh := cs.P.Fresh()
		if err := fresh.UnmarshalBinary(want); err != nil {
			return rp.Fail(i, "%s: unmarshal of its own encoding failed: %v", cs.P.K, err)
		}
		again, err := fresh.MarshalBinary()
		if err != nil || !bytes.Equal(again, want) {
			return rp.Fail(i, "%s: re-marshal after unmarshal differs: %v %s", cs.P.K, err, rp.FirstDiff(again, want))
		}
		if fresh.Size() != cs.Size {
			return rp.Fail(i, "%s: Size() after unmarshal = %d, want %d", cs.P.K, fresh.Size(), cs.Size)
		}
		if err := sameFields(pkt, fresh); err != nil {
			return rp.Fail(i, "%s: field values after unmarshal differ: %v", cs.P.K, err)
		}

		// (3) wire: written by one endpoint, decoded by the peer as the type the protocol defines
		a, b := transport.NewPair()
		pa, pb := rtmp.NewProtocol(a), rtmp.NewProtocol(b)
		if req := request(cs.Pending, cs.P.Tid); req != nil {
			if err := pb.WritePacket(req, 0); err != nil {
				return rp.Fail(i, "registering the request failed: %v", err)
			}
			if _, err := pa.ReadMessage(); err != nil {
				return rp.Fail(i, "peer could not read the request: %v", err)
			}
		}
		if cs.P.K == "scs" && (cs.P.Hi<<16|cs.P.Lo) == 0 {
			return rp.Result{OK: true} // chunk size 0 is not a size anybody may announce on the wire
		}
		if err := pa.WritePacket(cs.P.Build(c.Seed), 1); err != nil {
			return rp.Fail(i, "%s: WritePacket failed: %v", cs.P.K, err)
		}
		m, err := pb.ReadMessage()
		if err != nil {
			return rp.Fail(i, "%s: peer ReadMessage failed: %v", cs.P.K, err)
		}
		if int(m.MessageType) != cs.Mtype || !bytes.Equal(m.Payload, want) {
			return rp.Fail(i, "%s: message on the wire: type %d, payload %s", cs.P.K, m.MessageType, rp.FirstDiff(m.Payload, want))
		}
		dec, err := pb.DecodeMessage(m)
		if err != nil {
			return rp.Fail(i, "%s: peer DecodeMessage failed: %v", cs.P.K, err)
		}
		if tn := typeName(dec); tn != cs.Kind {
			return rp.Fail(i, "%s arrives as %s, the protocol defines %s", cs.P.K, tn, cs.Kind)
		}
		re, err := dec.MarshalBinary()
		if err != nil || !bytes.Equal(re, want) {
			return rp.Fail(i, "%s: decoded packet re-marshals differently: %v %s", cs.P.K, err, rp.FirstDiff(re, want))
		}
		return rp.Result{OK: true}
	}
}

// sameFields compares exported scalar fields and the AMF0 trees (through their encoding) of two packets.
func sameFields(a, b rtmp.Packet) error {
	va, vb := reflect.ValueOf(a).Elem(), reflect.ValueOf(b).Elem()
	if va.Type() != vb.Type() {
		return fmt.Errorf("types %v vs %v", va.Type(), vb.Type())
	}
	return sameStruct(va, vb, va.Type().Name())
}

func sameStruct(va, vb reflect.Value, path string) error {
	for k := 0; k < va.NumField(); k++ {
		f := va.Type().Field(k)
		fa, fb := va.Field(k), vb.Field(k)
		name := path + "." + f.Name
		if f.Anonymous && fa.Kind() == reflect.Struct {
			if err := sameStruct(fa, fb, name); err != nil {
				return err
			}
			continue
		}
		if f.PkgPath != "" {
			continue // unexported
		}
		switch x := fa.Interface().(type) {
		case amf0.Number:
			// compare bit patterns: NaN != NaN
			if fmt.Sprintf("%x", amf0Bytes(&x)) != fmt.Sprintf("%x", amf0BytesNum(fb.Interface().(amf0.Number))) {
				return fmt.Errorf("%s: %v vs %v", name, x, fb.Interface())
			}
		case amf0.String:
			if x != fb.Interface().(amf0.String) {
				return fmt.Errorf("%s: %q vs %q", name, x, fb.Interface())
			}
		case amf0.Amf0:
			y, _ := fb.Interface().(amf0.Amf0)
			if (x == nil || reflect.ValueOf(x).IsNil()) != (y == nil || reflect.ValueOf(y).IsNil()) {
				return fmt.Errorf("%s: presence differs", name)
			}
			if x != nil && !reflect.ValueOf(x).IsNil() {
				ba, _ := x.MarshalBinary()
				bb, _ := y.MarshalBinary()
				if !bytes.Equal(ba, bb) {
					return fmt.Errorf("%s: value trees differ", name)
				}
			}
		default:
			if !reflect.DeepEqual(fa.Interface(), fb.Interface()) {
				return fmt.Errorf("%s: %v vs %v", name, fa.Interface(), fb.Interface())
			}
		}
	}
	return nil
}

func amf0Bytes(n *amf0.Number) []byte   { b, _ := n.MarshalBinary(); return b }
func amf0BytesNum(n amf0.Number) []byte { return amf0Bytes(&n) }
