package main

import (
	"encoding/json"
	"fmt"
	"io"
	"os"
	"path/filepath"
	"runtime"
	"sort"
	"strings"
	"sync"
	"sync/atomic"
	"time"

	"github.com/ossrs/go-oryx-lib/amf0"
	"github.com/ossrs/go-oryx-lib/rtmp"
	"verifharness/rp"
)

// aim: a stress driver that aims the writer's registration of request i+1 at the reader's lookup of response i.
//
// Forced schedules can only park the library at transport operations; what happens between two critical sections of
// the reader (an atomicity violation without a data race: look up, unlock, lock again, "tidy up" the table) is invisible
// to them and to the race detector. Here there is ONE outstanding request (or "depth" of them); the writer goroutine is released exactly
// when the transport hands response i to the reader's Read and waits a swept number of spins before it sends request
// i+1 (i+depth with depth outstanding requests), so that over thousands of rounds its registration falls on every point of the reader's handling of response i.
// The sweep is centred by feedback: the moment the request reached the transport is compared with the moment the
// reader's DecodeMessage returned, and the centre follows their difference - whatever the machine's load and with or
// without the race detector. Every response must be matched: its request was complete in the transport (the writer's
// call had even returned) before the response was sent.
//
// The events of every run are recorded like the stress stage's for Trace_RtmpTxnConc (NoSpurious, MatchOnce).

type aimCase struct {
	Runs    int `json:"runs"`      // connections
	N       int `json:"n"`         // requests per connection (the trace specification's TraceReqs: 40)
	Width   int `json:"width_ns"`  // the sweep covers centre +- width
	Keep    int `json:"keep"`      // so many runs are written to the trace file (plus every failing one)
	Pad     int `json:"pad"`       // extra bytes in every response: a longer way from the reader's Read to its lookup
	Budget  int `json:"budget_ms"` // no further run is started after so many ms (0: no limit), but at least MinRuns are made
	MinRuns int `json:"min_runs"`
	Depth   int `json:"depth"` // outstanding requests (default 1): request i+depth is sent while response i is handled
}

// aimConn is the library's transport: writes are parsed by the peer's chunk stream tracker, reads are fed message by
// message. Nothing on the way of a response parks a goroutine: the reader waits for the next response spinning on an
// atomic slot (a parked goroutine costs a wake-up of microseconds, more than the whole handling of a response).
type aimConn struct {
	slot      atomic.Pointer[[]byte]
	closed    int32
	left      []byte
	delivered int64 // responses handed to the library's reader so far
	tr        *tracker
	onRequest func(t int, at int64)
}

func (v *aimConn) Write(p []byte) (int, error) {
	at := time.Now().UnixNano()
	for _, t := range v.tr.completedRequests(p) {
		v.onRequest(t, at)
	}
	return len(p), nil
}

func (v *aimConn) Read(p []byte) (int, error) {
	if len(v.left) == 0 {
		for n := 0; ; n++ {
			if b := v.slot.Swap(nil); b != nil {
				v.left = *b
				break
			}
			if atomic.LoadInt32(&v.closed) == 1 {
				return 0, io.EOF
			}
			if n > 1<<12 {
				runtime.Gosched()
			}
		}
		atomic.AddInt64(&v.delivered, 1)
	}
	n := copy(p, v.left)
	v.left = v.left[n:]
	return n, nil
}

var aimSink int64

// spin burns roughly n units of time (about a ns each, also under the race detector: locals are not instrumented)
// without yielding.
func spin(n int) {
	x := uint64(n) | 1
	for j := 0; j < n; j++ {
		x = x*6364136223846793005 + 1442695040888963407
	}
	atomic.StoreInt64(&aimSink, int64(x))
}

// aimState is kept across the runs of one case: the feedback loop's centre.
type aimState struct {
	nsPerSpin float64
	centre    float64 // spins
	rounds    int
	sumDelta  int64
	hitsNear  int // rounds in which the two moments were closer than the width
	deltas    []int64
}

func aim(c *rp.Ctx, cases []json.RawMessage) []rp.Result {
	var results []rp.Result
	f, err := os.Create(filepath.Join(traceDir(c), "trace.ndjson"))
	if err != nil {
		rp.Bug("%v", err)
	}
	defer f.Close()
	enc := json.NewEncoder(f)
	if runtime.GOMAXPROCS(0) < 2 {
		rp.Bug("the aim stage needs 2 CPUs: the reader and the writer must really run at the same time")
	}
	// the responses, serialised once by a peer protocol (transaction ids 2..41; nothing else depends on the connection)
	responses := func(pad int) map[int][]byte {
		resp := map[int][]byte{}
		for t := 2; t < 2+40; t++ {
			w := &sliceWriter{}
			if err := rtmp.NewProtocol(w).WritePacket(paddedResponse(t, pad), 0); err != nil {
				rp.Bug("peer write failed: %v", err)
			}
			resp[t] = w.b
		}
		return resp
	}
	// calibrate the spin unit
	t0 := time.Now()
	spin(20000000)
	st := &aimState{nsPerSpin: float64(time.Since(t0).Nanoseconds()) / 20000000}
	if st.nsPerSpin <= 0 {
		st.nsPerSpin = 1
	}
	for i, raw := range cases {
		var ac aimCase
		if err := json.Unmarshal(raw, &ac); err != nil {
			panic(err)
		}
		if ac.N < 2 || ac.N > 40 {
			rp.Bug("aim: n must be 2..40")
		}
		res := rp.Result{I: i, OK: true}
		st.rounds, st.sumDelta, st.hitsNear, st.deltas, st.centre = 0, 0, 0, st.deltas[:0], 0
		resp := responses(ac.Pad)
		kept := 0
		began := time.Now()
		runs := 0
		for run := 0; run < ac.Runs && res.OK; run++ {
			if ac.Budget > 0 && run >= ac.MinRuns && time.Since(began) > time.Duration(ac.Budget)*time.Millisecond {
				break // a machine so loaded that the two goroutines keep being descheduled: the rounds made are reported
			}
			runs++
			evs, err := aimRun(ac, st, resp, uint64(c.Seed)*1000003+uint64(i)*7919+uint64(run))
			if err != nil || kept < ac.Keep {
				kept++
				enc.Encode(event{Ev: "reset", Run: run})
				for _, e := range evs {
					enc.Encode(e)
				}
			}
			if err != nil {
				res = rp.Result{I: i, OK: false, What: fmt.Sprintf("run %d (%d outstanding request(s), the next request sent while the reader handles response i): %v", run, maxInt(ac.Depth, 1), err)}
			}
		}
		mean := int64(0)
		if st.rounds > 0 {
			mean = st.sumDelta / int64(st.rounds)
		}
		sort.Slice(st.deltas, func(a, b int) bool { return st.deltas[a] < st.deltas[b] })
		q := func(f float64) int64 {
			if len(st.deltas) == 0 {
				return 0
			}
			return st.deltas[int(f*float64(len(st.deltas)-1))]
		}
		res.Info = map[string]interface{}{"rounds": st.rounds, "mean_delta_ns": mean, "delta_ns_q10_q50_q90": []int64{q(0.1), q(0.5), q(0.9)}, "rounds_within_width": st.hitsNear,
			"centre_spins": int(st.centre), "ns_per_spin": st.nsPerSpin, "runs_in_trace": kept, "runs": runs}
		results = append(results, res)
	}
	return results
}

// paddedResponse is response(t) with pad extra bytes (in the arguments of a connect response, in the command object of
// a createStream response).
func paddedResponse(t, pad int) rtmp.Packet {
	if pad <= 0 {
		return response(t)
	}
	switch p := response(t).(type) {
	case *rtmp.ConnectAppResPacket:
		p.Args.Set("pad", amf0.NewString(strings.Repeat("p", pad)))
		return p
	case *rtmp.CreateStreamResPacket:
		p.CommandObject = sizedObject(pad)
		return p
	}
	panic("unreachable")
}

type sliceWriter struct{ b []byte }

func (w *sliceWriter) Write(p []byte) (int, error) { w.b = append(w.b, p...); return len(p), nil }
func (w *sliceWriter) Read(p []byte) (int, error)  { return 0, io.EOF }

func aimRun(ac aimCase, st *aimState, resp map[int][]byte, seed uint64) ([]event, error) {
	var mu sync.Mutex
	var log []event
	record := func(e event) {
		mu.Lock()
		log = append(log, e)
		mu.Unlock()
	}
	snapshot := func() []event {
		mu.Lock()
		defer mu.Unlock()
		return append([]event(nil), log...)
	}
	var reachedAt int64 // when the last request was complete in the transport
	complete := make([]int32, ac.N+3)
	conn := &aimConn{tr: newTracker()}
	conn.onRequest = func(t int, at int64) {
		atomic.StoreInt64(&reachedAt, at)
		if t >= 2 && t < ac.N+2 && atomic.CompareAndSwapInt32(&complete[t], 0, 1) {
			record(event{Ev: "twrite", T: t})
		}
	}
	p := rtmp.NewProtocol(conn)
	var closing int32
	defer func() {
		atomic.StoreInt32(&closing, 1)
		atomic.StoreInt32(&conn.closed, 1)
	}()

	type handled struct {
		o  outcome
		at int64
	}
	var hslot atomic.Pointer[handled]
	go func() { // the reader goroutine
		for {
			o := readOne(p)
			at := time.Now().UnixNano()
			if o.res == "readerr" {
				if atomic.LoadInt32(&closing) == 1 {
					return // the run is over
				}
				hslot.Store(&handled{o: o, at: at})
				return
			}
			res := o.res
			if res != "ok" {
				res = "fail"
			}
			record(event{Ev: "lookup", T: int(o.tid), Res: res})
			hslot.Store(&handled{o: o, at: at})
			if o.res != "ok" {
				return
			}
		}
	}()

	send := func(t int, pkt rtmp.Packet) error {
		if err := p.WritePacket(pkt, 0); err != nil {
			return fmt.Errorf("WritePacket(tid %d): %v", t, err)
		}
		ok := atomic.LoadInt32(&complete[t]) == 1
		record(event{Ev: "return", T: t})
		if !ok {
			return fmt.Errorf("WritePacket(tid %d) returned nil, but the request is not complete in the transport (independent chunk stream parser)", t)
		}
		return nil
	}
	depth := ac.Depth
	if depth < 1 {
		depth = 1
	}
	for d := 0; d < depth && d < ac.N; d++ {
		if err := send(2+d, request(2+d)); err != nil {
			return snapshot(), err
		}
	}
	rng := seed | 1
	width := float64(ac.Width) / st.nsPerSpin
	for k := 0; k < ac.N; k++ {
		t := k + 2
		// request t is complete in the transport and its WritePacket has returned: the peer answers
		next := request(t + depth)
		rng ^= rng << 13
		rng ^= rng >> 7
		rng ^= rng << 17
		d := int(st.centre + (float64(rng%20001)/10000-1)*width)
		record(event{Ev: "respond", T: t})
		rb := resp[t]
		conn.slot.Store(&rb)
		if k+depth < ac.N {
			// the response is in the hands of the reader: send the next request while it is handled
			for n := 0; atomic.LoadInt64(&conn.delivered) < int64(k+1); n++ {
				if n > 1<<20 {
					runtime.Gosched()
				}
			}
			if d > 0 {
				spin(d)
			}
			if err := send(t+depth, next); err != nil {
				return snapshot(), err
			}
		}
		var h handled
		for n, t0 := 0, time.Now(); ; n++ {
			if hp := hslot.Swap(nil); hp != nil {
				h = *hp
				break
			}
			if n > 1<<12 {
				runtime.Gosched()
				if n&0xfff == 0 && time.Since(t0) > 30*time.Second {
					return snapshot(), fmt.Errorf("stall: the response to request %d (complete in the transport before the response was sent) was never handled: lost", t)
				}
			}
		}
		if h.o.res == "readerr" {
			return snapshot(), fmt.Errorf("reader: %v", h.o.err)
		}
		if h.o.tid != float64(t) {
			return snapshot(), fmt.Errorf("the reader handled a response of transaction %v, the peer sent the one of %d", h.o.tid, t)
		}
		if h.o.res != "ok" {
			return snapshot(), fmt.Errorf("round %d: the response to request %d - complete in the transport, its WritePacket had returned, before the response was sent - was not matched to it: %s (%v)",
				st.rounds, t, h.o.res, h.o.err)
		}
		if k+depth < ac.N {
			// feedback: > 0 the request reached the transport after the reader was done, < 0 before
			delta := atomic.LoadInt64(&reachedAt) - h.at
			st.rounds++
			st.sumDelta += delta
			st.deltas = append(st.deltas, delta)
			if delta > -int64(ac.Width) && delta < int64(ac.Width) {
				st.hitsNear++
			}
			step := float64(delta) / st.nsPerSpin / 16
			if lim := width / 4; step > lim {
				step = lim
			} else if step < -lim {
				step = -lim
			}
			st.centre -= step
			if st.centre < -width {
				st.centre = -width
			}
		}
	}
	return snapshot(), nil
}

func maxInt(a, b int) int {
	if a > b {
		return a
	}
	return b
}
