package main

import (
	"encoding/binary"
	"math"
)

// tracker is the peer's view of the bytes the library hands to the transport: an independent, incremental RTMP chunk
// stream parser (RTMP specification 1.0, section 5.3.1: basic header, message header formats 0-3, extended timestamp,
// Set Chunk Size). It tells with which transport write a request is COMPLETE in the transport - whatever the number and
// the sizes of the writes the library's buffering produces. It is written from the standard and shares nothing with
// the library.
type tracker struct {
	chunkSize int
	buf       []byte
	streams   map[uint32]*trackedStream
	broken    bool // the byte stream is not a chunk stream this parser understands: it stops reporting
	messages  int
}

type trackedStream struct {
	length   int
	typ      byte
	extended bool
	payload  []byte
	started  bool
}

// trackedMsg is a message that became complete.
type trackedMsg struct {
	Type    byte
	Payload []byte
}

func newTracker() *tracker {
	return &tracker{chunkSize: 128, streams: map[uint32]*trackedStream{}}
}

// Feed appends the bytes of one transport write and returns the messages that are complete now.
func (t *tracker) Feed(p []byte) (done []trackedMsg) {
	if t.broken {
		return nil
	}
	t.buf = append(t.buf, p...)
	for {
		n, m, ok := t.chunk(t.buf)
		if !ok || t.broken {
			return
		}
		t.buf = t.buf[n:]
		if m != nil {
			t.messages++
			done = append(done, *m)
		}
	}
}

// chunk parses one chunk at the start of b; ok=false: not enough bytes yet.
func (t *tracker) chunk(b []byte) (n int, m *trackedMsg, ok bool) {
	if len(b) < 1 {
		return
	}
	format := b[0] >> 6
	cid := uint32(b[0] & 0x3f)
	n = 1
	switch cid {
	case 0:
		if len(b) < 2 {
			return 0, nil, false
		}
		cid = 64 + uint32(b[1])
		n = 2
	case 1:
		if len(b) < 3 {
			return 0, nil, false
		}
		cid = 64 + uint32(b[1]) + 256*uint32(b[2])
		n = 3
	}
	hlen := [4]int{11, 7, 3, 0}[format]
	if len(b) < n+hlen {
		return 0, nil, false
	}
	h := b[n : n+hlen]
	n += hlen
	s := t.streams[cid]
	if s == nil {
		if format != 0 {
			t.broken = true
			return 0, nil, false
		}
		s = &trackedStream{}
		t.streams[cid] = s
	}
	if format <= 2 {
		if s.started && len(s.payload) > 0 {
			// a new message header in the middle of a message
			t.broken = true
			return 0, nil, false
		}
		s.extended = h[0] == 0xff && h[1] == 0xff && h[2] == 0xff
	}
	if format <= 1 {
		s.length = int(h[3])<<16 | int(h[4])<<8 | int(h[5])
		s.typ = h[6]
	}
	if s.extended {
		if len(b) < n+4 {
			return 0, nil, false
		}
		n += 4
	}
	s.started = true
	size := s.length - len(s.payload)
	if size > t.chunkSize {
		size = t.chunkSize
	}
	if len(b) < n+size {
		return 0, nil, false
	}
	s.payload = append(s.payload, b[n:n+size]...)
	n += size
	if len(s.payload) >= s.length {
		m = &trackedMsg{Type: s.typ, Payload: s.payload}
		s.payload = nil
		if m.Type == 1 && len(m.Payload) >= 4 {
			if v := int(binary.BigEndian.Uint32(m.Payload) & 0x7fffffff); v > 0 {
				t.chunkSize = v
			}
		}
	}
	return n, m, true
}

// commandTid returns the command name and the transaction id of an AMF0 command message (type 20):
// string marker 02, u16 length, name, number marker 00, 8 bytes IEEE-754.
func commandTid(m trackedMsg) (name string, tid float64, ok bool) {
	p := m.Payload
	if m.Type != 20 || len(p) < 3 || p[0] != 2 {
		return "", math.NaN(), false
	}
	l := int(binary.BigEndian.Uint16(p[1:3]))
	if len(p) < 3+l+9 || p[3+l] != 0 {
		return "", math.NaN(), false
	}
	return string(p[3 : 3+l]), math.Float64frombits(binary.BigEndian.Uint64(p[3+l+1 : 3+l+9])), true
}

// completedTids feeds one transport write and returns the transaction ids (any AMF0 number) of the requests it completes.
func (t *tracker) completedTids(p []byte) (tids []float64) {
	for _, m := range t.Feed(p) {
		if _, tid, ok := commandTid(m); ok {
			tids = append(tids, tid)
		}
	}
	return
}

// completedRequests is completedTids for drivers whose transaction ids are small integers.
func (t *tracker) completedRequests(p []byte) (tids []int) {
	for _, tid := range t.completedTids(p) {
		if tid == math.Trunc(tid) && math.Abs(tid) < 1<<30 {
			tids = append(tids, int(tid))
		}
	}
	return
}
