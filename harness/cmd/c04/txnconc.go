package main

import (
	"bytes"
	"encoding/binary"
	"encoding/json"
	"fmt"
	"io"
	"io/ioutil"
	"math"
	"math/rand"
	"os"
	"path/filepath"
	"strconv"
	"strings"
	"sync"
	"time"

	"github.com/ossrs/go-oryx-lib/amf0"
	"github.com/ossrs/go-oryx-lib/rtmp"
	"verifharness/rp"
	"verifharness/transport"
)

// C04: schedules of spec/rtmp/RtmpTxnConc.tla forced onto a real rtmp.Protocol with a writer
// goroutine and a reader goroutine (gated transport, no sleeps), and free-running stress runs
// recorded for trace validation by Trace_RtmpTxnConc.tla.

var registry = map[string]rp.Replayer{}
var batchRegistry = map[string]rp.Batch{}

func main() { rp.Main(registry, batchRegistry) }

const stepTimeout = 20 * time.Second

type schedCase struct {
	Sched   [][]json.RawMessage `json:"sched"`
	Results [][]json.RawMessage `json:"results"`
	Reqs    []int               `json:"reqs"`
	Parts   []int               `json:"parts"`
	Failed  []int               `json:"failed"`
	Size    int                 `json:"size"`  // bytes of arguments of the sized request (0: chosen from the matrix by the case's hash)
	Chunk   int                 `json:"chunk"` // output chunk size announced before the first request (0: chosen likewise)
	Ids     [][]json.RawMessage `json:"ids"`   // [[model id, "decimal AMF0 number"]]: the transaction ids on the wire (absent: the model's own)
}

// idmap relates the model's transaction ids (names of distinct transactions; their parity is the request type) to the
// AMF0 numbers used on the wire. nil: the model's ids themselves.
type idmap struct {
	conc map[int]float64
	abs  map[float64]int
}

func newIDMap(raw [][]json.RawMessage) *idmap {
	if len(raw) == 0 {
		return nil
	}
	m := &idmap{conc: map[int]float64{}, abs: map[float64]int{}}
	for _, e := range raw {
		var t int
		var lit string
		if len(e) != 2 || json.Unmarshal(e[0], &t) != nil || json.Unmarshal(e[1], &lit) != nil {
			rp.Bug("malformed ids entry %s", e)
		}
		v, err := strconv.ParseFloat(lit, 64)
		if err != nil || !(v > 0) || math.IsInf(v, 0) {
			rp.Bug("transaction id %q: the library tracks finite ids > 0 only (%v)", lit, err)
		}
		if _, dup := m.abs[v]; dup {
			rp.Bug("transaction id %q is not a distinct double", lit)
		}
		m.conc[t], m.abs[v] = v, t
	}
	return m
}

func (m *idmap) concrete(t int) float64 {
	if m != nil {
		if v, ok := m.conc[t]; ok {
			return v
		}
	}
	return float64(t)
}

func (m *idmap) abstract(tid float64) (int, bool) {
	if m == nil {
		if tid == math.Trunc(tid) && math.Abs(tid) < 1<<30 {
			return int(tid), true
		}
		return 0, false
	}
	t, ok := m.abs[tid]
	return t, ok
}

type outcome struct {
	tid float64
	res string
	err error
}

// tidOfResult extracts the transaction id of a "_result" command payload without the library.
func tidOfResult(payload []byte) float64 {
	// 02 00 07 "_result" 00 <8 bytes>
	if len(payload) < 19 {
		return math.NaN()
	}
	return math.Float64frombits(binary.BigEndian.Uint64(payload[11:19]))
}

// The two request types the library matches responses for: odd transaction ids are connect requests, even ones
// createStream requests. size > 0 adds that many bytes of arguments (strings of at most 30000 bytes in an object).
func isConnect(t int) bool { return t%2 == 1 }

func sizedObject(size int) *amf0.Object {
	o := amf0.NewObject()
	for k := 0; size > 0; k++ {
		n := size
		if n > 30000 {
			n = 30000
		}
		o.Set(fmt.Sprintf("a%d", k), amf0.NewString(strings.Repeat(string(rune('a'+k%26)), n)))
		size -= n
	}
	return o
}

func sizedRequest(t, size int) rtmp.Packet { return sizedRequestID(t, float64(t), size) }

// sizedRequestID: the request of model id t (its parity is the type) carrying the AMF0 number tid.
func sizedRequestID(t int, tid float64, size int) rtmp.Packet {
	if isConnect(t) {
		p := rtmp.NewConnectAppPacket()
		p.TransactionID = amf0.Number(tid)
		p.CommandObject.Set("tcUrl", amf0.NewString("rtmp://localhost/live"))
		if size > 0 {
			p.Args = sizedObject(size)
		}
		return p
	}
	p := rtmp.NewCreateStreamPacket()
	p.TransactionID = amf0.Number(tid)
	if size > 0 {
		p.CommandObject = sizedObject(size)
	}
	return p
}

func request(t int) rtmp.Packet { return sizedRequest(t, 0) }

func response(t int) rtmp.Packet { return responseID(t, float64(t)) }

func responseID(t int, tid float64) rtmp.Packet {
	if isConnect(t) {
		p := rtmp.NewConnectAppResPacket(amf0.Number(tid))
		p.Args = amf0.NewObject()
		p.Args.Set("code", amf0.NewString("NetConnection.Connect.Success"))
		return p
	}
	p := rtmp.NewCreateStreamResPacket(amf0.Number(tid))
	p.StreamID = 1
	return p
}

func readOne(p *rtmp.Protocol) outcome { return readOneIDs(p, nil) }

// readOneIDs reads and decodes one response; "ok" = decoded without error as the response type of the request that
// carries the response's transaction id, with that id.
func readOneIDs(p *rtmp.Protocol, ids *idmap) outcome {
	m, err := p.ReadMessage()
	if err != nil {
		return outcome{tid: math.NaN(), res: "readerr", err: err}
	}
	tid := tidOfResult(m.Payload)
	pkt, err := p.DecodeMessage(m)
	if err != nil {
		return outcome{tid: tid, res: "fail", err: err}
	}
	t, known := ids.abstract(tid)
	switch r := pkt.(type) {
	case *rtmp.CreateStreamResPacket:
		if known && !isConnect(t) && float64(r.TransactionID) == tid {
			return outcome{tid: tid, res: "ok"}
		}
	case *rtmp.ConnectAppResPacket:
		if known && isConnect(t) && float64(r.TransactionID) == tid {
			return outcome{tid: tid, res: "ok"}
		}
	}
	return outcome{tid: tid, res: "wrongtype", err: fmt.Errorf("decoded as %T", pkt)}
}

// The (size, chunk size) matrix for multi-part requests of schedules that do not carry their own.
var matrixSizes = []int{3000, 4096, 4200, 8300, 12500, 20000, 70000, 140000, 300000}
var matrixChunks = []int{128, 4096, 65536, 1048576}

// arrival is one transport write of the library parked in the gate.
type arrival struct {
	call     int
	n        int
	complete []int // transaction ids of the requests that are complete in the transport with this write
}

// writerCtl drives the writer goroutine of a forced schedule through the gated transport.
type writerCtl struct {
	arrive  chan arrival
	release chan error
	wcmd    chan rtmp.Packet
	wret    chan error

	parked   bool // a transport write is held in the gate
	complete bool // ... and with it the current request is complete in the transport
	writes   int  // transport writes of the current request seen so far
	bytes    int
}

func has(l []int, t int) bool {
	for _, x := range l {
		if x == t {
			return true
		}
	}
	return false
}

// next waits for the next transport write of the running WritePacket (returned=false) or for its return.
func (w *writerCtl) next(t int) (returned bool, err error, stall bool) {
	select {
	case a := <-w.arrive:
		w.parked, w.complete = true, has(a.complete, t)
		w.writes++
		w.bytes += a.n
		return false, nil, false
	case err = <-w.wret:
		return true, err, false
	case <-time.After(stepTimeout):
		return false, nil, true
	}
}

func (w *writerCtl) let(err error) {
	w.release <- err
	w.parked = false
}

// passThrough runs one WritePacket to its end without holding any of its transport writes (connection set-up).
func (w *writerCtl) passThrough(p rtmp.Packet) error {
	w.wcmd <- p
	for {
		select {
		case <-w.arrive:
			w.release <- nil
		case err := <-w.wret:
			return err
		case <-time.After(stepTimeout):
			return fmt.Errorf("stall")
		}
	}
}

func init() {
	registry["sched"] = func(c *rp.Ctx, i int, raw json.RawMessage) rp.Result {
		var cs schedCase
		if err := json.Unmarshal(raw, &cs); err != nil {
			panic(err)
		}
		h := rp.ContentHash(raw) + c.Seed*7919
		size, chunk := cs.Size, cs.Chunk
		if size == 0 {
			size = matrixSizes[h%len(matrixSizes)]
		}
		if chunk == 0 {
			chunk = matrixChunks[(h/len(matrixSizes))%len(matrixChunks)]
		}
		ids := newIDMap(cs.Ids)
		partsOf := map[int][]int{} // id -> parts of the requests using it, in order
		for k, t := range cs.Reqs {
			n := 1
			if k < len(cs.Parts) {
				n = cs.Parts[k]
			}
			partsOf[t] = append(partsOf[t], n)
		}

		a, b := transport.NewPair()
		pa := rtmp.NewProtocol(a)
		peer := rtmp.NewProtocol(b) // only used to serialise the peer's responses onto A's input

		// A BYSTANDER: a second connection of the same process that has sent requests with the very same ids and
		// never gets an answer. Connections are independent: whatever happens on A, the bystander's outstanding
		// requests stay exactly as they are (and A never sees them).
		by := rtmp.NewProtocol(struct {
			io.Reader
			io.Writer
		}{bytes.NewReader(nil), ioutil.Discard})
		seenReq := map[int]bool{}
		for _, t := range cs.Reqs {
			if !seenReq[t] {
				seenReq[t] = true
				if err := by.WritePacket(sizedRequestID(t, ids.concrete(t), 0), 0); err != nil {
					rp.Bug("bystander write failed: %v", err)
				}
			}
		}
		byBefore, _ := by.VerifPending()

		w := &writerCtl{arrive: make(chan arrival, 16), release: make(chan error, 16), wcmd: make(chan rtmp.Packet, 16), wret: make(chan error, 16)}
		tr := newTracker()
		arrive, release, wcmd, wret := w.arrive, w.release, w.wcmd, w.wret
		a.Out.WriteGate = func(call int, p []byte) error {
			var complete []int
			for _, tid := range tr.completedTids(p) {
				if t, ok := ids.abstract(tid); ok {
					complete = append(complete, t)
				}
			}
			arrive <- arrival{call: call, n: len(p), complete: complete}
			return <-release // nil, or the transport's error for a write the schedule makes fail
		}
		injected := &transport.ErrInjected{What: "transport write of a request"}
		go func() {
			for p := range wcmd {
				wret <- pa.WritePacket(p, 0)
			}
		}()
		rcmd := make(chan struct{}, 16)
		rret := make(chan outcome, 16)
		go func() {
			for range rcmd {
				rret <- readOneIDs(pa, ids)
			}
		}()
		defer func() {
			close(w.wcmd)
			close(rcmd)
			// unblock anything still parked so the goroutines can end
			for k := 0; k < 8; k++ {
				select {
				case w.release <- nil:
				default:
				}
			}
			b.Out.CloseWrite()
		}()

		where := func(k int) string {
			idnote := ""
			if ids != nil {
				idnote = "; transaction ids on the wire:"
				for _, t := range cs.Reqs {
					idnote += fmt.Sprintf(" %d=%s", t, strconv.FormatFloat(ids.concrete(t), 'g', -1, 64))
				}
			}
			return fmt.Sprintf("step %d of schedule %s(output chunk size %d, sized requests carry %d bytes of arguments%s)", k, compact(cs.Sched[:k+1]), chunk, size, idnote)
		}
		// history: the output chunk size in force
		if chunk != 128 {
			scs := rtmp.NewSetChunkSize()
			scs.ChunkSize = uint32(chunk)
			if err := w.passThrough(scs); err != nil {
				return rp.Fail(i, "WritePacket(SetChunkSize %d) failed: %v", chunk, err)
			}
		}

		nres := 0
		failing, returned := false, false
		var retErr error
		for k, ev := range cs.Sched {
			var label string
			var t, flag int
			json.Unmarshal(ev[0], &label)
			json.Unmarshal(ev[1], &t)
			if len(ev) > 2 {
				json.Unmarshal(ev[2], &flag)
			}
			switch label {
			case "call":
				n := 1
				if l := partsOf[t]; len(l) > 0 {
					n, partsOf[t] = l[0], l[1:]
				}
				sz := 0
				if n > 1 {
					sz = size
				}
				w.parked, w.complete, w.writes, w.bytes = false, false, 0, 0
				failing, returned, retErr = false, false, nil
				w.wcmd <- sizedRequestID(t, ids.concrete(t), sz)
			case "register":
				// not observable: the code cannot be paused between marshal, register and the first transport write
			case "twrite":
				// The model's parts are mapped onto the transport writes the library really makes: a non-completing part
				// is the next write that leaves the request incomplete (none, if the library needs fewer writes than the
				// model has parts); the completing part (flag 1) is the write with which the independent chunk stream
				// parser has the whole request - every write before it is let through.
				for !(w.parked && w.complete) {
					if w.parked {
						w.let(nil)
					}
					ret, err, stall := w.next(t)
					if stall {
						return rp.Fail(i, "stall: %s: WritePacket(tid %d) neither reached the transport nor returned", where(k), t)
					}
					if ret {
						if err != nil {
							return rp.Fail(i, "%s: WritePacket(tid %d) failed: %v", where(k), t, err)
						}
						return rp.Fail(i, "%s: WritePacket(tid %d) returned nil after %d transport writes (%d bytes), but the request is not complete in the transport (independent chunk stream parser)",
							where(k), t, w.writes, w.bytes)
					}
					if flag == 0 {
						break
					}
				}
			case "twritefail":
				// the transport refuses the next write of the request
				if w.parked && w.complete {
					// the library needed fewer transport writes than the model: this schedule cannot be realised with it
					return rp.Result{OK: true, Nontriv: false, Info: "not realisable: the request was complete in the transport before the failing part"}
				}
				if w.parked {
					w.let(nil)
				}
				ret, err, stall := w.next(t)
				if stall {
					return rp.Fail(i, "stall: %s: WritePacket(tid %d) neither reached the transport nor returned", where(k), t)
				}
				if ret {
					return rp.Fail(i, "%s: WritePacket(tid %d) returned (%v) without handing the rest of the request to the transport", where(k), t, err)
				}
				if w.complete {
					return rp.Result{OK: true, Nontriv: false, Info: "not realisable: the failing part would be the completing write"}
				}
				failing = true
			case "return":
				for !returned {
					if w.parked {
						if failing {
							w.let(injected)
						} else {
							w.let(nil)
						}
					}
					ret, err, stall := w.next(t)
					if stall {
						return rp.Fail(i, "stall: %s: WritePacket(tid %d) did not return", where(k), t)
					}
					returned, retErr = ret, err
				}
				if failing && retErr == nil {
					return rp.Fail(i, "%s: WritePacket(tid %d) returned nil although the transport refused a part of the request", where(k), t)
				}
				if !failing && retErr != nil {
					return rp.Fail(i, "%s: WritePacket(tid %d) failed: %v", where(k), t, retErr)
				}
			case "respond":
				if err := peer.WritePacket(responseID(t, ids.concrete(t)), 0); err != nil {
					rp.Bug("peer write failed: %v", err)
				}
			case "read":
				rcmd <- struct{}{}
			case "lookup":
				var got outcome
				select {
				case got = <-rret:
				case <-time.After(stepTimeout):
					return rp.Fail(i, "stall: %s: the reader did not return for response %d", where(k), t)
				}
				var wt int
				var wres string
				json.Unmarshal(cs.Results[nres][0], &wt)
				json.Unmarshal(cs.Results[nres][1], &wres)
				nres++
				if got.tid != ids.concrete(wt) {
					return rp.Fail(i, "%s: reader got response for tid %v, schedule says %d", where(k), got.tid, wt)
				}
				if got.res != wres {
					return rp.Result{OK: false, What: fmt.Sprintf("%s: response to request %d (complete in the transport before the response was sent) decoded as %q (%v), specification says %q",
						where(k), wt, got.res, got.err, wres)}
				}
			default:
				rp.Bug("unknown schedule label %q", label)
			}
		}
		if byAfter, _ := by.VerifPending(); fmt.Sprint(byAfter) != fmt.Sprint(byBefore) {
			return rp.Fail(i, "a second connection of the same process had requests %v outstanding; after the schedule on THIS connection it has %v (connections share their transaction table)", byBefore, byAfter)
		}
		// NoLoss: everything that reached the transport was answered, so nothing may still be remembered
		// (except the id of a request whose write failed)
		tids, _ := pa.VerifPending()
		for _, t := range tids {
			stale := false
			for _, f := range cs.Failed {
				stale = stale || ids.concrete(f) == t
			}
			if !stale {
				return rp.Fail(i, "after the schedule request %v is still outstanding, specification says none", t)
			}
		}
		return rp.Result{OK: true, Nontriv: true}
	}

	batchRegistry["stress"] = stress
	batchRegistry["aim"] = aim
	batchRegistry["aim_race"] = aim // the same driver, built with the race detector
}

func compact(s [][]json.RawMessage) string {
	out := ""
	for _, e := range s {
		var l string
		var t, flag int
		json.Unmarshal(e[0], &l)
		json.Unmarshal(e[1], &t)
		if len(e) > 2 {
			json.Unmarshal(e[2], &flag)
		}
		if l == "register" || l == "read" {
			continue
		}
		if l == "twrite" && flag == 0 {
			l = "twrite-part"
		}
		out += fmt.Sprintf("%s(%d) ", l, t)
	}
	return out
}

type event struct {
	Ev  string `json:"ev"`
	T   int    `json:"t"`
	Res string `json:"res,omitempty"`
	Run int    `json:"run,omitempty"`
}

type stressCase struct {
	Runs     int `json:"runs"`
	N        int `json:"n"`
	InGatePc int `json:"ingate_pc"`
	Size     int `json:"size"`  // > 0: every request carries that many bytes of arguments
	Chunk    int `json:"chunk"` // > 0: output chunk size announced before the first request
}

// stress runs free-running writer/reader goroutines and records the events for trace validation.
func stress(c *rp.Ctx, cases []json.RawMessage) []rp.Result {
	var results []rp.Result
	f, err := os.Create(filepath.Join(traceDir(c), "trace.ndjson"))
	if err != nil {
		rp.Bug("%v", err)
	}
	defer f.Close()
	enc := json.NewEncoder(f)
	nevents := 0
	for i, raw := range cases {
		var sc stressCase
		if err := json.Unmarshal(raw, &sc); err != nil {
			panic(err)
		}
		res := rp.Result{I: i, OK: true}
		for run := 0; run < sc.Runs && res.OK; run++ {
			rng := rand.New(rand.NewSource(int64(c.Seed)*1000003 + int64(i)*7919 + int64(run)))
			evs, err := stressRun(sc, rng)
			enc.Encode(event{Ev: "reset", Run: run})
			for _, e := range evs {
				enc.Encode(e)
			}
			nevents += len(evs) + 1
			if err != nil {
				res = rp.Result{I: i, OK: false, What: fmt.Sprintf("run %d: %v", run, err)}
			}
		}
		res.Info = map[string]int{"events": nevents}
		results = append(results, res)
	}
	return results
}

func stressRun(sc stressCase, rng *rand.Rand) ([]event, error) {
	a, b := transport.NewPair()
	pa := rtmp.NewProtocol(a)
	peer := rtmp.NewProtocol(b)
	var mu sync.Mutex // protects the log AND the peer's writes, so log order = wire order
	var log []event
	record := func(e event) { log = append(log, e) }

	inGate := make([]bool, sc.N)
	for k := range inGate {
		inGate[k] = rng.Intn(100) < sc.InGatePc
	}
	late := make(chan int, sc.N)
	stop := make(chan struct{})
	respond := func(t int) {
		mu.Lock()
		defer mu.Unlock()
		select {
		case <-stop:
			return
		default:
		}
		record(event{Ev: "respond", T: t})
		if err := peer.WritePacket(response(t), 0); err != nil {
			rp.Bug("peer write failed: %v", err)
		}
	}
	// the peer has a request when the chunk stream it received so far contains the complete message,
	// whatever the number of transport writes that took
	tr := newTracker()
	complete := make([]bool, sc.N+2)
	a.Out.WriteGate = func(call int, p []byte) error {
		for _, t := range tr.completedRequests(p) {
			if t < 2 || t >= sc.N+2 || complete[t] {
				continue
			}
			mu.Lock()
			complete[t] = true
			record(event{Ev: "twrite", T: t})
			mu.Unlock()
			if inGate[t-2] {
				respond(t) // the peer answers before the writer's call has returned
			} else {
				late <- t
			}
		}
		return nil
	}
	var wg sync.WaitGroup
	werr := make(chan error, 1)
	wg.Add(3)
	go func() { // writer
		defer wg.Done()
		defer close(late)
		if sc.Chunk > 0 {
			scs := rtmp.NewSetChunkSize()
			scs.ChunkSize = uint32(sc.Chunk)
			if err := pa.WritePacket(scs, 0); err != nil {
				werr <- fmt.Errorf("WritePacket(SetChunkSize %d): %v", sc.Chunk, err)
				return
			}
		}
		for k := 0; k < sc.N; k++ {
			t := k + 2
			if err := pa.WritePacket(sizedRequest(t, sc.Size), 0); err != nil {
				werr <- fmt.Errorf("WritePacket(tid %d): %v", t, err)
				return
			}
			mu.Lock()
			ok := complete[t]
			record(event{Ev: "return", T: t})
			mu.Unlock()
			if !ok {
				werr <- fmt.Errorf("WritePacket(tid %d) returned nil, but the request is not complete in the transport (independent chunk stream parser)", t)
				return
			}
		}
	}()
	go func() { // late peer
		defer wg.Done()
		for t := range late {
			respond(t)
		}
	}()
	var rerr error
	go func() { // reader
		defer wg.Done()
		for k := 0; k < sc.N; k++ {
			o := readOne(pa)
			if o.res == "readerr" {
				select {
				case <-stop: // the writer gave up: the connection was closed under the reader
				default:
					rerr = fmt.Errorf("reader: %v", o.err)
				}
				return
			}
			res := o.res
			if res != "ok" {
				res = "fail"
			}
			mu.Lock()
			record(event{Ev: "lookup", T: int(o.tid), Res: res})
			mu.Unlock()
		}
	}()
	done := make(chan struct{})
	go func() { wg.Wait(); close(done) }()
	var werr1 error
	select {
	case <-done:
	case werr1 = <-werr:
		// no more requests: end the reader
		mu.Lock()
		close(stop)
		b.Out.CloseWrite()
		mu.Unlock()
		<-done
	case <-time.After(60 * time.Second):
		mu.Lock()
		defer mu.Unlock()
		return append([]event(nil), log...), fmt.Errorf("stall: the run did not finish")
	}
	if werr1 != nil {
		return log, werr1
	}
	select {
	case err := <-werr:
		return log, err
	default:
	}
	return log, rerr
}

// traceDir is where the recorded runs go: the -dir of the stage, a scratch directory when a single case is replayed.
func traceDir(c *rp.Ctx) string {
	if c.Dir != "" {
		return c.Dir
	}
	d, err := os.MkdirTemp("", "c04trace")
	if err != nil {
		rp.Bug("%v", err)
	}
	return d
}
