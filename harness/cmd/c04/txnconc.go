package main

import (
	"encoding/binary"
	"encoding/json"
	"fmt"
	"math"
	"math/rand"
	"os"
	"path/filepath"
	"sync"
	"time"

	"github.com/ossrs/go-oryx-lib/amf0"
	"github.com/ossrs/go-oryx-lib/rtmp"
	"verifharness/rp"
	"verifharness/transport"
)

// C04: schedules of spec/rtmp/RtmpTxnConc.tla forced onto a real rtmp.Protocol with a writer
// goroutine and a reader goroutine (gated transport, no sleeps), and free-running stress runs
// recorded for trace validation by Trace_RtmpTxnConc.tla.

var registry = map[string]rp.Replayer{}
var batchRegistry = map[string]rp.Batch{}

func main() { rp.Main(registry, batchRegistry) }

const stepTimeout = 20 * time.Second

type schedCase struct {
	Sched   [][]json.RawMessage `json:"sched"`
	Results [][]json.RawMessage `json:"results"`
	Reqs    []int               `json:"reqs"`
	Failed  []int               `json:"failed"`
}

type outcome struct {
	tid float64
	res string
	err error
}

// tidOfResult extracts the transaction id of a "_result" command payload without the library.
func tidOfResult(payload []byte) float64 {
	// 02 00 07 "_result" 00 <8 bytes>
	if len(payload) < 19 {
		return math.NaN()
	}
	return math.Float64frombits(binary.BigEndian.Uint64(payload[11:19]))
}

func request(t int) rtmp.Packet {
	p := rtmp.NewCreateStreamPacket()
	p.TransactionID = amf0.Number(float64(t))
	return p
}

func readOne(p *rtmp.Protocol) outcome {
	m, err := p.ReadMessage()
	if err != nil {
		return outcome{tid: math.NaN(), res: "readerr", err: err}
	}
	tid := tidOfResult(m.Payload)
	pkt, err := p.DecodeMessage(m)
	if err != nil {
		return outcome{tid: tid, res: "fail", err: err}
	}
	if r, ok := pkt.(*rtmp.CreateStreamResPacket); !ok || float64(r.TransactionID) != tid {
		return outcome{tid: tid, res: "wrongtype", err: fmt.Errorf("decoded as %T", pkt)}
	}
	return outcome{tid: tid, res: "ok"}
}

func init() {
	registry["sched"] = func(c *rp.Ctx, i int, raw json.RawMessage) rp.Result {
		var cs schedCase
		if err := json.Unmarshal(raw, &cs); err != nil {
			panic(err)
		}
		a, b := transport.NewPair()
		pa := rtmp.NewProtocol(a)
		peer := rtmp.NewProtocol(b) // only used to serialise the peer's responses onto A's input

		arrive := make(chan int, 16)
		release := make(chan error, 16)
		a.Out.WriteGate = func(call int, p []byte) error {
			arrive <- call
			return <-release // nil, or the transport's error for a write the schedule makes fail
		}
		injected := &transport.ErrInjected{What: "transport write of a request"}
		failing := false
		wcmd := make(chan int, 16)
		wret := make(chan error, 16)
		go func() {
			for t := range wcmd {
				wret <- pa.WritePacket(request(t), 0)
			}
		}()
		rcmd := make(chan struct{}, 16)
		rret := make(chan outcome, 16)
		go func() {
			for range rcmd {
				rret <- readOne(pa)
			}
		}()
		defer func() {
			close(wcmd)
			close(rcmd)
			// unblock anything still parked so the goroutines can end
			for k := 0; k < 8; k++ {
				select {
				case release <- nil:
				default:
				}
			}
			b.Out.CloseWrite()
		}()

		nres := 0
		for k, ev := range cs.Sched {
			var label string
			var t int
			json.Unmarshal(ev[0], &label)
			json.Unmarshal(ev[1], &t)
			switch label {
			case "call":
				wcmd <- t
			case "register":
				// not observable: the code cannot be paused between marshal, register and the transport write
			case "twrite", "twritefail":
				failing = label == "twritefail"
				select {
				case <-arrive:
				case err := <-wret:
					return rp.Fail(i, "step %d: WritePacket(tid %d) returned (%v) without handing the request to the transport", k, t, err)
				case <-time.After(stepTimeout):
					return rp.Fail(i, "stall: step %d: WritePacket(tid %d) never reached the transport", k, t)
				}
			case "return":
				if failing {
					release <- injected
				} else {
					release <- nil
				}
				select {
				case err := <-wret:
					if failing {
						if err == nil {
							return rp.Fail(i, "step %d: WritePacket(tid %d) returned nil although the transport refused the request", k, t)
						}
						failing = false
					} else if err != nil {
						return rp.Fail(i, "step %d: WritePacket(tid %d) failed: %v", k, t, err)
					}
				case <-time.After(stepTimeout):
					return rp.Fail(i, "stall: step %d: WritePacket(tid %d) did not return", k, t)
				}
			case "respond":
				if err := peer.WritePacket(rtmp.NewCreateStreamResPacket(amf0.Number(float64(t))), 0); err != nil {
					rp.Bug("peer write failed: %v", err)
				}
			case "read":
				rcmd <- struct{}{}
			case "lookup":
				var got outcome
				select {
				case got = <-rret:
				case <-time.After(stepTimeout):
					return rp.Fail(i, "stall: step %d: the reader did not return for response %d", k, t)
				}
				var wt int
				var wres string
				json.Unmarshal(cs.Results[nres][0], &wt)
				json.Unmarshal(cs.Results[nres][1], &wres)
				nres++
				if got.tid != float64(wt) {
					return rp.Fail(i, "step %d: reader got response for tid %v, schedule says %d", k, got.tid, wt)
				}
				if got.res != wres {
					return rp.Result{OK: false, What: fmt.Sprintf("step %d of schedule %s: response to request %d (handed to the transport before the response was sent) decoded as %q (%v), specification says %q",
						k, compact(cs.Sched[:k+1]), wt, got.res, got.err, wres)}
				}
			default:
				rp.Bug("unknown schedule label %q", label)
			}
		}
		// NoLoss: everything that reached the transport was answered, so nothing may still be remembered
		// (except the id of a request whose write failed)
		tids, _ := pa.VerifPending()
		for _, t := range tids {
			stale := false
			for _, f := range cs.Failed {
				stale = stale || float64(f) == t
			}
			if !stale {
				return rp.Fail(i, "after the schedule request %v is still outstanding, specification says none", t)
			}
		}
		return rp.Result{OK: true}
	}

	batchRegistry["stress"] = stress
}

func compact(s [][]json.RawMessage) string {
	out := ""
	for _, e := range s {
		var l string
		var t int
		json.Unmarshal(e[0], &l)
		json.Unmarshal(e[1], &t)
		if l == "register" || l == "read" {
			continue
		}
		out += fmt.Sprintf("%s(%d) ", l, t)
	}
	return out
}

type event struct {
	Ev  string `json:"ev"`
	T   int    `json:"t"`
	Res string `json:"res,omitempty"`
	Run int    `json:"run,omitempty"`
}

type stressCase struct {
	Runs     int `json:"runs"`
	N        int `json:"n"`
	InGatePc int `json:"ingate_pc"`
}

// stress runs free-running writer/reader goroutines and records the events for trace validation.
func stress(c *rp.Ctx, cases []json.RawMessage) []rp.Result {
	var results []rp.Result
	f, err := os.Create(filepath.Join(c.Dir, "trace.ndjson"))
	if err != nil {
		rp.Bug("%v", err)
	}
	defer f.Close()
	enc := json.NewEncoder(f)
	nevents := 0
	for i, raw := range cases {
		var sc stressCase
		if err := json.Unmarshal(raw, &sc); err != nil {
			panic(err)
		}
		res := rp.Result{I: i, OK: true}
		for run := 0; run < sc.Runs && res.OK; run++ {
			rng := rand.New(rand.NewSource(int64(c.Seed)*1000003 + int64(i)*7919 + int64(run)))
			evs, err := stressRun(sc, rng)
			enc.Encode(event{Ev: "reset", Run: run})
			for _, e := range evs {
				enc.Encode(e)
			}
			nevents += len(evs) + 1
			if err != nil {
				res = rp.Result{I: i, OK: false, What: fmt.Sprintf("run %d: %v", run, err)}
			}
		}
		res.Info = map[string]int{"events": nevents}
		results = append(results, res)
	}
	return results
}

func stressRun(sc stressCase, rng *rand.Rand) ([]event, error) {
	a, b := transport.NewPair()
	pa := rtmp.NewProtocol(a)
	peer := rtmp.NewProtocol(b)
	var mu sync.Mutex // protects the log AND the peer's writes, so log order = wire order
	var log []event
	record := func(e event) { log = append(log, e) }

	inGate := make([]bool, sc.N)
	for k := range inGate {
		inGate[k] = rng.Intn(100) < sc.InGatePc
	}
	late := make(chan int, sc.N)
	respond := func(t int) {
		mu.Lock()
		record(event{Ev: "respond", T: t})
		if err := peer.WritePacket(rtmp.NewCreateStreamResPacket(amf0.Number(float64(t))), 0); err != nil {
			rp.Bug("peer write failed: %v", err)
		}
		mu.Unlock()
	}
	a.Out.WriteGate = func(call int, p []byte) error {
		t := call + 2
		mu.Lock()
		record(event{Ev: "twrite", T: t})
		mu.Unlock()
		if inGate[call] {
			respond(t) // the peer answers before the writer's call has returned
		} else {
			late <- t
		}
		return nil
	}
	var wg sync.WaitGroup
	werr := make(chan error, 1)
	wg.Add(3)
	go func() { // writer
		defer wg.Done()
		defer close(late)
		for k := 0; k < sc.N; k++ {
			t := k + 2
			if err := pa.WritePacket(request(t), 0); err != nil {
				werr <- fmt.Errorf("WritePacket(tid %d): %v", t, err)
				return
			}
			mu.Lock()
			record(event{Ev: "return", T: t})
			mu.Unlock()
		}
	}()
	go func() { // late peer
		defer wg.Done()
		for t := range late {
			respond(t)
		}
	}()
	var rerr error
	go func() { // reader
		defer wg.Done()
		for k := 0; k < sc.N; k++ {
			o := readOne(pa)
			if o.res == "readerr" {
				rerr = fmt.Errorf("reader: %v", o.err)
				return
			}
			res := o.res
			if res != "ok" {
				res = "fail"
			}
			mu.Lock()
			record(event{Ev: "lookup", T: int(o.tid), Res: res})
			mu.Unlock()
		}
	}()
	done := make(chan struct{})
	go func() { wg.Wait(); close(done) }()
	select {
	case <-done:
	case <-time.After(60 * time.Second):
		return log, fmt.Errorf("stall: the run did not finish")
	}
	select {
	case err := <-werr:
		return log, err
	default:
	}
	return log, rerr
}
