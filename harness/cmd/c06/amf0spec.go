package main

import (
	"encoding/json"
	"fmt"

	"github.com/ossrs/go-oryx-lib/amf0"
	"verifharness/amf0x"
	"verifharness/ld"
	"verifharness/rp"
)

// C06: the library's AMF0 wire format is the one of the AMF0 specification, against
// spec/amf0/Amf0.tla with StrictKeyed = FALSE. The specification's Enc / Dec are the independent
// encoder and decoder; the library's known deviation (strict arrays written and read as count
// (name, value) pairs) is the named layout StrictKeyed, whose encoding and whose decoding outcome
// the case carries too: only a library that does exactly that is classified, anything else fails.

const keyedDeviation = "C06/strict-array-keyed"

var registry = map[string]rp.Replayer{}
var batchRegistry = map[string]rp.Batch{}

func main() { rp.Main(registry, batchRegistry) }

func init() {
	registry["amf0spec"] = func(c *rp.Ctx, i int, raw json.RawMessage) rp.Result {
		cs := amf0x.ParseCase(raw)
		switch cs.Kind {
		case "tree":
			return tree(c, i, cs)
		case "marker":
			return markerCase(c, i, cs)
		case "raw":
			return rawCase(c, i, cs)
		case "live":
			return liveCase(c, i, cs)
		}
		amf0x.Broken("unknown case kind %q", cs.Kind)
		return rp.Result{}
	}
}

// conforms: the library decodes the specification's bytes to the specification's value.
func conforms(d amf0x.Decoded, v *amf0x.Node, size int, want []byte, free []bool, seed int) error {
	if !d.OK {
		return fmt.Errorf("decoding the specification's encoding (%d bytes) failed: %v", len(want), d.Err)
	}
	if d.Size != size {
		return fmt.Errorf("Size() after decoding the specification's encoding = %d, it has %d bytes", d.Size, size)
	}
	if err := amf0x.Same(v, d.Value, seed, "v"); err != nil {
		return fmt.Errorf("decoded tree differs from the specification's value: %v", err)
	}
	again, err := d.Value.MarshalBinary()
	if err != nil {
		return fmt.Errorf("marshalling the decoded value failed: %v", err)
	}
	if df := ld.DiffFree(again, want, free); df != "" {
		return fmt.Errorf("the decoded value does not marshal back to the specification's encoding: %s", df)
	}
	return nil
}

// rawCase: a specification-conformant encoding that no encoder of the library writes (e.g. a boolean byte other
// than 0 / 1, which the AMF0 specification defines as true) is decoded to the specification's value.
func rawCase(c *rp.Ctx, i int, cs *amf0x.Case) rp.Result {
	wire := amf0x.MustLD(cs.Wire, c.Seed)
	if len(wire) != cs.Size {
		amf0x.Broken("case %d: wire has %d bytes, size says %d", i, len(wire), cs.Size)
	}
	d := amf0x.Decode(wire)
	if !d.OK {
		return rp.Fail(i, "decoding a specification-conformant encoding (% x) failed: %v", wire, d.Err)
	}
	if d.Size != cs.Size {
		return rp.Fail(i, "Size() after decoding % x = %d, it has %d bytes", wire, d.Size, cs.Size)
	}
	if err := amf0x.Same(&cs.V, d.Value, c.Seed, "v"); err != nil {
		return rp.Fail(i, "specification-conformant encoding % x decoded to a different value: %v", wire, err)
	}
	return rp.Result{OK: true, Nontriv: true}
}

func tree(c *rp.Ctx, i int, cs *amf0x.Case) rp.Result {
	seed := c.Seed
	if cs.HasStrict {
		// the deviation's decoding outcome depends on content bytes: it is predicted for the seed-0 pattern
		seed = 0
		if cs.Dk == nil || len(cs.EncKeyed) == 0 {
			amf0x.Broken("case %d: strict array without the deviation's expectation", i)
		}
	}
	// free: the ECMA associative count - the specification's decoder ignores it (it reads pairs up to the object-end
	// marker), so any value there "is decoded to the same value by an independent decoder"
	want, free := amf0x.MustLDFree(cs.Enc, seed)
	if len(want) != cs.Size {
		amf0x.Broken("case %d: encoding has %d bytes, size says %d", i, len(want), cs.Size)
	}

	// library -> specification: the bytes the library writes are the specification's encoding
	// (the independent decoder maps exactly those bytes to v: MC invariant RoundTrip)
	var encDev, decDev string
	if cs.API {
		a := amf0x.Build(&cs.V, seed)
		got, err := a.MarshalBinary()
		if err != nil {
			return rp.Fail(i, "MarshalBinary failed: %v", err)
		}
		if df := ld.DiffFree(got, want, free); df != "" {
			what := "library bytes differ from the AMF0 specification's encoding: " + df
			if !cs.HasStrict {
				return rp.Fail(i, "%s", what)
			}
			keyed, kfree := amf0x.MustLDFree(cs.EncKeyed, seed)
			if df := ld.DiffFree(got, keyed, kfree); df != "" {
				return rp.Fail(i, "%s; and from the StrictKeyed layout as well: %s", what, df)
			}
			encDev = what + " (they are exactly the StrictKeyed layout: count, then (name, value) pairs)"
		}
	}

	// specification -> library: the library decodes the specification's encoding to v
	d := amf0x.Decode(want)
	if err := conforms(d, &cs.V, cs.Size, want, free, seed); err != nil {
		if !cs.HasStrict {
			return rp.Fail(i, "%v", err)
		}
		if ok, why := cs.Dk.Matches(d); !ok {
			return rp.Fail(i, "%v; and this is not the StrictKeyed deviation either: %s", err, why)
		}
		decDev = err.Error() + " (exactly what a StrictKeyed decoder does with these bytes)"
	}

	switch {
	case encDev == "" && decDev == "":
		return rp.Result{OK: true, Nontriv: true}
	case cs.API && (encDev == "") != (decDev == ""):
		return rp.Fail(i, "the library follows the specification on one side and the StrictKeyed layout on the other: encoder: %q decoder: %q", encDev, decDev)
	}
	what := decDev
	if encDev != "" {
		what = encDev
	}
	return rp.Result{OK: false, Deviation: keyedDeviation, What: what, Nontriv: true}
}

// liveCase: a history of calls on live objects (spec/amf0/Amf0Live.tla). Whatever was marshalled, changed below,
// decoded or moved before: the bytes the library writes for the node the behaviour observes are the AMF0
// specification's encoding of the value that node has NOW (the independent decoder maps exactly those bytes to
// that value: MC invariant LiveDecodes). A value that holds a strict array with elements may be written in the
// layout StrictKeyed instead - exactly that layout - which is the known finding; the history goes on.
func liveCase(c *rp.Ctx, i int, cs *amf0x.Case) rp.Result {
	dev := ""
	k, what := amf0x.RunLive(cs.Steps, c.Seed, func(k int, st *amf0x.Step, a amf0.Amf0) string {
		want, free := amf0x.MustLDFree(st.Enc, c.Seed)
		if len(want) != st.Size {
			amf0x.Broken("case %d step %d: encoding has %d bytes, size says %d", i, k, len(want), st.Size)
		}
		got, err := a.MarshalBinary()
		if err != nil {
			return fmt.Sprintf("MarshalBinary of node #%d failed: %v", st.N, err)
		}
		// the bytes belong to the caller: later calls of the history must not change them
		c.Hold(i, fmt.Sprintf("bytes MarshalBinary returned for node #%d at step %d", st.N, k), got)
		df := ld.DiffFree(got, want, free)
		if df == "" {
			return ""
		}
		what := fmt.Sprintf("node #%d: library bytes differ from the AMF0 specification's encoding of its current value: %s", st.N, df)
		if !st.HasStrict {
			return what
		}
		if len(st.EncKeyed) == 0 {
			amf0x.Broken("case %d step %d: strict array without the deviation's expectation", i, k)
		}
		keyed, kfree := amf0x.MustLDFree(st.EncKeyed, c.Seed)
		if df := ld.DiffFree(got, keyed, kfree); df != "" {
			return what + "; and from the StrictKeyed layout of its current value as well: " + df
		}
		if dev == "" {
			dev = fmt.Sprintf("history [%s]: %s (they are exactly the StrictKeyed layout: count, then (name, value) pairs)", amf0x.History(cs.Steps, k), what)
		}
		return ""
	})
	if k >= 0 {
		return rp.Fail(i, "history [%s]: step %d: %s", amf0x.History(cs.Steps, k), k, what)
	}
	if dev != "" {
		return rp.Result{OK: false, Deviation: keyedDeviation, What: dev, Nontriv: true}
	}
	return rp.Result{OK: true, Nontriv: true}
}

func freeHead(free []bool, n int) []bool {
	if free == nil {
		return nil
	}
	return free[:n]
}

// readsKeyed probes whether the library reads strict arrays in the StrictKeyed layout (the vector
// is the one the library's unit tests pin: count 1, name "e", null).
func readsKeyed() bool {
	d := amf0x.Decode([]byte{10, 0, 0, 0, 1, 0, 1, 'e', 5})
	return d.OK && d.Size == 9
}

// classOf is the library's marker table entry, in the words of the specification's Discover.
func classOf(p []byte) string {
	a, err := amf0.Discovery(p)
	if err != nil {
		return "error"
	}
	if a == nil {
		return "nil without error"
	}
	return amf0x.Kind(a)
}

func markerCase(c *rp.Ctx, i int, cs *amf0x.Case) rp.Result {
	m := byte(cs.M)
	if len(cs.Items) == 0 || cs.Items[0].W != "top" {
		amf0x.Broken("case %d: marker case without a top item", i)
	}
	top := amf0x.MustLD(cs.Items[0].Enc, 0)
	if top[0] != m {
		amf0x.Broken("case %d: top item does not start with the marker", i)
	}
	// the marker table
	for _, p := range [][]byte{{m}, top} {
		if got := classOf(p); got != cs.Class {
			return rp.Fail(i, "Discovery of marker %#02x (%d bytes): library says %s, the specification %s", m, len(p), got, cs.Class)
		}
	}
	// no typed decoder accepts a marker that is not its own
	typed := []struct {
		kind string
		v    amf0.Amf0
	}{
		{"num", amf0.NewNumber(0)}, {"bool", amf0.NewBoolean(false)}, {"str", amf0.NewString("")},
		{"obj", amf0.NewObject()}, {"null", amf0.NewNull()}, {"undef", amf0.NewUndefined()},
		{"ecma", amf0.NewEcmaArray()}, {"strict", amf0.NewStrictArray()},
	}
	for _, t := range typed {
		err := t.v.UnmarshalBinary(top)
		if (err == nil) != (t.kind == cs.Class) {
			return rp.Fail(i, "marker %#02x (%s): UnmarshalBinary of a %s value returned %v", m, cs.Class, t.kind, err)
		}
		if err == nil && t.v.Size() != cs.Items[0].Size {
			return rp.Fail(i, "marker %#02x: %s value has Size() %d after decoding, the specification consumed %d", m, t.kind, t.v.Size(), cs.Items[0].Size)
		}
	}
	// the marker in every position a value can have
	dev := ""
	for _, it := range cs.Items {
		if it.W == "keyed" && !readsKeyed() {
			// (name, value) pairs in a strict array are not an encoding of the specification: only a
			// library that reads them owes an error for an unsupported marker among them
			continue
		}
		b, free := amf0x.MustLDFree(it.Enc, 0)
		d := amf0x.Decode(b)
		what := ""
		switch {
		case d.OK && !it.OK:
			what = fmt.Sprintf("marker %#02x in position %q: the library decodes % x (Size() %d), the specification says it is an error", m, it.W, b, d.Size)
		case !d.OK && it.OK:
			what = fmt.Sprintf("marker %#02x in position %q: the library rejects % x (%v), the specification decodes %d bytes", m, it.W, b, d.Err, it.Size)
		case d.OK && d.Size != it.Size:
			what = fmt.Sprintf("marker %#02x in position %q: the library's Size() is %d, the specification consumed %d of % x", m, it.W, d.Size, it.Size, b)
		case d.OK:
			if re, err := d.Value.MarshalBinary(); err != nil || ld.DiffFree(re, b[:it.Size], freeHead(free, it.Size)) != "" {
				what = fmt.Sprintf("marker %#02x in position %q: the decoded value marshals to % x (%v), not to the % x it was read from", m, it.W, re, err, b[:it.Size])
			}
		}
		if what == "" {
			continue
		}
		if it.Dk == nil {
			return rp.Fail(i, "%s", what)
		}
		if ok, why := it.Dk.Matches(d); !ok {
			return rp.Fail(i, "%s; and this is not the StrictKeyed deviation either: %s", what, why)
		}
		dev = what + " (exactly what a StrictKeyed decoder does with these bytes)"
	}
	if dev != "" {
		return rp.Result{OK: false, Deviation: keyedDeviation, What: dev, Nontriv: true}
	}
	return rp.Result{OK: true, Nontriv: true}
}
