package main

import (
	"bytes"
	"encoding/json"
	"fmt"
	"hash/fnv"
	"io"
	"math/rand"
	"os"
	"runtime"
	"runtime/debug"
	"sync"
	"sync/atomic"
	"time"

	oerrors "github.com/ossrs/go-oryx-lib/errors"
	"github.com/ossrs/go-oryx-lib/flv"
	"verifharness/ld"
	"verifharness/rp"
)

// C09: FLV files against spec/flv/FlvFile.tla.
//
//	kind "file"  (Gen_FlvFile):  one whole file = header flags + tags, with the specification's bytes (FileEnc)
//	             (Gen_FlvSweep): the same, one file for EVERY body size (stage "flvsweep"): implementation boundaries
//	kind "sched" (Gen_FlvSched): a behaviour of the call-level state machine: muxer calls, segment deliveries
//	                             and demuxer calls interleaved, with the specification's result of every call

type flvTag struct {
	T  int      `json:"t"`
	Ts [2]int64 `json:"ts"` // <<bits 24..31, bits 0..23>>
	N  int      `json:"n"`
	ID int      `json:"id"`
}

func (t flvTag) ts32() uint32 { return uint32(t.Ts[0])<<24 | uint32(t.Ts[1]) }

type flvStep struct {
	Op      string   `json:"op"`
	N       int      `json:"n"`
	Eof     bool     `json:"eof"` // Deliver: end-of-stream is reported by the Read that hands out the last of these bytes
	K       int      `json:"k"`
	Flen    int      `json:"flen"`
	Pos     int      `json:"pos"`
	Version int      `json:"version"`
	Video   bool     `json:"video"`
	Audio   bool     `json:"audio"`
	T       int      `json:"t"`
	Ts      [2]int64 `json:"ts"`
}

type flvCase struct {
	Kind  string `json:"kind"`
	Fam   string `json:"fam"`
	Flags struct {
		Video bool `json:"video"`
		Audio bool `json:"audio"`
	} `json:"flags"`
	Tags []flvTag        `json:"tags"`
	Enc  json.RawMessage `json:"enc"`
	Len  int             `json:"len"`
	Hdr  struct {
		Version int  `json:"version"`
		Video   bool `json:"video"`
		Audio   bool `json:"audio"`
	} `json:"hdr"`
	Steps []flvStep `json:"steps"`
}

var registry = map[string]rp.Replayer{}
var batchRegistry = map[string]rp.Batch{}

func main() { rp.Main(registry, batchRegistry) }

func init() {
	registry["flvfile"] = replayFile
	batchRegistry["flvsweep"] = sweepBatch
	registry["flvsched"] = replaySched
}

// ------------------------------------------------------------ stage "flvsweep"

// sweepBatch replays the files of the size sweep (tens of thousands of independent files, the cost of each linear in
// its body size because of the 1-byte segmentation) on several goroutines. Every case is a closed experiment with its
// own muxer, demuxer, writer and reader; results come back in the order of the cases. A panic escaping the library is
// the verdict of that case, a call that never returns is a "stall" verdict; a malformed case is a harness bug (exit 3).
func sweepBatch(c *rp.Ctx, cases []json.RawMessage) []rp.Result {
	out := make([]rp.Result, len(cases))
	workers := runtime.NumCPU()
	if workers > 8 {
		workers = 8
	}
	if workers < 1 {
		workers = 1
	}
	var next int64 = -1
	var wg sync.WaitGroup
	for w := 0; w < workers; w++ {
		wg.Add(1)
		go func() {
			defer wg.Done()
			for {
				i := int(atomic.AddInt64(&next, 1))
				if i >= len(cases) {
					return
				}
				out[i] = guarded(c, i, cases[i])
			}
		}()
	}
	wg.Wait()
	return out
}

func guarded(c *rp.Ctx, i int, raw json.RawMessage) rp.Result {
	done := make(chan rp.Result, 1)
	go func() {
		var r rp.Result
		defer func() {
			if e := recover(); e != nil {
				switch e.(type) {
				case rp.HarnessBug, *json.UnmarshalTypeError, *json.SyntaxError, *json.InvalidUnmarshalError:
					fmt.Fprintf(os.Stderr, "replay: harness bug on case %d: %v\n%s\n", i, e, debug.Stack())
					os.Exit(3)
				}
				r = rp.Result{I: i, OK: false, What: fmt.Sprintf("panic: %v", e), Observed: string(debug.Stack())}
			}
			done <- r
		}()
		r = replayFile(c, i, raw)
		r.I = i
	}()
	select {
	case r := <-done:
		return r
	case <-time.After(rp.CaseTimeout):
		return rp.Result{I: i, OK: false, What: fmt.Sprintf("stall: the case did not finish within %v (a call into the library never returned)", rp.CaseTimeout)}
	}
}

// ------------------------------------------------------------------ readers

// segReader hands out a complete byte string in segments: "whole" (as much as the caller takes),
// "one" (1 byte per Read) or "random" (seeded sizes between 1 byte and 128 KiB).
//
// eofWithData: the Read that hands out the last byte reports io.EOF in the same call (n > 0, io.EOF - the io.Reader
// contract allows it; network, HTTP body and decompressing readers do it); otherwise end-of-stream is a Read of its
// own (0, io.EOF) as with bytes.Reader or os.File. FlvFile.tla: DeliverFinal / eofWith.
type segReader struct {
	data        []byte
	pos         int
	mode        string
	eofWithData bool
	rng         *rand.Rand
	reads       int
}

func (r *segReader) Read(p []byte) (int, error) {
	if len(p) == 0 {
		return 0, nil
	}
	if r.pos >= len(r.data) {
		return 0, io.EOF
	}
	n := len(r.data) - r.pos
	switch r.mode {
	case "one":
		n = 1
	case "random":
		m := 1 + r.rng.Intn(1<<uint(r.rng.Intn(18)))
		if m < n {
			n = m
		}
	}
	if n > len(p) {
		n = len(p)
	}
	copy(p, r.data[r.pos:r.pos+n])
	r.pos += n
	r.reads++
	if r.eofWithData && r.pos == len(r.data) {
		return n, io.EOF
	}
	return n, nil
}

// ------------------------------------------------------- the caller's memory

// callerMem is FlvFile.tla's arena: the bodies of all tags of a file lie adjacent, in file order, in ONE buffer of the
// caller (tags cut out of a receive buffer without copying). WriteTag k gets the window [off, off+n) of it, a slice
// whose capacity reaches to the end of the buffer, so the bodies of the later tags are its spare capacity; the last
// body has cap == len like a body allocated on its own. snap is the application's copy taken before the first call:
// all expectations (layout, demuxed bodies) come from it, and after every call into the muxer the caller's memory
// must still equal it (InputsUntouched).
type callerMem struct {
	arena, snap []byte
	off         []int
}

func newCallerMem(tags []flvTag, seed int) *callerMem {
	m := &callerMem{off: make([]int, len(tags)+1)}
	total := 0
	for k, t := range tags {
		m.off[k] = total
		total += t.N
	}
	m.off[len(tags)] = total
	m.arena = make([]byte, 0, total)
	for _, t := range tags {
		m.arena = append(m.arena, ld.FillBytes(t.N, t.ID, seed)...)
	}
	m.snap = append([]byte(nil), m.arena...)
	return m
}

// body is what the caller hands to WriteTag (len n, capacity up to the end of its buffer).
func (m *callerMem) body(k int) []byte { return m.arena[m.off[k]:m.off[k+1]] }

// built is the body as the application built it.
func (m *callerMem) built(k int) []byte { return m.snap[m.off[k]:m.off[k+1]:m.off[k+1]] }

func (m *callerMem) builtAll() [][]byte {
	b := make([][]byte, len(m.off)-1)
	for k := range b {
		b[k] = m.built(k)
	}
	return b
}

// untouched compares the caller's memory with the snapshot after WriteTag k (0-based) returned.
func (m *callerMem) untouched(k int, tags []flvTag) (what, deviation string) {
	if bytes.Equal(m.arena, m.snap) {
		return "", ""
	}
	j := 0
	for m.arena[j] == m.snap[j] {
		j++
	}
	owner := 0
	for owner+1 < len(tags) && j >= m.off[owner+1] {
		owner++
	}
	what = fmt.Sprintf("WriteTag %d (%d byte body at offset %d of the caller's %d byte buffer) wrote into the caller's memory: offset %d "+
		"(byte %d of the body of tag %d) was %#02x and is now %#02x; the muxer must only read its inputs (bodies were adjacent "+
		"windows of one buffer, so this is the body of another tag)", k+1, tags[k].N, m.off[k], len(m.arena), j, j-m.off[owner], owner+1, m.snap[j], m.arena[j])
	// mux-append-in-place: exactly PreviousTagSize of tag k stored right behind its body
	end := m.off[k+1]
	if len(m.arena)-end >= 4 {
		x := append([]byte(nil), m.snap...)
		pts := uint32(11 + tags[k].N)
		x[end], x[end+1], x[end+2], x[end+3] = byte(pts>>24), byte(pts>>16), byte(pts>>8), byte(pts)
		if bytes.Equal(x, m.arena) {
			deviation = "C09/mux-append-in-place"
		}
	}
	return
}

// devError is a failed expectation that equals a deviation the specification names.
type devError struct{ msg, dev string }

func (e devError) Error() string { return e.msg }

func devOf(err error) string {
	if d, ok := err.(devError); ok {
		return d.dev
	}
	return ""
}

func isEOFClass(err error) bool {
	c := oerrors.Cause(err)
	return c == io.EOF || c == io.ErrUnexpectedEOF || err == io.EOF || err == io.ErrUnexpectedEOF
}

// caseSeed does not depend on key order or spacing of the case's JSON (vcheck re-serialises a failing case before
// replaying it alone: the "random" segmentation must then be the same one).
func caseSeed(seed int, content int, salt string) int64 {
	h := fnv.New64a()
	fmt.Fprintf(h, "%d", content)
	h.Write([]byte(salt))
	return int64(h.Sum64()>>1) ^ int64(seed)*0x9E3779B1
}

// ------------------------------------------------------------- kind "file"

// demuxCheck reads `data` through the library's demuxer under one segmentation and compares every
// returned value with the case. which = "library-written" / "specification-written".
func demuxCheck(cs *flvCase, bodies [][]byte, data []byte, which, mode string, eofWithData bool, sseed int64) error {
	r := &segReader{data: data, mode: mode, eofWithData: eofWithData}
	if eofWithData {
		mode += "+eof (the last bytes come together with io.EOF)"
	}
	if r.mode == "random" {
		r.rng = rand.New(rand.NewSource(sseed))
	}
	d, err := flv.NewDemuxer(r)
	if err != nil {
		return fmt.Errorf("NewDemuxer: %v", err)
	}
	defer d.Close()
	where := fmt.Sprintf("%s file, segmentation %q", which, mode)
	ver, hv, ha, err := d.ReadHeader()
	if err != nil {
		return fmt.Errorf("%s: ReadHeader failed: %v", where, err)
	}
	if int(ver) != cs.Hdr.Version || hv != cs.Hdr.Video || ha != cs.Hdr.Audio {
		return fmt.Errorf("%s: ReadHeader = (version %d, hasVideo %v, hasAudio %v), want (%d, %v, %v)",
			where, ver, hv, ha, cs.Hdr.Version, cs.Hdr.Video, cs.Hdr.Audio)
	}
	var held [][]byte
	for k, t := range cs.Tags {
		tt, size, ts, err := d.ReadTagHeader()
		if err != nil {
			return fmt.Errorf("%s: tag %d of %d: ReadTagHeader failed at offset %d: %v", where, k+1, len(cs.Tags), r.pos, err)
		}
		if int(tt) != t.T || int(size) != t.N || ts != t.ts32() {
			return fmt.Errorf("%s: tag %d: ReadTagHeader = (type %d, size %d, timestamp %#x), written (type %d, size %d, timestamp %#x)",
				where, k+1, tt, size, ts, t.T, t.N, t.ts32())
		}
		body, err := d.ReadTag(size)
		rp.Alive()
		if err != nil {
			e := devError{msg: fmt.Sprintf("%s: tag %d of %d: ReadTag(%d) failed although all %d bytes of the file were handed out (reader at offset %d): %v",
				where, k+1, len(cs.Tags), size, len(data), r.pos, err)}
			if eofWithData && r.pos == len(data) && isEOFClass(err) {
				e.dev = "C09/demux-err-before-n" // the bytes that came with io.EOF were dropped
			}
			return e
		}
		if !bytes.Equal(body, bodies[k]) {
			return fmt.Errorf("%s: tag %d: body differs from the body written: %s", where, k+1, rp.FirstDiff(body, bodies[k]))
		}
		held = append(held, body)
	}
	// a tag handed out stays what it was while later tags are read (no recycled buffers)
	for k, body := range held {
		if !bytes.Equal(body, bodies[k]) {
			return fmt.Errorf("%s: tag %d: its body changed after later tags were read: %s", where, k+1, rp.FirstDiff(body, bodies[k]))
		}
	}
	// the end: no further tag, an EOF-class error, every byte consumed
	tt, size, ts, err := d.ReadTagHeader()
	if err == nil {
		return fmt.Errorf("%s: after the last of %d tags ReadTagHeader returned one more tag (type %d, size %d, timestamp %#x) instead of EOF",
			where, len(cs.Tags), tt, size, ts)
	}
	if !isEOFClass(err) {
		return fmt.Errorf("%s: after the last tag ReadTagHeader failed with %q, want io.EOF", where, err)
	}
	if r.pos != len(data) {
		return fmt.Errorf("%s: EOF reported with %d of %d bytes consumed", where, r.pos, len(data))
	}
	return nil
}

func replayFile(c *rp.Ctx, i int, raw json.RawMessage) rp.Result {
	var cs flvCase
	if err := json.Unmarshal(raw, &cs); err != nil {
		panic(err)
	}
	l, err := ld.Parse(cs.Enc)
	if err != nil {
		panic(err)
	}
	want := l.Must(c.Seed) // the file as the specification writes it
	if len(want) != cs.Len {
		panic(fmt.Sprintf("LD expands to %d bytes, the specification says %d", len(want), cs.Len))
	}
	mem := newCallerMem(cs.Tags, c.Seed) // the bodies as adjacent windows of one buffer of the caller
	bodies := mem.builtAll()             // ... and as the application built them (snapshot)
	rp.Alive()

	// (a) the library's muxer writes exactly the layout
	w := &bytes.Buffer{}
	m, err := flv.NewMuxer(w)
	if err != nil {
		return rp.Fail(i, "NewMuxer: %v", err)
	}
	if err := m.WriteHeader(cs.Flags.Video, cs.Flags.Audio); err != nil {
		return rp.Fail(i, "WriteHeader(%v, %v) failed: %v", cs.Flags.Video, cs.Flags.Audio, err)
	}
	var res rp.Result
	res.OK = true
	res.Nontriv = true
	for k, t := range cs.Tags {
		if err := m.WriteTag(flv.TagType(t.T), t.ts32(), mem.body(k)); err != nil {
			return rp.Fail(i, "WriteTag %d (type %d, timestamp %#x, %d bytes) failed: %v", k+1, t.T, t.ts32(), t.N, err)
		}
		rp.Alive()
		if what, dev := mem.untouched(k, cs.Tags); what != "" && res.OK {
			res = rp.Result{OK: false, Nontriv: true, What: what, Deviation: dev}
		}
	}
	if err := m.Close(); err != nil {
		return rp.Fail(i, "muxer Close failed: %v", err)
	}
	got := w.Bytes()
	if !bytes.Equal(got, want) {
		what := "bytes written by the muxer differ from the FLV layout of the tags handed to it: " + describeDiff(got, want, cs.Tags)
		if res.OK {
			res = rp.Result{OK: false, Nontriv: true, What: what, Deviation: classifyFile(got, want, cs.Tags)}
		} else {
			res.What += " | " + what
		}
	}

	// (b) library-written and (c) specification-written bytes are demuxed to the tags written, under each segmentation
	content := rp.ContentHash(raw)
	// Segmentations: whole / 1 byte per Read / random, each with end-of-stream as a Read of its own and with end-of-stream
	// delivered together with the last bytes. When the library wrote exactly the specification's bytes one byte string is
	// both files; otherwise the library-written bytes are demuxed as well.
	same := bytes.Equal(got, want)
	note := func(err error) {
		if res.OK {
			res = rp.Result{OK: false, Nontriv: true, What: err.Error(), Deviation: devOf(err)}
		} else {
			res.What += " | " + err.Error()
		}
	}
	which := "specification-written"
	if same {
		which = "specification-written (= library-written)"
	}
modes:
	for _, mode := range []string{"whole", "one", "random"} {
		sseed := caseSeed(c.Seed, content, mode)
		for _, eof := range []bool{false, true} {
			if err := demuxCheck(&cs, bodies, want, which, mode, eof, sseed); err != nil {
				note(err)
				break modes
			}
			if !same {
				if err := demuxCheck(&cs, bodies, got, "library-written", mode, eof, sseed); err != nil {
					note(err)
					break modes
				}
			}
		}
	}
	return res
}

// describeDiff says which field of which tag the first differing byte belongs to.
func describeDiff(got, want []byte, tags []flvTag) string {
	s := rp.FirstDiff(got, want)
	n := len(got)
	if len(want) < n {
		n = len(want)
	}
	off := -1
	for j := 0; j < n; j++ {
		if got[j] != want[j] {
			off = j
			break
		}
	}
	if off < 0 {
		return s
	}
	return s + " (" + locate(off, tags) + ")"
}

func locate(off int, tags []flvTag) string {
	switch {
	case off < 3:
		return "signature"
	case off == 3:
		return "version"
	case off == 4:
		return "flags byte"
	case off < 9:
		return "data offset"
	case off < 13:
		return "PreviousTagSize0"
	}
	p := 13
	for k, t := range tags {
		q := off - p
		switch {
		case q < 0:
		case q == 0:
			return fmt.Sprintf("tag %d: type byte", k+1)
		case q < 4:
			return fmt.Sprintf("tag %d: data size byte %d", k+1, q-1)
		case q < 7:
			return fmt.Sprintf("tag %d: timestamp (low 24 bits) byte %d", k+1, q-4)
		case q == 7:
			return fmt.Sprintf("tag %d: timestamp extension byte", k+1)
		case q < 11:
			return fmt.Sprintf("tag %d: stream id", k+1)
		case q < 11+t.N:
			return fmt.Sprintf("tag %d: body offset %d", k+1, q-11)
		case q < 15+t.N:
			return fmt.Sprintf("tag %d: PreviousTagSize byte %d", k+1, q-11-t.N)
		}
		p += 15 + t.N
	}
	return "beyond the last tag"
}

// classifyFile names the deviations the specification knows (FlvFile.tla, constant Deviation).
func classifyFile(got, want []byte, tags []flvTag) string {
	if len(tags) == 0 {
		return ""
	}
	if d := len(want) - len(got); d >= 1 && d <= 4 {
		// mux-scratch-trunc: the layout with the last d bytes of ONE tag's PreviousTagSize missing
		p := 13
		for _, t := range tags {
			e := p + 15 + t.N // end of this tag in the layout
			if e-d <= len(got) && bytes.Equal(got[:e-d], want[:e-d]) && bytes.Equal(got[e-d:], want[e:]) {
				return "C09/mux-scratch-trunc"
			}
			p = e
		}
		return ""
	}
	if len(got) != len(want) {
		return ""
	}
	pts := append([]byte(nil), want...)
	ext := append([]byte(nil), want...)
	p := 13
	for _, t := range tags {
		q := p + 11 + t.N
		pts[q], pts[q+1], pts[q+2], pts[q+3] = byte(t.N>>24), byte(t.N>>16), byte(t.N>>8), byte(t.N)
		ext[p+4], ext[p+5], ext[p+6], ext[p+7] = want[p+7], want[p+4], want[p+5], want[p+6]
		p += 15 + t.N
	}
	if bytes.Equal(got, pts) {
		return "C09/prev-tag-size-body-only"
	}
	if bytes.Equal(got, ext) {
		return "C09/ts-ext-first"
	}
	return ""
}

// ------------------------------------------------------------ kind "sched"

var errWouldBlock = fmt.Errorf("the call asks for more bytes than have been delivered")

// schedReader reads the file while it is being written; only what the schedule delivered, in the
// schedule's segments.
type schedReader struct {
	w       *bytes.Buffer
	segs    []int
	eofSeg  int // index (in the sequence of all segments delivered) of the one that ends with io.EOF, or -1
	served  int // segments completely handed out
	pos     int
	closed  bool
	blocked int
}

func (r *schedReader) Read(p []byte) (int, error) {
	if len(p) == 0 {
		return 0, nil
	}
	for len(r.segs) > 0 && r.segs[0] == 0 {
		r.segs = r.segs[1:]
		r.served++
	}
	if len(r.segs) == 0 {
		if r.closed && r.pos == r.w.Len() {
			return 0, io.EOF
		}
		r.blocked++
		return 0, errWouldBlock
	}
	n := r.segs[0]
	if n > len(p) {
		n = len(p)
	}
	copy(p, r.w.Bytes()[r.pos:r.pos+n])
	r.pos += n
	r.segs[0] -= n
	if r.segs[0] == 0 && r.served == r.eofSeg {
		return n, io.EOF // the last bytes of the finished file, together with end-of-stream
	}
	return n, nil
}

func replaySched(c *rp.Ctx, i int, raw json.RawMessage) rp.Result {
	var cs flvCase
	if err := json.Unmarshal(raw, &cs); err != nil {
		panic(err)
	}
	l, err := ld.Parse(cs.Enc)
	if err != nil {
		panic(err)
	}
	want := l.Must(c.Seed)
	mem := newCallerMem(cs.Tags, c.Seed)
	bodies := mem.builtAll()
	w := &bytes.Buffer{}
	m, err := flv.NewMuxer(w)
	if err != nil {
		return rp.Fail(i, "NewMuxer: %v", err)
	}
	r := &schedReader{w: w, eofSeg: -1}
	nsegs := 0
	d, err := flv.NewDemuxer(r)
	if err != nil {
		return rp.Fail(i, "NewDemuxer: %v", err)
	}
	defer d.Close()
	delivered := 0
	var size uint32 // as returned by the last ReadTagHeader
	posNotes := []string{}
	for si, s := range cs.Steps {
		at := fmt.Sprintf("step %d %s", si, s.Op)
		blockedBefore := r.blocked
		explain := func(err error) string {
			if r.blocked > blockedBefore {
				return fmt.Sprintf("%v [the demuxer wanted more bytes than the layout gives this call: consumed %d, delivered %d, specification's position after the call %d]",
					err, r.pos, delivered, s.Pos)
			}
			return fmt.Sprint(err)
		}
		switch s.Op {
		case "WriteHeader":
			if err := m.WriteHeader(cs.Flags.Video, cs.Flags.Audio); err != nil {
				return rp.Fail(i, "%s failed: %v", at, err)
			}
			if w.Len() != s.Flen {
				return rp.Fail(i, "%s: file is %d bytes long, the layout says %d", at, w.Len(), s.Flen)
			}
		case "WriteTag":
			t := cs.Tags[s.K-1]
			before := w.Len()
			if err := m.WriteTag(flv.TagType(t.T), t.ts32(), mem.body(s.K-1)); err != nil {
				return rp.Fail(i, "%s %d failed: %v", at, s.K, err)
			}
			if what, dev := mem.untouched(s.K-1, cs.Tags); what != "" {
				return rp.Result{I: i, OK: false, Nontriv: true, What: at + ": " + what, Deviation: dev}
			}
			if w.Len() != s.Flen {
				return rp.Fail(i, "%s %d (%d byte body): wrote %d bytes, the layout says %d", at, s.K, t.N, w.Len()-before, s.Flen-before)
			}
		case "CloseMux":
			if err := m.Close(); err != nil {
				return rp.Fail(i, "%s failed: %v", at, err)
			}
			r.closed = true
		case "Deliver":
			if delivered+s.N > w.Len() {
				// the specification's file is longer than the library's: reported by the WriteTag check; cannot continue
				return rp.Fail(i, "%s: %d bytes to deliver but the library wrote only %d", at, delivered+s.N, w.Len())
			}
			delivered += s.N
			r.segs = append(r.segs, s.N)
			if s.Eof {
				if !r.closed || delivered != w.Len() || s.N == 0 {
					rp.Bug("schedule: end-of-stream with data must be the last, non-empty segment of a closed file")
				}
				r.eofSeg = nsegs
			}
			nsegs++
		case "ReadHeader":
			ver, hv, ha, err := d.ReadHeader()
			if err != nil {
				return rp.Fail(i, "%s failed: %s", at, explain(err))
			}
			if int(ver) != s.Version || hv != s.Video || ha != s.Audio {
				return rp.Fail(i, "%s = (version %d, hasVideo %v, hasAudio %v), specification (%d, %v, %v)", at, ver, hv, ha, s.Version, s.Video, s.Audio)
			}
		case "ReadTagHeader":
			tt, sz, ts, err := d.ReadTagHeader()
			if err != nil {
				return rp.Fail(i, "%s failed: %s", at, explain(err))
			}
			wantTs := uint32(s.Ts[0])<<24 | uint32(s.Ts[1])
			if int(tt) != s.T || int(sz) != s.N || ts != wantTs {
				return rp.Fail(i, "%s = (type %d, size %d, timestamp %#x), specification (type %d, size %d, timestamp %#x)", at, tt, sz, ts, s.T, s.N, wantTs)
			}
			size = sz
		case "ReadTag":
			body, err := d.ReadTag(size)
			if err != nil {
				res := rp.Fail(i, "%s(%d) failed: %s", at, size, explain(err))
				if r.eofSeg >= 0 && r.pos == w.Len() && isEOFClass(err) {
					res.What += " [the last bytes were delivered together with io.EOF]"
					res.Deviation = "C09/demux-err-before-n"
				}
				return res
			}
			if !bytes.Equal(body, bodies[s.K-1]) {
				return rp.Fail(i, "%s: body differs from the body of tag %d: %s", at, s.K, rp.FirstDiff(body, bodies[s.K-1]))
			}
		case "ReadEOF":
			tt, sz, ts, err := d.ReadTagHeader()
			if err == nil {
				return rp.Fail(i, "%s: ReadTagHeader returned one more tag (type %d, size %d, timestamp %#x) instead of EOF", at, tt, sz, ts)
			}
			if !isEOFClass(err) {
				return rp.Fail(i, "%s: ReadTagHeader failed with %s, want io.EOF", at, explain(err))
			}
		default:
			panic("unknown step " + s.Op)
		}
		// where the reader stands after a demuxer call: informational (a demuxer may buffer ahead)
		if s.Op[0] == 'R' && r.pos != s.Pos {
			posNotes = append(posNotes, fmt.Sprintf("%s: consumed %d, specification %d", at, r.pos, s.Pos))
		}
	}
	if !bytes.Equal(w.Bytes(), want) {
		return rp.Result{OK: false, Nontriv: true,
			What:      "bytes written by the muxer differ from the FLV layout: " + describeDiff(w.Bytes(), want, cs.Tags),
			Deviation: classifyFile(w.Bytes(), want, cs.Tags)}
	}
	res := rp.Result{OK: true, Nontriv: true}
	if len(posNotes) > 0 {
		res.Info = posNotes
	}
	return res
}
