package main

import (
	"encoding/json"
	"fmt"
	"io/ioutil"
	"net/http"
	"net/http/httptest"
	"strings"
	"sync"

	oh "github.com/ossrs/go-oryx-lib/http"
	ol "github.com/ossrs/go-oryx-lib/logger"
	"verifharness/rp"
)

// httpconc: an HTTP server answers requests concurrently. N goroutines run the handlers at the same time, each
// with values only it uses; every response must be the envelope of ITS value (no buffer shared between requests
// in flight). Built with -race: a race report in the http package is a failure as well.

type concCase struct {
	Goroutines int `json:"goroutines"`
	Iters      int `json:"iters"`
}

type nopCloser struct{}

func (nopCloser) Write(p []byte) (int, error) { return len(p), nil }
func (nopCloser) Close() error                { return nil }

func init() {
	batchRegistry["httpconc"] = func(c *rp.Ctx, cases []json.RawMessage) []rp.Result {
		ol.Switch(nopCloser{})
		_ = ioutil.Discard
		var out []rp.Result
		for i, raw := range cases {
			var cs concCase
			if err := json.Unmarshal(raw, &cs); err != nil {
				panic(err)
			}
			var mu sync.Mutex
			var problems []string
			report := func(format string, a ...interface{}) {
				mu.Lock()
				if len(problems) < 5 {
					problems = append(problems, fmt.Sprintf(format, a...))
				}
				mu.Unlock()
			}
			start := make(chan struct{})
			var wg sync.WaitGroup
			for g := 0; g < cs.Goroutines; g++ {
				wg.Add(1)
				go func(g int) {
					defer wg.Done()
					<-start
					for k := 0; k < cs.Iters; k++ {
						id := fmt.Sprintf("g%d-k%d-%s", g, k, strings.Repeat("x", (g*7+k*13)%200))
						code := 1000 + g*100000 + k
						var h http.Handler
						url := "/api"
						kind := (g + k) % 4
						switch kind {
						case 0:
							h = oh.Data(nil, map[string]interface{}{"id": id, "n": k})
						case 1:
							h = oh.Data(nil, id)
							url = "/api?callback=cb"
						case 2:
							h = oh.Error(nil, oh.SystemError(code))
						case 3:
							h = oh.CplxError(nil, oh.SystemError(code), id)
						}
						rec := httptest.NewRecorder()
						h.ServeHTTP(rec, httptest.NewRequest("GET", url, nil))
						body := rec.Body.String()
						if kind == 1 {
							if !strings.HasPrefix(body, "cb(") || !strings.HasSuffix(body, ")") {
								report("goroutine %d request %d: callback body %q", g, k, body)
								continue
							}
							body = body[3 : len(body)-1]
						}
						var env map[string]interface{}
						if err := json.Unmarshal([]byte(body), &env); err != nil {
							report("goroutine %d request %d: body is not JSON (%v): %.120q", g, k, err, body)
							continue
						}
						switch kind {
						case 0:
							d, _ := env["data"].(map[string]interface{})
							if env["code"] != float64(0) || d == nil || d["id"] != id {
								report("goroutine %d request %d: answered with another request's data: %.160q, own id %q", g, k, body, id)
							}
						case 1:
							if env["code"] != float64(0) || env["data"] != id {
								report("goroutine %d request %d: answered with another request's data: %.160q, own id %q", g, k, body, id)
							}
						case 2:
							if env["code"] != float64(code) {
								report("goroutine %d request %d: error code %v, own code %d: %.120q", g, k, env["code"], code, body)
							}
						case 3:
							if env["code"] != float64(code) || env["data"] != id {
								report("goroutine %d request %d: complex error %.160q, own code %d id %q", g, k, body, code, id)
							}
						}
					}
				}(g)
			}
			close(start)
			wg.Wait()
			if len(problems) > 0 {
				out = append(out, rp.Result{I: i, OK: false, What: "concurrent requests: " + strings.Join(problems, " | ")})
			} else {
				out = append(out, rp.Result{I: i, OK: true, Info: cs.Goroutines * cs.Iters})
			}
		}
		return out
	}
}
