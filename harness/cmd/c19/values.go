package main

import (
	"bytes"
	"encoding/json"
	"errors"
	"fmt"
	"math"
	"math/big"
	"math/rand"
	"strconv"
	"strings"

	"verifharness/rp"
)

// Concretisation of the value classes of spec/http/Gen_HttpApi.tla. A class is bound to a real Go value and, for the
// marshalable ones, to the JSON document it stands for, written by hand (not produced by the marshaller under test).

type tagged struct {
	A int      `json:"a"`
	B string   `json:"b,omitempty"`
	c int      // unexported: never in the document
	D *int     `json:"d"`
	E []string `json:"e"`
	F float64  `json:"f,string"`
	G string   `json:"-"`
}

type inner struct {
	Name string                 `json:"name"`
	Tags map[string]interface{} `json:"tags"`
}

type nested struct {
	ID    int64   `json:"id"`
	Inner inner   `json:"inner"`
	List  []inner `json:"list"`
	Ptr   *inner  `json:"ptr"`
	Any   interface{}
	Code  int `json:"code"`
}

type Base struct {
	X int `json:"x"`
	Y string
}

type embedded struct {
	Base
	Z bool `json:"z"`
}

type unexportedFunc struct {
	f func()
	c chan int
}

type withFunc struct {
	Name string
	F    func() `json:"f"`
}

type withChan struct {
	Name string
	C    chan int
}

type namedString string

type objMarshaler struct{ n int }

func (o objMarshaler) MarshalJSON() ([]byte, error) {
	return []byte(fmt.Sprintf(`{"x":%d,"nested":{"ok":true}}`, o.n)), nil
}

type textMarshaler struct{ s string }

func (t textMarshaler) MarshalText() ([]byte, error) { return []byte("T<" + t.s + ">"), nil }

type errMarshaler struct{}

func (errMarshaler) MarshalJSON() ([]byte, error) { return nil, errors.New("refuses to be marshalled") }

type badMarshaler struct{}

func (badMarshaler) MarshalJSON() ([]byte, error) { return []byte(`{"a":[1,2`), nil }

const (
	sQuotes   = `he said "hi", she said 'no' \ back\\slash / slash`
	sCtrl     = "nul\x00 soh\x01 bs\b tab\t lf\n cr\r ff\f esc\x1b us\x1f del\x7f end"
	sNonASCII = "h\u00e9llo \u4e16\u754c \U0001F600 ls\u2028 ps\u2029 nbsp\u00a0 bom\ufeff \u0644\u063a\u0629"
	sScript   = `</script><script>alert(1)</script><!-- &amp; <b> > & -->`
	sJSONLike = `{"code":1,"data":"not an envelope"}`
	sJSONP    = `cb({"code":0,"server":1,"data":null})`
)

func longString() string {
	var b strings.Builder
	for i := 0; b.Len() < 70000; i++ {
		b.WriteString(strconv.Itoa(i))
		b.WriteString(`"\<é世>`)
	}
	return b.String()
}

func jsonStr(s string) string {
	var b bytes.Buffer
	b.WriteByte('"')
	for _, r := range s {
		switch {
		case r == '"' || r == '\\':
			b.WriteByte('\\')
			b.WriteRune(r)
		case r < 0x20 || r == 0x7f || r == 0x2028 || r == 0x2029:
			fmt.Fprintf(&b, `\u%04x`, r)
		default:
			b.WriteRune(r)
		}
	}
	b.WriteByte('"')
	return b.String()
}

type concrete struct {
	v    interface{}
	want string // JSON text of the expected document (marshalable classes)
}

func fixedValue(name string) (concrete, bool) {
	seven := 7
	pseven := &seven
	switch name {
	case "nil":
		return concrete{nil, `null`}, true
	case "str_empty":
		return concrete{"", `""`}, true
	case "str_plain":
		return concrete{"hello", `"hello"`}, true
	case "str_quotes":
		return concrete{sQuotes, jsonStr(sQuotes)}, true
	case "str_ctrl":
		return concrete{sCtrl, jsonStr(sCtrl)}, true
	case "str_nonascii":
		return concrete{sNonASCII, jsonStr(sNonASCII)}, true
	case "str_script":
		return concrete{sScript, jsonStr(sScript)}, true
	case "str_jsonlike":
		return concrete{sJSONLike, jsonStr(sJSONLike)}, true
	case "str_jsonp":
		return concrete{sJSONP, jsonStr(sJSONP)}, true
	case "str_long":
		s := longString()
		return concrete{s, jsonStr(s)}, true
	case "named_string":
		return concrete{namedString(sQuotes), jsonStr(sQuotes)}, true
	case "int_0":
		return concrete{0, `0`}, true
	case "int_neg":
		return concrete{-1, `-1`}, true
	case "int_max64":
		return concrete{int64(math.MaxInt64), `9223372036854775807`}, true
	case "uint_max64":
		return concrete{uint64(math.MaxUint64), `18446744073709551615`}, true
	case "float_1_5":
		return concrete{1.5, `1.5`}, true
	case "float_big":
		return concrete{1e300, `1e300`}, true
	case "float_tiny":
		return concrete{5e-324, `5e-324`}, true
	case "float_negzero":
		return concrete{math.Copysign(0, -1), `0`}, true
	case "float32_val":
		return concrete{float32(0.25), `0.25`}, true
	case "bool_true":
		return concrete{true, `true`}, true
	case "bool_false":
		return concrete{false, `false`}, true
	case "slice_empty":
		return concrete{[]int{}, `[]`}, true
	case "slice_nil":
		return concrete{[]string(nil), `null`}, true
	case "slice_mixed":
		return concrete{[]interface{}{1, "a\"b", nil, true, []int{1, 2}, map[string]interface{}{"k": []interface{}{}}, 2.5, sScript},
			`[1, "a\"b", null, true, [1,2], {"k": []}, 2.5, ` + jsonStr(sScript) + `]`}, true
	case "slice_structs":
		return concrete{[]inner{{"a", nil}, {"b", map[string]interface{}{"x": 1}}},
			`[{"name":"a","tags":null},{"name":"b","tags":{"x":1}}]`}, true
	case "bytes":
		return concrete{[]byte("hi\x00\xff"), `"aGkA/w=="`}, true
	case "array_fixed":
		return concrete{[3]int{3, 2, 1}, `[3,2,1]`}, true
	case "map_empty":
		return concrete{map[string]interface{}{}, `{}`}, true
	case "map_nil":
		return concrete{map[string]int(nil), `null`}, true
	case "map_nested":
		return concrete{map[string]interface{}{
			"a": map[string]interface{}{"b": map[string]interface{}{"c": map[string]interface{}{"d": []interface{}{map[string]interface{}{"e": nil}}}}},
			"n": 12, "s": sQuotes, "f": -0.5, "t": true, "z": nil, "l": []string{"x", sNonASCII},
		}, `{"a":{"b":{"c":{"d":[{"e":null}]}}},"n":12,"s":` + jsonStr(sQuotes) + `,"f":-0.5,"t":true,"z":null,"l":["x",` + jsonStr(sNonASCII) + `]}`}, true
	case "map_nastykeys":
		return concrete{map[string]interface{}{
			"": 1, "a\"b": 2, "k\n": 3, "世": 4, "</script>": 5, "code": 6, "data": 7, "server": 8, "a.b": 9, "\x00": 10,
		}, `{"":1, "a\"b":2, "k\n":3, "世":4, "</script>":5, "code":6, "data":7, "server":8, "a.b":9, "\u0000":10}`}, true
	case "map_intkeys":
		return concrete{map[int]string{1: "one", -2: "minus two"}, `{"1":"one","-2":"minus two"}`}, true
	case "map_envelope_like":
		return concrete{map[string]interface{}{"code": 5, "server": 0, "data": map[string]interface{}{"code": -1}},
			`{"code":5,"server":0,"data":{"code":-1}}`}, true
	case "struct_tagged":
		return concrete{tagged{A: 1, B: "", c: 9, D: nil, E: nil, F: 2.5, G: "hidden"}, `{"a":1,"d":null,"e":null,"f":"2.5"}`}, true
	case "struct_nested":
		return concrete{nested{ID: 1 << 40, Inner: inner{"in", map[string]interface{}{"q": sQuotes}}, List: []inner{{"l", nil}}, Ptr: &inner{"p", nil}, Any: []int{1}, Code: 99},
			`{"id":1099511627776,"inner":{"name":"in","tags":{"q":` + jsonStr(sQuotes) + `}},"list":[{"name":"l","tags":null}],"ptr":{"name":"p","tags":null},"Any":[1],"code":99}`}, true
	case "struct_embedded":
		return concrete{embedded{Base{4, "y"}, true}, `{"x":4,"Y":"y","z":true}`}, true
	case "struct_empty":
		return concrete{struct{}{}, `{}`}, true
	case "struct_unexported_func":
		return concrete{unexportedFunc{f: func() {}, c: make(chan int)}, `{}`}, true
	case "ptr_struct":
		return concrete{&embedded{Base{-4, ""}, false}, `{"x":-4,"Y":"","z":false}`}, true
	case "ptr_nil":
		return concrete{(*embedded)(nil), `null`}, true
	case "ptr_ptr_int":
		return concrete{&pseven, `7`}, true
	case "marshaler_obj":
		return concrete{objMarshaler{3}, `{"x":3,"nested":{"ok":true}}`}, true
	case "raw_message":
		return concrete{json.RawMessage(`{"raw": [1, 2, {"three": 3.0e0}] , "s":"é"}`), `{"raw":[1,2,{"three":3}],"s":"é"}`}, true
	case "json_number":
		return concrete{json.Number("12345678901234567890.5"), `12345678901234567890.5`}, true
	case "text_marshaler":
		return concrete{textMarshaler{`a"b`}, `"T<a\"b>"`}, true

	// ---- cannot be marshalled
	case "chan":
		return concrete{v: make(chan int)}, true
	case "func":
		return concrete{v: func() {}}, true
	case "struct_func_field":
		return concrete{v: withFunc{"n", func() {}}}, true
	case "struct_chan_field":
		return concrete{v: &withChan{"n", make(chan int, 1)}}, true
	case "map_with_chan":
		return concrete{v: map[string]interface{}{"ok": 1, "deep": map[string]interface{}{"ch": make(chan string)}}}, true
	case "float_nan":
		return concrete{v: math.NaN()}, true
	case "float_posinf":
		return concrete{v: math.Inf(1)}, true
	case "float_neginf":
		return concrete{v: float32(math.Inf(-1))}, true
	case "slice_nested_nan":
		return concrete{v: map[string]interface{}{"a": "fine", "l": []interface{}{1, 2, []float64{0, math.NaN()}}}}, true
	case "complex":
		return concrete{v: complex(1, 2)}, true
	case "map_boolkeys":
		return concrete{v: map[bool]int{true: 1}}, true
	case "marshaler_error":
		return concrete{v: []interface{}{1, errMarshaler{}}}, true
	case "marshaler_badjson":
		return concrete{v: badMarshaler{}}, true
	case "raw_bad":
		return concrete{v: json.RawMessage(`{"a":`)}, true
	case "number_bad":
		return concrete{v: json.Number("12abc")}, true
	case "ptr_to_chan":
		ch := make(chan int)
		return concrete{v: &ch}, true
	case "deep_nested_func":
		return concrete{v: map[string]interface{}{"a": []interface{}{map[string]interface{}{"b": &nested{Any: []interface{}{withFunc{"x", func() {}}}}}}}}, true
	}
	return concrete{}, false
}

// ---------------------------------------------------------------- seeded random trees

var pieces = []string{"a", "Z", "0", " ", `"`, `\\`, "/", "\n", "\t", "\x00", "\x1f", "\x7f", "\u00e9", "\u4e16", "\U0001F600", "\u2028", "<", ">", "&", "</script>",
	"{", "}", "[", "]", ":", ",", "null", "true", `{"code":0}`, "cb(", ")", "%s", "%d", "'", "\u00a0", "code", "data"}

func randString(r *rand.Rand) string {
	n := r.Intn(6)
	var b strings.Builder
	for i := 0; i < n; i++ {
		b.WriteString(pieces[r.Intn(len(pieces))])
	}
	return b.String()
}

var floats = []float64{0, 1, -1, 0.1, -2.5, 1e21, 1e-7, 123456789.125, math.MaxFloat64, math.SmallestNonzeroFloat64, 1 << 53, -(1 << 53) - 2}

// randTree returns a Go value and the generic document it stands for (nil, bool, json.Number, string, []interface{},
// map[string]interface{}).
func randTree(r *rand.Rand, depth int) (interface{}, interface{}) {
	k := r.Intn(12)
	if depth <= 0 && k >= 6 {
		k = r.Intn(6)
	}
	switch k {
	case 0:
		return nil, nil
	case 1:
		b := r.Intn(2) == 0
		return b, b
	case 2:
		n := r.Int63() >> uint(r.Intn(63))
		if r.Intn(2) == 0 {
			n = -n
		}
		if r.Intn(2) == 0 {
			return int(n), json.Number(strconv.FormatInt(n, 10))
		}
		return n, json.Number(strconv.FormatInt(n, 10))
	case 3:
		f := floats[r.Intn(len(floats))]
		if r.Intn(3) == 0 {
			f = r.NormFloat64() * math.Pow(10, float64(r.Intn(40)-20))
		}
		return f, json.Number(strconv.FormatFloat(f, 'g', -1, 64))
	case 4, 5:
		s := randString(r)
		return s, s
	case 6, 7:
		n := r.Intn(4)
		gv := make([]interface{}, n)
		wv := make([]interface{}, n)
		for i := range gv {
			gv[i], wv[i] = randTree(r, depth-1)
		}
		return gv, wv
	case 8, 9:
		n := r.Intn(4)
		gv := map[string]interface{}{}
		wv := map[string]interface{}{}
		for i := 0; i < n; i++ {
			key := randString(r)
			gv[key], wv[key] = randTree(r, depth-1)
		}
		return gv, wv
	case 10:
		// typed containers
		n := r.Intn(3)
		gv := make([]string, n)
		wv := make([]interface{}, n)
		for i := range gv {
			gv[i] = randString(r)
			wv[i] = gv[i]
		}
		if r.Intn(2) == 0 {
			m := map[string][]string{"l": gv}
			return m, map[string]interface{}{"l": wv}
		}
		return gv, wv
	default:
		g, w := randTree(r, depth-1)
		s := randString(r)
		return &struct {
			A interface{} `json:"a"`
			B string
			c int
		}{g, s, 1}, map[string]interface{}{"a": w, "B": s}
	}
}

func badLeaf(r *rand.Rand) interface{} {
	switch r.Intn(11) {
	case 0:
		return make(chan int)
	case 1:
		return func() {}
	case 2:
		return math.NaN()
	case 3:
		return math.Inf(1)
	case 4:
		return float32(math.Inf(-1))
	case 5:
		return complex(0, 1)
	case 6:
		return withFunc{"f", func() {}}
	case 7:
		return map[bool]int{false: 0}
	case 8:
		return errMarshaler{}
	case 9:
		return json.RawMessage(`{`)
	default:
		return &withChan{"c", make(chan int)}
	}
}

// randBad plants one unmarshalable leaf somewhere inside a random tree.
func randBad(r *rand.Rand) interface{} {
	v := badLeaf(r)
	for d := r.Intn(4); d > 0; d-- {
		switch r.Intn(4) {
		case 0:
			n := r.Intn(3)
			l := make([]interface{}, 0, n+1)
			for i := 0; i < n; i++ {
				g, _ := randTree(r, 2)
				l = append(l, g)
			}
			l = append(l, v)
			r.Shuffle(len(l), func(i, j int) { l[i], l[j] = l[j], l[i] })
			v = l
		case 1:
			m := map[string]interface{}{}
			for i := r.Intn(3); i > 0; i-- {
				m[randString(r)], _ = randTree(r, 2)
			}
			m["bad"+randString(r)] = v
			v = m
		case 2:
			g, _ := randTree(r, 1)
			v = struct {
				Before interface{}
				Bad    interface{} `json:"bad"`
				After  interface{}
			}{g, v, "after"}
		default:
			p := v
			v = &p
		}
	}
	return v
}

func rng(seed, k int) *rand.Rand {
	return rand.New(rand.NewSource(int64(seed)*1000003 + int64(k)*7919 + 19))
}

// concretise binds a value class to (Go value, expected document). ok=false for the unmarshalable classes.
func concretise(seed int, vc vclass) (v interface{}, want interface{}) {
	switch vc.Name {
	case "rand":
		g, w := randTree(rng(seed, vc.K), 4)
		v, want = g, w
	case "randbad":
		v = randBad(rng(seed, -vc.K))
	default:
		c, ok := fixedValue(vc.Name)
		if !ok {
			rp.Bug("value class %q is not known to the replayer", vc.Name)
		}
		v = c.v
		if vc.Marshalable {
			w, err := parseJSON([]byte(c.want))
			if err != nil {
				rp.Bug("expected document of %s does not parse: %v", vc.Name, err)
			}
			want = w
		}
	}
	// self-check of the binding (never a verdict): encoding/json agrees with the specification's class
	b, err := json.Marshal(map[string]interface{}{"data": v})
	if vc.Marshalable {
		if err != nil {
			rp.Bug("class %s/%d is marshalable in the specification but encoding/json refuses it: %v", vc.Name, vc.K, err)
		}
		got, err := parseJSON(b)
		if err != nil {
			rp.Bug("class %s/%d: %v", vc.Name, vc.K, err)
		}
		if d := jsonDiff(got.(map[string]interface{})["data"], want, "data"); d != "" {
			rp.Bug("class %s/%d: hand-written document differs from encoding/json: %s", vc.Name, vc.K, d)
		}
		if vc.Jtype != "any" && jsonType(want) != vc.Jtype {
			rp.Bug("class %s/%d: JSON type %s, specification says %s", vc.Name, vc.K, jsonType(want), vc.Jtype)
		}
	} else if err == nil {
		rp.Bug("class %s/%d is unmarshalable in the specification but encoding/json accepts it: %s", vc.Name, vc.K, b)
	}
	return
}

// ---------------------------------------------------------------- JSON documents

// parseJSON reads exactly one JSON value (numbers kept as text).
func parseJSON(b []byte) (interface{}, error) {
	if !json.Valid(b) {
		return nil, fmt.Errorf("not a JSON document")
	}
	d := json.NewDecoder(bytes.NewReader(b))
	d.UseNumber()
	var v interface{}
	if err := d.Decode(&v); err != nil {
		return nil, err
	}
	return v, nil
}

func jsonType(v interface{}) string {
	switch v.(type) {
	case nil:
		return "null"
	case bool:
		return "bool"
	case json.Number:
		return "number"
	case string:
		return "string"
	case []interface{}:
		return "array"
	case map[string]interface{}:
		return "object"
	}
	return fmt.Sprintf("%T", v)
}

func numRat(n json.Number) *big.Rat {
	// exponents beyond big.Rat's comfort are not in the domain (|exp| <= 400)
	r, ok := new(big.Rat).SetString(string(n))
	if !ok {
		return nil
	}
	return r
}

// jsonDiff returns "" when the two documents are the same JSON value (numbers compared numerically).
func jsonDiff(got, want interface{}, path string) string {
	if jsonType(got) != jsonType(want) {
		return fmt.Sprintf("%s: %s, want %s", path, short(got), short(want))
	}
	switch w := want.(type) {
	case nil:
		return ""
	case bool:
		if got.(bool) != w {
			return fmt.Sprintf("%s: %v, want %v", path, got, w)
		}
	case json.Number:
		a, b := numRat(got.(json.Number)), numRat(w)
		if a == nil || b == nil || a.Cmp(b) != 0 {
			return fmt.Sprintf("%s: number %s, want %s", path, got, w)
		}
	case string:
		if got.(string) != w {
			return fmt.Sprintf("%s: string %s, want %s", path, short(got), short(w))
		}
	case []interface{}:
		g := got.([]interface{})
		if len(g) != len(w) {
			return fmt.Sprintf("%s: array of %d, want %d", path, len(g), len(w))
		}
		for i := range w {
			if d := jsonDiff(g[i], w[i], fmt.Sprintf("%s[%d]", path, i)); d != "" {
				return d
			}
		}
	case map[string]interface{}:
		g := got.(map[string]interface{})
		for k := range w {
			gv, ok := g[k]
			if !ok {
				return fmt.Sprintf("%s: member %q missing", path, k)
			}
			if d := jsonDiff(gv, w[k], path+"."+strconv.Quote(k)); d != "" {
				return d
			}
		}
		for k := range g {
			if _, ok := w[k]; !ok {
				return fmt.Sprintf("%s: unexpected member %q", path, k)
			}
		}
	}
	return ""
}

func short(v interface{}) string {
	b, err := json.Marshal(v)
	if err != nil {
		return fmt.Sprintf("%v", v)
	}
	if len(b) > 120 {
		return string(b[:120]) + "..."
	}
	return string(b)
}
