package main

import (
	"context"
	"encoding/json"
	"errors"
	"fmt"
	"math/big"
	"mime"
	"net/http"
	"net/http/httptest"
	"net/url"
	"os"
	"strconv"
	"strings"
	"sync"

	oe "github.com/ossrs/go-oryx-lib/errors"
	oh "github.com/ossrs/go-oryx-lib/http"
	ol "github.com/ossrs/go-oryx-lib/logger"
	"verifharness/rp"
)

// C19: the JSON API handlers and the API client of the http package against spec/http/HttpApi.tla.
//
// A case is one row of the specification's decision table: the request (callback parameter), what the application
// answers, and the specification's expected response and client verdict. The replayer runs every public entry point
// that produces that answer (handler constructors and the Write* helpers) against a ResponseRecorder, judges the
// recorded response by the class the specification assigns to the row, then serves the same handler from a loopback
// server and asks the library's client, ApiRequest, for its verdict.

type vclass struct {
	Name        string `json:"name"`
	K           int    `json:"k"`
	Marshalable bool   `json:"marshalable"`
	Jtype       string `json:"jtype"`
}

type cbParam struct {
	Present bool   `json:"present"`
	Name    string `json:"name"`
}

// what the application answers (an element of AppResponses)
type appAnswer struct {
	Kind   string `json:"kind"`
	Via    string `json:"via"` // how the value handed to Error relates to the application's error ("direct", ...)
	Code   string `json:"code"`
	Status int    `json:"status"`
	Msg    string `json:"msg"`
	Val    vclass `json:"val"`
}

type expected struct {
	Class  string `json:"class"`
	Status int    `json:"status"`
	Ctype  string `json:"ctype"`
	Server string `json:"server"`
	Wrap   string `json:"wrap"`
	Body   struct {
		T      string `json:"t"`
		Code   string `json:"code"`
		Server string `json:"server"`
	} `json:"body"`
}

type clientVerdict struct {
	Verdict string `json:"verdict"`
	Code    string `json:"code"`
	Judged  bool   `json:"judged"`
}

type apiCase struct {
	Srv    string        `json:"srv"`
	Cb     cbParam       `json:"cb"`
	App    appAnswer     `json:"app"`
	Exp    expected      `json:"exp"`
	Client clientVerdict `json:"client"`
}

// ---- error implementations the application may hand to Error()

type appErr struct {
	code int
	msg  string
}

func (e appErr) Code() int     { return e.code }
func (e appErr) Error() string { return e.msg }

type appErrPtr struct {
	code int
	msg  string
}

func (e *appErrPtr) Code() int     { return e.code }
func (e *appErrPtr) Error() string { return e.msg }

type statusErr struct {
	status int
	msg    string
}

func (e statusErr) Error() string { return e.msg }
func (e statusErr) Status() int   { return e.status }

type statusErrPtr struct {
	status int
	msg    string
}

func (e *statusErrPtr) Error() string { return e.msg }
func (e *statusErrPtr) Status() int   { return e.status }

// message classes of the specification
func message(class string) string {
	switch class {
	case "text":
		return "open /data/file: permission denied"
	case "quotes":
		return "he said \"no\" \\ <b>é世界</b>\t\x01 line1\nline2 %d %s"
	case "empty":
		return ""
	case "jsonarr":
		return `[1,2,3]`
	case "jsonobj-nocode":
		return `{"error":"upstream failed","status":500,"data":null}`
	case "jsonobj-strcode":
		return `{"code":"0","server":1,"data":null}`
	}
	rp.Bug("unknown message class %q", class)
	return ""
}

type entry struct {
	name string
	h    http.HandlerFunc
}

// entries lists every public way of producing the case's answer.
func entries(c *rp.Ctx, cs *apiCase) []entry {
	var ctxs = []ol.Context{nil, ol.WithContext(context.Background())}
	var es []entry
	add := func(name string, h func(ctx ol.Context, w http.ResponseWriter, r *http.Request)) {
		for i, ctx := range ctxs {
			ctx := ctx
			es = append(es, entry{fmt.Sprintf("%s[ctx%d]", name, i), func(w http.ResponseWriter, r *http.Request) { h(ctx, w, r) }})
		}
	}
	code := func() int {
		n, err := strconv.ParseInt(cs.App.Code, 10, 64)
		if err != nil {
			rp.Bug("code %q: %v", cs.App.Code, err)
		}
		return int(n)
	}
	if cs.App.Kind != "data" && (cs.App.Via != "direct" || cs.App.Kind == "appErrorWithStatus") {
		// an error that is several kinds at once, or reaches Error behind another value
		for _, e := range errValues(&cs.App) {
			e := e
			checkErrBinding(&cs.App, &cs.Exp, e)
			add("Error("+e.name+")", func(ctx ol.Context, w http.ResponseWriter, r *http.Request) { oh.Error(ctx, e.err).ServeHTTP(w, r) })
			add("WriteError("+e.name+")", func(ctx ol.Context, w http.ResponseWriter, r *http.Request) { oh.WriteError(ctx, w, r, e.err) })
		}
		return es
	}
	switch cs.App.Kind {
	case "data":
		v, _ := concretise(c.Seed, cs.App.Val)
		add("Data", func(ctx ol.Context, w http.ResponseWriter, r *http.Request) { oh.Data(ctx, v).ServeHTTP(w, r) })
		add("WriteData", func(ctx ol.Context, w http.ResponseWriter, r *http.Request) { oh.WriteData(ctx, w, r, v) })
		if cs.App.Val.Name == "nil" {
			add("Success", func(ctx ol.Context, w http.ResponseWriter, r *http.Request) { oh.Success(ctx, w, r) })
		}
	case "systemError":
		e := oh.SystemError(code())
		add("Error(SystemError)", func(ctx ol.Context, w http.ResponseWriter, r *http.Request) { oh.Error(ctx, e).ServeHTTP(w, r) })
		add("WriteError(SystemError)", func(ctx ol.Context, w http.ResponseWriter, r *http.Request) { oh.WriteError(ctx, w, r, e) })
	case "complexError":
		e := oh.SystemComplexError{Code: oh.SystemError(code()), Message: message(cs.App.Msg)}
		add("Error(SystemComplexError)", func(ctx ol.Context, w http.ResponseWriter, r *http.Request) { oh.Error(ctx, e).ServeHTTP(w, r) })
		add("CplxError", func(ctx ol.Context, w http.ResponseWriter, r *http.Request) {
			oh.CplxError(ctx, e.Code, e.Message).ServeHTTP(w, r)
		})
		add("WriteCplxError", func(ctx ol.Context, w http.ResponseWriter, r *http.Request) {
			oh.WriteCplxError(ctx, w, r, e.Code, e.Message)
		})
		add("WriteError(SystemComplexError)", func(ctx ol.Context, w http.ResponseWriter, r *http.Request) { oh.WriteError(ctx, w, r, e) })
	case "appError":
		e1 := appErr{code(), message(cs.App.Msg)}
		e2 := &appErrPtr{code(), message(cs.App.Msg)}
		add("Error(AppError)", func(ctx ol.Context, w http.ResponseWriter, r *http.Request) { oh.Error(ctx, e1).ServeHTTP(w, r) })
		add("WriteError(*AppError)", func(ctx ol.Context, w http.ResponseWriter, r *http.Request) { oh.WriteError(ctx, w, r, e2) })
	case "plainError":
		m := message(cs.App.Msg)
		e1 := errors.New(m)
		e2 := oe.New(m)
		e3 := fmt.Errorf("%s", m)
		add("Error(errors.New)", func(ctx ol.Context, w http.ResponseWriter, r *http.Request) { oh.Error(ctx, e1).ServeHTTP(w, r) })
		add("WriteError(oryx errors.New)", func(ctx ol.Context, w http.ResponseWriter, r *http.Request) { oh.WriteError(ctx, w, r, e2) })
		add("WriteError(fmt.Errorf)", func(ctx ol.Context, w http.ResponseWriter, r *http.Request) { oh.WriteError(ctx, w, r, e3) })
	case "plainErrorWithStatus":
		e1 := statusErr{cs.App.Status, message(cs.App.Msg)}
		e2 := &statusErrPtr{cs.App.Status, message(cs.App.Msg)}
		add("Error(HTTPStatus)", func(ctx ol.Context, w http.ResponseWriter, r *http.Request) { oh.Error(ctx, e1).ServeHTTP(w, r) })
		add("WriteError(*HTTPStatus)", func(ctx ol.Context, w http.ResponseWriter, r *http.Request) { oh.WriteError(ctx, w, r, e2) })
	default:
		rp.Bug("unknown kind %q", cs.App.Kind)
	}
	return es
}

// ---- loopback server for the client half

var (
	srvOnce  sync.Once
	srv      *httptest.Server
	curMu    sync.Mutex
	cur      http.HandlerFunc
	panicked interface{}
)

type quiet struct{}

func (quiet) Write(p []byte) (int, error) { return len(p), nil }
func (quiet) Close() error                { return nil }

func loopback() *httptest.Server {
	srvOnce.Do(func() {
		// a writer that is also a Closer: otherwise the logger brackets every line with colour codes on os.Stdout
		ol.Switch(quiet{})
		srv = httptest.NewServer(http.HandlerFunc(func(w http.ResponseWriter, r *http.Request) {
			curMu.Lock()
			h := cur
			curMu.Unlock()
			defer func() {
				if e := recover(); e != nil {
					curMu.Lock()
					panicked = e
					curMu.Unlock()
					panic(http.ErrAbortHandler)
				}
			}()
			h(w, r)
		}))
	})
	return srv
}

// ---- reading a recorded response

type parsed struct {
	wrapped bool                   // body was cb(...)
	obj     map[string]interface{} // nil: the (unwrapped) body is not a JSON object
	code    *big.Rat               // numeric code member, nil if missing / not a number
}

// unwrap strips cb( ... ) when the body has that form.
func unwrap(body string, cb string) (string, bool) {
	if cb == "" {
		return body, false
	}
	t := strings.TrimSpace(body)
	t = strings.TrimSuffix(t, ";")
	if strings.HasPrefix(t, cb+"(") && strings.HasSuffix(t, ")") {
		return t[len(cb)+1 : len(t)-1], true
	}
	return body, false
}

func parseBody(body string, cb string) parsed {
	var p parsed
	inner, w := unwrap(body, cb)
	p.wrapped = w
	v, err := parseJSON([]byte(inner))
	if err != nil {
		return p
	}
	o, ok := v.(map[string]interface{})
	if !ok {
		return p
	}
	p.obj = o
	if n, ok := o["code"].(json.Number); ok {
		p.code = numRat(n)
	}
	return p
}

func ratOf(s string) *big.Rat {
	r, ok := new(big.Rat).SetString(s)
	if !ok {
		rp.Bug("numeral %q", s)
	}
	return r
}

func mediaType(h http.Header) string {
	mt, _, err := mime.ParseMediaType(h.Get("Content-Type"))
	if err != nil {
		return h.Get("Content-Type")
	}
	return mt
}

type verdict struct {
	what string
	dev  string
}

func bad(dev string, format string, a ...interface{}) *verdict {
	return &verdict{fmt.Sprintf(format, a...), dev}
}

func clip(s string) string {
	if len(s) > 200 {
		return strconv.Quote(s[:200]) + "..."
	}
	return strconv.Quote(s)
}

// checkSuccessBody: body is {code:0, server:<pid>, data:<value>}, wrapped as cb(json) iff a callback was named.
func checkSuccessBody(cs *apiCase, body string, want interface{}) *verdict {
	cb := cs.Exp.Wrap
	inner, wrapped := unwrap(body, cb)
	if cb != "" && !wrapped {
		return bad("", "callback %q: body is not %s(json): %s", cb, cb, clip(body))
	}
	v, err := parseJSON([]byte(inner))
	if err != nil {
		return bad("", "body is not one JSON document (%v): %s", err, clip(inner))
	}
	o, ok := v.(map[string]interface{})
	if !ok {
		return bad("", "body is not a JSON object: %s", clip(inner))
	}
	n, ok := o["code"].(json.Number)
	if !ok {
		return bad("", "envelope has no numeric code: %s", clip(inner))
	}
	if r := numRat(n); r == nil || r.Sign() != 0 {
		return bad("", "envelope code is %s, want 0", n)
	}
	s, ok := o["server"].(json.Number)
	if !ok {
		return bad("", "envelope has no numeric server member: %s", clip(inner))
	}
	if r := numRat(s); r == nil || r.Cmp(big.NewRat(int64(os.Getpid()), 1)) != 0 {
		return bad("", "envelope server is %s, want the pid %d", s, os.Getpid())
	}
	d, ok := o["data"]
	if !ok {
		return bad("", "envelope has no data member: %s", clip(inner))
	}
	if diff := jsonDiff(d, want, "data"); diff != "" {
		return bad("", "envelope data is not the value: %s", diff)
	}
	if t := cs.App.Val.Jtype; t != "any" && jsonType(d) != t {
		return bad("", "envelope data is a JSON %s, the specification says %s", jsonType(d), t)
	}
	return nil
}

func isErrorResponse(status int, body string, cb string) bool {
	if status >= 400 {
		return true
	}
	p := parseBody(body, cb)
	return p.obj != nil && p.code != nil && p.code.Sign() != 0
}

// judgeResponse compares one recorded response with the specification's row.
func judgeResponse(cs *apiCase, status int, hdr http.Header, body string, want interface{}) *verdict {
	switch cs.Exp.Class {
	case "success":
		if status != 200 {
			return bad("", "status %d, want 200; body %s", status, clip(body))
		}
		if v := checkSuccessBody(cs, body, want); v != nil {
			return v
		}
		if got := hdr.Get("Server"); got != cs.Exp.Server {
			return bad("", "Server header %q, want the configured %q", got, cs.Exp.Server)
		}
		mt := mediaType(hdr)
		if cs.Exp.Wrap == "" {
			if mt != "application/json" {
				return bad("", "Content-Type %q, want application/json", hdr.Get("Content-Type"))
			}
		} else if mt != "application/javascript" && mt != "text/javascript" {
			dev := ""
			if mt == "application/json" {
				dev = "C19/callback-keeps-json-ctype"
			}
			return bad(dev, "callback %q: Content-Type %q, want the JavaScript content type", cs.Exp.Wrap, hdr.Get("Content-Type"))
		}
	case "coded":
		p := parseBody(body, cs.Exp.Wrap)
		if p.obj == nil {
			dev := ""
			if cs.App.Kind == "appErrorWithStatus" && status == cs.App.Status {
				dev = "C19/status-shadows-code"
			}
			return bad(dev, "%s: the error has its own code %s, but the body is neither a JSON object nor callback(object): status %d %s", cs.App.Kind, cs.App.Code, status, clip(body))
		}
		if p.code == nil {
			return bad("", "%s: body has no numeric code: %s", cs.App.Kind, clip(body))
		}
		if own := ratOf(cs.App.Code); p.code.Cmp(own) != 0 {
			dev := ""
			if p.code.Cmp(big.NewRat(100, 1)) == 0 {
				dev = "C19/const-error-code"
			}
			return bad(dev, "%s: answered code %s, the error's own code is %s", cs.App.Kind, p.code.RatString(), cs.App.Code)
		}
	case "status":
		if status != cs.Exp.Status {
			dev := ""
			if status == 500 {
				dev = "C19/status-not-applied"
			} else if p := parseBody(body, cs.Exp.Wrap); cs.App.Via != "direct" && p.code != nil && p.code.Sign() != 0 {
				dev = "C19/cause-dispatched"
			}
			return bad(dev, "%s: HTTP status %d, want %d", cs.App.Kind, status, cs.Exp.Status)
		}
	case "errorResponse":
		if !isErrorResponse(status, body, cs.Exp.Wrap) {
			dev := ""
			if status == 200 && strings.TrimSpace(body) == "" {
				dev = "C19/marshal-error-swallowed"
			}
			return bad(dev, "value %s/%d cannot be marshalled, but the answer is not an error response: status %d body %s",
				cs.App.Val.Name, cs.App.Val.K, status, clip(body))
		}
	default:
		rp.Bug("unknown class %q", cs.Exp.Class)
	}
	return nil
}

// judgeClient compares ApiRequest's result with the specification's verdict.
func judgeClient(cs *apiCase, code int, body []byte, err error, want interface{}) *verdict {
	p := parseBody(string(body), "")
	switch cs.Client.Verdict {
	case "ok":
		if err != nil {
			return bad("", "client reports a success answer as an error: %v", err)
		}
		if code != 0 {
			return bad("", "client returns code %d for a success answer", code)
		}
		if v := checkSuccessBody(cs, string(body), want); v != nil {
			return bad(v.dev, "body returned by the client: %s", v.what)
		}
	case "error":
		if err == nil {
			dev := ""
			if p.obj != nil && p.code == nil {
				dev = "C19/client-missing-code-ok"
			} else if p.obj != nil && p.code.Sign() != 0 {
				dev = "C19/client-accepts-nonzero"
			}
			return bad(dev, "client reports success (code %d, no error) for a failure answer %s: body %s", code, cs.App.Kind, clip(string(body)))
		}
		if cs.Client.Code != "-" {
			own := ratOf(cs.Client.Code)
			lim := new(big.Rat).SetInt(new(big.Int).Lsh(big.NewInt(1), 53))
			if code == 0 {
				return bad("", "client returns code 0 next to its error for code %s", cs.Client.Code)
			}
			if new(big.Rat).Abs(own).Cmp(lim) <= 0 && big.NewRat(int64(code), 1).Cmp(own) != 0 {
				return bad("", "client returns code %d, the answer's code is %s", code, cs.Client.Code)
			}
		}
	default:
		rp.Bug("unknown verdict %q", cs.Client.Verdict)
	}
	return nil
}

var registry = map[string]rp.Replayer{}
var batchRegistry = map[string]rp.Batch{}

func main() { rp.Main(registry, batchRegistry) }

func init() {
	registry["httpapi"] = func(c *rp.Ctx, i int, raw json.RawMessage) rp.Result {
		var cs apiCase
		if err := json.Unmarshal(raw, &cs); err != nil {
			panic(err)
		}
		s := loopback()
		oh.Server = cs.Srv

		path := "/api/v1/thing"
		if cs.Cb.Present {
			path += "?callback=" + url.QueryEscape(cs.Cb.Name)
		}
		// consistency of the case itself
		if (cs.Exp.Wrap != "") != (cs.Cb.Present && cs.Cb.Name != "") && cs.Exp.Class == "success" {
			rp.Bug("case %d: wrap %q for callback %+v", i, cs.Exp.Wrap, cs.Cb)
		}
		var want interface{}
		if cs.App.Kind == "data" {
			_, want = concretise(c.Seed, cs.App.Val)
		}
		for _, e := range entries(c, &cs) {
			// handler half
			rec := httptest.NewRecorder()
			e.h(rec, httptest.NewRequest("GET", path, nil))
			body := rec.Body.String()
			if v := judgeResponse(&cs, rec.Code, rec.Header(), body, want); v != nil {
				return rp.Result{OK: false, What: e.name + " " + path + ": " + v.what, Deviation: v.dev,
					Observed: map[string]interface{}{"status": rec.Code, "header": rec.Header(), "body": clip(body)}}
			}
			// client half
			curMu.Lock()
			cur = e.h
			panicked = nil
			curMu.Unlock()
			code, cbody, err := oh.ApiRequest(s.URL + path)
			curMu.Lock()
			pe := panicked
			curMu.Unlock()
			if pe != nil {
				return rp.Fail(i, "%s %s: handler panicked when served over the loopback server: %v", e.name, path, pe)
			}
			if cs.Client.Judged {
				if v := judgeClient(&cs, code, cbody, err, want); v != nil {
					return rp.Result{OK: false, What: e.name + " " + path + ": " + v.what, Deviation: v.dev,
						Observed: map[string]interface{}{"code": code, "err": fmt.Sprint(err), "body": clip(string(cbody))}}
				}
			}
			// what travelled is what the handler recorded (the server must not be looking at another handler)
			if err == nil || cbody != nil {
				if string(cbody) != body {
					return rp.Fail(i, "%s %s: body fetched by ApiRequest differs from the recorded one: %s vs %s", e.name, path, clip(string(cbody)), clip(body))
				}
			}
		}
		return rp.Result{OK: true, Nontriv: true}
	}
}
