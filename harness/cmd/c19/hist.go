package main

import (
	"context"
	"encoding/json"
	"errors"
	"fmt"
	"net/http"
	"net/http/httptest"
	"net/url"
	"strconv"

	oe "github.com/ossrs/go-oryx-lib/errors"
	oh "github.com/ossrs/go-oryx-lib/http"
	ol "github.com/ossrs/go-oryx-lib/logger"
	"verifharness/rp"
)

// httphist: the life of one handler object (spec/http/HttpApi.tla: Create (Mutate? Arrive Respond ClientRead)^n Finish).
//
// A case is a finished behaviour: what the application made (Data(value) / an error), how it holds it ("handler": the
// http.Handler returned by Data / Error / CplxError; "write": a function of its own calling WriteData / WriteError /
// WriteCplxError), and for every request the callback parameter, the class of the value behind the reference AT THAT
// REQUEST and the specification's expected response and client verdict for that request. The replayer makes the object
// ONCE, registers it on a net/http ServeMux as applications do, and serves the requests one after the other through the
// mux (recorder) and through ApiRequest (loopback server running the same mux); before each request it changes what is
// behind the reference to a value of the step's class. Every response is judged by the row of its own request.

type histStep struct {
	Cb     cbParam       `json:"cb"`
	Val    vclass        `json:"val"`
	Ver    int           `json:"ver"` // version of the content behind the reference: changes iff the application mutated it
	Exp    expected      `json:"exp"`
	Client clientVerdict `json:"client"`
}

type histCase struct {
	Srv   string     `json:"srv"`
	Made  appAnswer  `json:"made"`
	Form  string     `json:"form"`
	Steps []histStep `json:"steps"`
}

// ---- carriers: the ways an application hands Data a value that it goes on changing

// A carrier owns one reference for the whole life of the handler object. set puts a value of some class behind it
// (n is the version of the content in the specification: two requests see the same document iff the application did
// not touch the value between them; a new version is another document also within one class);
// want is the document the reference stands for now, given the document of the value.
type carrier interface {
	name() string
	forms() string // "handler", "write" or "" for both
	bare() bool    // the document is the value's own
	ref() interface{}
	set(v interface{}, n int)
	want(w interface{}, n int) interface{}
}

func num(n int) json.Number { return json.Number(strconv.Itoa(n)) }

// a map whose members are overwritten, added and deleted
type mapCarrier struct{ m map[string]interface{} }

func (c *mapCarrier) name() string     { return "map" }
func (c *mapCarrier) forms() string    { return "" }
func (c *mapCarrier) bare() bool       { return false }
func (c *mapCarrier) ref() interface{} { return c.m }
func (c *mapCarrier) set(v interface{}, n int) {
	c.m["v"], c.m["n"] = v, n
	if n%2 == 1 {
		c.m["odd"] = true
	} else {
		delete(c.m, "odd")
	}
}
func (c *mapCarrier) want(w interface{}, n int) interface{} {
	d := map[string]interface{}{"v": w, "n": num(n)}
	if n%2 == 1 {
		d["odd"] = true
	}
	return d
}

// a pointer to a struct whose fields are assigned
type box struct {
	V interface{} `json:"v"`
	N int         `json:"n"`
}
type ptrCarrier struct{ p *box }

func (c *ptrCarrier) name() string             { return "*struct" }
func (c *ptrCarrier) forms() string            { return "" }
func (c *ptrCarrier) bare() bool               { return false }
func (c *ptrCarrier) ref() interface{}         { return c.p }
func (c *ptrCarrier) set(v interface{}, n int) { c.p.V, c.p.N = v, n }
func (c *ptrCarrier) want(w interface{}, n int) interface{} {
	return map[string]interface{}{"v": w, "n": num(n)}
}

// a pointer to an interface variable: the document is the value's own
type ifaceCarrier struct{ p *interface{} }

func (c *ifaceCarrier) name() string                          { return "*interface{}" }
func (c *ifaceCarrier) forms() string                         { return "" }
func (c *ifaceCarrier) bare() bool                            { return true }
func (c *ifaceCarrier) ref() interface{}                      { return c.p }
func (c *ifaceCarrier) set(v interface{}, n int)              { *c.p = v }
func (c *ifaceCarrier) want(w interface{}, n int) interface{} { return w }

// a slice whose elements are overwritten in place
type sliceCarrier struct{ s []interface{} }

func (c *sliceCarrier) name() string             { return "slice" }
func (c *sliceCarrier) forms() string            { return "" }
func (c *sliceCarrier) bare() bool               { return false }
func (c *sliceCarrier) ref() interface{}         { return c.s }
func (c *sliceCarrier) set(v interface{}, n int) { c.s[0], c.s[1] = v, n }
func (c *sliceCarrier) want(w interface{}, n int) interface{} {
	return []interface{}{w, num(n)}
}

// an object of the application that marshals its present state itself
type live struct {
	v interface{}
	n int
}

func (l *live) MarshalJSON() ([]byte, error) {
	return json.Marshal(map[string]interface{}{"live": l.v, "seq": l.n})
}

type liveCarrier struct{ l *live }

func (c *liveCarrier) name() string             { return "json.Marshaler" }
func (c *liveCarrier) forms() string            { return "" }
func (c *liveCarrier) bare() bool               { return false }
func (c *liveCarrier) ref() interface{}         { return c.l }
func (c *liveCarrier) set(v interface{}, n int) { c.l.v, c.l.n = v, n }
func (c *liveCarrier) want(w interface{}, n int) interface{} {
	return map[string]interface{}{"live": w, "seq": num(n)}
}

// the application's own function reads a variable at every request and hands WriteData its present value
type varCarrier struct{ v interface{} }

func (c *varCarrier) name() string                          { return "variable" }
func (c *varCarrier) forms() string                         { return "write" }
func (c *varCarrier) bare() bool                            { return true }
func (c *varCarrier) ref() interface{}                      { return c.v }
func (c *varCarrier) set(v interface{}, n int)              { c.v = v }
func (c *varCarrier) want(w interface{}, n int) interface{} { return w }

func carriers() []carrier {
	return []carrier{
		&mapCarrier{map[string]interface{}{}},
		&ptrCarrier{&box{}},
		&ifaceCarrier{new(interface{})},
		&sliceCarrier{make([]interface{}, 2)},
		&liveCarrier{&live{}},
		&varCarrier{},
	}
}

// ---- handler objects

type object struct {
	name string
	h    http.Handler
	car  carrier // nil for the error kinds
}

// objects makes, once each, every public way of holding the case's answer in the case's form.
// The logger context (nil / a context with an id) is crossed with everything in the httpapi stage; here the ways of
// holding a changing value take one of the two each, alternating with the case number.
func objects(cs *histCase, caseNo int, v0 interface{}) []object {
	var ctxs = []ol.Context{nil, ol.WithContext(context.Background())}
	var objs []object
	handler := cs.Form == "handler"
	// mk: the library's handler (form "handler", made now) / the application's function calling wr (form "write")
	add := func(name string, car func() carrier, mk func(ctx ol.Context, car carrier) http.Handler, wr func(ctx ol.Context, car carrier, w http.ResponseWriter, r *http.Request)) {
		for i, ctx := range ctxs {
			ctx := ctx
			if car != nil && (len(objs)+caseNo)%2 != i {
				continue
			}
			var c carrier
			if car != nil {
				c = car()
				c.set(v0, 0)
			}
			o := object{name: fmt.Sprintf("%s[ctx%d]", name, i), car: c}
			if c != nil {
				o.name = fmt.Sprintf("%s[ctx%d, value held as %s]", name, i, c.name())
			}
			if handler {
				if mk == nil {
					continue
				}
				o.h = mk(ctx, c)
			} else {
				if wr == nil {
					continue
				}
				o.h = http.HandlerFunc(func(w http.ResponseWriter, r *http.Request) { wr(ctx, c, w, r) })
			}
			objs = append(objs, o)
		}
	}
	code := func() int {
		n, err := strconv.ParseInt(cs.Made.Code, 10, 64)
		if err != nil {
			rp.Bug("code %q: %v", cs.Made.Code, err)
		}
		return int(n)
	}
	if cs.Made.Kind != "data" && cs.Made.Via != "direct" {
		rp.Bug("life of a handler object: errors behind another value (via %q) are rows of the one-request table", cs.Made.Via)
	}
	switch cs.Made.Kind {
	case "data":
		for k := range carriers() {
			k := k
			if f := carriers()[k].forms(); f != "" && f != cs.Form {
				continue
			}
			name := "Data"
			if !handler {
				name = "WriteData"
			}
			add(name, func() carrier { return carriers()[k] },
				func(ctx ol.Context, c carrier) http.Handler { return oh.Data(ctx, c.ref()) },
				func(ctx ol.Context, c carrier, w http.ResponseWriter, r *http.Request) {
					oh.WriteData(ctx, w, r, c.ref())
				})
		}
		allNil := cs.Made.Val.Name == "nil"
		for _, st := range cs.Steps {
			allNil = allNil && st.Val.Name == "nil"
		}
		if allNil {
			add("Success", nil, nil, func(ctx ol.Context, _ carrier, w http.ResponseWriter, r *http.Request) { oh.Success(ctx, w, r) })
		}
	case "systemError":
		e := oh.SystemError(code())
		add("Error(SystemError)", nil, func(ctx ol.Context, _ carrier) http.Handler { return oh.Error(ctx, e) },
			func(ctx ol.Context, _ carrier, w http.ResponseWriter, r *http.Request) { oh.WriteError(ctx, w, r, e) })
	case "complexError":
		e := oh.SystemComplexError{Code: oh.SystemError(code()), Message: message(cs.Made.Msg)}
		add("Error(SystemComplexError)", nil, func(ctx ol.Context, _ carrier) http.Handler { return oh.Error(ctx, e) },
			func(ctx ol.Context, _ carrier, w http.ResponseWriter, r *http.Request) { oh.WriteError(ctx, w, r, e) })
		add("CplxError", nil, func(ctx ol.Context, _ carrier) http.Handler { return oh.CplxError(ctx, e.Code, e.Message) },
			func(ctx ol.Context, _ carrier, w http.ResponseWriter, r *http.Request) {
				oh.WriteCplxError(ctx, w, r, e.Code, e.Message)
			})
	case "appError":
		e1 := appErr{code(), message(cs.Made.Msg)}
		e2 := &appErrPtr{code(), message(cs.Made.Msg)}
		add("Error(AppError)", nil, func(ctx ol.Context, _ carrier) http.Handler { return oh.Error(ctx, e1) },
			func(ctx ol.Context, _ carrier, w http.ResponseWriter, r *http.Request) { oh.WriteError(ctx, w, r, e1) })
		add("Error(*AppError)", nil, func(ctx ol.Context, _ carrier) http.Handler { return oh.Error(ctx, e2) },
			func(ctx ol.Context, _ carrier, w http.ResponseWriter, r *http.Request) { oh.WriteError(ctx, w, r, e2) })
	case "plainError":
		m := message(cs.Made.Msg)
		for _, e := range []error{errors.New(m), oe.New(m), fmt.Errorf("%s", m)} {
			e := e
			add(fmt.Sprintf("Error(%T)", e), nil, func(ctx ol.Context, _ carrier) http.Handler { return oh.Error(ctx, e) },
				func(ctx ol.Context, _ carrier, w http.ResponseWriter, r *http.Request) { oh.WriteError(ctx, w, r, e) })
		}
	case "plainErrorWithStatus":
		e1 := statusErr{cs.Made.Status, message(cs.Made.Msg)}
		e2 := &statusErrPtr{cs.Made.Status, message(cs.Made.Msg)}
		add("Error(HTTPStatus)", nil, func(ctx ol.Context, _ carrier) http.Handler { return oh.Error(ctx, e1) },
			func(ctx ol.Context, _ carrier, w http.ResponseWriter, r *http.Request) { oh.WriteError(ctx, w, r, e1) })
		add("Error(*HTTPStatus)", nil, func(ctx ol.Context, _ carrier) http.Handler { return oh.Error(ctx, e2) },
			func(ctx ol.Context, _ carrier, w http.ResponseWriter, r *http.Request) { oh.WriteError(ctx, w, r, e2) })
	case "appErrorWithStatus":
		for _, e := range errValues(&cs.Made) {
			e := e
			add("Error("+e.name+")", nil, func(ctx ol.Context, _ carrier) http.Handler { return oh.Error(ctx, e.err) },
				func(ctx ol.Context, _ carrier, w http.ResponseWriter, r *http.Request) {
					oh.WriteError(ctx, w, r, e.err)
				})
		}
	default:
		rp.Bug("unknown kind %q", cs.Made.Kind)
	}
	if !handler {
		for i := range objs {
			objs[i].name = "func calling Write form of " + objs[i].name
		}
	}
	return objs
}

// checkBinding: (never a verdict) encoding/json agrees that what is behind the reference now is of the step's class
// and stands for the expected document.
func checkBinding(o *object, vc vclass, want interface{}) {
	b, err := json.Marshal(o.car.ref())
	if !vc.Marshalable {
		if err == nil {
			rp.Bug("%s holding class %s/%d: unmarshalable in the specification but encoding/json accepts it: %s", o.name, vc.Name, vc.K, clip(string(b)))
		}
		return
	}
	if err != nil {
		rp.Bug("%s holding class %s/%d: marshalable in the specification but encoding/json refuses it: %v", o.name, vc.Name, vc.K, err)
	}
	got, err := parseJSON(b)
	if err != nil {
		rp.Bug("%s holding class %s/%d: %v", o.name, vc.Name, vc.K, err)
	}
	if d := jsonDiff(got, want, "data"); d != "" {
		rp.Bug("%s holding class %s/%d: expected document differs from encoding/json: %s", o.name, vc.Name, vc.K, d)
	}
}

const histPath = "/api/v1/thing"

func init() {
	registry["httphist"] = func(c *rp.Ctx, i int, raw json.RawMessage) rp.Result {
		var cs histCase
		if err := json.Unmarshal(raw, &cs); err != nil {
			panic(err)
		}
		if len(cs.Steps) == 0 || (cs.Form != "handler" && cs.Form != "write") {
			rp.Bug("case %d: form %q, %d steps", i, cs.Form, len(cs.Steps))
		}
		s := loopback()
		oh.Server = cs.Srv

		// the value of each step's class, bound once for all objects of the case
		type bound struct{ v, want interface{} }
		vals := make([]bound, len(cs.Steps))
		var v0 interface{}
		if cs.Made.Kind == "data" {
			v0, _ = concretise(c.Seed, cs.Made.Val)
			for k, st := range cs.Steps {
				vals[k].v, vals[k].want = concretise(c.Seed, st.Val)
			}
		}

		for oi, o := range objects(&cs, i, v0) {
			o := o
			// registered once, as applications do
			mux := http.NewServeMux()
			mux.Handle(histPath, o.h)
			var first struct {
				status int
				body   string
			}
			served := 0
			where := func(k int) string {
				st := cs.Steps[k]
				w := fmt.Sprintf("%s registered on a mux, request %d of %d", o.name, k+1, len(cs.Steps))
				if o.car != nil {
					w += fmt.Sprintf(" (value now version %d, of class %s/%d; at creation version 0, %s/%d", st.Ver, st.Val.Name, st.Val.K, cs.Made.Val.Name, cs.Made.Val.K)
					for j := 0; j < k; j++ {
						w += fmt.Sprintf("; at request %d version %d, %s/%d", j+1, cs.Steps[j].Ver, cs.Steps[j].Val.Name, cs.Steps[j].Val.K)
					}
					w += ")"
				}
				return w
			}
			for k, st := range cs.Steps {
				row := apiCase{Srv: cs.Srv, Cb: st.Cb, App: cs.Made, Exp: st.Exp, Client: st.Client}
				row.App.Val = st.Val
				if (row.Exp.Wrap != "") != (st.Cb.Present && st.Cb.Name != "") && row.Exp.Class == "success" {
					rp.Bug("case %d step %d: wrap %q for callback %+v", i, k, row.Exp.Wrap, st.Cb)
				}
				path := histPath
				if st.Cb.Present {
					path += "?callback=" + url.QueryEscape(st.Cb.Name)
				}
				var want interface{}
				if o.car != nil {
					// the application changes what is behind the reference; the handler object stays the same
					// (iff the specification's behaviour has a Mutate step before this request)
					if k == 0 && st.Ver > 0 || k > 0 && st.Ver != cs.Steps[k-1].Ver {
						o.car.set(vals[k].v, st.Ver)
					}
					if st.Val.Marshalable {
						want = o.car.want(vals[k].want, st.Ver)
						if !o.car.bare() {
							row.App.Val.Jtype = "any" // the document is the carrier's, not the bare value's
						}
					}
					checkBinding(&o, st.Val, want)
				}
				fail := func(v *verdict, status int, body string, obs map[string]interface{}) rp.Result {
					dev := v.dev
					if served > 0 && (status == first.status || status < 0) && body == first.body {
						dev = "C19/first-response-cached"
					}
					return rp.Result{OK: false, What: where(k) + " " + path + ": " + v.what, Deviation: dev, Observed: obs}
				}
				// through the mux, recorded
				rec := httptest.NewRecorder()
				mux.ServeHTTP(rec, httptest.NewRequest("GET", path, nil))
				body := rec.Body.String()
				if v := judgeResponse(&row, rec.Code, rec.Header(), body, want); v != nil {
					return fail(v, rec.Code, body, map[string]interface{}{"status": rec.Code, "header": rec.Header(), "body": clip(body),
						"first_status": first.status, "first_body": clip(first.body)})
				}
				if served == 0 {
					first.status, first.body = rec.Code, body
				}
				served++
				// the client half asks the same object over a connection: every third object, rotating from case to case
				// (the recorder is the cheap one)
				if (oi+i)%3 != 0 {
					continue
				}
				curMu.Lock()
				cur = mux.ServeHTTP
				panicked = nil
				curMu.Unlock()
				code, cbody, err := oh.ApiRequest(s.URL + path)
				curMu.Lock()
				pe := panicked
				curMu.Unlock()
				if pe != nil {
					return rp.Fail(i, "%s %s: handler panicked when served over the loopback server: %v", where(k), path, pe)
				}
				served++
				if st.Client.Judged {
					if v := judgeClient(&row, code, cbody, err, want); v != nil {
						return fail(v, -1, string(cbody), map[string]interface{}{"code": code, "err": fmt.Sprint(err), "body": clip(string(cbody)),
							"first_body": clip(first.body)})
					}
				}
				if err == nil || cbody != nil {
					if string(cbody) != body {
						v := bad("", "body fetched by ApiRequest differs from the one recorded for the same value just before: %s vs %s", clip(string(cbody)), clip(body))
						return fail(v, -1, string(cbody), nil)
					}
				}
			}
		}
		return rp.Result{OK: true, Nontriv: true}
	}
}
