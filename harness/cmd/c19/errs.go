package main

import (
	"errors"
	"fmt"
	"strconv"

	oe "github.com/ossrs/go-oryx-lib/errors"
	oh "github.com/ossrs/go-oryx-lib/http"
	"verifharness/rp"
)

// Error values for the rows of spec/http/HttpApi.tla: `kind` says which facets the application gave its error (the
// library's SystemError / SystemComplexError types, a method Code() int, a method Status() int), `via` how the value
// handed to Error relates to it (itself, a pointer to the library's value type, a struct embedding it, a wrapper of the
// library's errors package whose Cause() it is). The specification says what the value handed over IS (Seen) and which
// facet decides; this file only builds the values.

// an application error that knows an HTTP status too
type appStatusErr struct {
	code, status int
	msg          string
}

func (e appStatusErr) Code() int     { return e.code }
func (e appStatusErr) Status() int   { return e.status }
func (e appStatusErr) Error() string { return e.msg }

type appStatusErrPtr struct {
	code, status int
	msg          string
}

func (e *appStatusErrPtr) Code() int     { return e.code }
func (e *appStatusErrPtr) Status() int   { return e.status }
func (e *appStatusErrPtr) Error() string { return e.msg }

// ... by composition: Code() and Error() promoted from the application error, Status() added
type appErrPlusStatus struct {
	appErrPtr
	status int
}

func (e *appErrPlusStatus) Status() int { return e.status }

// ... by composition the other way round: Status() and Error() promoted, Code() added
type statusErrPlusCode struct {
	statusErr
	code int
}

func (e statusErrPlusCode) Code() int { return e.code }

// structs embedding the library's closed types
type embedsSystem struct {
	oh.SystemError
	Detail string
}

type embedsComplex struct {
	oh.SystemComplexError
}

type namedErr struct {
	name string
	err  error
}

func codeOf(a *appAnswer) int {
	n, err := strconv.ParseInt(a.Code, 10, 64)
	if err != nil {
		rp.Bug("code %q: %v", a.Code, err)
	}
	return int(n)
}

// the application's own errors of a kind
func innerErrs(a *appAnswer) []namedErr {
	switch a.Kind {
	case "systemError":
		return []namedErr{{"SystemError", oh.SystemError(codeOf(a))}}
	case "complexError":
		return []namedErr{{"SystemComplexError", oh.SystemComplexError{Code: oh.SystemError(codeOf(a)), Message: message(a.Msg)}}}
	case "appError":
		return []namedErr{{"AppError", appErr{codeOf(a), message(a.Msg)}}, {"*AppError", &appErrPtr{codeOf(a), message(a.Msg)}}}
	case "appErrorWithStatus":
		return []namedErr{
			{"AppError+HTTPStatus", appStatusErr{codeOf(a), a.Status, message(a.Msg)}},
			{"*AppError+HTTPStatus", &appStatusErrPtr{codeOf(a), a.Status, message(a.Msg)}},
			{"*struct{AppError}+Status()", &appErrPlusStatus{appErrPtr{codeOf(a), message(a.Msg)}, a.Status}},
			{"struct{HTTPStatus}+Code()", statusErrPlusCode{statusErr{a.Status, message(a.Msg)}, codeOf(a)}},
		}
	case "plainError":
		m := message(a.Msg)
		return []namedErr{{"errors.New", errors.New(m)}, {"oryx errors.New", oe.New(m)}, {"fmt.Errorf", fmt.Errorf("%s", m)}}
	case "plainErrorWithStatus":
		return []namedErr{{"HTTPStatus", statusErr{a.Status, message(a.Msg)}}, {"*HTTPStatus", &statusErrPtr{a.Status, message(a.Msg)}}}
	}
	rp.Bug("unknown error kind %q", a.Kind)
	return nil
}

// errValues: the values handed to Error for the row.
func errValues(a *appAnswer) []namedErr {
	in := innerErrs(a)
	var out []namedErr
	switch a.Via {
	case "", "direct":
		return in
	case "pointer":
		switch a.Kind {
		case "systemError":
			e := oh.SystemError(codeOf(a))
			out = append(out, namedErr{"*SystemError", &e})
		case "complexError":
			out = append(out, namedErr{"*SystemComplexError", &oh.SystemComplexError{Code: oh.SystemError(codeOf(a)), Message: message(a.Msg)}})
		}
	case "embedded":
		switch a.Kind {
		case "systemError":
			out = append(out, namedErr{"struct{SystemError}", embedsSystem{oh.SystemError(codeOf(a)), "d"}},
				namedErr{"*struct{SystemError}", &embedsSystem{oh.SystemError(codeOf(a)), "d"}})
		case "complexError":
			out = append(out, namedErr{"struct{SystemComplexError}", embedsComplex{oh.SystemComplexError{Code: oh.SystemError(codeOf(a)), Message: message(a.Msg)}}})
		}
	case "wrap":
		for _, e := range in {
			out = append(out, namedErr{"errors.Wrap(" + e.name + ")", oe.Wrap(e.err, "while serving")},
				namedErr{"errors.Wrapf(" + e.name + ")", oe.Wrapf(e.err, "request %d", 7)})
		}
	case "withMessage":
		for _, e := range in {
			out = append(out, namedErr{"errors.WithMessage(" + e.name + ")", oe.WithMessage(e.err, "while serving")})
		}
	case "withStack":
		for _, e := range in {
			out = append(out, namedErr{"errors.WithStack(" + e.name + ")", oe.WithStack(e.err)})
		}
	}
	if len(out) == 0 {
		rp.Bug("no error value for kind %q via %q", a.Kind, a.Via)
	}
	return out
}

// checkErrBinding (never a verdict): the value built is to Go's type system what the specification says it is -
// an error with its own code (class "coded") or one without, with or without its own status.
func checkErrBinding(a *appAnswer, exp *expected, e namedErr) {
	_, isC := e.err.(oh.SystemComplexError)
	_, isS := e.err.(oh.SystemError)
	_, isA := e.err.(oh.AppError)
	st, hasSt := e.err.(oh.HTTPStatus)
	switch exp.Class {
	case "coded":
		if !isC && !isS && !isA {
			rp.Bug("%s (%s via %s): the specification says it has its own code, the value has none", e.name, a.Kind, a.Via)
		}
		if hasSt != (a.Kind == "appErrorWithStatus") {
			rp.Bug("%s (%s via %s): Status() present=%v", e.name, a.Kind, a.Via, hasSt)
		}
	case "status":
		if isC || isS || isA {
			rp.Bug("%s (%s via %s): the specification says it has no code of its own, the value has one", e.name, a.Kind, a.Via)
		}
		if hasSt && st.Status() != exp.Status || !hasSt && exp.Status != 500 {
			rp.Bug("%s (%s via %s): own status present=%v, the specification expects %d", e.name, a.Kind, a.Via, hasSt, exp.Status)
		}
	default:
		rp.Bug("%s: class %q for an error", e.name, exp.Class)
	}
}
