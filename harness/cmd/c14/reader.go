package main

import (
	"bufio"
	"bytes"
	"encoding/binary"
	"encoding/json"
	"errors"
	"fmt"
	"io"
	"net"
	"net/http"
	"os"
	"runtime"
	"runtime/debug"
	"strings"
	"sync"
	"sync/atomic"
	"time"

	"github.com/ossrs/go-oryx-lib/websocket"
	"verifharness/ld"
	"verifharness/rp"
	"verifharness/transport"
)

// C14: behaviours of spec/ws/WsReader.tla (a sequence of frames sent by an arbitrary peer, with the
// specification's outcome after every step) are replayed against a real websocket.Conn of the given
// role: the frames are expanded from the specification's layout descriptors (masking applied here),
// written into the in-memory transport, the stream is ended after the last frame and at offsets inside
// the last frame, and the connection is read until it fails. Compared: delivered messages (type and
// exact payload), the class of the failure, stickiness, and the frames the endpoint wrote back
// (tokenised by the small frame parser below; all rules live in the specification).

var registry = map[string]rp.Replayer{}
var batchRegistry = map[string]rp.Batch{}

func main() { rp.Main(registry, batchRegistry) }

type outcome struct {
	Class string `json:"class"`
	Close string `json:"close"` // "must" | "may"
	Code  int    `json:"code"`  // 0: not judged
}

type frag struct {
	N  int `json:"n"`
	ID int `json:"id"`
}

type step struct {
	H      json.RawMessage `json:"h"`
	K      []int           `json:"k"`
	P      json.RawMessage `json:"p"`
	Op     int             `json:"op"`
	Fin    bool            `json:"fin"`
	Z1     bool            `json:"z1"` // permessage-deflate negotiated and the sender set RSV1 on this frame
	Big    string          `json:"big"`
	Abs    bool            `json:"abs"`
	Cut    []outcome       `json:"cut"`
	Failed string          `json:"failed"`
	Nd     int             `json:"nd"`
	Np     int             `json:"np"`
}

type message struct {
	Type  int    `json:"type"`
	Len   int    `json:"len"`
	Frags []frag `json:"frags"`
	Z     bool   `json:"z"` // delivered as a compressed message: the payload is what its DEFLATE stream inflates to
}

type wsCase struct {
	Role  string `json:"role"`
	Limit int64  `json:"limit"`
	Fam   string `json:"fam"`
	Pmd   bool   `json:"pmd"` // permessage-deflate negotiated in the opening handshake (RFC 7692)
	// Bufsize is the read buffer size the application configures (0: default). Where the family has it as a
	// dimension (Bufdim) every run of the case uses it; otherwise the replayer sweeps bufSweep on its own.
	// The expectation never depends on it (WsReader: no action reads bufsize; BufferBlind).
	Bufsize   int       `json:"bufsize"`
	Bufdim    bool      `json:"bufdim"`
	Steps     []step    `json:"steps"`
	Delivered []message `json:"delivered"`
	Pongs     []frag    `json:"pongs"`
	Failed    string    `json:"failed"`
	Cc        int       `json:"cc"`
	End       []outcome `json:"end"`
	Clean     bool      `json:"clean"`
}

// expand renders one frame: header LD, masking key, payload LD (masked here: RFC 6455 5.3 is an XOR over bytes).
// payload, when not nil, replaces the expansion of the payload LD (same length): the piece of a DEFLATE stream.
func expand(s step, seed int, payload []byte) (frame []byte, headerLen int) {
	h, err := ld.Parse(s.H)
	if err != nil {
		rp.Bug("header LD: %v", err)
	}
	p, err := ld.Parse(s.P)
	if err != nil {
		rp.Bug("payload LD: %v", err)
	}
	hb, err := h.Expand(seed)
	if err != nil {
		rp.Bug("header LD: %v", err)
	}
	pb, err := p.Expand(seed)
	if err != nil {
		rp.Bug("payload LD: %v", err)
	}
	if payload != nil {
		if len(payload) != len(pb) {
			rp.Bug("payload of %d bytes for a frame of %d", len(payload), len(pb))
		}
		pb = payload
	}
	out := append([]byte(nil), hb...)
	switch len(s.K) {
	case 0:
		if hb[1]&0x80 != 0 {
			rp.Bug("mask bit set without a key")
		}
	case 4:
		if hb[1]&0x80 == 0 {
			rp.Bug("masking key without the mask bit")
		}
		for _, k := range s.K {
			if k < 0 || k > 255 {
				rp.Bug("masking key byte %d", k)
			}
			out = append(out, byte(k))
		}
		m := make([]byte, len(pb))
		for i := range pb {
			m[i] = pb[i] ^ byte(s.K[i%4])
		}
		pb = m
	default:
		rp.Bug("masking key of %d bytes", len(s.K))
	}
	headerLen = len(out)
	return append(out, pb...), headerLen
}

// ---------------------------------------------------------------------------------------------
// The peer's compressor (RFC 7692 7.2.1), by hand: a message of w octets on the wire is a DEFLATE stream of stored
// blocks (header octet 0, LEN, NLEN, data) followed by the one octet that is left of the empty stored block
// 00 00 00 ff ff after its last four octets are removed. w = 1 is the empty message; 2..5 octets cannot be made so.

func zPlainLen(w int) (plain, blocks int, ok bool) {
	if w == 1 {
		return 0, 0, true
	}
	for k := 1; w-1-5*k >= 0; k++ {
		if w-1-5*k <= 65535*k {
			return w - 1 - 5*k, k, true
		}
	}
	return 0, 0, false
}

// zPlain is the content of the compressed message of w wire octets whose first frame is step id.
func zPlain(w, id, seed int) ([]byte, bool) {
	n, _, ok := zPlainLen(w)
	if !ok {
		return nil, false
	}
	return ld.FillBytes(n, id, seed), true
}

func zStream(w, id, seed int) ([]byte, bool) {
	plain, ok := zPlain(w, id, seed)
	if !ok {
		return nil, false
	}
	_, blocks, _ := zPlainLen(w)
	var out []byte
	for k := 0; k < blocks; k++ {
		n := len(plain)
		if k < blocks-1 && n > 65535 {
			n = 65535
		}
		if n > 65535 {
			rp.Bug("stored block of %d bytes", n)
		}
		out = append(out, 0, byte(n), byte(n>>8), ^byte(n), ^byte(n>>8))
		out = append(out, plain[:n]...)
		plain = plain[n:]
	}
	out = append(out, 0)
	if len(out) != w || len(plain) != 0 {
		rp.Bug("DEFLATE stream of %d octets for %d", len(out), w)
	}
	return out, true
}

// zGroups: which frames carry the pieces of one compressed message - the sender's view: a data frame with RSV1 (and
// the extension negotiated) starts one, continuation frames go on with the message that is open, FIN ends it.
func zGroups(steps []step) [][]int {
	var groups [][]int
	cur := -1
	for k, s := range steps {
		switch s.Op {
		case 1, 2:
			cur = -1
			if s.Z1 && s.Big == "no" {
				groups = append(groups, []int{k})
				cur = len(groups) - 1
			}
		case 0:
			if cur >= 0 && s.Big == "no" {
				groups[cur] = append(groups[cur], k)
			} else {
				cur = -1
			}
		default:
			continue
		}
		if s.Fin {
			cur = -1
		}
	}
	return groups
}

// wantPayload is the content of a message the specification delivers.
func wantPayload(w message, seed int) []byte {
	if w.Z {
		p, ok := zPlain(w.Len, w.Frags[0].ID, seed)
		if !ok {
			rp.Bug("the specification delivers a compressed message of %d octets: not a DEFLATE stream (alphabet)", w.Len)
		}
		return p
	}
	var want []byte
	for _, f := range w.Frags {
		want = append(want, ld.FillBytes(f.N, f.ID, seed)...)
	}
	if len(want) != w.Len {
		rp.Bug("message fragments sum to %d, len %d", len(want), w.Len)
	}
	return want
}

// ---------------------------------------------------------------------------------------------
// an independent tokeniser of what the endpoint wrote (it only splits bytes into frame records)

type wframe struct {
	Fin     bool
	Rsv     int
	Op      int
	Masked  bool
	Payload []byte
}

func tokenise(b []byte) ([]wframe, error) {
	var out []wframe
	for off := 0; off < len(b); {
		if len(b)-off < 2 {
			return out, fmt.Errorf("truncated frame header at offset %d", off)
		}
		f := wframe{Fin: b[off]&0x80 != 0, Rsv: int(b[off]>>4) & 7, Op: int(b[off] & 0xf), Masked: b[off+1]&0x80 != 0}
		n := uint64(b[off+1] & 0x7f)
		p := off + 2
		switch n {
		case 126:
			if len(b)-p < 2 {
				return out, fmt.Errorf("truncated 16-bit length at offset %d", p)
			}
			n = uint64(binary.BigEndian.Uint16(b[p:]))
			p += 2
		case 127:
			if len(b)-p < 8 {
				return out, fmt.Errorf("truncated 64-bit length at offset %d", p)
			}
			n = binary.BigEndian.Uint64(b[p:])
			p += 8
		}
		var key []byte
		if f.Masked {
			if len(b)-p < 4 {
				return out, fmt.Errorf("truncated masking key at offset %d", p)
			}
			key = b[p : p+4]
			p += 4
		}
		if uint64(len(b)-p) < n {
			return out, fmt.Errorf("frame at offset %d announces %d payload bytes, %d written", off, n, len(b)-p)
		}
		f.Payload = append([]byte(nil), b[p:p+int(n)]...)
		for i := range f.Payload {
			if f.Masked {
				f.Payload[i] ^= key[i%4]
			}
		}
		out = append(out, f)
		off = p + int(n)
	}
	return out, nil
}

// ---------------------------------------------------------------------------------------------

type gotMsg struct {
	Type    int
	Payload []byte
}

type observed struct {
	Msgs   []gotMsg
	Err    error
	Err2   error // second call after the failure
	Msg2   bool  // the second call delivered something
	Wrote  []byte
	Wrote2 int // bytes written during the second call
}

type variant struct {
	API     int // 0 ReadMessage, 1 NextReader+ReadAll, 2 NextReader + small reads
	Seg     string
	ReadBuf int
	// EOFData: the transport hands out its last bytes together with io.EOF (allowed by io.Reader)
	EOFData bool
	// LocalClose: the application has already sent its own Close frame and keeps reading (RFC 6455 7.1.2:
	// the peer may still send data and control frames until it answers the Close); what is delivered must
	// not depend on it, only the frames written back are no longer possible
	LocalClose bool
	// Hijack > 0 (server role only): the connection is made by the real Upgrader from a hijacked HTTP connection whose
	// bufio.Reader has this size (the library may go on using that reader instead of one of ReadBuf bytes); the
	// source of the read buffer is configuration too, and the outcome must not depend on it
	Hijack int
}

func (v variant) String() string {
	s := fmt.Sprintf("api=%s seg=%s readbuf=%d eof-with-data=%v local-close-sent=%v", []string{"ReadMessage", "NextReader+ReadAll", "NextReader+Read(3)"}[v.API], v.Seg, v.ReadBuf, v.EOFData, v.LocalClose)
	if v.Hijack > 0 {
		s += fmt.Sprintf(" via-upgrader(hijacked-reader=%d)", v.Hijack)
	}
	return s
}

// readOne reads the next message with the chosen API.
func readOne(ws *websocket.Conn, api int) (int, []byte, error) {
	if api == 0 {
		return ws.ReadMessage()
	}
	t, r, err := ws.NextReader()
	if err != nil {
		return t, nil, err
	}
	if api == 1 {
		p, err := io.ReadAll(r)
		return t, p, err
	}
	var p []byte
	buf := make([]byte, 3)
	for {
		n, err := r.Read(buf)
		p = append(p, buf[:n]...)
		if err == io.EOF {
			return t, p, nil
		}
		if err != nil {
			return t, p, err
		}
	}
}

// hijackRW is the http.ResponseWriter of a server that lets its connection be taken over.
type hijackRW struct {
	conn net.Conn
	brw  *bufio.ReadWriter
	hdr  http.Header
}

func (h *hijackRW) Header() http.Header         { return h.hdr }
func (h *hijackRW) Write(p []byte) (int, error) { return len(p), nil }
func (h *hijackRW) WriteHeader(int)             {}
func (h *hijackRW) Hijack() (net.Conn, *bufio.ReadWriter, error) {
	return h.conn, h.brw, nil
}

// upgraded makes the server connection with the real Upgrader (opening handshake of RFC 6455 4.2.1 answered over conn).
func upgraded(conn net.Conn, v variant, pmd bool) *websocket.Conn {
	req, err := http.NewRequest("GET", "http://verif.example/ws", nil)
	if err != nil {
		rp.Bug("request: %v", err)
	}
	req.Header.Set("Connection", "Upgrade")
	req.Header.Set("Upgrade", "websocket")
	req.Header.Set("Sec-Websocket-Version", "13")
	req.Header.Set("Sec-Websocket-Key", "dGhlIHNhbXBsZSBub25jZQ==")
	w := &hijackRW{conn: conn, hdr: http.Header{},
		brw: bufio.NewReadWriter(bufio.NewReaderSize(conn, v.Hijack), bufio.NewWriterSize(conn, 4096))}
	if pmd {
		req.Header.Set("Sec-Websocket-Extensions", "permessage-deflate; server_no_context_takeover; client_no_context_takeover")
	}
	up := websocket.Upgrader{ReadBufferSize: v.ReadBuf, WriteBufferSize: 1024, EnableCompression: pmd}
	ws, err := up.Upgrade(w, req, nil)
	if err != nil {
		rp.Bug("the Upgrader refused a correct opening handshake: %v", err)
	}
	return ws
}

// drive feeds wire (ending the stream after it) to a fresh connection of the role and reads until failure.
func drive(cs *wsCase, wire []byte, v variant, seed int, maxMsgs int) observed {
	a, _ := transport.NewConnPair()
	a.In.Seg = transport.SegmenterByName(v.Seg, int64(seed)*7919+int64(len(wire)))
	a.In.Write(wire)
	a.In.EOFWithData = v.EOFData
	a.In.CloseWrite()
	var ws *websocket.Conn
	skip := 0
	if v.Hijack > 0 {
		if cs.Role != "server" {
			rp.Bug("the Upgrader makes server connections only")
		}
		ws = upgraded(a, v, cs.Pmd)
		skip = a.Out.Len() // the HTTP response
		if skip < 4 || !bytes.HasSuffix(a.Out.Bytes(), []byte("\r\n\r\n")) {
			rp.Bug("no HTTP response written by the Upgrader: %q", a.Out.Bytes())
		}
		if cs.Pmd != bytes.Contains(bytes.ToLower(a.Out.Bytes()), []byte("permessage-deflate")) {
			rp.Bug("extension negotiated by the Upgrader is not %v: %q", cs.Pmd, a.Out.Bytes())
		}
	} else {
		ws = websocket.VerifNewConn(a, cs.Role == "server", v.ReadBuf, 0, cs.Pmd)
	}
	if cs.Limit > 0 {
		ws.SetReadLimit(cs.Limit)
	}
	if v.LocalClose {
		if err := ws.WriteControl(websocket.CloseMessage, websocket.FormatCloseMessage(websocket.CloseNormalClosure, ""), time.Now().Add(time.Hour)); err != nil {
			rp.Bug("local close failed: %v", err)
		}
	}
	var o observed
	for {
		t, p, err := readOne(ws, v.API)
		if err != nil {
			o.Err = err // p may hold the part of a message read before the failure: it is not a delivered message
			break
		}
		o.Msgs = append(o.Msgs, gotMsg{t, p})
		if len(o.Msgs) > maxMsgs {
			break // more messages than frames were sent: reported by the comparison
		}
	}
	before := a.Out.Len()
	if o.Err != nil {
		_, _, err := readOne(ws, v.API)
		o.Err2 = err
		o.Msg2 = err == nil
	}
	o.Wrote = a.Out.Bytes()[skip:]
	o.Wrote2 = len(o.Wrote) + skip - before
	return o
}

func classOf(err error) (string, int) {
	if err == nil {
		return "none", 0
	}
	if errors.Is(err, websocket.ErrReadLimit) {
		return "limit", 0
	}
	var ce *websocket.CloseError
	if errors.As(err, &ce) {
		if ce.Code == websocket.CloseAbnormalClosure {
			return "eof", 0 // the library reports the end of the stream as close 1006 (never on the wire)
		}
		return "close", ce.Code
	}
	if errors.Is(err, io.EOF) || errors.Is(err, io.ErrUnexpectedEOF) {
		return "eof", 0
	}
	return "other", 0
}

func describeFrames(fs []wframe) string {
	var s []string
	for _, f := range fs {
		switch {
		case f.Op == 8 && len(f.Payload) >= 2:
			s = append(s, fmt.Sprintf("close(%d,%q)", binary.BigEndian.Uint16(f.Payload), f.Payload[2:]))
		case f.Op == 8:
			s = append(s, fmt.Sprintf("close(body %d bytes)", len(f.Payload)))
		case f.Op == 10:
			s = append(s, fmt.Sprintf("pong(%d bytes)", len(f.Payload)))
		default:
			s = append(s, fmt.Sprintf("op%d(fin=%v,%d bytes)", f.Op, f.Fin, len(f.Payload)))
		}
	}
	return "[" + strings.Join(s, " ") + "]"
}

// matchOutcome says whether the observed failure is the outcome oc of the specification.
func matchOutcome(oc outcome, cls string, code int, closes []wframe) string {
	switch oc.Class {
	case "protocol", "length", "io":
		// a failure of the reader that is neither the limit error nor a close frame received from the peer
		if cls == "close" {
			return fmt.Sprintf("error is a CloseError with the peer's code %d", code)
		}
		if cls == "limit" && oc.Class != "length" {
			return "error is ErrReadLimit"
		}
	case "limit":
		if cls != "limit" {
			return "error is not ErrReadLimit"
		}
	case "close":
		if cls != "close" || code != oc.Code {
			return fmt.Sprintf("error is not a CloseError with code %d", oc.Code)
		}
	default:
		rp.Bug("unknown outcome class %q", oc.Class)
	}
	if len(closes) > 1 {
		return fmt.Sprintf("%d close frames written", len(closes))
	}
	if oc.Close == "must" && len(closes) == 0 {
		return fmt.Sprintf("no Close frame written (must carry %d)", oc.Code)
	}
	if len(closes) == 1 && oc.Code != 0 {
		c := closes[0]
		got := -1
		if len(c.Payload) >= 2 {
			got = int(binary.BigEndian.Uint16(c.Payload))
		}
		echoNoBody := oc.Class == "close" && len(c.Payload) == 0 // 5.5.1: a body is optional, the echo of the code is "typical"
		if oc.Class == "close" && oc.Code == websocket.CloseNoStatusReceived {
			// 1005 is never sent: the answer to an empty close has no body
			if len(c.Payload) != 0 && got == websocket.CloseNoStatusReceived {
				return "Close frame written carries 1005"
			}
		} else if got != oc.Code && !echoNoBody {
			return fmt.Sprintf("Close frame written carries %d, want %d", got, oc.Code)
		}
	}
	return ""
}

// compare checks one run against the expectation: delivered messages, pongs, one of the allowed outcomes.
// compareMsgs judges only what was delivered (and that the read ended in an error).
func compareMsgs(cs *wsCase, o observed, seed int, wantMsgs []message) (string, string) {
	for i, m := range o.Msgs {
		if i >= len(wantMsgs) {
			return fmt.Sprintf("message %d delivered (type %d, %d bytes) but the specification delivers only %d message(s)", i+1, m.Type, len(m.Payload), len(wantMsgs)), "extra"
		}
		w := wantMsgs[i]
		want := wantPayload(w, seed)
		if m.Type != w.Type {
			return fmt.Sprintf("message %d has type %d, want %d", i+1, m.Type, w.Type), ""
		}
		if !bytes.Equal(m.Payload, want) {
			return fmt.Sprintf("message %d payload differs: %s", i+1, rp.FirstDiff(m.Payload, want)), "payload"
		}
	}
	if len(o.Msgs) < len(wantMsgs) {
		w := wantMsgs[len(o.Msgs)]
		return fmt.Sprintf("only %d of %d messages delivered; message %d (type %d, %d bytes) missing, the read failed with: %v", len(o.Msgs), len(wantMsgs), len(o.Msgs)+1, w.Type, w.Len, o.Err), "missing"
	}
	if o.Err == nil {
		return "the reader never failed", ""
	}
	return "", ""
}

func compare(cs *wsCase, o observed, seed int, wantMsgs []message, wantPongs []frag, allowed []outcome) (string, string) {
	for i, m := range o.Msgs {
		if i >= len(wantMsgs) {
			return fmt.Sprintf("message %d delivered (type %d, %d bytes) but the specification delivers only %d message(s)", i+1, m.Type, len(m.Payload), len(wantMsgs)), "extra"
		}
		w := wantMsgs[i]
		want := wantPayload(w, seed)
		if m.Type != w.Type {
			return fmt.Sprintf("message %d has type %d, want %d", i+1, m.Type, w.Type), ""
		}
		if !bytes.Equal(m.Payload, want) {
			return fmt.Sprintf("message %d payload differs: %s", i+1, rp.FirstDiff(m.Payload, want)), "payload"
		}
		if cs.Limit > 0 && int64(w.Len) > cs.Limit {
			rp.Bug("specification delivers %d bytes with limit %d", w.Len, cs.Limit)
		}
	}
	if len(o.Msgs) < len(wantMsgs) {
		w := wantMsgs[len(o.Msgs)]
		return fmt.Sprintf("only %d of %d messages delivered; message %d (type %d, %d bytes) missing, the read failed with: %v", len(o.Msgs), len(wantMsgs), len(o.Msgs)+1, w.Type, w.Len, o.Err), "missing"
	}
	if o.Err == nil {
		return "the reader never failed", ""
	}
	// sticky
	if o.Msg2 {
		return fmt.Sprintf("after the failure (%v) a further read delivered a message: the failure is not permanent", o.Err), "notsticky"
	}
	if o.Err2 == nil {
		return "second read after the failure returned no error", "notsticky"
	}
	if o.Wrote2 != 0 {
		return fmt.Sprintf("the second read after the failure wrote %d more bytes", o.Wrote2), "notsticky"
	}
	// frames written back
	fs, err := tokenise(o.Wrote)
	if err != nil {
		return fmt.Sprintf("what the endpoint wrote is not a sequence of frames: %v (% x)", err, o.Wrote), ""
	}
	var pongs, closes []wframe
	for i, f := range fs {
		switch f.Op {
		case 10:
			if len(closes) > 0 {
				return "a pong was written after the Close frame: " + describeFrames(fs), ""
			}
			pongs = append(pongs, f)
		case 8:
			closes = append(closes, f)
			if i != len(fs)-1 {
				return "frames written after the Close frame: " + describeFrames(fs), ""
			}
		default:
			return "unexpected frame written: " + describeFrames(fs), ""
		}
		if !f.Fin || f.Rsv != 0 || len(f.Payload) > 125 {
			return "malformed control frame written: " + describeFrames(fs), ""
		}
	}
	if len(pongs) != len(wantPongs) {
		return fmt.Sprintf("%d pongs written, the specification answers %d pings: %s", len(pongs), len(wantPongs), describeFrames(fs)), "pongs"
	}
	for i, p := range pongs {
		want := ld.FillBytes(wantPongs[i].N, wantPongs[i].ID, seed)
		if !bytes.Equal(p.Payload, want) {
			return fmt.Sprintf("pong %d does not carry the ping's payload: %s", i+1, rp.FirstDiff(p.Payload, want)), "pongpayload"
		}
	}
	cls, code := classOf(o.Err)
	var why []string
	for _, oc := range allowed {
		w := matchOutcome(oc, cls, code, closes)
		if w == "" {
			return "", ""
		}
		why = append(why, fmt.Sprintf("%s: %s", oc.Class, w))
	}
	return fmt.Sprintf("failure does not match the specification: read error %q (class %s), frames written %s; %s", o.Err.Error(), cls, describeFrames(fs), strings.Join(why, "; ")), "outcome"
}

func wrote1002(b []byte) bool {
	fs, _ := tokenise(b)
	for _, f := range fs {
		if f.Op == 8 && len(f.Payload) >= 2 && binary.BigEndian.Uint16(f.Payload) == websocket.CloseProtocolError {
			return true
		}
	}
	return false
}

// cutOffsets are the offsets (relative to the start of the last frame, 0 < off < len) at which the stream is ended.
func cutOffsets(frameLen, headerLen int, thorough bool, seed int) []int {
	set := map[int]bool{}
	add := func(o int) {
		if o > 0 && o < frameLen {
			set[o] = true
		}
	}
	max := 40
	if thorough {
		max = 140
	}
	if frameLen <= max {
		for o := 1; o < frameLen; o++ {
			add(o)
		}
	} else {
		for o := 1; o <= headerLen+2; o++ {
			add(o)
		}
		add(frameLen / 2)
		add(frameLen - 2)
		add(frameLen - 1)
		add(headerLen + 1 + (seed*31+frameLen)%(frameLen-headerLen))
		if thorough {
			for j := 1; j < 12; j++ {
				add(headerLen + (seed*131+j*7919)%(frameLen-headerLen))
			}
		}
	}
	var out []int
	for o := 0; o < frameLen; o++ {
		if set[o] {
			out = append(out, o)
		}
	}
	return out
}

func deviationOf(cs *wsCase, kind string, o observed, v variant, payloadLens []int, b0 []byte) string {
	// reserved bits with the extension negotiated: the first frame the specification fails on has RSV1 set
	if cs.Pmd && kind != "payload" && kind != "notsticky" {
		for k, s := range cs.Steps {
			if s.Abs {
				break
			}
			if s.Failed == "protocol" {
				if rsv := int(b0[k]>>4) & 7; rsv&4 != 0 && rsv&3 != 0 && (s.Op == 1 || s.Op == 2) {
					return "C14/rsv1-shadows-reserved-bits"
				} else if rsv == 4 && (s.Op == 0 || s.Op >= 8) {
					return "C14/rsv1-on-non-first-frame-accepted"
				}
			}
			if s.Failed != "no" {
				break
			}
		}
	}
	// C14/control-needs-buffer: a control frame (legal: <= 125 bytes) longer than the configured read buffer was
	// the first frame not taken in, and the read failed with an error of the reader's own
	if cls, _ := classOf(o.Err); cls == "other" && v.ReadBuf > 0 && (kind == "missing" || kind == "pongs" || kind == "outcome") {
		for k, s := range cs.Steps {
			if s.Abs {
				break
			}
			if s.Op >= 8 && payloadLens[k] <= 125 && payloadLens[k] > v.ReadBuf && s.Failed != "protocol" {
				return "C14/control-needs-buffer"
			}
			if s.Failed != "no" {
				break
			}
		}
	}
	// the named deviations of the specification, recognised on the first failing step
	for _, s := range cs.Steps {
		if s.Failed != "no" || s.Abs {
			if (s.Big == "p63" || s.Big == "p64m1") && (kind == "extra" || kind == "outcome") {
				return "C14/length-top-bit"
			}
			break
		}
	}
	if kind == "extra" && cs.Failed == "limit" {
		return "C14/limit-per-frame"
	}
	if kind == "pongpayload" {
		return "C14/pong-empty"
	}
	return ""
}

var segs = []string{"whole", "one", "random"}

// bufSweep: the read buffer sizes tried where the case does not fix one (the same set as BufSizes of the
// bufsize family: default, below / at / above a frame header, below / at / above the largest control payload).
var bufSweep = []int{0, 1, 2, 13, 14, 15, 64, 124, 125, 126, 1024}

func sweep(k int) int {
	if k < 0 {
		k = -k
	}
	return bufSweep[k%len(bufSweep)]
}

// one case under a watchdog; a panic escaping the library is a verdict, a harness bug ends the process
func guarded(c *rp.Ctx, i int, raw json.RawMessage) rp.Result {
	done := make(chan rp.Result, 1)
	go func() {
		defer func() {
			if e := recover(); e != nil {
				switch e.(type) {
				case rp.HarnessBug, *json.UnmarshalTypeError, *json.SyntaxError, *json.InvalidUnmarshalError:
					fmt.Fprintf(os.Stderr, "replay: harness bug on case %d: %v\n%s\n", i, e, debug.Stack())
					os.Exit(3)
				}
				done <- rp.Result{I: i, OK: false, What: fmt.Sprintf("panic: %v", e), Observed: string(debug.Stack())}
			}
		}()
		r := replayCase(c, i, raw)
		r.I = i
		done <- r
	}()
	select {
	case r := <-done:
		return r
	case <-time.After(rp.CaseTimeout):
		return rp.Result{I: i, OK: false, What: fmt.Sprintf("stall: the case did not finish within %v (a call into the library never returned)", rp.CaseTimeout)}
	}
}

func init() {
	// cases are independent and single-threaded: replay them on all cores
	batchRegistry["reader"] = func(c *rp.Ctx, cases []json.RawMessage) []rp.Result {
		out := make([]rp.Result, len(cases))
		workers := runtime.GOMAXPROCS(0)
		if workers > 12 {
			workers = 12
		}
		var next int64 = -1
		var wg sync.WaitGroup
		for w := 0; w < workers; w++ {
			wg.Add(1)
			go func() {
				defer wg.Done()
				for {
					i := int(atomic.AddInt64(&next, 1))
					if i >= len(cases) {
						return
					}
					out[i] = guarded(c, i, cases[i])
					cases[i] = nil
				}
			}()
		}
		wg.Wait()
		return out
	}
}

func replayCase(c *rp.Ctx, idx int, raw json.RawMessage) rp.Result {
	var cs wsCase
	if err := json.Unmarshal(raw, &cs); err != nil {
		panic(err)
	}
	// every per-case choice (API, segmentation, buffer, cut offsets) derives from the case's CONTENT, not from
	// its position in the file: a failing case must fail the same way when vcheck replays it alone
	i := rp.ContentHash(raw) % 1000003
	_ = idx
	if cs.Bufsize < 0 {
		rp.Bug("case %d: read buffer size %d", idx, cs.Bufsize)
	}
	if len(cs.Steps) == 0 || len(cs.End) == 0 || (cs.Role != "server" && cs.Role != "client") {
		rp.Bug("malformed case %d", idx)
	}
	thorough := c.Tier == "thorough"
	var wire []byte
	lastStart, lastHdr := 0, 0
	payloadLens := make([]int, len(cs.Steps))
	for k, s := range cs.Steps {
		f, h := expand(s, c.Seed, nil)
		payloadLens[k] = len(f) - h
	}
	// the payloads of compressed messages are DEFLATE streams, cut where the peer fragments the message
	override := make([][]byte, len(cs.Steps))
	for _, g := range zGroups(cs.Steps) {
		w := 0
		for _, k := range g {
			w += payloadLens[k]
		}
		if z, ok := zStream(w, g[0]+1, c.Seed); ok {
			for _, k := range g {
				override[k] = z[:payloadLens[k]:payloadLens[k]]
				z = z[payloadLens[k]:]
			}
		}
	}
	b0 := make([]byte, len(cs.Steps))
	for k, s := range cs.Steps {
		f, h := expand(s, c.Seed, override[k])
		b0[k] = f[0]
		if k == len(cs.Steps)-1 {
			lastStart, lastHdr = len(wire), h
		}
		wire = append(wire, f...)
	}
	last := cs.Steps[len(cs.Steps)-1]
	maxMsgs := len(cs.Steps) + 1
	runs := 0

	fail := func(what, kind string, v variant, where string, o observed) rp.Result {
		return rp.Result{OK: false, What: fmt.Sprintf("%s role, limit %d, %d frame(s), %s, %s: %s", cs.Role, cs.Limit, len(cs.Steps), where, v, what),
			Deviation: deviationOf(&cs, kind, o, v, payloadLens, b0),
			Observed:  map[string]interface{}{"messages": len(o.Msgs), "err": fmt.Sprint(o.Err), "wrote": fmt.Sprintf("% x", o.Wrote)}}
	}

	// The only real-time element of a run is the library's own write deadline for the frames it answers with (pong,
	// close: now + 1 s). A run takes microseconds; on a starved machine a run that was suspended for about that long
	// can lose such a frame. A failing run that lasted long enough for that is driven again - a failure of the
	// library on these (deterministic) inputs fails again at once; a run that was not suspended is never repeated.
	run := func(w []byte, v variant, cmp func(o observed) (string, string)) (observed, string, string) {
		for attempt := 0; ; attempt++ {
			t0 := time.Now()
			o := drive(&cs, w, v, c.Seed, maxMsgs)
			el := time.Since(t0)
			runs++
			what, kind := cmp(o)
			if what == "" || el < 800*time.Millisecond || attempt >= 3 {
				return o, what, kind
			}
			fmt.Fprintf(os.Stderr, "replay: case %d: a failing run took %v (the library's 1 s write deadline may have expired), driven again: %s\n", idx, el, what)
		}
	}

	// (1) the stream ends after the last frame
	variants := []variant{{API: 0, Seg: "whole"}, {API: 1 + (i+c.Seed)%2, Seg: segs[1+(i+c.Seed)%2], ReadBuf: sweep(i/2 + c.Seed)},
		{API: (i + c.Seed) % 2, Seg: "whole", ReadBuf: 125, EOFData: true}}
	if thorough {
		variants = []variant{{API: 0, Seg: "whole"}, {API: 1, Seg: "one", ReadBuf: 125}, {API: 2, Seg: "random", ReadBuf: 1024}, {API: (i + c.Seed) % 3, Seg: "random", ReadBuf: sweep(i + c.Seed)},
			{API: 0, Seg: "whole", ReadBuf: 125, EOFData: true}, {API: 1, Seg: "random", ReadBuf: 125, EOFData: true}}
	}
	if cs.Role == "server" {
		// the same through the real Upgrader: hijacked reader smaller than / at / above the size the library reuses, and the default
		variants = append(variants, variant{API: (i + c.Seed) % 3, Seg: segs[(i/5+c.Seed)%3], Hijack: []int{16, 64, 255, 256, 300, 4096}[(i/7+c.Seed)%6]})
	}
	fixBuf := func(v variant) variant {
		if cs.Bufdim {
			v.ReadBuf = cs.Bufsize
		}
		return v
	}
	for j := range variants {
		variants[j] = fixBuf(variants[j])
	}
	if len(wire) > 40000 {
		// large payloads: byte-wise delivery of 64 KiB frames costs too much for every case
		for j := range variants {
			if variants[j].Seg == "one" {
				variants[j].Seg = "random"
			}
		}
	}
	for _, v := range variants {
		o, what, kind := run(wire, v, func(o observed) (string, string) { return compare(&cs, o, c.Seed, cs.Delivered, cs.Pongs, cs.End) })
		if what != "" {
			return fail(what, kind, v, "stream ended after the last frame", o)
		}
		if cs.Clean && wrote1002(o.Wrote) {
			return fail("every frame was acceptable and the stream ended at a frame boundary, but a Close 1002 (protocol error) was written", "outcome", v, "stream ended after the last frame", o)
		}
	}

	// (1b) the application has sent its own Close before reading: the same messages are delivered
	{
		// chosen from the case's own content, so that the case behaves the same when it is replayed alone
		h := len(wire) + len(cs.Steps) + c.Seed
		v := fixBuf(variant{API: h % 3, Seg: segs[h%3], ReadBuf: sweep(h), LocalClose: true})
		if len(wire) > 40000 && v.Seg == "one" {
			v.Seg = "whole"
		}
		o, what, kind := run(wire, v, func(o observed) (string, string) { return compareMsgs(&cs, o, c.Seed, cs.Delivered) })
		if what != "" {
			return fail(what, kind, v, "stream ended after the last frame", o)
		}
	}

	// (2) the stream ends inside the last frame: nothing of it is delivered or answered
	nd, np := 0, 0
	if len(cs.Steps) > 1 {
		prev := cs.Steps[len(cs.Steps)-2]
		nd, np = prev.Nd, prev.Np
	}
	if nd > len(cs.Delivered) || np > len(cs.Pongs) || len(last.Cut) == 0 {
		rp.Bug("case %d: inconsistent step counters", i)
	}
	for j, off := range cutOffsets(len(wire)-lastStart, lastHdr, thorough, c.Seed+i) {
		v := fixBuf(variant{API: (i + j + c.Seed) % 3, Seg: segs[(i/3+j+c.Seed)%3], ReadBuf: sweep(i + j), EOFData: (i+j)%3 == 0})
		if len(wire) > 40000 && v.Seg == "one" {
			v.Seg = "whole"
		}
		o, what, kind := run(wire[:lastStart+off], v, func(o observed) (string, string) {
			return compare(&cs, o, c.Seed, cs.Delivered[:nd], cs.Pongs[:np], last.Cut)
		})
		if what != "" {
			return fail(what, kind, v, fmt.Sprintf("stream cut %d bytes into the last frame (header %d, frame %d bytes)", off, lastHdr, len(wire)-lastStart), o)
		}
	}
	return rp.Result{OK: true, Nontriv: true, Info: runs}
}
