package main

// JWK clause of C16: marshal -> unmarshal gives the same key, EC coordinates have the fixed
// width of the curve (RFC 7518 6.2.1.2; leading-zero keys included), a JWK written by an
// independent writer is read to the same key, and Thumbprint is SHA-256 over the RFC 7638
// template whose member order comes from the specification.

import (
	"bytes"
	"crypto"
	"crypto/ecdsa"
	"crypto/rsa"
	"crypto/sha256"
	"encoding/base64"
	"encoding/json"
	"fmt"
	"math/big"
	"strings"

	"github.com/ossrs/go-oryx-lib/https/jose"
	"verifharness/rp"
)

func b64(b []byte) string { return base64.RawURLEncoding.EncodeToString(b) }

func fixed(x *big.Int, n int) []byte {
	b := x.Bytes()
	if len(b) > n {
		rp.Bug("coordinate wider than the curve")
	}
	return append(make([]byte, n-len(b)), b...)
}

// membersOf computes the JWK members of a key independently of the library.
func membersOf(cs *joseCase, key interface{}) map[string]string {
	m := map[string]string{"kty": cs.Kty}
	switch k := key.(type) {
	case *ecdsa.PrivateKey:
		m["crv"], m["x"], m["y"] = cs.Keykind, b64(fixed(k.X, cs.Coord)), b64(fixed(k.Y, cs.Coord))
		m["d"] = b64(fixed(k.D, cs.Coord)) // RFC 7518 6.2.2.1: ceil(log2(n)/8) octets
	case *ecdsa.PublicKey:
		m["crv"], m["x"], m["y"] = cs.Keykind, b64(fixed(k.X, cs.Coord)), b64(fixed(k.Y, cs.Coord))
	case *rsa.PrivateKey:
		m["n"], m["e"] = b64(k.N.Bytes()), b64(big.NewInt(int64(k.E)).Bytes())
		m["d"], m["p"], m["q"] = b64(k.D.Bytes()), b64(k.Primes[0].Bytes()), b64(k.Primes[1].Bytes())
	case *rsa.PublicKey:
		m["n"], m["e"] = b64(k.N.Bytes()), b64(big.NewInt(int64(k.E)).Bytes())
	case []byte:
		m["k"] = b64(k)
	default:
		rp.Bug("unknown key type %T", key)
	}
	return m
}

func equalKeys(a, b interface{}) error {
	switch x := a.(type) {
	case *ecdsa.PrivateKey:
		y, ok := b.(*ecdsa.PrivateKey)
		if !ok {
			return fmt.Errorf("type %T, want %T", b, a)
		}
		if x.Curve != y.Curve || x.X.Cmp(y.X) != 0 || x.Y.Cmp(y.Y) != 0 || x.D.Cmp(y.D) != 0 {
			return fmt.Errorf("EC private key differs (x %x vs %x, y %x vs %x)", y.X, x.X, y.Y, x.Y)
		}
	case *ecdsa.PublicKey:
		y, ok := b.(*ecdsa.PublicKey)
		if !ok {
			return fmt.Errorf("type %T, want %T", b, a)
		}
		if x.Curve != y.Curve || x.X.Cmp(y.X) != 0 || x.Y.Cmp(y.Y) != 0 {
			return fmt.Errorf("EC public key differs (x %x vs %x, y %x vs %x)", y.X, x.X, y.Y, x.Y)
		}
	case *rsa.PrivateKey:
		y, ok := b.(*rsa.PrivateKey)
		if !ok {
			return fmt.Errorf("type %T, want %T", b, a)
		}
		if x.E != y.E || x.N.Cmp(y.N) != 0 || x.D.Cmp(y.D) != 0 || len(y.Primes) != 2 ||
			x.Primes[0].Cmp(y.Primes[0]) != 0 || x.Primes[1].Cmp(y.Primes[1]) != 0 {
			return fmt.Errorf("RSA private key differs")
		}
	case *rsa.PublicKey:
		y, ok := b.(*rsa.PublicKey)
		if !ok {
			return fmt.Errorf("type %T, want %T", b, a)
		}
		if x.E != y.E || x.N.Cmp(y.N) != 0 {
			return fmt.Errorf("RSA public key differs")
		}
	case []byte:
		y, ok := b.([]byte)
		if !ok {
			return fmt.Errorf("type %T, want %T", b, a)
		}
		if !bytes.Equal(x, y) {
			return fmt.Errorf("symmetric key differs: %s", rp.FirstDiff(y, x))
		}
	default:
		rp.Bug("unknown key type %T", a)
	}
	return nil
}

func replayJwk(c *rp.Ctx, kr *keyring, cs *joseCase) (res rp.Result) {
	defer func() {
		if e := recover(); e != nil {
			if _, bug := e.(rp.HarnessBug); bug {
				panic(e)
			}
			res = rp.Result{OK: false, What: fmt.Sprintf("JWK %s/%s: the library panicked: %v", cs.Keykind, cs.Variant, e)}
		}
	}()
	priv := kr.private(cs.Keykind, cs.Variant)
	var key interface{} = priv
	if !cs.Private {
		key = public(priv)
	}
	who := fmt.Sprintf("JWK %s key %s private=%v", cs.Keykind, cs.Variant, cs.Private)
	want := membersOf(cs, key)
	if cs.Kty == "EC" {
		// the case really is the one the specification names
		x, _ := base64.RawURLEncoding.DecodeString(want["x"])
		y, _ := base64.RawURLEncoding.DecodeString(want["y"])
		if (cs.Variant == "lzx") != (x[0] == 0) || (cs.Variant == "lzy") != (y[0] == 0) {
			rp.Bug("%s: key does not have the leading zero bytes of its variant", who)
		}
	}

	// (1) marshal: members as RFC 7517/7518 say, coordinates of the curve's width
	jwk := jose.JsonWebKey{Key: key, KeyID: "kid-" + cs.Variant, Use: "sig"}
	text, err := jwk.MarshalJSON()
	if err != nil {
		return rp.Fail(0, "%s: MarshalJSON failed: %v", who, err)
	}
	var got map[string]interface{}
	if err := json.Unmarshal(text, &got); err != nil {
		return rp.Fail(0, "%s: MarshalJSON output is not a JSON object: %v", who, err)
	}
	for _, name := range cs.Privmembers {
		// private members are compared by value: the property names only the coordinates' width
		g, _ := got[name].(string)
		gb, err1 := base64.RawURLEncoding.DecodeString(g)
		wb, _ := base64.RawURLEncoding.DecodeString(want[name])
		if err1 != nil || g == "" || new(big.Int).SetBytes(gb).Cmp(new(big.Int).SetBytes(wb)) != 0 {
			return rp.Fail(0, "%s: private member %q is %q, want the value of %q", who, name, g, want[name])
		}
	}
	for _, name := range cs.Template {
		g, _ := got[name].(string)
		if g != want[name] {
			extra := ""
			if name == "x" || name == "y" {
				gb, _ := base64.RawURLEncoding.DecodeString(g)
				extra = fmt.Sprintf(" (%d octets, the curve's coordinates have %d)", len(gb), cs.Coord)
				if len(gb) != cs.Coord {
					return rp.Result{OK: false, What: fmt.Sprintf("%s: member %q is %q, want %q%s", who, name, g, want[name], extra), Deviation: "C16/jwk-coordinate-not-fixed-width"}
				}
			}
			return rp.Fail(0, "%s: member %q is %q, want %q%s", who, name, g, want[name], extra)
		}
	}
	if !cs.Private {
		for _, name := range []string{"d", "p", "q", "dp", "dq", "qi", "k"} {
			if _, ok := got[name]; ok {
				return rp.Fail(0, "%s: public key marshalled with private member %q", who, name)
			}
		}
	}
	if got["kid"] != "kid-"+cs.Variant || got["use"] != "sig" {
		return rp.Fail(0, "%s: kid/use not marshalled: %v %v", who, got["kid"], got["use"])
	}

	// (2) unmarshal(marshal(k)) = k
	var back jose.JsonWebKey
	if err := json.Unmarshal(text, &back); err != nil {
		return rp.Fail(0, "%s: UnmarshalJSON of the library's own output failed: %v", who, err)
	}
	if err := equalKeys(key, back.Key); err != nil {
		return rp.Fail(0, "%s: unmarshal(marshal(key)) is not the key: %v", who, err)
	}
	if back.KeyID != jwk.KeyID || back.Use != jwk.Use {
		return rp.Fail(0, "%s: kid/use lost in the round trip", who)
	}

	// (3) a JWK from an independent writer (fixed-width coordinates, leading zero octets kept)
	var sb strings.Builder
	sb.WriteString("{")
	first := true
	for _, name := range append(append([]string{}, cs.Template...), cs.Privmembers...) {
		if !first {
			sb.WriteString(",")
		}
		first = false
		fmt.Fprintf(&sb, "%q:%q", name, want[name])
	}
	sb.WriteString("}")
	var indep jose.JsonWebKey
	if err := json.Unmarshal([]byte(sb.String()), &indep); err != nil {
		return rp.Fail(0, "%s: UnmarshalJSON of %s failed: %v", who, sb.String(), err)
	}
	if err := equalKeys(key, indep.Key); err != nil {
		return rp.Fail(0, "%s: reading %s gives another key: %v", who, sb.String(), err)
	}

	// (4) RFC 7638 thumbprint: SHA-256 over the required members in the template's order, no whitespace
	var tb strings.Builder
	tb.WriteString("{")
	for i, name := range cs.Template {
		if i > 0 {
			tb.WriteString(",")
		}
		fmt.Fprintf(&tb, "%q:%q", name, want[name])
	}
	tb.WriteString("}")
	sum := sha256.Sum256([]byte(tb.String()))
	tp, err := jwk.Thumbprint(crypto.SHA256)
	switch {
	case err != nil && cs.Kty == "oct":
		// an explicit refusal for symmetric keys is not judged (RFC 7638 section 7 warns about them)
	case err != nil:
		return rp.Fail(0, "%s: Thumbprint failed: %v", who, err)
	case !bytes.Equal(tp, sum[:]):
		return rp.Result{OK: false, What: fmt.Sprintf("%s: Thumbprint is %x, RFC 7638 says SHA-256(%s) = %x", who, tp, tb.String(), sum), Deviation: "C16/thumbprint-not-rfc7638"}
	}
	// the ACME key authorization is token '.' base64url(thumbprint) of the account's public key
	return rp.Result{OK: true, Nontriv: true, Info: info{Runs: 4, Opens: 0}}
}
