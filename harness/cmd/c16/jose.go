package main

// C16: JOSE objects verify/decrypt only if untampered (spec/jose/Jose.tla).
//
// A case is one object the application asks for (algorithms, key kind, payload size, aad,
// serialization) with every continuation of the specification's state machine and its
// expected outcome.  The replayer binds the abstract key atoms to real keys, signs/encrypts
// with the library, serializes with the library, flips bits in the serialized form of one
// field (base64url-decode, flip, re-encode: the decoded octets really change), parses and
// verifies/decrypts with the library and compares accept/reject (and payload/aad on accept)
// with the specification.  Signature/ciphertext bytes are never compared (ECDSA, PSS, OAEP,
// IVs and ephemeral keys are randomised).

import (
	"bytes"
	"crypto"
	"crypto/ecdsa"
	"crypto/hmac"
	"crypto/rsa"
	_ "crypto/sha256"
	_ "crypto/sha512"
	"encoding/base64"
	"encoding/json"
	"fmt"
	"math/big"
	"math/rand"
	"os"
	"runtime"
	"runtime/debug"
	"sort"
	"strings"
	"sync"

	"github.com/ossrs/go-oryx-lib/https/jose"
	"verifharness/ld"
	"verifharness/rp"
)

type runSpec struct {
	Tamper string `json:"tamper"`
	Cls    string `json:"cls"`
	Key    string `json:"key"`
	Expect string `json:"expect"`
	// a wrong key RELATED to the right symmetric key K: <<octets of K kept, zero octets appended, seeded octets appended>>
	Kform [3]int `json:"kform"`
}

type joseCase struct {
	Kind    string   `json:"kind"`
	Alg     string   `json:"alg"`
	Enc     string   `json:"enc"`
	Zip     string   `json:"zip"`
	Keykind string   `json:"keykind"`
	Size    int      `json:"size"`
	Aad     int      `json:"aad"`
	Profile string   `json:"profile"`
	Form    string   `json:"form"`
	Fields  []string `json:"fields"`
	Empty   []string `json:"empty"`
	Eklen   int      `json:"eklen"`
	Ivlen   int      `json:"ivlen"`
	Siglen  int      `json:"siglen"`
	// how many signatures to draw at most while looking for one whose R or S has a leading zero octet
	Sigsearch int       `json:"sigsearch"`
	Bits      string    `json:"bits"`
	Runs      []runSpec `json:"runs"`
	// value classes: the last Tailrun octets of the payload have the value Tailval; Padvalue: the PKCS #7 octet the
	// content cipher appends to a plaintext of this size (0: no padding involved); Keyvar "tz": the second half of
	// the symmetric key is zero octets
	Pcls     string `json:"pcls"`
	Tailval  int    `json:"tailval"`
	Tailrun  int    `json:"tailrun"`
	Padvalue int    `json:"padvalue"`
	Keyvar   string `json:"keyvar"`
	// JWK cases
	Variant     string   `json:"variant"`
	Private     bool     `json:"private"`
	Kty         string   `json:"kty"`
	Coord       int      `json:"coord"`
	Octets      int      `json:"octets"`
	Template    []string `json:"template"`
	Privmembers []string `json:"privmembers"`
}

var registry = map[string]rp.Replayer{}
var batchRegistry = map[string]rp.Batch{}

func main() { rp.Main(registry, batchRegistry) }

func init() {
	batchRegistry["jose"] = func(c *rp.Ctx, cases []json.RawMessage) []rp.Result {
		kr := newKeyring(c.Seed)
		res := make([]rp.Result, len(cases))
		workers := runtime.NumCPU()
		if workers > 16 {
			workers = 16
		}
		if len(cases) < workers {
			workers = 1
		}
		var wg sync.WaitGroup
		next := make(chan int, len(cases))
		for i := range cases {
			next <- i
		}
		close(next)
		for w := 0; w < workers; w++ {
			wg.Add(1)
			go func() {
				defer wg.Done()
				for i := range next {
					res[i] = one(c, kr, i, cases[i])
					res[i].I = i
				}
			}()
		}
		wg.Wait()
		return res
	}
}

// one replays one case; a bug of the replayer itself takes the binary down (vcheck: exit 2).
func one(c *rp.Ctx, kr *keyring, i int, raw json.RawMessage) (r rp.Result) {
	defer func() {
		if e := recover(); e != nil {
			fmt.Fprintf(os.Stderr, "replay: harness bug on case %d: %v\n%s\n", i, e, debug.Stack())
			os.Exit(3)
		}
	}()
	var cs joseCase
	if err := json.Unmarshal(raw, &cs); err != nil {
		rp.Bug("case %d: %v", i, err)
	}
	// the random choices of a case depend on its content, not on its position (isolated re-runs agree)
	// (of its abstract content: vcheck re-marshals a case when it re-runs it alone)
	h := 0
	for _, b := range []byte(fmt.Sprintf("%s|%s|%s|%s|%s|%d|%d|%s|%s|%s|%v|%s|%s", cs.Kind, cs.Alg, cs.Enc, cs.Zip, cs.Keykind,
		cs.Size, cs.Aad, cs.Profile, cs.Form, cs.Variant, cs.Private, cs.Pcls, cs.Keyvar)) {
		h = (h*131 + int(b)) % 1000003
	}
	rng := rand.New(rand.NewSource(int64(c.Seed)*1000003 + int64(h)))
	switch cs.Kind {
	case "jws", "jwe":
		return replayObject(c, kr, &cs, h, rng)
	case "jwk":
		return replayJwk(c, kr, &cs)
	}
	rp.Bug("case %d: unknown kind %q", i, cs.Kind)
	return
}

// ------------------------------------------------------------------ serialized form

var jwsSeg = map[string]int{"protected": 0, "payload": 1, "signature": 2}
var jweSeg = map[string]int{"protected": 0, "encrypted_key": 1, "iv": 2, "ciphertext": 3, "tag": 4}

// serial is the harness's own reading of a serialized object: a field is the octets of a
// compact segment or of a top-level JSON member.
type serial struct {
	kind, form string
	segs       []string
	members    map[string]json.RawMessage
}

func (s *serial) segIndex(field string) (int, bool) {
	m := jwsSeg
	if s.kind == "jwe" {
		m = jweSeg
	}
	i, ok := m[field]
	return i, ok
}

func parseSerial(kind, form, text string) (*serial, error) {
	s := &serial{kind: kind, form: form}
	if form == "compact" {
		s.segs = strings.Split(text, ".")
		want := 3
		if kind == "jwe" {
			want = 5
		}
		if len(s.segs) != want {
			return nil, fmt.Errorf("compact %s has %d segments, want %d", kind, len(s.segs), want)
		}
		return s, nil
	}
	if err := json.Unmarshal([]byte(text), &s.members); err != nil {
		return nil, fmt.Errorf("JSON serialization is not a JSON object: %v", err)
	}
	return s, nil
}

// get returns the octets of a field and whether the serialization has it at all.
func (s *serial) get(field string) ([]byte, bool, error) {
	var enc string
	if s.form == "compact" {
		i, ok := s.segIndex(field)
		if !ok {
			return nil, false, nil
		}
		enc = s.segs[i]
	} else {
		rawm, ok := s.members[field]
		if !ok {
			return nil, false, nil
		}
		if err := json.Unmarshal(rawm, &enc); err != nil {
			return nil, true, fmt.Errorf("member %q is not a string: %v", field, err)
		}
	}
	b, err := base64.RawURLEncoding.Strict().DecodeString(enc)
	if err != nil {
		return nil, true, fmt.Errorf("field %q is not unpadded base64url: %v", field, err)
	}
	return b, true, nil
}

// with returns the serialization with the octets of one field replaced.
func (s *serial) with(field string, b []byte) string {
	enc := base64.RawURLEncoding.EncodeToString(b)
	if s.form == "compact" {
		i, ok := s.segIndex(field)
		if !ok {
			rp.Bug("compact %s has no field %q", s.kind, field)
		}
		segs := append([]string(nil), s.segs...)
		segs[i] = enc
		return strings.Join(segs, ".")
	}
	m := map[string]json.RawMessage{}
	for k, v := range s.members {
		m[k] = v
	}
	q, _ := json.Marshal(enc)
	m[field] = q
	out, err := json.Marshal(m)
	if err != nil {
		rp.Bug("re-marshal: %v", err)
	}
	return string(out)
}

// ------------------------------------------------------------------ driving the library

type fixedNonce string

func (n fixedNonce) Nonce() (string, error) { return string(n), nil }

type opened struct {
	payload, aad []byte
	hdrAlg       string
	hdrNonce     string
	hdrJwk       *jose.JsonWebKey
	err          error  // parse or verify/decrypt error
	stage        string // where err comes from
	panicked     string // non-empty: the library panicked
}

// open = ParseSigned+Verify or ParseEncrypted+Decrypt.
func open(kind, text string, key interface{}) (o opened) {
	defer func() {
		if e := recover(); e != nil {
			o.panicked = fmt.Sprintf("%v\n%s", e, debug.Stack())
		}
	}()
	if kind == "jws" {
		obj, err := jose.ParseSigned(text)
		if err != nil {
			o.err, o.stage = err, "parse"
			return
		}
		if len(obj.Signatures) == 1 {
			o.hdrAlg = obj.Signatures[0].Header.Algorithm
			o.hdrNonce = obj.Signatures[0].Header.Nonce
			o.hdrJwk = obj.Signatures[0].Header.JsonWebKey
		}
		p, err := obj.Verify(key)
		if err != nil {
			o.err, o.stage = err, "verify"
			return
		}
		o.payload = p
		return
	}
	obj, err := jose.ParseEncrypted(text)
	if err != nil {
		o.err, o.stage = err, "parse"
		return
	}
	o.hdrAlg = obj.Header.Algorithm
	p, err := obj.Decrypt(key)
	if err != nil {
		o.err, o.stage = err, "decrypt"
		return
	}
	o.payload = p
	o.aad = obj.GetAuthData()
	return
}

// produce = NewSigner+Sign or NewEncrypter+Encrypt, then CompactSerialize / FullSerialize.
func produce(cs *joseCase, k1 interface{}, payload, aad []byte, nonce string) (text string, err error, panicked string) {
	defer func() {
		if e := recover(); e != nil {
			panicked = fmt.Sprintf("%v\n%s", e, debug.Stack())
		}
	}()
	if cs.Kind == "jws" {
		signer, e := jose.NewSigner(jose.SignatureAlgorithm(cs.Alg), k1)
		if e != nil {
			return "", fmt.Errorf("NewSigner: %v", e), ""
		}
		if cs.Profile == "acme" {
			signer.SetNonceSource(fixedNonce(nonce))
		}
		obj, e := signer.Sign(payload)
		if e != nil {
			return "", fmt.Errorf("Sign: %v", e), ""
		}
		if cs.Form == "compact" {
			text, e = obj.CompactSerialize()
			if e != nil {
				return "", fmt.Errorf("CompactSerialize: %v", e), ""
			}
			return text, nil, ""
		}
		return obj.FullSerialize(), nil, ""
	}
	enc, e := jose.NewEncrypter(jose.KeyAlgorithm(cs.Alg), jose.ContentEncryption(cs.Enc), public(k1))
	if e != nil {
		return "", fmt.Errorf("NewEncrypter: %v", e), ""
	}
	if cs.Zip == "DEF" {
		enc.SetCompression(jose.DEFLATE)
	}
	var obj *jose.JsonWebEncryption
	if cs.Aad > 0 {
		obj, e = enc.EncryptWithAuthData(payload, aad)
	} else {
		obj, e = enc.Encrypt(payload)
	}
	if e != nil {
		return "", fmt.Errorf("Encrypt: %v", e), ""
	}
	if cs.Form == "compact" {
		text, e = obj.CompactSerialize()
		if e != nil {
			return "", fmt.Errorf("CompactSerialize: %v", e), ""
		}
		return text, nil, ""
	}
	return obj.FullSerialize(), nil, ""
}

func has(list []string, s string) bool {
	for _, x := range list {
		if x == s {
			return true
		}
	}
	return false
}

type flip struct {
	at   int  // byte offset in the decoded field
	mask byte // bits to flip (one bit)
	note string
}

// flipsFor chooses the bits of a run.
func flipsFor(cs *joseCase, r runSpec, field []byte, rng *rand.Rand) []flip {
	var out []flip
	n := len(field)
	switch r.Cls {
	case "bits":
		if cs.Bits == "all" {
			for i := 0; i < n; i++ {
				for b := 0; b < 8; b++ {
					out = append(out, flip{i, 1 << uint(b), ""})
				}
			}
			return out
		}
		// seeded: a bit of the first byte, a bit of the last byte, a bit anywhere
		seen := map[[2]int]bool{}
		for _, at := range []int{0, n - 1, rng.Intn(n)} {
			b := rng.Intn(8)
			if !seen[[2]int{at, b}] {
				seen[[2]int{at, b}] = true
				out = append(out, flip{at, 1 << uint(b), ""})
			}
		}
	case "case":
		// the case bit of the first letter of a top-level member name: Go's decoder matches names
		// case-insensitively, so the header parses to the same members while its octets differ
		for _, name := range []string{"alg", "enc", "zip", "epk", "jwk", "nonce", "iv", "tag"} {
			if at := bytes.Index(field, []byte(`"`+name+`":`)); at >= 0 {
				out = append(out, flip{at + 1, 0x20, "member name " + name})
			}
		}
		if len(out) == 0 {
			rp.Bug("protected header %q has no member name to change the case of", field)
		}
	case "alg":
		// 'R' (0x52) <-> 'P' (0x50): RSxxx <-> PSxxx
		at := bytes.Index(field, []byte(`"alg":"`+cs.Alg[:2]))
		if at < 0 {
			rp.Bug("protected header %q has no alg %s", field, cs.Alg)
		}
		out = append(out, flip{at + 7, 0x02, "alg value to its sibling"})
	default:
		rp.Bug("unknown tamper class %q", r.Cls)
	}
	return out
}

func deviationOf(cs *joseCase, r runSpec, acceptedTamper bool) string {
	switch {
	case acceptedTamper && r.Tamper == "none" && r.Kform != [3]int{}:
		return "C16/key-resized"
	case acceptedTamper && r.Tamper == "aad":
		return "C16/aad-not-authenticated"
	case acceptedTamper && r.Tamper == "protected" && r.Cls == "case":
		return "C16/reserialised-header"
	case !acceptedTamper && r.Tamper == "none" && r.Key == "same" && cs.Kind == "jwe" && cs.Size == 0 && cs.Zip == "":
		return "C16/empty-plaintext-rejected"
	}
	return ""
}

// tailNote says what the payload ended in when it came back shorter.
func tailNote(cs *joseCase, got, want []byte) string {
	if cs.Tailrun == 0 || len(got) >= len(want) {
		return ""
	}
	return fmt.Sprintf(" (%d of %d octets; payload class %s: the last %d octets are %#02x, PKCS #7 pads this length with %#02x)",
		len(got), len(want), cs.Pcls, cs.Tailrun, cs.Tailval, cs.Padvalue)
}

func describe(cs *joseCase) string {
	if cs.Kind == "jws" {
		return fmt.Sprintf("JWS %s key %s %s payload %d bytes profile %s", cs.Alg, cs.Keykind, cs.Form, cs.Size, cs.Profile)
	}
	z := "none"
	if cs.Zip != "" {
		z = cs.Zip
	}
	return fmt.Sprintf("JWE %s/%s zip %s key %s %s payload %d bytes aad %d bytes", cs.Alg, cs.Enc, z, cs.Keykind, cs.Form, cs.Size, cs.Aad)
}

func sameKey(a *jose.JsonWebKey, pub interface{}) bool {
	if a == nil {
		return false
	}
	switch p := pub.(type) {
	case *rsa.PublicKey:
		q, ok := a.Key.(*rsa.PublicKey)
		return ok && q.E == p.E && q.N.Cmp(p.N) == 0
	case *ecdsa.PublicKey:
		q, ok := a.Key.(*ecdsa.PublicKey)
		return ok && q.Curve == p.Curve && q.X.Cmp(p.X) == 0 && q.Y.Cmp(p.Y) == 0
	}
	return false
}

type info struct {
	Runs  int `json:"runs"`
	Opens int `json:"opens"`
	Signs int `json:"signs,omitempty"`
	Lossy int `json:"lossy,omitempty"` // hist.go: re-serialized copies of a freshly parsed object that do not open
}

func replayObject(c *rp.Ctx, kr *keyring, cs *joseCase, salt int, rng *rand.Rand) rp.Result {
	k1, k2, names := kr.pair(cs.Keykind, salt)
	if cs.Keyvar == "tz" {
		// the object's key ends in zero octets (its second half): a prefix of it is the key without trailing zeros
		sym, ok := k1.([]byte)
		if !ok {
			rp.Bug("key variant tz on a %s key", cs.Keykind)
		}
		tz := append([]byte(nil), sym...)
		for i := len(tz) / 2; i < len(tz); i++ {
			tz[i] = 0
		}
		k1, names[0] = tz, names[0]+"-tz"
	}
	payload := ld.FillBytes(cs.Size, 16, c.Seed+salt) // size 0: an empty, non-nil slice
	if cs.Tailrun > 0 {
		// payload content class of the specification: the last Tailrun octets have the value Tailval
		if cs.Tailrun > cs.Size || cs.Tailval < 0 || cs.Tailval > 255 {
			rp.Bug("tail %d x %#02x on a %d byte payload", cs.Tailrun, cs.Tailval, cs.Size)
		}
		for i := cs.Size - cs.Tailrun; i < cs.Size; i++ {
			payload[i] = byte(cs.Tailval)
		}
	}
	if cs.Size == 4096 {
		// the size class 4096 stands for a highly redundant payload (deflates by far more than 10:1):
		// what matters for the compressed variants is the ratio, not the length
		payload = bytes.Repeat([]byte{0}, 4096)
	}
	var aad []byte
	if cs.Aad > 0 {
		aad = ld.FillBytes(cs.Aad, 61, c.Seed+salt)
	}
	nonce := fmt.Sprintf("nonce-%d-%d", c.Seed, salt)
	what := describe(cs) + fmt.Sprintf(" (keys %s/%s)", names[0], names[1])
	inf := info{}

	var fails []string
	// a named deviation is claimed only if EVERY failure of the case is that deviation
	dev, nfail := "", 0
	headline := ""
	devHint := "" // set by a comparison that recognises a named deviation in what it observes
	fail := func(r runSpec, accepted bool, format string, a ...interface{}) {
		d := deviationOf(cs, r, accepted)
		if devHint != "" {
			d, devHint = devHint, ""
		}
		if nfail == 0 {
			dev = d
			// the first 60 characters of What are vcheck's failure class (one isolated re-run per class, not per case)
			switch {
			case r.Tamper != "none" && accepted:
				headline = "tampered " + r.Tamper + " accepted"
			case r.Tamper != "none":
				headline = "failure on tampered " + r.Tamper
			case accepted:
				headline = "opens with another key"
			default:
				headline = "untampered object with the right key does not round-trip"
			}
		} else if d != dev {
			dev = ""
		}
		nfail++
		if len(fails) < 5 {
			fails = append(fails, fmt.Sprintf(format, a...))
		}
	}
	finish := func() rp.Result {
		if len(fails) == 0 {
			return rp.Result{OK: true, Info: inf, Nontriv: true}
		}
		return rp.Result{OK: false, What: fmt.Sprintf("%-60s| %s: %s", headline, what, strings.Join(fails, "; ")), Deviation: dev, Info: inf}
	}

	none := runSpec{Tamper: "none", Key: "same", Expect: "ok"}
	text, err, panicked := produce(cs, k1, payload, aad, nonce)
	// ECDSA signatures are randomised and R||S needs its zero padding for about one signature in
	// 128: sign until R or S has a leading zero octet (every signature met on the way must have
	// the fixed width), and run the case on that signature.
	for try := 1; cs.Siglen > 0 && err == nil && panicked == "" && try <= cs.Sigsearch; try++ {
		s0, e := parseSerial(cs.Kind, cs.Form, text)
		if e != nil {
			break
		}
		sig, _, e := s0.get("signature")
		if e != nil {
			break
		}
		inf.Signs = try
		if len(sig) != cs.Siglen {
			fail(none, false, "ECDSA signature number %d is %d bytes, R||S of this curve is %d (RFC 7518 3.4)", try, len(sig), cs.Siglen)
			return finish()
		}
		if sig[0] == 0 || sig[cs.Siglen/2] == 0 {
			break
		}
		if try < cs.Sigsearch {
			text, err, panicked = produce(cs, k1, payload, aad, nonce)
		}
	}
	if panicked != "" {
		fail(none, false, "the library panicked while signing/encrypting: %s", panicked)
		return finish()
	}
	if err != nil {
		fail(none, false, "producing the object failed: %v", err)
		return finish()
	}
	ser, err := parseSerial(cs.Kind, cs.Form, text)
	if err != nil {
		fail(none, false, "%v", err)
		return finish()
	}

	// the serialization carries exactly the fields the specification says (HasField / NonEmpty)
	all := jwsSeg
	if cs.Kind == "jwe" {
		all = map[string]int{"aad": 5}
		for k, v := range jweSeg {
			all[k] = v
		}
	}
	names2 := make([]string, 0, len(all))
	for f := range all {
		names2 = append(names2, f)
	}
	sort.Strings(names2)
	for _, f := range names2 {
		b, _, err := ser.get(f)
		if err != nil {
			fail(none, false, "%v", err)
			return finish()
		}
		carried := has(cs.Fields, f) && !has(cs.Empty, f)
		if carried && len(b) == 0 {
			fail(none, false, "the %s serialization has no %s although the object has one", cs.Form, f)
		}
		if !carried && len(b) != 0 {
			fail(none, false, "the %s serialization has a %d byte %s although the specification says it carries none", cs.Form, len(b), f)
		}
	}
	if cs.Siglen > 0 {
		if b, _, _ := ser.get("signature"); len(b) != cs.Siglen {
			fail(none, false, "ECDSA signature is %d bytes, R||S of this curve is %d (RFC 7518 3.4)", len(b), cs.Siglen)
		}
	}
	if len(fails) > 0 {
		return finish()
	}

	verifyKey := func(r runSpec) interface{} {
		k := k1
		if r.Key == "other" {
			k = k2
		} else if r.Key != "same" {
			// a wrong key related to the right one, built as the specification says (RelForm)
			sym, ok := k1.([]byte)
			keep, zeros, more := r.Kform[0], r.Kform[1], r.Kform[2]
			if !ok || keep < 0 || keep > len(sym) || zeros < 0 || more < 0 || (keep == len(sym) && zeros+more == 0) {
				rp.Bug("run %+v on a %s key", r, cs.Keykind)
			}
			rel := append([]byte(nil), sym[:keep]...)
			rel = append(rel, make([]byte, zeros)...)
			if more > 0 {
				ext := ld.FillBytes(more, 83, c.Seed+salt)
				if ext[more-1] == 0 {
					ext[more-1] = 0xa5
				}
				rel = append(rel, ext...)
			}
			k = rel
		}
		if cs.Kind == "jws" {
			return public(k)
		}
		return k
	}

	for _, r := range cs.Runs {
		inf.Runs++
		key := verifyKey(r)
		if r.Expect != "ok" && r.Expect != "error" {
			rp.Bug("run %+v: the specification does not decide the outcome", r)
		}
		if r.Tamper == "none" {
			o := open(cs.Kind, text, key)
			inf.Opens++
			switch {
			case o.panicked != "":
				fail(r, false, "the library panicked opening the untampered object with the %s key: %s", r.Key, o.panicked)
			case r.Expect == "ok" && o.err != nil:
				fail(r, false, "untampered object with the right key is rejected (%s: %v)", o.stage, o.err)
			case r.Expect == "ok":
				if !bytes.Equal(o.payload, payload) {
					if cs.Padvalue > 0 && len(o.payload) < len(payload) && bytes.HasPrefix(payload, o.payload) && payload[len(payload)-1] == byte(cs.Padvalue) {
						devHint = "C16/unpad-greedy" // the tail of the payload went with the padding
					}
					fail(r, false, "untampered object opens to a different payload%s: %s", tailNote(cs, o.payload, payload), rp.FirstDiff(o.payload, payload))
				}
				if cs.Kind == "jwe" && !bytes.Equal(o.aad, aad) {
					fail(r, false, "untampered object reports different authenticated data: %s", rp.FirstDiff(o.aad, aad))
				}
				if o.hdrAlg != cs.Alg {
					fail(r, false, "parsed header says alg %q, object was made with %q", o.hdrAlg, cs.Alg)
				}
				if cs.Profile == "acme" && o.hdrNonce != nonce {
					fail(r, false, "parsed protected header has nonce %q, signed with %q", o.hdrNonce, nonce)
				}
				if _, sym := k1.([]byte); cs.Kind == "jws" && !sym {
					// the signer embeds its public key as a JWK in the protected header (ACME relies on it)
					if !sameKey(o.hdrJwk, public(k1)) {
						fail(r, false, "the jwk in the parsed protected header is not the signer's public key (key %s)", names[0])
					} else if o2 := open(cs.Kind, text, o.hdrJwk); o2.err != nil || o2.panicked != "" || !bytes.Equal(o2.payload, payload) {
						fail(r, false, "verification with the jwk taken from the protected header fails: %v %s", o2.err, o2.panicked)
					}
				}
				if cs.Kind == "jws" {
					if err := independentVerify(cs.Alg, public(k1), ser); err != nil {
						fail(r, false, "the signature does not verify as %s of RFC 7518 with an independent verifier: %v", cs.Alg, err)
					}
				}
				// the harness's own re-serialization must be as good as the library's, or the tamper runs mean nothing
				pb, _, _ := ser.get("protected")
				if len(fails) > 0 {
					break
				}
				if o3 := open(cs.Kind, ser.with("protected", pb), key); o3.err != nil || o3.panicked != "" || !bytes.Equal(o3.payload, payload) {
					rp.Bug("%s: identity re-serialization does not open: %v %s", what, o3.err, o3.panicked)
				}
			case r.Expect == "error" && o.err == nil && r.Key != "other":
				fail(r, true, "untampered object opens with ANOTHER key: the first %d octets of the %d octet key %s, then %d zero octets, then %d more octets (%s)",
					r.Kform[0], len(k1.([]byte)), names[0], r.Kform[1], r.Kform[2], r.Key)
			case r.Expect == "error" && o.err == nil:
				fail(r, true, "untampered object opens with ANOTHER key of the same kind (%s instead of %s)", names[1], names[0])
			}
			continue
		}
		if r.Key != "same" {
			rp.Bug("run %+v: tamper runs use the right key", r)
		}
		field, present, err := ser.get(r.Tamper)
		if err != nil || !present || len(field) == 0 {
			rp.Bug("%s: field %s to tamper with is missing (%v)", what, r.Tamper, err)
		}
		for _, fl := range flipsFor(cs, r, field, rng) {
			mod := append([]byte(nil), field...)
			mod[fl.at] ^= fl.mask
			o := open(cs.Kind, ser.with(r.Tamper, mod), key)
			inf.Opens++
			where := fmt.Sprintf("bit mask %#02x of byte %d/%d of %s flipped (%#02x -> %#02x)", fl.mask, fl.at, len(field), r.Tamper, field[fl.at], mod[fl.at])
			if fl.note != "" {
				where += " [" + fl.note + "]"
			}
			switch {
			case o.panicked != "":
				fail(r, false, "the library panicked with %s: %s", where, o.panicked)
			case r.Expect == "error" && o.err == nil:
				same := "the original payload"
				if !bytes.Equal(o.payload, payload) {
					same = "a different payload"
				}
				fail(r, true, "accepted with %s, returning %s", where, same)
			case r.Expect == "ok" && o.err != nil:
				fail(r, false, "rejected with %s although the specification accepts: %v", where, o.err)
			}
		}
	}
	return finish()
}

// independentVerify checks a JWS signature with the standard library only: the signing input is
// ASCII(b64(protected) '.' b64(payload)) and the algorithm is what RFC 7518 section 3 says "alg" names.
func independentVerify(alg string, pub interface{}, ser *serial) error {
	p, _, err1 := ser.get("protected")
	pl, _, err2 := ser.get("payload")
	sig, _, err3 := ser.get("signature")
	if err1 != nil || err2 != nil || err3 != nil {
		return fmt.Errorf("fields: %v %v %v", err1, err2, err3)
	}
	input := []byte(base64.RawURLEncoding.EncodeToString(p) + "." + base64.RawURLEncoding.EncodeToString(pl))
	var h crypto.Hash
	switch alg[2:] {
	case "256":
		h = crypto.SHA256
	case "384":
		h = crypto.SHA384
	case "512":
		h = crypto.SHA512
	default:
		rp.Bug("alg %q", alg)
	}
	hh := h.New()
	hh.Write(input)
	digest := hh.Sum(nil)
	switch alg[:2] {
	case "HS":
		m := hmac.New(h.New, pub.([]byte))
		m.Write(input)
		if !hmac.Equal(m.Sum(nil), sig) {
			return fmt.Errorf("HMAC differs")
		}
	case "RS":
		return rsa.VerifyPKCS1v15(pub.(*rsa.PublicKey), h, digest, sig)
	case "PS":
		return rsa.VerifyPSS(pub.(*rsa.PublicKey), h, digest, sig, &rsa.PSSOptions{SaltLength: rsa.PSSSaltLengthAuto})
	case "ES":
		k := pub.(*ecdsa.PublicKey)
		n := (k.Curve.Params().BitSize + 7) / 8
		if len(sig) != 2*n {
			return fmt.Errorf("signature is %d octets, R||S is %d", len(sig), 2*n)
		}
		if !ecdsa.Verify(k, digest, new(big.Int).SetBytes(sig[:n]), new(big.Int).SetBytes(sig[n:])) {
			return fmt.Errorf("ECDSA verification failed")
		}
	default:
		rp.Bug("alg %q", alg)
	}
	return nil
}
