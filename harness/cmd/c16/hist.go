package main

// C16, histories and several parties (spec/jose/JoseHist.tla, Gen_JoseHist.tla).
//
// A case is one object (1..3 signers / recipients, each with its own algorithm and key) and a set of
// behaviours of the specification's state machine after Produce: [Tamper one field of one entry] ->
// Parse -> steps on the ONE parsed object: Open(key) = Verify/Decrypt on that object, or
// Reserialize = FullSerialize/CompactSerialize that object, parse the text and open the copy.
// Every step carries the verdict the specification computes ("ok", "error", or "either" where the
// property is silent: a tampered entry and the key of a party whose entry is intact).  The replayer
// makes the object once with the real library, and replays every behaviour on ONE parsed object.

import (
	"bytes"
	"encoding/base64"
	"encoding/json"
	"fmt"
	"math/rand"
	"os"
	"runtime"
	"runtime/debug"
	"strings"
	"sync"

	"github.com/ossrs/go-oryx-lib/https/jose"
	"verifharness/ld"
	"verifharness/rp"
)

type hparty struct {
	Alg     string `json:"alg"`
	Keykind string `json:"keykind"`
}

// hstep is <<op, key variant, party, expected verdict>>
type hstep struct {
	Op, V, Expect string
	P             int
}

func (s *hstep) UnmarshalJSON(b []byte) error {
	var a []interface{}
	if err := json.Unmarshal(b, &a); err != nil {
		return err
	}
	if len(a) != 4 {
		return fmt.Errorf("step %s: want 4 elements", b)
	}
	var ok1, ok2, ok3, ok4 bool
	var p float64
	s.Op, ok1 = a[0].(string)
	s.V, ok2 = a[1].(string)
	p, ok3 = a[2].(float64)
	s.Expect, ok4 = a[3].(string)
	s.P = int(p)
	if !(ok1 && ok2 && ok3 && ok4) {
		return fmt.Errorf("step %s: wrong types", b)
	}
	return nil
}

type hbeh struct {
	Fld   string  `json:"fld"`
	At    int     `json:"at"`
	Cls   string  `json:"cls"`
	Steps []hstep `json:"steps"`
}

type histCase struct {
	Kind       string   `json:"kind"`
	Obj        string   `json:"obj"`
	Parties    []hparty `json:"parties"`
	Enc        string   `json:"enc"`
	Zip        string   `json:"zip"`
	Size       int      `json:"size"`
	Aad        int      `json:"aad"`
	Embed      bool     `json:"embed"`
	Form       string   `json:"form"`
	Flips      int      `json:"flips"`
	Entries    []string `json:"entries"` // the fields every entry carries ...
	Nokey      []int    `json:"nokey"`   // ... except encrypted_key for these recipients (direct modes)
	Behaviours []hbeh   `json:"behaviours"`
}

// pooled runs fn over the cases on a pool of workers.
func pooled(cases []json.RawMessage, fn func(i int, raw json.RawMessage) rp.Result) []rp.Result {
	res := make([]rp.Result, len(cases))
	workers := runtime.NumCPU()
	if workers > 16 {
		workers = 16
	}
	if len(cases) < workers {
		workers = 1
	}
	var wg sync.WaitGroup
	next := make(chan int, len(cases))
	for i := range cases {
		next <- i
	}
	close(next)
	for w := 0; w < workers; w++ {
		wg.Add(1)
		go func() {
			defer wg.Done()
			for i := range next {
				res[i] = fn(i, cases[i])
				res[i].I = i
			}
		}()
	}
	wg.Wait()
	return res
}

func init() {
	batchRegistry["hist"] = func(c *rp.Ctx, cases []json.RawMessage) []rp.Result {
		kr := newKeyring(c.Seed)
		return pooled(cases, func(i int, raw json.RawMessage) rp.Result { return oneHist(c, kr, i, raw) })
	}
}

func oneHist(c *rp.Ctx, kr *keyring, i int, raw json.RawMessage) (r rp.Result) {
	defer func() {
		if e := recover(); e != nil {
			fmt.Fprintf(os.Stderr, "replay: harness bug on case %d: %v\n%s\n", i, e, debug.Stack())
			os.Exit(3)
		}
	}()
	var cs histCase
	if err := json.Unmarshal(raw, &cs); err != nil {
		rp.Bug("case %d: %v", i, err)
	}
	if cs.Kind != "hist" || (cs.Obj != "jws" && cs.Obj != "jwe") || len(cs.Parties) == 0 {
		rp.Bug("case %d: not a history case: %s", i, raw)
	}
	// random choices depend on the abstract content of the case, not on its position (isolated re-runs agree)
	h := 0
	for _, b := range []byte(fmt.Sprintf("%s|%v|%s|%s|%d|%d|%v|%s", cs.Obj, cs.Parties, cs.Enc, cs.Zip, cs.Size, cs.Aad, cs.Embed, cs.Form)) {
		h = (h*131 + int(b)) % 1000003
	}
	rng := rand.New(rand.NewSource(int64(c.Seed)*1000003 + int64(h)))
	return replayHist(c, kr, &cs, h, rng)
}

// ------------------------------------------------------------------ keys of the parties

type hkeys struct {
	right []interface{} // private / symmetric key of party i
	other []interface{} // another key of the kind of party i: nobody's
	alien interface{}   // a key of a kind no party uses
	names []string
}

func bindKeys(kr *keyring, cs *histCase, salt int) *hkeys {
	hk := &hkeys{}
	used := map[string]int{}
	for _, p := range cs.Parties {
		keys, names := kr.pool(p.Keykind, salt)
		n := used[p.Keykind]
		if n >= 3 {
			rp.Bug("more than three parties of kind %s", p.Keykind)
		}
		used[p.Keykind] = n + 1
		hk.right = append(hk.right, keys[n])
		hk.other = append(hk.other, keys[3])
		hk.names = append(hk.names, p.Keykind+"/"+names[n])
	}
	for _, kind := range []string{"RSA2048", "P-256", "oct32", "P-384", "oct64", "oct16", "P-521"} {
		if used[kind] == 0 {
			keys, _ := kr.pool(kind, salt)
			hk.alien = keys[3]
			hk.names = append(hk.names, "alien "+kind)
			break
		}
	}
	if hk.alien == nil {
		rp.Bug("no foreign key kind left")
	}
	return hk
}

// key returns the key a step presents: what a verifier / a recipient holds.
func (hk *hkeys) key(cs *histCase, s hstep) interface{} {
	var k interface{}
	switch s.V {
	case "right":
		k = hk.right[s.P-1]
	case "other":
		k = hk.other[s.P-1]
	case "alien":
		k = hk.alien
	default:
		rp.Bug("key variant %q", s.V)
	}
	if cs.Obj == "jws" {
		return public(k)
	}
	return k
}

// ------------------------------------------------------------------ serialized form with entries

type hserial struct {
	obj, form string
	segs      []string
	top       map[string]json.RawMessage
	arr       string                       // "signatures" / "recipients"
	entries   []map[string]json.RawMessage // nil: flattened
}

func parseHserial(obj, form, text string) (*hserial, error) {
	s := &hserial{obj: obj, form: form, arr: "signatures"}
	if obj == "jwe" {
		s.arr = "recipients"
	}
	if form == "compact" {
		s.segs = strings.Split(text, ".")
		want := 3
		if obj == "jwe" {
			want = 5
		}
		if len(s.segs) != want {
			return nil, fmt.Errorf("compact %s has %d segments, want %d", obj, len(s.segs), want)
		}
		return s, nil
	}
	if err := json.Unmarshal([]byte(text), &s.top); err != nil {
		return nil, fmt.Errorf("JSON serialization is not a JSON object: %v", err)
	}
	if rawArr, ok := s.top[s.arr]; ok {
		if err := json.Unmarshal(rawArr, &s.entries); err != nil {
			return nil, fmt.Errorf("member %q is not an array of objects: %v", s.arr, err)
		}
	}
	return s, nil
}

// where finds the place of a field: in an entry of the array, or at the top (shared fields; flattened form).
func (s *hserial) where(fld string, at int) map[string]json.RawMessage {
	if at > 0 && s.entries != nil {
		if at > len(s.entries) {
			return nil
		}
		return s.entries[at-1]
	}
	return s.top
}

func (s *hserial) get(fld string, at int) ([]byte, bool, error) {
	var enc string
	if s.form == "compact" {
		m := jwsSeg
		if s.obj == "jwe" {
			m = jweSeg
		}
		i, ok := m[fld]
		if !ok {
			return nil, false, nil
		}
		enc = s.segs[i]
	} else {
		m := s.where(fld, at)
		rawm, ok := m[fld]
		if !ok {
			return nil, false, nil
		}
		if err := json.Unmarshal(rawm, &enc); err != nil {
			return nil, true, fmt.Errorf("member %q is not a string: %v", fld, err)
		}
	}
	b, err := base64.RawURLEncoding.Strict().DecodeString(enc)
	if err != nil {
		return nil, true, fmt.Errorf("field %q is not unpadded base64url: %v", fld, err)
	}
	return b, true, nil
}

func (s *hserial) with(fld string, at int, b []byte) string {
	enc := base64.RawURLEncoding.EncodeToString(b)
	if s.form == "compact" {
		m := jwsSeg
		if s.obj == "jwe" {
			m = jweSeg
		}
		i, ok := m[fld]
		if !ok {
			rp.Bug("compact %s has no field %q", s.obj, fld)
		}
		segs := append([]string(nil), s.segs...)
		segs[i] = enc
		return strings.Join(segs, ".")
	}
	q, _ := json.Marshal(enc)
	top := map[string]json.RawMessage{}
	for k, v := range s.top {
		top[k] = v
	}
	if at > 0 && s.entries != nil {
		ents := make([]map[string]json.RawMessage, len(s.entries))
		for i, e := range s.entries {
			ents[i] = e
			if i == at-1 {
				ents[i] = map[string]json.RawMessage{}
				for k, v := range e {
					ents[i][k] = v
				}
				ents[i][fld] = q
			}
		}
		a, err := json.Marshal(ents)
		if err != nil {
			rp.Bug("re-marshal: %v", err)
		}
		top[s.arr] = a
	} else {
		top[fld] = q
	}
	out, err := json.Marshal(top)
	if err != nil {
		rp.Bug("re-marshal: %v", err)
	}
	return string(out)
}

// ------------------------------------------------------------------ driving the library

func produceHist(cs *histCase, hk *hkeys, payload, aad []byte) (text string, err error, panicked string) {
	defer func() {
		if e := recover(); e != nil {
			panicked = fmt.Sprintf("%v\n%s", e, debug.Stack())
		}
	}()
	n := len(cs.Parties)
	if cs.Obj == "jws" {
		var obj *jose.JsonWebSignature
		var e error
		if n == 1 {
			signer, e1 := jose.NewSigner(jose.SignatureAlgorithm(cs.Parties[0].Alg), hk.right[0])
			if e1 != nil {
				return "", fmt.Errorf("NewSigner: %v", e1), ""
			}
			signer.SetEmbedJwk(cs.Embed)
			obj, e = signer.Sign(payload)
		} else {
			signer := jose.NewMultiSigner()
			for i, p := range cs.Parties {
				if e1 := signer.AddRecipient(jose.SignatureAlgorithm(p.Alg), hk.right[i]); e1 != nil {
					return "", fmt.Errorf("AddRecipient %d (%s): %v", i+1, p.Alg, e1), ""
				}
			}
			signer.SetEmbedJwk(cs.Embed)
			obj, e = signer.Sign(payload)
		}
		if e != nil {
			return "", fmt.Errorf("Sign: %v", e), ""
		}
		if cs.Form == "compact" {
			text, e = obj.CompactSerialize()
			if e != nil {
				return "", fmt.Errorf("CompactSerialize: %v", e), ""
			}
			return text, nil, ""
		}
		return obj.FullSerialize(), nil, ""
	}
	var enc interface {
		EncryptWithAuthData(plaintext []byte, aad []byte) (*jose.JsonWebEncryption, error)
		Encrypt(plaintext []byte) (*jose.JsonWebEncryption, error)
		SetCompression(alg jose.CompressionAlgorithm)
	}
	if n == 1 {
		e1, e := jose.NewEncrypter(jose.KeyAlgorithm(cs.Parties[0].Alg), jose.ContentEncryption(cs.Enc), public(hk.right[0]))
		if e != nil {
			return "", fmt.Errorf("NewEncrypter: %v", e), ""
		}
		enc = e1
	} else {
		m, e := jose.NewMultiEncrypter(jose.ContentEncryption(cs.Enc))
		if e != nil {
			return "", fmt.Errorf("NewMultiEncrypter: %v", e), ""
		}
		for i, p := range cs.Parties {
			if e1 := m.AddRecipient(jose.KeyAlgorithm(p.Alg), public(hk.right[i])); e1 != nil {
				return "", fmt.Errorf("AddRecipient %d (%s): %v", i+1, p.Alg, e1), ""
			}
		}
		enc = m
	}
	if cs.Zip == "DEF" {
		enc.SetCompression(jose.DEFLATE)
	}
	var obj *jose.JsonWebEncryption
	var e error
	if cs.Aad > 0 {
		obj, e = enc.EncryptWithAuthData(payload, aad)
	} else {
		obj, e = enc.Encrypt(payload)
	}
	if e != nil {
		return "", fmt.Errorf("Encrypt: %v", e), ""
	}
	if cs.Form == "compact" {
		text, e = obj.CompactSerialize()
		if e != nil {
			return "", fmt.Errorf("CompactSerialize: %v", e), ""
		}
		return text, nil, ""
	}
	return obj.FullSerialize(), nil, ""
}

// held is the ONE parsed object the application keeps.
type held struct {
	jws *jose.JsonWebSignature
	jwe *jose.JsonWebEncryption
}

type hverdict struct {
	ok           bool
	payload, aad []byte
	err          error
	stage        string
	panicked     string
}

func (v hverdict) String() string {
	switch {
	case v.panicked != "":
		return "panic: " + v.panicked
	case v.ok:
		return "accepted"
	}
	return fmt.Sprintf("error (%s: %v)", v.stage, v.err)
}

func parseHeld(obj, text string) (hd *held, v hverdict) {
	defer func() {
		if e := recover(); e != nil {
			hd, v = nil, hverdict{panicked: fmt.Sprintf("%v\n%s", e, debug.Stack()), stage: "parse"}
		}
	}()
	if obj == "jws" {
		o, err := jose.ParseSigned(text)
		if err != nil {
			return nil, hverdict{err: err, stage: "parse"}
		}
		return &held{jws: o}, hverdict{ok: true}
	}
	o, err := jose.ParseEncrypted(text)
	if err != nil {
		return nil, hverdict{err: err, stage: "parse"}
	}
	return &held{jwe: o}, hverdict{ok: true}
}

// openHeld = Verify / Decrypt on the held object.
func (hd *held) open(key interface{}) (v hverdict) {
	defer func() {
		if e := recover(); e != nil {
			v = hverdict{panicked: fmt.Sprintf("%v\n%s", e, debug.Stack()), stage: "open"}
		}
	}()
	if hd.jws != nil {
		p, err := hd.jws.Verify(key)
		if err != nil {
			return hverdict{err: err, stage: "verify"}
		}
		return hverdict{ok: true, payload: p}
	}
	p, err := hd.jwe.Decrypt(key)
	if err != nil {
		return hverdict{err: err, stage: "decrypt"}
	}
	return hverdict{ok: true, payload: p, aad: hd.jwe.GetAuthData()}
}

// reserialize = CompactSerialize / FullSerialize of the held object.
func (hd *held) reserialize(form string) (text string, v hverdict) {
	defer func() {
		if e := recover(); e != nil {
			v = hverdict{panicked: fmt.Sprintf("%v\n%s", e, debug.Stack()), stage: "serialize"}
		}
	}()
	var err error
	switch {
	case hd.jws != nil && form == "compact":
		text, err = hd.jws.CompactSerialize()
	case hd.jws != nil:
		text = hd.jws.FullSerialize()
	case form == "compact":
		text, err = hd.jwe.CompactSerialize()
	default:
		text = hd.jwe.FullSerialize()
	}
	if err != nil {
		return "", hverdict{err: err, stage: "serialize"}
	}
	return text, hverdict{ok: true}
}

// step performs one step of a behaviour on the held object (nil: the text did not parse, pv says why).
func doStep(cs *histCase, hd *held, pv hverdict, s hstep, key interface{}) hverdict {
	if hd == nil {
		return pv
	}
	if s.Op == "open" {
		return hd.open(key)
	}
	text, v := hd.reserialize(cs.Form)
	if !v.ok {
		return v
	}
	hd2, v2 := parseHeld(cs.Obj, text)
	if hd2 == nil {
		v2.stage = "parse of the re-serialized object"
		return v2
	}
	return hd2.open(key)
}

func hflips(cs *histCase, b hbeh, field []byte, rng *rand.Rand) []flip {
	if b.Cls != "bits" {
		alg := ""
		if b.At > 0 {
			alg = cs.Parties[b.At-1].Alg
		}
		return flipsFor(&joseCase{Alg: alg, Bits: "seeded"}, runSpec{Cls: b.Cls}, field, rng)
	}
	var out []flip
	n := len(field)
	seen := map[[2]int]bool{}
	for k := 0; k < cs.Flips; k++ {
		at := rng.Intn(n) // the first one anywhere, then the first byte, the last byte, anywhere ...
		if k == 1 {
			at = 0
		} else if k == 2 {
			at = n - 1
		}
		bit := rng.Intn(8)
		if !seen[[2]int{at, bit}] {
			seen[[2]int{at, bit}] = true
			out = append(out, flip{at, 1 << uint(bit), ""})
		}
	}
	return out
}

func describeHist(cs *histCase) string {
	var ps []string
	for _, p := range cs.Parties {
		ps = append(ps, p.Alg)
	}
	if cs.Obj == "jws" {
		return fmt.Sprintf("JWS signers [%s] embedded jwk %v %s payload %d bytes", strings.Join(ps, ", "), cs.Embed, cs.Form, cs.Size)
	}
	z := "none"
	if cs.Zip != "" {
		z = cs.Zip
	}
	return fmt.Sprintf("JWE recipients [%s] %s zip %s %s payload %d bytes aad %d bytes", strings.Join(ps, ", "), cs.Enc, z, cs.Form, cs.Size, cs.Aad)
}

func stepName(s hstep) string {
	k := s.V
	if s.P > 0 {
		k = fmt.Sprintf("%s key of party %d", map[string]string{"right": "the", "other": "another"}[s.V], s.P)
	} else {
		k = "a key of a foreign kind"
	}
	if s.Op == "open" {
		return "open with " + k
	}
	return "serialize again, parse, open with " + k
}

func historyOf(steps []hstep, upto int) string {
	var out []string
	for i := 0; i <= upto; i++ {
		out = append(out, fmt.Sprintf("%d. %s", i+1, stepName(steps[i])))
	}
	return strings.Join(out, "; ")
}

func replayHist(c *rp.Ctx, kr *keyring, cs *histCase, salt int, rng *rand.Rand) rp.Result {
	hk := bindKeys(kr, cs, salt)
	payload := ld.FillBytes(cs.Size, 16, c.Seed+salt)
	var aad []byte
	if cs.Aad > 0 {
		aad = ld.FillBytes(cs.Aad, 61, c.Seed+salt)
	}
	what := describeHist(cs) + fmt.Sprintf(" (keys %s)", strings.Join(hk.names, ", "))
	inf := info{}
	np := len(cs.Parties)
	// control of the "asfresh" steps: the copy serialized from a freshly parsed object (no history), opened with
	// the key of party p (untampered text only)
	control := map[int]hverdict{}

	var fails []string
	dev, nfail, headline := "", 0, ""
	fail := func(d, head, format string, a ...interface{}) {
		if nfail == 0 {
			dev, headline = d, head
		} else if d != dev {
			dev = ""
		}
		nfail++
		if len(fails) < 5 {
			fails = append(fails, fmt.Sprintf(format, a...))
		}
	}
	finish := func() rp.Result {
		if len(fails) == 0 {
			return rp.Result{OK: true, Info: inf, Nontriv: true}
		}
		return rp.Result{OK: false, What: fmt.Sprintf("%-60s| %s: %s", headline, what, strings.Join(fails, "; ")), Deviation: dev, Info: inf}
	}
	const hRound = "untampered object, a party's key: does not round-trip"

	text, err, panicked := produceHist(cs, hk, payload, aad)
	if panicked != "" {
		fail("", hRound, "the library panicked while signing/encrypting: %s", panicked)
		return finish()
	}
	if err != nil {
		fail("", hRound, "producing the object failed: %v", err)
		return finish()
	}
	ser, err := parseHserial(cs.Obj, cs.Form, text)
	if err != nil {
		fail("", hRound, "%v", err)
		return finish()
	}
	// one entry per party, each carrying the fields the specification says
	if np > 1 && len(ser.entries) != np {
		fail("", hRound, "the general JSON serialization has %d %s for %d parties", len(ser.entries), ser.arr, np)
		return finish()
	}
	for p := 1; p <= np; p++ {
		for _, f := range cs.Entries {
			nokey := false
			for _, q := range cs.Nokey {
				nokey = nokey || q == p
			}
			b, _, err := ser.get(f, p)
			if err != nil {
				fail("", hRound, "%v", err)
				return finish()
			}
			if f == "encrypted_key" && nokey {
				if len(b) != 0 {
					fail("", hRound, "recipient %d has a %d byte encrypted_key although its key management is direct", p, len(b))
				}
			} else if len(b) == 0 {
				fail("", hRound, "entry %d of the serialization has no %s", p, f)
			}
		}
	}
	if len(fails) > 0 {
		return finish()
	}

	// conforms compares the verdict of a step with the specification's; "" = conforms
	conforms := func(s hstep, v hverdict) string {
		if s.Expect == "asfresh" {
			// a re-serialized copy opens as the copy made with no history does
			if s.Op != "reser" || s.V != "right" {
				rp.Bug("asfresh on step %+v", s)
			}
			cv, ok := control[s.P]
			if !ok {
				hd0, pv0 := parseHeld(cs.Obj, text)
				cv = doStep(cs, hd0, pv0, s, hk.key(cs, s))
				inf.Opens++
				control[s.P] = cv
				if !cv.ok {
					inf.Lossy++ // the library's own re-serialization of a parsed object does not open: nothing the property speaks of
				}
			}
			switch {
			case v.panicked != "":
				return "the library panicked: " + v.panicked
			case cv.ok != v.ok:
				return fmt.Sprintf("%v - the copy serialized from the object as parsed, before any call, is %v", v, cv)
			case v.ok && !bytes.Equal(v.payload, cv.payload):
				return "accepted with a different payload than the copy made before any call: " + rp.FirstDiff(v.payload, cv.payload)
			case v.ok && !bytes.Equal(v.aad, cv.aad):
				return "accepted with different authenticated data than the copy made before any call: " + rp.FirstDiff(v.aad, cv.aad)
			}
			return ""
		}
		switch {
		case v.panicked != "":
			return "the library panicked: " + v.panicked
		case s.Expect == "ok" && !v.ok:
			return fmt.Sprintf("rejected (%s: %v)", v.stage, v.err)
		case s.Expect == "error" && v.ok:
			return "ACCEPTED"
		case v.ok && !bytes.Equal(v.payload, payload):
			return "accepted with a different payload: " + rp.FirstDiff(v.payload, payload)
		case v.ok && cs.Obj == "jwe" && !bytes.Equal(v.aad, aad):
			return "accepted with different authenticated data: " + rp.FirstDiff(v.aad, aad)
		case s.Expect != "ok" && s.Expect != "error" && s.Expect != "either":
			rp.Bug("expectation %q", s.Expect)
		}
		return ""
	}

	// runOn replays the steps of a behaviour on ONE parsed object of the text
	runOn := func(b hbeh, txt, where string) {
		hd, pv := parseHeld(cs.Obj, txt)
		untampered := b.Fld == "none"
		for si, s := range b.Steps {
			key := hk.key(cs, s)
			v := doStep(cs, hd, pv, s, key)
			inf.Opens++
			bad := conforms(s, v)
			if bad == "" {
				continue
			}
			// the same step as the FIRST step on a freshly parsed object: does the verdict depend on the history?
			fresh := bad
			if s.Expect == "asfresh" {
				fresh = "" // the control IS the same step on a freshly parsed object
			} else if si > 0 {
				hd0, pv0 := parseHeld(cs.Obj, txt)
				fresh = conforms(s, doStep(cs, hd0, pv0, s, key))
				inf.Opens++
			}
			d, head := "", ""
			switch {
			case fresh == "":
				d, head = "C16/open-consumes-object", "verdict depends on what was done with the parsed object before"
			case untampered && s.Expect == "ok":
				head = hRound
				// does the last party's key open it? then every entry is checked against the last entry's data
				if np > 1 && s.V == "right" && s.P < np {
					hdl, pvl := parseHeld(cs.Obj, txt)
					last := hstep{Op: "open", V: "right", P: np, Expect: "ok"}
					if conforms(last, doStep(cs, hdl, pvl, last, hk.key(cs, last))) == "" {
						d = "C16/shared-entry-header"
					}
				}
			case untampered:
				head = "opens with a key that is no party's"
			case v.ok:
				head = "tampered " + b.Fld + " accepted"
			default:
				head = "failure on tampered " + b.Fld
			}
			if fresh == "" {
				fail(d, head, "%s after [%s]: %s - while the same call on a freshly parsed object conforms%s", stepName(s), historyOf(b.Steps, si-1), bad, where)
			} else {
				fail(d, head, "step %d of [%s]: %s (specification: %s)%s", si+1, historyOf(b.Steps, si), bad, s.Expect, where)
			}
			return // the rest of the behaviour ran on an object in an unknown state
		}
	}

	for _, b := range cs.Behaviours {
		if b.Fld == "none" {
			inf.Runs++
			runOn(b, text, "")
			continue
		}
		field, present, err := ser.get(b.Fld, b.At)
		if err != nil || !present || len(field) == 0 {
			rp.Bug("%s: field %s of entry %d to tamper with is missing (%v)", what, b.Fld, b.At, err)
		}
		for _, fl := range hflips(cs, b, field, rng) {
			inf.Runs++
			mod := append([]byte(nil), field...)
			mod[fl.at] ^= fl.mask
			where := fmt.Sprintf(" - bit mask %#02x of byte %d/%d of %s", fl.mask, fl.at, len(field), b.Fld)
			if b.At > 0 {
				where += fmt.Sprintf(" of entry %d", b.At)
			}
			where += fmt.Sprintf(" flipped (%#02x -> %#02x)", field[fl.at], mod[fl.at])
			if fl.note != "" {
				where += " [" + fl.note + "]"
			}
			runOn(b, ser.with(b.Fld, b.At, mod), where)
		}
	}
	// the harness's own re-serialization must be as good as the library's, or the tamper runs mean nothing
	if len(fails) == 0 {
		f0, at0 := "payload", 0
		if cs.Obj == "jwe" {
			f0 = "iv"
		}
		if b0, ok, _ := ser.get(f0, at0); ok {
			hd, pv := parseHeld(cs.Obj, ser.with(f0, at0, b0))
			s := hstep{Op: "open", V: "right", P: 1, Expect: "ok"}
			if bad := conforms(s, doStep(cs, hd, pv, s, hk.key(cs, s))); bad != "" {
				rp.Bug("%s: identity re-serialization does not open: %s", what, bad)
			}
		}
	}
	return finish()
}
