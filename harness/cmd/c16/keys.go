package main

import (
	"crypto/ecdsa"
	"crypto/elliptic"
	"crypto/rsa"
	"crypto/x509"
	"encoding/pem"
	"math/big"
	"math/rand"

	"verifharness/rp"
)

// keyring holds the real keys the abstract key atoms of spec/jose/Jose.tla are bound to.
// Everything is a pure function of the seed (RSA keys are fixed, see rsakeys.go).
//
//	variants "k1", "k2": two keys of the kind; for EC additionally
//	"lzx": the X coordinate has a leading zero byte, "lzy": the Y coordinate has one
//	(for "k1"/"k2" both coordinates have full width).
type keyring struct {
	rsa map[string]*rsa.PrivateKey
	ec  map[string]map[string]*ecdsa.PrivateKey
	oct map[int]map[string][]byte
}

func curveOf(kind string) elliptic.Curve {
	switch kind {
	case "P-256":
		return elliptic.P256()
	case "P-384":
		return elliptic.P384()
	case "P-521":
		return elliptic.P521()
	}
	rp.Bug("unknown curve %q", kind)
	return nil
}

func coordSize(c elliptic.Curve) int { return (c.Params().BitSize + 7) / 8 }

func parseRSA(p string) *rsa.PrivateKey {
	b, _ := pem.Decode([]byte(p))
	if b == nil {
		rp.Bug("embedded RSA key: no PEM block")
	}
	k, err := x509.ParsePKCS1PrivateKey(b.Bytes)
	if err != nil {
		rp.Bug("embedded RSA key: %v", err)
	}
	if k.N.BitLen() != 2048 || len(k.Primes) != 2 {
		rp.Bug("embedded RSA key is not a two-prime 2048 bit key")
	}
	return k
}

// ecFromScalar builds the key pair of a private scalar (deterministic, unlike ecdsa.GenerateKey).
func ecFromScalar(c elliptic.Curve, d *big.Int) *ecdsa.PrivateKey {
	x, y := c.ScalarBaseMult(d.Bytes())
	return &ecdsa.PrivateKey{PublicKey: ecdsa.PublicKey{Curve: c, X: x, Y: y}, D: d}
}

func newKeyring(seed int) *keyring {
	kr := &keyring{
		rsa: map[string]*rsa.PrivateKey{"k1": parseRSA(rsaPEM1), "k2": parseRSA(rsaPEM2)},
		ec:  map[string]map[string]*ecdsa.PrivateKey{},
		oct: map[int]map[string][]byte{},
	}
	rng := rand.New(rand.NewSource(int64(seed)*7919 + 16))
	for _, n := range []int{16, 24, 32, 48, 64} {
		m := map[string][]byte{}
		for _, v := range []string{"k1", "k2"} {
			b := make([]byte, n)
			rng.Read(b)
			m[v] = b
		}
		kr.oct[n] = m
	}
	for _, kind := range []string{"P-256", "P-384", "P-521"} {
		c := curveOf(kind)
		size := coordSize(c)
		m := map[string]*ecdsa.PrivateKey{}
		nm1 := new(big.Int).Sub(c.Params().N, big.NewInt(1))
		for tries := 0; len(m) < 4; tries++ {
			if tries > 200000 {
				rp.Bug("no %s key with a leading zero coordinate found", kind)
			}
			buf := make([]byte, size+8)
			rng.Read(buf)
			d := new(big.Int).SetBytes(buf)
			d.Mod(d, nm1).Add(d, big.NewInt(1))
			k := ecFromScalar(c, d)
			shortX, shortY := len(k.X.Bytes()) < size, len(k.Y.Bytes()) < size
			var v string
			switch {
			case shortX && !shortY:
				v = "lzx"
			case shortY && !shortX:
				v = "lzy"
			case !shortX && !shortY:
				v = "k1"
				if _, ok := m["k1"]; ok {
					v = "k2"
				}
			default:
				continue
			}
			if _, ok := m[v]; !ok {
				m[v] = k
			}
		}
		kr.ec[kind] = m
	}
	// hist.go: objects with up to three parties of one kind need three right keys and one that is nobody's.
	// Drawn from a generator of their own, after everything else: the keys above stay what they were.
	kr.rsa["k3"], kr.rsa["k4"] = parseRSA(rsaPEM3), parseRSA(rsaPEM4)
	rng2 := rand.New(rand.NewSource(int64(seed)*104729 + 1600))
	for _, n := range []int{16, 24, 32, 48, 64} {
		for _, v := range []string{"k3", "k4"} {
			b := make([]byte, n)
			rng2.Read(b)
			kr.oct[n][v] = b
		}
	}
	return kr
}

// pool returns four different keys of a kind, rotated by salt (EC: the leading-zero keys take every position in turn).
func (kr *keyring) pool(kind string, salt int) (keys [4]interface{}, names [4]string) {
	vs := [4]string{"k1", "k2", "k3", "k4"}
	switch kind {
	case "P-256", "P-384", "P-521":
		vs = [4]string{"lzx", "lzy", "k1", "k2"}
	}
	for i := range vs {
		names[i] = vs[(i+salt)%4]
		keys[i] = kr.private(kind, names[i])
	}
	return
}

// private returns the private (or symmetric) key of a kind and variant.
func (kr *keyring) private(kind, variant string) interface{} {
	switch kind {
	case "RSA2048":
		if k, ok := kr.rsa[variant]; ok {
			return k
		}
	case "P-256", "P-384", "P-521":
		if k, ok := kr.ec[kind][variant]; ok {
			return k
		}
	case "oct16", "oct24", "oct32", "oct48", "oct64":
		n := int(kind[3]-'0')*10 + int(kind[4]-'0')
		if k, ok := kr.oct[n][variant]; ok {
			return k
		}
	}
	rp.Bug("no key %s/%s", kind, variant)
	return nil
}

// public returns what the other party holds: the public half, or the shared secret.
func public(priv interface{}) interface{} {
	switch k := priv.(type) {
	case *rsa.PrivateKey:
		return &k.PublicKey
	case *ecdsa.PrivateKey:
		return &k.PublicKey
	case []byte:
		return k
	}
	rp.Bug("unknown key type %T", priv)
	return nil
}

// pair binds the model's K1 (the object's key) and K2 (another key of the same kind).
// EC kinds rotate through the leading-zero keys so that objects are made for and with them.
func (kr *keyring) pair(kind string, salt int) (k1, k2 interface{}, names [2]string) {
	switch kind {
	case "P-256", "P-384", "P-521":
		rot := [][2]string{{"lzx", "k1"}, {"lzy", "lzx"}, {"k1", "lzy"}, {"k2", "k1"}}
		names = rot[salt%len(rot)]
	default:
		names = [2]string{"k1", "k2"}
		if salt%2 == 1 {
			names = [2]string{"k2", "k1"}
		}
	}
	return kr.private(kind, names[0]), kr.private(kind, names[1]), names
}
