package main

// C16, producer reuse (spec/jose/JoseProd.tla, Gen_JoseProd.tla).
//
// A case is one producer configuration and every behaviour of the specification of length 2..3: ONE
// Encrypter / Signer makes a sequence of objects with different payloads, SetCompression switched
// between them as the behaviour says.  Every object is serialized right after it was made and once more
// after the producer made all the others; both texts must open with every key choice as the
// specification computes for the k-th object of that producer - with a party's key to ITS OWN payload.

import (
	"bytes"
	"encoding/json"
	"fmt"
	"os"
	"runtime/debug"
	"strings"

	"github.com/ossrs/go-oryx-lib/https/jose"
	"verifharness/ld"
	"verifharness/rp"
)

type pmsg struct {
	Size  int     `json:"size"`
	Zip   string  `json:"zip"`
	Opens []popen `json:"opens"`
}

// popen is <<key variant, party, expected verdict>>
type popen struct {
	V, Expect string
	P         int
}

func (s *popen) UnmarshalJSON(b []byte) error {
	var a []interface{}
	if err := json.Unmarshal(b, &a); err != nil || len(a) != 3 {
		return fmt.Errorf("open %s: want 3 elements (%v)", b, err)
	}
	v, ok1 := a[0].(string)
	p, ok2 := a[1].(float64)
	e, ok3 := a[2].(string)
	if !(ok1 && ok2 && ok3) {
		return fmt.Errorf("open %s: wrong types", b)
	}
	s.V, s.P, s.Expect = v, int(p), e
	return nil
}

type prodCase struct {
	Kind    string   `json:"kind"`
	Obj     string   `json:"obj"`
	Parties []hparty `json:"parties"`
	Enc     string   `json:"enc"`
	Aad     int      `json:"aad"`
	Embed   bool     `json:"embed"`
	Nonce   bool     `json:"nonce"`
	Form    string   `json:"form"`
	Seqs    [][]pmsg `json:"seqs"`
}

func init() {
	batchRegistry["prod"] = func(c *rp.Ctx, cases []json.RawMessage) []rp.Result {
		kr := newKeyring(c.Seed)
		return pooled(cases, func(i int, raw json.RawMessage) rp.Result { return oneProd(c, kr, i, raw) })
	}
}

// counting nonce source: every call another nonce
type seqNonce struct {
	prefix string
	n      int
}

func (s *seqNonce) Nonce() (string, error) {
	s.n++
	return fmt.Sprintf("%s-%d", s.prefix, s.n), nil
}

// producer is ONE Signer / Encrypter; make = [SetCompression] + Sign / Encrypt
type producer struct {
	signer interface {
		Sign(payload []byte) (*jose.JsonWebSignature, error)
	}
	enc interface {
		EncryptWithAuthData(plaintext []byte, aad []byte) (*jose.JsonWebEncryption, error)
		Encrypt(plaintext []byte) (*jose.JsonWebEncryption, error)
		SetCompression(alg jose.CompressionAlgorithm)
	}
}

func newProducer(cs *prodCase, hk *hkeys, noncePrefix string) (*producer, error) {
	n := len(cs.Parties)
	if cs.Obj == "jws" {
		var s jose.MultiSigner
		if n == 1 {
			s1, err := jose.NewSigner(jose.SignatureAlgorithm(cs.Parties[0].Alg), hk.right[0])
			if err != nil {
				return nil, fmt.Errorf("NewSigner: %v", err)
			}
			s1.SetEmbedJwk(cs.Embed)
			if cs.Nonce {
				s1.SetNonceSource(&seqNonce{prefix: noncePrefix})
			}
			return &producer{signer: s1}, nil
		}
		s = jose.NewMultiSigner()
		for i, p := range cs.Parties {
			if err := s.AddRecipient(jose.SignatureAlgorithm(p.Alg), hk.right[i]); err != nil {
				return nil, fmt.Errorf("AddRecipient %d (%s): %v", i+1, p.Alg, err)
			}
		}
		s.SetEmbedJwk(cs.Embed)
		if cs.Nonce {
			s.SetNonceSource(&seqNonce{prefix: noncePrefix})
		}
		return &producer{signer: s}, nil
	}
	if n == 1 {
		e, err := jose.NewEncrypter(jose.KeyAlgorithm(cs.Parties[0].Alg), jose.ContentEncryption(cs.Enc), public(hk.right[0]))
		if err != nil {
			return nil, fmt.Errorf("NewEncrypter: %v", err)
		}
		return &producer{enc: e}, nil
	}
	m, err := jose.NewMultiEncrypter(jose.ContentEncryption(cs.Enc))
	if err != nil {
		return nil, fmt.Errorf("NewMultiEncrypter: %v", err)
	}
	for i, p := range cs.Parties {
		if err := m.AddRecipient(jose.KeyAlgorithm(p.Alg), public(hk.right[i])); err != nil {
			return nil, fmt.Errorf("AddRecipient %d (%s): %v", i+1, p.Alg, err)
		}
	}
	return &producer{enc: m}, nil
}

// made is an object as the producer returned it
type made struct {
	jws *jose.JsonWebSignature
	jwe *jose.JsonWebEncryption
}

func (p *producer) make(zip string, payload, aad []byte) (m *made, err error, panicked string) {
	defer func() {
		if e := recover(); e != nil {
			panicked = fmt.Sprintf("%v\n%s", e, debug.Stack())
		}
	}()
	if p.signer != nil {
		o, e := p.signer.Sign(payload)
		if e != nil {
			return nil, fmt.Errorf("Sign: %v", e), ""
		}
		return &made{jws: o}, nil, ""
	}
	if zip == "DEF" {
		p.enc.SetCompression(jose.DEFLATE)
	} else {
		p.enc.SetCompression(jose.NONE)
	}
	var o *jose.JsonWebEncryption
	var e error
	if aad != nil {
		o, e = p.enc.EncryptWithAuthData(payload, aad)
	} else {
		o, e = p.enc.Encrypt(payload)
	}
	if e != nil {
		return nil, fmt.Errorf("Encrypt: %v", e), ""
	}
	return &made{jwe: o}, nil, ""
}

func (m *made) serialize(form string) (text string, err error, panicked string) {
	defer func() {
		if e := recover(); e != nil {
			panicked = fmt.Sprintf("%v\n%s", e, debug.Stack())
		}
	}()
	switch {
	case m.jws != nil && form == "compact":
		text, err = m.jws.CompactSerialize()
	case m.jws != nil:
		text = m.jws.FullSerialize()
	case form == "compact":
		text, err = m.jwe.CompactSerialize()
	default:
		text = m.jwe.FullSerialize()
	}
	return
}

func oneProd(c *rp.Ctx, kr *keyring, i int, raw json.RawMessage) (r rp.Result) {
	defer func() {
		if e := recover(); e != nil {
			fmt.Fprintf(os.Stderr, "replay: harness bug on case %d: %v\n%s\n", i, e, debug.Stack())
			os.Exit(3)
		}
	}()
	var cs prodCase
	if err := json.Unmarshal(raw, &cs); err != nil {
		rp.Bug("case %d: %v", i, err)
	}
	if cs.Kind != "prod" || (cs.Obj != "jws" && cs.Obj != "jwe") || len(cs.Parties) == 0 || len(cs.Seqs) == 0 {
		rp.Bug("case %d: not a producer case: %s", i, raw)
	}
	salt := 0
	for _, b := range []byte(fmt.Sprintf("prod|%s|%v|%s|%d|%v|%v|%s", cs.Obj, cs.Parties, cs.Enc, cs.Aad, cs.Embed, cs.Nonce, cs.Form)) {
		salt = (salt*131 + int(b)) % 1000003
	}
	hc := &histCase{Obj: cs.Obj, Parties: cs.Parties, Form: cs.Form}
	hk := bindKeys(kr, hc, salt)
	var ps []string
	for _, p := range cs.Parties {
		ps = append(ps, p.Alg)
	}
	what := fmt.Sprintf("one %s producer [%s] %s %s aad %d bytes nonce source %v (keys %s)", strings.ToUpper(cs.Obj), strings.Join(ps, ", "), cs.Enc, cs.Form,
		cs.Aad, cs.Nonce, strings.Join(hk.names, ", "))
	inf := info{}
	var fails []string
	dev, nfail, headline := "", 0, ""
	fail := func(d, head, format string, a ...interface{}) {
		if nfail == 0 {
			dev, headline = d, head
		} else if d != dev {
			dev = ""
		}
		nfail++
		if len(fails) < 4 {
			fails = append(fails, fmt.Sprintf(format, a...))
		}
	}
	var aad []byte
	if cs.Aad > 0 {
		aad = ld.FillBytes(cs.Aad, 61, c.Seed+salt)
	}
	for si, seq := range cs.Seqs {
		inf.Runs++
		p, err := newProducer(&cs, hk, fmt.Sprintf("nonce-%d-%d-%d", c.Seed, salt, si))
		if err != nil {
			fail("", "producer cannot be made", "%v", err)
			break
		}
		var zips []string
		for _, m := range seq {
			z := m.Zip
			if z == "" {
				z = "none"
			}
			zips = append(zips, fmt.Sprintf("%d bytes zip %s", m.Size, z))
		}
		hist := "messages [" + strings.Join(zips, "; ") + "]"
		payloads := make([][]byte, len(seq))
		objs := make([]*made, len(seq))
		texts := make([]string, len(seq))
		ok := true
		for k, m := range seq {
			payloads[k] = ld.FillBytes(m.Size, 16+7*k, c.Seed+salt+k)
			o, err, panicked := p.make(m.Zip, payloads[k], aad)
			if err != nil || panicked != "" {
				fail("", "producing an object fails", "%s: message %d: %v %s", hist, k+1, err, panicked)
				ok = false
				break
			}
			objs[k] = o
			t, err, panicked := o.serialize(cs.Form)
			if err != nil || panicked != "" {
				fail("", "producing an object fails", "%s: serializing message %d: %v %s", hist, k+1, err, panicked)
				ok = false
				break
			}
			texts[k] = t
		}
		if !ok {
			continue
		}
		// check judges one text of message k against the specification's verdicts for the k-th object of this producer
		check := func(k int, text, when string) {
			for _, op := range seq[k].Opens {
				key := hk.key(hc, hstep{V: op.V, P: op.P})
				hd, pv := parseHeld(cs.Obj, text)
				v := pv
				if hd != nil {
					v = hd.open(key)
				}
				inf.Opens++
				bad := ""
				switch {
				case v.panicked != "":
					bad = "the library panicked: " + v.panicked
				case op.Expect == "ok" && !v.ok:
					bad = fmt.Sprintf("rejected (%s: %v)", v.stage, v.err)
				case op.Expect == "error" && v.ok:
					bad = "ACCEPTED"
				case v.ok && !bytes.Equal(v.payload, payloads[k]):
					bad = "opens to a different payload: " + rp.FirstDiff(v.payload, payloads[k])
					for j := range payloads {
						if j != k && bytes.Equal(v.payload, payloads[j]) {
							bad = fmt.Sprintf("opens to the payload of message %d", j+1)
						}
					}
				case v.ok && cs.Obj == "jwe" && !bytes.Equal(v.aad, aad):
					bad = "reports different authenticated data: " + rp.FirstDiff(v.aad, aad)
				case op.Expect != "ok" && op.Expect != "error":
					rp.Bug("expectation %q", op.Expect)
				}
				if bad == "" {
					continue
				}
				d, head := "", "object of a producer does not open as the specification says"
				if op.Expect == "ok" {
					// would a producer of its own have made an object that opens? then the verdict depends on what this one made before
					if p1, err := newProducer(&cs, hk, "fresh"); err == nil {
						if o1, err, pn := p1.make(seq[k].Zip, payloads[k], aad); err == nil && pn == "" {
							if t1, err, pn := o1.serialize(cs.Form); err == nil && pn == "" {
								if hd1, _ := parseHeld(cs.Obj, t1); hd1 != nil {
									if v1 := hd1.open(key); v1.ok && bytes.Equal(v1.payload, payloads[k]) {
										d, head = "C16/producer-header-cached", "object k of a producer depends on the objects it made before"
									}
								}
							}
						}
					}
				}
				kn := fmt.Sprintf("%s key of party %d", map[string]string{"right": "the", "other": "another"}[op.V], op.P)
				if op.P == 0 {
					kn = "a key of a foreign kind"
				}
				fail(d, head, "%s: message %d (%s), opened with %s: %s (specification: %s)", hist, k+1, when, kn, bad, op.Expect)
				return
			}
		}
		for k := range seq {
			check(k, texts[k], "serialized when it was made")
		}
		// the objects the application still holds: serialized after the producer went on
		for k := range seq {
			t, err, panicked := objs[k].serialize(cs.Form)
			if err != nil || panicked != "" {
				fail("", "producing an object fails", "%s: serializing message %d after all were made: %v %s", hist, k+1, err, panicked)
				continue
			}
			if t != texts[k] {
				check(k, t, "serialized after the producer made the later ones")
			}
		}
	}
	if len(fails) == 0 {
		return rp.Result{OK: true, Info: inf, Nontriv: true}
	}
	return rp.Result{OK: false, What: fmt.Sprintf("%-60s| %s: %s", headline, what, strings.Join(fails, "; ")), Deviation: dev, Info: inf}
}
