package main

// OCSP: seeds (the DER vectors of the library's own test file, requests made by the library's CreateRequest,
// responses written here from RFC 6960 4.2.1 and signed with the fixed RSA key) and the TLV operators of the
// specification's small DER grammar.

import (
	"crypto"
	"crypto/rsa"
	"crypto/sha1"
	"crypto/sha256"
	"crypto/x509"
	"crypto/x509/pkix"
	"encoding/hex"
	"math/big"
	"sync"
	"time"

	"github.com/ossrs/go-oryx-lib/https/crypto/ocsp"
	"verifharness/rp"
)

type ocspData struct {
	issuer, leaf, responder *x509.Certificate
	vecIssuer               *x509.Certificate
	seeds                   map[string][]byte
}

var ocspOnce sync.Once
var ocspV *ocspData

type zeroReader struct{}

func (zeroReader) Read(p []byte) (int, error) {
	for i := range p {
		p[i] = 0
	}
	return len(p), nil
}

func unhex(s string) []byte {
	b, err := hex.DecodeString(s)
	if err != nil {
		rp.Bug("embedded hex vector: %v", err)
	}
	return b
}

func mkCert(serial int64, cn string, isCA bool, parent *x509.Certificate, key *rsa.PrivateKey, eku []x509.ExtKeyUsage) *x509.Certificate {
	t := &x509.Certificate{
		SerialNumber: big.NewInt(serial), Subject: pkix.Name{CommonName: cn, Organization: []string{"verif"}},
		NotBefore: time.Date(2020, 1, 1, 0, 0, 0, 0, time.UTC), NotAfter: time.Date(2040, 1, 1, 0, 0, 0, 0, time.UTC),
		KeyUsage: x509.KeyUsageDigitalSignature | x509.KeyUsageCertSign, BasicConstraintsValid: true, IsCA: isCA,
		ExtKeyUsage: eku, SignatureAlgorithm: x509.SHA256WithRSA, SubjectKeyId: []byte{1, 2, 3, byte(serial)},
	}
	p := parent
	if p == nil {
		p = t
	}
	der, err := x509.CreateCertificate(zeroReader{}, t, p, &key.PublicKey, key)
	if err != nil {
		rp.Bug("CreateCertificate: %v", err)
	}
	c, err := x509.ParseCertificate(der)
	if err != nil {
		rp.Bug("ParseCertificate: %v", err)
	}
	return c
}

// ---- DER writer (X.690 definite lengths)

func derLen(n int) []byte {
	switch {
	case n < 128:
		return []byte{byte(n)}
	case n < 256:
		return []byte{0x81, byte(n)}
	case n < 65536:
		return []byte{0x82, byte(n >> 8), byte(n)}
	case n < 1<<24:
		return []byte{0x83, byte(n >> 16), byte(n >> 8), byte(n)}
	}
	return []byte{0x84, byte(n >> 24), byte(n >> 16), byte(n >> 8), byte(n)}
}

func der(tag byte, content ...[]byte) []byte {
	n := 0
	for _, c := range content {
		n += len(c)
	}
	out := append([]byte{tag}, derLen(n)...)
	for _, c := range content {
		out = append(out, c...)
	}
	return out
}

func derTime(t time.Time) []byte { return der(0x18, []byte(t.UTC().Format("20060102150405Z"))) }
func derInt(v *big.Int) []byte {
	b := v.Bytes()
	if len(b) == 0 || b[0]&0x80 != 0 {
		b = append([]byte{0}, b...)
	}
	return der(0x02, b)
}

var oidSHA1 = []byte{0x2b, 0x0e, 0x03, 0x02, 0x1a}
var oidBasic = []byte{0x2b, 0x06, 0x01, 0x05, 0x05, 0x07, 0x30, 0x01, 0x01}
var oidSHA256RSA = []byte{0x2a, 0x86, 0x48, 0x86, 0xf7, 0x0d, 0x01, 0x01, 0x0b}
var oidNonce = []byte{0x2b, 0x06, 0x01, 0x05, 0x05, 0x07, 0x30, 0x01, 0x02}

type builtOpts struct {
	byName   bool
	withCert bool
	revoked  bool
	nresp    int
	nexts    int
}

func subjectKeyHash(c *x509.Certificate) []byte {
	var spki struct {
		Alg pkix.AlgorithmIdentifier
		Key struct {
			Bytes     []byte
			BitLength int
		}
	}
	_ = spki
	h := sha1.Sum(c.RawSubjectPublicKeyInfo)
	return h[:]
}

// buildResponse writes an OCSPResponse (RFC 6960 4.2.1) for the leaf certificate.
func buildResponse(d *ocspData, key *rsa.PrivateKey, o builtOpts) []byte {
	now := time.Date(2026, 1, 2, 3, 4, 5, 0, time.UTC)
	nameHash := sha1.Sum(d.issuer.RawSubject)
	keyHash := subjectKeyHash(d.issuer)
	single := func(serial *big.Int, k int) []byte {
		certID := der(0x30, der(0x30, der(0x06, oidSHA1), der(0x05)), der(0x04, nameHash[:]), der(0x04, keyHash), derInt(serial))
		status := der(0x80) // good [0] IMPLICIT NULL
		if o.revoked && k == 0 {
			status = der(0xa1, derTime(now.Add(-time.Hour)), der(0xa0, der(0x0a, []byte{1})))
		}
		parts := [][]byte{certID, status, derTime(now), der(0xa0, derTime(now.Add(24*time.Hour)))}
		if o.nexts > 0 {
			var exts [][]byte
			for e := 0; e < o.nexts; e++ {
				exts = append(exts, der(0x30, der(0x06, append(append([]byte{}, oidNonce...), byte(e%100))), der(0x04, der(0x04, []byte{byte(e), 2, 3}))))
			}
			parts = append(parts, der(0xa1, der(0x30, exts...)))
		}
		return der(0x30, parts...)
	}
	n := o.nresp
	if n < 1 {
		n = 1
	}
	var singles [][]byte
	for k := 0; k < n; k++ {
		serial := new(big.Int).Add(d.leaf.SerialNumber, big.NewInt(int64(k)))
		singles = append(singles, single(serial, k))
	}
	signerCert := d.issuer
	if o.withCert {
		signerCert = d.responder
	}
	var responderID []byte
	if o.byName {
		responderID = der(0xa1, signerCert.RawSubject)
	} else {
		responderID = der(0xa2, der(0x04, subjectKeyHash(signerCert)))
	}
	tbs := der(0x30, responderID, derTime(now), der(0x30, singles...))
	h := sha256.Sum256(tbs)
	sig, err := rsa.SignPKCS1v15(nil, key, crypto.SHA256, h[:])
	if err != nil {
		rp.Bug("SignPKCS1v15: %v", err)
	}
	parts := [][]byte{tbs, der(0x30, der(0x06, oidSHA256RSA), der(0x05)), der(0x03, append([]byte{0}, sig...))}
	if o.withCert {
		parts = append(parts, der(0xa0, der(0x30, d.responder.Raw)))
	}
	basic := der(0x30, parts...)
	return der(0x30, der(0x0a, []byte{0}), der(0xa0, der(0x30, der(0x06, oidBasic), der(0x04, basic))))
}

func theOcsp() *ocspData {
	ocspOnce.Do(func() {
		key := theKeys().rsa
		d := &ocspData{seeds: map[string][]byte{}}
		d.issuer = mkCert(1, "verif issuer", true, nil, key, nil)
		d.leaf = mkCert(0x1234567, "leaf", false, d.issuer, key, nil)
		d.responder = mkCert(3, "responder", false, d.issuer, key, []x509.ExtKeyUsage{x509.ExtKeyUsageOCSPSigning})
		var err error
		if d.vecIssuer, err = x509.ParseCertificate(unhex(vec_startComHex)); err != nil {
			rp.Bug("vector issuer: %v", err)
		}
		d.seeds["ocspresp/vec.cert"] = unhex(vec_ocspResponseHex)
		d.seeds["ocspresp/vec.nocert"] = unhex(vec_ocspResponseWithoutCertHex)
		d.seeds["ocspresp/vec.ext"] = unhex(vec_ocspResponseWithExtensionHex)
		d.seeds["ocspresp/vec.critext"] = unhex(vec_ocspResponseWithCriticalExtensionHex)
		d.seeds["ocspresp/vec.multi"] = unhex(vec_ocspMultiResponseHex)
		d.seeds["ocspresp/vec.error"] = unhex(vec_errorResponseHex)
		d.seeds["ocspresp/built.keyhash"] = buildResponse(d, key, builtOpts{})
		d.seeds["ocspresp/built.name"] = buildResponse(d, key, builtOpts{byName: true})
		d.seeds["ocspresp/built.cert"] = buildResponse(d, key, builtOpts{withCert: true})
		d.seeds["ocspresp/built.revoked"] = buildResponse(d, key, builtOpts{revoked: true, nresp: 2, nexts: 2})
		d.seeds["ocspreq/vec"] = unhex(vec_ocspRequestHex)
		for name, h := range map[string]crypto.Hash{"created.sha1": crypto.SHA1, "created.sha256": crypto.SHA256} {
			req, err := ocsp.CreateRequest(d.leaf, d.issuer, &ocsp.RequestOptions{Hash: h})
			if err != nil {
				rp.Bug("CreateRequest: %v", err)
			}
			d.seeds["ocspreq/"+name] = req
		}
		// the responses written here are what the parser accepts (guards the writer above, not the library)
		for _, n := range []string{"built.keyhash", "built.name", "built.cert", "built.revoked"} {
			if _, err := ocsp.ParseResponseForCert(d.seeds["ocspresp/"+n], d.leaf, d.issuer); err != nil {
				d.seeds["ocspresp/"+n+"!rejected"] = []byte(err.Error())
			}
		}
		ocspV = d
	})
	return ocspV
}

// ---------------------------------------------------------------- the TLV grammar

type tlvNode struct {
	tag      byte
	off      int // offset of the tag in the original bytes
	hlen     int
	clen     int
	children []*tlvNode
	content  []byte
	cons     bool   // constructed, or an OCTET / BIT STRING that wraps DER
	prefix   []byte // the unused-bits byte of a wrapping BIT STRING
	raw      []byte // literal bytes that replace the node (inner truncation)
}

// wrapsDER: the content starts like a universal constructed or string/integer TLV whose length fits exactly.
func wrapsDER(c []byte) bool {
	switch c[0] {
	case 0x30, 0x31, 0x04, 0x02, 0x0c, 0x13, 0x16, 0x03, 0x06, 0x0a:
		return int(c[1]) < 0x80 && int(c[1]) <= len(c)-2 || c[1] == 0x81 || c[1] == 0x82
	}
	return false
}

// parseTLVs parses b[lo:hi] as a sequence of single-byte-tag, definite-length TLVs; ok=false if it is not one.
func parseTLVs(b []byte, lo, hi, depth int) ([]*tlvNode, bool) {
	var out []*tlvNode
	for p := lo; p < hi; {
		if hi-p < 2 || b[p]&0x1f == 0x1f || depth > 64 {
			return nil, false
		}
		n := &tlvNode{tag: b[p], off: p}
		l := int(b[p+1])
		h := 2
		if l >= 0x80 {
			k := l & 0x7f
			if k == 0 || k > 4 || hi-p < 2+k {
				return nil, false
			}
			l = 0
			for i := 0; i < k; i++ {
				l = l<<8 | int(b[p+2+i])
			}
			h = 2 + k
		}
		if l < 0 || p+h+l > hi {
			return nil, false
		}
		n.hlen, n.clen = h, l
		n.content = b[p+h : p+h+l]
		if n.tag&0x20 != 0 {
			if ch, ok := parseTLVs(b, p+h, p+h+l, depth+1); ok {
				n.children, n.cons = ch, true
			}
		} else if n.tag == 0x04 && l >= 2 && wrapsDER(n.content) {
			// an OCTET STRING that wraps DER (the response bytes, extension values)
			if ch, ok := parseTLVs(b, p+h, p+h+l, depth+1); ok && len(ch) >= 1 {
				n.children, n.cons = ch, true
			}
		} else if n.tag == 0x03 && l >= 3 && n.content[0] == 0 && n.content[1] == 0x30 {
			// a BIT STRING without unused bits that wraps DER (subjectPublicKey)
			if ch, ok := parseTLVs(b, p+h+1, p+h+l, depth+1); ok && len(ch) == 1 {
				n.children, n.cons, n.prefix = ch, true, []byte{0}
			}
		}
		out = append(out, n)
		p += h + l
	}
	return out, true
}

func flatten(ns []*tlvNode, out *[]*tlvNode) {
	for _, n := range ns {
		*out = append(*out, n)
		if n.cons {
			flatten(n.children, out)
		}
	}
}

func render(ns []*tlvNode) []byte {
	var out []byte
	for _, n := range ns {
		if n.raw != nil {
			out = append(out, n.raw...)
		} else if n.cons {
			out = append(out, der(n.tag, n.prefix, render(n.children))...)
		} else {
			out = append(out, der(n.tag, n.content)...)
		}
	}
	return out
}

func posIndex(cls string, n int) int {
	switch cls {
	case "0":
		return 0
	case "1":
		return 1
	case "quarter":
		return n / 4
	case "half":
		return n / 2
	case "end-1":
		return n - 1
	case "end":
		return n
	}
	rp.Bug("unknown position class %q", cls)
	return 0
}

var tlvTags = map[string]byte{"00": 0x00, "1f": 0x1f, "seq": 0x30, "set": 0x31, "int": 0x02, "octet": 0x04, "oid": 0x06, "bits": 0x03,
	"ctx0": 0xa0, "ctx1": 0xa1, "ctx2": 0xa2, "enum": 0x0a, "bool": 0x01, "time": 0x18, "ff": 0xff}

// applyTLV concretises the TLV operators; ok=false: not applicable (no such node).
func applyTLV(b []byte, op symOp) ([]byte, bool) {
	roots, ok := parseTLVs(b, 0, len(b), 0)
	if !ok {
		return nil, false
	}
	var flat []*tlvNode
	flatten(roots, &flat)
	if len(flat) == 0 {
		return nil, false
	}
	idx, depth := 0, 0
	if op.P == "idx" {
		idx, depth = op.N%1000, op.N/1000
	} else {
		idx, depth = posIndex(op.P, len(flat)), op.N/1000
		if idx >= len(flat) {
			idx = len(flat) - 1
		}
	}
	if idx >= len(flat) || idx < 0 {
		return nil, false
	}
	n := flat[idx]
	switch op.O {
	case "tlvtag":
		t, ok := tlvTags[op.V]
		if !ok {
			rp.Bug("unknown tag class %q", op.V)
		}
		if b[n.off] == t {
			return nil, false
		}
		out := append([]byte{}, b...)
		out[n.off] = t
		return out, true
	case "tlvlen":
		var l []byte
		switch op.V {
		case "0":
			l = []byte{0}
		case "1":
			l = []byte{1}
		case "m1":
			if n.clen == 0 {
				return nil, false
			}
			l = derLen(n.clen - 1)
		case "p1":
			l = derLen(n.clen + 1)
		case "max":
			l = []byte{0x84, 0xff, 0xff, 0xff, 0xff}
		case "indef":
			l = []byte{0x80}
		case "long":
			l = []byte{0x83, byte(n.clen >> 16), byte(n.clen >> 8), byte(n.clen)}
		case "huge":
			l = []byte{0x88, 0x7f, 0xff, 0xff, 0xff, 0xff, 0xff, 0xff, 0xff}
		default:
			rp.Bug("unknown length class %q", op.V)
		}
		out := append([]byte{}, b[:n.off+1]...)
		out = append(out, l...)
		return append(out, b[n.off+n.hlen:]...), true
	}
	// inner truncation: the node is replaced by literal bytes, every enclosing layer gets consistent lengths
	var inner []byte
	dropRest := false
	if op.O == "tlvinner" {
		own := b[n.off+n.hlen : n.off+n.hlen+n.clen]
		hdrLen := b[n.off+1 : n.off+n.hlen]
		switch op.V {
		case "tagonly":
			inner, dropRest = []byte{n.tag}, true
		case "taglen":
			if n.clen == 0 {
				return nil, false
			}
			inner, dropRest = cat([]byte{n.tag}, hdrLen), true
		case "taglen0":
			if n.clen == 0 {
				return nil, false
			}
			inner = []byte{n.tag, 0}
		case "lenbig":
			inner = cat([]byte{n.tag}, derLen(n.clen+1), own)
		case "lenhuge":
			inner = cat([]byte{n.tag, 0x84, 0xff, 0xff, 0xff, 0xff}, own)
		case "wrongtag":
			t := byte(0x04)
			if n.tag == 0x04 {
				t = 0x05
			}
			inner = cat([]byte{t}, hdrLen, own)
		case "cut1":
			if n.clen < 2 {
				return nil, false
			}
			inner = der(n.tag, own[:1])
		case "cutm1":
			if n.clen < 1 {
				return nil, false
			}
			inner = der(n.tag, own[:n.clen-1])
		default:
			rp.Bug("unknown inner truncation class %q", op.V)
		}
	}
	// structural operators: edit the tree, then write it with consistent lengths
	var edit func(ns []*tlvNode) []*tlvNode
	edit = func(ns []*tlvNode) []*tlvNode {
		var out []*tlvNode
		for _, x := range ns {
			if x == n {
				switch op.O {
				case "tlvinner":
					out = append(out, &tlvNode{raw: inner})
					if dropRest {
						return out
					}
					continue
				case "tlvdrop":
					continue
				case "tlvdup":
					out = append(out, x, x)
					continue
				case "tlvempty":
					out = append(out, &tlvNode{tag: x.tag})
					continue
				case "tlvnest":
					w := x
					for i := 0; i < depth; i++ {
						w = &tlvNode{tag: 0x30, cons: true, children: []*tlvNode{w}}
					}
					out = append(out, w)
					continue
				default:
					rp.Bug("unknown TLV operator %q", op.O)
				}
			}
			if x.cons {
				c := *x
				c.children = edit(x.children)
				out = append(out, &c)
			} else {
				out = append(out, x)
			}
		}
		return out
	}
	return render(edit(roots)), true
}
