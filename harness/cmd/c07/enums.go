package main

// Enum totality: every helper of every integer enum type is called for every value of its underlying type.

import (
	"encoding/json"
	"fmt"
	"runtime/debug"
	"sync"

	"github.com/ossrs/go-oryx-lib/aac"
	"github.com/ossrs/go-oryx-lib/amf0"
	"github.com/ossrs/go-oryx-lib/avc"
	"github.com/ossrs/go-oryx-lib/flv"
	"github.com/ossrs/go-oryx-lib/https/crypto/ocsp"
	"github.com/ossrs/go-oryx-lib/rtmp"
	"github.com/ossrs/go-oryx-lib/websocket"
	"verifharness/rp"
)

type enumCase struct {
	T  string `json:"t"`
	Lo int    `json:"lo"`
	N  int    `json:"n"`
}

type method struct {
	name string
	call func(v int)
}

var sink int

func use(s string) { sink += len(s) }

var enumMethods = map[string][]method{
	"flv.TagType":         {{"String", func(v int) { use(flv.TagType(v).String()) }}},
	"flv.AudioFrameTrait": {{"String", func(v int) { use(flv.AudioFrameTrait(v).String()) }}},
	"flv.AudioChannels": {{"String", func(v int) { use(flv.AudioChannels(v).String()) }},
		{"From", func(v int) { var x flv.AudioChannels; x.From(aac.Channels(v)); use(x.String()) }}},
	"flv.AudioSampleBits": {{"String", func(v int) { use(flv.AudioSampleBits(v).String()) }}},
	"flv.AudioSamplingRate": {{"String", func(v int) { use(flv.AudioSamplingRate(v).String()) }},
		{"ToHz", func(v int) { sink += flv.AudioSamplingRate(v).ToHz() }},
		{"OpusToHz", func(v int) { sink += flv.AudioSamplingRate(v).OpusToHz() }},
		{"From", func(v int) {
			var x flv.AudioSamplingRate
			x.From(aac.SampleRateIndex(v))
			sink += x.ToHz() + x.OpusToHz()
			use(x.String())
		}},
		{"OpusFrom", func(v int) {
			var x flv.AudioSamplingRate
			x.OpusFrom(aac.SampleRateIndex(v))
			sink += x.ToHz() + x.OpusToHz()
			use(x.String())
		}}},
	"flv.AudioCodec":      {{"String", func(v int) { use(flv.AudioCodec(v).String()) }}},
	"flv.VideoFrameType":  {{"String", func(v int) { use(flv.VideoFrameType(v).String()) }}},
	"flv.VideoCodec":      {{"String", func(v int) { use(flv.VideoCodec(v).String()) }}},
	"flv.VideoFrameTrait": {{"String", func(v int) { use(flv.VideoFrameTrait(v).String()) }}},
	"aac.ObjectType": {{"String", func(v int) { use(aac.ObjectType(v).String()) }},
		{"ToProfile", func(v int) { p := aac.ObjectType(v).ToProfile(); use(p.String()); use(p.ToObjectType().String()) }}},
	"aac.Profile": {{"String", func(v int) { use(aac.Profile(v).String()) }},
		{"ToObjectType", func(v int) { o := aac.Profile(v).ToObjectType(); use(o.String()); use(o.ToProfile().String()) }}},
	"aac.SampleRateIndex": {{"String", func(v int) { use(aac.SampleRateIndex(v).String()) }},
		{"ToHz", func(v int) { sink += aac.SampleRateIndex(v).ToHz() }}},
	"aac.Channels": {{"String", func(v int) { use(aac.Channels(v).String()) }}},
	"avc.NALUType": {{"String", func(v int) { use(avc.NALUType(v).String()) }},
		{"NALUHeader.String", func(v int) {
			h := avc.NewNALUHeader()
			h.NALUType = avc.NALUType(v)
			use(h.String())
			n := avc.NewNALU()
			n.NALUType = avc.NALUType(v)
			use(n.String())
		}}},
	"avc.NALRefIDC": {{"NALUHeader.String", func(v int) {
		h := avc.NewNALUHeader()
		h.NALRefIDC = avc.NALRefIDC(v)
		use(h.String())
		if b, err := h.MarshalBinary(); err == nil {
			avc.NewNALUHeader().UnmarshalBinary(b)
		}
	}}},
	"avc.AVCLevel":   {{"String", func(v int) { use(avc.AVCLevel(v).String()) }}},
	"avc.AVCProfile": {{"String", func(v int) { use(avc.AVCProfile(v).String()) }}},
	// rtmp has no String methods: the type id / event type / limit type select the decoder
	"rtmp.MessageType": {{"DecodeMessage", func(v int) {
		for _, n := range []int{0, 1, 3, 4, 5, 6, 10, 16} {
			rtmpDecodeAs(make([]byte, n), v)
		}
		rtmpDecodeAs([]byte{2, 0, 7, '_', 'r', 'e', 's', 'u', 'l', 't', 0, 0x3f, 0xf0, 0, 0, 0, 0, 0, 0, 3, 0, 0, 9}, v)
	}}},
	"rtmp.LimitType": {{"SetPeerBandwidth", func(v int) {
		p := rtmp.NewSetPeerBandwidth()
		if p.UnmarshalBinary([]byte{0, 0, 1, 0, byte(v)}) == nil {
			p.MarshalBinary()
		}
		use(fmt.Sprint(p.LimitType)) // default formatting of the enum
	}}},
	"rtmp.EventType": {{"UserControl", func(v int) {
		for _, n := range []int{2, 3, 5, 6, 7, 9, 10, 12} {
			b := make([]byte, n)
			b[0], b[1] = byte(v>>8), byte(v)
			p := rtmp.NewUserControl()
			if p.UnmarshalBinary(b) == nil {
				sink += p.Size()
				p.MarshalBinary()
			}
		}
	}}},
	"amf0.marker": {{"Discovery", func(v int) {
		// the marker's String is reached through the error texts of Discovery and of every type's UnmarshalBinary
		for _, n := range []int{1, 2, 3, 5, 9, 12} {
			b := make([]byte, n)
			b[0] = byte(v)
			if a, err := amf0.Discovery(b); err == nil && a != nil {
				a.UnmarshalBinary(b)
			} else if err != nil {
				use(err.Error())
			}
			for _, d := range decodersOf["amf0"][1:] {
				d.run(b, 0)
			}
			for _, a := range []amf0.Amf0{amf0.NewNumber(0), amf0.NewString(""), amf0.NewObject(), amf0.NewNull()} {
				if err := a.UnmarshalBinary(b); err != nil {
					use(err.Error())
				}
			}
		}
	}}},
	"ocsp.ResponseStatus": {{"String of the negative value -(v+1)", func(v int) {
		// the underlying type is int and the wire field an ENUMERATED, which encoding/asn1 decodes as a signed value
		use(ocsp.ResponseStatus(-v - 1).String())
		use(ocsp.ResponseError{Status: ocsp.ResponseStatus(-v - 1)}.Error())
	}}, {"String", func(v int) {
		use(ocsp.ResponseStatus(v).String())
		use(ocsp.ResponseError{Status: ocsp.ResponseStatus(v)}.Error())
		if v == 0 {
			for _, x := range []int{-1, -32768, -2147483648, 2147483647, 1 << 62, -1 << 63} {
				use(ocsp.ResponseStatus(x).String())
			}
		}
	}}},
	"websocket.closeCode": {{"CloseError.Error", func(v int) {
		use((&websocket.CloseError{Code: v, Text: "t"}).Error())
		websocket.IsCloseError(&websocket.CloseError{Code: v}, v)
		websocket.FormatCloseMessage(v, "bye")
	}}},
}

func callMethod(m method, v int) (pan interface{}, stack string) {
	defer func() {
		if e := recover(); e != nil {
			pan, stack = e, string(debug.Stack())
		}
	}()
	m.call(v)
	return
}

func enumBatch(c *rp.Ctx, raws []json.RawMessage) []rp.Result {
	counts := map[string]int64{}
	var mu sync.Mutex
	res := runParallel(c, len(raws), 1, func(w *worker, i int) rp.Result {
		var cs enumCase
		if err := json.Unmarshal(raws[i], &cs); err != nil {
			rp.Bug("case %d: %v", i, err)
		}
		ms, ok := enumMethods[cs.T]
		if !ok {
			rp.Bug("case %d: unknown enum type %q", i, cs.T)
		}
		r := rp.Result{I: i, OK: true, Nontriv: true}
		w.begin(fmt.Sprintf("the methods of %s for the values %d..%d", cs.T, cs.Lo, cs.Lo+cs.N-1))
		for v := cs.Lo; v < cs.Lo+cs.N; v++ {
			for _, m := range ms {
				mu.Lock()
				counts[cs.T+"."+m.name]++
				mu.Unlock()
				if pan, stack := callMethod(m, v); pan != nil && r.OK {
					fr := libFrames(stack)
					at := ""
					if len(fr) > 0 {
						at = " at " + fr[0]
					}
					r = rp.Result{I: i, OK: false, Nontriv: true,
						What:     fmt.Sprintf("%s.%s is not total: panic%s for value %d: %v", cs.T, m.name, at, v, pan),
						Observed: map[string]interface{}{"stack": stack}}
				}
			}
		}
		w.end()
		return r
	})
	mu.Lock()
	defer mu.Unlock()
	st := newStats()
	var total int64
	for _, n := range counts {
		total += n
	}
	st.write(c.Extra["statsdir"], "enum", map[string]interface{}{"methods": counts, "calls": total})
	return res
}
