package main

// The entry points of the property, one decoder variant per call pattern. Every run function feeds the
// whole byte string to the library and reports "ok" (a value came back), "error", or "stall: ..." when a
// stream decoder keeps returning values beyond the number a finite input can hold.

import (
	"bytes"
	"crypto/x509"
	"fmt"
	"io"
	"io/ioutil"
	"net"
	"time"

	"github.com/ossrs/go-oryx-lib/aac"
	"github.com/ossrs/go-oryx-lib/amf0"
	"github.com/ossrs/go-oryx-lib/avc"
	"github.com/ossrs/go-oryx-lib/flv"
	"github.com/ossrs/go-oryx-lib/https/crypto/ocsp"
	"github.com/ossrs/go-oryx-lib/https/jose"
	ojson "github.com/ossrs/go-oryx-lib/json"
	"github.com/ossrs/go-oryx-lib/rtmp"
	"github.com/ossrs/go-oryx-lib/websocket"
	"verifharness/rp"
	"verifharness/transport"
)

// memConn is a net.Conn whose peer sent b and closed: reads deliver b and then io.EOF, writes are discarded.
type memConn struct {
	r *bytes.Reader
}

type memAddr struct{}

func (memAddr) Network() string { return "mem" }
func (memAddr) String() string  { return "mem" }

func newMemConn(b []byte) *memConn                    { return &memConn{r: bytes.NewReader(b)} }
func (c *memConn) Read(p []byte) (int, error)         { return c.r.Read(p) }
func (c *memConn) Write(p []byte) (int, error)        { return len(p), nil }
func (c *memConn) Close() error                       { return nil }
func (c *memConn) LocalAddr() net.Addr                { return memAddr{} }
func (c *memConn) RemoteAddr() net.Addr               { return memAddr{} }
func (c *memConn) SetDeadline(t time.Time) error      { return nil }
func (c *memConn) SetReadDeadline(t time.Time) error  { return nil }
func (c *memConn) SetWriteDeadline(t time.Time) error { return nil }

// segStream delivers b through the harness transport with a read segmentation chosen from the content
// (whole, one byte, seeded random), then io.EOF.
func segStream(b []byte) *transport.Stream {
	s := transport.NewStream()
	var h int64
	for i, x := range b {
		if i >= 64 {
			break
		}
		h = h*131 + int64(x)
	}
	switch (h%5 + 5) % 5 {
	case 0:
		s.Seg = transport.OneByte
	case 1, 2:
		s.Seg = transport.Random(h+int64(len(b)), 97)
	default:
		s.Seg = transport.Whole
	}
	s.Write(b)
	s.CloseWrite()
	return s
}

type segConn struct {
	*memConn
	s *transport.Stream
}

func (c *segConn) Read(p []byte) (int, error) { return c.s.Read(p) }

func okIf(cond bool) string {
	if cond {
		return "ok"
	}
	return "error"
}

func stall(format string, a ...interface{}) string { return "stall: " + fmt.Sprintf(format, a...) }

// ---------------------------------------------------------------- rtmp

type discardRW struct{ io.Reader }

func (discardRW) Write(p []byte) (int, error) { return len(p), nil }

func rtmpRead(r io.Reader, n int) string {
	p := rtmp.NewProtocol(discardRW{r})
	// a message takes at least one byte of input
	limit := n + 8
	msgs := 0
	for {
		m, err := p.ReadMessage()
		if err != nil {
			return okIf(msgs > 0)
		}
		if m == nil {
			return stall("ReadMessage returned neither a message nor an error")
		}
		msgs++
		if msgs > limit {
			return stall("rtmp.ReadMessage delivered %d messages from %d bytes of input", msgs, n)
		}
		p.DecodeMessage(m)
	}
}

func decRtmpRead(b []byte, arg int) string    { return rtmpRead(bytes.NewReader(b), len(b)) }
func decRtmpReadSeg(b []byte, arg int) string { return rtmpRead(segStream(b), len(b)) }

// a protocol with the transactions 1 (connect) and 2 (createStream) outstanding, so that _result/_error decode
func rtmpWithTxns() *rtmp.Protocol {
	p := rtmp.NewProtocol(discardRW{bytes.NewReader(nil)})
	if err := p.WritePacket(rtmp.NewConnectAppPacket(), 0); err != nil {
		rp.Bug("rtmp WritePacket: %v", err)
	}
	if err := p.WritePacket(rtmp.NewCreateStreamPacket(), 0); err != nil {
		rp.Bug("rtmp WritePacket: %v", err)
	}
	return p
}

func rtmpDecodeAs(b []byte, typ int) string {
	m := rtmp.NewMessage()
	m.MessageType = rtmp.MessageType(typ)
	m.Payload = b
	_, err := rtmpWithTxns().DecodeMessage(m)
	return okIf(err == nil)
}

var rtmpMsgTypes = []int{1, 4, 5, 6, 15, 17, 18, 20, 8}

// ---------------------------------------------------------------- amf0

func decAmf0Discovery(b []byte, arg int) string {
	a, err := amf0.Discovery(b)
	if err != nil {
		return "error"
	}
	if a == nil {
		return stall("amf0.Discovery returned neither a value nor an error")
	}
	return okIf(a.UnmarshalBinary(b) == nil)
}

func amf0Type(mk func() amf0.Amf0) func([]byte, int) string {
	return func(b []byte, arg int) string { return okIf(mk().UnmarshalBinary(b) == nil) }
}

// ---------------------------------------------------------------- flv

func flvDemux(r io.Reader, n int) string {
	d, err := flv.NewDemuxer(r)
	if err != nil {
		return "error"
	}
	defer d.Close()
	if _, _, _, err = d.ReadHeader(); err != nil {
		return "error"
	}
	ap, _ := flv.NewAudioPackager()
	vp, _ := flv.NewVideoPackager()
	limit := n/11 + 2
	for tags := 0; ; tags++ {
		if tags > limit {
			return stall("flv demuxer delivered %d tags from %d bytes of input", tags, n)
		}
		tt, size, _, err := d.ReadTagHeader()
		if err != nil {
			return "ok"
		}
		tag, err := d.ReadTag(size)
		if err != nil {
			return "ok"
		}
		switch tt {
		case flv.TagTypeAudio:
			ap.Decode(tag)
		case flv.TagTypeVideo:
			vp.Decode(tag)
		case flv.TagTypeScriptData:
			decAmf0Discovery(tag, 0)
		}
	}
}

func decFlvDemux(b []byte, arg int) string    { return flvDemux(bytes.NewReader(b), len(b)) }
func decFlvDemuxSeg(b []byte, arg int) string { return flvDemux(segStream(b), len(b)) }

func decFlvAudio(b []byte, arg int) string {
	p, _ := flv.NewAudioPackager()
	f, err := p.Decode(b)
	if err == nil && f == nil {
		return stall("audio Decode returned neither a frame nor an error")
	}
	return okIf(err == nil)
}

func decFlvVideo(b []byte, arg int) string {
	p, _ := flv.NewVideoPackager()
	f, err := p.Decode(b)
	if err == nil && f == nil {
		return stall("video Decode returned neither a frame nor an error")
	}
	return okIf(err == nil)
}

// ---------------------------------------------------------------- aac

func decAdts(b []byte, arg int) string {
	a, err := aac.NewADTS()
	if err != nil {
		return "error"
	}
	left := b
	limit := len(b)/7 + 2
	for frames := 0; len(left) > 0; frames++ {
		if frames > limit {
			return stall("ADTS Decode delivered %d frames from %d bytes of input", frames, len(b))
		}
		_, l, err := a.Decode(left)
		if err != nil {
			return "error"
		}
		if len(l) >= len(left) {
			return stall("ADTS Decode succeeded without consuming input (%d bytes left before, %d after)", len(left), len(l))
		}
		left = l
	}
	return okIf(len(b) > 0)
}

func decSetASC(b []byte, arg int) string {
	a, _ := aac.NewADTS()
	return okIf(a.SetASC(b) == nil)
}

func decASC(b []byte, arg int) string {
	var c aac.AudioSpecificConfig
	return okIf(c.UnmarshalBinary(b) == nil)
}

// ---------------------------------------------------------------- avc

func decAvcRecord(b []byte, arg int) string {
	return okIf(avc.NewAVCDecoderConfigurationRecord().UnmarshalBinary(b) == nil)
}

func avcSample(lsm1 int) func([]byte, int) string {
	return func(b []byte, arg int) string {
		k := lsm1
		if k < 0 {
			k = arg & 3
		}
		return okIf(avc.NewAVCSample(uint8(k)).UnmarshalBinary(b) == nil)
	}
}

func decAvcNalu(b []byte, arg int) string { return okIf(avc.NewNALU().UnmarshalBinary(b) == nil) }
func decAvcNaluHeader(b []byte, arg int) string {
	return okIf(avc.NewNALUHeader().UnmarshalBinary(b) == nil)
}

// ---------------------------------------------------------------- websocket

func wsRead(conn net.Conn, n int, server, compress, nextReader bool) string {
	c := websocket.VerifNewConn(conn, server, 0, 0, compress)
	// a data message takes at least two bytes of input
	limit := n/2 + 4
	for msgs := 0; ; msgs++ {
		if msgs > limit {
			return stall("websocket reader delivered %d messages from %d bytes of input", msgs, n)
		}
		var err error
		if nextReader {
			var r io.Reader
			if _, r, err = c.NextReader(); err == nil {
				_, err = io.Copy(ioutil.Discard, r)
			}
		} else {
			_, _, err = c.ReadMessage()
		}
		if err != nil {
			return okIf(msgs > 0)
		}
	}
}

func wsDec(server, compress, nextReader, seg bool) func([]byte, int) string {
	return func(b []byte, arg int) string {
		var conn net.Conn = newMemConn(b)
		if seg {
			conn = &segConn{memConn: newMemConn(nil), s: segStream(b)}
		}
		return wsRead(conn, len(b), server, compress, nextReader)
	}
}

// ---------------------------------------------------------------- jose

func decJws(b []byte, arg int) string {
	obj, err := jose.ParseSigned(string(b))
	if err != nil {
		return "error"
	}
	if obj == nil {
		return stall("ParseSigned returned neither an object nor an error")
	}
	for _, k := range theKeys().verify {
		obj.Verify(k)
	}
	return "ok"
}

func decJwe(b []byte, arg int) string {
	obj, err := jose.ParseEncrypted(string(b))
	if err != nil {
		return "error"
	}
	if obj == nil {
		return stall("ParseEncrypted returned neither an object nor an error")
	}
	for _, k := range theKeys().decrypt {
		obj.Decrypt(k)
	}
	return "ok"
}

// decJweForged: objects of the harness' own JWE writer; "ok" = some key decrypted it to the writer's payload.
func decJweForged(b []byte, arg int) string {
	obj, err := jose.ParseEncrypted(string(b))
	if err != nil {
		return "error"
	}
	if obj == nil {
		return stall("ParseEncrypted returned neither an object nor an error")
	}
	ret := "error"
	for _, k := range theKeys().decrypt {
		if p, err := obj.Decrypt(k); err == nil && bytes.Equal(p, forgePayload) {
			ret = "ok"
		}
	}
	return ret
}

func decJwk(b []byte, arg int) string {
	var k jose.JsonWebKey
	return okIf(k.UnmarshalJSON(b) == nil)
}

// ---------------------------------------------------------------- ocsp

func decOcspResp(issuer func() *x509.Certificate, forCert bool) func([]byte, int) string {
	return func(b []byte, arg int) string {
		var is *x509.Certificate
		if issuer != nil {
			is = issuer()
		}
		var err error
		if forCert {
			_, err = ocsp.ParseResponseForCert(b, theOcsp().leaf, is)
		} else {
			_, err = ocsp.ParseResponse(b, is)
		}
		return okIf(err == nil)
	}
}

func decOcspReq(b []byte, arg int) string {
	_, err := ocsp.ParseRequest(b)
	return okIf(err == nil)
}

// ---------------------------------------------------------------- json+

func decJsonUnmarshal(b []byte, arg int) string {
	var v interface{}
	return okIf(ojson.Unmarshal(bytes.NewReader(b), &v) == nil)
}

func decJsonUnmarshalSeg(b []byte, arg int) string {
	var v interface{}
	return okIf(ojson.Unmarshal(segStream(b), &v) == nil)
}

// countingReader fails the case when a reader keeps delivering bytes beyond what the input can hold
func readAllBounded(r io.Reader, n int) string {
	buf := make([]byte, 4096)
	total, empty := 0, 0
	for {
		k, err := r.Read(buf)
		total += k
		if err != nil {
			return okIf(err == io.EOF)
		}
		if k == 0 {
			if empty++; empty > n+16 {
				return stall("the comment reader returned (0, nil) %d times in a row", empty)
			}
		} else {
			empty = 0
		}
		if total > n+16 {
			return stall("the comment reader delivered %d bytes from %d bytes of input", total, n)
		}
	}
}

func decJsonReader(b []byte, arg int) string {
	return readAllBounded(ojson.NewJsonPlusReader(bytes.NewReader(b)), len(b))
}

func decJsonReaderSeg(b []byte, arg int) string {
	return readAllBounded(ojson.NewJsonPlusReader(segStream(b)), len(b))
}

// ---------------------------------------------------------------- the table

var decodersOf = map[string][]*decoder{}
var decoderByName = map[string]*decoder{}

func reg(format string, name string, run func([]byte, int) string) {
	d := &decoder{name: name, run: run}
	decodersOf[format] = append(decodersOf[format], d)
	if _, dup := decoderByName[name]; dup {
		panic("duplicate decoder " + name)
	}
	decoderByName[name] = d
}

func init() {
	reg("rtmpchunk", "rtmp.read", decRtmpRead)
	reg("rtmpchunk", "rtmp.read.seg", decRtmpReadSeg)
	reg("rtmpmsg", "rtmp.msg", func(b []byte, arg int) string { return rtmpDecodeAs(b, arg) })
	for _, t := range rtmpMsgTypes {
		t := t
		reg("rtmpmsg", fmt.Sprintf("rtmp.msg.t%d", t), func(b []byte, arg int) string { return rtmpDecodeAs(b, t) })
	}
	reg("amf0", "amf0.discovery", decAmf0Discovery)
	reg("amf0", "amf0.Number", amf0Type(func() amf0.Amf0 { return amf0.NewNumber(0) }))
	reg("amf0", "amf0.Boolean", amf0Type(func() amf0.Amf0 { return amf0.NewBoolean(false) }))
	reg("amf0", "amf0.String", amf0Type(func() amf0.Amf0 { return amf0.NewString("") }))
	reg("amf0", "amf0.Object", amf0Type(func() amf0.Amf0 { return amf0.NewObject() }))
	reg("amf0", "amf0.EcmaArray", amf0Type(func() amf0.Amf0 { return amf0.NewEcmaArray() }))
	reg("amf0", "amf0.StrictArray", amf0Type(func() amf0.Amf0 { return amf0.NewStrictArray() }))
	reg("amf0", "amf0.Null", amf0Type(func() amf0.Amf0 { return amf0.NewNull() }))
	reg("amf0", "amf0.Undefined", amf0Type(func() amf0.Amf0 { return amf0.NewUndefined() }))
	reg("flv", "flv.demux", decFlvDemux)
	reg("flv", "flv.demux.seg", decFlvDemuxSeg)
	reg("flvtag", "flv.audio", decFlvAudio)
	reg("flvtag", "flv.video", decFlvVideo)
	reg("aac", "aac.adts", decAdts)
	reg("aac", "aac.setasc", decSetASC)
	reg("aac", "aac.asc", decASC)
	reg("avc", "avc.record", decAvcRecord)
	reg("avc", "avc.sample", avcSample(-1))
	for k := 0; k < 4; k++ {
		reg("avc", fmt.Sprintf("avc.sample.l%d", k+1), avcSample(k))
	}
	reg("avc", "avc.nalu", decAvcNalu)
	reg("avc", "avc.naluheader", decAvcNaluHeader)
	for _, role := range []string{"client", "server"} {
		for _, comp := range []string{"nc", "c"} {
			server, compress := role == "server", comp == "c"
			reg("ws", "ws."+role+"."+comp, wsDec(server, compress, false, false))
			reg("ws", "ws."+role+"."+comp+".nextreader", wsDec(server, compress, true, true))
		}
	}
	reg("jws", "jose.jws", decJws)
	reg("jwe", "jose.jwe", decJwe)
	reg("jweforge", "jose.jwe.forged", decJweForged)
	reg("jwk", "jose.jwk", decJwk)
	reg("ocspresp", "ocsp.response", decOcspResp(nil, false))
	reg("ocspresp", "ocsp.response.issuer", decOcspResp(func() *x509.Certificate { return theOcsp().issuer }, false))
	reg("ocspresp", "ocsp.response.vecissuer", decOcspResp(func() *x509.Certificate { return theOcsp().vecIssuer }, false))
	reg("ocspresp", "ocsp.response.forcert", decOcspResp(func() *x509.Certificate { return theOcsp().issuer }, true))
	reg("ocspreq", "ocsp.request", decOcspReq)
	reg("jsonplus", "jsonplus.unmarshal", decJsonUnmarshal)
	reg("jsonplus", "jsonplus.unmarshal.seg", decJsonUnmarshalSeg)
	reg("jsonplus", "jsonplus.reader", decJsonReader)
	reg("jsonplus", "jsonplus.reader.seg", decJsonReaderSeg)
}
