package main

// Forge: the hostile sender holds the content encryption key (spec/untrusted/Untrusted.tla, format "jweforge").
//
// A JWE writer of the harness' own - AES-CBC + HMAC-SHA2 per RFC 7518 5.2.2.1, AES-GCM, AES key wrap per RFC 3394,
// AES-GCM key wrap per RFC 7518 4.7, RSAES (crypto/rsa), ECDH-ES with the Concat KDF per RFC 7518 4.6.2 - none of it
// the library's code.  It produces objects that are correctly authenticated but whose inner content is hostile:
// everything the library does after the tag check (unpadding, decompression, use of the unwrapped key) sees it.
// The unmutated seed is an honest object of this writer, which the library must decrypt to the payload.

import (
	"bytes"
	"compress/flate"
	"crypto/aes"
	"crypto/cipher"
	"crypto/ecdsa"
	"crypto/hmac"
	"crypto/rand"
	"crypto/rsa"
	"crypto/sha1"
	"crypto/sha256"
	"crypto/sha512"
	"encoding/binary"
	"encoding/json"
	"fmt"
	"hash"
	"math/big"
	"strings"

	"verifharness/rp"
)

var forgePayload = []byte(`{"forged":"by a sender that holds the content encryption key"}`)

func pattern(n, salt int) []byte {
	b := make([]byte, n)
	for i := range b {
		b[i] = byte(i*13 + salt*29 + 7)
	}
	return b
}

// ---- RFC 3394 key wrap (works for any number n >= 1 of 64 bit blocks)
func keyWrap3394(kek, cek []byte) []byte {
	if len(cek)%8 != 0 || len(cek) == 0 {
		rp.Bug("key wrap of %d bytes", len(cek))
	}
	block, err := aes.NewCipher(kek)
	must(err, "aes")
	n := len(cek) / 8
	r := make([][]byte, n)
	for i := range r {
		r[i] = append([]byte{}, cek[i*8:(i+1)*8]...)
	}
	a := bytes.Repeat([]byte{0xA6}, 8)
	buf := make([]byte, 16)
	for j := 0; j < 6; j++ {
		for i := 0; i < n; i++ {
			copy(buf, a)
			copy(buf[8:], r[i])
			block.Encrypt(buf, buf)
			t := uint64(n*j + i + 1)
			var tb [8]byte
			binary.BigEndian.PutUint64(tb[:], t)
			for k := 0; k < 8; k++ {
				a[k] = buf[k] ^ tb[k]
			}
			copy(r[i], buf[8:])
		}
	}
	out := append([]byte{}, a...)
	for i := range r {
		out = append(out, r[i]...)
	}
	return out
}

// ---- Concat KDF (NIST SP 800-56A 5.8.1 with SHA-256, RFC 7518 4.6.2)
func concatKDF(z []byte, alg string, apu, apv []byte, size int) []byte {
	lp := func(b []byte) []byte {
		out := make([]byte, 4, 4+len(b))
		binary.BigEndian.PutUint32(out, uint32(len(b)))
		return append(out, b...)
	}
	var pub [4]byte
	binary.BigEndian.PutUint32(pub[:], uint32(size*8))
	info := cat(lp([]byte(alg)), lp(apu), lp(apv), pub[:])
	var out []byte
	for i := uint32(1); len(out) < size; i++ {
		h := sha256.New()
		var c [4]byte
		binary.BigEndian.PutUint32(c[:], i)
		h.Write(c[:])
		h.Write(z)
		h.Write(info)
		out = h.Sum(out)
	}
	return out[:size]
}

// ---- content encryption
type sealed struct{ iv, ct, tag []byte }

func cbcParams(enc string) (half int, h func() hash.Hash) {
	switch enc {
	case "A128CBC-HS256":
		return 16, sha256.New
	case "A192CBC-HS384":
		return 24, sha512.New384
	case "A256CBC-HS512":
		return 32, sha512.New
	}
	return 0, nil
}

func isCBC(enc string) bool { return strings.Contains(enc, "CBC") }

// cbcTag is the authentication tag of RFC 7518 5.2.2.1 over AAD || IV || E || AL.
func cbcTag(enc string, cek, aad, iv, ct []byte) []byte {
	half, h := cbcParams(enc)
	m := hmac.New(h, cek[:half])
	m.Write(aad)
	m.Write(iv)
	m.Write(ct)
	var al [8]byte
	binary.BigEndian.PutUint64(al[:], uint64(len(aad))*8)
	m.Write(al[:])
	return m.Sum(nil)[:half]
}

// cbcBlocks encrypts whole blocks as they are (the caller decides what the padding looks like).
func cbcBlocks(enc string, cek, iv16, plain []byte) []byte {
	half, _ := cbcParams(enc)
	block, err := aes.NewCipher(cek[half:])
	must(err, "aes")
	out := make([]byte, len(plain))
	cipher.NewCBCEncrypter(block, iv16).CryptBlocks(out, plain)
	return out
}

func pkcs7(p []byte) []byte {
	n := 16 - len(p)%16
	return append(append([]byte{}, p...), bytes.Repeat([]byte{byte(n)}, n)...)
}

// sealContent encrypts the plaintext honestly, or - for the hostile classes of the parts "ct" and "iv" - writes
// a ciphertext body / an iv the honest algorithm never produces, with the correct tag over it.  ok=false: the
// class does not exist for this content encryption.
func sealContent(enc string, cek, aad, plain []byte, part, cls string) (s sealed, ok bool) {
	iv16 := pattern(16, 3)
	if isCBC(enc) {
		s.iv = iv16
		body := pkcs7(plain)
		raw := false // raw: the body below is the final ciphertext
		if part == "ct" {
			one := pattern(16, 5)
			switch cls {
			case "empty":
				body = nil
			case "notblock":
				s.ct, raw = pattern(17, 6), true
			case "pad0":
				one[15] = 0
				body = one
			case "pad17":
				one[15] = 17
				body = one
			case "pad255":
				one[15] = 255
				body = one
			case "padmix":
				one[15], one[14], one[13] = 3, 3, 9
				body = one
			case "pad16":
				body = bytes.Repeat([]byte{16}, 16)
			default:
				return s, false
			}
		}
		if !raw {
			s.ct = cbcBlocks(enc, cek, iv16, body)
		}
		if part == "iv" {
			switch cls {
			case "0":
				s.iv = []byte{}
			case "15":
				s.iv = iv16[:15]
			case "17":
				s.iv = append(append([]byte{}, iv16...), 1)
			default:
				return s, false
			}
		}
		s.tag = cbcTag(enc, cek, aad, s.iv, s.ct)
		return s, true
	}
	// AES-GCM
	block, err := aes.NewCipher(cek)
	must(err, "aes")
	nonce := 12
	if part == "iv" {
		switch cls {
		case "11":
			nonce = 11
		case "13":
			nonce = 13
		case "0":
			// GCM is not defined for an empty nonce: the tag cannot be right, the object is still well formed
			nonce = 0
		default:
			return s, false
		}
	}
	if part == "ct" {
		switch cls {
		case "empty":
			plain = nil
		case "one":
			plain = []byte{0x7b}
		default:
			return s, false
		}
	}
	if nonce == 0 {
		g, err := cipher.NewGCM(block)
		must(err, "gcm")
		out := g.Seal(nil, pattern(12, 4), plain, aad)
		return sealed{iv: []byte{}, ct: out[:len(out)-16], tag: out[len(out)-16:]}, true
	}
	g, err := cipher.NewGCMWithNonceSize(block, nonce)
	must(err, "gcm")
	s.iv = pattern(nonce, 4)
	out := g.Seal(nil, s.iv, plain, aad)
	s.ct, s.tag = out[:len(out)-16], out[len(out)-16:]
	return s, true
}

func deflated(p []byte) []byte {
	var b bytes.Buffer
	w, _ := flate.NewWriter(&b, flate.BestCompression)
	w.Write(p)
	w.Close()
	return b.Bytes()
}

func kekSizeOf(alg string) int {
	switch {
	case strings.Contains(alg, "A128"):
		return 16
	case strings.Contains(alg, "A192"):
		return 24
	}
	return 32
}

// forgedJwe builds the object of a seed (alg, enc, form) under a Forge operator (op.O == "" : the honest object).
// ok=false: the operator does not apply to this seed.
func forgedJwe(sd seedRec, op symOp) (string, bool) {
	k := theKeys()
	size := encKeySize(sd.Enc)
	hdr := []member{{"alg", jsonString(sd.Alg)}, {"enc", jsonString(sd.Enc)}}
	cek := pattern(size, 11)
	plain := forgePayload

	// what the content key wraps to: the CEK, or a key of the wrong size (part "cek")
	wrapped := cek
	if op.P == "cek" {
		var n int
		fmt.Sscan(op.V, &n)
		if n == size || sd.Alg == "dir" || sd.Alg == "ECDH-ES" {
			return "", false
		}
		if (strings.HasSuffix(sd.Alg, "KW") && !strings.Contains(sd.Alg, "GCMKW")) && (n%8 != 0 || n == 0) {
			return "", false // RFC 3394 wraps whole 64 bit blocks only
		}
		wrapped = pattern(n, 12)
	}
	if op.P == "zip" {
		hdr = append(hdr, member{"zip", jsonString("DEF")})
		switch op.V {
		case "notdeflate":
			plain = pattern(61, 13)
		case "truncated":
			d := deflated(bytes.Repeat(forgePayload, 20))
			plain = d[:len(d)/2]
		case "empty":
			plain = []byte{}
		case "bomb64k":
			plain = deflated(make([]byte, 64<<10))
		case "bomb1m":
			plain = deflated(make([]byte, 1<<20))
		default:
			rp.Bug("unknown zip class %q", op.V)
		}
	}

	// ---- key management
	var encryptedKey []byte
	switch {
	case sd.Alg == "dir":
		cek = k.oct[size]
	case sd.Alg == "A128KW" || sd.Alg == "A192KW" || sd.Alg == "A256KW":
		encryptedKey = keyWrap3394(k.oct[kekSizeOf(sd.Alg)], wrapped)
	case strings.HasSuffix(sd.Alg, "GCMKW"):
		block, err := aes.NewCipher(k.oct[kekSizeOf(sd.Alg)])
		must(err, "aes")
		g, err := cipher.NewGCM(block)
		must(err, "gcm")
		iv := pattern(12, 14)
		out := g.Seal(nil, iv, wrapped, nil)
		encryptedKey = out[:len(out)-16]
		hdr = append(hdr, member{"iv", jsonString(b64.EncodeToString(iv))}, member{"tag", jsonString(b64.EncodeToString(out[len(out)-16:]))})
	case sd.Alg == "RSA1_5":
		var err error
		encryptedKey, err = rsa.EncryptPKCS1v15(rand.Reader, &k.rsa.PublicKey, wrapped)
		must(err, "rsa")
	case sd.Alg == "RSA-OAEP":
		var err error
		encryptedKey, err = rsa.EncryptOAEP(sha1.New(), rand.Reader, &k.rsa.PublicKey, wrapped, nil)
		must(err, "rsa")
	case sd.Alg == "RSA-OAEP-256":
		var err error
		encryptedKey, err = rsa.EncryptOAEP(sha256.New(), rand.Reader, &k.rsa.PublicKey, wrapped, nil)
		must(err, "rsa")
	case strings.HasPrefix(sd.Alg, "ECDH-ES"):
		rcpt := k.ec["P-256"]
		eph := ecFromScalar(rcpt.Curve, new(big.Int).SetBytes(pattern(31, 15)))
		zx, _ := rcpt.Curve.ScalarMult(rcpt.PublicKey.X, rcpt.PublicKey.Y, eph.D.Bytes())
		z := zx.Bytes() // the library feeds the unpadded octets of Z to the KDF
		hdr = append(hdr, member{"epk", json.RawMessage(ecPubJwk(&eph.PublicKey))})
		if sd.Alg == "ECDH-ES" {
			cek = concatKDF(z, sd.Enc, nil, nil, size)
		} else {
			kek := concatKDF(z, sd.Alg, nil, nil, kekSizeOf(sd.Alg))
			if len(wrapped)%8 != 0 || len(wrapped) == 0 {
				return "", false
			}
			encryptedKey = keyWrap3394(kek, wrapped)
		}
	default:
		rp.Bug("forge: unknown key management %q", sd.Alg)
	}

	protected := b64.EncodeToString(renderObject(hdr))
	aad := []byte(protected)
	part, cls := "", ""
	if op.P == "ct" || op.P == "iv" {
		part, cls = op.P, op.V
	}
	contentKey := cek
	if op.P == "cek" {
		// whatever the recipient does with a key of the wrong size, the content is sealed under the right one
		contentKey = pattern(size, 16)
	}
	s, ok := sealContent(sd.Enc, contentKey, aad, plain, part, cls)
	if !ok {
		return "", false
	}
	e := b64.EncodeToString
	if sd.Form == "compact" {
		return strings.Join([]string{protected, e(encryptedKey), e(s.iv), e(s.ct), e(s.tag)}, "."), true
	}
	ms := []member{{"protected", jsonString(protected)}}
	if encryptedKey != nil {
		ms = append(ms, member{"encrypted_key", jsonString(e(encryptedKey))})
	}
	ms = append(ms, member{"iv", jsonString(e(s.iv))}, member{"ciphertext", jsonString(e(s.ct))}, member{"tag", jsonString(e(s.tag))})
	return string(renderObject(ms)), true
}

func jsonString(s string) json.RawMessage { b, _ := json.Marshal(s); return b }

func ecPubJwk(p *ecdsa.PublicKey) string {
	sz := (p.Curve.Params().BitSize + 7) / 8
	pad := func(v *big.Int) string {
		b := v.Bytes()
		return b64.EncodeToString(append(make([]byte, sz-len(b)), b...))
	}
	return fmt.Sprintf(`{"kty":"EC","crv":"P-256","x":%q,"y":%q}`, pad(p.X), pad(p.Y))
}

// forgeSeed returns the (cached: RSA encryption is randomised) object of a jweforge case.
func forgeSeed(sd seedRec, op symOp) (string, bool) {
	key := fmt.Sprintf("forge/%s/%s/%s/%s/%s", sd.Alg, sd.Enc, sd.Form, op.P, op.V)
	na := false
	v := seeds.get(key, func() string {
		s, ok := forgedJwe(sd, op)
		if !ok {
			na = true
			return "\x00n/a"
		}
		return s
	})
	if na || v == "\x00n/a" {
		return "", false
	}
	return v, true
}
