package main

// The linear-time clause: every scaling family of the specification is decoded at doubling sizes; the time per
// call (minimum of three samples, each sample long enough to be measurable) must not grow faster than 3.2x per
// doubling over the last three doublings (more than 3.2^3 over them, each of them clearly superlinear) - on the
// CPU clock of the measuring thread AND on the wall clock (a quadratic decoder shows 4.0 per doubling on both).
// Families run one after the other, never concurrently with anything else in this process.

import (
	"bytes"
	"encoding/base64"
	"encoding/json"
	"fmt"
	"math"
	"math/rand"
	"runtime"
	"runtime/debug"
	"sort"
	"strings"
	"syscall"
	"time"
	"unsafe"

	"github.com/ossrs/go-oryx-lib/https/jose"
	"verifharness/rp"
)

type scalePoint struct {
	Bytes int             `json:"bytes"`
	Head  json.RawMessage `json:"head"`
	Item  json.RawMessage `json:"item"`
	Reps  int             `json:"reps"`
	Tail  json.RawMessage `json:"tail"`
	Post  json.RawMessage `json:"post"`
}

type scaleCase struct {
	Name string       `json:"name"`
	Fmt  string       `json:"fmt"`
	Dec  string       `json:"dec"`
	Arg  int          `json:"arg"`
	Pts  []scalePoint `json:"pts"`
}

var nSamples = 3

func cpuNow() time.Duration {
	var ts syscall.Timespec
	const clockThreadCPUTimeID = 3 // the measuring goroutine is locked to its thread: GC workers are not counted
	if _, _, e := syscall.Syscall(syscall.SYS_CLOCK_GETTIME, clockThreadCPUTimeID, uintptr(unsafe.Pointer(&ts)), 0); e != 0 {
		rp.Bug("clock_gettime(CLOCK_THREAD_CPUTIME_ID): %v", e)
	}
	return time.Duration(ts.Sec)*time.Second + time.Duration(ts.Nsec)
}

const (
	growthLimit  = 3.2                    // per doubling
	sampleTarget = 2 * time.Millisecond   // a sample (k calls) lasts at least this long
	perCallFloor = 20 * time.Microsecond  // pairs whose smaller point is below the floor do not count
	slowCall     = 50 * time.Millisecond  // calls slower than this are sampled twice, not five times
	runCap       = 300 * time.Millisecond // no larger input once one call takes this long
)

type measured struct {
	Bytes       int     `json:"bytes"`
	WallUs      float64 `json:"wall_us"`
	CPUUs       float64 `json:"cpu_us"`
	ExpWall     float64 `json:"exp_wall,omitempty"` // growth exponent against the previous point (1 = linear, 2 = quadratic)
	ExpCPU      float64 `json:"exp_cpu,omitempty"`
	Calls       int     `json:"calls"`
	Ret         string  `json:"ret"`
	Excess      bool    `json:"excess,omitempty"`
	Measured    bool    `json:"measurable"`
	Unconfirmed bool    `json:"unconfirmed,omitempty"`
	Refined     bool    `json:"refined,omitempty"`
}

// measure returns the time of one call: the minimum over nSamples samples of k calls each (k such that a sample lasts
// at least sampleTarget); calls slower than slowCall are sampled twice.
func measure(d *decoder, b []byte, arg int, mult int) (wall, cpu time.Duration, calls int, ret string, pan interface{}, stack string) {
	o := callDecoder(d, b, arg)
	if o.pan != nil {
		return 0, 0, 1, "", o.pan, o.stack
	}
	ret = o.ret
	wall, cpu = time.Duration(math.MaxInt64), time.Duration(math.MaxInt64)
	sample := func(k int) time.Duration {
		runtime.GC()
		c0, w0 := cpuNow(), time.Now()
		for i := 0; i < k; i++ {
			callDecoder(d, b, arg)
		}
		w, c := time.Since(w0)/time.Duration(k), (cpuNow()-c0)/time.Duration(k)
		calls += k
		if w < wall {
			wall = w
		}
		if c < cpu {
			cpu = c
		}
		return w
	}
	calls = 1
	one := sample(1)
	k, n := 1, nSamples*mult
	if one < sampleTarget {
		k = int(sampleTarget/(one+1)) + 1
		if k > 20000 {
			k = 20000
		}
	}
	if one > slowCall {
		n = mult
	}
	for s := 0; s < n; s++ {
		sample(k)
	}
	return
}

func buildLd(c *rp.Ctx, p scalePoint) []byte {
	head, item, tail, post := mustLD(p.Head, c.Seed), mustLD(p.Item, c.Seed), mustLD(p.Tail, c.Seed), mustLD(p.Post, c.Seed)
	out := make([]byte, 0, len(head)+len(tail)+p.Reps*(len(item)+len(post)))
	out = append(out, head...)
	for i := 0; i < p.Reps; i++ {
		out = append(out, item...)
	}
	out = append(out, tail...)
	for i := 0; i < p.Reps; i++ {
		out = append(out, post...)
	}
	return out
}

func repeatTo(unit string, n int) string {
	k := n / len(unit)
	if k < 1 {
		k = 1
	}
	return strings.Repeat(unit, k)
}

// symFamily builds the input of a symbolic family for a byte size and names the decoders to time.
func symFamily(c *rp.Ctx, name string, n int) (input []byte, decs []string) {
	k := theKeys()
	jp := []string{"jsonplus.unmarshal", "jsonplus.reader"}
	rnd := func(n int) []byte {
		b := make([]byte, n)
		rand.New(rand.NewSource(int64(c.Seed)*1000003 + int64(n))).Read(b)
		return b
	}
	switch name {
	case "jsonplus.blockcomments":
		return []byte("[" + repeatTo("/*c*/1,", n) + "1]"), jp
	case "jsonplus.linecomments":
		return []byte("[\n" + repeatTo("1, // c\n", n) + "1]"), jp
	case "jsonplus.onestring":
		return []byte(`"` + strings.Repeat("x", n) + `"`), jp
	case "jsonplus.strings":
		return []byte("[" + repeatTo(`"a",`, n) + `"a"]`), jp
	case "jsonplus.plain":
		return []byte("[" + repeatTo("1,", n) + "1]"), jp
	case "jsonplus.longshort":
		return []byte(`["` + strings.Repeat("x", n/2) + `"` + repeatTo(`,"a"`, n/2) + "]"), jp
	case "jsonplus.onecomment":
		return []byte("/*" + strings.Repeat("x", n) + "*/1"), jp
	case "jsonplus.escapes":
		return []byte(`"` + repeatTo(`\"`, n) + `"`), jp
	case "jws.payload":
		s, err := jose.NewSigner(jose.HS256, k.oct[32])
		must(err, name)
		obj, err := s.Sign(rnd(n * 3 / 4))
		must(err, name)
		out, err := obj.CompactSerialize()
		must(err, name)
		return []byte(out), []string{"jose.jws"}
	case "jws.signatures":
		one := `{"protected":"eyJhbGciOiJIUzI1NiJ9","signature":"AAECAwQFBgcICQoLDA0ODxAREhMUFRYXGBkaGxwdHh8"}`
		return []byte(`{"payload":"aGVsbG8","signatures":[` + repeatTo(one+",", n) + one + `]}`), []string{"jose.jws"}
	case "jwe.ciphertext", "jwe.zip":
		e, err := jose.NewEncrypter(jose.DIRECT, jose.A128GCM, k.oct[16])
		must(err, name)
		if name == "jwe.zip" {
			e.SetCompression(jose.DEFLATE)
		}
		obj, err := e.Encrypt(rnd(n * 3 / 4))
		must(err, name)
		out, err := obj.CompactSerialize()
		must(err, name)
		return []byte(out), []string{"jose.jwe"}
	case "jwe.recipients":
		one := `{"header":{"alg":"A128KW"},"encrypted_key":"` + base64.RawURLEncoding.EncodeToString(make([]byte, 24)) + `"}`
		return []byte(`{"protected":"eyJlbmMiOiJBMTI4R0NNIn0","recipients":[` + repeatTo(one+",", n) + one +
			`],"iv":"AAECAwQFBgcICQoL","ciphertext":"AAEC","tag":"AAECAwQFBgcICQoLDA0ODw"}`), []string{"jose.jwe"}
	case "jwk.x5c":
		cert := `"` + base64.StdEncoding.EncodeToString(theOcsp().leaf.Raw) + `"`
		return []byte(`{"kty":"oct","k":"AAEC","x5c":[` + repeatTo(cert+",", n) + cert + `]}`), []string{"jose.jwk"}
	case "ocsp.responses":
		return buildResponse(theOcsp(), k.rsa, builtOpts{nresp: n/110 + 1}), []string{"ocsp.response", "ocsp.response.forcert"}
	case "ocsp.extensions":
		return buildResponse(theOcsp(), k.rsa, builtOpts{nexts: n/26 + 1}), []string{"ocsp.response"}
	case "ocsp.requests":
		one := der(0x30, der(0x30, der(0x30, der(0x06, oidSHA1), der(0x05)), der(0x04, make([]byte, 20)), der(0x04, make([]byte, 20)), der(0x02, []byte{1, 2, 3})))
		return der(0x30, der(0x30, der(0x30, bytes.Repeat(one, n/len(one)+1)))), []string{"ocsp.request"}
	}
	rp.Bug("unknown scaling family %q", name)
	return nil, nil
}

// annotate computes the growth exponents of point j against point j-1.
func annotate(s []measured, j int) {
	if j < 1 {
		return
	}
	prev, m := s[j-1], &s[j]
	floor := float64(perCallFloor) / 1e3
	if prev.Bytes < m.Bytes && prev.WallUs >= floor && prev.CPUUs >= floor {
		ls := math.Log2(float64(m.Bytes) / float64(prev.Bytes))
		m.ExpWall = math.Log2(m.WallUs/prev.WallUs) / ls
		m.ExpCPU = math.Log2(m.CPUUs/prev.CPUUs) / ls
		m.Measured = true
	}
}

// span is the number of consecutive doublings an alarm needs.  Two would do against scheduler noise, but decoders
// that recurse once per nesting level show a genuine exponent of 1.4-1.5 between 4 KiB and 64 KiB on a linear
// implementation (the stack outgrows the caches), too close to 3.2x = 2^1.68 over two doublings only.
const span = 3

var alarmSum = float64(span) * math.Log2(growthLimit)

// spanSum is the growth exponent summed over the span doublings that end at point j, per clock (0 if not measurable).
func spanSum(s []measured, j int) (wall, cpu float64) {
	if j < span {
		return 0, 0
	}
	for k := j - span + 1; k <= j; k++ {
		if !s[k].Measured {
			return 0, 0
		}
		wall += s[k].ExpWall
		cpu += s[k].ExpCPU
	}
	return
}

// excessAt decides the alarm for the span doublings that end at point j: the time grew by more than 3.2^span over
// them (the product does not depend on the noise of the points in between), each doubling is clearly superlinear,
// and that on the CPU clock and on the wall clock.
func excessAt(s []measured, j int) bool {
	if j < span {
		return false
	}
	for k := j - span + 1; k <= j; k++ {
		if !s[k].Measured || s[k].ExpWall <= 1.3 || s[k].ExpCPU <= 1.3 {
			return false
		}
	}
	w, c := spanSum(s, j)
	return w > alarmSum && c > alarmSum
}

// candidateAt: worth a closer look (2^0.8 below the alarm on either clock).
func candidateAt(s []measured, j int) bool {
	w, c := spanSum(s, j)
	return w > alarmSum-0.8 && c > alarmSum-0.8
}

func deviationOfFamily(name string) string {
	switch {
	case strings.HasPrefix(name, "amf0.nest."):
		return "C07/amf0-nested-quadratic"
	case name == "jsonplus.longshort":
		return "C07/jsonplus-rescan-quadratic"
	}
	return ""
}

func scaleBatch(c *rp.Ctx, raws []json.RawMessage) []rp.Result {
	seeds.load("")
	theKeys()
	theOcsp()
	if c.Tier == "thorough" {
		nSamples = 5
	}
	defer debug.SetGCPercent(debug.SetGCPercent(-1)) // no collector while a sample runs (it is run before every sample)
	report := map[string]interface{}{}
	elapsed := map[string]int64{}
	var calls int64
	// one worker, one family after the other; the watchdog of runParallel turns a measurement that never ends into a verdict
	res := runParallel(c, len(raws), 1, func(w *worker, i int) rp.Result {
		runtime.LockOSThread() // the CPU clock is the clock of this thread
		var cs scaleCase
		if err := json.Unmarshal(raws[i], &cs); err != nil {
			rp.Bug("case %d: %v", i, err)
		}
		famStart := time.Now()
		series := map[string][]measured{}
		inputs := map[string][][]byte{}
		result := rp.Result{I: i, OK: true, Nontriv: true}
		timed := func(d *decoder, in []byte, mult int) (time.Duration, time.Duration, int, string, interface{}, string) {
			w.begin(fmt.Sprintf("timing decoder %s on scaling family %s at %d bytes", d.name, cs.Name, len(in)))
			wall, cpu, k, ret, pan, stack := measure(d, in, cs.Arg, mult)
			w.end()
			calls += int64(k)
			return wall, cpu, k, ret, pan, stack
		}
	points:
		for _, p := range cs.Pts {
			var input []byte
			decs := []string{cs.Dec}
			if ldFormats[cs.Fmt] && cs.Dec != "" {
				input = buildLd(c, p)
			} else {
				input, decs = symFamily(c, cs.Name, p.Bytes)
			}
			for _, dn := range decs {
				d := decoderByName[dn]
				if d == nil {
					rp.Bug("family %s: unknown decoder %q", cs.Name, dn)
				}
				wall, cpu, k, ret, pan, stack := timed(d, input, 1)
				label := fmt.Sprintf("scaling family %s at %d bytes", cs.Name, len(input))
				if pan != nil {
					f := &failure{dec: dn, what: fmt.Sprintf("panic: %v", pan), deviation: classify(dn, pan, stack), input: input, stack: stack, label: label}
					result = f.result()
					break points
				}
				if strings.HasPrefix(ret, "stall") {
					f := &failure{dec: dn, what: ret, input: input, label: label}
					result = f.result()
					break points
				}
				m := measured{Bytes: len(input), WallUs: float64(wall) / 1e3, CPUUs: float64(cpu) / 1e3, Calls: k, Ret: ret}
				s := append(series[dn], m)
				annotate(s, len(s)-1)
				series[dn] = s
				inputs[dn] = append(inputs[dn], input)
				if wall > runCap {
					break points // larger inputs only take longer
				}
			}
		}
		// The verdict is taken on the last three doublings of every series, i.e. at the largest sizes (or where a call
		// got too slow to go on): a quadratic decoder is most quadratic there, while the band where a linear decoder's
		// working set outgrows the caches (exponent up to 1.6 between 4 and 64 KiB for deep recursion) lies behind.
		for _, dn := range sortedSeries(series) {
			s := series[dn]
			n := len(s)
			if !result.OK || !candidateAt(s, n-1) {
				continue
			}
			// A candidate: measure the four points again with more samples and keep the minima (noise only ever adds
			// time), once more if the outcome is still close to the limit.  The verdict is taken on the refined series.
			first := append([]measured{}, s[n-1-span:]...)
			d := decoderByName[dn]
			for round, mult := 0, 2; round < 2; round, mult = round+1, mult*2 {
				for j := n - 1 - span; j < n; j++ {
					w2, c2, k2, _, _, _ := timed(d, inputs[dn][j], mult)
					s[j].WallUs = math.Min(s[j].WallUs, float64(w2)/1e3)
					s[j].CPUUs = math.Min(s[j].CPUUs, float64(c2)/1e3)
					s[j].Calls += k2
					s[j].Refined = true
				}
				for j := n - span; j < n; j++ {
					annotate(s, j)
				}
				if w, c := spanSum(s, n-1); math.Abs(w-alarmSum) > 0.5 && math.Abs(c-alarmSum) > 0.5 {
					break
				}
			}
			if !excessAt(s, n-1) {
				s[n-1].Unconfirmed = true
				continue
			}
			s[n-1].Excess = true
			what := fmt.Sprintf("decoder %s, family %s: the time per call grows faster than %.1fx per doubling over the last three doublings: ", dn, cs.Name, growthLimit)
			for _, q := range s[n-1-span:] {
				what += fmt.Sprintf("%d bytes: %.0f us wall / %.0f us cpu (exponent %.2f / %.2f); ", q.Bytes, q.WallUs, q.CPUUs, q.ExpWall, q.ExpCPU)
			}
			what += "first measurement:"
			for _, q := range first {
				what += fmt.Sprintf(" %.0f us (%.2f)", q.WallUs, q.ExpWall)
			}
			result = rp.Result{I: i, OK: false, Nontriv: true, What: what, Deviation: deviationOfFamily(cs.Name), Observed: map[string]interface{}{"series": s, "first": first}}
		}
		report[cs.Name] = series
		elapsed[cs.Name] = time.Since(famStart).Milliseconds()
		result.I = i
		return result
	})
	st := newStats()
	st.write(c.Extra["statsdir"], "scale", map[string]interface{}{"families": report, "calls": calls, "elapsed_ms": elapsed})
	return res
}

func sortedSeries(m map[string][]measured) []string {
	var k []string
	for n := range m {
		k = append(k, n)
	}
	sort.Strings(k)
	return k
}

func maxInt(a, b int) int {
	if a > b {
		return a
	}
	return b
}
