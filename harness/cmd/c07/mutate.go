package main

// The mutation families: concretisation of the specification's cases to bytes, seeded random byte-level
// mutants of every case, and the batch replayer.

import (
	"encoding/json"
	"fmt"
	"math/rand"
	"strings"
	"sync/atomic"
	"time"

	"verifharness/rp"
)

// ---------------------------------------------------------------- JSON+ documents (comments the library strips)

var jsonPlusDocs = map[string]string{
	"plain":              `{"listen": 1935, "daemon": true, "vhosts": [{"name": "a", "hls": {"on": false}}, null, 1.5e3, "x"]}`,
	"line":               "// the head\n{\n  \"listen\": 1935, // the port\n  \"daemon\": true // last\n}\n// tail",
	"block":              "/* head */{\"a\":/* in */1,/**/\"b\"/* x */:[1,/* y\n z */2]}/* tail */",
	"mixed":              "{ // c1 /* not block\n \"a\": \"v\", /* c2 // not line */ \"b\": [1, 2], // c3 */\n \"c\": null }",
	"strings":            `{"url": "http://example.com/a//b", "re": "/* not a comment */", "q": "say \"hi\" // there", "bs": "c:\\\\", "e": ""}`,
	"squote":             "{\"a\": 'single // quoted', 'b': 1, \"c\": 'it\\'s'}",
	"escaped":            `{"a": "\\\"", "b": "\\\\\"//x", "c": "\u0022 /*", "d": "\\"}` + " // end",
	"nested":             `[[[[{"a": [[{"b": /* deep */ [1, [2, [3, // x` + "\n" + `[4]]]]}]]}]]]]`,
	"commentlike":        `{"a": "/*", "b": "*/", "c": "//", "d": "'", "e": '"'}`,
	"unterminated.str":   `{"a": "never closed // and /* more`,
	"unterminated.block": `{"a": 1} /* never closed " ' //`,
	"slashes":            `{"a": 1 / 2, "b": /x/, "c": * /, "d": "/"}/`,
}

// ---------------------------------------------------------------- seeds of the symbolic formats

func symSeed(format string, sd seedRec) []byte {
	switch format {
	case "jws":
		return []byte(jwsSeed(sd))
	case "jwe":
		return []byte(jweSeed(sd))
	case "jweforge":
		v, ok := forgeSeed(sd, symOp{})
		if !ok {
			rp.Bug("no honest object for the forge seed %s", sd)
		}
		return []byte(v)
	case "jwk":
		return []byte(jwkSeed(sd))
	case "ocspresp", "ocspreq":
		b, ok := theOcsp().seeds[format+"/"+sd.Name]
		if !ok {
			rp.Bug("unknown %s seed %q", format, sd.Name)
		}
		return b
	case "jsonplus":
		s, ok := jsonPlusDocs[sd.Name]
		if !ok {
			rp.Bug("unknown jsonplus seed %q", sd.Name)
		}
		return []byte(s)
	}
	rp.Bug("unknown symbolic format %q", format)
	return nil
}

// ---------------------------------------------------------------- symbolic byte-level operators

var byteTokens = map[string]string{"quote": `"`, "squote": "'", "bslash": `\`, "slash2": "//", "slashstar": "/*", "starslash": "*/",
	"nl": "\n", "dot": ".", "lbrace": "{", "rbrace": "}", "lbrack": "[", "rbrack": "]", "comma": ",", "colon": ":", "eq": "=", "sp": " "}

func lenClass(cls string, n int) int {
	switch cls {
	case "1":
		return 1
	case "2":
		return 2
	case "8":
		return 8
	case "quarter":
		return n / 4
	}
	rp.Bug("unknown length class %q", cls)
	return 0
}

// byteValue returns the bytes a value class writes at position p.
func byteValue(cls string, b []byte, p int) []byte {
	cur := byte(0x41)
	if p < len(b) {
		cur = b[p]
	}
	switch cls {
	case "00":
		return []byte{0}
	case "ff":
		return []byte{0xff}
	case "flip01":
		return []byte{cur ^ 0x01}
	case "flip80":
		return []byte{cur ^ 0x80}
	case "dec":
		return []byte{cur - 1}
	case "inc":
		return []byte{cur + 1}
	}
	t, ok := byteTokens[cls]
	if !ok {
		rp.Bug("unknown byte value class %q", cls)
	}
	return []byte(t)
}

func cat(parts ...[]byte) []byte {
	var out []byte
	for _, p := range parts {
		out = append(out, p...)
	}
	return out
}

// applySym concretises one symbolic operator on the bytes of a seed; ok=false: not applicable.
func applySym(format string, b []byte, op symOp) ([]byte, bool) {
	n := len(b)
	switch op.O {
	case "trunc":
		p := posIndex(op.P, n)
		if p >= n {
			return nil, false
		}
		return b[:p], true
	case "set":
		p := posIndex(op.P, n)
		v := byteValue(op.V, b, p)
		if p >= n {
			return cat(b, v), true
		}
		end := p + len(v)
		if end > n {
			end = n
		}
		return cat(b[:p], v, b[end:]), true
	case "ins":
		p := posIndex(op.P, n)
		if p > n {
			p = n
		}
		return cat(b[:p], byteValue(op.V, b, p), b[p:]), true
	case "del":
		p, l := posIndex(op.P, n), lenClass(op.V, n)
		if p >= n || l == 0 {
			return nil, false
		}
		if p+l > n {
			l = n - p
		}
		return cat(b[:p], b[p+l:]), true
	case "dup":
		p, l := posIndex(op.P, n), lenClass(op.V, n)
		if p >= n || l == 0 {
			return nil, false
		}
		if p+l > n {
			l = n - p
		}
		return cat(b[:p+l], b[p:p+l], b[p+l:]), true
	case "splice":
		p, q := posIndex(op.P, n), posIndex(op.V, n)
		if p > n {
			p = n
		}
		if q > n {
			q = n
		}
		if p == q {
			return nil, false
		}
		return cat(b[:p], b[q:]), true
	case "nest":
		pre, post := "", ""
		switch op.V {
		case "array":
			pre, post = "[", "]"
		case "object":
			pre, post = `{"a":`, "}"
		case "block":
			pre, post = "/*", "*/"
		case "string":
			pre, post = `"`, `"`
		default:
			rp.Bug("unknown nest kind %q", op.V)
		}
		return cat([]byte(strings.Repeat(pre, op.N)), b, []byte(strings.Repeat(post, op.N))), true
	case "fdrop", "fdup", "fset":
		s, ok := applyField(format, string(b), op)
		return []byte(s), ok
	case "hset", "hdrop", "hmove":
		s, ok := applyHeader(format, string(b), op)
		return []byte(s), ok
	case "tlvlen", "tlvtag", "tlvdrop", "tlvdup", "tlvempty", "tlvnest", "tlvinner":
		return applyTLV(b, op)
	}
	rp.Bug("unknown symbolic operator %q", op.O)
	return nil, false
}

// ---------------------------------------------------------------- seeded random byte-level mutants (Go side)

func randomMutant(r *rand.Rand, b []byte) []byte {
	out := append([]byte{}, b...)
	for k := 1 + r.Intn(2); k > 0; k-- {
		n := len(out)
		switch c := r.Intn(8); {
		case c <= 1 && n > 0: // bit flip(s)
			for f := 1 + r.Intn(3); f > 0; f-- {
				out[r.Intn(n)] ^= 1 << uint(r.Intn(8))
			}
		case c == 2: // byte insert
			p := r.Intn(n + 1)
			out = cat(out[:p], []byte{byte(r.Intn(256))}, out[p:])
		case c == 3 && n > 0: // byte delete
			p := r.Intn(n)
			out = cat(out[:p], out[p+1:])
		case c == 4: // random tail
			p := r.Intn(n + 1)
			t := make([]byte, r.Intn(17))
			r.Read(t)
			out = cat(out[:p], t)
		case c == 5 && n > 0: // a boundary value over 1, 2 or 4 bytes
			w := []int{1, 2, 4}[r.Intn(3)]
			p := r.Intn(n)
			v := []byte{0x00, 0xff, 0x7f, 0x80}[r.Intn(4)]
			for i := p; i < p+w && i < n; i++ {
				out[i] = v
				if v == 0x7f || v == 0x80 {
					v = 0xff * (v & 1)
				}
			}
		case c == 6 && n > 1: // copy a chunk somewhere else
			a, p := r.Intn(n), r.Intn(n)
			l := 1 + r.Intn(8)
			if a+l > n {
				l = n - a
			}
			out = cat(out[:p], out[a:a+l], out[p:])
		default: // random byte
			if n > 0 {
				out[r.Intn(n)] = byte(r.Intn(256))
			} else {
				out = []byte{byte(r.Intn(256))}
			}
		}
	}
	return out
}

// ---------------------------------------------------------------- the replayer

func mutantsPerCase(c *rp.Ctx, cs *mutCase) int {
	format := cs.F
	n := 8
	if c.Tier == "thorough" {
		n = 64
	}
	if v := c.Extra["mutants"]; v != "" {
		fmt.Sscan(v, &n)
	}
	switch format {
	case "jws", "jwe":
		// verify/decrypt with every key kind is three orders of magnitude slower than the other decoders
		n = (n + 3) / 4
	}
	if len(cs.H)+len(cs.Y) >= 2 {
		// the two-operator product is large: fewer random mutants on top of each of its members
		n = (n + 7) / 8
	}
	return n
}

func describe(cs *mutCase) string {
	var ops []string
	for _, h := range cs.H {
		ops = append(ops, fmt.Sprintf("%s(%d,%d,%s)", h.O, h.A, h.B, h.C))
	}
	for _, y := range cs.Y {
		ops = append(ops, fmt.Sprintf("%s(%s,%s,%d)", y.O, y.P, y.V, y.N))
	}
	if len(ops) == 0 {
		ops = []string{"unmutated"}
	}
	return fmt.Sprintf("%s seed %s, %s", cs.F, cs.S, strings.Join(ops, " "))
}

// caseBytes concretises a case; applicable=false: an operator does not apply to this seed (nothing to run).
func caseBytes(c *rp.Ctx, cs *mutCase) (b []byte, applicable bool) {
	if len(cs.Y) == 1 && cs.Y[0].O == "random" {
		n := cs.Y[0].N / 100
		r := caseRNG(c.Seed, []byte(cs.F), []byte(fmt.Sprint(cs.Y[0].N)))
		b = make([]byte, n)
		r.Read(b)
		return b, true
	}
	if _, isLd := ldFormats[cs.F]; isLd {
		b = mustLD(cs.LD, c.Seed)
		if len(cs.W) > 0 {
			w := cs.W[0]
			head, pre, post := mustLD(w.Head, c.Seed), mustLD(w.Pre, c.Seed), mustLD(w.Post, c.Seed)
			out := append([]byte{}, head...)
			for i := 0; i < w.Depth; i++ {
				out = append(out, pre...)
			}
			out = append(out, b...)
			for i := 0; i < w.Close; i++ {
				out = append(out, post...)
			}
			b = out
		}
		return b, true
	}
	ops := cs.Y
	if cs.F == "jweforge" && len(ops) > 0 && ops[0].O == "forge" {
		// the hostile sender builds the object; further operators work on its serialisation
		v, ok := forgeSeed(cs.S, ops[0])
		if !ok {
			return nil, false
		}
		b, ops = []byte(v), ops[1:]
	} else {
		b = symSeed(cs.F, cs.S)
	}
	for _, op := range ops {
		var ok bool
		if b, ok = applySym(cs.F, b, op); !ok {
			return nil, false
		}
	}
	return b, true
}

var ldFormats = map[string]bool{"rtmpchunk": true, "rtmpmsg": true, "amf0": true, "flv": true, "flvtag": true, "aac": true, "avc": true, "ws": true}

func mutateBatch(c *rp.Ctx, raws []json.RawMessage) []rp.Result {
	seeds.load(c.Extra["seedfile"])
	theKeys()
	theOcsp()
	for k, v := range theOcsp().seeds {
		if strings.HasSuffix(k, "!rejected") {
			rp.Bug("the OCSP response written by the harness is not accepted by the parser (%s): %s", k, v)
		}
	}
	cases := make([]*mutCase, len(raws))
	for i, raw := range raws {
		cs := &mutCase{}
		if err := json.Unmarshal(raw, cs); err != nil {
			rp.Bug("case %d: %v", i, err)
		}
		if len(decodersOf[cs.F]) == 0 {
			rp.Bug("case %d: no decoder for format %q", i, cs.F)
		}
		cases[i] = cs
	}
	// build the randomised seeds once, before the workers start (and persist them for the isolated re-runs)
	for _, cs := range cases {
		if !ldFormats[cs.F] && !(len(cs.Y) == 1 && cs.Y[0].O == "random") {
			if cs.F == "jweforge" && len(cs.Y) > 0 && cs.Y[0].O == "forge" {
				forgeSeed(cs.S, cs.Y[0])
			} else {
				symSeed(cs.F, cs.S)
			}
		}
	}
	seeds.save()

	st := newStats()
	var inputs, skipped atomic.Int64
	res := runParallel(c, len(cases), numWorkers(c, len(cases)), func(w *worker, i int) rp.Result {
		cs := cases[i]
		base, ok := caseBytes(c, cs)
		if !ok {
			skipped.Add(1)
			return rp.Result{OK: true, Info: "n/a"}
		}
		label := describe(cs)
		rng := caseRNG(c.Seed, []byte(cs.F), base)
		var fails []*failure
		try := func(b []byte, lbl string, first bool) {
			inputs.Add(1)
			for _, d := range decodersOf[cs.F] {
				t0 := time.Now()
				o := guarded(w, d, b, cs.S.Arg, lbl)
				st.add(d.name, o, time.Since(t0))
				switch {
				case o.pan != nil:
					fails = append(fails, &failure{dec: d.name, what: fmt.Sprintf("panic: %v", o.pan), deviation: classify(d.name, o.pan, o.stack),
						input: b, stack: o.stack, label: lbl})
				case strings.HasPrefix(o.ret, "stall"):
					fails = append(fails, &failure{dec: d.name, what: o.ret, input: b, label: lbl})
				}
				honest := cs.F == "jweforge" && len(cs.Y) == 0 && d.name == "jose.jwe.forged"
				if first && (cs.X == "ok" && d.name == cs.S.Ok || honest) {
					st.mu.Lock()
					st.SeedTotal++
					if o.ret == "ok" {
						st.SeedOK++
					} else {
						st.SeedRejected = append(st.SeedRejected, cs.F+"/"+cs.S.String()+" by "+d.name)
					}
					st.mu.Unlock()
				}
			}
		}
		try(base, label, true)
		for k, m := 0, mutantsPerCase(c, cs); k < m; k++ {
			try(randomMutant(rng, base), fmt.Sprintf("%s + random mutant %d", label, k), false)
		}
		if len(fails) == 0 {
			return rp.Result{OK: true, Nontriv: true}
		}
		// report the failure this check has no name for, if there is one
		pick := fails[0]
		for _, f := range fails {
			if f.deviation == "" {
				pick = f
				break
			}
		}
		r := pick.result()
		r.Info = map[string]int{"failing_calls": len(fails)}
		return r
	})
	st.Inputs, st.Skipped = inputs.Load(), skipped.Load()
	st.write(c.Extra["statsdir"], "mutate", nil)
	return res
}
