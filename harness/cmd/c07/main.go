package main

// C07: untrusted bytes never crash or stall a decoder (spec/untrusted/Untrusted.tla).
//
// Three replayers, one per family of the specification:
//
//	mutate  a case is one state "call" of the specification's state machine: a format, a seed (a valid encoding as a
//	        layout descriptor, or the name of an object the replayer builds with the library / crypto/x509) and the
//	        mutation operators applied to it.  The bytes go to every decoder of the format; each of them must return
//	        (a value or an error): no panic, no stall.  The same holds for N seeded random byte-level mutants of the case.
//	enum    [type, first value, count]: every method of the enum type is called for every value under recover.
//	scale   one family of inputs at doubling sizes: CPU and wall time (min of 3) must not grow by more than 3.2x per
//	        doubling on two consecutive doublings.
//
// A decoder call that does not return within the stall timeout ends the run: the verdict of that case is "stall", the
// remaining cases are reported as skipped (the stuck goroutine cannot be killed and may eat the memory).

import (
	"crypto/sha256"
	"encoding/hex"
	"encoding/json"
	"fmt"
	"hash/fnv"
	"math/rand"
	"os"
	"path/filepath"
	"regexp"
	"runtime"
	"runtime/debug"
	"sort"
	"strings"
	"sync"
	"sync/atomic"
	"time"

	"verifharness/ld"
	"verifharness/rp"
)

var registry = map[string]rp.Replayer{}
var batchRegistry = map[string]rp.Batch{}

func main() { rp.Main(registry, batchRegistry) }

func init() {
	batchRegistry["mutate"] = mutateBatch
	batchRegistry["enum"] = enumBatch
	batchRegistry["scale"] = scaleBatch
}

// ---------------------------------------------------------------- cases of the mutation families

type seedRec struct {
	Name string `json:"name"`
	Arg  int    `json:"arg"`
	Ok   string `json:"ok"`
	Alg  string `json:"alg"`
	Enc  string `json:"enc"`
	Form string `json:"form"`
}

func (s seedRec) String() string {
	if s.Name != "" {
		return s.Name
	}
	return strings.Trim(s.Alg+"/"+s.Enc+"/"+s.Form, "/")
}

type symOp struct {
	O string `json:"o"`
	P string `json:"p"`
	V string `json:"v"`
	N int    `json:"n"`
}

type histOp struct {
	O string `json:"o"`
	A int    `json:"a"`
	B int    `json:"b"`
	C string `json:"c"`
}

type wrapRec struct {
	Head  json.RawMessage `json:"head"`
	Pre   json.RawMessage `json:"pre"`
	Post  json.RawMessage `json:"post"`
	Depth int             `json:"depth"`
	Close int             `json:"close"`
}

type mutCase struct {
	F  string          `json:"f"`
	S  seedRec         `json:"s"`
	LD json.RawMessage `json:"ld"`
	Y  []symOp         `json:"y"`
	H  []histOp        `json:"h"`
	X  string          `json:"x"`
	W  []wrapRec       `json:"w"`
}

func mustLD(raw json.RawMessage, seed int) []byte {
	l, err := ld.Parse(raw)
	if err != nil {
		rp.Bug("layout descriptor: %v", err)
	}
	b, err := l.Expand(seed)
	if err != nil {
		rp.Bug("layout descriptor: %v", err)
	}
	return b
}

// ---------------------------------------------------------------- decoder calls under recover

// outcome of one decoder call
type outcome struct {
	ret   string // "ok", "error", or "stall: ..." (a decoder that keeps returning values from a finite input)
	pan   interface{}
	stack string
}

type decoder struct {
	name string
	run  func(b []byte, arg int) string
}

func callDecoder(d *decoder, b []byte, arg int) (o outcome) {
	defer func() {
		if e := recover(); e != nil {
			if _, ok := e.(rp.HarnessBug); ok {
				panic(e)
			}
			o.pan = e
			o.stack = string(debug.Stack())
		}
	}()
	o.ret = d.run(b, arg)
	return
}

// failure describes a decoder call that broke the property.
type failure struct {
	dec       string
	what      string
	deviation string
	input     []byte
	stack     string
	label     string
}

// libFrames extracts the frames of the library from a stack trace, innermost first.
func libFrames(stack string) []string {
	var fr []string
	for _, l := range strings.Split(stack, "\n") {
		if strings.HasPrefix(l, "github.com/ossrs/go-oryx-lib/") {
			f := strings.TrimPrefix(l, "github.com/ossrs/go-oryx-lib/")
			if i := strings.LastIndex(f, "("); i > 0 {
				f = f[:i]
			}
			fr = append(fr, f)
		}
	}
	return fr
}

// classify names the deviations this check knows (genuine defects of the unchanged tree, see known_findings.json).
func classify(dec string, pan interface{}, stack string) string {
	msg := fmt.Sprint(pan)
	fr := libFrames(stack)
	if strings.Contains(msg, "nil pointer dereference") && len(fr) >= 2 &&
		strings.HasPrefix(fr[0], "https/jose.(*byteBuffer).base64") && strings.HasPrefix(fr[1], "https/jose.JsonWebEncryption.computeAuthData") {
		return "C07/jwe-no-protected-header-nil-deref"
	}
	// an authenticated AES-CBC-HMAC ciphertext without a single block reaches the unpadding
	if len(fr) >= 2 && strings.HasPrefix(fr[0], "https/jose/cipher.unpadBuffer") && strings.HasPrefix(fr[1], "https/jose/cipher.(*cbcAEAD).Open") &&
		strings.Contains(msg, "index out of range [-1]") {
		return "C07/cbc-hmac-empty-ciphertext-panic"
	}
	// a content encryption key of 31 bytes splits into a 15 byte MAC key (no hash chosen) and a valid AES-128 key
	if len(fr) >= 2 && strings.HasPrefix(fr[0], "https/jose/cipher.(*cbcAEAD).computeAuthTag") && strings.HasPrefix(fr[1], "https/jose/cipher.(*cbcAEAD).Open") &&
		strings.Contains(msg, "nil pointer dereference") {
		return "C07/cbc-hmac-key-size-nil-hash-panic"
	}
	// Size() of a command packet counts the preset Null command object although the payload ended after the
	// transaction id: p[n+1:] of n bytes
	if m := oneBeyond.FindStringSubmatch(msg); m != nil && len(fr) >= 1 && m[1] != "" {
		var a, b int
		fmt.Sscan(m[1], &a)
		fmt.Sscan(m[2], &b)
		switch fr[0] {
		case "rtmp.(*PublishPacket).UnmarshalBinary", "rtmp.(*PlayPacket).UnmarshalBinary", "rtmp.(*CreateStreamResPacket).UnmarshalBinary":
			if a == b+1 {
				return "C07/rtmp-command-without-object-slice-panic"
			}
		}
	}
	return ""
}

var oneBeyond = regexp.MustCompile(`slice bounds out of range \[(\d+):(\d+)\]`)

func hexInput(b []byte) string {
	if len(b) <= 512 {
		return hex.EncodeToString(b)
	}
	h := sha256.Sum256(b)
	return hex.EncodeToString(b[:256]) + "...(" + fmt.Sprint(len(b)) + " bytes, sha256 " + hex.EncodeToString(h[:8]) + ")"
}

func (f *failure) result() rp.Result {
	fr := libFrames(f.stack)
	at := ""
	if len(fr) > 0 {
		at = " at " + fr[0]
	}
	return rp.Result{OK: false, Nontriv: true, Deviation: f.deviation,
		What:     fmt.Sprintf("decoder %s:%s %s; input (%s, %d bytes) %s", f.dec, at, f.what, f.label, len(f.input), hexInput(f.input)),
		Observed: map[string]interface{}{"decoder": f.dec, "stack": f.stack, "frames": fr}}
}

// ---------------------------------------------------------------- statistics

type decStat struct {
	Calls, Ok, Err, Fail int64
	Ms                   float64 // time spent in the decoder
}

type stats struct {
	mu  sync.Mutex
	dec map[string]*decStat
	// unmutated seeds: accepted by the decoder the specification names / total
	SeedOK, SeedTotal int64
	SeedRejected      []string
	Inputs            int64
	Skipped           int64
}

func newStats() *stats { return &stats{dec: map[string]*decStat{}} }

func (s *stats) add(name string, o outcome, dur time.Duration) {
	s.mu.Lock()
	d := s.dec[name]
	if d == nil {
		d = &decStat{}
		s.dec[name] = d
	}
	d.Calls++
	d.Ms += float64(dur) / 1e6
	switch {
	case o.pan != nil || strings.HasPrefix(o.ret, "stall"):
		d.Fail++
	case o.ret == "ok":
		d.Ok++
	default:
		d.Err++
	}
	s.mu.Unlock()
}

func (s *stats) write(dir, name string, extra map[string]interface{}) {
	if dir == "" {
		return
	}
	out := map[string]interface{}{"decoders": s.dec, "seed_ok": s.SeedOK, "seed_total": s.SeedTotal,
		"seed_rejected": s.SeedRejected, "inputs": s.Inputs, "skipped": s.Skipped}
	var calls int64
	for _, d := range s.dec {
		calls += d.Calls
	}
	out["calls"] = calls
	for k, v := range extra {
		out[k] = v
	}
	b, _ := json.MarshalIndent(out, "", " ")
	// one file per invocation: vcheck re-runs failing cases in isolation with the same -dir
	f := filepath.Join(dir, fmt.Sprintf("stats_%s_%d.json", name, os.Getpid()))
	if err := os.WriteFile(f, b, 0o644); err != nil {
		rp.Bug("write %s: %v", f, err)
	}
}

// ---------------------------------------------------------------- the parallel runner with the stall watchdog

type worker struct {
	start atomic.Int64 // unix nano of the decoder call in flight, 0 = none
	idx   atomic.Int64 // case index in flight
	desc  atomic.Value // string
}

func stallTimeout(c *rp.Ctx) time.Duration {
	if v := c.Extra["stall"]; v != "" {
		if d, err := time.ParseDuration(v); err == nil {
			return d
		}
	}
	return 20 * time.Second
}

// memGrowthLimit: a heap that grew by this much since the start of the run is a decoder allocating without bound
const memGrowthLimit = 4 << 30

// begin / end bracket a unit of work for the watchdog (a decoder call, an enum case, a timing measurement)
func (w *worker) begin(desc string) {
	w.desc.Store(desc)
	w.start.Store(time.Now().UnixNano())
}

func (w *worker) end() {
	if w.start.Load() == -1 {
		// the watchdog gave up on this unit; whatever happens now is not reported twice
		runtime.Goexit()
	}
	w.start.Store(0)
}

// runParallel runs one(i) for every case; a call in flight longer than the stall timeout (or a heap beyond memLimit)
// ends the run with the verdict "stall" for the case in flight.
func runParallel(c *rp.Ctx, n, workers int, one func(w *worker, i int) rp.Result) []rp.Result {
	res := make([]rp.Result, n)
	done := make([]atomic.Bool, n)
	var abort atomic.Bool
	ws := make([]*worker, workers)
	next := make(chan int, n)
	for i := 0; i < n; i++ {
		next <- i
	}
	close(next)
	var wg sync.WaitGroup
	for k := range ws {
		ws[k] = &worker{}
		ws[k].idx.Store(-1)
		wg.Add(1)
		go func(w *worker) {
			defer wg.Done()
			for i := range next {
				if abort.Load() {
					return
				}
				w.idx.Store(int64(i))
				r := one(w, i)
				r.I = i
				if abort.Load() && w.start.Load() == -1 {
					return // declared stalled meanwhile: the watchdog owns the verdict
				}
				res[i] = r
				done[i].Store(true)
				w.idx.Store(-1)
			}
		}(ws[k])
	}
	fin := make(chan struct{})
	go func() { wg.Wait(); close(fin) }()
	timeout := stallTimeout(c)
	tick := time.NewTicker(100 * time.Millisecond)
	defer tick.Stop()
	var ms runtime.MemStats
	runtime.ReadMemStats(&ms)
	memLimit := ms.HeapAlloc + memGrowthLimit
	nticks := 0
	for {
		select {
		case <-fin:
			return res
		case <-tick.C:
		}
		nticks++
		now := time.Now().UnixNano()
		var stalled []*worker
		for _, w := range ws {
			if st := w.start.Load(); st > 0 && time.Duration(now-st) > timeout {
				stalled = append(stalled, w)
			}
		}
		why := fmt.Sprintf("stall: the decoder did not return within %v", timeout)
		if len(stalled) == 0 && nticks%5 == 0 {
			runtime.ReadMemStats(&ms)
			if ms.HeapAlloc > memLimit {
				// blame the longest running call
				var oldest *worker
				for _, w := range ws {
					if st := w.start.Load(); st > 0 && (oldest == nil || st < oldest.start.Load()) {
						oldest = w
					}
				}
				if oldest != nil {
					stalled = append(stalled, oldest)
					why = fmt.Sprintf("stall: the heap grew by more than %d MiB while the decoder was running for %v", memGrowthLimit>>20, time.Duration(now-oldest.start.Load()))
				}
			}
		}
		if len(stalled) == 0 {
			continue
		}
		abort.Store(true)
		for _, w := range stalled {
			i := int(w.idx.Load())
			desc, _ := w.desc.Load().(string)
			w.start.Store(-1)
			if i >= 0 && !done[i].Load() {
				res[i] = rp.Result{I: i, OK: false, Nontriv: true, What: why + ": " + desc}
				done[i].Store(true)
			}
		}
		// let the healthy workers finish the case they are in
		deadline := time.After(3 * time.Second)
	wait:
		for {
			busy := false
			for _, w := range ws {
				if w.start.Load() != -1 && w.idx.Load() >= 0 {
					busy = true
				}
			}
			if !busy {
				break
			}
			select {
			case <-deadline:
				break wait
			case <-time.After(20 * time.Millisecond):
			}
		}
		out := make([]rp.Result, n)
		for i := range out {
			if done[i].Load() {
				out[i] = res[i]
			} else {
				out[i] = rp.Result{I: i, OK: true, Info: "skipped: a decoder stalled earlier in this run"}
			}
		}
		return out
	}
}

// guarded runs one decoder call with the watchdog armed.
func guarded(w *worker, d *decoder, b []byte, arg int, label string) outcome {
	w.begin(fmt.Sprintf("decoder %s on input (%s, %d bytes) %s", d.name, label, len(b), hexInput(b)))
	o := callDecoder(d, b, arg)
	w.end()
	return o
}

func numWorkers(c *rp.Ctx, n int) int {
	w := runtime.NumCPU()
	if w > 12 {
		w = 12
	}
	if v := c.Extra["workers"]; v != "" {
		fmt.Sscan(v, &w)
	}
	if n < w {
		w = n
	}
	if w < 1 {
		w = 1
	}
	return w
}

// caseRNG is seeded by the run seed and the content of the case, never by its index:
// a failing case re-run in isolation draws the same mutants.
func caseRNG(seed int, parts ...[]byte) *rand.Rand {
	h := fnv.New64a()
	for _, p := range parts {
		h.Write(p)
		h.Write([]byte{0})
	}
	return rand.New(rand.NewSource(int64(h.Sum64()) ^ int64(seed)*0x9E3779B97F4A7C))
}

func sortedKeys(m map[string]*decStat) []string {
	var k []string
	for n := range m {
		k = append(k, n)
	}
	sort.Strings(k)
	return k
}
