package main

// JOSE: keys of every kind, seeds produced by the library's own Sign/Encrypt, and the concretisation of the
// specification's structural operators (fdrop/fdup/fset on the named parts of a serialisation, hset/hdrop/hmove
// on header members).

import (
	"bytes"
	"crypto/aes"
	"crypto/cipher"
	"crypto/ecdsa"
	"crypto/elliptic"
	"crypto/rsa"
	"crypto/x509"
	"encoding/base64"
	"encoding/json"
	"encoding/pem"
	"fmt"
	"math/big"
	"os"
	"sort"
	"strings"
	"sync"

	"github.com/ossrs/go-oryx-lib/https/jose"
	josecipher "github.com/ossrs/go-oryx-lib/https/jose/cipher"
	"verifharness/rp"
)

type keyset struct {
	rsa     *rsa.PrivateKey
	ec      map[string]*ecdsa.PrivateKey
	oct     map[int][]byte
	verify  []interface{}
	decrypt []interface{}
}

var keysOnce sync.Once
var keys *keyset

func ecFromScalar(c elliptic.Curve, d *big.Int) *ecdsa.PrivateKey {
	x, y := c.ScalarBaseMult(d.Bytes())
	return &ecdsa.PrivateKey{PublicKey: ecdsa.PublicKey{Curve: c, X: x, Y: y}, D: d}
}

func theKeys() *keyset {
	keysOnce.Do(func() {
		b, _ := pem.Decode([]byte(rsaPEM))
		if b == nil {
			rp.Bug("embedded RSA key: no PEM block")
		}
		rk, err := x509.ParsePKCS1PrivateKey(b.Bytes)
		if err != nil {
			rp.Bug("embedded RSA key: %v", err)
		}
		k := &keyset{rsa: rk, ec: map[string]*ecdsa.PrivateKey{}, oct: map[int][]byte{}}
		for name, c := range map[string]elliptic.Curve{"P-256": elliptic.P256(), "P-384": elliptic.P384(), "P-521": elliptic.P521()} {
			d := new(big.Int).SetBytes(bytes.Repeat([]byte{0x5a, 0x17, 0xc3, 0x09}, 7))
			d.Add(d, big.NewInt(int64(len(name)+c.Params().BitSize)))
			k.ec[name] = ecFromScalar(c, d)
		}
		for _, n := range []int{16, 24, 32, 48, 64} {
			o := make([]byte, n)
			for i := range o {
				o[i] = byte(i*7 + n)
			}
			k.oct[n] = o
		}
		k.verify = []interface{}{&rk.PublicKey, &k.ec["P-256"].PublicKey, &k.ec["P-384"].PublicKey, &k.ec["P-521"].PublicKey,
			k.oct[32], &jose.JsonWebKey{Key: &rk.PublicKey}, &jose.JsonWebKey{Key: k.oct[64]}}
		k.decrypt = []interface{}{rk, k.ec["P-256"], k.ec["P-384"], k.ec["P-521"],
			k.oct[16], k.oct[24], k.oct[32], k.oct[48], k.oct[64], &jose.JsonWebKey{Key: k.ec["P-256"]}}
		keys = k
	})
	return keys
}

func sigKey(alg string) interface{} {
	k := theKeys()
	switch alg {
	case "ES256":
		return k.ec["P-256"]
	case "ES384":
		return k.ec["P-384"]
	case "ES512":
		return k.ec["P-521"]
	case "HS256":
		return k.oct[32]
	case "HS384":
		return k.oct[48]
	case "HS512":
		return k.oct[64]
	}
	return k.rsa
}

func encKeySize(enc string) int {
	switch enc {
	case "A128GCM":
		return 16
	case "A192GCM":
		return 24
	case "A256GCM", "A128CBC-HS256":
		return 32
	case "A192CBC-HS384":
		return 48
	}
	return 64
}

func encKey(alg, enc string) interface{} {
	k := theKeys()
	switch {
	case strings.HasPrefix(alg, "RSA"):
		return &k.rsa.PublicKey
	case strings.HasPrefix(alg, "ECDH"):
		return &k.ec["P-256"].PublicKey
	case alg == "dir":
		return k.oct[encKeySize(enc)]
	case strings.HasPrefix(alg, "A128"):
		return k.oct[16]
	case strings.HasPrefix(alg, "A192"):
		return k.oct[24]
	}
	return k.oct[32]
}

// ---------------------------------------------------------------- seeds

var seedPayload = []byte(`{"iss":"joe","exp":1300819380,"http://example.com/is_root":true}`)

type seedStore struct {
	mu   sync.Mutex
	m    map[string]string
	path string
	dirt bool
}

var seeds = &seedStore{m: map[string]string{}}

// load reads the objects a previous invocation built (signatures, IVs and ephemeral keys are randomised by the
// library: a failing case is re-run in isolation on the very same object).
func (s *seedStore) load(path string) {
	s.mu.Lock()
	defer s.mu.Unlock()
	s.path = path
	if path == "" {
		return
	}
	if b, err := os.ReadFile(path); err == nil {
		if err := json.Unmarshal(b, &s.m); err != nil {
			rp.Bug("seed file %s: %v", path, err)
		}
	}
}

func (s *seedStore) save() {
	s.mu.Lock()
	defer s.mu.Unlock()
	if s.path == "" || !s.dirt {
		return
	}
	b, _ := json.Marshal(s.m)
	tmp := fmt.Sprintf("%s.%d", s.path, os.Getpid())
	if err := os.WriteFile(tmp, b, 0o644); err != nil {
		rp.Bug("write %s: %v", tmp, err)
	}
	os.Rename(tmp, s.path)
	s.dirt = false
}

func (s *seedStore) get(key string, build func() string) string {
	s.mu.Lock()
	defer s.mu.Unlock()
	if v, ok := s.m[key]; ok {
		return v
	}
	v := build()
	s.m[key] = v
	s.dirt = true
	return v
}

func must(err error, what string) {
	if err != nil {
		rp.Bug("building seed %s: %v", what, err)
	}
}

func jwsSeed(sd seedRec) string {
	return seeds.get("jws/"+sd.Alg+"/"+sd.Form, func() string {
		what := "jws " + sd.Alg + " " + sd.Form
		if sd.Form == "multi" {
			ms := jose.NewMultiSigner()
			for _, a := range []string{"HS256", "RS256", "ES256"} {
				must(ms.AddRecipient(jose.SignatureAlgorithm(a), sigKey(a)), what)
			}
			obj, err := ms.Sign(seedPayload)
			must(err, what)
			return obj.FullSerialize()
		}
		signer, err := jose.NewSigner(jose.SignatureAlgorithm(sd.Alg), sigKey(sd.Alg))
		must(err, what)
		obj, err := signer.Sign(seedPayload)
		must(err, what)
		switch sd.Form {
		case "compact":
			s, err := obj.CompactSerialize()
			must(err, what)
			return s
		case "full":
			return obj.FullSerialize()
		case "fullhdr":
			// RFC 7515 7.2.2 with the algorithm in the unprotected header (the signature covers an empty protected header)
			ms, ok := parseObject([]byte(obj.FullSerialize()))
			if !ok {
				rp.Bug("FullSerialize is not a JSON object")
			}
			var out []member
			for _, m := range ms {
				if m.K != "protected" {
					out = append(out, m)
				}
			}
			out = append(out, member{"header", json.RawMessage(fmt.Sprintf(`{"alg":%q,"kid":"k1"}`, sd.Alg))})
			return string(renderObject(out))
		}
		rp.Bug("unknown jws form %q", sd.Form)
		return ""
	})
}

func jweSeed(sd seedRec) string {
	return seeds.get("jwe/"+sd.Alg+"/"+sd.Enc+"/"+sd.Form, func() string {
		what := "jwe " + sd.Alg + " " + sd.Enc + " " + sd.Form
		switch sd.Form {
		case "unprotected", "perrecipient":
			return handWrittenJwe(sd)
		}
		var e interface {
			Encrypt([]byte) (*jose.JsonWebEncryption, error)
			EncryptWithAuthData([]byte, []byte) (*jose.JsonWebEncryption, error)
			SetCompression(jose.CompressionAlgorithm)
		}
		if sd.Form == "multi" {
			me, err := jose.NewMultiEncrypter(jose.ContentEncryption(sd.Enc))
			must(err, what)
			must(me.AddRecipient(jose.KeyAlgorithm(sd.Alg), encKey(sd.Alg, sd.Enc)), what)
			must(me.AddRecipient(jose.A256KW, theKeys().oct[32]), what)
			must(me.AddRecipient(jose.A128GCMKW, theKeys().oct[16]), what)
			e = me
		} else {
			se, err := jose.NewEncrypter(jose.KeyAlgorithm(sd.Alg), jose.ContentEncryption(sd.Enc), encKey(sd.Alg, sd.Enc))
			must(err, what)
			e = se
		}
		if sd.Form == "zip" {
			e.SetCompression(jose.DEFLATE)
		}
		var obj *jose.JsonWebEncryption
		var err error
		if sd.Form == "fullaad" {
			obj, err = e.EncryptWithAuthData(seedPayload, []byte("additional data"))
		} else {
			obj, err = e.Encrypt(seedPayload)
		}
		must(err, what)
		if sd.Form == "compact" || sd.Form == "zip" {
			s, err := obj.CompactSerialize()
			must(err, what)
			return s
		}
		return obj.FullSerialize()
	})
}

// handWrittenJwe writes JWE JSON serialisations the library's encrypter never produces but RFC 7516 7.2.1 allows:
// no "protected" member at all, every header parameter in "unprotected" (resp. in the per-recipient "header").
// The additional authenticated data of an absent protected header is the empty string (RFC 7516 5.1 step 14).
func handWrittenJwe(sd seedRec) string {
	k := theKeys()
	cek := k.oct[16]
	block, err := aes.NewCipher(cek)
	must(err, "aes")
	gcm, err := cipher.NewGCM(block)
	must(err, "gcm")
	iv := []byte{1, 2, 3, 4, 5, 6, 7, 8, 9, 10, 11, 12}
	sealed := gcm.Seal(nil, iv, seedPayload, []byte(""))
	ct, tag := sealed[:len(sealed)-16], sealed[len(sealed)-16:]
	e := b64.EncodeToString
	if sd.Form == "unprotected" {
		return fmt.Sprintf(`{"unprotected":{"alg":"dir","enc":"A128GCM"},"iv":%q,"ciphertext":%q,"tag":%q}`, e(iv), e(ct), e(tag))
	}
	kw, err := aes.NewCipher(k.oct[16])
	must(err, "aes")
	wrapped, err := josecipher.KeyWrap(kw, cek)
	must(err, "key wrap")
	return fmt.Sprintf(`{"unprotected":{"enc":"A128GCM"},"recipients":[{"header":{"alg":"A128KW","kid":"k1"},"encrypted_key":%q}],"iv":%q,"ciphertext":%q,"tag":%q}`,
		e(wrapped), e(iv), e(ct), e(tag))
}

func jwkOf(key interface{}) string {
	k := jose.JsonWebKey{Key: key, KeyID: "k1", Algorithm: "x", Use: "sig"}
	b, err := k.MarshalJSON()
	must(err, "jwk")
	return string(b)
}

func jwkSeed(sd seedRec) string {
	k := theKeys()
	switch sd.Name {
	case "rsa.pub":
		return jwkOf(&k.rsa.PublicKey)
	case "rsa.priv":
		return jwkOf(k.rsa)
	case "ec256.pub":
		return jwkOf(&k.ec["P-256"].PublicKey)
	case "ec256.priv":
		return jwkOf(k.ec["P-256"])
	case "ec384.pub":
		return jwkOf(&k.ec["P-384"].PublicKey)
	case "ec384.priv":
		return jwkOf(k.ec["P-384"])
	case "ec521.pub":
		return jwkOf(&k.ec["P-521"].PublicKey)
	case "ec521.priv":
		return jwkOf(k.ec["P-521"])
	case "oct":
		return jwkOf(k.oct[32])
	case "ec256.x5c":
		jk := jose.JsonWebKey{Key: &k.rsa.PublicKey, KeyID: "c1", Certificates: []*x509.Certificate{theOcsp().issuer, theOcsp().leaf}}
		b, err := jk.MarshalJSON()
		must(err, "jwk x5c")
		return string(b)
	case "set":
		return `{"keys":[` + jwkOf(&k.rsa.PublicKey) + "," + jwkOf(k.oct[16]) + `]}`
	}
	rp.Bug("unknown jwk seed %q", sd.Name)
	return ""
}

// ---------------------------------------------------------------- ordered JSON objects

type member struct {
	K string
	V json.RawMessage
}

func parseObject(raw []byte) ([]member, bool) {
	dec := json.NewDecoder(bytes.NewReader(raw))
	t, err := dec.Token()
	if d, ok := t.(json.Delim); err != nil || !ok || d != '{' {
		return nil, false
	}
	var ms []member
	for dec.More() {
		kt, err := dec.Token()
		k, ok := kt.(string)
		if err != nil || !ok {
			return nil, false
		}
		var v json.RawMessage
		if err := dec.Decode(&v); err != nil {
			return nil, false
		}
		ms = append(ms, member{k, v})
	}
	return ms, true
}

func renderObject(ms []member) []byte {
	var b bytes.Buffer
	b.WriteByte('{')
	for i, m := range ms {
		if i > 0 {
			b.WriteByte(',')
		}
		k, _ := json.Marshal(m.K)
		b.Write(k)
		b.WriteByte(':')
		b.Write(m.V)
	}
	b.WriteByte('}')
	return b.Bytes()
}

func find(ms []member, k string) int {
	for i, m := range ms {
		if m.K == k {
			return i
		}
	}
	return -1
}

func parseArray(raw []byte) ([]json.RawMessage, bool) {
	var a []json.RawMessage
	if len(bytes.TrimSpace(raw)) == 0 || bytes.TrimSpace(raw)[0] != '[' || json.Unmarshal(raw, &a) != nil {
		return nil, false
	}
	return a, true
}

func renderArray(a []json.RawMessage) json.RawMessage {
	var b bytes.Buffer
	b.WriteByte('[')
	for i, e := range a {
		if i > 0 {
			b.WriteByte(',')
		}
		b.Write(e)
	}
	b.WriteByte(']')
	return b.Bytes()
}

var b64 = base64.RawURLEncoding

var plainMembers = map[string]bool{"kty": true, "crv": true, "kid": true, "alg": true, "use": true, "enc": true, "zip": true, "nonce": true}

// octetValue applies a value class of the specification to a JSON value (a base64url string, a plain string, an
// object or an array).
func octetValue(name string, v json.RawMessage, cls string) (json.RawMessage, bool) {
	switch cls {
	case "null":
		return json.RawMessage("null"), true
	case "num":
		return json.RawMessage("123"), true
	case "obj":
		return json.RawMessage("{}"), true
	case "arr":
		return json.RawMessage("[]"), true
	}
	var s string
	if json.Unmarshal(v, &s) == nil && len(v) > 0 && v[0] == '"' {
		t, ok := octetText(name, s, cls)
		if !ok {
			return nil, false
		}
		out, _ := json.Marshal(t)
		return out, true
	}
	if ms, ok := parseObject(v); ok {
		switch cls {
		case "empty":
			return json.RawMessage("{}"), true
		case "b1":
			if len(ms) > 1 {
				return renderObject(ms[:1]), true
			}
		case "m1":
			if len(ms) > 0 {
				return renderObject(ms[:len(ms)-1]), true
			}
		case "p1":
			return renderObject(append(append([]member{}, ms...), member{"x", json.RawMessage(`"y"`)})), true
		case "x2":
			return renderObject(append(append([]member{}, ms...), ms...)), true
		case "badb64":
			return json.RawMessage(`"!!"`), true
		}
		return nil, false
	}
	if a, ok := parseArray(v); ok {
		switch cls {
		case "empty":
			return json.RawMessage("[]"), true
		case "b1":
			if len(a) > 1 {
				return renderArray(a[:1]), true
			}
		case "m1":
			if len(a) > 0 {
				return renderArray(a[:len(a)-1]), true
			}
		case "p1":
			return renderArray(append(append([]json.RawMessage{}, a...), json.RawMessage(`{"x":"y"}`))), true
		case "x2":
			return renderArray(append(append([]json.RawMessage{}, a...), a...)), true
		case "badb64":
			return json.RawMessage(`"!!"`), true
		}
		return nil, false
	}
	return nil, false
}

// octetText applies a value class to the text of a part: the decoded octets really change.
func octetText(name, s, cls string) (string, bool) {
	switch cls {
	case "badb64":
		return s + "!", true
	case "pad":
		return s + "=", true
	case "null":
		return "null", true
	case "num":
		return "123", true
	case "obj":
		return "{}", true
	case "arr":
		return "[]", true
	}
	raw, err := b64.DecodeString(s)
	enc := func(b []byte) string { return b64.EncodeToString(b) }
	if err != nil || plainMembers[name] {
		raw, enc = []byte(s), func(b []byte) string { return string(b) }
	}
	switch cls {
	case "empty":
		return "", true
	case "b1":
		if len(raw) > 1 {
			return enc(raw[:1]), true
		}
	case "m1":
		if len(raw) > 0 {
			return enc(raw[:len(raw)-1]), true
		}
	case "p1":
		return enc(append(append([]byte{}, raw...), 0x41)), true
	case "x2":
		return enc(append(append([]byte{}, raw...), raw...)), true
	case "flip0":
		if len(raw) > 0 {
			c := append([]byte{}, raw...)
			c[0] ^= 0x80
			return enc(c), true
		}
	case "fliplast":
		if len(raw) > 0 {
			c := append([]byte{}, raw...)
			c[len(c)-1] ^= 0x01
			return enc(c), true
		}
	}
	return "", false
}

// ---------------------------------------------------------------- serialisations as named parts

var compactParts = map[string][]string{
	"jws": {"protected", "payload", "signature"},
	"jwe": {"protected", "encrypted_key", "iv", "ciphertext", "tag"},
}

func indexOf(a []string, s string) int {
	for i, x := range a {
		if x == s {
			return i
		}
	}
	return -1
}

// applyField concretises fdrop / fdup / fset on a serialisation; ok=false: the operator does not apply to this seed.
func applyField(format, s string, op symOp) (string, bool) {
	if ms, isObj := parseObject([]byte(s)); isObj {
		i := find(ms, op.P)
		if i < 0 {
			return "", false
		}
		switch op.O {
		case "fdrop":
			return string(renderObject(append(append([]member{}, ms[:i]...), ms[i+1:]...))), true
		case "fdup":
			out := append(append([]member{}, ms[:i+1]...), ms[i])
			return string(renderObject(append(out, ms[i+1:]...))), true
		case "fset":
			v, ok := octetValue(op.P, ms[i].V, op.V)
			if !ok {
				return "", false
			}
			out := append([]member{}, ms...)
			out[i].V = v
			return string(renderObject(out)), true
		}
		return "", false
	}
	names := compactParts[format]
	parts := strings.Split(s, ".")
	i := indexOf(names, op.P)
	if i < 0 || i >= len(parts) {
		return "", false
	}
	switch op.O {
	case "fdrop":
		return strings.Join(append(append([]string{}, parts[:i]...), parts[i+1:]...), "."), true
	case "fdup":
		out := append(append([]string{}, parts[:i+1]...), parts[i])
		return strings.Join(append(out, parts[i+1:]...), "."), true
	case "fset":
		t, ok := octetText(op.P, parts[i], op.V)
		if !ok {
			return "", false
		}
		out := append([]string{}, parts...)
		out[i] = t
		return strings.Join(out, "."), true
	}
	return "", false
}

// headerValue is the JSON of a value class of a header member.
func headerValue(m, cls string, cur json.RawMessage) (json.RawMessage, bool) {
	k := theKeys()
	q := func(s string) json.RawMessage { b, _ := json.Marshal(s); return b }
	switch m {
	case "alg", "enc", "zip", "epk.crv", "epk.kty":
		if cls == "num" {
			return json.RawMessage("123"), true
		}
		return q(cls), true
	case "crit":
		switch cls {
		case "arr":
			return json.RawMessage(`["exp"]`), true
		case "empty":
			return json.RawMessage(`[]`), true
		case "num":
			return json.RawMessage(`123`), true
		}
		return json.RawMessage(`null`), true
	case "epk", "jwk":
		switch cls {
		case "null":
			return json.RawMessage("null"), true
		case "num":
			return json.RawMessage("123"), true
		case "rsa":
			return json.RawMessage(jwkOf(&k.rsa.PublicKey)), true
		case "oct":
			return json.RawMessage(jwkOf(k.oct[16])), true
		case "p256":
			return json.RawMessage(jwkOf(&k.ec["P-256"].PublicKey)), true
		case "p384":
			return json.RawMessage(jwkOf(&k.ec["P-384"].PublicKey)), true
		case "p521":
			return json.RawMessage(jwkOf(&k.ec["P-521"].PublicKey)), true
		case "priv":
			return json.RawMessage(jwkOf(k.ec["P-256"])), true
		}
		return nil, false
	}
	if cur == nil {
		cur = json.RawMessage(`"AAECAwQFBgcICQoL"`)
	}
	name := m
	if i := strings.Index(m, "."); i >= 0 {
		name = m[i+1:]
	}
	return octetValue(name, cur, cls)
}

// header locations of a serialisation: the protected header (base64url JSON) and the unprotected ones.
type joseDoc struct {
	format  string
	compact bool
	parts   []string // compact
	top     []member // JSON
}

func parseDoc(format, s string) (*joseDoc, bool) {
	if ms, ok := parseObject([]byte(s)); ok {
		return &joseDoc{format: format, top: ms}, true
	}
	parts := strings.Split(s, ".")
	if len(parts) != len(compactParts[format]) {
		return nil, false
	}
	return &joseDoc{format: format, compact: true, parts: parts}, true
}

func (d *joseDoc) String() string {
	if d.compact {
		return strings.Join(d.parts, ".")
	}
	return string(renderObject(d.top))
}

// loc reads a header location as ordered members ("protected", "unprotected", "header").
func (d *joseDoc) loc(where string) ([]member, bool) {
	if where == "protected" {
		var t string
		if d.compact {
			t = d.parts[0]
		} else {
			i := find(d.top, "protected")
			if i < 0 || json.Unmarshal(d.top[i].V, &t) != nil {
				return nil, false
			}
		}
		raw, err := b64.DecodeString(t)
		if err != nil {
			return nil, false
		}
		return parseObject(raw)
	}
	if d.compact {
		return nil, false
	}
	i := find(d.top, where)
	if i < 0 {
		return nil, false
	}
	return parseObject(d.top[i].V)
}

func (d *joseDoc) setLoc(where string, ms []member) bool {
	raw := renderObject(ms)
	if where == "protected" {
		t := b64.EncodeToString(raw)
		if d.compact {
			d.parts[0] = t
			return true
		}
		q, _ := json.Marshal(t)
		if i := find(d.top, "protected"); i >= 0 {
			d.top[i].V = q
		} else {
			d.top = append([]member{{"protected", q}}, d.top...)
		}
		return true
	}
	if d.compact {
		return false
	}
	if i := find(d.top, where); i >= 0 {
		d.top[i].V = raw
	} else {
		d.top = append(d.top, member{where, raw})
	}
	return true
}

var headerLocs = []string{"protected", "header", "unprotected"}

// applyHeader concretises hset / hdrop / hmove.
func applyHeader(format, s string, op symOp) (string, bool) {
	d, ok := parseDoc(format, s)
	if !ok {
		return "", false
	}
	name, sub := op.P, ""
	if i := strings.Index(op.P, "."); i >= 0 {
		name, sub = op.P[:i], op.P[i+1:]
	}
	// where does the member live now?
	at, idx := "", -1
	var ms []member
	for _, w := range headerLocs {
		if m, ok := d.loc(w); ok {
			if i := find(m, name); i >= 0 {
				at, idx, ms = w, i, m
				break
			}
		}
	}
	switch op.O {
	case "hdrop":
		if at == "" {
			return "", false
		}
		if sub != "" {
			inner, ok := parseObject(ms[idx].V)
			j := find(inner, sub)
			if !ok || j < 0 {
				return "", false
			}
			ms[idx].V = renderObject(append(append([]member{}, inner[:j]...), inner[j+1:]...))
		} else {
			ms = append(append([]member{}, ms[:idx]...), ms[idx+1:]...)
		}
		d.setLoc(at, ms)
		return d.String(), true
	case "hmove":
		if at == "" || at == op.V || d.compact {
			return "", false
		}
		v := ms[idx]
		d.setLoc(at, append(append([]member{}, ms[:idx]...), ms[idx+1:]...))
		dst, _ := d.loc(op.V)
		d.setLoc(op.V, append(dst, v))
		return d.String(), true
	case "hset":
		if at == "" {
			// a member that is not there is added to the protected header
			at = "protected"
			ms, ok = d.loc(at)
			if !ok {
				ms = nil
			}
			idx = -1
		}
		if sub != "" {
			var inner []member
			if idx >= 0 {
				inner, _ = parseObject(ms[idx].V)
			}
			if inner == nil {
				inner, _ = parseObject([]byte(jwkOf(&theKeys().ec["P-256"].PublicKey)))
			}
			j := find(inner, sub)
			var cur json.RawMessage
			if j >= 0 {
				cur = inner[j].V
			}
			v, ok := headerValue(op.P, op.V, cur)
			if !ok {
				return "", false
			}
			if j >= 0 {
				inner[j].V = v
			} else {
				inner = append(inner, member{sub, v})
			}
			if idx >= 0 {
				ms[idx].V = renderObject(inner)
			} else {
				ms = append(ms, member{name, renderObject(inner)})
			}
		} else {
			var cur json.RawMessage
			if idx >= 0 {
				cur = ms[idx].V
			}
			v, ok := headerValue(op.P, op.V, cur)
			if !ok {
				return "", false
			}
			if idx >= 0 {
				ms[idx].V = v
			} else {
				ms = append(ms, member{name, v})
			}
		}
		d.setLoc(at, ms)
		return d.String(), true
	}
	return "", false
}

func sortedStrings(m map[string]string) []string {
	var k []string
	for n := range m {
		k = append(k, n)
	}
	sort.Strings(k)
	return k
}
