package main

import (
	"bufio"
	"bytes"
	"encoding/json"
	"errors"
	"fmt"
	"hash/fnv"
	"io"
	"io/ioutil"
	"math/rand"
	"os"
	"reflect"
	"runtime"
	"runtime/debug"
	"sync"
	"sync/atomic"
	"unicode/utf8"

	oj "github.com/ossrs/go-oryx-lib/json"
	"verifharness/rp"
)

// C17: comment stripping never changes what a JSON document means (spec/json/JsonPlus.tla).
//
// A case is a document of the specification: a sequence of items (punctuation, scalars, string literals as atom
// sequences, white space, line and block comments as character-class sequences), its text as classes (dec) and the
// text the reference stripper delivers (exp = the text without the comments).  The replayer concretises the classes
// to bytes (a plain variant and a seeded rich one: several representatives per class, multi-byte UTF-8, every kind
// of JSON escape), feeds the bytes to the library under several segmentations of the input into reads and compares
//
//	(1) the value json.Unmarshal(reader, &v) of the library decodes,
//	(2) the value encoding/json decodes from everything NewJsonPlusReader delivers
//
// with the value encoding/json decodes from the undecorated text, and
//
//	(3) for documents without comments, the bytes NewJsonPlusReader delivers with the input.

type item struct {
	K string `json:"k"`
	B string `json:"b"`
	X string `json:"x"`
}

type c17Case struct {
	Fam   string `json:"fam"`
	Items []item `json:"items"`
	Unit  []item `json:"unit"`
	Fill  int    `json:"fill"`
	M     int    `json:"m"`
	Dec   string `json:"dec"`
	Exp   string `json:"exp"`
	Plain bool   `json:"plain"`
	Dev   struct {
		Same bool   `json:"same"`
		Out  string `json:"out"`
		Err  bool   `json:"err"`
	} `json:"dev"`
	Reads []int `json:"reads"`
}

const (
	devEscapedQuote = "C17/escaped-quote-in-string"
	devTokenLimit   = "C17/scanner-token-limit"
	scannerLimit    = 64 * 1024 // bufio.MaxScanTokenSize
)

// harness (not library) trouble: never a verdict
func broken(format string, a ...interface{}) {
	fmt.Fprintf(os.Stderr, "c17 harness: "+format+"\n", a...)
	os.Exit(3)
}

// ------------------------------------------------------------------ concretisation

var (
	otherStr  = []string{"x", "7", "Z", " ", "é", "中", "😀", "-", "_", "0", "a", "."}
	otherCom  = []string{"x", "7", "Z", " ", "é", "中", "😀", "-", "\r", "\t", "@", "0"}
	punctAll  = []string{"{", "}", "[", "]", ":", ","}
	escSimple = []string{"n", "t", "r", "b", "f"}
	escU      = []string{"u00e9", "u4e2d", "u0022", "u005c", "u002f", "u0027", "u000a", "u00E9"}
	spaces    = []string{" ", "\t", "\r"}
)

// text: bytes, one class letter per character, bytes per character, and the pieces a scanner would have to hold
type text struct {
	b    []byte
	cls  []byte
	clen []int
}

func (t *text) add(class byte, s string) {
	t.b = append(t.b, s...)
	t.cls = append(t.cls, class)
	t.clen = append(t.clen, len(s))
}

func (t *text) append(o *text) {
	t.b = append(t.b, o.b...)
	t.cls = append(t.cls, o.cls...)
	t.clen = append(t.clen, o.clen...)
}

type piece struct {
	region bool // string literal or comment: the library's scanner needs it in one token
	n      int
}

type concretiser struct {
	rich bool
	rng  *rand.Rand
	fill int
}

func (c *concretiser) pick(plain string, from []string) string {
	if !c.rich {
		return plain
	}
	return from[c.rng.Intn(len(from))]
}

// fillText is doc.fill characters of class o (one symbolic character F)
func (c *concretiser) fillText(from []string) string {
	var bb bytes.Buffer
	if !c.rich {
		for i := 0; i < c.fill; i++ {
			bb.WriteByte('x')
		}
		return bb.String()
	}
	off := c.rng.Intn(len(from))
	for i := 0; i < c.fill; i++ {
		s := from[(off+i*7+i/13)%len(from)]
		if s == "\r" || s == "\t" {
			s = "y"
		}
		bb.WriteString(s)
	}
	return bb.String()
}

// class letter -> bytes, inside a comment
func (c *concretiser) comChar(t *text, cl byte) {
	switch cl {
	case 'q':
		t.add('q', `"`)
	case 'b':
		t.add('b', `\`)
	case 's':
		t.add('s', "/")
	case 't':
		t.add('t', "*")
	case 'a':
		t.add('a', "'")
	case 'n':
		t.add('n', "\n")
	case 'p':
		t.add('p', c.pick(",", punctAll))
	case 'o':
		t.add('o', c.pick("x", otherCom))
	case 'F':
		t.add('F', c.fillText(otherCom))
	default:
		broken("unknown class %q in a comment body", cl)
	}
}

// one item -> its text
func (c *concretiser) item(it item) *text {
	t := &text{}
	switch it.K {
	case "p":
		t.add('p', it.X)
	case "v":
		for i := 0; i < len(it.X); i++ {
			t.add('o', it.X[i:i+1])
		}
	case "w":
		if it.X == "nl" {
			t.add('n', "\n")
		} else {
			t.add('o', c.pick(" ", spaces))
		}
	case "s":
		t.add('q', `"`)
		for i := 0; i < len(it.B); i++ {
			switch it.B[i] {
			case 'o':
				t.add('o', c.pick("x", otherStr))
			case 'p':
				t.add('p', c.pick(",", punctAll))
			case 's':
				t.add('s', "/")
			case 't':
				t.add('t', "*")
			case 'a':
				t.add('a', "'")
			case 'F':
				t.add('F', c.fillText(otherStr))
			case 'Q':
				t.add('b', `\`)
				t.add('q', `"`)
			case 'B':
				t.add('b', `\`)
				t.add('b', `\`)
			case 'S':
				t.add('b', `\`)
				t.add('s', "/")
			case 'O':
				t.add('b', `\`)
				t.add('o', c.pick("n", escSimple))
			case 'U':
				t.add('b', `\`)
				u := c.pick("u00e9", escU)
				for j := 0; j < len(u); j++ {
					t.add('o', u[j:j+1])
				}
			default:
				broken("unknown string atom %q", it.B[i])
			}
		}
		t.add('q', `"`)
	case "l":
		t.add('s', "/")
		t.add('s', "/")
		for i := 0; i < len(it.B); i++ {
			if it.B[i] == 'n' {
				broken("newline in a line comment body")
			}
			c.comChar(t, it.B[i])
		}
		if it.X == "term" {
			t.add('n', "\n")
		}
	case "b":
		t.add('s', "/")
		t.add('t', "*")
		for i := 0; i < len(it.B); i++ {
			c.comChar(t, it.B[i])
		}
		t.add('t', "*")
		t.add('s', "/")
	default:
		broken("unknown item kind %q", it.K)
	}
	return t
}

func isComment(it item) bool { return it.K == "l" || it.K == "b" }
func isRegion(it item) bool  { return it.K == "l" || it.K == "b" || it.K == "s" }

// document -> decorated text, undecorated text, scanner pieces of the decorated text
func (c *concretiser) doc(cs *c17Case) (dec, und *text, pieces []piece) {
	dec, und = &text{}, &text{}
	for _, it := range cs.Items {
		if it.K == "r" {
			ud, uu := &text{}, &text{}
			var up []piece
			for _, u := range cs.Unit {
				t := c.item(u)
				ud.append(t)
				if !isComment(u) {
					uu.append(t)
				}
				up = append(up, piece{isRegion(u), len(t.b)})
			}
			dec.add('R', string(bytes.Repeat(ud.b, cs.M)))
			und.add('R', string(bytes.Repeat(uu.b, cs.M)))
			for i := 0; i < cs.M; i++ {
				pieces = append(pieces, up...)
			}
			continue
		}
		t := c.item(it)
		dec.append(t)
		if !isComment(it) {
			und.append(t)
		}
		pieces = append(pieces, piece{isRegion(it), len(t.b)})
	}
	return
}

// the longest stretch the library's scanner has to buffer: from the end of a string/comment to the end of the next
func maxUnit(pieces []piece) int {
	max, run := 0, 0
	for _, p := range pieces {
		run += p.n
		if p.region {
			if run > max {
				max = run
			}
			run = 0
		}
	}
	if run > max {
		max = run
	}
	return max
}

// bytes -> class letters, one per character (the inverse of the concretisation)
func classify(b []byte) string {
	var out []byte
	for len(b) > 0 {
		r, n := utf8.DecodeRune(b)
		b = b[n:]
		switch r {
		case '"':
			out = append(out, 'q')
		case '\\':
			out = append(out, 'b')
		case '/':
			out = append(out, 's')
		case '*':
			out = append(out, 't')
		case '\'':
			out = append(out, 'a')
		case '\n':
			out = append(out, 'n')
		case '{', '}', '[', ']', ':', ',':
			out = append(out, 'p')
		default:
			out = append(out, 'o')
		}
	}
	return string(out)
}

// ------------------------------------------------------------------ segmentation

// segReader hands data over in reads whose sizes come from next (at least 1, at most what is left / fits)
type segReader struct {
	data    []byte
	pos     int
	next    func() int
	eofWith bool // the last read returns its bytes together with io.EOF
}

func (r *segReader) Read(p []byte) (int, error) {
	if r.pos >= len(r.data) {
		return 0, io.EOF
	}
	if len(p) == 0 {
		return 0, nil
	}
	n := r.next()
	if n < 1 {
		n = 1
	}
	if n > len(r.data)-r.pos {
		n = len(r.data) - r.pos
	}
	if n > len(p) {
		n = len(p)
	}
	copy(p, r.data[r.pos:r.pos+n])
	r.pos += n
	if r.eofWith && r.pos == len(r.data) {
		return n, io.EOF
	}
	return n, nil
}

type segMode struct {
	name string
	mk   func(data []byte) io.Reader
}

func constSize(n int) func() int { return func() int { return n } }

func modesFor(cs *c17Case, dec *text, seed int64, large bool) []segMode {
	all := 1 << 30
	ms := []segMode{
		{"whole", func(d []byte) io.Reader { return &segReader{data: d, next: constSize(all)} }},
		{"whole+eof", func(d []byte) io.Reader { return &segReader{data: d, next: constSize(all), eofWith: true} }},
	}
	if large && len(dec.b) > 300000 {
		// (the library rescans a token from its start after every read: keep the number of reads small)
		ms = append(ms, segMode{"65536", func(d []byte) io.Reader { return &segReader{data: d, next: constSize(65536)} }})
	} else if large {
		ms = append(ms,
			segMode{"4096", func(d []byte) io.Reader { return &segReader{data: d, next: constSize(4096)} }},
			segMode{"random<=8192", func(d []byte) io.Reader {
				rng := rand.New(rand.NewSource(seed))
				return &segReader{data: d, next: func() int { return 1 + rng.Intn(8192) }}
			}})
	} else {
		ms = append(ms,
			segMode{"1-byte", func(d []byte) io.Reader { return &segReader{data: d, next: constSize(1)} }},
			segMode{"random", func(d []byte) io.Reader {
				rng := rand.New(rand.NewSource(seed))
				return &segReader{data: d, eofWith: seed&1 == 1, next: func() int {
					if rng.Intn(4) == 0 {
						return 1 + rng.Intn(16)
					}
					return 1 + rng.Intn(3)
				}}
			}})
	}
	if len(cs.Reads) > 0 {
		// the specification's Read(n) sizes are in characters
		var sizes []int
		ci := 0
		for _, n := range cs.Reads {
			sz := 0
			for k := 0; k < n && ci < len(dec.clen); k++ {
				sz += dec.clen[ci]
				ci++
			}
			sizes = append(sizes, sz)
		}
		ms = append(ms, segMode{fmt.Sprintf("spec%v", cs.Reads), func(d []byte) io.Reader {
			i := 0
			return &segReader{data: d, next: func() int {
				if i < len(sizes) {
					i++
					return sizes[i-1]
				}
				return all
			}}
		}})
	}
	return ms
}

// ------------------------------------------------------------------ the replayer

func clip(b []byte) string {
	if len(b) <= 160 {
		return fmt.Sprintf("%q", b)
	}
	return fmt.Sprintf("%q...(%d bytes)...%q", b[:80], len(b), b[len(b)-60:])
}

func clipv(v interface{}) string {
	s := []rune(fmt.Sprintf("%#v", v))
	if len(s) > 200 {
		return string(s[:120]) + "..." + string(s[len(s)-60:])
	}
	return string(s)
}

// which named deviation (if any) describes what the library does with this input
func deviation(cs *c17Case, dec *text, pieces []piece, err error) string {
	if err != nil && errors.Is(err, bufio.ErrTooLong) {
		if maxUnit(pieces) >= scannerLimit {
			return devTokenLimit
		}
		return ""
	}
	if cs.Dev.Same || cs.Fill > 0 || cs.M > 0 {
		return ""
	}
	out, rerr := ioutil.ReadAll(oj.NewJsonPlusReader(bytes.NewReader(dec.b)))
	// the deviation's reader fails with 'comment not match' at the end of input iff dev.err, and has delivered dev.out
	if (rerr != nil) == cs.Dev.Err && (rerr == nil || rerr.Error() == "comment not match") && classify(out) == cs.Dev.Out {
		return devEscapedQuote
	}
	return ""
}

func replayOne(c *rp.Ctx, i int, raw json.RawMessage) rp.Result {
	var cs c17Case
	if err := json.Unmarshal(raw, &cs); err != nil {
		broken("case %d: %v", i, err)
	}
	// all randomness from the seed and the case itself (not its position or its JSON spelling: a failure is re-run alone)
	canon, _ := json.Marshal(&cs)
	h := fnv.New64a()
	h.Write(canon)
	base := int64(h.Sum64()>>1) ^ int64(c.Seed)*0x9E3779B97F4A7C
	large := cs.Fill > 0 || cs.M > 0

	for variant := 0; variant < 2; variant++ {
		cz := &concretiser{rich: variant == 1, rng: rand.New(rand.NewSource(base + int64(variant))), fill: cs.Fill}
		vname := "plain"
		if cz.rich {
			vname = "rich"
		}
		dec, und, pieces := cz.doc(&cs)
		// the replayer's text is the specification's text
		if string(dec.cls) != cs.Dec || string(und.cls) != cs.Exp {
			broken("case %d: concretised classes %q / %q differ from the specification's dec %q / exp %q", i, dec.cls, und.cls, cs.Dec, cs.Exp)
		}
		if !large && (classify(dec.b) != cs.Dec || classify(und.b) != cs.Exp) {
			broken("case %d: bytes %q do not classify to %q", i, dec.b, cs.Dec)
		}
		if cs.Plain != bytes.Equal(dec.b, und.b) {
			broken("case %d: plain=%v but decorated/undecorated texts equal=%v", i, cs.Plain, bytes.Equal(dec.b, und.b))
		}
		var want interface{}
		if err := json.Unmarshal(und.b, &want); err != nil {
			broken("case %d (%s): the undecorated text %s is not JSON: %v", i, vname, clip(und.b), err)
		}

		fail := func(api, mode string, err error, format string, a ...interface{}) rp.Result {
			what := fmt.Sprintf("%s, %s variant, reads %s: ", api, vname, mode) + fmt.Sprintf(format, a...) +
				fmt.Sprintf("; input %s, without comments %s", clip(dec.b), clip(und.b))
			return rp.Result{OK: false, What: what, Deviation: deviation(&cs, dec, pieces, err),
				Observed: map[string]interface{}{"api": api, "variant": vname, "reads": mode, "input_len": len(dec.b), "longest_token": maxUnit(pieces)}}
		}

		for _, m := range modesFor(&cs, dec, base+int64(variant)*77, large) {
			// (1) the library's Unmarshal
			var got interface{}
			if err := oj.Unmarshal(m.mk(dec.b), &got); err != nil {
				return fail("json.Unmarshal", m.name, err, "error %q, encoding/json decodes the undecorated text to %s", err.Error(), clipv(want))
			}
			if !reflect.DeepEqual(got, want) {
				return fail("json.Unmarshal", m.name, nil, "decoded %s, encoding/json decodes the undecorated text to %s", clipv(got), clipv(want))
			}
			// (2) everything the reader delivers, decoded by encoding/json
			out, err := ioutil.ReadAll(oj.NewJsonPlusReader(m.mk(dec.b)))
			if err != nil {
				return fail("NewJsonPlusReader", m.name, err, "error %q after %d bytes", err.Error(), len(out))
			}
			var got2 interface{}
			if err := json.Unmarshal(out, &got2); err != nil {
				return fail("NewJsonPlusReader", m.name, nil, "delivered %s which encoding/json rejects: %v", clip(out), err)
			}
			if !reflect.DeepEqual(got2, want) {
				return fail("NewJsonPlusReader", m.name, nil, "delivered %s = %s, undecorated text = %s", clip(out), clipv(got2), clipv(want))
			}
			// (3) no comments: byte for byte
			if cs.Plain && !bytes.Equal(out, dec.b) {
				return fail("NewJsonPlusReader", m.name, nil, "document without comments not passed through: delivered %s (%s)", clip(out), rp.FirstDiff(out, dec.b))
			}
		}
	}
	return rp.Result{OK: true, Nontriv: true}
}

// one case, with a panic escaping the library turned into a failing result (as rp does for plain replayers)
func replaySafe(c *rp.Ctx, i int, raw json.RawMessage) (r rp.Result) {
	defer func() {
		if e := recover(); e != nil {
			r = rp.Result{I: i, OK: false, What: fmt.Sprintf("panic: %v", e), Observed: string(debug.Stack())}
		}
	}()
	r = replayOne(c, i, raw)
	r.I = i
	return
}

// the cases are independent: replay them on all cores
func replayAll(c *rp.Ctx, cases []json.RawMessage) []rp.Result {
	res := make([]rp.Result, len(cases))
	var wg sync.WaitGroup
	var next int64 = -1
	for w := 0; w < runtime.NumCPU(); w++ {
		wg.Add(1)
		go func() {
			defer wg.Done()
			for {
				i := int(atomic.AddInt64(&next, 1))
				if i >= len(cases) {
					return
				}
				res[i] = replaySafe(c, i, cases[i])
			}
		}()
	}
	wg.Wait()
	return res
}

var registry = map[string]rp.Replayer{}
var batchRegistry = map[string]rp.Batch{"jsonplus": replayAll}

func main() { rp.Main(registry, batchRegistry) }
