package main

import (
	"bytes"
	"compress/flate"
	"encoding/binary"
	"fmt"
	"io"
	"strings"
)

// The RFC 6455 frame TOKENIZER of harness/cmd/c13/frames.go (copied): it extracts fields and unmasks payloads; it
// judges nothing.

type frame struct {
	Fin, R1, R23, Op, M, Form, Len int
	Payload                        []byte // unmasked
	Key                            []byte // masking key (nil: not masked)
	At                             int    // offset of the frame in the stream
}

// tokenize splits a byte stream into frames. junkAt >= 0: the bytes from that offset on are not a whole frame.
func tokenize(b []byte) (frames []frame, junkAt int) {
	off := 0
	for off < len(b) {
		p := b[off:]
		if len(p) < 2 {
			return frames, off
		}
		f := frame{At: off}
		f.Fin = int(p[0] >> 7)
		f.R1 = int(p[0]>>6) & 1
		f.R23 = int(p[0]>>4) & 3
		f.Op = int(p[0] & 0x0f)
		f.M = int(p[1] >> 7)
		l7 := int(p[1] & 0x7f)
		h := 2
		switch l7 {
		case 126:
			if len(p) < 4 {
				return frames, off
			}
			f.Form, f.Len = 16, int(binary.BigEndian.Uint16(p[2:]))
			h = 4
		case 127:
			if len(p) < 10 {
				return frames, off
			}
			v := binary.BigEndian.Uint64(p[2:])
			if v > 1<<31-1 {
				return frames, off
			}
			f.Form, f.Len = 64, int(v)
			h = 10
		default:
			f.Form, f.Len = 7, l7
		}
		var key []byte
		if f.M == 1 {
			if len(p) < h+4 {
				return frames, off
			}
			key = p[h : h+4]
			h += 4
		}
		if len(p) < h+f.Len {
			return frames, off
		}
		f.Payload = append([]byte(nil), p[h:h+f.Len]...)
		if key != nil {
			f.Key = append([]byte(nil), key...)
			for j := range f.Payload {
				f.Payload[j] ^= key[j&3]
			}
		}
		frames = append(frames, f)
		off += h + f.Len
	}
	return frames, -1
}

// inflate is RFC 7692 7.2.2: append 00 00 ff ff and decompress as raw DEFLATE.
func inflate(p []byte) ([]byte, bool) {
	r := flate.NewReader(io.MultiReader(bytes.NewReader(p), strings.NewReader("\x00\x00\xff\xff")))
	out, err := io.ReadAll(r)
	if err != nil && err != io.ErrUnexpectedEOF {
		return out, false
	}
	return out, true
}

// describe renders frames for failure messages.
func describe(frames []frame, max int) string {
	var sb strings.Builder
	for k, f := range frames {
		if k == max {
			fmt.Fprintf(&sb, " ... (%d frames)", len(frames))
			break
		}
		fmt.Fprintf(&sb, " [fin=%d rsv1=%d op=%d mask=%d len=%d", f.Fin, f.R1, f.Op, f.M, f.Len)
		if f.Op >= 8 && f.Len > 0 {
			n := f.Len
			if n > 12 {
				n = 12
			}
			fmt.Fprintf(&sb, " % x", f.Payload[:n])
		}
		sb.WriteString("]")
	}
	if len(frames) == 0 {
		return " (nothing)"
	}
	return sb.String()
}
