package main

import (
	"bytes"
	"encoding/binary"
	"encoding/json"
	"errors"
	"fmt"
	"io"
	"os"
	"reflect"
	"runtime"
	"runtime/debug"
	"strings"
	"sync"
	"sync/atomic"
	"time"

	"github.com/ossrs/go-oryx-lib/websocket"
	"verifharness/rp"
	"verifharness/transport"
)

// X05 "life": a behaviour of spec/wslife/WsLife.tla is a list of calls two applications make on the two ends of one
// session, each with what the call returns, the frames either endpoint writes during it, the handler calls it causes
// and the endpoints' states afterwards. It is replayed, call by call on one goroutine, on two real websocket.Conn
// (client role and server role, websocket.VerifNewConn) joined by the in-memory transport; after every call the
// returned value, the bytes both endpoints wrote (tokenised by frames.go), the handler log, the sticky write error
// and the reader's failed flag are compared with the specification's.

func init() { batchRegistry["life"] = replayLifeAll }

// replayLifeAll replays the behaviours on several goroutines (a behaviour is self-contained: two fresh connections on
// a fresh transport). Each behaviour runs under a guard: a panic escaping the library and a call that never returns
// are failing results, not a dead replayer.
func replayLifeAll(c *rp.Ctx, cases []json.RawMessage) []rp.Result {
	out := make([]rp.Result, len(cases))
	workers := runtime.GOMAXPROCS(0)
	if workers > 8 {
		workers = 8
	}
	var wg sync.WaitGroup
	next := int64(-1)
	for w := 0; w < workers; w++ {
		wg.Add(1)
		go func() {
			defer wg.Done()
			for {
				i := int(atomic.AddInt64(&next, 1))
				if i >= len(cases) {
					return
				}
				out[i] = guarded(c, i, cases[i])
			}
		}()
	}
	wg.Wait()
	return out
}

func guarded(c *rp.Ctx, i int, raw json.RawMessage) rp.Result {
	done := make(chan rp.Result, 1)
	go func() {
		defer func() {
			if e := recover(); e != nil {
				if _, ok := e.(rp.HarnessBug); ok {
					fmt.Fprintf(os.Stderr, "replay: harness bug on case %d: %v\n%s\n", i, e, debug.Stack())
					os.Exit(3)
				}
				done <- rp.Result{I: i, OK: false, What: fmt.Sprintf("panic: %v", e), Observed: string(debug.Stack())}
			}
		}()
		r := replayLife(c, i, raw)
		r.I = i
		done <- r
	}()
	select {
	case r := <-done:
		return r
	case <-time.After(rp.CaseTimeout):
		return rp.Result{I: i, OK: false, What: fmt.Sprintf("stall: the behaviour did not finish within %v (a call into the library never returned)", rp.CaseTimeout)}
	}
}

type bodyJ struct {
	K    string `json:"k"`
	Code int    `json:"code"`
	Pre  []int  `json:"pre"`
	Fill int    `json:"fill"`
}

type frameJ struct {
	K    string `json:"k"`
	T    int    `json:"t"`
	ID   int    `json:"id"`
	F    bool   `json:"f"`
	L    bool   `json:"l"`
	Sz   string `json:"sz"`
	Z    bool   `json:"z"`
	Js   bool   `json:"js"`
	P    int    `json:"p"`
	B    bodyJ  `json:"b"`
	Auto bool   `json:"auto"`
}

type retJ struct {
	C    string `json:"c"`
	Code int    `json:"code"`
	Pre  []int  `json:"pre"`
	Fill int    `json:"fill"`
	T    int    `json:"t"`
	ID   int    `json:"id"`
	Sz   string `json:"sz"`
}

type hcallJ struct {
	K    string `json:"k"`
	Code int    `json:"code"`
	Pre  []int  `json:"pre"`
	Fill int    `json:"fill"`
	P    int    `json:"p"`
}

type lstep struct {
	A   string `json:"a"`
	E   string `json:"e"`
	Arg struct {
		Sz   string `json:"sz"`
		T    int    `json:"t"`
		P    int    `json:"p"`
		B    bool   `json:"b"`
		Mode string `json:"mode"`
		Body bodyJ  `json:"body"`
	} `json:"arg"`
	Ret retJ      `json:"ret"`
	Wc  []frameJ  `json:"wc"`
	Ws  []frameJ  `json:"ws"`
	Hc  []hcallJ  `json:"hc"`
	St  [2]string `json:"st"`
	Wl  [2]string `json:"wl"`
	Rf  [2]bool   `json:"rf"`
}

type handlersJ struct {
	Close string `json:"close"`
	Ping  string `json:"ping"`
	Pong  string `json:"pong"`
}

type lifeCase struct {
	Fam   string    `json:"fam"`
	WBuf  int       `json:"wbuf"`
	Z     bool      `json:"z"`
	Hc    handlersJ `json:"hc"`
	Hs    handlersJ `json:"hs"`
	Lc    int64     `json:"lc"`
	Ls    int64     `json:"ls"`
	Steps []lstep   `json:"steps"`
}

// ------------------------------------------------------------------ payloads (the replayer's choice of bytes)
const (
	smallLen  = 5
	bigFirst  = 200 // first part of a message written in two parts: larger than the write buffer
	bigSecond = 50
)

func fillBytes(n, id, seed int, text bool) []byte {
	b := make([]byte, n)
	for i := range b {
		v := (id*131 + i*7 + seed*13) % 251
		if text {
			v = 0x20 + v%0x5f // printable ASCII: valid UTF-8
		}
		b[i] = byte(v)
	}
	if n > 0 {
		b[0] = '#' // no JSON text starts like this
	}
	return b
}

type jsonVal struct {
	ID int    `json:"id"`
	S  string `json:"s"`
}

func jsonOf(id, seed int) jsonVal { return jsonVal{ID: id, S: fmt.Sprintf("x05 život %d", seed)} }

var pmOnce sync.Once
var pmShared *websocket.PreparedMessage
var pmData []byte
var pmErr error

// one PreparedMessage for every connection of the process: both roles, with and without compression
func prepared(seed int) (*websocket.PreparedMessage, []byte, error) {
	pmOnce.Do(func() {
		pmData = fillBytes(40, 77, seed, false)
		pmShared, pmErr = websocket.NewPreparedMessage(websocket.BinaryMessage, append([]byte(nil), pmData...))
	})
	return pmShared, pmData, pmErr
}

// payloadOf is what the application writes for the message (id, sz) of type t.
func payloadOf(f frameJ, seed int) []byte {
	switch f.Sz {
	case "empty":
		return []byte{}
	case "small":
		return fillBytes(smallLen, f.ID, seed, f.T == 1)
	case "big":
		return fillBytes(bigFirst+bigSecond, f.ID, seed, f.T == 1)
	case "pm":
		_, d, _ := prepared(seed)
		return d
	case "json":
		b, _ := json.Marshal(jsonOf(f.ID, seed))
		return b
	}
	rp.Bug("size class %q", f.Sz)
	return nil
}

func ctlPayload(p int) []byte {
	b := make([]byte, p)
	for i := range b {
		b[i] = byte('A' + (i*3+p)%26)
	}
	return b
}

func reasonOf(pre []int, fill int) []byte {
	var b []byte
	for _, v := range pre {
		b = append(b, byte(v))
	}
	if fill < 0 {
		return append(b, "(any reason)"...)
	}
	return append(b, bytes.Repeat([]byte{'a'}, fill)...)
}

// closeBody renders a Close body of the specification; the 2-byte code + reason layout is RFC 6455 5.5.1.
func closeBody(b bodyJ) []byte {
	switch b.K {
	case "empty":
		return []byte{}
	case "raw1":
		return []byte{0x03}
	case "code":
		out := make([]byte, 2)
		binary.BigEndian.PutUint16(out, uint16(b.Code))
		return append(out, reasonOf(b.Pre, b.Fill)...)
	}
	rp.Bug("close body kind %q", b.K)
	return nil
}

// ------------------------------------------------------------------ one endpoint
var errHandler = errors.New("x05: the application's handler says no")

type hcall struct {
	K    string
	Code int
	Text string
	Data string
}

type endpoint struct {
	name   string
	server bool
	ws     *websocket.Conn
	tc     *transport.Conn
	log    []hcall
	done   int // bytes of tc.Out already tokenised
	// assembly of the data message this endpoint is writing (for the wire comparison)
	curOpen bool
	curT    int
	curZ    bool
	curBuf  []byte
	w       io.WriteCloser // the writer of a message written in two parts
	wid     frameJ
	stale   io.Reader // a reader the application left inside a message
}

func (ep *endpoint) install(h handlersJ, variant int) {
	c := ep.ws
	switch h.Close {
	case "default":
		if variant&1 == 1 {
			c.SetCloseHandler(nil)
		}
	case "silent":
		c.SetCloseHandler(func(code int, text string) error {
			ep.log = append(ep.log, hcall{K: "close", Code: code, Text: text})
			return nil
		})
	case "err":
		c.SetCloseHandler(func(code int, text string) error {
			ep.log = append(ep.log, hcall{K: "close", Code: code, Text: text})
			return errHandler
		})
	case "own":
		c.SetCloseHandler(func(code int, text string) error {
			ep.log = append(ep.log, hcall{K: "close", Code: code, Text: text})
			c.WriteControl(websocket.CloseMessage, websocket.FormatCloseMessage(websocket.CloseNormalClosure, "bye"), time.Time{})
			return nil
		})
	default:
		rp.Bug("close handler mode %q", h.Close)
	}
	switch h.Ping {
	case "default":
		if variant&2 == 2 {
			c.SetPingHandler(nil)
		}
	case "silent":
		c.SetPingHandler(func(d string) error { ep.log = append(ep.log, hcall{K: "ping", Data: d}); return nil })
	case "err":
		c.SetPingHandler(func(d string) error { ep.log = append(ep.log, hcall{K: "ping", Data: d}); return errHandler })
	default:
		rp.Bug("ping handler mode %q", h.Ping)
	}
	switch h.Pong {
	case "default":
		if variant&4 == 4 {
			c.SetPongHandler(nil)
		}
	case "silent":
		c.SetPongHandler(func(d string) error { ep.log = append(ep.log, hcall{K: "pong", Data: d}); return nil })
	case "err":
		c.SetPongHandler(func(d string) error { ep.log = append(ep.log, hcall{K: "pong", Data: d}); return errHandler })
	default:
		rp.Bug("pong handler mode %q", h.Pong)
	}
}

// got is what a call returned, in the specification's classes.
type got struct {
	C    string
	Code int
	Text string
	T    int
	Data []byte
	Err  error
}

func (g got) String() string {
	s := g.C
	if g.C == "close" || g.C == "eof" {
		s += fmt.Sprintf("(%d,%q)", g.Code, g.Text)
	}
	if g.C == "msg" || g.C == "part" {
		s += fmt.Sprintf("(type %d, %d bytes)", g.T, len(g.Data))
	}
	if g.Err != nil {
		s += fmt.Sprintf(" [%T %v]", g.Err, g.Err)
	}
	return s
}

func isTransportErr(err error) bool {
	return errors.Is(err, transport.ErrClosed) || errors.Is(err, io.ErrClosedPipe) || errors.Is(err, transport.ErrWouldBlock)
}

func classWrite(err error) got {
	switch {
	case err == nil:
		return got{C: "ok"}
	case err == websocket.ErrCloseSent:
		return got{C: "closesent", Err: err}
	case isTransportErr(err):
		return got{C: "io", Err: err}
	}
	return got{C: "invalid", Err: err}
}

func classRead(err error) got {
	var ce *websocket.CloseError
	switch {
	case err == nil:
		return got{C: "ok"}
	case errors.As(err, &ce) && reflect.TypeOf(err) == reflect.TypeOf(ce):
		if ce.Code == websocket.CloseAbnormalClosure {
			return got{C: "eof", Code: ce.Code, Text: ce.Text, Err: err}
		}
		return got{C: "close", Code: ce.Code, Text: ce.Text, Err: err}
	case err == websocket.ErrReadLimit:
		return got{C: "limit", Err: err}
	case err == errHandler:
		return got{C: "handler", Err: err}
	case err == websocket.ErrCloseSent:
		return got{C: "closesent", Err: err}
	case errors.Is(err, transport.ErrWouldBlock):
		return got{C: "wouldblock", Err: err}
	case isTransportErr(err) || err == io.EOF:
		return got{C: "io", Err: err}
	}
	return got{C: "protocol", Err: err}
}

// ------------------------------------------------------------------ the calls
func (ep *endpoint) call(st *lstep, seed, v int) got {
	c := ep.ws
	switch st.A {
	case "wdata":
		f := frameJ{T: st.Arg.T, Sz: st.Arg.Sz, ID: idOfWrite(st)}
		p := payloadOf(f, seed)
		switch v % 3 {
		case 0:
			return classWrite(c.WriteMessage(st.Arg.T, p))
		default:
			w, err := c.NextWriter(st.Arg.T)
			if err != nil {
				if w != nil {
					return got{C: "harness", Err: fmt.Errorf("NextWriter returned a writer together with %v", err)}
				}
				return classWrite(err)
			}
			cut := 0
			if v%3 == 2 {
				cut = len(p) / 2
			}
			if _, err := w.Write(p[:cut]); err != nil {
				return classWrite(err)
			}
			if _, err := w.Write(p[cut:]); err != nil {
				return classWrite(err)
			}
			return classWrite(w.Close())
		}
	case "wjson":
		if v%2 == 0 {
			return classWrite(c.WriteJSON(jsonOf(idOfWrite(st), seed)))
		}
		return classWrite(websocket.WriteJSON(c, jsonOf(idOfWrite(st), seed)))
	case "wprep":
		pm, _, err := prepared(seed)
		if err != nil {
			return got{C: "harness", Err: err}
		}
		return classWrite(c.WritePreparedMessage(pm))
	case "wbegin":
		f := frameJ{T: st.Arg.T, Sz: "big", ID: idOfWrite(st)}
		p := payloadOf(f, seed)
		w, err := c.NextWriter(st.Arg.T)
		if err != nil {
			return classWrite(err)
		}
		if _, err := w.Write(p[:bigFirst]); err != nil {
			return classWrite(err)
		}
		ep.w, ep.wid = w, f
		return got{C: "ok"}
	case "wend":
		if ep.w == nil {
			rp.Bug("wend without a writer")
		}
		p := payloadOf(ep.wid, seed)
		w := ep.w
		ep.w = nil
		if _, err := w.Write(p[bigFirst:]); err != nil {
			return classWrite(err)
		}
		return classWrite(w.Close())
	case "wclose":
		b := closeBody(st.Arg.Body)
		if st.Arg.Body.K == "code" && v%2 == 0 {
			// the library's own formatter (the matrix stage checks its bytes one by one)
			b = websocket.FormatCloseMessage(st.Arg.Body.Code, string(reasonOf(st.Arg.Body.Pre, st.Arg.Body.Fill)))
		}
		if (v/2)%2 == 0 || ep.w != nil { // WriteMessage would close the open writer (NextWriter's documented behaviour)
			return classWrite(c.WriteControl(websocket.CloseMessage, b, time.Time{}))
		}
		return classWrite(c.WriteMessage(websocket.CloseMessage, b))
	case "wping", "wpong":
		t := websocket.PingMessage
		if st.A == "wpong" {
			t = websocket.PongMessage
		}
		if v%2 == 0 || ep.w != nil {
			return classWrite(c.WriteControl(t, ctlPayload(st.Arg.P), time.Now().Add(time.Hour)))
		}
		return classWrite(c.WriteMessage(t, ctlPayload(st.Arg.P)))
	case "setz":
		c.EnableWriteCompression(st.Arg.B)
		return got{C: "ok"}
	case "tclose":
		if v%2 == 0 {
			return classWrite(c.Close())
		}
		return classWrite(c.UnderlyingConn().Close())
	case "read":
		old := ep.stale
		ep.stale = nil
		g := ep.read(st.Arg.Mode, v)
		if old != nil {
			// NextReader: "There can be at most one open reader on a connection": the reader of the previous message is over
			n, err := old.Read(make([]byte, 8))
			if n != 0 || err == nil {
				return got{C: "stale-reader-alive", Err: fmt.Errorf("the reader of the previous message still returns (%d, %v) after the next NextReader", n, err)}
			}
		}
		return g
	}
	rp.Bug("action %q", st.A)
	return got{}
}

func idOfWrite(st *lstep) int {
	for _, l := range [][]frameJ{st.Wc, st.Ws} {
		for _, f := range l {
			if f.K == "data" {
				return f.ID
			}
		}
	}
	return 1000 // the write fails: the payload does not matter
}

func (ep *endpoint) read(mode string, v int) got {
	c := ep.ws
	switch mode {
	case "msg":
		if v%2 == 0 {
			t, p, err := c.ReadMessage()
			if err != nil {
				return classRead(err)
			}
			return got{C: "msg", T: t, Data: p}
		}
		t, r, err := c.NextReader()
		if err != nil {
			if r != nil {
				return got{C: "harness", Err: fmt.Errorf("NextReader returned a reader together with %v", err)}
			}
			return classRead(err)
		}
		p, err := io.ReadAll(r)
		if err != nil {
			return classRead(err)
		}
		return got{C: "msg", T: t, Data: p}
	case "part":
		t, r, err := c.NextReader()
		if err != nil {
			return classRead(err)
		}
		buf := make([]byte, 2)
		n, err := io.ReadFull(r, buf)
		if err == io.EOF && n == 0 {
			return got{C: "msg", T: t, Data: []byte{}} // an empty message is read completely by any read
		}
		if err != nil {
			return classRead(err)
		}
		ep.stale = r
		return got{C: "part", T: t, Data: buf[:n]}
	case "json":
		var val jsonVal
		var err error
		if v%2 == 0 {
			err = c.ReadJSON(&val)
		} else {
			err = websocket.ReadJSON(c, &val)
		}
		if err == nil {
			b, _ := json.Marshal(val)
			return got{C: "json", T: websocket.TextMessage, Data: b}
		}
		if err == io.ErrUnexpectedEOF {
			return got{C: "ueof", Err: err}
		}
		var se *json.SyntaxError
		var ue *json.UnmarshalTypeError
		if errors.As(err, &se) || errors.As(err, &ue) {
			return got{C: "jsonerr", Err: err}
		}
		return classRead(err)
	}
	rp.Bug("read mode %q", mode)
	return got{}
}

// ------------------------------------------------------------------ the wire
// item is a frame of the specification as found on the wire: a control frame, or a piece of a data message (one or
// more frames of one message with nothing in between).
type item struct {
	K       string
	T       int
	First   bool
	Last    bool
	Z       bool
	Payload []byte // control frames: the payload; data: the message so far (at Last: the whole message, inflated)
	Inflate bool   // data, Last: the compressed message inflates
	Frames  []frame
}

// drain tokenises what the endpoint wrote since the last call.
func (ep *endpoint) drain() ([]item, error) {
	all := ep.tc.Out.Bytes()
	fresh := all[ep.done:]
	frames, junkAt := tokenize(fresh)
	if junkAt >= 0 {
		return nil, fmt.Errorf("%s wrote bytes that are no whole frame (offset %d of the stream): % x", ep.name, ep.done+junkAt, fresh[junkAt:min(len(fresh), junkAt+16)])
	}
	ep.done = len(all)
	var items []item
	for _, f := range frames {
		wantMask := 1
		if ep.server {
			wantMask = 0
		}
		if f.M != wantMask {
			return nil, fmt.Errorf("%s wrote a frame with mask bit %d", ep.name, f.M)
		}
		if f.R23 != 0 {
			return nil, fmt.Errorf("%s wrote a frame with RSV2/RSV3 set", ep.name)
		}
		switch f.Op {
		case 8, 9, 10:
			if f.Fin != 1 || f.R1 != 0 || f.Len > 125 {
				return nil, fmt.Errorf("%s wrote a control frame with fin=%d rsv1=%d len=%d", ep.name, f.Fin, f.R1, f.Len)
			}
			items = append(items, item{K: map[int]string{8: "close", 9: "ping", 10: "pong"}[f.Op], Payload: f.Payload, First: true, Last: true, Frames: []frame{f}})
		case 1, 2:
			if ep.curOpen {
				return nil, fmt.Errorf("%s started a message inside a message", ep.name)
			}
			ep.curOpen, ep.curT, ep.curZ, ep.curBuf = true, f.Op, f.R1 == 1, append([]byte(nil), f.Payload...)
			items = append(items, item{K: "data", T: f.Op, First: true, Z: ep.curZ, Frames: []frame{f}})
		case 0:
			if !ep.curOpen {
				return nil, fmt.Errorf("%s wrote a continuation frame without a message", ep.name)
			}
			if f.R1 != 0 {
				return nil, fmt.Errorf("%s wrote a continuation frame with RSV1", ep.name)
			}
			ep.curBuf = append(ep.curBuf, f.Payload...)
			if n := len(items); n > 0 && items[n-1].K == "data" && !items[n-1].Last {
				items[n-1].Frames = append(items[n-1].Frames, f)
			} else {
				items = append(items, item{K: "data", T: ep.curT, Z: ep.curZ, Frames: []frame{f}})
			}
		default:
			return nil, fmt.Errorf("%s wrote a frame with opcode %d", ep.name, f.Op)
		}
		if f.Op <= 2 {
			it := &items[len(items)-1]
			it.Payload = ep.curBuf
			if f.Fin == 1 {
				it.Last = true
				it.Inflate = true
				if ep.curZ {
					it.Payload, it.Inflate = inflate(ep.curBuf)
				}
				ep.curOpen, ep.curBuf = false, nil
			}
		}
	}
	return items, nil
}

func describeItems(items []item) string {
	var fs []frame
	for _, it := range items {
		fs = append(fs, it.Frames...)
	}
	return describe(fs, 8)
}

// sameItems compares what an endpoint wrote during a call with the specification's frames.
func sameItems(who string, want []frameJ, gotItems []item, seed int) error {
	if len(want) != len(gotItems) {
		return fmt.Errorf("%s wrote %d frames/pieces, the specification %d: wire%s, expected %s", who, len(gotItems), len(want), describeItems(gotItems), describeWant(want))
	}
	for k, w := range want {
		g := gotItems[k]
		if w.K != g.K {
			return fmt.Errorf("%s: frame %d is a %s, the specification says %s: wire%s", who, k+1, g.K, w.K, describeItems(gotItems))
		}
		switch w.K {
		case "ping", "pong":
			if !bytes.Equal(g.Payload, ctlPayload(w.P)) {
				return fmt.Errorf("%s: %s carries %q (%d bytes), the specification says the %d bytes %q", who, w.K, g.Payload, len(g.Payload), w.P, ctlPayload(w.P))
			}
		case "close":
			wb := closeBody(w.B)
			if w.Auto && w.B.K == "code" {
				// a Close the endpoint writes on its own account: the code is judged, the reason is the library's
				if len(g.Payload) < 2 || int(binary.BigEndian.Uint16(g.Payload)) != w.B.Code {
					return fmt.Errorf("%s: the endpoint's own Close frame has the body % x, the specification says code %d", who, g.Payload, w.B.Code)
				}
			} else if !bytes.Equal(g.Payload, wb) {
				return fmt.Errorf("%s: Close frame has the body % x (%d bytes), the specification says % x (%d bytes)", who, head(g.Payload, 24), len(g.Payload), head(wb, 24), len(wb))
			}
		case "data":
			if g.First != w.F || g.Last != w.L {
				return fmt.Errorf("%s: data piece %d has first=%v last=%v, the specification says first=%v last=%v: wire%s", who, k+1, g.First, g.Last, w.F, w.L, describeItems(gotItems))
			}
			if g.T != w.T {
				return fmt.Errorf("%s: message of type %d, the specification says %d", who, g.T, w.T)
			}
			if w.F && g.Z != w.Z {
				return fmt.Errorf("%s: message with RSV1=%v, the specification says compressed=%v", who, g.Z, w.Z)
			}
			full := payloadOf(w, seed)
			if w.L {
				if !g.Inflate {
					return fmt.Errorf("%s: the compressed message does not inflate (RFC 7692 7.2.2)", who)
				}
				if !bytes.Equal(g.Payload, full) && !(w.Js && bytes.Equal(g.Payload, append(append([]byte(nil), full...), '\n'))) {
					return fmt.Errorf("%s: message on the wire is %d bytes %q, the application wrote %d bytes %q", who, len(g.Payload), head(g.Payload, 24), len(full), head(full, 24))
				}
			} else if len(g.Payload) == 0 || !bytes.HasPrefix(full, g.Payload) {
				return fmt.Errorf("%s: the first part of the message on the wire (%d bytes) is not a beginning of what the application wrote", who, len(g.Payload))
			}
		default:
			rp.Bug("frame kind %q", w.K)
		}
	}
	return nil
}

func head(b []byte, n int) []byte {
	if len(b) > n {
		return b[:n]
	}
	return b
}

func describeWant(want []frameJ) string {
	var sb strings.Builder
	for _, w := range want {
		switch w.K {
		case "data":
			fmt.Fprintf(&sb, " [data t=%d id=%d first=%v last=%v %s]", w.T, w.ID, w.F, w.L, w.Sz)
		case "close":
			fmt.Fprintf(&sb, " [close %s %d auto=%v]", w.B.K, w.B.Code, w.Auto)
		default:
			fmt.Fprintf(&sb, " [%s %d bytes]", w.K, w.P)
		}
	}
	if len(want) == 0 {
		return "(nothing)"
	}
	return sb.String()
}

// ------------------------------------------------------------------ the replay
func replayLife(c *rp.Ctx, i int, raw json.RawMessage) rp.Result {
	var cs lifeCase
	if err := json.Unmarshal(raw, &cs); err != nil {
		rp.Bug("life case: %v", err)
	}
	h := rp.ContentHash(raw) + c.Seed*7919
	if cs.WBuf <= 0 || cs.WBuf >= bigFirst {
		rp.Bug("write buffer of %d bytes", cs.WBuf)
	}
	a, b := transport.NewConnPair()
	a.In.NoBlock, b.In.NoBlock = true, true
	rbuf := []int{0, 125, 256, 1024}[h%4]
	cl := &endpoint{name: "client", tc: a, ws: websocket.VerifNewConn(a, false, rbuf, cs.WBuf, cs.Z)}
	sv := &endpoint{name: "server", server: true, tc: b, ws: websocket.VerifNewConn(b, true, rbuf, cs.WBuf, cs.Z)}
	cl.install(cs.Hc, h/4)
	sv.install(cs.Hs, h/32)
	if cs.Lc > 0 {
		cl.ws.SetReadLimit(cs.Lc)
	}
	if cs.Ls > 0 {
		sv.ws.SetReadLimit(cs.Ls)
	}
	if cl.ws.CloseHandler() == nil || cl.ws.PingHandler() == nil || cl.ws.PongHandler() == nil {
		return rp.Fail(i, "CloseHandler/PingHandler/PongHandler of a new connection return nil")
	}
	eps := map[string]*endpoint{"c": cl, "s": sv}
	fail := func(k int, st *lstep, dev string, format string, args ...interface{}) rp.Result {
		what := fmt.Sprintf("step %d (%s %s %s): ", k+1, eps[st.E].name, st.A, argText(st)) + fmt.Sprintf(format, args...) + "; behaviour: " + storyOf(cs.Steps[:k+1])
		return rp.Result{I: i, OK: false, What: what, Deviation: dev}
	}
	for k := range cs.Steps {
		st := &cs.Steps[k]
		ep := eps[st.E]
		if ep == nil {
			rp.Bug("endpoint %q", st.E)
		}
		cl.log, sv.log = nil, nil
		g := ep.call(st, c.Seed, h/256+k*5)
		// 1. what the call returned
		if e := sameRet(st, g, c.Seed); e != nil {
			return fail(k, st, deviationOf(&cs, k, g), "%v", e)
		}
		// 2. what both endpoints wrote meanwhile
		for _, x := range []struct {
			ep   *endpoint
			want []frameJ
		}{{cl, st.Wc}, {sv, st.Ws}} {
			items, err := x.ep.drain()
			if err != nil {
				return fail(k, st, "", "%v", err)
			}
			if e := sameItems(x.ep.name, x.want, items, c.Seed); e != nil {
				return fail(k, st, deviationOf(&cs, k, g), "%v", e)
			}
		}
		// 3. the handlers the application set
		if e := sameCalls(st, ep, eps[peerOf(st.E)]); e != nil {
			return fail(k, st, "", "%v", e)
		}
		// 4. the sticky write error and the reader's failed flag
		for j, x := range []*endpoint{cl, sv} {
			we := x.ws.VerifWriteErr()
			wl := "open"
			switch {
			case we == websocket.ErrCloseSent:
				wl = "closesent"
			case we != nil:
				wl = "io"
			}
			if wl != st.Wl[j] {
				return fail(k, st, deviationOf(&cs, k, g), "the %s's sticky write error is %v (%s), the specification says %s", x.name, we, wl, st.Wl[j])
			}
			if f := x.ws.VerifReadState().Failed; f != st.Rf[j] {
				return fail(k, st, deviationOf(&cs, k, g), "the %s's reader failed=%v, the specification says %v", x.name, f, st.Rf[j])
			}
		}
	}
	return rp.Result{I: i, OK: true, Nontriv: true}
}

func peerOf(e string) string {
	if e == "c" {
		return "s"
	}
	return "c"
}

func argText(st *lstep) string {
	switch st.A {
	case "wdata":
		return fmt.Sprintf("%s type %d", st.Arg.Sz, st.Arg.T)
	case "wclose":
		return fmt.Sprintf("%s %d %q", st.Arg.Body.K, st.Arg.Body.Code, head(reasonOf(st.Arg.Body.Pre, st.Arg.Body.Fill), 12))
	case "wping", "wpong":
		return fmt.Sprintf("%d bytes", st.Arg.P)
	case "read":
		return st.Arg.Mode
	case "setz":
		return fmt.Sprint(st.Arg.B)
	}
	return ""
}

func storyOf(steps []lstep) string {
	var parts []string
	for _, s := range steps {
		parts = append(parts, strings.TrimSpace(fmt.Sprintf("%s.%s %s", s.E, s.A, argText(&s))))
	}
	return strings.Join(parts, " -> ")
}

func sameRet(st *lstep, g got, seed int) error {
	w := st.Ret
	if g.C == "harness" || g.C == "stale-reader-alive" {
		return g.Err
	}
	if g.C == "wouldblock" {
		return fmt.Errorf("the call wanted more bytes than the peer has written (%v); the specification says it returns %s", g.Err, w.C)
	}
	if g.C != w.C && !(failedWrite(g.C) && failedWrite(w.C)) {
		return fmt.Errorf("returned %v, the specification says %s", g, retText(w))
	}
	switch w.C {
	case "close":
		if g.Code != w.Code || (w.Fill >= 0 && g.Text != string(reasonOf(w.Pre, w.Fill))) {
			return fmt.Errorf("returned %v, the specification says %s", g, retText(w))
		}
		// CloseError.Error: the code and the text are in the message
		if msg := g.Err.Error(); !strings.Contains(msg, fmt.Sprint(w.Code)) || !strings.Contains(msg, g.Text) {
			return fmt.Errorf("the close error's message %q does not show code and text", msg)
		}
		if !websocket.IsCloseError(g.Err, w.Code) || websocket.IsUnexpectedCloseError(g.Err, w.Code) || !websocket.IsUnexpectedCloseError(g.Err, w.Code+1) {
			return fmt.Errorf("IsCloseError / IsUnexpectedCloseError misjudge %v", g.Err)
		}
	case "eof":
		if g.Code != 1006 {
			return fmt.Errorf("returned %v, the specification says %s", g, retText(w))
		}
	case "msg", "part", "json":
		f := frameJ{T: w.T, ID: w.ID, Sz: w.Sz, Js: w.C == "json"}
		full := payloadOf(f, seed)
		if g.T != w.T {
			return fmt.Errorf("delivered a message of type %d, the specification says type %d", g.T, w.T)
		}
		switch w.C {
		case "part":
			if len(g.Data) == 0 || !bytes.HasPrefix(full, g.Data) {
				return fmt.Errorf("the first bytes read %q are not the beginning of message %d (%q...)", g.Data, w.ID, head(full, 8))
			}
		default:
			if !bytes.Equal(g.Data, full) && !(f.Sz == "json" && bytes.Equal(g.Data, append(append([]byte(nil), full...), '\n'))) {
				return fmt.Errorf("delivered %d bytes %q, message %d is %d bytes %q", len(g.Data), head(g.Data, 24), w.ID, len(full), head(full, 24))
			}
		}
	}
	return nil
}

// a write that fails for another reason than a Close sent before: "io" (and the error sticks) or "invalid" (the call is
// refused, nothing changes). Which error value it is, is the library's business; the sticky write error is compared apart.
func failedWrite(c string) bool { return c == "io" || c == "invalid" }

func retText(w retJ) string {
	switch w.C {
	case "close":
		return fmt.Sprintf("close(%d,%q)", w.Code, head(reasonOf(w.Pre, w.Fill), 16))
	case "msg", "part", "json":
		return fmt.Sprintf("%s(type %d, message %d)", w.C, w.T, w.ID)
	}
	return w.C
}

func sameCalls(st *lstep, ep, peer *endpoint) error {
	if len(peer.log) != 0 {
		return fmt.Errorf("handlers of the %s were called during a call on the %s: %v", peer.name, ep.name, peer.log)
	}
	if len(ep.log) != len(st.Hc) {
		return fmt.Errorf("the application's handlers were called %d times %v, the specification says %d times", len(ep.log), ep.log, len(st.Hc))
	}
	for k, w := range st.Hc {
		g := ep.log[k]
		if g.K != w.K {
			return fmt.Errorf("handler call %d is %s, the specification says %s", k+1, g.K, w.K)
		}
		if w.K == "close" {
			if g.Code != w.Code || (w.Fill >= 0 && g.Text != string(reasonOf(w.Pre, w.Fill))) {
				return fmt.Errorf("the close handler got (%d, %q), the specification says (%d, %q)", g.Code, g.Text, w.Code, reasonOf(w.Pre, w.Fill))
			}
		} else if g.Data != string(ctlPayload(w.P)) {
			return fmt.Errorf("the %s handler got %q, the frame's application data is %q", w.K, g.Data, ctlPayload(w.P))
		}
	}
	return nil
}

// deviationOf names the deviation a mismatch at step k belongs to, if it is one the specification knows.
func deviationOf(cs *lifeCase, k int, g got) string {
	st := &cs.Steps[k]
	if st.A == "read" && st.Ret.C == "protocol" {
		// RFC 6455 5.5.1: a Close body, if there is one, starts with a 2-byte code. The library takes a body of one byte
		// for no body at all (close code 1005, its handler called, an empty Close echoed)
		for j := 0; j < k; j++ {
			p := &cs.Steps[j]
			if p.A == "wclose" && p.E == peerOf(st.E) && p.Ret.C == "ok" && p.Arg.Body.K == "raw1" {
				return "X05/one-byte-close-body-accepted"
			}
		}
	}
	return ""
}
