package main

import (
	"bufio"
	"bytes"
	"encoding/json"
	"errors"
	"fmt"
	"io"
	"net"
	"net/http"
	"net/http/cookiejar"
	"net/http/httptest"
	"net/url"
	"strings"
	"time"

	"github.com/ossrs/go-oryx-lib/websocket"
	"verifharness/rp"
	"verifharness/transport"
)

// X05 "api": fixed scenarios around the handshake and the connection that need a clock, a socket or bytes the
// library itself never writes. Each states the clause of RFC 6455 / of the documentation it stands for.

func init() { registry["api"] = replayAPI }

type apiCase struct {
	Kind string `json:"kind"`
}

func replayAPI(c *rp.Ctx, i int, raw json.RawMessage) rp.Result {
	var cs apiCase
	if err := json.Unmarshal(raw, &cs); err != nil {
		rp.Bug("api case: %v", err)
	}
	f, ok := apiCases[cs.Kind]
	if !ok {
		rp.Bug("api case %q", cs.Kind)
	}
	r := f(c, i)
	r.I = i
	if r.OK {
		r.Nontriv = true
	}
	return r
}

var apiCases = map[string]func(c *rp.Ctx, i int) rp.Result{
	"handshake-timeout":  apiHandshakeTimeout,
	"cookie-jar":         apiCookieJar,
	"pipelined-data":     apiPipelined,
	"prepared-shared":    apiPrepared,
	"prepared-mask-keys": apiPreparedMask,
	"abandoned-cut":      apiAbandonedCut,
	"not-hijacker":       apiNotHijacker,
	"deprecated-upgrade": apiDeprecatedUpgrade,
	"new-client":         apiNewClient,
	"accessors":          apiAccessors,
	"small-write-buffer": apiSmallWriteBuffer,
}

// scriptedPipe is a NetDial that hands out one end of a net.Pipe; serve runs on the other end with the request read.
func scriptedPipe(serve func(req *http.Request, br *bufio.Reader, w net.Conn)) (func(network, addr string) (net.Conn, error), chan *http.Request) {
	got := make(chan *http.Request, 1)
	return func(network, addr string) (net.Conn, error) {
		cli, srv := net.Pipe()
		go func() {
			defer srv.Close()
			srv.SetDeadline(time.Now().Add(ioWait))
			br := bufio.NewReader(srv)
			req, err := http.ReadRequest(br)
			if err != nil {
				got <- nil
				return
			}
			got <- req
			serve(req, br, srv)
		}()
		return cli, nil
	}, got
}

func answer101(req *http.Request, extra string) string {
	return "HTTP/1.1 101 Switching Protocols\r\nUpgrade: websocket\r\nConnection: Upgrade\r\nSec-WebSocket-Accept: " +
		acceptOf(req.Header.Get("Sec-Websocket-Key")) + "\r\n" + extra + "\r\n"
}

// Dialer.HandshakeTimeout "specifies the duration for the handshake to complete"
func apiHandshakeTimeout(c *rp.Ctx, i int) rp.Result {
	release := make(chan struct{})
	defer close(release)
	nd, _ := scriptedPipe(func(req *http.Request, br *bufio.Reader, w net.Conn) { <-release }) // a server that never answers
	d := &websocket.Dialer{NetDial: nd, HandshakeTimeout: 150 * time.Millisecond}
	type res struct {
		conn *websocket.Conn
		err  error
	}
	done := make(chan res, 1)
	t0 := time.Now()
	go func() {
		conn, _, err := d.Dial("ws://"+hostName+"/slow", nil)
		done <- res{conn, err}
	}()
	select {
	case r := <-done:
		var ne net.Error
		if r.conn != nil || r.err == nil || !errors.As(r.err, &ne) || !ne.Timeout() {
			return rp.Fail(i, "Dial with HandshakeTimeout 150ms against a silent server returned conn=%v err=%v after %v; expected a timeout error", r.conn != nil, r.err, time.Since(t0))
		}
		return rp.Result{OK: true}
	case <-time.After(ioWait):
		return rp.Fail(i, "Dial with HandshakeTimeout 150ms against a silent server did not return within %v", ioWait)
	}
}

// Dialer.Jar: "If Jar is nil, cookies are not sent in requests and ignored in responses" - and otherwise they are
func apiCookieJar(c *rp.Ctx, i int) rp.Result {
	for _, withJar := range []bool{true, false} {
		nd, got := scriptedPipe(func(req *http.Request, br *bufio.Reader, w net.Conn) {
			io.WriteString(w, answer101(req, "Set-Cookie: tok=xyz; Path=/\r\n"))
			io.Copy(io.Discard, br)
		})
		d := &websocket.Dialer{NetDial: nd, HandshakeTimeout: ioWait}
		u, _ := url.Parse("http://" + hostName + "/jar")
		var jar http.CookieJar
		if withJar {
			jar, _ = cookiejar.New(nil)
			jar.SetCookies(u, []*http.Cookie{{Name: "sid", Value: "abc", Path: "/"}})
			d.Jar = jar
		}
		conn, resp, err := d.Dial("ws://"+hostName+"/jar", nil)
		if err != nil {
			return rp.Fail(i, "Dial (jar: %v): %v", withJar, err)
		}
		conn.Close()
		req := <-got
		ck := req.Header.Get("Cookie")
		if withJar {
			if ck != "sid=abc" {
				return rp.Fail(i, "the jar holds sid=abc for the URL, the request's Cookie header is %q", ck)
			}
			names := ""
			for _, k := range jar.Cookies(u) {
				names += k.Name + "=" + k.Value + ";"
			}
			if !strings.Contains(names, "tok=xyz;") {
				return rp.Fail(i, "the response set tok=xyz, the jar now holds %q", names)
			}
		} else if ck != "" {
			return rp.Fail(i, "no jar, but the request carries Cookie %q", ck)
		}
		if resp.Header.Get("Set-Cookie") == "" {
			return rp.Fail(i, "the response's Set-Cookie header is not handed to the application")
		}
	}
	return rp.Result{OK: true}
}

// server.go: "client sent data before handshake is complete": a frame that travels right behind the request must
// be delivered by the upgraded connection or the upgrade must be refused - never lost.
func apiPipelined(c *rp.Ctx, i int) rp.Result {
	for _, rb := range []int{0, 1024} {
		type out struct {
			upErr error
			msg   []byte
			rdErr error
		}
		res := make(chan out, 1)
		srv := httptest.NewServer(http.HandlerFunc(func(w http.ResponseWriter, r *http.Request) {
			u := websocket.Upgrader{ReadBufferSize: rb, WriteBufferSize: rb}
			conn, err := u.Upgrade(w, r, nil)
			if err != nil {
				res <- out{upErr: err}
				return
			}
			defer conn.Close()
			conn.SetReadDeadline(time.Now().Add(ioWait))
			_, p, err := conn.ReadMessage()
			res <- out{msg: p, rdErr: err}
		}))
		nc, err := net.Dial("tcp", srv.Listener.Addr().String())
		if err != nil {
			rp.Bug("dial: %v", err)
		}
		nc.SetDeadline(time.Now().Add(ioWait))
		req := "GET /p HTTP/1.1\r\nHost: " + hostName + "\r\nConnection: Upgrade\r\nUpgrade: websocket\r\nSec-WebSocket-Version: 13\r\nSec-WebSocket-Key: " + keyTexts["ok"] + "\r\n\r\n"
		frame := []byte{0x81, 0x85, 1, 2, 3, 4, 'e' ^ 1, 'a' ^ 2, 'r' ^ 3, 'l' ^ 4, 'y' ^ 1}
		if _, err := nc.Write(append([]byte(req), frame...)); err != nil { // one segment
			rp.Bug("write: %v", err)
		}
		nc.(*net.TCPConn).CloseWrite() // nothing more will come: a reader that lost the frame sees the end, not a hang
		all, _ := io.ReadAll(nc)
		nc.Close()
		var o out
		select {
		case o = <-res:
		case <-time.After(ioWait):
			srv.Close()
			return rp.Fail(i, "ReadBufferSize %d: the handler did not finish", rb)
		}
		srv.Close()
		is101 := bytes.HasPrefix(all, []byte("HTTP/1.1 101"))
		switch {
		case o.upErr != nil && !is101:
			// refused
		case o.upErr == nil && o.rdErr == nil && string(o.msg) == "early":
			// delivered
		default:
			return rp.Fail(i, "ReadBufferSize %d: a text frame \"early\" sent in one segment with the handshake: Upgrade returned %v, the client saw %q, the upgraded connection read %q, %v - the frame is neither refused nor delivered", rb, o.upErr, head(all, 20), o.msg, o.rdErr)
		}
	}
	return rp.Result{OK: true}
}

type ends struct {
	a, b   *transport.Conn
	cl, sv *websocket.Conn
}

func pair(z bool, wbuf int) *ends {
	a, b := transport.NewConnPair()
	a.In.NoBlock, b.In.NoBlock = true, true
	return &ends{a, b, websocket.VerifNewConn(a, false, 0, wbuf, z), websocket.VerifNewConn(b, true, 0, wbuf, z)}
}

// PreparedMessage: "efficiently send a message payload to multiple connections": one prepared message written to
// connections of both roles, with and without compression, at different levels, after EnableWriteCompression(false)
func apiPrepared(c *rp.Ctx, i int) rp.Result {
	data := fillBytes(3000, 5, c.Seed, true)
	orig := append([]byte(nil), data...)
	pm, err := websocket.NewPreparedMessage(websocket.TextMessage, data)
	if err != nil {
		return rp.Fail(i, "NewPreparedMessage: %v", err)
	}
	for k := range data {
		data[k] = 'X' // "To protect against caller modifying the data argument" (prepared.go)
	}
	n := 0
	for _, z := range []bool{false, true} {
		for _, level := range []int{1, 9, -2} {
			for _, enable := range []bool{true, false} {
				e := pair(z, 0)
				for _, x := range []struct {
					name     string
					w, r     *websocket.Conn
					out      *transport.Stream
					isServer bool
				}{{"client", e.cl, e.sv, e.a.Out, false}, {"server", e.sv, e.cl, e.b.Out, true}} {
					x.w.SetCompressionLevel(level)
					x.w.EnableWriteCompression(enable)
					for rep := 0; rep < 2; rep++ {
						if err := x.w.WritePreparedMessage(pm); err != nil {
							return rp.Fail(i, "WritePreparedMessage on a %s (compression %v, level %d, enabled %v): %v", x.name, z, level, enable, err)
						}
						t, p, err := x.r.ReadMessage()
						if err != nil || t != websocket.TextMessage || !bytes.Equal(p, orig) {
							return rp.Fail(i, "the prepared message written by a %s (compression negotiated %v, level %d, write compression %v) was read as type %d, %d bytes, %v", x.name, z, level, enable, t, len(p), err)
						}
						n++
					}
					frames, junk := tokenize(x.out.Bytes())
					if junk >= 0 || len(frames) == 0 {
						return rp.Fail(i, "the %s wrote no whole frames", x.name)
					}
					for _, f := range frames {
						if (f.M == 1) == x.isServer {
							return rp.Fail(i, "a prepared message written by a %s has mask bit %d", x.name, f.M)
						}
					}
					if (frames[0].R1 == 1) != (z && enable) {
						return rp.Fail(i, "prepared message on a %s: compression negotiated %v, EnableWriteCompression(%v), but RSV1=%d", x.name, z, enable, frames[0].R1)
					}
				}
			}
		}
	}
	return rp.Result{OK: true, Info: n}
}

// RFC 6455 5.3: "the client MUST pick a fresh key from the set of allowed 32-bit values" for every masked frame
func apiPreparedMask(c *rp.Ctx, i int) rp.Result {
	pm, err := websocket.NewPreparedMessage(websocket.BinaryMessage, []byte("the same bytes for everybody"))
	if err != nil {
		return rp.Fail(i, "NewPreparedMessage: %v", err)
	}
	var keys []string
	for k := 0; k < 3; k++ {
		e := pair(false, 0)
		for rep := 0; rep < 2; rep++ {
			if err := e.cl.WritePreparedMessage(pm); err != nil {
				return rp.Fail(i, "WritePreparedMessage: %v", err)
			}
		}
		frames, _ := tokenize(e.a.Out.Bytes())
		for _, f := range frames {
			keys = append(keys, fmt.Sprintf("%x", f.Key))
		}
	}
	// ordinary messages for comparison: their keys differ from frame to frame
	e := pair(false, 0)
	for rep := 0; rep < 6; rep++ {
		e.cl.WriteMessage(websocket.BinaryMessage, []byte("the same bytes for everybody"))
	}
	frames, _ := tokenize(e.a.Out.Bytes())
	seen := map[string]bool{}
	for _, f := range frames {
		seen[fmt.Sprintf("%x", f.Key)] = true
	}
	if len(seen) < 5 {
		return rp.Fail(i, "6 messages of one client connection carry only %d different masking keys", len(seen))
	}
	distinct := map[string]bool{}
	for _, k := range keys {
		distinct[k] = true
	}
	if len(keys) != 6 {
		return rp.Fail(i, "expected 6 frames of the prepared message, tokenised %d", len(keys))
	}
	if len(distinct) == 1 {
		return rp.Result{OK: false, Deviation: "X05/prepared-message-mask-key-reused",
			What: fmt.Sprintf("one PreparedMessage written 6 times by client connections (3 connections, twice each) went out 6 times with the masking key %s: the masked frame is computed once and replayed (RFC 6455 5.3: the client MUST pick a fresh key for each frame; 10.3: the key must be unpredictable)", keys[0])}
	}
	if len(distinct) < 5 {
		return rp.Fail(i, "6 writes of a prepared message by clients carry only %d different masking keys: %v", len(distinct), keys)
	}
	return rp.Result{OK: true}
}

// RFC 6455 7.1.5: the stream ending without a Close frame is close code 1006 - also while NextReader is still
// dropping the rest of a message the application abandoned
func apiAbandonedCut(c *rp.Ctx, i int) rp.Result {
	a, b := transport.NewConnPair()
	a.In.NoBlock = true
	cl := websocket.VerifNewConn(a, false, 0, 0, false)
	b.Write([]byte{0x81, 10, 'a', 'b', 'c', 'd', 'e', 'f'}) // a text frame of 10 bytes, 6 of them arrive
	b.Close()
	_, r, err := cl.NextReader()
	if err != nil {
		return rp.Fail(i, "NextReader on the beginning of a frame: %v", err)
	}
	buf := make([]byte, 2)
	if _, err := io.ReadFull(r, buf); err != nil || string(buf) != "ab" {
		return rp.Fail(i, "the first two bytes: %q, %v", buf, err)
	}
	_, _, err = cl.NextReader()
	var ce *websocket.CloseError
	if err == nil {
		return rp.Fail(i, "NextReader after the stream ended inside a frame returned no error")
	}
	if !errors.As(err, &ce) || ce.Code != websocket.CloseAbnormalClosure {
		dev := ""
		if err == io.EOF {
			dev = "X05/eof-in-abandoned-frame-not-1006"
		}
		return rp.Result{OK: false, Deviation: dev, What: fmt.Sprintf("the stream ended inside a frame whose rest NextReader was dropping (the application had read 2 of its 10 bytes): NextReader returned %T %q; everywhere else the end of the stream without a Close frame is *CloseError 1006 (RFC 6455 7.1.5; conn.go errUnexpectedEOF), which is what IsUnexpectedCloseError-based error handling looks for", err, err.Error())}
	}
	_, _, err2 := cl.NextReader()
	if err2 != err {
		return rp.Fail(i, "the next NextReader returned %v, not the same error %v", err2, err)
	}
	return rp.Result{OK: true}
}

// Upgrade: "If the upgrade fails, then Upgrade replies to the client with an HTTP error response"
func apiNotHijacker(c *rp.Ctx, i int) rp.Result {
	rec := httptest.NewRecorder()
	req := httptest.NewRequest("GET", "http://"+hostName+"/x", nil)
	req.Header.Set("Connection", "Upgrade")
	req.Header.Set("Upgrade", "websocket")
	req.Header.Set("Sec-Websocket-Version", "13")
	req.Header.Set("Sec-Websocket-Key", keyTexts["ok"])
	u := websocket.Upgrader{}
	conn, err := u.Upgrade(rec, req, nil)
	if conn != nil || err == nil || rec.Code != http.StatusInternalServerError {
		return rp.Fail(i, "Upgrade on a ResponseWriter that is no http.Hijacker: conn=%v err=%v status=%d, expected an error and 500", conn != nil, err, rec.Code)
	}
	return rp.Result{OK: true}
}

// the deprecated package-level Upgrade: "does not perform origin checking"; a request that is no handshake gives
// HandshakeError and "Applications should handle this error by replying to the client with an HTTP error response"
func apiDeprecatedUpgrade(c *rp.Ctx, i int) rp.Result {
	type out struct {
		conn bool
		err  error
	}
	res := make(chan out, 1)
	srv := httptest.NewServer(http.HandlerFunc(func(w http.ResponseWriter, r *http.Request) {
		conn, err := websocket.Upgrade(w, r, nil, 1024, 1024)
		if err != nil {
			res <- out{conn != nil, err}
			http.Error(w, "teapot", 418)
			return
		}
		res <- out{true, nil}
		conn.WriteMessage(websocket.TextMessage, []byte("hello"))
		conn.Close()
	}))
	defer srv.Close()
	do := func(req string) (string, out, error) {
		nc, err := net.Dial("tcp", srv.Listener.Addr().String())
		if err != nil {
			rp.Bug("dial: %v", err)
		}
		defer nc.Close()
		nc.SetDeadline(time.Now().Add(ioWait))
		io.WriteString(nc, req)
		br := bufio.NewReader(nc)
		line, err := br.ReadString('\n')
		select {
		case o := <-res:
			return line, o, err
		case <-time.After(ioWait):
			return line, out{}, fmt.Errorf("handler did not finish")
		}
	}
	good := "GET /d HTTP/1.1\r\nHost: " + hostName + "\r\nConnection: Upgrade\r\nUpgrade: websocket\r\nSec-WebSocket-Version: 13\r\nSec-WebSocket-Key: " + keyTexts["ok"] + "\r\nOrigin: http://evil.example\r\n\r\n"
	line, o, err := do(good)
	if err != nil || !o.conn || o.err != nil || !strings.HasPrefix(line, "HTTP/1.1 101") {
		return rp.Fail(i, "deprecated Upgrade with a foreign origin: status line %q, conn=%v err=%v (%v); the documentation says it does not check the origin", line, o.conn, o.err, err)
	}
	bad := "GET /d HTTP/1.1\r\nHost: " + hostName + "\r\nSec-WebSocket-Version: 13\r\nSec-WebSocket-Key: " + keyTexts["ok"] + "\r\n\r\n"
	line, o, err = do(bad)
	var he websocket.HandshakeError
	if err != nil || o.conn || !errors.As(o.err, &he) {
		return rp.Fail(i, "deprecated Upgrade on a request without Upgrade headers: conn=%v err=%T %v (%v); the documentation says HandshakeError", o.conn, o.err, o.err, err)
	}
	if !strings.HasPrefix(line, "HTTP/1.1 418") {
		return rp.Fail(i, "deprecated Upgrade leaves the error response to the application, but the client saw %q instead of the application's 418", line)
	}
	return rp.Result{OK: true}
}

// NewClient "creates a new client connection using the given net connection"
func apiNewClient(c *rp.Ctx, i int) rp.Result {
	cli, srv := net.Pipe()
	defer cli.Close()
	go func() {
		defer srv.Close()
		srv.SetDeadline(time.Now().Add(ioWait))
		br := bufio.NewReader(srv)
		req, err := http.ReadRequest(br)
		if err != nil {
			return
		}
		io.WriteString(srv, answer101(req, "Sec-WebSocket-Protocol: chat\r\n")+"\x82\x03\x01\x02\x03")
		io.Copy(io.Discard, br)
	}()
	u, _ := url.Parse("ws://" + hostName + "/nc?x=1")
	conn, resp, err := websocket.NewClient(cli, u, http.Header{"Sec-Websocket-Protocol": {"chat"}, "Origin": {"http://" + hostName}}, 512, 512)
	if err != nil {
		return rp.Fail(i, "NewClient: %v", err)
	}
	if conn.UnderlyingConn() != cli {
		return rp.Fail(i, "NewClient did not use the connection it was given")
	}
	if conn.Subprotocol() != "chat" || resp.Header.Get("Sec-Websocket-Protocol") != "chat" {
		return rp.Fail(i, "Subprotocol() = %q, response header %q", conn.Subprotocol(), resp.Header.Get("Sec-Websocket-Protocol"))
	}
	conn.SetReadDeadline(time.Now().Add(ioWait))
	t, p, err := conn.ReadMessage()
	if err != nil || t != websocket.BinaryMessage || !bytes.Equal(p, []byte{1, 2, 3}) {
		return rp.Fail(i, "the first message: type %d %v, %v", t, p, err)
	}
	return rp.Result{OK: true}
}

func apiAccessors(c *rp.Ctx, i int) rp.Result {
	e := pair(false, 0)
	if e.cl.UnderlyingConn() != net.Conn(e.a) || e.sv.UnderlyingConn() != net.Conn(e.b) {
		return rp.Fail(i, "UnderlyingConn() is not the connection the Conn was made of")
	}
	if e.cl.LocalAddr() != e.a.LocalAddr() || e.cl.RemoteAddr() != e.a.RemoteAddr() {
		return rp.Fail(i, "LocalAddr/RemoteAddr are not the transport's")
	}
	if e.cl.Subprotocol() != "" {
		return rp.Fail(i, "Subprotocol() of a connection without negotiation is %q", e.cl.Subprotocol())
	}
	if websocket.FormatCloseMessage(1000, "") == nil {
		return rp.Fail(i, "FormatCloseMessage returned nil")
	}
	return rp.Result{OK: true}
}

// Dialer/Upgrader: "The I/O buffer sizes do not limit the size of the messages that can be sent or received": a
// control message of at most 125 bytes is sent whatever the write buffer, and a refused one leaves nothing behind
func apiSmallWriteBuffer(c *rp.Ctx, i int) rp.Result {
	for _, role := range []string{"client", "server"} {
		for _, z := range []bool{false, true} {
			e := pair(z, 64)
			w, r, out := e.cl, e.sv, e.a.Out
			if role == "server" {
				w, r, out = e.sv, e.cl, e.b.Out
			}
			ping := ctlPayload(100)
			err := w.WriteMessage(websocket.PingMessage, ping)
			if err != nil {
				// what is left behind: the next message flushes part of the refused ping
				err2 := w.WriteMessage(websocket.TextMessage, []byte("next"))
				frames, _ := tokenize(out.Bytes())
				_ = r
				return rp.Result{OK: false, Deviation: "X05/control-message-needs-write-buffer",
					What: fmt.Sprintf("%s with WriteBufferSize 64 (compression negotiated: %v): WriteMessage(PingMessage, 100 bytes) returned %q although a control frame may carry 125 bytes (RFC 6455 5.5) and the documentation says buffer sizes do not limit message sizes; the following WriteMessage(Text, \"next\") returned %v and the wire then holds%s - a truncated ping the application was told had failed", role, z, err.Error(), err2, describe(frames, 4))}
			}
			got := ""
			r.SetPingHandler(func(d string) error { got = d; return nil })
			w.WriteMessage(websocket.TextMessage, []byte("next"))
			_, p, err := r.ReadMessage()
			if err != nil || string(p) != "next" || got != string(ping) {
				return rp.Fail(i, "%s with WriteBufferSize 64: a 100-byte ping and a text message were read as ping %q, message %q, %v", role, got, p, err)
			}
		}
	}
	return rp.Result{OK: true}
}
