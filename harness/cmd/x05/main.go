// Replayers of X05 "WebSocket session lifecycle and negotiation" (extra check, spec/wslife/WsLife.tla).
//
//	life   behaviours of WsLife (calls of two applications with what each returns, what each endpoint writes and the
//	       handler calls, step by step) on two real websocket.Conn joined by the in-memory transport
//	neg    negotiations of WsLife part 1: Dialer against Upgrader, crafted requests against the Upgrader behind
//	       net/http, the Dialer against scripted responses (loopback TCP / NetDial)
//	mx     value matrices of spec/wslife/Gen_WsLifeMx.tla (close codes, error classification, compression levels, URLs)
//	api    fixed scenarios around the handshake that need a clock or a socket (timeouts, cookie jar, pipelined data ...)
package main

import "verifharness/rp"

var registry = map[string]rp.Replayer{}
var batchRegistry = map[string]rp.Batch{}

func main() { rp.Main(registry, batchRegistry) }
