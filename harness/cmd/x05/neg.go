package main

import (
	"bufio"
	"bytes"
	"crypto/sha1"
	"encoding/base64"
	"encoding/json"
	"errors"
	"fmt"
	"io"
	"net"
	"net/http"
	"net/http/httptest"
	"strings"
	"sync"
	"time"

	"github.com/ossrs/go-oryx-lib/websocket"
	"verifharness/rp"
)

// X05 "neg": the negotiations of spec/wslife/WsLife.tla part 1.
//
//	crafted   a request written byte by byte (raw TCP) against the real Upgrader behind net/http
//	lib       the real Dialer (NetDial: loopback TCP to that server) against the real Upgrader
//	scripted  the real Dialer (NetDial: net.Pipe) against a response written byte by byte
//
// Compared: the status of the answer, the Sec-WebSocket-Protocol of the response, the Error hook's arguments,
// what Dial returns, Conn.Subprotocol() at both ends, and that a session that came up carries a message and the
// closing handshake.

func init() { registry["neg"] = replayNeg }

const wsGUID = "258EAFA5-E914-47DA-95CA-C5AB0DC85B11"
const ioWait = 30 * time.Second
const hostName = "x05.example:8080"

func acceptOf(key string) string {
	h := sha1.Sum([]byte(key + wsGUID))
	return base64.StdEncoding.EncodeToString(h[:])
}

type negJ struct {
	Kind   string     `json:"kind"`
	Method string     `json:"method"`
	HTTPV  string     `json:"httpv"`
	Conn   [][]string `json:"conn"`
	Upg    [][]string `json:"upg"`
	Ver    string     `json:"ver"`
	Key    string     `json:"key"`
	Origin string     `json:"origin"`
	Policy string     `json:"policy"`
	Hook   bool       `json:"hook"`
	Offer  [][]string `json:"offer"`
	Via    string     `json:"via"`
	Subs   struct {
		Set bool     `json:"set"`
		L   []string `json:"l"`
	} `json:"subs"`
	Rh     string `json:"rh"`
	RhExt  bool   `json:"rhext"`
	Status int    `json:"status"`
	RProto string `json:"rproto"`
	RExt   string `json:"rext"`
	RExtra bool   `json:"rextra"`
	CComp  bool   `json:"ccomp"`
}

type negExp struct {
	ServerOk  bool     `json:"serverOk"`
	Failures  []string `json:"failures"`
	Statuses  []int    `json:"statuses"`
	Chosen    string   `json:"chosen"`
	ClientOk  bool     `json:"clientOk"`
	Refuses   bool     `json:"refuses"`
	Up        bool     `json:"up"`
	SubC      string   `json:"subc"`
	SubS      string   `json:"subs"`
	FirstLine string   `json:"firstline"`
}

type negCase struct {
	Neg negJ   `json:"neg"`
	Exp negExp `json:"exp"`
}

// ------------------------------------------------------------------ rendering of the specification's symbols
var keyTexts = map[string]string{
	"ok":     "dGhlIHNhbXBsZSBub25jZQ==",     // the 16-byte nonce of RFC 6455 1.3
	"short":  "AQIDBAUGBwgJCg==",             // 10 bytes
	"long":   "AQIDBAUGBwgJCgsMDQ4PEBESExQ=", // 20 bytes
	"notb64": "not*base64*at*all!?",
}

var originTexts = map[string]string{
	"same":      "http://x05.example:8080",
	"samecase":  "http://X05.Example:8080",
	"samepath":  "https://x05.example:8080/some/path?q=1",
	"otherhost": "http://evil.example:8080",
	"otherport": "http://x05.example:8081",
	"suffix":    "http://evilx05.example:8080",
	"malformed": "http://[x05.example:8080",
	"empty":     "",
}

func has(l []string, x string) bool {
	for _, y := range l {
		if y == x {
			return true
		}
	}
	return false
}

func hasInt(l []int, x int) bool {
	for _, y := range l {
		if y == x {
			return true
		}
	}
	return false
}

// joinList renders one header line of list elements; the separator style is the replayer's choice.
func joinList(elems []string, style int) string {
	seps := []string{", ", ",", " , ", ",\t"}
	s := strings.Join(elems, seps[style%len(seps)])
	if style%5 == 4 {
		s = " " + s + " "
	}
	return s
}

// ------------------------------------------------------------------ the real Upgrader behind net/http
type hookCall struct {
	status int
	reason error
}

type srvJob struct {
	up     websocket.Upgrader
	rh     http.Header
	hooks  []hookCall
	script func(c *websocket.Conn) error
	res    chan srvRes // what Upgrade returned (sent before the script runs)
	done   chan error  // what the script returned
}

type srvRes struct {
	conn bool   // Upgrade returned a connection
	err  error  // Upgrade's error
	sub  string // Conn.Subprotocol()
}

var hsOnce sync.Once
var hsSrv *httptest.Server
var hsMu sync.Mutex
var hsJobs = map[string]*srvJob{}
var hsSeq int

func hsServer() *httptest.Server {
	hsOnce.Do(func() {
		hsSrv = httptest.NewServer(http.HandlerFunc(func(w http.ResponseWriter, r *http.Request) {
			hsMu.Lock()
			job := hsJobs[r.URL.Path]
			hsMu.Unlock()
			if job == nil {
				http.Error(w, "no such job", 599)
				return
			}
			c, err := job.up.Upgrade(w, r, job.rh)
			if err != nil {
				if c != nil {
					err = fmt.Errorf("Upgrade returned a connection together with the error %v", err)
				}
				job.res <- srvRes{err: err}
				return
			}
			defer c.Close()
			job.res <- srvRes{conn: true, sub: c.Subprotocol()}
			if job.script != nil {
				job.done <- job.script(c)
			} else {
				job.done <- nil
			}
		}))
	})
	return hsSrv
}

func addJob(j *srvJob) string {
	hsMu.Lock()
	defer hsMu.Unlock()
	hsSeq++
	p := fmt.Sprintf("/u/%d", hsSeq)
	j.res = make(chan srvRes, 1)
	j.done = make(chan error, 1)
	hsJobs[p] = j
	return p
}

func dropJob(p string) {
	hsMu.Lock()
	delete(hsJobs, p)
	hsMu.Unlock()
}

func waitDone(ch chan error) error {
	select {
	case e := <-ch:
		return e
	case <-time.After(ioWait):
		return fmt.Errorf("the server's script did not finish within %v", ioWait)
	}
}

func waitRes(ch chan srvRes) (srvRes, error) {
	select {
	case r := <-ch:
		return r, nil
	case <-time.After(ioWait):
		return srvRes{}, fmt.Errorf("the server's handler did not finish within %v", ioWait)
	}
}

func newJob(g *negJ) *srvJob {
	j := &srvJob{}
	if g.Subs.Set {
		j.up.Subprotocols = append([]string{}, g.Subs.L...)
	}
	switch g.Policy {
	case "allow":
		j.up.CheckOrigin = func(*http.Request) bool { return true }
	case "deny":
		j.up.CheckOrigin = func(*http.Request) bool { return false }
	}
	if g.Hook {
		j.up.Error = func(w http.ResponseWriter, r *http.Request, status int, reason error) {
			j.hooks = append(j.hooks, hookCall{status, reason})
			w.Header().Set("X-Hook", "1")
			w.WriteHeader(499)
		}
	}
	if g.Rh != "" || g.RhExt {
		j.rh = http.Header{}
		if g.Rh != "" {
			j.rh.Set("Sec-Websocket-Protocol", g.Rh)
		}
		if g.RhExt {
			j.rh.Set("Sec-Websocket-Extensions", "x-app-ext")
		}
		j.rh.Set("X-App", "yes")
	}
	return j
}

// serverScript: tell the peer the negotiated protocol, echo one message, go through the closing handshake.
func serverScript(c *websocket.Conn) error {
	if err := c.WriteMessage(websocket.TextMessage, []byte("sub="+c.Subprotocol())); err != nil {
		return fmt.Errorf("server writing: %v", err)
	}
	t, p, err := c.ReadMessage()
	if err != nil {
		return fmt.Errorf("server reading the client's message: %v", err)
	}
	if err := c.WriteMessage(t, p); err != nil {
		return fmt.Errorf("server echoing: %v", err)
	}
	_, _, err = c.ReadMessage()
	if !websocket.IsCloseError(err, websocket.CloseNormalClosure) {
		return fmt.Errorf("server expected the client's Close 1000, got %v", err)
	}
	return nil
}

// ------------------------------------------------------------------ judging the server side
// serverVerdict compares what the Upgrader did with the specification. status: the status line the client saw.
func serverVerdict(cs *negCase, job *srvJob, res srvRes, status int, respProto []string, versionHdr string) (string, error) {
	g, x := &cs.Neg, &cs.Exp
	if x.ServerOk {
		if !res.conn {
			dev := ""
			if g.Origin == "samecase" && g.Policy == "default" && (status == 403 || (g.Hook && status == 499)) {
				dev = "X05/origin-host-compared-case-sensitively"
			}
			return dev, fmt.Errorf("the request is a handshake from an acceptable origin, but Upgrade refused it: %v (status %d)", res.err, status)
		}
		if status != 101 {
			return "", fmt.Errorf("Upgrade returned a connection but the client saw status %d", status)
		}
		dev := ""
		if len(g.Offer) > 1 && g.Subs.Set && res.sub == x.FirstLine && x.FirstLine != x.Chosen {
			dev = "X05/subprotocol-header-lines-not-combined"
		}
		if res.sub != x.SubS {
			return dev, fmt.Errorf("the server's Conn.Subprotocol() is %q, the specification says %q (client asked %v, server supports %v set=%v, responseHeader %q)", res.sub, x.SubS, g.Offer, g.Subs.L, g.Subs.Set, g.Rh)
		}
		want := []string{}
		if x.Chosen != "" {
			want = []string{x.Chosen}
		}
		if strings.Join(respProto, "|") != strings.Join(want, "|") {
			return dev, fmt.Errorf("the response carries Sec-WebSocket-Protocol %q, the specification says %q", respProto, want)
		}
		if len(job.hooks) != 0 {
			return "", fmt.Errorf("the Error hook was called %d times for a request that was upgraded", len(job.hooks))
		}
		return "", nil
	}
	// the request must be refused
	if res.conn || status == 101 {
		dev := ""
		switch {
		case len(x.Failures) == 1 && x.Failures[0] == "key" && g.Key != "absent":
			dev = "X05/challenge-key-not-validated"
		case len(x.Failures) == 1 && x.Failures[0] == "httpversion":
			dev = "X05/http10-handshake-accepted"
		}
		return dev, fmt.Errorf("the request breaks %v, but it was upgraded (status %d, connection %v); admissible statuses %v", x.Failures, status, res.conn, x.Statuses)
	}
	var he websocket.HandshakeError
	if !errors.As(res.err, &he) || he.Error() == "" {
		return "", fmt.Errorf("Upgrade refused with %T %v, the documentation says HandshakeError", res.err, res.err)
	}
	if g.Hook {
		if len(job.hooks) != 1 {
			return "", fmt.Errorf("the Error hook was called %d times for one refusal", len(job.hooks))
		}
		h := job.hooks[0]
		if !hasInt(x.Statuses, h.status) {
			return "", fmt.Errorf("the Error hook got status %d for a request that breaks %v; admissible: %v", h.status, x.Failures, x.Statuses)
		}
		if h.reason == nil || h.reason.Error() != res.err.Error() {
			return "", fmt.Errorf("the Error hook got reason %v, Upgrade returned %v", h.reason, res.err)
		}
		if status != 499 {
			return "", fmt.Errorf("with the Error hook set the response is the hook's (499); the client saw %d", status)
		}
		return "", nil
	}
	if !hasInt(x.Statuses, status) {
		return "", fmt.Errorf("refused with status %d for a request that breaks %v; admissible: %v", status, x.Failures, x.Statuses)
	}
	if has(x.Failures, "version") && len(x.Failures) == 1 && !strings.Contains(versionHdr, "13") {
		return "", fmt.Errorf("refused for its version without a Sec-WebSocket-Version header naming 13 (RFC 6455 4.2.2, 4.4): %q", versionHdr)
	}
	return "", nil
}

// ------------------------------------------------------------------ crafted
func renderRequest(g *negJ, path string, style int) []byte {
	var sb strings.Builder
	fmt.Fprintf(&sb, "%s %s HTTP/%s\r\nHost: %s\r\n", g.Method, path, g.HTTPV, hostName)
	for _, l := range g.Conn {
		fmt.Fprintf(&sb, "Connection: %s\r\n", joinList(l, style))
	}
	for _, l := range g.Upg {
		fmt.Fprintf(&sb, "Upgrade: %s\r\n", joinList(l, style/3))
	}
	if g.Ver != "" {
		fmt.Fprintf(&sb, "Sec-WebSocket-Version: %s\r\n", g.Ver)
	}
	if g.Key != "absent" {
		k, ok := keyTexts[g.Key]
		if !ok {
			rp.Bug("key class %q", g.Key)
		}
		fmt.Fprintf(&sb, "Sec-WebSocket-Key: %s\r\n", k)
	}
	if g.Origin != "absent" {
		o, ok := originTexts[g.Origin]
		if !ok {
			rp.Bug("origin class %q", g.Origin)
		}
		fmt.Fprintf(&sb, "Origin: %s\r\n", o)
	}
	for _, l := range g.Offer {
		fmt.Fprintf(&sb, "Sec-WebSocket-Protocol: %s\r\n", joinList(l, style/7))
	}
	sb.WriteString("\r\n")
	return []byte(sb.String())
}

func runCrafted(c *rp.Ctx, i, h int, cs *negCase) rp.Result {
	srv := hsServer()
	g := &cs.Neg
	job := newJob(g)
	job.script = func(c *websocket.Conn) error {
		return c.WriteMessage(websocket.TextMessage, []byte("sub="+c.Subprotocol()))
	}
	path := addJob(job)
	defer dropJob(path)
	nc, err := net.Dial("tcp", srv.Listener.Addr().String())
	if err != nil {
		rp.Bug("dial the test server: %v", err)
	}
	defer nc.Close()
	nc.SetDeadline(time.Now().Add(ioWait))
	req := renderRequest(g, path, h)
	if _, err := nc.Write(req); err != nil {
		rp.Bug("write the request: %v", err)
	}
	br := bufio.NewReader(nc)
	resp, err := http.ReadResponse(br, &http.Request{Method: g.Method})
	if err != nil {
		return rp.Fail(i, "no HTTP response to the request %q: %v", req, err)
	}
	res, werr := waitRes(job.res)
	if werr != nil {
		return rp.Fail(i, "%v; request %q", werr, req)
	}
	dev, verr := serverVerdict(cs, job, res, resp.StatusCode, resp.Header["Sec-Websocket-Protocol"], resp.Header.Get("Sec-Websocket-Version"))
	if verr != nil {
		return rp.Result{I: i, OK: false, Deviation: dev, What: fmt.Sprintf("%v; request %q", verr, req)}
	}
	if cs.Exp.ServerOk {
		if a := resp.Header.Get("Sec-Websocket-Accept"); a != acceptOf(keyTexts[g.Key]) {
			return rp.Fail(i, "Sec-WebSocket-Accept is %q", a)
		}
		if g.Rh != "" || g.RhExt {
			if resp.Header.Get("X-App") != "yes" {
				return rp.Fail(i, "the responseHeader argument's X-App header is not in the response: %v", resp.Header)
			}
		}
		// the server's first message follows the response
		fr := make([]byte, 2)
		if _, err := io.ReadFull(br, fr); err != nil {
			return rp.Fail(i, "no frame after the 101 response: %v", err)
		}
		p := make([]byte, int(fr[1]&0x7f))
		if _, err := io.ReadFull(br, p); err != nil {
			return rp.Fail(i, "short frame after the 101 response: %v", err)
		}
		if fr[0] != 0x81 || string(p) != "sub="+cs.Exp.SubS {
			return rp.Fail(i, "the server's first frame is % x %q, expected the text %q", fr, p, "sub="+cs.Exp.SubS)
		}
		if e := waitDone(job.done); e != nil {
			return rp.Fail(i, "server: %v", e)
		}
	}
	return rp.Result{I: i, OK: true, Nontriv: true}
}

// ------------------------------------------------------------------ lib
func dialerOf(g *negJ, netDial func(network, addr string) (net.Conn, error), style int) (*websocket.Dialer, http.Header) {
	d := &websocket.Dialer{NetDial: netDial, HandshakeTimeout: ioWait, EnableCompression: g.CComp}
	hdr := http.Header{}
	if g.Via == "dialer" || g.Via == "both" {
		if len(g.Offer) > 1 {
			rp.Bug("Dialer.Subprotocols is one list")
		}
		if len(g.Offer) == 1 {
			d.Subprotocols = append([]string{}, g.Offer[0]...)
		}
	}
	if g.Via == "header" || g.Via == "both" {
		for _, l := range g.Offer {
			hdr["Sec-Websocket-Protocol"] = append(hdr["Sec-Websocket-Protocol"], joinList(l, style))
		}
	}
	if g.Origin != "absent" {
		hdr["Origin"] = []string{originTexts[g.Origin]}
	}
	return d, hdr
}

func runLib(c *rp.Ctx, i, h int, cs *negCase) rp.Result {
	srv := hsServer()
	g, x := &cs.Neg, &cs.Exp
	job := newJob(g)
	job.script = serverScript
	path := addJob(job)
	defer dropJob(path)
	dials := 0
	d, hdr := dialerOf(g, func(network, addr string) (net.Conn, error) {
		dials++
		if addr != hostName {
			return nil, fmt.Errorf("NetDial was asked for %q, the URL says %q", addr, hostName)
		}
		return net.Dial("tcp", srv.Listener.Addr().String())
	}, h)
	conn, resp, err := d.Dial("ws://"+hostName+path, hdr)
	if conn != nil {
		defer conn.Close()
	}
	if x.Refuses {
		if err == nil || dials != 0 {
			return rp.Fail(i, "a Dialer given the protocols twice (Subprotocols and requestHeader) must refuse before it dials: err=%v, dials=%d", err, dials)
		}
		return rp.Result{I: i, OK: true, Nontriv: true}
	}
	if dials != 1 {
		return rp.Fail(i, "NetDial was called %d times (err=%v)", dials, err)
	}
	res, werr := waitRes(job.res)
	if werr != nil {
		return rp.Fail(i, "%v (Dial: %v)", werr, err)
	}
	status := 0
	var rproto []string
	vh := ""
	if resp != nil {
		status, rproto, vh = resp.StatusCode, resp.Header["Sec-Websocket-Protocol"], resp.Header.Get("Sec-Websocket-Version")
	}
	if resp == nil {
		return rp.Fail(i, "Dial returned no response (err=%v): the documentation promises a non-nil *http.Response when the handshake fails", err)
	}
	// the server's side (for a session that came up its script has run to the end only if the client played along; judged below)
	dev, verr := serverVerdict(cs, job, res, status, rproto, vh)
	if verr != nil {
		return rp.Result{I: i, OK: false, Deviation: dev, What: verr.Error()}
	}
	if !x.ServerOk {
		if err != websocket.ErrBadHandshake || conn != nil {
			return rp.Fail(i, "the server refused with %d; Dial returned conn=%v err=%v, the documentation says ErrBadHandshake", status, conn != nil, err)
		}
		return rp.Result{I: i, OK: true, Nontriv: true}
	}
	if !x.ClientOk {
		if err == nil {
			dev := ""
			if conn.Subprotocol() == x.Chosen && x.Chosen != "" {
				dev = "X05/dialer-accepts-unoffered-subprotocol"
			}
			return rp.Result{I: i, OK: false, Deviation: dev, What: fmt.Sprintf("the server named the subprotocol %q, the client had asked for %v: the client MUST fail the connection (RFC 6455 4.1), but Dial returned a connection with Subprotocol() = %q", x.Chosen, g.Offer, conn.Subprotocol())}
		}
		return rp.Result{I: i, OK: true, Nontriv: true}
	}
	if err != nil {
		return rp.Fail(i, "Dial failed: %v (status %d)", err, status)
	}
	if conn.Subprotocol() != x.SubC {
		return rp.Fail(i, "the client's Conn.Subprotocol() is %q, the specification says %q", conn.Subprotocol(), x.SubC)
	}
	// the session works: greeting, echo, closing handshake
	conn.SetReadDeadline(time.Now().Add(ioWait))
	_, p, err := conn.ReadMessage()
	if err != nil || string(p) != "sub="+x.SubS {
		return rp.Fail(i, "the client read %q, %v; the server's greeting is %q", p, err, "sub="+x.SubS)
	}
	if err := conn.WriteMessage(websocket.BinaryMessage, []byte{1, 2, 3}); err != nil {
		return rp.Fail(i, "client writing: %v", err)
	}
	t, p, err := conn.ReadMessage()
	if err != nil || t != websocket.BinaryMessage || !bytes.Equal(p, []byte{1, 2, 3}) {
		return rp.Fail(i, "the echo is type %d %v, %v", t, p, err)
	}
	if err := conn.WriteControl(websocket.CloseMessage, websocket.FormatCloseMessage(websocket.CloseNormalClosure, "done"), time.Now().Add(ioWait)); err != nil {
		return rp.Fail(i, "client writing Close: %v", err)
	}
	_, _, err = conn.ReadMessage()
	if !websocket.IsCloseError(err, websocket.CloseNormalClosure) {
		return rp.Fail(i, "after its Close 1000 the client read %v, expected the echo 1000", err)
	}
	if e := waitDone(job.done); e != nil {
		return rp.Fail(i, "server: %v", e)
	}
	return rp.Result{I: i, OK: true, Nontriv: true}
}

// ------------------------------------------------------------------ scripted
const pmdText = "permessage-deflate; server_no_context_takeover; client_no_context_takeover"

func runScripted(c *rp.Ctx, i, h int, cs *negCase) rp.Result {
	g, x := &cs.Neg, &cs.Exp
	cli, srvSide := net.Pipe()
	defer cli.Close()
	defer srvSide.Close()
	type sres struct {
		req *http.Request
		err error
	}
	done := make(chan sres, 1)
	go func() {
		srvSide.SetDeadline(time.Now().Add(ioWait))
		br := bufio.NewReader(srvSide)
		req, err := http.ReadRequest(br)
		if err != nil {
			done <- sres{nil, fmt.Errorf("scripted server reading the request: %v", err)}
			return
		}
		var sb strings.Builder
		fmt.Fprintf(&sb, "HTTP/1.1 %d %s\r\nUpgrade: websocket\r\nConnection: Upgrade\r\nSec-WebSocket-Accept: %s\r\n", g.Status, http.StatusText(g.Status), acceptOf(req.Header.Get("Sec-Websocket-Key")))
		if g.RProto != "" {
			fmt.Fprintf(&sb, "Sec-WebSocket-Protocol: %s\r\n", g.RProto)
		}
		switch g.RExt {
		case "pmd":
			fmt.Fprintf(&sb, "Sec-WebSocket-Extensions: %s\r\n", pmdText)
		case "foo":
			sb.WriteString("Sec-WebSocket-Extensions: x-foo; bar=1\r\n")
		}
		if g.RExtra {
			sb.WriteString("Server: x05\r\nX-Extra: a, b\r\nSet-Cookie: sid=1; Path=/\r\nDate: Sat, 03 Oct 2026 00:00:00 GMT\r\n")
		}
		if g.Status != 101 {
			sb.WriteString("Content-Length: 5\r\n\r\nnope!")
		} else {
			sb.WriteString("\r\n")
			sb.WriteString("\x81\x02hi") // the server speaks first: a text frame right behind the response
		}
		if _, err := srvSide.Write([]byte(sb.String())); err != nil {
			done <- sres{req, fmt.Errorf("scripted server writing: %v", err)}
			return
		}
		done <- sres{req, nil}
		io.Copy(io.Discard, br) // whatever the client sends until it closes
	}()
	d, hdr := dialerOf(g, func(network, addr string) (net.Conn, error) { return cli, nil }, h)
	conn, resp, err := d.Dial("ws://"+hostName+"/scripted", hdr)
	if conn != nil {
		defer conn.Close()
	}
	var sr sres
	select {
	case sr = <-done:
	case <-time.After(ioWait):
		return rp.Fail(i, "the scripted server did not get a request (Dial: %v)", err)
	}
	if sr.err != nil {
		return rp.Fail(i, "%v (Dial: %v)", sr.err, err)
	}
	// the request the Dialer wrote
	want := ""
	if len(g.Offer) == 1 {
		want = strings.Join(g.Offer[0], ", ")
	}
	if gotp := strings.Join(sr.req.Header["Sec-Websocket-Protocol"], "|"); normList(gotp) != normList(want) {
		return rp.Fail(i, "the Dialer's request carries Sec-WebSocket-Protocol %q, its Subprotocols are %v", gotp, g.Offer)
	}
	if sr.req.Host != hostName || sr.req.Method != "GET" || sr.req.Header.Get("Sec-Websocket-Version") != "13" {
		return rp.Fail(i, "the Dialer's request: method %q host %q version %q", sr.req.Method, sr.req.Host, sr.req.Header.Get("Sec-Websocket-Version"))
	}
	offersPmd := strings.Contains(strings.Join(sr.req.Header["Sec-Websocket-Extensions"], ","), "permessage-deflate")
	if offersPmd != g.CComp {
		return rp.Fail(i, "EnableCompression=%v, but the request's Sec-WebSocket-Extensions is %q", g.CComp, sr.req.Header["Sec-Websocket-Extensions"])
	}
	if !x.ClientOk {
		if err == nil {
			dev := ""
			switch {
			case g.Status == 101 && g.RProto != "" && !inLines(g.Offer, g.RProto) && (g.RExt == "none" || (g.RExt == "pmd" && g.CComp)):
				dev = "X05/dialer-accepts-unoffered-subprotocol"
			case g.Status == 101 && (g.RProto == "" || inLines(g.Offer, g.RProto)):
				dev = "X05/dialer-accepts-unoffered-extension"
			case g.Status == 101:
				dev = "X05/dialer-accepts-unoffered-subprotocol" // both
			}
			return rp.Result{I: i, OK: false, Deviation: dev, What: fmt.Sprintf("the response (status %d, Sec-WebSocket-Protocol %q, extensions %q) must make the client fail the connection (RFC 6455 4.1: asked for protocols %v, permessage-deflate offered: %v), but Dial returned a connection (Subprotocol() = %q)", g.Status, g.RProto, g.RExt, g.Offer, g.CComp, conn.Subprotocol())}
		}
		if conn != nil {
			return rp.Fail(i, "Dial returned a connection together with %v", err)
		}
		if g.Status != 101 {
			// "If the WebSocket handshake fails, ErrBadHandshake is returned along with a non-nil *http.Response"
			if err != websocket.ErrBadHandshake || resp == nil || resp.StatusCode != g.Status {
				return rp.Fail(i, "status %d: Dial returned err=%v resp=%v, the documentation says ErrBadHandshake and the response", g.Status, err, resp)
			}
			b, _ := io.ReadAll(resp.Body)
			if string(b) != "nope!" {
				return rp.Fail(i, "the response body handed to the application is %q, the server sent %q", b, "nope!")
			}
		}
		return rp.Result{I: i, OK: true, Nontriv: true}
	}
	if err != nil {
		return rp.Fail(i, "Dial failed with %v on an acceptable response (status %d, protocol %q of %v, extensions %q, extra headers %v)", err, g.Status, g.RProto, g.Offer, g.RExt, g.RExtra)
	}
	if conn.Subprotocol() != x.SubC {
		return rp.Fail(i, "Conn.Subprotocol() is %q, the response named %q", conn.Subprotocol(), x.SubC)
	}
	if g.RExtra && (resp.Header.Get("X-Extra") != "a, b" || resp.Header.Get("Server") != "x05") {
		return rp.Fail(i, "the response's other headers are not handed to the application: %v", resp.Header)
	}
	conn.SetReadDeadline(time.Now().Add(ioWait))
	t, p, err := conn.ReadMessage()
	if err != nil || t != websocket.TextMessage || string(p) != "hi" {
		return rp.Fail(i, "the frame the server sent right behind its response was read as type %d %q, %v", t, p, err)
	}
	return rp.Result{I: i, OK: true, Nontriv: true}
}

func normList(s string) string {
	var out []string
	for _, e := range strings.FieldsFunc(s, func(r rune) bool { return r == ',' || r == '|' }) {
		out = append(out, strings.TrimSpace(e))
	}
	return strings.Join(out, ",")
}

func inLines(lines [][]string, x string) bool {
	for _, l := range lines {
		if has(l, x) {
			return true
		}
	}
	return false
}

func replayNeg(c *rp.Ctx, i int, raw json.RawMessage) rp.Result {
	var cs negCase
	if err := json.Unmarshal(raw, &cs); err != nil {
		rp.Bug("neg case: %v", err)
	}
	h := rp.ContentHash(raw) + c.Seed*104729
	switch cs.Neg.Kind {
	case "crafted":
		return runCrafted(c, i, h, &cs)
	case "lib":
		return runLib(c, i, h, &cs)
	case "scripted":
		return runScripted(c, i, h, &cs)
	}
	rp.Bug("negotiation kind %q", cs.Neg.Kind)
	return rp.Result{}
}
