package main

import (
	"bufio"
	"bytes"
	"encoding/json"
	"errors"
	"fmt"
	"io"
	"net"
	"net/http"
	"strings"
	"time"

	"github.com/ossrs/go-oryx-lib/websocket"
	"verifharness/rp"
	"verifharness/transport"
)

// X05 "mx": the value matrices of spec/wslife/Gen_WsLifeMx.tla.

func init() { registry["mx"] = replayMx }

type mxRow struct {
	Kind string `json:"kind"`
	// closecode
	Code     int    `json:"code"`
	Text     string `json:"text"`
	Body     []int  `json:"body"`
	Reserved bool   `json:"reserved"`
	Valid    bool   `json:"valid"`
	Keyword  string `json:"keyword"`
	// iserr
	Err        string `json:"err"`
	List       []int  `json:"list"`
	IsClose    bool   `json:"isclose"`
	Unexpected bool   `json:"unexpected"`
	// level
	Level int `json:"level"`
	// url
	U    string `json:"u"`
	Ok   bool   `json:"ok"`
	Addr string `json:"addr"`
	Host string `json:"host"`
	URI  string `json:"uri"`
	Frag bool   `json:"frag"`
	// subprotos, isupgrade
	Lines  [][]string `json:"lines"`
	Protos []string   `json:"protos"`
	Conn   [][]string `json:"conn"`
	Upg    [][]string `json:"upg"`
	Is     bool       `json:"is"`
}

func replayMx(c *rp.Ctx, i int, raw json.RawMessage) rp.Result {
	var r mxRow
	if err := json.Unmarshal(raw, &r); err != nil {
		rp.Bug("mx row: %v", err)
	}
	h := rp.ContentHash(raw) + c.Seed
	switch r.Kind {
	case "closecode":
		return mxCloseCode(i, &r)
	case "iserr":
		return mxIsErr(i, &r)
	case "level":
		return mxLevel(i, &r)
	case "url":
		return mxURL(i, &r)
	case "subprotos":
		return mxSubprotos(i, &r, r.Protos, h)
	case "isupgrade":
		return mxIsUpgrade(i, &r, h)
	}
	rp.Bug("mx kind %q", r.Kind)
	return rp.Result{}
}

// a status code through FormatCloseMessage, WriteControl, the wire, the peer's read, CloseError.Error
func mxCloseCode(i int, r *mxRow) rp.Result {
	a, b := transport.NewConnPair()
	a.In.NoBlock, b.In.NoBlock = true, true
	cl := websocket.VerifNewConn(a, false, 0, 0, false)
	sv := websocket.VerifNewConn(b, true, 0, 0, false)
	body := websocket.FormatCloseMessage(r.Code, r.Text)
	var want []byte
	for _, v := range r.Body {
		want = append(want, byte(v))
	}
	want = append(want, r.Text...)
	werr := sv.WriteControl(websocket.CloseMessage, body, time.Time{})
	frames, junk := tokenize(b.Out.Bytes())
	if junk >= 0 || len(frames) > 1 {
		return rp.Fail(i, "close %d %q: the server wrote%s (junk at %d)", r.Code, r.Text, describe(frames, 4), junk)
	}
	if r.Reserved {
		// 7.4.1: the code must not travel: the call is refused, or the frame goes without a status
		if len(frames) == 1 && len(frames[0].Payload) >= 2 && int(frames[0].Payload[0])<<8|int(frames[0].Payload[1]) == r.Code {
			return rp.Result{I: i, OK: false, Deviation: "X05/reserved-close-code-written",
				What: fmt.Sprintf("FormatCloseMessage(%d, %q) + WriteControl put the status code %d into a Close frame (body % x); RFC 6455 7.4.1: it MUST NOT be set as a status code in a Close control frame by an endpoint", r.Code, r.Text, r.Code, frames[0].Payload)}
		}
		return rp.Result{I: i, OK: true, Nontriv: true}
	}
	if !bytes.Equal(body, want) {
		return rp.Fail(i, "FormatCloseMessage(%d, %q) = % x, RFC 6455 5.5.1 says % x", r.Code, r.Text, body, want)
	}
	if werr != nil || len(frames) != 1 || frames[0].Op != 8 || !bytes.Equal(frames[0].Payload, want) {
		return rp.Fail(i, "WriteControl(Close, % x) returned %v and wrote%s", want, werr, describe(frames, 4))
	}
	_, _, err := cl.ReadMessage()
	var ce *websocket.CloseError
	if r.Valid {
		if !errors.As(err, &ce) || ce.Code != r.Code || ce.Text != r.Text {
			return rp.Fail(i, "the peer of a Close %d %q read %v", r.Code, r.Text, err)
		}
		msg := err.Error()
		if !strings.Contains(msg, fmt.Sprint(r.Code)) || !strings.Contains(msg, r.Text) {
			return rp.Fail(i, "CloseError{%d, %q}.Error() = %q does not show code and text", r.Code, r.Text, msg)
		}
		// the client answers with the same code
		fr, _ := tokenize(a.Out.Bytes())
		if len(fr) != 1 || fr[0].Op != 8 || len(fr[0].Payload) < 2 || int(fr[0].Payload[0])<<8|int(fr[0].Payload[1]) != r.Code {
			return rp.Fail(i, "the peer of a Close %d answered%s", r.Code, describe(fr, 4))
		}
	} else {
		// 7.4: a code that may not travel fails the connection
		if err == nil || errors.As(err, &ce) {
			return rp.Fail(i, "the peer of a Close with the code %d (not valid on the wire) read %v, expected a protocol error", r.Code, err)
		}
		fr, _ := tokenize(a.Out.Bytes())
		if len(fr) != 1 || fr[0].Op != 8 || len(fr[0].Payload) < 2 || int(fr[0].Payload[0])<<8|int(fr[0].Payload[1]) != 1002 {
			return rp.Fail(i, "the peer of a Close with the invalid code %d answered%s, expected a Close 1002", r.Code, describe(fr, 4))
		}
	}
	// the description of a code defined in 7.4.1
	msg := strings.ToLower((&websocket.CloseError{Code: r.Code, Text: r.Text}).Error())
	if !strings.Contains(msg, fmt.Sprint(r.Code)) || (r.Text != "" && !strings.Contains(msg, r.Text)) {
		return rp.Fail(i, "CloseError{%d, %q}.Error() = %q does not show code and text", r.Code, r.Text, msg)
	}
	if r.Keyword != "" && !strings.Contains(msg, r.Keyword) {
		return rp.Fail(i, "CloseError{%d}.Error() = %q does not describe the code as RFC 6455 7.4.1 does (%q)", r.Code, msg, r.Keyword)
	}
	return rp.Result{I: i, OK: true, Nontriv: true}
}

func mxIsErr(i int, r *mxRow) rp.Result {
	var err error
	switch r.Err {
	case "close":
		err = &websocket.CloseError{Code: r.Code, Text: "t"}
	case "other":
		err = fmt.Errorf("websocket: close %d", r.Code)
	}
	if g := websocket.IsCloseError(err, r.List...); g != r.IsClose {
		return rp.Fail(i, "IsCloseError(%T %v, %v) = %v, the documentation says %v", err, err, r.List, g, r.IsClose)
	}
	if g := websocket.IsUnexpectedCloseError(err, r.List...); g != r.Unexpected {
		return rp.Fail(i, "IsUnexpectedCloseError(%T %v, %v) = %v, the documentation says %v", err, err, r.List, g, r.Unexpected)
	}
	return rp.Result{I: i, OK: true, Nontriv: true}
}

func mxLevel(i int, r *mxRow) rp.Result {
	for _, z := range []bool{false, true} {
		a, b := transport.NewConnPair()
		a.In.NoBlock, b.In.NoBlock = true, true
		cl := websocket.VerifNewConn(a, false, 0, 0, z)
		sv := websocket.VerifNewConn(b, true, 0, 0, z)
		err := sv.SetCompressionLevel(r.Level)
		if (err == nil) != r.Valid {
			return rp.Fail(i, "SetCompressionLevel(%d) returned %v; compress/flate defines the levels -2..9", r.Level, err)
		}
		// the connection goes on (with the old level if the new one was refused)
		msg := bytes.Repeat([]byte("level "), 50)
		if err := sv.WriteMessage(websocket.TextMessage, msg); err != nil {
			return rp.Fail(i, "after SetCompressionLevel(%d) = %v: WriteMessage: %v", r.Level, err, err)
		}
		_, p, err := cl.ReadMessage()
		if err != nil || !bytes.Equal(p, msg) {
			return rp.Fail(i, "after SetCompressionLevel(%d) (compression negotiated: %v) the peer read %d bytes, %v", r.Level, z, len(p), err)
		}
		fr, _ := tokenize(b.Out.Bytes())
		if len(fr) == 0 || (fr[0].R1 == 1) != z {
			return rp.Fail(i, "compression negotiated: %v, but the message went out as%s", z, describe(fr, 3))
		}
	}
	return rp.Result{I: i, OK: true, Nontriv: true}
}

// mxURL: what a Dialer does with a URL: where it connects, what it asks for.
func mxURL(i int, r *mxRow) rp.Result {
	var dialed []string
	var reqLine, reqHost string
	d := &websocket.Dialer{HandshakeTimeout: ioWait, NetDial: func(network, addr string) (net.Conn, error) {
		dialed = append(dialed, network+" "+addr)
		if strings.HasPrefix(r.U, "wss:") {
			return nil, errors.New("x05: no TLS here") // where it connects is all that is asked of wss
		}
		cli, srv := net.Pipe()
		go func() {
			defer srv.Close()
			srv.SetDeadline(time.Now().Add(ioWait))
			br := bufio.NewReader(srv)
			line, err := br.ReadString('\n')
			if err != nil {
				return
			}
			reqLine = strings.TrimRight(line, "\r\n")
			var key string
			for {
				l, err := br.ReadString('\n')
				if err != nil {
					return
				}
				l = strings.TrimRight(l, "\r\n")
				if l == "" {
					break
				}
				if k, v, ok := strings.Cut(l, ":"); ok {
					switch strings.ToLower(k) {
					case "host":
						reqHost = strings.TrimSpace(v)
					case "sec-websocket-key":
						key = strings.TrimSpace(v)
					}
				}
			}
			fmt.Fprintf(srv, "HTTP/1.1 101 Switching Protocols\r\nUpgrade: websocket\r\nConnection: Upgrade\r\nSec-WebSocket-Accept: %s\r\n\r\n", acceptOf(key))
			io.Copy(io.Discard, br)
		}()
		return cli, nil
	}}
	conn, _, err := d.Dial(r.U, nil)
	if conn != nil {
		defer conn.Close()
	}
	if !r.Ok && !r.Frag {
		if err == nil || len(dialed) != 0 {
			return rp.Fail(i, "Dial(%q): not a ws/wss URL (RFC 6455 section 3), but err=%v and NetDial calls %v", r.U, err, dialed)
		}
		return rp.Result{I: i, OK: true, Nontriv: true}
	}
	if r.Frag {
		// "Fragment identifiers ... MUST NOT be used on these URIs": refuse, or at least keep it off the wire
		if strings.Contains(reqLine, "#") {
			return rp.Result{I: i, OK: false, Deviation: "X05/url-fragment-sent",
				What: fmt.Sprintf("Dial(%q) sent the request line %q: the fragment travels to the server as part of the request target (RFC 6455 section 3: fragment identifiers MUST NOT be used; RFC 7230 5.3: a request target has no fragment)", r.U, reqLine)}
		}
		return rp.Result{I: i, OK: true, Nontriv: true}
	}
	if len(dialed) != 1 || dialed[0] != "tcp "+r.Addr {
		return rp.Fail(i, "Dial(%q) connected to %v, RFC 6455 section 3 says %q (err=%v)", r.U, dialed, "tcp "+r.Addr, err)
	}
	if strings.HasPrefix(r.U, "wss:") {
		return rp.Result{I: i, OK: true, Nontriv: true}
	}
	if err != nil {
		return rp.Fail(i, "Dial(%q): %v", r.U, err)
	}
	if reqLine != "GET "+r.URI+" HTTP/1.1" || reqHost != r.Host {
		return rp.Fail(i, "Dial(%q) asked %q of host %q, RFC 6455 4.1 says %q of host %q", r.U, reqLine, reqHost, "GET "+r.URI+" HTTP/1.1", r.Host)
	}
	return rp.Result{I: i, OK: true, Nontriv: true}
}

func headerOf(name string, lines [][]string, style int) http.Header {
	h := http.Header{}
	for k, l := range lines {
		h.Add(name, joinList(l, style+k))
	}
	return h
}

func mxSubprotos(i int, r *mxRow, want []string, h int) rp.Result {
	req := &http.Request{Header: headerOf("Sec-Websocket-Protocol", r.Lines, h)}
	got := websocket.Subprotocols(req)
	if strings.Join(got, "|") != strings.Join(want, "|") || (len(want) == 0) != (len(got) == 0) {
		dev := ""
		if len(r.Lines) > 1 && strings.Join(got, "|") == strings.Join(r.Lines[0], "|") {
			dev = "X05/subprotocol-header-lines-not-combined"
		}
		return rp.Result{I: i, OK: false, Deviation: dev, What: fmt.Sprintf("Subprotocols(request with Sec-WebSocket-Protocol lines %q) = %q, the client asked for %q (RFC 6455 11.3.4: several lines are one list)", req.Header["Sec-Websocket-Protocol"], got, want)}
	}
	return rp.Result{I: i, OK: true, Nontriv: true}
}

func mxIsUpgrade(i int, r *mxRow, h int) rp.Result {
	hd := headerOf("Connection", r.Conn, h)
	for k, l := range r.Upg {
		hd.Add("Upgrade", joinList(l, h/5+k))
	}
	if g := websocket.IsWebSocketUpgrade(&http.Request{Header: hd}); g != r.Is {
		return rp.Fail(i, "IsWebSocketUpgrade(Connection %q, Upgrade %q) = %v, expected %v", hd["Connection"], hd["Upgrade"], g, r.Is)
	}
	return rp.Result{I: i, OK: true, Nontriv: true}
}
