package main

import (
	"bytes"
	"encoding/json"
	"fmt"

	"github.com/ossrs/go-oryx-lib/avc"
	"verifharness/ld"
	"verifharness/rp"
)

// C12: AVC configuration records, samples and NAL units against spec/avc/Avc.tla.

type avcNal struct {
	Nri int `json:"nri"`
	T   int `json:"t"`
	N   int `json:"n"`
	ID  int `json:"id"`
}

type avcCase struct {
	Kind string          `json:"kind"`
	Val  json.RawMessage `json:"val"`
	Enc  json.RawMessage `json:"enc"`
	Exp  struct {
		Nri int `json:"nri"`
		T   int `json:"t"`
	} `json:"exp"`
	Canonical bool `json:"canonical"`
}

func (n avcNal) build(seed int) *avc.NALU {
	v := avc.NewNALU()
	v.NALRefIDC = avc.NALRefIDC(n.Nri)
	v.NALUType = avc.NALUType(n.T)
	if n.N > 0 {
		v.Data = ld.FillBytes(n.N, n.ID, seed)
	}
	return v
}

func (n avcNal) same(v *avc.NALU, seed int) error {
	if v == nil || v.NALUHeader == nil {
		return fmt.Errorf("nil NALU")
	}
	if int(v.NALRefIDC) != n.Nri || int(v.NALUType) != n.T {
		return fmt.Errorf("NAL header nri=%d type=%d, want nri=%d type=%d", v.NALRefIDC, v.NALUType, n.Nri, n.T)
	}
	if !bytes.Equal(v.Data, ld.FillBytes(n.N, n.ID, seed)) {
		return fmt.Errorf("NAL payload differs (len %d, want %d)", len(v.Data), n.N)
	}
	return nil
}

func sameNals(want []avcNal, got []*avc.NALU, seed int) error {
	if len(want) != len(got) {
		return fmt.Errorf("%d NAL units, want %d", len(got), len(want))
	}
	for i := range want {
		if err := want[i].same(got[i], seed); err != nil {
			return fmt.Errorf("NAL %d: %v", i, err)
		}
	}
	return nil
}

var registry = map[string]rp.Replayer{}
var batchRegistry = map[string]rp.Batch{}

func main() { rp.Main(registry, batchRegistry) }

func init() {
	registry["avc"] = func(c *rp.Ctx, i int, raw json.RawMessage) rp.Result {
		var cs avcCase
		if err := json.Unmarshal(raw, &cs); err != nil {
			panic(err)
		}
		l, err := ld.Parse(cs.Enc)
		if err != nil {
			panic(err)
		}
		want := l.Must(c.Seed)

		switch cs.Kind {
		case "record":
			var r struct {
				Profile, Compat, Level, Lsm1 int
				Sps, Pps                     []avcNal
			}
			if err := json.Unmarshal(cs.Val, &r); err != nil {
				panic(err)
			}
			// (1) records written by the specification (the independent conformant writer) are read back
			rd := avc.NewAVCDecoderConfigurationRecord()
			if err := rd.UnmarshalBinary(want); err != nil {
				return rp.Fail(i, "unmarshal of the specification's record failed: %v", err)
			}
			if int(rd.AVCProfileIndication) != r.Profile || int(rd.AVCLevelIndication) != r.Level || int(rd.LengthSizeMinusOne) != r.Lsm1 {
				return rp.Fail(i, "record fields profile=%d level=%d lsm1=%d, want %d %d %d", rd.AVCProfileIndication, rd.AVCLevelIndication, rd.LengthSizeMinusOne, r.Profile, r.Level, r.Lsm1)
			}
			if err := sameNals(r.Sps, rd.SequenceParameterSetNALUnits, c.Seed); err != nil {
				return rp.Fail(i, "SPS: %v", err)
			}
			if err := sameNals(r.Pps, rd.PictureParameterSetNALUnits, c.Seed); err != nil {
				return rp.Fail(i, "PPS: %v", err)
			}
			// (2) marshalling the unmarshalled canonical encoding reproduces it (also covers the
			// compatibility byte, which has no exported accessor)
			again, err := rd.MarshalBinary()
			if err != nil {
				return rp.Fail(i, "re-marshal failed: %v", err)
			}
			if !bytes.Equal(again, want) {
				return rp.Result{OK: false, What: "marshal(unmarshal(canonical record)) differs from the ISO layout: " + rp.FirstDiff(again, want), Deviation: classifyRecord(again, want)}
			}
			// (3) a record built through the API marshals to the ISO layout (profile compatibility
			// is unexported: only checked when 0)
			if r.Compat == 0 {
				w := avc.NewAVCDecoderConfigurationRecord()
				w.AVCProfileIndication = avc.AVCProfile(r.Profile)
				w.AVCLevelIndication = avc.AVCLevel(r.Level)
				w.LengthSizeMinusOne = uint8(r.Lsm1)
				for _, n := range r.Sps {
					w.SequenceParameterSetNALUnits = append(w.SequenceParameterSetNALUnits, n.build(c.Seed))
				}
				for _, n := range r.Pps {
					w.PictureParameterSetNALUnits = append(w.PictureParameterSetNALUnits, n.build(c.Seed))
				}
				got, err := w.MarshalBinary()
				if err != nil {
					return rp.Fail(i, "marshal failed: %v", err)
				}
				if !bytes.Equal(got, want) {
					return rp.Result{OK: false, What: "marshalled record differs from the ISO layout: " + rp.FirstDiff(got, want), Deviation: classifyRecord(got, want)}
				}
				c.Hold(i, "marshalled configuration record", got)
			}
			return rp.Result{OK: true}

		case "sample":
			var s struct {
				Lsm1 int
				Nals []avcNal
			}
			if err := json.Unmarshal(cs.Val, &s); err != nil {
				panic(err)
			}
			w := avc.NewAVCSample(uint8(s.Lsm1))
			for _, n := range s.Nals {
				w.NALUs = append(w.NALUs, n.build(c.Seed))
			}
			got, err := w.MarshalBinary()
			if err != nil {
				return rp.Fail(i, "marshal failed: %v", err)
			}
			if !bytes.Equal(got, want) {
				return rp.Fail(i, "marshalled sample differs from the layout: %s", rp.FirstDiff(got, want))
			}
			c.Hold(i, "marshalled sample", got)
			rd := avc.NewAVCSample(uint8(s.Lsm1))
			if err := rd.UnmarshalBinary(want); err != nil {
				return rp.Fail(i, "unmarshal failed: %v", err)
			}
			if err := sameNals(s.Nals, rd.NALUs, c.Seed); err != nil {
				return rp.Fail(i, "sample: %v", err)
			}
			again, err := rd.MarshalBinary()
			if err != nil || !bytes.Equal(again, want) {
				return rp.Fail(i, "re-marshalled sample differs: %v %s", err, rp.FirstDiff(again, want))
			}
			return rp.Result{OK: true}

		case "nalu":
			var n avcNal
			if err := json.Unmarshal(cs.Val, &n); err != nil {
				panic(err)
			}
			v := n.build(c.Seed)
			got, err := v.MarshalBinary()
			if err != nil {
				return rp.Fail(i, "marshal failed: %v", err)
			}
			if !bytes.Equal(got, want) {
				return rp.Fail(i, "marshalled NAL unit differs: %s", rp.FirstDiff(got, want))
			}
			c.Hold(i, "marshalled NAL unit", got)
			if v.Size() != len(want) {
				return rp.Fail(i, "Size()=%d, want %d", v.Size(), len(want))
			}
			rd := avc.NewNALU()
			if err := rd.UnmarshalBinary(want); err != nil {
				return rp.Fail(i, "unmarshal failed: %v", err)
			}
			if err := n.same(rd, c.Seed); err != nil {
				return rp.Fail(i, "%v", err)
			}
			if r := reusedReceiver(i, want, rd); r != nil {
				return *r
			}
			return rp.Result{OK: true}

		case "hdrbyte":
			var hb struct{ B, N, ID int }
			if err := json.Unmarshal(cs.Val, &hb); err != nil {
				panic(err)
			}
			rd := avc.NewNALU()
			if err := rd.UnmarshalBinary(want); err != nil {
				return rp.Fail(i, "unmarshal failed: %v", err)
			}
			if int(rd.NALRefIDC) != cs.Exp.Nri || int(rd.NALUType) != cs.Exp.T {
				return rp.Fail(i, "header byte %#02x decoded as nri=%d type=%d, want %d %d", hb.B, rd.NALRefIDC, rd.NALUType, cs.Exp.Nri, cs.Exp.T)
			}
			if !bytes.Equal(rd.Data, want[1:]) {
				return rp.Fail(i, "payload differs")
			}
			h := avc.NewNALUHeader()
			if err := h.UnmarshalBinary(want[:1]); err != nil || int(h.NALRefIDC) != cs.Exp.Nri || int(h.NALUType) != cs.Exp.T {
				return rp.Fail(i, "NALUHeader: %v nri=%d type=%d", err, h.NALRefIDC, h.NALUType)
			}
			_ = h.String()
			_ = rd.String()
			if r := reusedReceiver(i, want, rd); r != nil {
				return *r
			}
			if cs.Canonical {
				again, err := rd.MarshalBinary()
				if err != nil || !bytes.Equal(again, want) {
					return rp.Fail(i, "re-marshal of canonical NAL unit differs: %v %s", err, rp.FirstDiff(again, want))
				}
			}
			return rp.Result{OK: true}
		}
		panic("unknown kind " + cs.Kind)
	}
}

// classifyRecord names the known deviation "reserved bits not written" when that is the only difference.
func classifyRecord(got, want []byte) string {
	if len(got) != len(want) || len(got) < 6 {
		return ""
	}
	g := append([]byte(nil), got...)
	g[4] |= 0xfc
	g[5] |= 0xe0
	if bytes.Equal(g, want) {
		return "C12/record-reserved-bits-missing"
	}
	return ""
}

// reusedReceiver: unmarshalling into a NALU that held another unit before gives the same value as
// unmarshalling into a fresh one (nothing of the previous unit survives).
func reusedReceiver(i int, want []byte, fresh *avc.NALU) *rp.Result {
	re := avc.NewNALU()
	if err := re.UnmarshalBinary([]byte{0x67, 0x42, 0x00, 0x1e}); err != nil {
		r := rp.Fail(i, "unmarshal of a 4-byte NAL unit failed: %v", err)
		return &r
	}
	if err := re.UnmarshalBinary(want); err != nil {
		r := rp.Fail(i, "unmarshal into a used receiver failed: %v", err)
		return &r
	}
	a, _ := re.MarshalBinary()
	b, _ := fresh.MarshalBinary()
	if re.NALRefIDC != fresh.NALRefIDC || re.NALUType != fresh.NALUType || !bytes.Equal(re.Data, fresh.Data) || re.Size() != fresh.Size() || !bytes.Equal(a, b) {
		r := rp.Fail(i, "a NALU value that held another unit before unmarshals %d bytes to (nri %d type %d, %d payload bytes, Size %d), a fresh one to (nri %d type %d, %d payload bytes, Size %d)",
			len(want), re.NALRefIDC, re.NALUType, len(re.Data), re.Size(), fresh.NALRefIDC, fresh.NALUType, len(fresh.Data), fresh.Size())
		return &r
	}
	return nil
}
