package main

import (
	"bytes"
	"encoding/json"
	"fmt"

	"github.com/ossrs/go-oryx-lib/avc"
	"verifharness/ld"
	"verifharness/rp"
)

// C12: AVC configuration records, samples and NAL units against spec/avc/Avc.tla.

type avcNal struct {
	Nri int `json:"nri"`
	T   int `json:"t"`
	N   int `json:"n"`
	ID  int `json:"id"`
	// Sc > 0: the payload bytes At..At+Sc-1 are the byte string 00 00 01 (Sc = 3) or 00 00 00 01 (Sc = 4)
	// instead of the pattern (Avc.tla Payload / PayByte)
	Sc int `json:"sc"`
	At int `json:"at"`
}

// payload is the NAL unit's payload as the specification defines it.
func (n avcNal) payload(seed int) []byte {
	b := ld.FillBytes(n.N, n.ID, seed)
	if n.Sc > 0 {
		for j := 0; j < n.Sc; j++ {
			b[n.At+j] = 0
		}
		b[n.At+n.Sc-1] = 1
	}
	return b
}

type avcCase struct {
	Kind string          `json:"kind"`
	Val  json.RawMessage `json:"val"`
	Enc  json.RawMessage `json:"enc"`
	Exp  struct {
		Nri int `json:"nri"`
		T   int `json:"t"`
	} `json:"exp"`
	Canonical bool `json:"canonical"`
}

func (n avcNal) build(seed int) *avc.NALU {
	v := avc.NewNALU()
	v.NALRefIDC = avc.NALRefIDC(n.Nri)
	v.NALUType = avc.NALUType(n.T)
	if n.N > 0 {
		v.Data = n.payload(seed)
	}
	return v
}

func (n avcNal) same(v *avc.NALU, seed int) error {
	if v == nil || v.NALUHeader == nil {
		return fmt.Errorf("nil NALU")
	}
	if int(v.NALRefIDC) != n.Nri || int(v.NALUType) != n.T {
		return fmt.Errorf("NAL header nri=%d type=%d, want nri=%d type=%d", v.NALRefIDC, v.NALUType, n.Nri, n.T)
	}
	if want := n.payload(seed); !bytes.Equal(v.Data, want) {
		return fmt.Errorf("NAL payload differs (len %d, want %d): %s", len(v.Data), n.N, rp.FirstDiff(v.Data, want))
	}
	return nil
}

func sameNals(want []avcNal, got []*avc.NALU, seed int) error {
	if len(want) != len(got) {
		return fmt.Errorf("%d NAL units, want %d", len(got), len(want))
	}
	for i := range want {
		if err := want[i].same(got[i], seed); err != nil {
			return fmt.Errorf("NAL %d: %v", i, err)
		}
	}
	return nil
}

var registry = map[string]rp.Replayer{}
var batchRegistry = map[string]rp.Batch{}

func main() { rp.Main(registry, batchRegistry) }

func init() {
	registry["avc"] = func(c *rp.Ctx, i int, raw json.RawMessage) rp.Result {
		var cs avcCase
		if err := json.Unmarshal(raw, &cs); err != nil {
			panic(err)
		}
		l, err := ld.Parse(cs.Enc)
		if err != nil {
			panic(err)
		}
		want := l.Must(c.Seed)

		switch cs.Kind {
		case "record":
			var r avcRecord
			if err := json.Unmarshal(cs.Val, &r); err != nil {
				panic(err)
			}
			// (1) records written by the specification (the independent conformant writer) are read back to
			// the same values: every exported field is the value the specification wrote
			rd := avc.NewAVCDecoderConfigurationRecord()
			if err := rd.UnmarshalBinary(want); err != nil {
				return rp.Fail(i, "unmarshal of the specification's record failed: %v", err)
			}
			if what, dev := r.same(rd, c.Seed); what != "" {
				return rp.Result{OK: false, What: "record read back from the ISO layout: " + what, Deviation: dev}
			}
			// (2) marshalling the unmarshalled canonical encoding reproduces it (also covers the
			// compatibility byte, which has no exported accessor)
			again, err := rd.MarshalBinary()
			if err != nil {
				return rp.Fail(i, "re-marshal failed: %v", err)
			}
			if !bytes.Equal(again, want) {
				return rp.Result{OK: false, What: "marshal(unmarshal(canonical record)) differs from the ISO layout: " + rp.FirstDiff(again, want), Deviation: classifyRecord(again, want)}
			}
			if len(again) <= 4096 { // the large ones are held once, as "marshalled configuration record"
				c.Hold(i, "re-marshalled configuration record", again)
			}
			// the value the library marshalled unmarshals to an equal value (second generation)
			rd2 := avc.NewAVCDecoderConfigurationRecord()
			if err := rd2.UnmarshalBinary(again); err != nil {
				return rp.Fail(i, "unmarshal of the library's own record failed: %v", err)
			}
			if what, dev := r.same(rd2, c.Seed); what != "" {
				return rp.Result{OK: false, What: "record read back from its marshalled bytes: " + what, Deviation: dev}
			}
			// (3) a record built through the API marshals to the ISO layout and unmarshals to equal values
			// (profile compatibility is unexported: only when 0)
			if r.Compat == 0 {
				w := avc.NewAVCDecoderConfigurationRecord()
				w.AVCProfileIndication = avc.AVCProfile(r.Profile)
				w.AVCLevelIndication = avc.AVCLevel(r.Level)
				w.LengthSizeMinusOne = uint8(r.Lsm1)
				for _, n := range r.Sps {
					w.SequenceParameterSetNALUnits = append(w.SequenceParameterSetNALUnits, n.build(c.Seed))
				}
				for _, n := range r.Pps {
					w.PictureParameterSetNALUnits = append(w.PictureParameterSetNALUnits, n.build(c.Seed))
				}
				got, err := w.MarshalBinary()
				if err != nil {
					return rp.Fail(i, "marshal failed: %v", err)
				}
				if !bytes.Equal(got, want) {
					return rp.Result{OK: false, What: "marshalled record differs from the ISO layout: " + rp.FirstDiff(got, want), Deviation: classifyRecord(got, want)}
				}
				c.Hold(i, "marshalled configuration record", got)
				rd3 := avc.NewAVCDecoderConfigurationRecord()
				if err := rd3.UnmarshalBinary(got); err != nil {
					return rp.Fail(i, "unmarshal of the marshalled record failed: %v", err)
				}
				if what, dev := r.same(rd3, c.Seed); what != "" {
					return rp.Result{OK: false, What: "unmarshal(marshal(record)): " + what, Deviation: dev}
				}
				if what, _ := r.same(w, c.Seed); what != "" {
					return rp.Fail(i, "MarshalBinary changed the record it marshals: %s", what)
				}
			}
			return rp.Result{OK: true}

		case "sample":
			var s struct {
				Lsm1 int
				Nals []avcNal
			}
			if err := json.Unmarshal(cs.Val, &s); err != nil {
				panic(err)
			}
			w := avc.NewAVCSample(uint8(s.Lsm1))
			for _, n := range s.Nals {
				w.NALUs = append(w.NALUs, n.build(c.Seed))
			}
			got, err := w.MarshalBinary()
			if err != nil {
				return rp.Fail(i, "marshal failed: %v", err)
			}
			if !bytes.Equal(got, want) {
				return rp.Fail(i, "marshalled sample (length size %d) differs from the layout: %s", s.Lsm1+1, rp.FirstDiff(got, want))
			}
			c.Hold(i, "marshalled sample", got)
			// the specification's bytes and the library's own are read back to the NAL units that were written
			for _, src := range []struct {
				name string
				b    []byte
			}{{"the specification's sample", want}, {"the marshalled sample", got}} {
				rd := avc.NewAVCSample(uint8(s.Lsm1))
				if err := rd.UnmarshalBinary(src.b); err != nil {
					return rp.Result{OK: false, What: fmt.Sprintf("unmarshal of %s (length size %d, %d NAL units, first bytes % x) failed: %v", src.name, s.Lsm1+1, len(s.Nals), head(src.b, 12), err),
						Deviation: classifySample(src.b, nil, true)}
				}
				if err := sameNals(s.Nals, rd.NALUs, c.Seed); err != nil {
					return rp.Result{OK: false, What: fmt.Sprintf("%s (length size %d, first bytes % x) read back: %v", src.name, s.Lsm1+1, head(src.b, 12), err),
						Deviation: classifySample(src.b, rd.NALUs, false)}
				}
				again, err := rd.MarshalBinary()
				if err != nil || !bytes.Equal(again, want) {
					return rp.Fail(i, "re-marshalled sample differs: %v %s", err, rp.FirstDiff(again, want))
				}
				if len(again) <= 4096 {
					c.Hold(i, "re-marshalled sample", again)
				}
			}
			return rp.Result{OK: true}

		case "nalu":
			var n avcNal
			if err := json.Unmarshal(cs.Val, &n); err != nil {
				panic(err)
			}
			v := n.build(c.Seed)
			got, err := v.MarshalBinary()
			if err != nil {
				return rp.Fail(i, "marshal failed: %v", err)
			}
			if !bytes.Equal(got, want) {
				return rp.Fail(i, "marshalled NAL unit differs: %s", rp.FirstDiff(got, want))
			}
			c.Hold(i, "marshalled NAL unit", got)
			if v.Size() != len(want) {
				return rp.Fail(i, "Size()=%d, want %d", v.Size(), len(want))
			}
			rd := avc.NewNALU()
			if err := rd.UnmarshalBinary(want); err != nil {
				return rp.Fail(i, "unmarshal failed: %v", err)
			}
			if err := n.same(rd, c.Seed); err != nil {
				return rp.Fail(i, "%v", err)
			}
			if r := reusedReceiver(i, want, rd); r != nil {
				return *r
			}
			return rp.Result{OK: true}

		case "hdrbyte":
			var hb struct{ B, N, ID int }
			if err := json.Unmarshal(cs.Val, &hb); err != nil {
				panic(err)
			}
			rd := avc.NewNALU()
			if err := rd.UnmarshalBinary(want); err != nil {
				return rp.Fail(i, "unmarshal failed: %v", err)
			}
			if int(rd.NALRefIDC) != cs.Exp.Nri || int(rd.NALUType) != cs.Exp.T {
				return rp.Fail(i, "header byte %#02x decoded as nri=%d type=%d, want %d %d", hb.B, rd.NALRefIDC, rd.NALUType, cs.Exp.Nri, cs.Exp.T)
			}
			if !bytes.Equal(rd.Data, want[1:]) {
				return rp.Fail(i, "payload differs")
			}
			h := avc.NewNALUHeader()
			if err := h.UnmarshalBinary(want[:1]); err != nil || int(h.NALRefIDC) != cs.Exp.Nri || int(h.NALUType) != cs.Exp.T {
				return rp.Fail(i, "NALUHeader: %v nri=%d type=%d", err, h.NALRefIDC, h.NALUType)
			}
			_ = h.String()
			_ = rd.String()
			if r := reusedReceiver(i, want, rd); r != nil {
				return *r
			}
			if cs.Canonical {
				again, err := rd.MarshalBinary()
				if err != nil || !bytes.Equal(again, want) {
					return rp.Fail(i, "re-marshal of canonical NAL unit differs: %v %s", err, rp.FirstDiff(again, want))
				}
			}
			return rp.Result{OK: true}
		}
		panic("unknown kind " + cs.Kind)
	}
}

type avcRecord struct {
	Profile, Compat, Level, Lsm1 int
	Sps, Pps                     []avcNal
}

// same compares every exported field of a record the library produced with the specification's value; the
// profile, level and length size are the values of the three bytes / two bits of ISO/IEC 14496-15 5.2.4.1.
func (r avcRecord) same(rd *avc.AVCDecoderConfigurationRecord, seed int) (what, deviation string) {
	if int(rd.AVCProfileIndication) != r.Profile || int(rd.AVCLevelIndication) != r.Level || int(rd.LengthSizeMinusOne) != r.Lsm1 {
		what = fmt.Sprintf("fields profile=%d level=%d lengthSizeMinusOne=%d, want %d %d %d (bytes written: profile %#02x compatibility %#02x level %#02x)",
			rd.AVCProfileIndication, rd.AVCLevelIndication, rd.LengthSizeMinusOne, r.Profile, r.Level, r.Lsm1, r.Profile, r.Compat, r.Level)
		if int(rd.LengthSizeMinusOne) == r.Lsm1 && r.Compat != 0 {
			// the values differ from the bytes only where the compatibility byte has flags: Avc.tla Dev = "refine"
			deviation = "C12/record-fields-refined-by-compatibility"
		}
		return
	}
	if err := sameNals(r.Sps, rd.SequenceParameterSetNALUnits, seed); err != nil {
		return "SPS: " + err.Error(), ""
	}
	if err := sameNals(r.Pps, rd.PictureParameterSetNALUnits, seed); err != nil {
		return "PPS: " + err.Error(), ""
	}
	return "", ""
}

func head(b []byte, n int) []byte {
	if len(b) > n {
		return b[:n]
	}
	return b
}

// classifySample names the known deviation "a sample beginning with 00 00 00 01 is taken for an Annex-B byte
// stream" (Avc.tla Dev = "annexb"): the reader returned the pieces between the start codes, or refused one.
func classifySample(data []byte, got []*avc.NALU, failed bool) string {
	sc := []byte{0, 0, 0, 1}
	if !bytes.HasPrefix(data, sc) {
		return ""
	}
	pieces := bytes.Split(data[4:], sc)
	if failed {
		for _, p := range pieces {
			if len(p) == 0 {
				return "C12/sample-annexb-sniffing"
			}
		}
		return ""
	}
	if len(got) != len(pieces) {
		return ""
	}
	for k, p := range pieces {
		if got[k] == nil || got[k].NALUHeader == nil {
			return ""
		}
		if b, err := got[k].MarshalBinary(); err != nil || !bytes.Equal(b, p) {
			return ""
		}
	}
	return "C12/sample-annexb-sniffing"
}

// classifyRecord names the known deviation "reserved bits not written" when that is the only difference.
func classifyRecord(got, want []byte) string {
	if len(got) != len(want) || len(got) < 6 {
		return ""
	}
	g := append([]byte(nil), got...)
	g[4] |= 0xfc
	g[5] |= 0xe0
	if bytes.Equal(g, want) {
		return "C12/record-reserved-bits-missing"
	}
	return ""
}

// reusedReceiver: unmarshalling into a NALU that held another unit before gives the same value as
// unmarshalling into a fresh one (nothing of the previous unit survives).
func reusedReceiver(i int, want []byte, fresh *avc.NALU) *rp.Result {
	re := avc.NewNALU()
	if err := re.UnmarshalBinary([]byte{0x67, 0x42, 0x00, 0x1e}); err != nil {
		r := rp.Fail(i, "unmarshal of a 4-byte NAL unit failed: %v", err)
		return &r
	}
	if err := re.UnmarshalBinary(want); err != nil {
		r := rp.Fail(i, "unmarshal into a used receiver failed: %v", err)
		return &r
	}
	a, _ := re.MarshalBinary()
	b, _ := fresh.MarshalBinary()
	if re.NALRefIDC != fresh.NALRefIDC || re.NALUType != fresh.NALUType || !bytes.Equal(re.Data, fresh.Data) || re.Size() != fresh.Size() || !bytes.Equal(a, b) {
		r := rp.Fail(i, "a NALU value that held another unit before unmarshals %d bytes to (nri %d type %d, %d payload bytes, Size %d), a fresh one to (nri %d type %d, %d payload bytes, Size %d)",
			len(want), re.NALRefIDC, re.NALUType, len(re.Data), re.Size(), fresh.NALRefIDC, fresh.NALUType, len(fresh.Data), fresh.Size())
		return &r
	}
	return nil
}
