// C15 replayer: concurrent control frames never corrupt the WebSocket frame stream
// (spec/wsconc/WsConc.tla, Gen_WsConc.tla, Trace_WsConc.tla).
//
// A case is a schedule chosen by TLC: a sequence of items "b:<proc>" (the application of
// process <proc> makes its next call) and "w:<proc>" (the transport performs the operation
// <proc> is blocked in: net.Conn.Write for the data writer D and the control senders K1..,
// net.Conn.Close for the closer X), "b:R" (the peer's next Ping / Close frame is put on the
// transport: its handler runs on the READING goroutine R of the connection under test and
// answers - R's transport write is gated like the others) and "a:D" (the application of D,
// which paused with its message open - after NextWriter, between two Write calls - goes on).
// The connection under test is a real websocket.Conn over
// a gated net.Conn: every transport Write/Close of a process goroutine blocks until the
// scheduler (the goroutine running the case) performs it, so the transport's order is the
// scheduler's order. Steps the library's lock forbids cannot be forced: a process that does
// not arrive at its gate within a bounded wait is skipped (lost coverage, never a verdict)
// and served when it does arrive. Ordering is done with channels only.
//
// What actually happened is recorded and written as one ndjson line per schedule for
// Trace_WsConc (the rules live there): begin/twrite/close/ret events, the frames this
// file's own RFC 6455 tokenizer finds in the recorded wire bytes with the transport writes
// they came from, and the data messages a real peer Conn delivered. In addition the
// replayer itself flags what needs no specification to be seen (torn stream, bytes after a
// Close frame, peer got damaged messages, stall, panic) so that a single case can be
// re-run by `vcheck --replay`, and the race detector's reports (the binary is built with
// -race) that involve the websocket package.
package main

import (
	"bytes"
	"encoding/json"
	"errors"
	"fmt"
	"net"
	"os"
	"path/filepath"
	"reflect"
	"regexp"
	"runtime"
	"runtime/debug"
	"strconv"
	"strings"
	"syscall"
	"time"

	"verifharness/ld"
	"verifharness/rp"
	"verifharness/transport"

	"github.com/ossrs/go-oryx-lib/websocket"
)

var registry = map[string]rp.Replayer{}
var batchRegistry = map[string]rp.Batch{}

func main() { rp.Main(registry, batchRegistry) }

// ------------------------------------------------------------------ the case

type msgPlan struct {
	API    string `json:"api"`    // "wm": WriteMessage, "nw": NextWriter + Write.. + Close, "pm": WritePreparedMessage;
	// "wmc", "nwc", "pmc": the same entry points with a Close frame (the data writer sends the Close itself)
	Writes []int  `json:"writes"` // sizes of the data handed over per Write
	Frames []bool `json:"frames"` // predicted frames (true: header write + extra write)
	Pause  []int  `json:"pause"`  // "nw": the application pauses after these calls (0: NextWriter, i: the i-th Write)
}

// faultPlan: the K-th transport write of call C of process P fails although the transport stays open, after
// the transport has accepted a proper prefix of the bytes (a non-empty one if Some); Kind "timeout": the
// error is a net.Error with Timeout() (a write deadline inside net.Conn.Write), "error": a plain error.
type faultPlan struct {
	P    string `json:"p"`
	C    int    `json:"c"`
	K    int    `json:"k"`
	Some bool   `json:"some"`
	Kind string `json:"kind"`
}

type schedCase struct {
	Family   string     `json:"family"`
	Role     string     `json:"role"`
	Wbuf     int        `json:"wbuf"`
	Msgs     []msgPlan  `json:"msgs"`
	Ctl      [][]string `json:"ctl"`
	Rd       []string   `json:"rd"` // answers of the reader's handlers: "pong"/"close" (+"@": default handler)
	Fault    []faultPlan `json:"fault"`
	Closer   bool       `json:"closer"`
	Sched    []string   `json:"sched"`
	Attack   bool       `json:"attack"`
	Decisive bool       `json:"decisive"`
}

// ------------------------------------------------------- RFC 6455 tokenizer
// Section 5.2: FIN(1) RSV(3) opcode(4) | MASK(1) len(7) | [len16 | len64] | [mask key(4)] | payload.
// It only reports what is there; whether that is allowed is decided elsewhere.

type frameHdr struct {
	fin    bool
	rsv    byte
	opcode byte
	masked bool
	plen   int64
	hlen   int
}

// parseHdr reads a frame header from the start of b; ok is false if b is too short.
func parseHdr(b []byte) (h frameHdr, ok bool) {
	if len(b) < 2 {
		return h, false
	}
	h.fin = b[0]&0x80 != 0
	h.rsv = (b[0] >> 4) & 7
	h.opcode = b[0] & 0x0f
	h.masked = b[1]&0x80 != 0
	l7 := int64(b[1] & 0x7f)
	h.hlen = 2
	switch l7 {
	case 126:
		if len(b) < 4 {
			return h, false
		}
		h.plen = int64(b[2])<<8 | int64(b[3])
		h.hlen = 4
	case 127:
		if len(b) < 10 {
			return h, false
		}
		for i := 2; i < 10; i++ {
			h.plen = h.plen<<8 | int64(b[i])
		}
		h.hlen = 10
		if h.plen < 0 {
			h.plen = 1 << 62
		}
	default:
		h.plen = l7
	}
	if h.masked {
		h.hlen += 4
		if len(b) < h.hlen {
			return h, false
		}
	}
	return h, true
}

// class names a frame header for the specification: "first", "cont" (+"+fin"), "ping", "pong", "close", "bad".
func (h frameHdr) class(client bool) string {
	if h.rsv != 0 || h.masked != client {
		return "bad"
	}
	fin := ""
	if h.fin {
		fin = "+fin"
	}
	switch h.opcode {
	case 0:
		return "cont" + fin
	case 1, 2:
		return "first" + fin
	case 8, 9, 10:
		if !h.fin || h.plen > 125 {
			return "bad"
		}
		return map[byte]string{8: "close", 9: "ping", 10: "pong"}[h.opcode]
	}
	return "bad"
}

type frameRec struct {
	Cls string `json:"cls"`
	W0  int    `json:"w0"` // 1-based index of the transport write holding the first byte
	W1  int    `json:"w1"` // ... the last byte
}

// tokenize cuts the concatenation of the writes into frames. A frame that does not start
// and end on write boundaries is "misaligned:<cls>"; an unfinished last frame is "partial";
// after a "bad" header nothing more can be said.
func tokenize(writes [][]byte, client bool) []frameRec {
	var all []byte
	var ends []int
	for _, w := range writes {
		all = append(all, w...)
		ends = append(ends, len(all))
	}
	widx := func(off int) int { // write holding byte offset off
		for i, e := range ends {
			if off < e {
				return i + 1
			}
		}
		return len(ends)
	}
	isStart := func(off int) bool {
		if off == 0 {
			return true
		}
		for _, e := range ends {
			if e == off {
				return true
			}
		}
		return false
	}
	var out []frameRec
	off := 0
	for off < len(all) {
		h, ok := parseHdr(all[off:])
		if !ok {
			out = append(out, frameRec{"partial", widx(off), len(ends)})
			break
		}
		cls := h.class(client)
		if cls == "bad" {
			out = append(out, frameRec{"bad", widx(off), widx(off)})
			break
		}
		end := int64(off) + int64(h.hlen) + h.plen
		if end > int64(len(all)) {
			if !isStart(off) {
				out = append(out, frameRec{"misaligned:partial", widx(off), len(ends)})
			} else {
				out = append(out, frameRec{"partial", widx(off), len(ends)})
			}
			break
		}
		if !isStart(off) || !isStart(int(end)) {
			cls = "misaligned:" + cls
		}
		out = append(out, frameRec{cls, widx(off), widx(int(end) - 1)})
		off = int(end)
	}
	return out
}

// ------------------------------------------------------------------ session

type procEvent struct {
	ret   bool // a call returned (otherwise: arrived at the gate)
	stops bool // R: the handler handed an error to the read loop, which ends
	op    string
	bytes []byte
	reply chan error
	call  int
	res   string
}

type proc struct {
	name   string
	ncalls int
	goid   int64
	goCh   chan struct{}
	evc    chan procEvent
	do     func(call int) error
	reader bool // R: its calls are begun by putting a frame of the peer on the transport
	inCall bool // R: a handler of an injected frame is running (touched by the reading goroutine only)

	// scheduler side
	stopped  bool  // R: no further frame of the peer can reach a handler
	need     int64 // K, R: bytes of the control frame in progress that have not reached the transport yet
	wcount   int   // transport writes of the call in progress
	begun    int
	busy     bool
	derailed bool
	pending  *procEvent
}

type writeRec struct {
	proc  string
	call  int
	bytes []byte // what the library handed to the transport
	ok    bool
	cut   string // "some"/"none": the write failed with the transport open after a prefix was accepted
	wire  []byte // what reached the wire: bytes (ok), a proper prefix (cut), nothing
	// filled in afterwards from the process' own byte stream
	frame int
	part  string
	cls   string
}

type traceEv struct {
	Ev    string `json:"ev"`
	Proc  string `json:"proc"`
	Call  int    `json:"call"`
	Frame int    `json:"frame"`
	Part  string `json:"part"`
	Cls   string `json:"cls"`
	Ok    bool   `json:"ok"`
	Res   string `json:"res"`
	Cut   string `json:"cut"`
	w     int    // index into session.writes for twrite events, else -1
}

type session struct {
	c      *schedCase
	client bool
	inner  *transport.Conn
	conn   *websocket.Conn
	procs  map[string]*proc
	order  []*proc
	byGoid map[int64]*proc
	wait   time.Duration

	umu    chan struct{} // 1-slot lock around the recording (scheduler and ungated writers)
	closed bool
	writes []*writeRec
	ev     []traceEv

	peerSide *transport.Conn // the peer's end: frames of the peer are written here
	rdOpen   map[string]int  // frames of the peer injected while D had its message open: "app"/"write" -> count

	faults       int  // transport writes that were made to fail with the transport open
	timeoutFault bool // ... one of them with a timeout error

	timeouts, skipped int
	late              int      // predictions of the generator that did not come true in time
	item              int      // index of the schedule item being executed
	lost              []string // items that were not executed as scheduled
	stalled           []string
	panics            []string
}

var errTransportClosed = errors.New("gated transport: use of closed connection")

// the injected transport faults
type gateTimeout struct{}

func (gateTimeout) Error() string   { return "gated transport: i/o timeout" }
func (gateTimeout) Timeout() bool   { return true }
func (gateTimeout) Temporary() bool { return true }

var errTransportFault = errors.New("gated transport: write failed")

// cutErr carries the result of a transport write that accepted n bytes and failed.
type cutErr struct {
	n   int
	err error
}

func (c *cutErr) Error() string { return c.err.Error() }

func goid() int64 {
	var buf [64]byte
	n := runtime.Stack(buf[:], false)
	s := strings.TrimPrefix(string(buf[:n]), "goroutine ")
	i := strings.IndexByte(s, ' ')
	if i < 0 {
		rp.Bug("cannot read goroutine id from %q", s)
	}
	id, err := strconv.ParseInt(s[:i], 10, 64)
	if err != nil {
		rp.Bug("cannot read goroutine id from %q", s)
	}
	return id
}

// gateConn is the net.Conn of the connection under test.
type gateConn struct {
	*transport.Conn
	s *session
}

func (g *gateConn) gated(op string, b []byte) error {
	s := g.s
	p := s.byGoid[goid()]
	if p == nil || (p.do == nil && !p.inCall) {
		// a goroutine the specification knows nothing about, or the reader outside the handlers of the
		// frames the schedule made the peer send: not gated, recorded
		name := "?"
		if p != nil {
			name = p.name
		}
		<-s.umu
		err := s.performLocked(name, 0, op, b)
		s.umu <- struct{}{}
		return err
	}
	reply := make(chan error, 1)
	p.evc <- procEvent{op: op, bytes: b, reply: reply}
	return <-reply
}

func (g *gateConn) Write(b []byte) (int, error) {
	if err := g.gated("write", b); err != nil {
		if ce, ok := err.(*cutErr); ok {
			return ce.n, ce.err
		}
		return 0, err
	}
	return len(b), nil
}

func (g *gateConn) Close() error { return g.gated("close", nil) }

// performLocked does one transport operation; the caller holds s.umu.
func (s *session) performLocked(name string, call int, op string, b []byte) error {
	if op == "close" {
		s.ev = append(s.ev, traceEv{Ev: "close", Proc: name, Call: call, Ok: true, w: -1})
		if !s.closed {
			s.closed = true
			s.inner.Close()
		}
		return nil
	}
	w := &writeRec{proc: name, call: call, bytes: append([]byte(nil), b...), ok: !s.closed}
	s.writes = append(s.writes, w)
	if f := s.faultFor(name, call); f != nil && !s.closed {
		// the transport accepts a proper prefix and fails; it stays open
		n := 0
		if f.Some {
			if n = len(b) / 2; n < 1 {
				n = 1
			}
			if n >= len(b) {
				n = len(b) - 1
			}
		}
		w.ok, w.cut = false, "none"
		if n > 0 {
			w.cut, w.wire = "some", w.bytes[:n]
			if _, err := s.inner.Write(w.wire); err != nil {
				rp.Bug("in-memory transport refused a write: %v", err)
			}
		}
		s.ev = append(s.ev, traceEv{Ev: "twrite", Proc: name, Call: call, Ok: false, Cut: w.cut, w: len(s.writes) - 1})
		s.faults++
		var err error = errTransportFault
		if f.Kind == "timeout" {
			err = gateTimeout{}
			s.timeoutFault = true
		}
		return &cutErr{n, err}
	}
	s.ev = append(s.ev, traceEv{Ev: "twrite", Proc: name, Call: call, Ok: w.ok, w: len(s.writes) - 1})
	if s.closed {
		return errTransportClosed
	}
	w.wire = w.bytes
	if _, err := s.inner.Write(b); err != nil {
		rp.Bug("in-memory transport refused a write: %v", err)
	}
	return nil
}

// faultFor: is the transport write process `name` is making in call `call` one that fails (the caller holds s.umu)
func (s *session) faultFor(name string, call int) *faultPlan {
	p := s.procs[name]
	if p == nil || call == 0 {
		return nil
	}
	for i := range s.c.Fault {
		f := &s.c.Fault[i]
		if f.P == name && f.C == call && f.K == p.wcount {
			return f
		}
	}
	return nil
}

func (s *session) perform(p *proc, e procEvent) {
	if e.op == "pause" {
		// the application of D goes on
		s.record(traceEv{Ev: "resume", Proc: p.name, Call: p.begun, Ok: true})
		e.reply <- nil
		return
	}
	if e.op == "write" {
		p.wcount++
	}
	<-s.umu
	err := s.performLocked(p.name, p.begun, e.op, e.bytes)
	s.umu <- struct{}{}
	if e.op == "write" && p.name != "D" {
		// a control frame may take several adjacent transport writes (header, payload ..): how much is left
		switch {
		case err != nil:
			p.need = 0
		case p.need > 0:
			if p.need -= int64(len(e.bytes)); p.need < 0 {
				p.need = 0
			}
		default:
			if h, ok := parseHdr(e.bytes); ok {
				if p.need = int64(h.hlen) + h.plen - int64(len(e.bytes)); p.need < 0 {
					p.need = 0
				}
			}
		}
	}
	e.reply <- err
}

// pause is called by D's application between two calls on its open message.
func (p *proc) pause() {
	reply := make(chan error, 1)
	p.evc <- procEvent{op: "pause", reply: reply}
	<-reply
}

// peerFrame is a control frame as the peer sends it (RFC 6455 5.2; a client's frames are masked - with the key 0).
func peerFrame(opcode byte, payload []byte, masked bool) []byte {
	f := []byte{0x80 | opcode, byte(len(payload))}
	if masked {
		f[1] |= 0x80
		f = append(f, 0, 0, 0, 0)
	}
	return append(f, payload...)
}

func rdPayload(j int) string { return fmt.Sprintf("R.%d", j) }

// injected tells which call of R a received payload belongs to (0: none).
func (s *session) injected(text string) int {
	for j := 1; j <= len(s.c.Rd); j++ {
		if text == rdPayload(j) {
			return j
		}
	}
	return 0
}

// inject: "b:R". The peer's next frame is put on the transport - unless the transport of the connection
// under test is closed (nothing can reach the reader any more). The begin event is recorded first, under
// the lock that orders it with the transport operations.
func (s *session) inject(p *proc) bool {
	j := p.begun + 1
	op := strings.TrimSuffix(s.c.Rd[j-1], "@")
	var f []byte
	switch op {
	case "pong": // the answer to a Ping
		f = peerFrame(9, []byte(rdPayload(j)), !s.client)
	case "close":
		f = peerFrame(8, websocket.FormatCloseMessage(websocket.CloseNormalClosure, rdPayload(j)), !s.client)
	default:
		rp.Bug("reader program item %q", s.c.Rd[j-1])
	}
	<-s.umu
	if s.closed {
		s.umu <- struct{}{}
		p.stopped = true
		return false
	}
	p.begun++
	p.busy = true
	p.need, p.wcount = 0, 0
	if op == "close" {
		p.stopped = true // the reader returns the peer's close as an error and reads no more
	}
	s.ev = append(s.ev, traceEv{Ev: "begin", Proc: p.name, Call: p.begun, Ok: true, w: -1})
	if _, err := s.peerSide.Write(f); err != nil {
		rp.Bug("in-memory transport refused a frame of the peer: %v", err)
	}
	s.umu <- struct{}{}
	if d := s.procs["D"]; d != nil && d.pending != nil {
		if d.pending.op == "pause" {
			s.rdOpen["app"]++
		} else {
			s.rdOpen["write"]++
		}
	}
	return true
}

// handle runs the handler of an injected frame on the reading goroutine and reports its return.
func (s *session) handle(p *proc, j int, dflt bool, h func() error) (err error) {
	p.inCall = true
	res := ""
	defer func() {
		p.inCall = false
		if e := recover(); e != nil {
			if _, ok := e.(rp.HarnessBug); ok {
				panic(e)
			}
			res = fmt.Sprintf("panic: %v", e)
			s.notePanic(fmt.Sprintf("%s call %d (handler on the reading goroutine): %v\n%s", p.name, j, e, debug.Stack()))
			err = errors.New("handler panicked")
		}
		p.evc <- procEvent{ret: true, call: j, res: res, stops: err != nil}
	}()
	err = h()
	if dflt {
		res = "any" // the package's default handlers do not show the result of their write
	} else {
		res, err = classify(err), nil
	}
	return err
}

func (s *session) record(e traceEv) {
	e.w = -1
	<-s.umu
	s.ev = append(s.ev, e)
	s.umu <- struct{}{}
}

func classify(err error) string {
	switch {
	case err == nil:
		return "nil"
	case err == websocket.ErrCloseSent:
		return "closesent"
	}
	// WriteControl gave up waiting for the write lock: the package's (unexported) write timeout error
	if ne, ok := err.(net.Error); ok && ne.Timeout() {
		return "timeout"
	}
	return "other"
}

// shortDeadline is the deadline class "short" of a control write (opcode with the suffix "~"):
// positive, so that WriteControl arms its timer and waits for the lock (a deadline in the past
// returns at once, before the lock is looked at), and far below the bounded waits of the scheduler.
const shortDeadline = 2 * time.Millisecond

func (s *session) runProc(p *proc, ready chan<- struct{}) {
	p.goid = goid()
	ready <- struct{}{}
	for call := 1; call <= p.ncalls; call++ {
		if _, ok := <-p.goCh; !ok {
			return
		}
		res := func() (res string) {
			defer func() {
				if e := recover(); e != nil {
					if _, ok := e.(rp.HarnessBug); ok {
						panic(e)
					}
					res = fmt.Sprintf("panic: %v", e)
					s.notePanic(fmt.Sprintf("%s call %d: %v\n%s", p.name, call, e, debug.Stack()))
				}
			}()
			return classify(p.do(call))
		}()
		p.evc <- procEvent{ret: true, call: call, res: res}
	}
}

func (s *session) notePanic(what string) {
	<-s.umu
	s.panics = append(s.panics, what)
	s.umu <- struct{}{}
}

func (s *session) lose(why string) {
	if why == "timeout" {
		s.timeouts++
	} else {
		s.skipped++
	}
	s.lost = append(s.lost, fmt.Sprintf("%d:%s:%s", s.item, s.c.Sched[s.item], why))
}

func (s *session) onRet(p *proc, e procEvent) {
	p.busy = false
	if e.stops {
		p.stopped = true
	}
	s.record(traceEv{Ev: "ret", Proc: p.name, Call: e.call, Res: e.res, Ok: true})
}

func (s *session) doBegin(p *proc) bool {
	if p.reader {
		return s.inject(p)
	}
	p.begun++
	p.busy = true
	p.need, p.wcount = 0, 0
	s.record(traceEv{Ev: "begin", Proc: p.name, Call: p.begun, Ok: true})
	p.goCh <- struct{}{}
	return true
}

// begin: item "b:p". Reports whether the call was begun.
func (s *session) begin(p *proc) bool {
	if p.derailed || p.begun >= p.ncalls || p.stopped {
		s.lose("skip")
		return false
	}
	if p.busy {
		if p.pending != nil {
			p.derailed = true
			s.lose("skip")
			return false
		}
		select {
		case e := <-p.evc:
			if !e.ret {
				p.pending = &e
				p.derailed = true
				s.lose("skip")
				return false
			}
			s.onRet(p, e)
		case <-time.After(s.wait):
			p.derailed = true
			s.lose("timeout")
			return false
		}
	}
	if !s.doBegin(p) {
		s.lose("skip")
		return false
	}
	return true
}

// settle lets the process get where the generator predicts it gets after the item, as far
// as that can be seen: "t" it gives up waiting for the lock and returns (waited for), "g" it arrives at a gate (waited for, bounded; the arrival is kept
// for its "w" item), "l" it parks on the lock (cannot be seen: the processor is yielded a
// few times), "r" its call returns (not waited for: nobody depends on it, and the
// scheduler learning about the return would order the caller's last steps before
// everything that follows, hiding data races from the detector).
func (s *session) settle(p *proc, exp string) {
	switch exp {
	case "g", "p":
		if p.pending != nil || !p.busy {
			return
		}
		select {
		case e := <-p.evc:
			if e.ret {
				s.onRet(p, e)
				s.late++
			} else {
				p.pending = &e
			}
		case <-time.After(s.wait):
			s.late++
		}
	case "l":
		for i := 0; i < 4; i++ {
			runtime.Gosched()
		}
	case "t":
		// a control write with a short deadline that finds the lock taken: the schedule goes on
		// when it has given up (or, if the prediction is wrong, arrived at its gate)
		if p.pending != nil || !p.busy {
			return
		}
		select {
		case e := <-p.evc:
			if e.ret {
				s.onRet(p, e)
			} else {
				p.pending = &e
				s.late++
			}
		case <-time.After(s.wait + 25*shortDeadline):
			s.late++
		}
	case "r":
	default:
		rp.Bug("schedule item expectation %q", exp)
	}
}

// step: item "w:p" (a transport operation) or "a:p" (pause = true: the application goes on).
// Reports whether it was performed.
func (s *session) step(p *proc, pause bool) bool {
	if p.derailed || !p.busy {
		s.lose("skip")
		return false
	}
	var e procEvent
	if p.pending != nil {
		e, p.pending = *p.pending, nil
	} else {
		select {
		case e = <-p.evc:
		case <-time.After(s.wait):
			// it did not arrive: the library does not let it (or it is slow: lost coverage only)
			p.derailed = true
			s.lose("timeout")
			return false
		}
	}
	if e.ret {
		s.onRet(p, e)
		s.lose("skip")
		return false
	}
	if (e.op == "pause") != pause {
		// the process is somewhere else than the schedule thinks: it stays there until the rest is served
		p.pending = &e
		p.derailed = true
		s.lose("skip")
		return false
	}
	s.perform(p, e)
	// the remaining parts of a control frame follow at once: "w:p" is the whole frame
	for p.need > 0 {
		select {
		case e = <-p.evc:
		case <-time.After(s.wait):
			s.late++
			return true
		}
		if e.ret {
			s.onRet(p, e)
			return true
		}
		s.perform(p, e)
	}
	return true
}

// stallTimeout bounds the wait for calls to return once every transport operation they can
// be blocked in has been served. Generous, so that load cannot trip it; after a few schedules
// of the batch have stalled (the verdict is there) the rest is not waited for that long.
var stallTimeout = 20 * time.Second
var stallsSeen = 0

// drain serves everything that is left, in the order of arrival.
func (s *session) drain() {
	for {
		progressed := false
		for _, p := range s.order {
			if p.pending != nil {
				e := *p.pending
				p.pending = nil
				s.perform(p, e)
				progressed = true
			}
			if !p.busy && p.begun < p.ncalls && !p.stopped {
				if s.doBegin(p) {
					progressed = true
				}
			}
		}
		if progressed {
			continue
		}
		var active []*proc
		var cases []reflect.SelectCase
		for _, p := range s.order {
			if p.busy {
				active = append(active, p)
				cases = append(cases, reflect.SelectCase{Dir: reflect.SelectRecv, Chan: reflect.ValueOf(p.evc)})
			}
		}
		if len(active) == 0 {
			return
		}
		timer := time.NewTimer(stallTimeout)
		cases = append(cases, reflect.SelectCase{Dir: reflect.SelectRecv, Chan: reflect.ValueOf(timer.C)})
		i, v, _ := reflect.Select(cases)
		timer.Stop()
		if i == len(active) {
			for _, p := range active {
				s.stalled = append(s.stalled, p.name)
			}
			return
		}
		e := v.Interface().(procEvent)
		if e.ret {
			s.onRet(active[i], e)
		} else {
			s.perform(active[i], e)
		}
	}
}

func msgPayload(m int, plan msgPlan, seed int) []byte {
	n := 0
	for _, w := range plan.Writes {
		n += w
	}
	return ld.FillBytes(n, 40+m, seed)
}

func ctlPayload(k, j int) []byte { return []byte(fmt.Sprintf("K%d.%d", k, j)) }

type delivered struct {
	typ  int
	data []byte
}

type outcome struct {
	line    map[string]interface{}
	probs   []string
	classes map[string]bool
	info    map[string]interface{}
}

func runSchedule(c *schedCase, idx int, seed int, wait time.Duration) outcome {
	client := c.Role == "client"
	a, b := transport.NewConnPair()
	s := &session{c: c, client: client, inner: a, procs: map[string]*proc{}, byGoid: map[int64]*proc{}, wait: wait,
		umu: make(chan struct{}, 1), peerSide: b, rdOpen: map[string]int{}}
	s.umu <- struct{}{}
	g := &gateConn{Conn: a, s: s}
	s.conn = websocket.VerifNewConn(g, !client, 1024, c.Wbuf, false)
	peer := websocket.VerifNewConn(b, client, 1024, 1024, false)
	far := time.Now().Add(1000 * time.Hour)
	// the peer answers pings like the default handler, but a failing answer (the connection under
	// test may have closed the transport meanwhile) must not stop it from reading what was sent
	peer.SetPingHandler(func(m string) error {
		peer.WriteControl(websocket.PongMessage, []byte(m), time.Now().Add(time.Second))
		return nil
	})
	// the peer does not echo a Close frame: what the reader of the connection under test gets to see
	// besides the pongs is what the schedule makes the peer send
	peer.SetCloseHandler(func(int, string) error { return nil })

	add := func(name string, ncalls int, do func(call int) error) *proc {
		p := &proc{name: name, ncalls: ncalls, do: do, goCh: make(chan struct{}, 1), evc: make(chan procEvent, 4)}
		s.procs[name] = p
		s.order = append(s.order, p)
		return p
	}
	payloads := make([][]byte, len(c.Msgs)+1)
	for m := 1; m <= len(c.Msgs); m++ {
		payloads[m] = msgPayload(m, c.Msgs[m-1], seed)
	}
	add("D", len(c.Msgs), func(call int) error {
		plan, data := c.Msgs[call-1], payloads[call]
		mtype := websocket.BinaryMessage
		if strings.HasSuffix(plan.API, "c") {
			mtype, data = websocket.CloseMessage, websocket.FormatCloseMessage(websocket.CloseNormalClosure, fmt.Sprintf("D.%d", call))
		}
		switch plan.API {
		case "wm", "wmc":
			return s.conn.WriteMessage(mtype, data)
		case "pm", "pmc":
			pm, err := websocket.NewPreparedMessage(mtype, data)
			if err != nil {
				rp.Bug("NewPreparedMessage: %v", err)
			}
			return s.conn.WritePreparedMessage(pm)
		case "nwc":
			w, err := s.conn.NextWriter(mtype)
			if err != nil {
				return err
			}
			if _, err := w.Write(data); err != nil {
				return err
			}
			return w.Close()
		case "nw":
		default:
			rp.Bug("message plan api %q", plan.API)
		}
		pauseAfter := func(i int) {
			for _, k := range plan.Pause {
				if k == i {
					s.procs["D"].pause()
				}
			}
		}
		w, err := s.conn.NextWriter(websocket.BinaryMessage)
		if err != nil {
			return err
		}
		pauseAfter(0)
		for i, n := range plan.Writes {
			if _, err := w.Write(data[:n]); err != nil {
				return err
			}
			data = data[n:]
			pauseAfter(i + 1)
		}
		return w.Close()
	})
	for k := range c.Ctl {
		k := k
		add(fmt.Sprintf("K%d", k+1), len(c.Ctl[k]), func(call int) error {
			op, deadline := c.Ctl[k][call-1], far
			if strings.HasSuffix(op, "~") {
				op, deadline = strings.TrimSuffix(op, "~"), time.Now().Add(shortDeadline)
			}
			switch op {
			case "ping":
				return s.conn.WriteControl(websocket.PingMessage, ctlPayload(k+1, call), deadline)
			case "pong":
				return s.conn.WriteControl(websocket.PongMessage, ctlPayload(k+1, call), deadline)
			case "close":
				return s.conn.WriteControl(websocket.CloseMessage,
					websocket.FormatCloseMessage(websocket.CloseNormalClosure, string(ctlPayload(k+1, call))), deadline)
			default:
				rp.Bug("unknown control opcode %q", op)
				return nil
			}
		})
	}
	// the reading goroutine: the handlers of the frames the schedule makes the peer send are calls of R
	// (the package's default handler or one of the application that answers with WriteControl)
	reader := &proc{name: "R", reader: true, ncalls: len(c.Rd), evc: make(chan procEvent, 4)}
	if len(c.Rd) > 0 {
		s.procs["R"] = reader
		s.order = append(s.order, reader)
		defPing, defClose := s.conn.PingHandler(), s.conn.CloseHandler()
		s.conn.SetPingHandler(func(m string) error {
			j := s.injected(m)
			if j == 0 {
				return defPing(m)
			}
			dflt := strings.HasSuffix(c.Rd[j-1], "@")
			return s.handle(reader, j, dflt, func() error {
				if dflt {
					return defPing(m)
				}
				return s.conn.WriteControl(websocket.PongMessage, []byte(m), far)
			})
		})
		s.conn.SetCloseHandler(func(code int, text string) error {
			j := s.injected(text)
			if j == 0 {
				return defClose(code, text)
			}
			dflt := strings.HasSuffix(c.Rd[j-1], "@")
			return s.handle(reader, j, dflt, func() error {
				if dflt {
					return defClose(code, text)
				}
				return s.conn.WriteControl(websocket.CloseMessage, websocket.FormatCloseMessage(code, ""), far)
			})
		})
	}
	if c.Closer {
		add("X", 1, func(call int) error { return s.conn.Close() })
	}

	// all goroutines exist (parked) before the schedule starts, so that the goroutine table is read-only afterwards
	ready := make(chan struct{}, 8)
	nproc := 0
	for _, p := range s.order {
		if !p.reader {
			nproc++
			go s.runProc(p, ready)
		}
	}
	readerDone, startReader := make(chan struct{}), make(chan struct{})
	go func() { // the reader of the connection under test ("while ... another reads")
		reader.goid = goid()
		ready <- struct{}{}
		defer close(readerDone)
		defer func() {
			if e := recover(); e != nil {
				s.notePanic(fmt.Sprintf("reader: %v\n%s", e, debug.Stack()))
			}
		}()
		<-startReader
		for {
			if _, _, err := s.conn.ReadMessage(); err != nil {
				return
			}
		}
	}()
	var got []delivered
	peerDone := make(chan struct{})
	go func() { // a real peer endpoint: answers pings, echoes close, delivers the data messages
		defer close(peerDone)
		for {
			t, data, err := peer.ReadMessage()
			if err != nil {
				return
			}
			got = append(got, delivered{t, data})
		}
	}()
	for i := 0; i < nproc+1; i++ {
		<-ready
	}
	for _, p := range s.order {
		s.byGoid[p.goid] = p
	}
	s.byGoid[reader.goid] = reader
	close(startReader)

	for n, it := range c.Sched {
		f := strings.Split(it, ":")
		if len(f) != 3 {
			rp.Bug("schedule item %q", it)
		}
		p := s.procs[f[1]]
		if p == nil {
			rp.Bug("schedule item %q: no such process", it)
		}
		s.item = n
		done := false
		switch f[0] {
		case "b":
			done = s.begin(p)
		case "w":
			done = s.step(p, false)
		case "a":
			done = s.step(p, true)
		default:
			rp.Bug("schedule item %q", it)
		}
		if done {
			s.settle(p, f[2])
		}
	}
	s.drain()
	for _, p := range s.order {
		if !p.reader {
			close(p.goCh)
		}
	}
	<-s.umu
	xClosed := s.closed
	if !s.closed {
		s.closed = true
		s.inner.Close()
	}
	s.umu <- struct{}{}
	for _, ch := range []chan struct{}{readerDone, peerDone} {
		select {
		case <-ch:
		case <-time.After(stallTimeout): // (every call is back: the lock is free, nothing holds the reader up)
			s.stalled = append(s.stalled, "reader/peer")
		}
	}
	b.Close()
	return s.evaluate(idx, payloads, got, xClosed)
}

// tagWrites names every transport write of a process from that process' own byte stream:
// D alternates header writes (frame header + buffered bytes) and, when the header announces
// more payload than the write carries, one extra write with exactly the rest; a control frame of
// K.. and R is a first write holding at least the frame header ("ctl") and, when the header
// announces more than that write carries, further writes ("cext") with the rest - numbered by
// `frame`. Returns the observed frame structure of D's messages and the number of transport
// writes of every control call ("K1.2" -> n).
func (s *session) tagWrites() (observed map[int][]bool, lastComplete map[int]bool, ctlParts map[string]int) {
	observed = map[int][]bool{}
	lastComplete = map[int]bool{}
	ctlParts = map[string]int{}
	type ctlOpen struct {
		call  int
		parts int
		need  int64
	}
	copen := map[string]*ctlOpen{}
	var open *writeRec // D's header write that waits for its extra
	var need int64
	for _, w := range s.writes {
		switch {
		case w.proc == "D":
			if open != nil && open.call == w.call {
				w.frame, w.part, w.cls = open.frame, "extra", "raw"
				if int64(len(w.bytes)) != need {
					w.cls = "bad"
				}
				open = nil
				lastComplete[w.call] = w.ok
				continue
			}
			open = nil
			w.frame, w.part = len(observed[w.call])+1, "hdr"
			h, ok := parseHdr(w.bytes)
			have := int64(len(w.bytes) - h.hlen)
			if !ok || have > h.plen {
				w.cls = "bad"
				observed[w.call] = append(observed[w.call], false)
				continue
			}
			w.cls = h.class(s.client)
			isClose := w.call >= 1 && w.call <= len(s.c.Msgs) && strings.HasSuffix(s.c.Msgs[w.call-1].API, "c")
			if w.cls != "bad" && !strings.HasPrefix(w.cls, "first") && !strings.HasPrefix(w.cls, "cont") && !(isClose && w.cls == "close") {
				w.cls = "bad"
			}
			observed[w.call] = append(observed[w.call], have < h.plen)
			lastComplete[w.call] = w.ok && have == h.plen
			if have < h.plen && w.ok {
				open, need = w, h.plen-have
			}
		case strings.HasPrefix(w.proc, "K") || (w.proc == "R" && w.call > 0):
			key := fmt.Sprintf("%s.%d", w.proc, w.call)
			if o := copen[w.proc]; o != nil && o.call == w.call && o.need > 0 {
				o.parts++
				w.frame, w.part, w.cls = o.parts, "cext", "raw"
				if o.need -= int64(len(w.bytes)); o.need < 0 {
					w.cls = "bad"
				}
				if !w.ok {
					o.need = 0
				}
				ctlParts[key] = o.parts
				continue
			}
			ctlParts[key]++
			w.frame, w.part = ctlParts[key], "ctl"
			h, ok := parseHdr(w.bytes)
			if !ok || int64(len(w.bytes)) > int64(h.hlen)+h.plen {
				w.cls = "bad"
				continue
			}
			w.cls = h.class(s.client)
			if w.cls != "ping" && w.cls != "pong" && w.cls != "close" {
				w.cls = "bad"
				continue
			}
			if w.ok {
				copen[w.proc] = &ctlOpen{call: w.call, parts: 1, need: int64(h.hlen) + h.plen - int64(len(w.bytes))}
			}
		default:
			w.frame, w.part, w.cls = 1, "ctl", "foreign"
			if h, ok := parseHdr(w.bytes); ok {
				w.cls = "foreign:" + h.class(s.client)
			}
		}
	}
	return
}

func (s *session) evaluate(idx int, payloads [][]byte, got []delivered, xClosed bool) outcome {
	c := s.c
	o := outcome{classes: map[string]bool{}, info: map[string]interface{}{}}
	problem := func(class, format string, a ...interface{}) {
		o.probs = append(o.probs, fmt.Sprintf(format, a...))
		o.classes[class] = true
	}
	observed, _, ctlParts := s.tagWrites()

	// the program of this session: the predicted frames, unless the library fragmented differently
	rets := map[string]map[int]string{}
	for _, e := range s.ev {
		if e.Ev == "ret" {
			if rets[e.Proc] == nil {
				rets[e.Proc] = map[int]string{}
			}
			rets[e.Proc][e.Call] = e.Res
		}
	}
	msgs := make([][]bool, len(c.Msgs))
	fragDeviates := false
	for m := range c.Msgs {
		pred, obs := c.Msgs[m].Frames, observed[m+1]
		isPrefix := len(obs) <= len(pred)
		for i := 0; isPrefix && i < len(obs); i++ {
			isPrefix = obs[i] == pred[i]
		}
		if isPrefix && (len(obs) == len(pred) || rets["D"][m+1] != "nil") {
			msgs[m] = pred
			continue
		}
		fragDeviates = true
		msgs[m] = append([]bool(nil), obs...)
		if rets["D"][m+1] != "nil" || len(obs) == 0 {
			msgs[m] = append(msgs[m], false) // the frame that was refused
		}
	}
	if fragDeviates {
		o.info["frag_deviates"] = true
	}
	// the pauses of D's application, per frame: a pause lies before the frame that follows the header
	// writes the call had made when the application went on
	hold := make([][]int, len(msgs))
	for m := range msgs {
		hold[m] = make([]int, len(msgs[m]))
	}
	hdrs := map[int]int{}
	for _, e := range s.ev {
		switch {
		case e.Ev == "twrite" && e.Proc == "D" && s.writes[e.w].part == "hdr":
			hdrs[e.Call]++
		case e.Ev == "resume" && e.Call >= 1 && e.Call <= len(msgs):
			f := hdrs[e.Call]
			if n := len(hold[e.Call-1]); f >= n {
				f = n - 1 // (a library that goes on after what it called the last frame: the specification will say so)
			}
			if f >= 0 {
				hold[e.Call-1][f]++
			}
		}
	}
	rd := c.Rd
	if rd == nil {
		rd = []string{}
	}
	// the control frames that took more than one transport write
	type cxRec struct {
		P string `json:"p"`
		C int    `json:"c"`
		N int    `json:"n"`
	}
	dclose := []int{}
	for m := range c.Msgs {
		if strings.HasSuffix(c.Msgs[m].API, "c") {
			dclose = append(dclose, m+1)
		}
	}
	fault := c.Fault
	if fault == nil {
		fault = []faultPlan{}
	}
	cx := []cxRec{}
	for _, w := range s.writes {
		if w.part == "ctl" && w.frame == 1 {
			if n := ctlParts[fmt.Sprintf("%s.%d", w.proc, w.call)]; n > 1 {
				cx = append(cx, cxRec{w.proc, w.call, n})
			}
		}
	}

	// events with the tags of their writes
	var okWrites [][]byte
	closeAt := -1 // index in okWrites of the last part of the first Close frame that is on the wire
	var closeW *writeRec
	cutAt := -1 // index in okWrites of the first prefix a failed write left on the wire
	for i := range s.ev {
		e := &s.ev[i]
		if e.Ev != "twrite" {
			continue
		}
		w := s.writes[e.w]
		e.Frame, e.Part, e.Cls = w.frame, w.part, w.cls
		if w.cut == "some" {
			// the accepted prefix of a write that failed: on the wire, and the frame stays incomplete
			okWrites = append(okWrites, w.wire)
			if cutAt < 0 {
				cutAt = len(okWrites) - 1
			}
		}
		if w.ok {
			okWrites = append(okWrites, w.bytes)
			if w.cls == "close" && closeAt < 0 {
				closeAt, closeW = len(okWrites)-1, w
			} else if closeW != nil && closeAt == len(okWrites)-2 && w.part == "cext" && w.proc == closeW.proc && w.call == closeW.call {
				closeAt = len(okWrites) - 1 // the next part of that Close frame
			}
		}
	}
	frames := tokenize(okWrites, s.client)
	if frames == nil {
		frames = []frameRec{}
	}

	// delivered data messages, named by their content
	ids := []int{}
	for _, d := range got {
		id := 0
		for m := 1; m < len(payloads); m++ {
			if d.typ == websocket.BinaryMessage && bytes.Equal(d.data, payloads[m]) {
				id = m
			}
		}
		ids = append(ids, id)
	}

	o.line = map[string]interface{}{
		"case": idx, "family": c.Family,
		"prog": map[string]interface{}{"msgs": msgs, "hold": hold, "dclose": dclose, "ctl": c.Ctl, "rd": rd, "cx": cx, "fault": fault,
			"closer": c.Closer},
		"ev":        append(s.ev, traceEv{Ev: "end", Ok: true}),
		"frames":    frames,
		"delivered": ids,
	}

	// ---- what can be seen without the specification
	for _, p := range s.panics {
		problem("C15/panic", "panic in a library call: %s", firstLine(p))
	}
	if len(s.stalled) > 0 {
		switch stallsSeen++; {
		case stallsSeen >= 3:
			stallTimeout = 100 * time.Millisecond
		case stallsSeen >= 1:
			stallTimeout = 5 * time.Second
		}
		problem("C15/stall", "calls of %v did not return within %v after every transport operation was served", s.stalled, stallTimeout)
	}
	for i, f := range frames {
		// an unfinished last frame is what a transport that was closed or failed inside a frame leaves
		bad := f.Cls == "bad" || strings.HasPrefix(f.Cls, "misaligned") || (f.Cls == "partial" && (i != len(frames)-1 || !(xClosed || s.faults > 0)))
		if bad {
			problem("C15/torn-frame", "the wire bytes are not a sequence of whole frames: frame #%d is %q (transport writes %d..%d of %d: %s)",
				i+1, f.Cls, f.W0, f.W1, len(okWrites), s.wireSummary())
			break
		}
	}
	if cutAt >= 0 && cutAt != len(okWrites)-1 {
		problem("C15/write-after-failed-write", "%d transport write(s) reached the wire behind the prefix of a frame whose transport write had failed (%s)",
			len(okWrites)-1-cutAt, s.wireSummary())
	}
	if closeAt >= 0 && closeAt != len(okWrites)-1 {
		problem("C15/write-after-close", "%d transport write(s) reached the wire after the Close frame (%s)", len(okWrites)-1-closeAt, s.wireSummary())
	}
	closeSeen := false
	closeProc, closeCall := "", 0
	lateBegun := map[string]map[int]bool{}
	for _, e := range s.ev {
		switch {
		case e.Ev == "twrite" && e.Ok && e.Cls == "close":
			// the Close frame is sent when its last part is on the wire
			if closeProc == "" {
				closeProc, closeCall = e.Proc, e.Call
			}
			closeSeen = closeSeen || ctlParts[fmt.Sprintf("%s.%d", e.Proc, e.Call)] <= 1
		case e.Ev == "twrite" && e.Ok && e.Part == "cext" && e.Proc == closeProc && e.Call == closeCall:
			closeSeen = closeSeen || e.Frame == ctlParts[fmt.Sprintf("%s.%d", e.Proc, e.Call)]
		case e.Ev == "begin" && closeSeen && e.Proc != "X":
			if lateBegun[e.Proc] == nil {
				lateBegun[e.Proc] = map[int]bool{}
			}
			lateBegun[e.Proc][e.Call] = true
		case e.Ev == "ret" && lateBegun[e.Proc][e.Call] && e.Res == "timeout" && s.shortCall(e.Proc, e.Call):
			// gave up waiting for the lock: it failed and wrote nothing
		case e.Ev == "ret" && lateBegun[e.Proc][e.Call] && e.Res == "any":
			// a default handler: its result is not shown (its write, if any, is on the record)
		case e.Ev == "ret" && lateBegun[e.Proc][e.Call] && e.Res != "closesent":
			problem("C15/late-write-not-close-sent", "%s call %d began after the Close frame was written and returned %q, not the close-sent error", e.Proc, e.Call, e.Res)
		case e.Ev == "ret" && e.Proc == "X" && !xClosed:
			problem("C15/close-not-closing", "Conn.Close returned without closing the transport")
		}
	}
	for _, e := range s.ev {
		if e.Ev == "ret" && e.Res == "timeout" && !s.timeoutFault { // (a transport timeout and the sticky error it leaves look the same)
			if !s.shortCall(e.Proc, e.Call) {
				problem("C15/timeout-without-deadline", "%s call %d returned a write timeout although its deadline is far away", e.Proc, e.Call)
			}
			for _, w := range s.writes {
				if w.proc == e.Proc && w.call == e.Call {
					problem("C15/timeout-after-write", "%s call %d returned a write timeout but made a transport write", e.Proc, e.Call)
				}
			}
		}
	}
	if !o.classes["C15/torn-frame"] {
		// complete data messages on the wire, from the tokenizer's frames
		n, open := 0, false
		for _, f := range frames {
			switch f.Cls {
			case "first":
				open = true
			case "first+fin":
				n++
			case "cont+fin":
				if open {
					n++
				}
				open = false
			}
		}
		want := []int{}
		for m := 1; m <= n; m++ {
			want = append(want, m)
		}
		if fmt.Sprint(want) != fmt.Sprint(ids) {
			problem("C15/delivered", "the peer delivered data messages %v, the wire holds the complete messages %v (0 = not a message that was sent)", ids, want)
		}
	}
	o.info["events"] = len(s.ev)
	o.info["twrites"] = len(s.writes)
	o.info["timeouts"] = s.timeouts
	o.info["skipped"] = s.skipped
	o.info["late"] = s.late
	if len(s.lost) > 0 {
		o.info["lost"] = s.lost
	}
	o.info["exact"] = s.timeouts == 0 && s.skipped == 0 && s.late == 0
	extraHeld := false
	for i, w := range s.writes {
		if w.part == "hdr" && w.ok && i+1 < len(s.writes) && s.writes[i+1].part == "extra" {
			extraHeld = true
		}
	}
	o.info["extra"] = extraHeld
	o.info["rd_calls"] = 0
	if r := s.procs["R"]; r != nil {
		o.info["rd_calls"] = r.begun
	}
	o.info["rd_open_app"] = s.rdOpen["app"]
	o.info["rd_open_write"] = s.rdOpen["write"]
	o.info["faults"] = s.faults
	return o
}

func (s *session) shortCall(proc string, call int) bool {
	if !strings.HasPrefix(proc, "K") {
		return false
	}
	k, err := strconv.Atoi(proc[1:])
	if err != nil || k < 1 || k > len(s.c.Ctl) || call < 1 || call > len(s.c.Ctl[k-1]) {
		return false
	}
	return strings.HasSuffix(s.c.Ctl[k-1][call-1], "~")
}

func (s *session) wireSummary() string {
	var parts []string
	for _, w := range s.writes {
		t := fmt.Sprintf("%s.%d/%s:%s", w.proc, w.call, w.part, w.cls)
		if w.cut != "" {
			t += fmt.Sprintf("(cut after %d of %d bytes)", len(w.wire), len(w.bytes))
		} else if !w.ok {
			t += "(failed)"
		}
		parts = append(parts, t)
	}
	return strings.Join(parts, " ")
}

func firstLine(s string) string {
	if i := strings.IndexByte(s, '\n'); i >= 0 {
		return s[:i]
	}
	return s
}

// ---------------------------------------------------------------- race reports

func raceLogPath() string {
	for _, f := range strings.Fields(os.Getenv("GORACE")) {
		if strings.HasPrefix(f, "log_path=") {
			return strings.TrimPrefix(f, "log_path=")
		}
	}
	return ""
}

type raceReader struct {
	path string
	off  int
}

// next returns the race reports written since the last call.
func (r *raceReader) next() (lib []string, other []string) {
	b, err := os.ReadFile(r.path)
	if err != nil {
		return nil, nil // the runtime creates the file with its first report
	}
	s := string(b[r.off:])
	r.off = len(b)
	for _, rep := range strings.Split(s, "==================") {
		if !strings.Contains(rep, "DATA RACE") {
			continue
		}
		if strings.Contains(rep, "go-oryx-lib/websocket.") {
			lib = append(lib, strings.TrimSpace(rep))
		} else {
			other = append(other, strings.TrimSpace(rep))
		}
	}
	return
}

var raceFrameRe = regexp.MustCompile(`go-oryx-lib/websocket\.([^\s]*)\(\)\s+\S*/([^/\s]+:\d+)`)

func raceSummary(rep string) string {
	var fr []string
	seen := map[string]bool{}
	for _, m := range raceFrameRe.FindAllStringSubmatch(rep, -1) {
		t := m[1] + " " + m[2]
		if !seen[t] {
			seen[t] = true
			fr = append(fr, t)
		}
	}
	return strings.Join(fr, ", ")
}

func init() {
	batchRegistry["wsconc"] = func(c *rp.Ctx, cases []json.RawMessage) []rp.Result {
		if !raceEnabled {
			rp.Bug("the C15 replayer must be built with -race")
		}
		// the race detector's reports are read from its log file; without one, run again with one
		if raceLogPath() == "" {
			if os.Getenv("C15_REEXEC") != "" {
				rp.Bug("GORACE log_path not honoured")
			}
			tmp, err := os.MkdirTemp("", "c15race")
			if err != nil {
				rp.Bug("%v", err)
			}
			env := append(os.Environ(), "GORACE=halt_on_error=0 exitcode=0 log_path="+filepath.Join(tmp, "race"), "C15_REEXEC="+tmp)
			exe, err := os.Executable()
			if err != nil {
				rp.Bug("%v", err)
			}
			err = syscall.Exec(exe, os.Args, env)
			rp.Bug("re-exec: %v", err)
		}
		if tmp := os.Getenv("C15_REEXEC"); tmp != "" {
			defer os.RemoveAll(tmp)
		}
		wait := 30 * time.Millisecond
		if v := c.Extra["wait_ms"]; v != "" {
			n, err := strconv.Atoi(v)
			if err != nil {
				rp.Bug("wait_ms=%q", v)
			}
			wait = time.Duration(n) * time.Millisecond
		}
		var tracef *os.File
		if c.Dir != "" {
			var err error
			if tracef, err = os.Create(filepath.Join(c.Dir, "trace.ndjson")); err != nil {
				rp.Bug("trace file: %v", err)
			}
			defer tracef.Close()
		}
		rr := &raceReader{path: raceLogPath() + "." + strconv.Itoa(os.Getpid())}
		res := make([]rp.Result, len(cases))
		for i, raw := range cases {
			var sc schedCase
			if err := json.Unmarshal(raw, &sc); err != nil {
				rp.Bug("case %d: %v", i, err)
			}
			if sc.Wbuf <= 0 || len(sc.Msgs) == 0 || (sc.Role != "server" && sc.Role != "client") {
				rp.Bug("case %d: malformed schedule case", i)
			}
			o := runSchedule(&sc, i, c.Seed, wait)
			if tracef != nil {
				line, err := json.Marshal(o.line)
				if err != nil {
					rp.Bug("trace encoding: %v", err)
				}
				tracef.Write(append(line, '\n'))
			}
			r := rp.Result{I: i, OK: true, Nontriv: true, Info: o.info}
			lib, other := rr.next()
			if len(other) > 0 {
				rp.Bug("race report that does not involve the websocket package (harness bug?):\n%s", other[0])
			}
			if len(lib) > 0 {
				o.info["race_reports"] = len(lib)
				o.probs = append(o.probs, fmt.Sprintf("race detector: %d DATA RACE report(s) involving the websocket package; first: %s", len(lib), raceSummary(lib[0])))
				o.classes["C15/data-race"] = true
				rep := lib[0]
				if len(rep) > 3000 {
					rep = rep[:3000]
				}
				r.Observed = rep
			}
			if len(o.probs) > 0 {
				r.OK = false
				r.What = strings.Join(o.probs, "; ")
				if len(o.classes) == 1 {
					for k := range o.classes {
						r.Deviation = k
					}
				}
			}
			res[i] = r
		}
		return res
	}
}
