package main

import (
	"encoding/json"
	"errors"
	"fmt"
	"io"

	oe "github.com/ossrs/go-oryx-lib/errors"
	"github.com/ossrs/go-oryx-lib/rtmp"
	"verifharness/ld"
	"verifharness/rp"
	"verifharness/rtmpx"
	"verifharness/transport"
)

// C02: chunk streams of the conformant sender of spec/rtmp/RtmpChunk.tla (rendered to bytes by the
// specification's ChunkLD) are fed to a real rtmp.Protocol; what ReadMessage returns is compared
// with what the specification's reference receiver decodes.

var registry = map[string]rp.Replayer{}
var batchRegistry = map[string]rp.Batch{}

func main() { rp.Main(registry, batchRegistry) }

type expMsg struct {
	ID   int   `json:"id"`
	Type int   `json:"type"`
	Sid  int64 `json:"sid"`
	Ts   int64 `json:"ts"`
	Len  int   `json:"len"`
}

type chunkCase struct {
	Wire    []json.RawMessage `json:"wire"`
	Expect  []expMsg          `json:"expect"`
	Err     string            `json:"err"`
	Nchunks int               `json:"nchunks"`
	// Msgs carries ctl/scs of the expected messages (bodies of control messages)
	RawBodies json.RawMessage      `json:"bodies"`
	Bodies    map[string]rtmpx.Msg `json:"-"`
}

func runChunks(c *rp.Ctx, cs chunkCase, wire []byte, seg string) error {
	s := transport.NewStream()
	s.Seg = transport.SegmenterByName(seg, int64(c.Seed)*104729+int64(len(wire)))
	s.Write(wire)
	s.CloseWrite()
	p := rtmp.NewProtocol(&transport.Duplex{In: s, Out: transport.NewStream()})
	var keptWant []rtmpx.Msg
	var keptGot []*rtmp.Message
	for k, e := range cs.Expect {
		m, err := p.ReadMessage()
		if err != nil {
			return fmt.Errorf("message %d of %d (id %d type %d ts %d len %d) not delivered: %v", k+1, len(cs.Expect), e.ID, e.Type, e.Ts, e.Len, err)
		}
		want := rtmpx.Msg{ID: e.ID, Type: e.Type, Sid: e.Sid, Ts: e.Ts, Len: e.Len}
		if b, ok := cs.Bodies[fmt.Sprint(e.ID)]; ok {
			want.Scs, want.Ctl = b.Scs, b.Ctl
		}
		if err := sameChunked(want, m, c.Seed); err != nil {
			if ts := int64(m.Timestamp); ts != e.Ts && ts&0x7fffffff == e.Ts {
				return &notReduced{fmt.Errorf("message %d of %d (id %d): timestamp %d (0x%x) is not reduced to 31 bits, specification: %d (0x%x)",
					k+1, len(cs.Expect), e.ID, ts, ts, e.Ts, e.Ts)}
			}
			return fmt.Errorf("message %d of %d (id %d): %v", k+1, len(cs.Expect), e.ID, err)
		}
		keptWant, keptGot = append(keptWant, want), append(keptGot, m)
	}
	// a delivered message stays what it was while later chunks are read
	for k := range keptGot {
		if err := sameChunked(keptWant[k], keptGot[k], c.Seed); err != nil {
			return fmt.Errorf("message %d (id %d) changed after later reads: %v", k+1, keptWant[k].ID, err)
		}
	}
	m, err := p.ReadMessage()
	if err == nil {
		return fmt.Errorf("after the %d expected messages a further message was delivered (type %d ts %d len %d); specification: %s",
			len(cs.Expect), m.MessageType, m.Timestamp, len(m.Payload), map[bool]string{true: "end of stream", false: "rule violation " + cs.Err}[cs.Err == "no"])
	}
	cause := oe.Cause(err)
	isEOF := errors.Is(cause, io.EOF) || errors.Is(cause, io.ErrUnexpectedEOF)
	if cs.Err == "no" {
		if !isEOF {
			return fmt.Errorf("conformant stream rejected after %d messages: %v", len(cs.Expect), err)
		}
		return nil
	}
	// a rule violation must be rejected as such, not run into the end of the stream by mis-decoding
	if isEOF {
		return fmt.Errorf("rule violation %q was not rejected: the reader went on and hit the end of the stream (%v)", cs.Err, err)
	}
	if m2, err2 := p.ReadMessage(); err2 == nil && m2 != nil && cs.Err != "fresh_fmt" {
		_ = m2 // the property does not say the error is sticky; nothing to judge here
	}
	return nil
}

// notReduced: the delivered timestamp equals the specification's only modulo 2^31 (named deviation
// timestamp-reduced-only-after-extended of MC_RtmpChunk.tla, or any other missing reduction).
type notReduced struct{ error }

// sameChunked compares a delivered message; control bodies come from the specification's CtlBody.
func sameChunked(want rtmpx.Msg, got *rtmp.Message, seed int) error {
	switch want.Ctl {
	case "uc":
		w := want
		if int(got.MessageType) != 4 || int64(got.Timestamp) != w.Ts || int64(got.VerifStreamID()) != w.Sid {
			return fmt.Errorf("user control: type %d ts %d sid %d, want 4 %d %d", got.MessageType, got.Timestamp, got.VerifStreamID(), w.Ts, w.Sid)
		}
		exp := []byte{0, 6, 0, 0, 0, byte(want.ID % 256)}
		if string(got.Payload) != string(exp) {
			return fmt.Errorf("user control body %x, want %x", got.Payload, exp)
		}
		return nil
	case "ack":
		exp := []byte{0, 0x26, 0x25, 0xa0}
		if int(got.MessageType) != want.Type || string(got.Payload) != string(exp) || int64(got.Timestamp) != want.Ts {
			return fmt.Errorf("ack: type %d ts %d body %x", got.MessageType, got.Timestamp, got.Payload)
		}
		return nil
	}
	return want.Same(got, seed)
}

func init() {
	registry["chunks"] = func(c *rp.Ctx, i int, raw json.RawMessage) rp.Result {
		var cs chunkCase
		if err := json.Unmarshal(raw, &cs); err != nil {
			panic(err)
		}
		if len(cs.RawBodies) > 0 && cs.RawBodies[0] == '{' { // an empty TLA+ function is rendered as []
			if err := json.Unmarshal(cs.RawBodies, &cs.Bodies); err != nil {
				panic(err)
			}
		}
		var wire []byte
		for _, ch := range cs.Wire {
			l, err := ld.Parse(ch)
			if err != nil {
				panic(err)
			}
			// data payloads use the fixed pattern (seed 0) so that FillOff slices join up
			wire = append(wire, l.Must(0)...)
		}
		segs := []string{"whole", "random"}
		if len(wire) <= 4000 {
			segs = append(segs, "one")
		}
		cc := *c
		cc.Seed = 0
		for _, seg := range segs {
			if err := runChunks(&cc, cs, wire, seg); err != nil {
				r := rp.Result{OK: false, What: fmt.Sprintf("[segmentation %s, %d chunks, %d bytes] %v", seg, cs.Nchunks, len(wire), err)}
				if _, ok := err.(*notReduced); ok {
					r.Deviation = "C02/timestamp-not-reduced-to-31-bits"
				}
				return r
			}
		}
		return rp.Result{OK: true}
	}
}
