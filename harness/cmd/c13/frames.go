package main

import (
	"bytes"
	"compress/flate"
	"crypto/sha1"
	"encoding/binary"
	"encoding/json"
	"fmt"
	"io"
	"os"
	"path/filepath"
	"strings"
	"sync"

	"verifharness/rp"
)

// The harness's own RFC 6455 frame TOKENIZER. It extracts fields and unmasks payloads; it judges nothing.
// Every rule about the fields lives in spec/wswire/WsWire.tla, which validates the records written here.

type frame struct {
	Fin, R1, R23, Op, M, Form, Len int
	Payload                        []byte // unmasked
	At                             int    // offset of the frame in the stream
}

// tokenize splits a byte stream into frames. junkAt >= 0: the bytes from that offset on are not a whole frame.
func tokenize(b []byte) (frames []frame, junkAt int) {
	off := 0
	for off < len(b) {
		p := b[off:]
		if len(p) < 2 {
			return frames, off
		}
		f := frame{At: off}
		f.Fin = int(p[0] >> 7)
		f.R1 = int(p[0]>>6) & 1
		f.R23 = int(p[0]>>4) & 3
		f.Op = int(p[0] & 0x0f)
		f.M = int(p[1] >> 7)
		l7 := int(p[1] & 0x7f)
		h := 2
		switch l7 {
		case 126:
			if len(p) < 4 {
				return frames, off
			}
			f.Form, f.Len = 16, int(binary.BigEndian.Uint16(p[2:]))
			h = 4
		case 127:
			if len(p) < 10 {
				return frames, off
			}
			v := binary.BigEndian.Uint64(p[2:])
			if v > 1<<31-1 {
				return frames, off // longer than any stream of this harness: not a whole frame
			}
			f.Form, f.Len = 64, int(v)
			h = 10
		default:
			f.Form, f.Len = 7, l7
		}
		var key []byte
		if f.M == 1 {
			if len(p) < h+4 {
				return frames, off
			}
			key = p[h : h+4]
			h += 4
		}
		if len(p) < h+f.Len {
			return frames, off
		}
		f.Payload = append([]byte(nil), p[h:h+f.Len]...)
		for j := range f.Payload {
			if key != nil {
				f.Payload[j] ^= key[j&3]
			}
		}
		frames = append(frames, f)
		off += h + f.Len
	}
	return frames, -1
}

// inflate is RFC 7692 7.2.2: append 00 00 ff ff and decompress as raw DEFLATE. The stream has no final
// block, so the decompressor runs into the end of the input after the last block: that is expected.
func inflate(p []byte) ([]byte, bool) {
	r := flate.NewReader(io.MultiReader(bytes.NewReader(p), strings.NewReader("\x00\x00\xff\xff")))
	out, err := io.ReadAll(r)
	if err != nil && err != io.ErrUnexpectedEOF {
		return out, false
	}
	return out, true
}

type wireMsg struct {
	T    int  `json:"t"`
	Size int  `json:"size"`
	Z    bool `json:"z"`
	NL   bool `json:"nl"` // a JSON text: the encoder may end it with one line feed
}

// wantMsg is what the application wrote as one message.
type wantMsg struct {
	B  []byte
	NL bool
}

func (w wantMsg) eq(b []byte) bool {
	if bytes.Equal(b, w.B) {
		return true
	}
	return w.NL && len(b) == len(w.B)+1 && b[len(b)-1] == '\n' && bytes.Equal(b[:len(b)-1], w.B)
}

// gotMsg is a data message as the independent parser reassembles it.
type gotMsg struct {
	Op      int
	Payload []byte
	Ok      bool // inflated without error (always true for an uncompressed message)
}

// records renders a tokenised stream as the trace lines of one session (without the reset line) and returns the
// data messages an independent RFC 6455/7692 receiver reassembles from it. want[k] are the bytes the
// application wrote as its k-th message: equality is computed here (TLC cannot hold megabytes), judged in WsWire.
func records(frames []frame, junkAt, total int, want []wantMsg) (string, []gotMsg) {
	var sb strings.Builder
	var got []gotMsg
	var cur []byte
	curOpen, curZ, curOp := false, false, 0
	type rec struct {
		f frame
		n int
	}
	var pend *rec
	flush := func() {
		if pend != nil {
			f := pend.f
			fmt.Fprintf(&sb, `{"e":"f","fin":%d,"r1":%d,"r23":%d,"op":%d,"m":%d,"form":%d,"len":%d,"n":%d}`+"\n",
				f.Fin, f.R1, f.R23, f.Op, f.M, f.Form, f.Len, pend.n)
			pend = nil
		}
	}
	for _, f := range frames {
		isData := f.Op == 0 || f.Op == 1 || f.Op == 2
		if f.Op == 1 || f.Op == 2 {
			cur, curOpen, curZ, curOp = append([]byte(nil), f.Payload...), true, f.R1 == 1, f.Op
		} else if f.Op == 0 && curOpen {
			cur = append(cur, f.Payload...)
		}
		if f.Op == 0 && f.Fin == 0 {
			// run-length encoding of identical non-final continuation frames
			if pend != nil && pend.f.R1 == f.R1 && pend.f.R23 == f.R23 && pend.f.M == f.M && pend.f.Form == f.Form && pend.f.Len == f.Len {
				pend.n++
				continue
			}
			flush()
			pend = &rec{f: f, n: 1}
			continue
		}
		flush()
		if isData && f.Fin == 1 {
			ieq, ilen, last := false, -1, -1
			if curOpen {
				if len(cur) > 0 {
					last = int(cur[len(cur)-1])
				}
				body, ok := cur, true
				if curZ {
					body, ok = inflate(cur)
				}
				if ok {
					ilen = len(body)
				}
				k := len(got)
				ieq = ok && k < len(want) && want[k].eq(body)
				got = append(got, gotMsg{Op: curOp, Payload: body, Ok: ok})
			}
			cur, curOpen = nil, false
			fmt.Fprintf(&sb, `{"e":"f","fin":%d,"r1":%d,"r23":%d,"op":%d,"m":%d,"form":%d,"len":%d,"n":1,"ieq":%v,"ilen":%d,"last":%d}`+"\n",
				f.Fin, f.R1, f.R23, f.Op, f.M, f.Form, f.Len, ieq, ilen, last)
			continue
		}
		fmt.Fprintf(&sb, `{"e":"f","fin":%d,"r1":%d,"r23":%d,"op":%d,"m":%d,"form":%d,"len":%d,"n":1}`+"\n",
			f.Fin, f.R1, f.R23, f.Op, f.M, f.Form, f.Len)
	}
	flush()
	if junkAt >= 0 {
		fmt.Fprintf(&sb, `{"e":"junk","at":%d,"left":%d}`+"\n", junkAt, total-junkAt)
	}
	sb.WriteString(`{"e":"end"}` + "\n")
	return sb.String(), got
}

// ---------------------------------------------------------------- the trace file
// Sessions with the same role, messages and records are the same question to the validator: they are written
// once. Results carry the session numbers, so that a rejected session fails every case that produced it.

var traceMu sync.Mutex
var traceFile *os.File
var traceSeen = map[[20]byte]int{}
var traceNext = 0

// emitSession appends one session to <dir>/trace_<name>.ndjson and returns its session number (-1: no -dir given).
func emitSession(c *rp.Ctx, name, role string, msgs []wireMsg, body string) int {
	if c.Dir == "" {
		return -1
	}
	traceMu.Lock()
	defer traceMu.Unlock()
	if msgs == nil {
		msgs = []wireMsg{}
	}
	mj, err := json.Marshal(msgs)
	if err != nil {
		rp.Bug("marshal msgs: %v", err)
	}
	head := fmt.Sprintf(`"role":%q,"msgs":%s}`, role, mj)
	key := sha1.Sum([]byte(head + "\n" + body))
	if s, ok := traceSeen[key]; ok {
		return s
	}
	if traceFile == nil {
		f, err := os.OpenFile(filepath.Join(c.Dir, "trace_"+name+".ndjson"), os.O_CREATE|os.O_WRONLY|os.O_APPEND, 0o644)
		if err != nil {
			rp.Bug("trace file: %v", err)
		}
		traceFile = f
		// continue the numbering of a file that already has sessions (several replay stages share it)
		if st, err := f.Stat(); err == nil && st.Size() > 0 {
			b, _ := os.ReadFile(f.Name())
			traceNext = bytes.Count(b, []byte(`{"e":"reset"`))
		}
	}
	s := traceNext + sessionBase(c)
	traceNext++
	traceSeen[key] = s
	if _, err := traceFile.WriteString(fmt.Sprintf(`{"e":"reset","s":%d,`, s) + head + "\n" + body); err != nil {
		rp.Bug("trace file: %v", err)
	}
	return s
}

// sessionBase is the first session number of this run (extra argument sbase=N): stages of one check
// write disjoint numbers, so that their trace files can be concatenated.
func sessionBase(c *rp.Ctx) int {
	n := 0
	fmt.Sscanf(c.Extra["sbase"], "%d", &n)
	return n
}

// describe renders the frames of a stream for failure messages.
func describe(frames []frame, max int) string {
	var sb strings.Builder
	for k, f := range frames {
		if k == max {
			fmt.Fprintf(&sb, " ... (%d frames)", len(frames))
			break
		}
		fmt.Fprintf(&sb, " [@%d fin=%d rsv1=%d op=%d mask=%d form=%d len=%d]", f.At, f.Fin, f.R1, f.Op, f.M, f.Form, f.Len)
	}
	return sb.String()
}
