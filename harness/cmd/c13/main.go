// Replayers of C13 "WebSocket messages arrive intact, in order, on an RFC 6455-valid wire".
//
//	wswriter     sessions of spec/wswire/WsWriterCfg.tla over the in-memory transport
//	wshandshake  cases of spec/wswire/WsHandshake.tla against the real Upgrader and Dialer over loopback TCP
//
// Both record what the library wrote as frame records (-dir) which TLC validates with spec/wswire/Trace_WsWire.tla.
package main

import "verifharness/rp"

var registry = map[string]rp.Replayer{}
var batchRegistry = map[string]rp.Batch{}

func main() { rp.Main(registry, batchRegistry) }
