package main

import (
	"bytes"
	"compress/flate"
	"encoding/binary"
	"encoding/json"
	"fmt"
	"io"
	"math/rand"

	"github.com/ossrs/go-oryx-lib/websocket"
	"verifharness/ld"
	"verifharness/rp"
	"verifharness/transport"
)

// C13 (c): one case of spec/wswire/WsPeer.tla = the stream of a conformant FOREIGN sender (any RFC 6455/7692
// implementation, not the library: it fragments where it likes, uses masking keys of its own, compresses the
// messages it chooses to, puts pings between frames) and what the specification's receiver delivers for it.
// The harness serialises the frames itself and feeds them to a real Conn of the opposite role; the Conn's
// application reads with ReadMessage (rd = 0) or NextReader + Read calls of rd bytes and must get the case's
// messages, byte for byte, the pings with their payloads, and the close frame.

type peerFrame struct {
	Op  int `json:"op"`
	Fin int `json:"fin"`
	R1  int `json:"r1"`
	Len int `json:"len"` // payload octets (of a compressed message: of the model's abstract compressed form, see Gen_WsPeer)
}

type peerExp struct {
	T    int  `json:"t"`
	Size int  `json:"size"`
	Same bool `json:"same"` // the delivered payload is the message that was written
}

type peerCase struct {
	Fam    string      `json:"fam"`
	Role   string      `json:"role"` // of the sender
	Rd     int         `json:"rd"`
	Rbs    int         `json:"rbs"` // ReadBufferSize of the receiving Conn; 0: the default; -1: any - chosen here from the case text
	Msgs   []wireMsg   `json:"msgs"`
	Frames []peerFrame `json:"frames"`
	Exp    []peerExp   `json:"exp"`
	Pings  []int       `json:"pings"`
}

// deflated is RFC 7692 7.2.1: raw DEFLATE, flushed so that it ends with an empty stored block, whose
// 00 00 ff ff is removed.
func deflated(p []byte, level int) []byte {
	var buf bytes.Buffer
	w, err := flate.NewWriter(&buf, level)
	if err != nil {
		rp.Bug("flate level %d: %v", level, err)
	}
	w.Write(p)
	w.Flush()
	b := buf.Bytes()
	if len(b) < 4 || !bytes.Equal(b[len(b)-4:], []byte{0, 0, 0xff, 0xff}) {
		rp.Bug("flushed DEFLATE stream does not end with 00 00 ff ff: % x", b)
	}
	return b[:len(b)-4]
}

// keySchedule k gives the masking key of the f-th frame of the stream. RFC 6455 5.3 leaves the keys to the
// sender ("unpredictable"); the receiver must cope with any.
//
//	0: a fresh key per frame, its four octets pairwise different (no rotation of it equals it)
//	1: one such key for the whole stream
//	2: seeded random keys
//	3: keys with equal octets / the zero key, alternating with a fresh distinct one
const keySchedules = 4

func maskKey(schedule, f int, r *rand.Rand) [4]byte {
	distinct := func(n int) [4]byte {
		b := byte(17*n + 1)
		return [4]byte{b, b + 0x40, b + 0x80, b + 0xc0}
	}
	switch schedule {
	case 0:
		return distinct(f + 1)
	case 1:
		return distinct(0)
	case 2:
		var k [4]byte
		r.Read(k[:])
		return k
	}
	switch f % 3 {
	case 0:
		return [4]byte{0xa5, 0xa5, 0xa5, 0xa5}
	case 1:
		return distinct(f + 7)
	}
	return [4]byte{}
}

// frameBytes serialises one frame with the minimal length form.
func frameBytes(op, fin, r1 int, payload []byte, masked bool, key [4]byte) []byte {
	b := []byte{byte(fin<<7 | r1<<6 | op), 0}
	n := len(payload)
	switch {
	case n <= 125:
		b[1] = byte(n)
	case n <= 65535:
		b[1] = 126
		b = append(b, 0, 0)
		binary.BigEndian.PutUint16(b[2:], uint16(n))
	default:
		b[1] = 127
		b = append(b, 0, 0, 0, 0, 0, 0, 0, 0)
		binary.BigEndian.PutUint64(b[2:], uint64(n))
	}
	if !masked {
		return append(b, payload...)
	}
	b[1] |= 0x80
	b = append(b, key[:]...)
	for j, x := range payload {
		b = append(b, x^key[j&3]) // RFC 6455 5.3: octet j of the frame's payload with octet j mod 4 of its key
	}
	return b
}

type sentFrame struct {
	first   bool // first frame of a message
	data    bool
	payload []byte // as sent, before masking
	key     [4]byte
}

// receiverAs computes what a receiver with one of the named deviations of WsPeer.tla delivers for an
// uncompressed message made of the given frames (to name the deviation in a failure).
func receiverAs(dev string, frames []sentFrame, rd int) []byte {
	var out []byte
	var firstKey [4]byte
	for n, f := range frames {
		if n == 0 {
			firstKey = f.key
		}
		base := len(out)
		for j, x := range f.payload {
			wire := x ^ f.key[j&3]
			switch dev {
			case "mask-offset-per-message":
				wire ^= f.key[(base+j)&3]
			case "mask-key-kept":
				wire ^= firstKey[j&3]
			case "mask-pos-per-read":
				s := 0
				if rd > 0 {
					s = j / rd * rd
				}
				wire ^= f.key[(j-s)&3]
			}
			out = append(out, wire)
		}
	}
	return out
}

func runForeign(c *rp.Ctx, i, v int, cs *peerCase) rp.Result {
	if cs.Role != "client" && cs.Role != "server" {
		rp.Bug("role %q", cs.Role)
	}
	masked := cs.Role == "client"
	negotiated := false
	for _, m := range cs.Msgs {
		negotiated = negotiated || m.Z
	}
	level := []int{1, 9, flate.HuffmanOnly, flate.NoCompression, 6}[(v/3+c.Seed)%5]

	// the messages and, frame by frame, their wire form
	type msgState struct {
		plain []byte
		form  []byte // what is left of the wire form
		z     bool   // it is sent compressed
	}
	var want [][]byte
	var plan []sentFrame
	var pingsSent [][]byte
	k := -1
	var cur *msgState
	for n, f := range cs.Frames {
		switch {
		case f.Op == 9:
			p := ctlPayload(f.Len, n)
			pingsSent = append(pingsSent, p)
			plan = append(plan, sentFrame{payload: p})
			continue
		case f.Op == 1 || f.Op == 2:
			k++
			if k >= len(cs.Msgs) || cs.Msgs[k].T != f.Op || cur != nil {
				rp.Bug("frame %d starts message %d, which the case does not have (or the previous one is open)", n, k+1)
			}
			if f.R1 == 1 && !cs.Msgs[k].Z {
				rp.Bug("frame %d: RSV1 on a message without the extension", n)
			}
			plain := ld.FillBytes(cs.Msgs[k].Size, 40+k, c.Seed)
			if (v+k)%3 == 0 {
				rand.New(rand.NewSource(int64(c.Seed)*7919 + int64(v) + int64(k))).Read(plain)
			}
			want = append(want, plain)
			cur = &msgState{plain: plain, form: plain}
			if f.R1 == 1 {
				cur.form, cur.z = deflated(plain, level), true
			}
		case f.Op == 0:
			if cur == nil || f.R1 != 0 {
				rp.Bug("frame %d: continuation without an open message, or with RSV1", n)
			}
		default:
			rp.Bug("frame %d: opcode %d", n, f.Op)
		}
		compressed := cur.z
		take := f.Len
		if f.Fin == 1 {
			if !compressed && take != len(cur.form) {
				rp.Bug("frame %d: final frame of %d octets, %d are left of the message", n, take, len(cur.form))
			}
			take = len(cur.form)
		} else if take > len(cur.form) {
			if !compressed {
				rp.Bug("frame %d: %d octets, %d are left of the message", n, take, len(cur.form))
			}
			take = len(cur.form) // the real compressed form is shorter than the model's: the frame takes what there is
		}
		plan = append(plan, sentFrame{first: f.Op != 0, data: true, payload: cur.form[:take]})
		cur.form = cur.form[take:]
		if f.Fin == 1 {
			cur = nil
		}
	}
	if cur != nil || k != len(cs.Msgs)-1 {
		rp.Bug("the frames end inside message %d of %d", k+1, len(cs.Msgs))
	}
	if len(cs.Exp) != len(cs.Msgs) || len(cs.Pings) != len(pingsSent) {
		rp.Bug("the specification's receiver delivers %d messages and %d pings of %d and %d", len(cs.Exp), len(cs.Pings), len(cs.Msgs), len(pingsSent))
	}
	for n, e := range cs.Exp {
		if !e.Same || e.T != cs.Msgs[n].T || e.Size != cs.Msgs[n].Size {
			rp.Bug("the specification's receiver does not deliver message %d as written: %+v", n+1, e)
		}
	}

	schedules := 1
	if masked {
		schedules = keySchedules
	}
	for ks := 0; ks < schedules; ks++ {
		kr := rand.New(rand.NewSource(int64(c.Seed)*104729 + int64(v)))
		var wire []byte
		for n := range plan {
			plan[n].key = maskKey(ks, n, kr)
			f := cs.Frames[n]
			wire = append(wire, frameBytes(f.Op, f.Fin, f.R1, plan[n].payload, masked, plan[n].key)...)
		}
		wire = append(wire, frameBytes(8, 1, 0, websocket.FormatCloseMessage(websocket.CloseNormalClosure, ""), masked, maskKey(ks, len(plan), kr))...)

		a, b := transport.NewConnPair()
		switch (v + ks + c.Seed) % 3 {
		case 0:
			b.In.Seg = transport.Random(int64(c.Seed)*7919+int64(v)+int64(ks), 64)
		case 1:
			b.In.Seg = transport.Random(int64(c.Seed)*7919+int64(v)+int64(ks), 7)
		}
		rbs := cs.Rbs
		if rbs < 0 {
			rbs = []int{16, 128, 1024, 4096}[(v/2+ks+c.Seed)%4]
		}
		peer := websocket.VerifNewConn(b, masked, rbs, 256, negotiated)
		a.Write(wire)
		a.Out.CloseWrite()

		var pingsSeen [][]byte
		def := peer.PingHandler()
		peer.SetPingHandler(func(s string) error {
			pingsSeen = append(pingsSeen, []byte(s))
			return def(s)
		})
		var got []rdMsg
		var err error
		buf := make([]byte, cs.Rd+8)
		for {
			var t int
			var p []byte
			if cs.Rd == 0 {
				t, p, err = peer.ReadMessage()
			} else {
				var r io.Reader
				t, r, err = peer.NextReader()
				for err == nil {
					var n int
					// the window moves inside buf: the address handed to the library takes every alignment
					o := len(p) % 8
					n, err = r.Read(buf[o : o+cs.Rd])
					p = append(p, buf[o:o+n]...)
				}
				if err == io.EOF && r != nil {
					err = nil
				}
			}
			if err != nil {
				break
			}
			got = append(got, rdMsg{t, p})
		}
		tokens, _ := tokenize(wire)
		ctx := func() string {
			how := "ReadMessage"
			if cs.Rd > 0 {
				how = fmt.Sprintf("NextReader + Read calls of %d bytes", cs.Rd)
			}
			return fmt.Sprintf(" [foreign %s sender, key schedule %d, receiver reads with %s, read buffer %d; wire:%s]", cs.Role, ks, how, rbs, describe(tokens, 12))
		}
		for n := range got {
			if n >= len(want) {
				return rp.Fail(i, "the receiving Conn delivers %d messages, %d were sent (extra: type %d, %d bytes)%s", len(got), len(want), got[n].T, len(got[n].P), ctx())
			}
			if got[n].T != cs.Msgs[n].T {
				return rp.Fail(i, "the receiving Conn delivers message %d with type %d, sent as %d%s", n+1, got[n].T, cs.Msgs[n].T, ctx())
			}
			if !bytes.Equal(got[n].P, want[n]) {
				res := rp.Fail(i, "the receiving Conn delivers message %d (type %d, %d bytes) with a different payload: %s%s", n+1, cs.Msgs[n].T, len(want[n]), rp.FirstDiff(got[n].P, want[n]), ctx())
				// is it what a receiver with one of WsPeer's named deviations delivers?
				var fr []sentFrame
				seen := -1
				for _, f := range plan {
					if f.data && f.first {
						seen++
					}
					if f.data && seen == n {
						fr = append(fr, f)
					}
				}
				if masked && !compressedMsg(cs, n) {
					for _, dev := range []string{"mask-offset-per-message", "mask-key-kept", "mask-pos-per-read"} {
						if bytes.Equal(receiverAs(dev, fr, cs.Rd), got[n].P) {
							res.Deviation = "C13/" + dev
							break
						}
					}
				}
				return res
			}
		}
		if len(got) < len(want) {
			return rp.Fail(i, "the receiving Conn delivers %d of the %d messages sent, then: %v%s", len(got), len(want), err, ctx())
		}
		if ce, ok := err.(*websocket.CloseError); !ok || ce.Code != websocket.CloseNormalClosure {
			return rp.Fail(i, "after the %d messages the receiving Conn returned %v, want the close frame 1000 that was sent%s", len(want), err, ctx())
		}
		if len(pingsSeen) != len(pingsSent) {
			return rp.Fail(i, "%d pings sent, the receiving Conn's handler saw %d%s", len(pingsSent), len(pingsSeen), ctx())
		}
		for n := range pingsSent {
			if !bytes.Equal(pingsSent[n], pingsSeen[n]) {
				return rp.Fail(i, "ping %d arrived with a different payload: %s%s", n+1, rp.FirstDiff(pingsSeen[n], pingsSent[n]), ctx())
			}
		}
	}
	return rp.Result{OK: true, Nontriv: len(cs.Frames) > len(cs.Msgs)}
}

// compressedMsg: the n-th message of the case is sent with RSV1.
func compressedMsg(cs *peerCase, n int) bool {
	k := -1
	for _, f := range cs.Frames {
		if f.Op == 1 || f.Op == 2 {
			k++
			if k == n {
				return f.R1 == 1
			}
		}
	}
	return false
}

func init() {
	registry["wsforeign"] = func(c *rp.Ctx, i int, raw json.RawMessage) rp.Result {
		cs := peerCase{}
		if err := json.Unmarshal(raw, &cs); err != nil {
			panic(err)
		}
		return runForeign(c, i, rp.ContentHash(raw), &cs)
	}
}
