package main

import (
	"encoding/json"
	"fmt"
	"sync"
	"time"

	"github.com/ossrs/go-oryx-lib/websocket"
	"verifharness/rp"
	"verifharness/transport"
)

// C13 (d): one case of spec/wswire/PreparedCache.tla = one BROADCAST: the same *PreparedMessage is written to
// several connections (their options are the case), each by a goroutine of its own, all released together; behind
// it every goroutine writes a short text message and the close frame. Which of PreparedCache's schedules takes
// place is the Go scheduler's choice, so the broadcast is repeated (with a fresh prepared message: first use of
// its keys every time). Whatever the schedule: every connection's peer (a real Conn) must read the broadcast and
// the message behind it, and every connection's wire is recorded for WsWire.

type prepKey struct {
	Role string `json:"role"`
	Comp bool   `json:"comp"`
	Lvl  int    `json:"lvl"`
}

type prepCase struct {
	Fam     string      `json:"fam"`
	Conns   []prepKey   `json:"conns"`
	Warm    bool        `json:"warm"` // the prepared message was sent once before, on a connection with the options Warmkey
	Warmkey prepKey     `json:"warmkey"`
	T       int         `json:"t"`
	Size    int         `json:"size"`
	Content string      `json:"content"`
	Msgs    [][]wireMsg `json:"msgs"` // per connection: what its peer must receive
}

type prepEnd struct {
	a, b      *transport.Conn
	snd, peer *websocket.Conn
	key       prepKey
	err       error
}

func newPrepEnd(k prepKey) (*prepEnd, error) {
	if k.Role != "client" && k.Role != "server" {
		rp.Bug("role %q", k.Role)
	}
	e := &prepEnd{key: k}
	e.a, e.b = transport.NewConnPair()
	isServer := k.Role == "server"
	e.snd = websocket.VerifNewConn(e.a, isServer, 1024, 4096, k.Comp)
	e.peer = websocket.VerifNewConn(e.b, !isServer, 4096, 256, k.Comp)
	if k.Comp {
		if err := e.snd.SetCompressionLevel(k.Lvl); err != nil {
			return nil, fmt.Errorf("SetCompressionLevel(%d): %v", k.Lvl, err)
		}
	}
	return e, nil
}

// send writes the prepared message, the message behind it and the close frame.
func (e *prepEnd) send(pm *websocket.PreparedMessage) (err error) {
	defer func() {
		if r := recover(); r != nil {
			err = fmt.Errorf("the library panicked in the writing goroutine: %v", r)
		}
		e.a.Out.CloseWrite()
	}()
	if err := e.snd.WritePreparedMessage(pm); err != nil {
		return fmt.Errorf("WritePreparedMessage: %v", err)
	}
	if err := e.snd.WriteMessage(websocket.TextMessage, []byte("end")); err != nil {
		return fmt.Errorf("WriteMessage behind the prepared message: %v", err)
	}
	if err := e.snd.WriteControl(websocket.CloseMessage, websocket.FormatCloseMessage(websocket.CloseNormalClosure, ""), time.Time{}); err != nil {
		return fmt.Errorf("WriteControl(close): %v", err)
	}
	return nil
}

// check: the peer's reads, the independent parser and - when those are as they should be - the session for WsWire
// (a broadcast that lost a message is a failing result of its own; its schedule may not come again, so it is not
// also handed to the trace validation, which reproduces what it rejects).
func (e *prepEnd) check(c *rp.Ctx, msgs []wireMsg, want []wantMsg, who string) (int, error) {
	wire := e.a.Out.Bytes()
	frames, junkAt := tokenize(wire)
	ctx := fmt.Sprintf(" [%s: %s sender, compression %v level %d; wire:%s]", who, e.key.Role, e.key.Comp, e.key.Lvl, describe(frames, 8))
	var pings [][]byte
	got, err := readAll(e.peer, &pings)
	body, indep := records(frames, junkAt, len(wire), want)
	if e := sameMsgs("the peer's ReadMessage", got, want, msgs); e != nil {
		return -1, fmt.Errorf("%v (reader ended with: %v)%s", e, err, ctx)
	}
	if ce, ok := err.(*websocket.CloseError); !ok || ce.Code != websocket.CloseNormalClosure {
		return -1, fmt.Errorf("after the %d messages the peer's reader returned %v, want the close frame 1000 that was written%s", len(want), err, ctx)
	}
	var ig []rdMsg
	for _, m := range indep {
		if !m.Ok {
			return -1, fmt.Errorf("message %d does not inflate under RFC 7692%s", len(ig)+1, ctx)
		}
		ig = append(ig, rdMsg{m.Op, m.Payload})
	}
	if e := sameMsgs("the independent frame parser", ig, want, msgs); e != nil {
		return -1, fmt.Errorf("%v%s", e, ctx)
	}
	return emitSession(c, "wswire", e.key.Role, msgs, body), nil
}

func runPrepared(c *rp.Ctx, i int, cs *prepCase) rp.Result {
	if len(cs.Conns) < 2 || len(cs.Msgs) != len(cs.Conns) {
		rp.Bug("broadcast to %d connections with %d expectations", len(cs.Conns), len(cs.Msgs))
	}
	rounds := 12 // small payloads: the window is microseconds, the round is cheap
	if cs.Size > 100000 {
		rounds = 3
	}
	var sess []int
	info := func() map[string]interface{} { return map[string]interface{}{"s": sess} }
	for round := 0; round < rounds; round++ {
		rp.Alive()
		st := &step{API: "PM", T: cs.T, Size: cs.Size, ID: 70 + round}
		data := payload(&writerCase{Content: cs.Content}, st, c.Seed)
		want := []wantMsg{{B: data}, {B: []byte("end")}}
		pm, err := websocket.NewPreparedMessage(cs.T, data)
		if err != nil {
			return rp.Fail(i, "NewPreparedMessage(%d, %d bytes): %v", cs.T, len(data), err)
		}
		if cs.Warm {
			e, err := newPrepEnd(cs.Warmkey)
			if err != nil {
				return rp.Fail(i, "%v", err)
			}
			if err := e.send(pm); err != nil {
				return rp.Fail(i, "first use of the prepared message, before the broadcast: %v", err)
			}
			wm := []wireMsg{{T: cs.T, Size: cs.Size, Z: cs.Warmkey.Comp}, {T: 1, Size: 3, Z: cs.Warmkey.Comp}}
			s, err := e.check(c, wm, want, "first use of the prepared message, before the broadcast")
			if err != nil {
				return rp.Result{What: err.Error(), Info: info()}
			}
			sess = append(sess, s)
		}
		ends := make([]*prepEnd, len(cs.Conns))
		for n, k := range cs.Conns {
			if ends[n], err = newPrepEnd(k); err != nil {
				return rp.Fail(i, "%v", err)
			}
		}
		start := make(chan struct{})
		var wg sync.WaitGroup
		for _, e := range ends {
			wg.Add(1)
			go func(e *prepEnd) {
				defer wg.Done()
				<-start
				e.err = e.send(pm)
			}(e)
		}
		close(start)
		wg.Wait()
		rp.Alive()
		for n, e := range ends {
			who := fmt.Sprintf("round %d, connection %d of %d written to at once with the same prepared message (%d bytes%s)", round+1, n+1, len(ends), cs.Size,
				map[bool]string{true: ", used once before", false: ", first use"}[cs.Warm])
			if e.err != nil {
				return rp.Result{What: fmt.Sprintf("%v [%s]", e.err, who), Info: info()}
			}
			if cs.Msgs[n][0].Size != cs.Size || cs.Msgs[n][0].T != cs.T || cs.Msgs[n][0].Z != e.key.Comp || len(cs.Msgs[n]) != 2 {
				rp.Bug("expectation of connection %d: %+v", n, cs.Msgs[n])
			}
			s, err := e.check(c, cs.Msgs[n], want, who)
			if err != nil {
				return rp.Result{What: err.Error(), Info: info()}
			}
			sess = append(sess, s)
		}
	}
	return rp.Result{OK: true, Nontriv: true, Info: info()}
}

func init() {
	registry["wsprepared"] = func(c *rp.Ctx, i int, raw json.RawMessage) rp.Result {
		cs := prepCase{}
		if err := json.Unmarshal(raw, &cs); err != nil {
			panic(err)
		}
		return runPrepared(c, i, &cs)
	}
}
