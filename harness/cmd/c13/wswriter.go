package main

import (
	"bytes"
	"encoding/json"
	"fmt"
	"io"
	"math/rand"
	"time"

	"github.com/ossrs/go-oryx-lib/websocket"
	"verifharness/ld"
	"verifharness/rp"
	"verifharness/transport"
)

// C13 (a): one case of spec/wswire/WsWriterCfg.tla = one session. A real Conn of the case's role writes the
// messages through the case's API and partition into Write calls; the peer (real Conn of the opposite role)
// must read exactly the messages; the sender's raw bytes are tokenised by frames.go, reassembled/inflated
// independently and recorded for TLC (WsWire.tla judges the frames).

type step struct {
	API   string  `json:"api"`   // WM WriteMessage | NW NextWriter+Write | WS io.WriteString | RF io.Copy (ReadFrom) | PM prepared | JS WriteJSON
	T     int     `json:"t"`     // 1 text, 2 binary
	Size  int     `json:"size"`  // payload bytes
	ID    int     `json:"id"`    // payload pattern
	Parts [][]int `json:"parts"` // the partition into Write calls (Read results for RF), run-length encoded [len, count]
	Rand  int     `json:"rand"`  // > 0: instead, a seeded random partition into about that many calls
	Wc    bool    `json:"wc"`    // EnableWriteCompression before the message
	Ping  int     `json:"ping"`  // >= 0: a ping with that many payload bytes is written before the message
	Mid   int     `json:"mid"`   // >= 0: a pong of that size is written after the first Write call (NW/WS only)
	Via   string  `json:"via"`   // entry point of the ping (and of the close frame): WC WriteControl ("" too) | WM WriteMessage | NW NextWriter+Write+Close | PM prepared message
}

type writerCase struct {
	Fam     string    `json:"fam"`
	Role    string    `json:"role"`
	Comp    bool      `json:"comp"`
	Lvl     int       `json:"lvl"`
	Content string    `json:"content"` // pat: compressible pattern | rnd: seeded random bytes
	Bs      int       `json:"bs"`
	Steps   []step    `json:"steps"`
	Msgs    []wireMsg `json:"msgs"`
	Over    bool      `json:"over"` // the application also asks for control frames of 126 bytes
}

const alnum = "abcdefghijklmnopqrstuvwxyz0123456789"

// payload builds the bytes of a step's message (the application's input and, unchanged, the expected output).
func payload(cs *writerCase, st *step, seed int) []byte {
	n := st.Size
	if st.API == "JS" {
		if n < 2 {
			rp.Bug("JSON message of %d bytes", n)
		}
		n -= 2 // "<n-2 characters>"; the encoder may add a line feed (wireMsg.NL)
	}
	var b []byte
	if cs.Content == "rnd" {
		b = make([]byte, n)
		rand.New(rand.NewSource(int64(seed)*1000003 + int64(st.ID)*7919 + int64(n))).Read(b)
	} else {
		b = ld.FillBytes(n, st.ID, seed)
	}
	if st.API == "JS" {
		out := make([]byte, 0, n+2)
		out = append(out, '"')
		for _, x := range b {
			out = append(out, alnum[int(x)%len(alnum)])
		}
		return append(out, '"')
	}
	return b
}

// calls expands the partition of a step into call lengths.
func calls(st *step, seed int) []int {
	var out []int
	sum := 0
	if st.Rand > 0 {
		r := rand.New(rand.NewSource(int64(seed)*31 + int64(st.ID)*131 + int64(st.Size)))
		left := st.Size
		mean := st.Size/st.Rand + 1
		for left > 0 {
			n := r.Intn(2*mean + 1) // may be 0: empty calls are legal
			if r.Intn(8) == 0 {
				n = r.Intn(5)
			}
			if n > left {
				n = left
			}
			out = append(out, n)
			left -= n
		}
		return out
	}
	for _, p := range st.Parts {
		if len(p) != 2 || p[0] < 0 || p[1] < 0 {
			rp.Bug("bad partition %v", st.Parts)
		}
		for k := 0; k < p[1]; k++ {
			out = append(out, p[0])
			sum += p[0]
		}
	}
	if sum != st.Size {
		rp.Bug("partition %v does not sum to %d", st.Parts, st.Size)
	}
	return out
}

// partReader returns the message in the pieces of the partition (io.Copy calls the writer's ReadFrom with it).
type partReader struct {
	data  []byte
	calls []int
	// eofWithData: the last piece is returned together with io.EOF (allowed by io.Reader, done by HTTP
	// bodies and many wrappers)
	eofWithData bool
}

func (r *partReader) Read(p []byte) (int, error) {
	for len(r.calls) > 0 && r.calls[0] == 0 {
		r.calls = r.calls[1:]
		if len(p) > 0 {
			return 0, nil // an empty read is legal for an io.Reader
		}
	}
	if len(r.calls) == 0 {
		return 0, io.EOF
	}
	n := r.calls[0]
	if n > len(p) {
		n = len(p)
	}
	copy(p, r.data[:n])
	r.data = r.data[n:]
	r.calls[0] -= n
	if r.calls[0] == 0 {
		r.calls = r.calls[1:]
	}
	if r.eofWithData && len(r.calls) == 0 {
		return n, io.EOF
	}
	return n, nil
}

func ctlPayload(n, id int) []byte { return ld.FillBytes(n, 200+id, 5) }

// writeCtl writes a control message through one of the library's entry points for it.
func writeCtl(c *websocket.Conn, via string, t int, p []byte) error {
	switch via {
	case "", "WC":
		return c.WriteControl(t, p, time.Time{})
	case "WM":
		return c.WriteMessage(t, p)
	case "NW":
		w, err := c.NextWriter(t)
		if err != nil {
			return fmt.Errorf("NextWriter(%d): %v", t, err)
		}
		h := len(p) / 2
		for _, part := range [][]byte{p[:h], p[h:]} {
			if n, err := w.Write(part); err != nil || n != len(part) {
				return fmt.Errorf("Write of %d bytes to the writer of a control message: %d, %v", len(part), n, err)
			}
		}
		return w.Close()
	case "PM":
		pm, err := websocket.NewPreparedMessage(t, p)
		if err != nil {
			return fmt.Errorf("NewPreparedMessage(%d, %d bytes): %v", t, len(p), err)
		}
		return c.WritePreparedMessage(pm)
	}
	rp.Bug("unknown control entry point %q", via)
	return nil
}

// writeStep writes one message through the step's API.
func writeStep(c *websocket.Conn, st *step, data []byte, seed int) error {
	switch st.API {
	case "WM":
		return c.WriteMessage(st.T, data)
	case "PM":
		pm, err := websocket.NewPreparedMessage(st.T, data)
		if err != nil {
			return fmt.Errorf("NewPreparedMessage: %v", err)
		}
		return c.WritePreparedMessage(pm)
	case "JS":
		return c.WriteJSON(string(data[1 : len(data)-1]))
	case "NW", "WS", "RF":
		w, err := c.NextWriter(st.T)
		if err != nil {
			return fmt.Errorf("NextWriter: %v", err)
		}
		cl := calls(st, seed)
		if st.API == "RF" {
			// every other message is copied from a source that ends with (n > 0, io.EOF)
			if _, err := io.Copy(w, &partReader{data: data, calls: cl, eofWithData: (len(data)+seed)%2 == 0}); err != nil {
				return fmt.Errorf("io.Copy into the message writer: %v", err)
			}
		} else {
			rest := data
			for k, n := range cl {
				var wn int
				if st.API == "WS" {
					wn, err = io.WriteString(w, string(rest[:n]))
				} else {
					wn, err = w.Write(rest[:n])
				}
				if err != nil || wn != n {
					return fmt.Errorf("call %d of %d: wrote %d of %d bytes: %v", k+1, len(cl), wn, n, err)
				}
				rest = rest[n:]
				if k == 0 && st.Mid >= 0 {
					if err := c.WriteControl(websocket.PongMessage, ctlPayload(st.Mid, st.ID), time.Time{}); err != nil {
						return fmt.Errorf("WriteControl(pong) inside the message: %v", err)
					}
				}
			}
		}
		return w.Close()
	}
	rp.Bug("unknown API %q", st.API)
	return nil
}

func viaName(via string) string {
	return map[string]string{"": "WriteControl", "WC": "WriteControl", "WM": "WriteMessage", "NW": "NextWriter + Write + Close", "PM": "a prepared message"}[via]
}

type rdMsg struct {
	T int
	P []byte
}

// readAll reads messages until an error; pings seen are collected.
func readAll(c *websocket.Conn, pings *[][]byte) ([]rdMsg, error) {
	def := c.PingHandler()
	c.SetPingHandler(func(s string) error {
		*pings = append(*pings, []byte(s))
		return def(s)
	})
	var out []rdMsg
	for {
		t, p, err := c.ReadMessage()
		if err != nil {
			return out, err
		}
		out = append(out, rdMsg{t, p})
	}
}

func sameMsgs(who string, got []rdMsg, want []wantMsg, msgs []wireMsg) error {
	for k := range got {
		if k >= len(want) {
			return fmt.Errorf("%s does not return the sequence of messages that was written: %d messages instead of %d (extra: type %d, %d bytes)", who, len(got), len(want), got[k].T, len(got[k].P))
		}
		if got[k].T != msgs[k].T {
			return fmt.Errorf("%s does not return the sequence of messages that was written: message %d has type %d, written as %d", who, k+1, got[k].T, msgs[k].T)
		}
		if !want[k].eq(got[k].P) {
			return fmt.Errorf("%s does not return the sequence of messages that was written: message %d (type %d, %d bytes) has a different payload: %s", who, k+1, msgs[k].T, len(want[k].B), rp.FirstDiff(got[k].P, want[k].B))
		}
	}
	if len(got) < len(want) {
		return fmt.Errorf("%s does not return the sequence of messages that was written: %d of %d messages", who, len(got), len(want))
	}
	return nil
}

// v is a number derived from the case text: what the case leaves open (read segmentation, read buffer size)
// is chosen from it, so that a case replayed alone behaves as in the batch.
func runWriter(c *rp.Ctx, i, v int, cs *writerCase) rp.Result {
	if len(cs.Steps) != len(cs.Msgs) {
		rp.Bug("case has %d steps and %d messages", len(cs.Steps), len(cs.Msgs))
	}
	a, b := transport.NewConnPair()
	isServer := cs.Role == "server"
	peerRole := map[bool]string{true: "client", false: "server"}[isServer]
	total := 0
	for _, st := range cs.Steps {
		total += st.Size
	}
	if total < 300000 && (v+c.Seed)%2 == 0 {
		b.In.Seg = transport.Random(int64(c.Seed)*7919+int64(v), 1500)
	}
	// the receiving endpoint's read buffer: any size is the application's right, also one below the largest control payload
	rbs := []int{128, 256, 1024, 4096, 1, 100, 124, 0}[(v/2+c.Seed)%8]
	snd := websocket.VerifNewConn(a, isServer, rbs, cs.Bs, cs.Comp)
	peer := websocket.VerifNewConn(b, !isServer, rbs, 256, cs.Comp)
	if cs.Comp {
		if err := snd.SetCompressionLevel(cs.Lvl); err != nil {
			return rp.Fail(i, "SetCompressionLevel(%d): %v", cs.Lvl, err)
		}
	}

	var want []wantMsg
	var pingsSent [][]byte
	for k := range cs.Steps {
		st := &cs.Steps[k]
		data := payload(cs, st, c.Seed)
		if len(data) != st.Size || cs.Msgs[k].Size != st.Size || cs.Msgs[k].T != st.T || cs.Msgs[k].NL != (st.API == "JS") {
			rp.Bug("step %d: payload %d bytes, step says %d, message list says %d (type %d/%d)", k, len(data), st.Size, cs.Msgs[k].Size, st.T, cs.Msgs[k].T)
		}
		want = append(want, wantMsg{data, cs.Msgs[k].NL})
		if st.Ping >= 0 {
			p := ctlPayload(st.Ping, k)
			pingsSent = append(pingsSent, p)
			if err := writeCtl(snd, st.Via, websocket.PingMessage, p); err != nil {
				return rp.Fail(i, "message %d: ping of %d bytes written through %s: %v", k+1, st.Ping, viaName(st.Via), err)
			}
		}
		snd.EnableWriteCompression(st.Wc)
		if err := writeStep(snd, st, data, c.Seed); err != nil {
			return rp.Fail(i, "message %d (%s, type %d, %d bytes, calls %v rand %d): write failed: %v", k+1, st.API, st.T, st.Size, st.Parts, st.Rand, err)
		}
	}
	if cs.Over {
		// whatever these calls return, a control frame of 126 bytes must not reach the wire (WsWire judges the wire)
		snd.WriteControl(websocket.PongMessage, ctlPayload(126, 1), time.Time{})
		snd.WriteMessage(websocket.PingMessage, ctlPayload(126, 2))
		if w, err := snd.NextWriter(websocket.PongMessage); err == nil {
			w.Write(ctlPayload(100, 3))
			w.Write(ctlPayload(26, 4))
			w.Close()
		}
	}
	closeVia := ""
	if n := len(cs.Steps); n > 0 && cs.Steps[n-1].Ping >= 0 {
		closeVia = cs.Steps[n-1].Via
	}
	if err := writeCtl(snd, closeVia, websocket.CloseMessage, websocket.FormatCloseMessage(websocket.CloseNormalClosure, "")); err != nil {
		return rp.Fail(i, "close frame written through %s: %v", viaName(closeVia), err)
	}
	a.Out.CloseWrite()
	wire := a.Out.Bytes()

	// (1) the peer endpoint of the real library
	var pingsSeen [][]byte
	got, err := readAll(peer, &pingsSeen)
	frames, junkAt := tokenize(wire)
	ctx := func() string {
		return fmt.Sprintf(" [%s sender, compression %v level %d, write buffer %d; wire:%s]", cs.Role, cs.Comp, cs.Lvl, cs.Bs, describe(frames, 12))
	}
	if e := sameMsgs("the peer's ReadMessage", got, want, cs.Msgs); e != nil {
		return rp.Fail(i, "%v (reader ended with: %v)%s", e, err, ctx())
	}
	if ce, ok := err.(*websocket.CloseError); !ok || ce.Code != websocket.CloseNormalClosure {
		return rp.Fail(i, "after the %d messages the peer's reader returned %v, want the close frame 1000 that was written%s", len(want), err, ctx())
	}
	if len(pingsSeen) != len(pingsSent) {
		return rp.Fail(i, "%d pings written, the peer saw %d%s", len(pingsSent), len(pingsSeen), ctx())
	}
	for k := range pingsSent {
		if !bytes.Equal(pingsSent[k], pingsSeen[k]) {
			return rp.Fail(i, "ping %d arrived with a different payload%s", k+1, ctx())
		}
	}

	// (2) the independent parser: reassembly / inflation, and the records for WsWire
	body, indep := records(frames, junkAt, len(wire), want)
	s1 := emitSession(c, "wswire", cs.Role, cs.Msgs, body)
	// the peer's own stream (pongs, the close echo) is a session without messages of the opposite role
	pw := b.Out.Bytes()
	pframes, pjunk := tokenize(pw)
	pbody, _ := records(pframes, pjunk, len(pw), nil)
	s2 := emitSession(c, "wswire", peerRole, nil, pbody)

	info := map[string]interface{}{"s": []int{s1, s2}}
	var ig []rdMsg
	for _, m := range indep {
		if !m.Ok {
			return rp.Result{Info: info, What: fmt.Sprintf("message %d does not inflate under RFC 7692 (append 00 00 ff ff, raw DEFLATE)%s", len(ig)+1, ctx())}
		}
		ig = append(ig, rdMsg{m.Op, m.Payload})
	}
	if e := sameMsgs("the independent frame parser", ig, want, cs.Msgs); e != nil {
		return rp.Result{Info: info, What: fmt.Sprintf("%v%s", e, ctx())}
	}
	return rp.Result{OK: true, Info: info, Nontriv: true}
}

func init() {
	registry["wswriter"] = func(c *rp.Ctx, i int, raw json.RawMessage) rp.Result {
		cs := writerCase{}
		if err := json.Unmarshal(raw, &cs); err != nil {
			panic(err)
		}
		return runWriter(c, i, rp.ContentHash(raw), &cs)
	}
}
