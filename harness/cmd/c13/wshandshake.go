package main

import (
	"bufio"
	"bytes"
	"compress/flate"
	"crypto/sha1"
	"encoding/base64"
	"encoding/json"
	"fmt"
	"io"
	"net"
	"net/http"
	"net/http/httptest"
	"sort"
	"strings"
	"sync"
	"time"

	"github.com/ossrs/go-oryx-lib/websocket"
	"verifharness/rp"
)

// C13 (b): cases of spec/wswire/WsHandshake.tla over loopback TCP.
//
//	upgrade  a crafted request (raw TCP) against the real Upgrader behind net/http
//	dial     the real Dialer against a scripted server (raw TCP)
//	session  the real Dialer against the real Upgrader, the client's socket recorded in both directions
//
// Sessions that come up exchange messages; what the library wrote is tokenised and recorded for WsWire like in (a).

const wsGUID = "258EAFA5-E914-47DA-95CA-C5AB0DC85B11"
const ioWait = 30 * time.Second

// acceptOf is RFC 6455 4.2.2 item 5.4, computed here independently of the library.
func acceptOf(key string) string {
	h := sha1.Sum([]byte(key + wsGUID))
	return base64.StdEncoding.EncodeToString(h[:])
}

// the keys of the specification's alphabet (k1 is the nonce of RFC 6455 1.3)
var hsKeys = map[string]string{
	"k1": "dGhlIHNhbXBsZSBub25jZQ==",
	"k2": "AQIDBAUGBwgJCgsMDQ4PEA==",
	"k3": "/////////////////////w==",
	"":   "",
}

type hsReq struct {
	Method string   `json:"method"`
	Conn   []string `json:"conn"`
	Upg    []string `json:"upg"`
	Ver    string   `json:"ver"`
	Key    string   `json:"key"`
	Origin string   `json:"origin"`
	Ext    string   `json:"ext"`
}

type hsResp struct {
	Status int      `json:"status"`
	Upg    []string `json:"upg"`
	Conn   []string `json:"conn"`
	Accept []string `json:"accept"` // ["H", key] | ["H0", key] | []
	Ext    string   `json:"ext"`
}

type hsCase struct {
	Kind   string `json:"kind"`
	Req    hsReq  `json:"req"`
	Server struct {
		Compress bool   `json:"compress"`
		Policy   string `json:"policy"`
	} `json:"server"`
	Client struct {
		Compress bool   `json:"compress"`
		Origin   string `json:"origin"`
	} `json:"client"`
	Valid    bool   `json:"valid"`
	Statuses []int  `json:"statuses"`
	Z        bool   `json:"z"`
	Compress bool   `json:"compress"`
	Resp     hsResp `json:"resp"`
	Key      string `json:"key"`
	Accepts  bool   `json:"accepts"`
	Up       bool   `json:"up"`
	First    string `json:"first"` // session: who sends data first once the handshake is done ("client" | "server")
	Status   int    `json:"status"`
}

// ------------------------------------------------------------------ the real Upgrader behind net/http
type srvJob struct {
	up     websocket.Upgrader
	level  int
	script func(c *websocket.Conn) error
	done   chan error // nil: upgraded and the script succeeded; upgradeErr: Upgrade refused
	// spoke (server-speaks-first sessions) is closed when the server has written everything it sends before
	// it reads, or when Upgrade refused: the client's first Read waits for it (gate of recConn)
	spoke     chan struct{}
	spokeOnce sync.Once
}

func (j *srvJob) hasSpoken() {
	if j.spoke != nil {
		j.spokeOnce.Do(func() { close(j.spoke) })
	}
}

type upgradeErr struct{ err error }

func (e upgradeErr) Error() string { return "Upgrade refused: " + e.err.Error() }

var hsOnce sync.Once
var hsSrv *httptest.Server
var hsMu sync.Mutex
var hsJobs = map[string]*srvJob{}
var hsSeq int

func hsServer() *httptest.Server {
	hsOnce.Do(func() {
		hsSrv = httptest.NewServer(http.HandlerFunc(func(w http.ResponseWriter, r *http.Request) {
			hsMu.Lock()
			job := hsJobs[r.URL.Path]
			hsMu.Unlock()
			if job == nil {
				http.Error(w, "no such job", 599)
				return
			}
			c, err := job.up.Upgrade(w, r, nil)
			if err != nil {
				job.hasSpoken()
				job.done <- upgradeErr{err}
				return
			}
			defer c.Close()
			defer job.hasSpoken()
			c.SetCompressionLevel(job.level)
			job.done <- job.script(c)
		}))
	})
	return hsSrv
}

func addJob(j *srvJob) string {
	hsMu.Lock()
	defer hsMu.Unlock()
	hsSeq++
	p := fmt.Sprintf("/u/%d", hsSeq)
	j.done = make(chan error, 1)
	hsJobs[p] = j
	return p
}

func dropJob(p string) {
	hsMu.Lock()
	delete(hsJobs, p)
	hsMu.Unlock()
}

func policyFunc(p string) func(*http.Request) bool {
	switch p {
	case "all":
		return func(*http.Request) bool { return true }
	case "none":
		return func(*http.Request) bool { return false }
	}
	return nil
}

// ext parses a Sec-WebSocket-Extensions value into "name;param;param" strings with sorted, lower-cased parameters.
func extList(v string) []string {
	var out []string
	for _, e := range strings.Split(v, ",") {
		var parts []string
		for _, p := range strings.Split(e, ";") {
			if p = strings.ToLower(strings.TrimSpace(p)); p != "" {
				parts = append(parts, p)
			}
		}
		if len(parts) == 0 {
			continue
		}
		sort.Strings(parts[1:])
		out = append(out, strings.Join(parts, ";"))
	}
	return out
}

const pmdAnswer = "permessage-deflate;client_no_context_takeover;server_no_context_takeover"

func hasToken(vals []string, tok string) bool {
	for _, v := range vals {
		for _, t := range strings.Split(v, ",") {
			if strings.EqualFold(strings.TrimSpace(t), tok) {
				return true
			}
		}
	}
	return false
}

func waitErr(ch chan error, what string) error {
	select {
	case e := <-ch:
		return e
	case <-time.After(ioWait):
		return fmt.Errorf("%s did not finish within %v", what, ioWait)
	}
}

// maskedFrame builds a conformant client frame (the harness is the client here).
func maskedFrame(op byte, payload []byte) []byte {
	key := [4]byte{0x37, 0xfa, 0x21, 0x3d}
	b := []byte{0x80 | op}
	switch {
	case len(payload) <= 125:
		b = append(b, 0x80|byte(len(payload)))
	case len(payload) <= 65535:
		b = append(b, 0x80|126, byte(len(payload)>>8), byte(len(payload)))
	default:
		rp.Bug("maskedFrame: %d bytes", len(payload))
	}
	b = append(b, key[:]...)
	for i, x := range payload {
		b = append(b, x^key[i&3])
	}
	return b
}

// serverFrame builds a conformant unmasked server frame; z: compress per RFC 7692 7.2.1 with the harness's own deflater.
func serverFrame(op byte, payload []byte, z bool) []byte {
	b0 := 0x80 | op
	if z {
		var buf bytes.Buffer
		fw, _ := flate.NewWriter(&buf, 6)
		fw.Write(payload)
		fw.Flush()
		payload = buf.Bytes()
		if !bytes.HasSuffix(payload, []byte{0, 0, 0xff, 0xff}) {
			rp.Bug("flate.Flush did not end with an empty stored block")
		}
		payload = payload[:len(payload)-4]
		b0 |= 0x40
	}
	b := []byte{b0}
	switch {
	case len(payload) <= 125:
		b = append(b, byte(len(payload)))
	case len(payload) <= 65535:
		b = append(b, 126, byte(len(payload)>>8), byte(len(payload)))
	default:
		rp.Bug("serverFrame: %d bytes", len(payload))
	}
	return append(b, payload...)
}

// serveAndEcho is the script of an upgraded connection in `upgrade` cases: write the steps, echo one message, read to the close.
func serveAndEcho(cs *writerCase, seed int) func(c *websocket.Conn) error {
	return func(c *websocket.Conn) error {
		for k := range cs.Steps {
			st := &cs.Steps[k]
			if err := writeStep(c, st, payload(cs, st, seed), seed); err != nil {
				return fmt.Errorf("server message %d (%s, %d bytes): %v", k+1, st.API, st.Size, err)
			}
		}
		t, p, err := c.ReadMessage()
		if err != nil {
			return fmt.Errorf("server reading the client's message: %v", err)
		}
		if err := c.WriteMessage(t, p); err != nil {
			return fmt.Errorf("server echoing: %v", err)
		}
		_, _, err = c.ReadMessage()
		if ce, ok := err.(*websocket.CloseError); !ok || ce.Code != websocket.CloseNormalClosure {
			return fmt.Errorf("server expected the close frame 1000, got %v", err)
		}
		return nil
	}
}

func mkSteps(content string, steps ...step) *writerCase {
	cs := &writerCase{Content: content, Steps: steps}
	for k := range cs.Steps {
		cs.Steps[k].ID = 40 + k
		cs.Steps[k].Wc = true
		cs.Steps[k].Ping, cs.Steps[k].Mid = -1, -1
	}
	return cs
}

func msgsOf(cs *writerCase, z bool, seed int) ([]wireMsg, []wantMsg) {
	var ms []wireMsg
	var want []wantMsg
	for k := range cs.Steps {
		st := &cs.Steps[k]
		ms = append(ms, wireMsg{T: st.T, Size: st.Size, Z: z, NL: st.API == "JS"})
		want = append(want, wantMsg{payload(cs, st, seed), st.API == "JS"})
	}
	return ms, want
}

// checkStream tokenises what one endpoint wrote, emits the session and compares the independent reassembly.
func checkStream(c *rp.Ctx, who, role string, wire []byte, msgs []wireMsg, want []wantMsg) (int, error) {
	frames, junkAt := tokenize(wire)
	body, indep := records(frames, junkAt, len(wire), want)
	s := emitSession(c, "wswire", role, msgs, body)
	var ig []rdMsg
	for _, m := range indep {
		if !m.Ok {
			return s, fmt.Errorf("%s: message %d does not inflate under RFC 7692; wire:%s", who, len(ig)+1, describe(frames, 12))
		}
		ig = append(ig, rdMsg{m.Op, m.Payload})
	}
	if e := sameMsgs("the independent frame parser on the bytes of "+who, ig, want, msgs); e != nil {
		return s, fmt.Errorf("%v; wire:%s", e, describe(frames, 12))
	}
	return s, nil
}

// ----------------------------------------------------------------------------- upgrade
func runUpgrade(c *rp.Ctx, i, v int, cs *hsCase) rp.Result {
	srv := hsServer()
	addr := srv.Listener.Addr().String()
	bufs := []int{0, 256, 1024}[v%3]
	script := mkSteps("pat",
		step{API: "WM", T: 1, Size: 5, Parts: [][]int{{5, 1}}},
		step{API: "NW", T: 2, Size: 300, Parts: [][]int{{200, 1}, {100, 1}}},
		step{API: "PM", T: 2, Size: 4200, Parts: [][]int{{4200, 1}}})
	job := &srvJob{up: websocket.Upgrader{ReadBufferSize: bufs, WriteBufferSize: bufs, EnableCompression: cs.Server.Compress,
		CheckOrigin: policyFunc(cs.Server.Policy)}, level: []int{1, 9, -2}[(v/3)%3], script: serveAndEcho(script, c.Seed)}
	path := addJob(job)
	defer dropJob(path)

	key := hsKeys[cs.Req.Key]
	var rq strings.Builder
	fmt.Fprintf(&rq, "%s %s HTTP/1.1\r\nHost: %s\r\n", cs.Req.Method, path, addr)
	if len(cs.Req.Conn) > 0 {
		fmt.Fprintf(&rq, "Connection: %s\r\n", strings.Join(cs.Req.Conn, ", "))
	}
	if len(cs.Req.Upg) > 0 {
		fmt.Fprintf(&rq, "Upgrade: %s\r\n", strings.Join(cs.Req.Upg, ", "))
	}
	if cs.Req.Ver != "" {
		fmt.Fprintf(&rq, "Sec-WebSocket-Version: %s\r\n", cs.Req.Ver)
	}
	if key != "" {
		fmt.Fprintf(&rq, "Sec-WebSocket-Key: %s\r\n", key)
	}
	switch cs.Req.Origin {
	case "same":
		fmt.Fprintf(&rq, "Origin: http://%s\r\n", addr)
	case "other":
		rq.WriteString("Origin: http://evil.example\r\n")
	}
	if cs.Req.Ext != "none" {
		fmt.Fprintf(&rq, "Sec-WebSocket-Extensions: %s\r\n", cs.Req.Ext)
	}
	if cs.Req.Method != "GET" {
		rq.WriteString("Content-Length: 0\r\n")
	}
	rq.WriteString("\r\n")

	conn, err := net.Dial("tcp", addr)
	if err != nil {
		rp.Bug("dial loopback: %v", err)
	}
	defer conn.Close()
	conn.SetDeadline(time.Now().Add(ioWait))
	if _, err := conn.Write([]byte(rq.String())); err != nil {
		rp.Bug("write request: %v", err)
	}
	br := bufio.NewReader(conn)
	resp, err := http.ReadResponse(br, &http.Request{Method: cs.Req.Method})
	if err != nil {
		return rp.Fail(i, "no HTTP response to the upgrade request %+v: %v", cs.Req, err)
	}
	desc := fmt.Sprintf("request %+v, server compression %v, origin policy %s", cs.Req, cs.Server.Compress, cs.Server.Policy)
	if !cs.Valid {
		resp.Body.Close()
		if resp.StatusCode == 101 {
			return rp.Result{OK: false, What: fmt.Sprintf("a request the RFC 6455 4.2.1 table refuses was upgraded (101): %s", desc)}
		}
		for _, s := range cs.Statuses {
			if s == resp.StatusCode {
				return rp.Result{OK: true, Nontriv: true}
			}
		}
		return rp.Fail(i, "refused request answered with status %d, the table allows %v: %s", resp.StatusCode, cs.Statuses, desc)
	}
	if resp.StatusCode != 101 {
		return rp.Fail(i, "conformant upgrade request answered with status %d, want 101: %s", resp.StatusCode, desc)
	}
	if !hasToken(resp.Header["Upgrade"], "websocket") || !hasToken(resp.Header["Connection"], "upgrade") {
		return rp.Fail(i, "101 response without Upgrade: websocket / Connection: Upgrade: %v", resp.Header)
	}
	if got, want := resp.Header.Get("Sec-Websocket-Accept"), acceptOf(key); got != want {
		dev := ""
		if h := sha1.Sum([]byte(key)); got == base64.StdEncoding.EncodeToString(h[:]) {
			dev = "C13/accept-without-guid"
		}
		return rp.Result{OK: false, Deviation: dev, What: fmt.Sprintf("Sec-WebSocket-Accept %q for key %q, RFC 6455 4.2.2: %q", got, key, want)}
	}
	exts := extList(strings.Join(resp.Header["Sec-Websocket-Extensions"], ","))
	if cs.Z {
		if len(exts) != 1 || exts[0] != pmdAnswer {
			return rp.Fail(i, "permessage-deflate offered (%q) and enabled, extension answer is %q", cs.Req.Ext, resp.Header["Sec-Websocket-Extensions"])
		}
	} else if len(exts) != 0 {
		dev := ""
		if !strings.Contains(cs.Req.Ext, "permessage-deflate") {
			dev = "C13/extension-not-offered"
		}
		return rp.Result{OK: false, Deviation: dev, What: fmt.Sprintf("extension answer %q although the request offered %q and server compression is %v", resp.Header["Sec-Websocket-Extensions"], cs.Req.Ext, cs.Server.Compress)}
	}

	// the session on the upgraded connection: the harness is a conformant client
	hello := []byte("hello from a raw client")
	if _, err := conn.Write(append(maskedFrame(1, hello), maskedFrame(8, []byte{0x03, 0xe8})...)); err != nil {
		return rp.Fail(i, "writing frames on the upgraded connection: %v", err)
	}
	wire, rerr := io.ReadAll(br)
	serr := waitErr(job.done, "the server's handler")
	if serr != nil {
		return rp.Fail(i, "upgraded connection (%s): %v", desc, serr)
	}
	if rerr != nil {
		return rp.Fail(i, "reading what the server wrote: %v", rerr)
	}
	msgs, want := msgsOf(script, cs.Z, c.Seed)
	msgs = append(msgs, wireMsg{T: 1, Size: len(hello), Z: cs.Z})
	want = append(want, wantMsg{hello, false})
	s, err := checkStream(c, "the upgraded server connection", "server", wire, msgs, want)
	if err != nil {
		return rp.Result{What: fmt.Sprintf("%v (%s)", err, desc), Info: map[string]interface{}{"s": []int{s}}}
	}
	return rp.Result{OK: true, Nontriv: true, Info: map[string]interface{}{"s": []int{s}}}
}

// -------------------------------------------------------------------------------- dial
type dialJob struct {
	cs    *hsCase
	bytes chan []byte // what the client wrote after its request
	req   chan *http.Request
	wrote chan struct{} // closed when the response (and the frame behind it) is written: gate of the client's first Read
	once  sync.Once
}

func (j *dialJob) hasWritten() { j.once.Do(func() { close(j.wrote) }) }

var dlOnce sync.Once
var dlLn net.Listener
var dlJobs = map[string]*dialJob{}

func scriptedMessage() []byte { return []byte("hi from the scripted server, hi from the scripted server") }

func dialListener() net.Listener {
	dlOnce.Do(func() {
		ln, err := net.Listen("tcp", "127.0.0.1:0")
		if err != nil {
			rp.Bug("listen: %v", err)
		}
		dlLn = ln
		go func() {
			for {
				conn, err := ln.Accept()
				if err != nil {
					return
				}
				go func() {
					defer conn.Close()
					conn.SetDeadline(time.Now().Add(ioWait))
					br := bufio.NewReader(conn)
					req, err := http.ReadRequest(br)
					if err != nil {
						return
					}
					hsMu.Lock()
					job := dlJobs[req.URL.Path]
					hsMu.Unlock()
					if job == nil {
						return
					}
					defer job.hasWritten()
					job.req <- req
					r := job.cs.Resp
					var sb strings.Builder
					fmt.Fprintf(&sb, "HTTP/1.1 %d %s\r\n", r.Status, http.StatusText(r.Status))
					if len(r.Upg) > 0 {
						fmt.Fprintf(&sb, "Upgrade: %s\r\n", strings.Join(r.Upg, ", "))
					}
					if len(r.Conn) > 0 {
						fmt.Fprintf(&sb, "Connection: %s\r\n", strings.Join(r.Conn, ", "))
					}
					key := req.Header.Get("Sec-Websocket-Key")
					if len(r.Accept) == 2 {
						switch {
						case r.Accept[0] == "H" && r.Accept[1] == job.cs.Key:
							fmt.Fprintf(&sb, "Sec-WebSocket-Accept: %s\r\n", acceptOf(key))
						case r.Accept[0] == "H0":
							h := sha1.Sum([]byte(key))
							fmt.Fprintf(&sb, "Sec-WebSocket-Accept: %s\r\n", base64.StdEncoding.EncodeToString(h[:]))
						default:
							fmt.Fprintf(&sb, "Sec-WebSocket-Accept: %s\r\n", acceptOf("YW5vdGhlciBrZXkgMTIzNDU2Nw=="))
						}
					}
					if r.Ext != "none" {
						fmt.Fprintf(&sb, "Sec-WebSocket-Extensions: %s\r\n", r.Ext)
					}
					if r.Status != 101 {
						sb.WriteString("Content-Length: 0\r\n")
					}
					sb.WriteString("\r\n")
					out := []byte(sb.String())
					if r.Status == 101 {
						out = append(out, serverFrame(1, scriptedMessage(), r.Ext != "none")...)
					}
					// the response and the first message in ONE write; the client's first Read waits for it
					conn.Write(out)
					job.hasWritten()
					if r.Status == 101 {
						// the close frame follows when the client has started to write: a client that lost the
						// message behind the response reads the close frame next instead of waiting for ever
						if _, err := br.Peek(1); err == nil {
							conn.Write([]byte{0x88, 0x02, 0x03, 0xe8})
						}
					}
					b, _ := io.ReadAll(br)
					job.bytes <- b
				}()
			}
		}()
	})
	return dlLn
}

func runDial(c *rp.Ctx, i, v int, cs *hsCase) rp.Result {
	ln := dialListener()
	hsMu.Lock()
	hsSeq++
	path := fmt.Sprintf("/d/%d", hsSeq)
	job := &dialJob{cs: cs, bytes: make(chan []byte, 1), req: make(chan *http.Request, 1), wrote: make(chan struct{})}
	dlJobs[path] = job
	hsMu.Unlock()
	defer func() { hsMu.Lock(); delete(dlJobs, path); hsMu.Unlock() }()

	bufs := []int{0, 256, 1024}[v%3]
	d := websocket.Dialer{EnableCompression: cs.Compress, ReadBufferSize: bufs, WriteBufferSize: bufs, HandshakeTimeout: 2 * ioWait,
		NetDial: func(network, a string) (net.Conn, error) {
			nc, err := net.Dial(network, a)
			if err != nil {
				return nil, err
			}
			if cs.Resp.Status != 101 {
				return nc, nil // nothing follows such a response
			}
			return &recConn{Conn: nc, gate: job.wrote}, nil
		}}
	conn, _, err := d.Dial("ws://"+ln.Addr().String()+path, nil)
	desc := fmt.Sprintf("response %+v to a Dialer with compression %v", cs.Resp, cs.Compress)

	// the request the Dialer sent is the conformant request of the specification (RFC 6455 4.1)
	select {
	case req := <-job.req:
		k, kerr := base64.StdEncoding.DecodeString(req.Header.Get("Sec-Websocket-Key"))
		exts := extList(strings.Join(req.Header["Sec-Websocket-Extensions"], ","))
		offers := len(exts) == 1 && exts[0] == pmdAnswer
		if req.Method != "GET" || !hasToken(req.Header["Upgrade"], "websocket") || !hasToken(req.Header["Connection"], "upgrade") ||
			req.Header.Get("Sec-Websocket-Version") != "13" || kerr != nil || len(k) != 16 || req.Host == "" ||
			(cs.Compress && !offers) || (!cs.Compress && len(exts) != 0) {
			if conn != nil {
				conn.Close()
			}
			return rp.Fail(i, "the Dialer's request is not the client handshake of RFC 6455 4.1 (compression %v): %s %v", cs.Compress, req.Method, req.Header)
		}
	case <-time.After(ioWait):
		return rp.Fail(i, "the Dialer sent no request within %v (Dial: %v)", ioWait, err)
	}

	if !cs.Accepts {
		if err == nil {
			conn.Close()
			dev := ""
			if cs.Resp.Status == 101 && (len(cs.Resp.Accept) != 2 || cs.Resp.Accept[0] != "H" || cs.Resp.Accept[1] != cs.Key) {
				dev = "C13/accept-not-checked"
			}
			return rp.Result{OK: false, Deviation: dev, What: "the Dialer accepted a response the RFC 6455 4.1 table refuses: " + desc}
		}
		<-job.bytes
		return rp.Result{OK: true, Nontriv: true}
	}
	if err != nil {
		return rp.Fail(i, "the Dialer refused a conformant response (%v): %s", err, desc)
	}
	defer conn.Close()
	// the client writes first (the scripted server answers its first byte with a close frame), then reads:
	// the message the server sent right behind its response, then that close frame
	script := mkSteps("pat",
		step{API: "WM", T: 1, Size: 10, Parts: [][]int{{10, 1}}},
		step{API: "NW", T: 2, Size: 300, Parts: [][]int{{200, 1}, {100, 1}}},
		step{API: "JS", T: 1, Size: 131, Parts: [][]int{{131, 1}}})
	conn.SetCompressionLevel([]int{1, 9, -2}[(v/3)%3])
	for k := range script.Steps {
		st := &script.Steps[k]
		if err := writeStep(conn, st, payload(script, st, c.Seed), c.Seed); err != nil {
			return rp.Fail(i, "dialed connection, message %d: %v", k+1, err)
		}
	}
	conn.SetReadDeadline(time.Now().Add(ioWait))
	t, p, err := conn.ReadMessage()
	if err != nil || t != websocket.TextMessage || !bytes.Equal(p, scriptedMessage()) {
		return rp.Fail(i, "the dialed connection read (type %d, %d bytes, err %v), the server sent a %d byte text message right behind its response (compressed: %v): %s", t, len(p), err, len(scriptedMessage()), cs.Z, desc)
	}
	_, _, err = conn.ReadMessage() // the default close handler echoes the close frame
	if ce, ok := err.(*websocket.CloseError); !ok || ce.Code != websocket.CloseNormalClosure {
		return rp.Fail(i, "the dialed connection read %v after the message, the server sent the close frame 1000: %s", err, desc)
	}
	conn.Close()
	var wire []byte
	select {
	case wire = <-job.bytes:
	case <-time.After(ioWait):
		return rp.Fail(i, "the scripted server saw no end of the client's stream")
	}
	msgs, want := msgsOf(script, cs.Z, c.Seed)
	s, err := checkStream(c, "the dialed client connection", "client", wire, msgs, want)
	if err != nil {
		return rp.Result{What: fmt.Sprintf("%v (%s)", err, desc), Info: map[string]interface{}{"s": []int{s}}}
	}
	return rp.Result{OK: true, Nontriv: true, Info: map[string]interface{}{"s": []int{s}}}
}

// ----------------------------------------------------------------------------- session
// recConn records both directions of the client's socket. With a gate, its FIRST Read waits until the gate is
// closed (the server has written its handshake response and everything it sends right behind it) and a moment
// longer, so that the response and those frames are in the socket and handed to the client by ONE Read: what a
// fast server or coalesced segments do by chance is made deterministic.
type recConn struct {
	net.Conn
	mu   sync.Mutex
	w, r bytes.Buffer
	gate <-chan struct{}
	once sync.Once
}

const settle = 10 * time.Millisecond

func (c *recConn) Write(p []byte) (int, error) {
	n, err := c.Conn.Write(p)
	c.mu.Lock()
	c.w.Write(p[:n])
	c.mu.Unlock()
	return n, err
}

func (c *recConn) Read(p []byte) (int, error) {
	if c.gate != nil {
		c.once.Do(func() {
			select {
			case <-c.gate:
			case <-time.After(ioWait):
			}
			time.Sleep(settle)
		})
	}
	n, err := c.Conn.Read(p)
	c.mu.Lock()
	c.r.Write(p[:n])
	c.mu.Unlock()
	return n, err
}

func afterHeader(b []byte) []byte {
	if k := bytes.Index(b, []byte("\r\n\r\n")); k >= 0 {
		return b[k+4:]
	}
	return nil
}

// pump reads messages until an error and reports each on a channel.
func pump(c *websocket.Conn, got *[]rdMsg, each chan int, end chan error) {
	for {
		t, p, err := c.ReadMessage()
		if err != nil {
			end <- err
			return
		}
		*got = append(*got, rdMsg{t, p})
		each <- len(*got)
	}
}

// runSession: the real Dialer against the real Upgrader, four buffer combinations - the fourth with ReadBufferSize
// below the largest control payload on both ends (any size is the application's right) and pings of 0..125 bytes
// in front of every message, in both directions. cs.First says who sends data first once the handshake is done:
//
//	client  the server writes when the client's first message has arrived, then both ends write and read
//	        concurrently; the client closes when it has everything the server sent
//	server  the server writes all its messages right after Upgrade returns, before it reads anything, and the
//	        client's first Read is held back until they are written (recConn.gate): the 101 response and the
//	        frames behind it reach the client in one Read. The client must still receive exactly those messages.
func runSession(c *rp.Ctx, i int, cs *hsCase) rp.Result {
	srv := hsServer()
	addr := srv.Listener.Addr().String()
	serverFirst := cs.First == "server"
	var sess []int
	for combo := 0; combo < 4; combo++ {
		cbuf := []int{0, 256, 1024, 0}[combo]
		sbuf := []int{0, 1024, 256, 0}[combo]
		crbuf, srbuf := cbuf, sbuf
		var cPings, sPings []int // payload lengths of the pings in front of the client's / the server's messages
		if combo == 3 {
			crbuf, srbuf = 100, 16
			cPings, sPings = []int{125, 17, 0, 101}, []int{101, 125, 16, 0}
		}
		pingBefore := func(conn *websocket.Conn, lens []int, k int) error {
			if len(lens) == 0 {
				return nil
			}
			n := lens[k%len(lens)]
			if err := conn.WriteControl(websocket.PingMessage, ctlPayload(n, k), time.Now().Add(ioWait)); err != nil {
				return fmt.Errorf("WriteControl(ping, %d bytes): %v", n, err)
			}
			return nil
		}
		clientScript := mkSteps([]string{"pat", "rnd", "pat", "rnd"}[combo],
			step{API: "WM", T: 1, Size: 5, Parts: [][]int{{5, 1}}},
			step{API: "NW", T: 2, Size: 300, Parts: [][]int{{200, 1}, {100, 1}}},
			step{API: "JS", T: 1, Size: 131, Parts: [][]int{{131, 1}}},
			step{API: "WM", T: 2, Size: 70000, Parts: [][]int{{70000, 1}}})
		serverScript := mkSteps([]string{"rnd", "pat", "pat", "pat"}[combo],
			step{API: "WM", T: 2, Size: 126, Parts: [][]int{{126, 1}}},
			step{API: "PM", T: 1, Size: 65536, Parts: [][]int{{65536, 1}}},
			step{API: "WS", T: 1, Size: 1000, Parts: [][]int{{1, 1}, {499, 1}, {500, 1}}},
			step{API: "RF", T: 2, Size: 5000, Parts: [][]int{{5000, 1}}})
		if serverFirst {
			// small: response and messages fit the client's first Read (4096 byte reader) or are cut by it (256, 1024)
			serverScript = mkSteps([]string{"rnd", "pat", "pat", "pat"}[combo],
				step{API: "WM", T: 1, Size: 13, Parts: [][]int{{13, 1}}},
				step{API: "WM", T: 2, Size: 0, Parts: [][]int{{0, 1}}},
				step{API: "PM", T: 2, Size: 126, Parts: [][]int{{126, 1}}},
				step{API: "WS", T: 1, Size: 300, Parts: [][]int{{1, 1}, {149, 1}, {150, 1}}},
				step{API: "JS", T: 1, Size: 60, Parts: [][]int{{60, 1}}},
				step{API: "RF", T: 2, Size: 90, Parts: [][]int{{90, 1}}})
		}
		var sGot []rdMsg
		job := &srvJob{up: websocket.Upgrader{ReadBufferSize: srbuf, WriteBufferSize: sbuf, EnableCompression: cs.Server.Compress,
			CheckOrigin: policyFunc(cs.Server.Policy)}, level: []int{1, 9, -2, 1}[combo]}
		if serverFirst {
			job.spoke = make(chan struct{})
		}
		job.script = func(sc *websocket.Conn) error {
			each, end := make(chan int, 64), make(chan error, 1)
			if !serverFirst {
				// the client speaks first: nothing is written before its first message has arrived
				go pump(sc, &sGot, each, end)
				select {
				case <-each:
				case e := <-end:
					return fmt.Errorf("server's reader ended before the client's first message: %v", e)
				case <-time.After(ioWait):
					return fmt.Errorf("the client's first message did not arrive within %v", ioWait)
				}
			}
			for k := range serverScript.Steps {
				st := &serverScript.Steps[k]
				if err := pingBefore(sc, sPings, k); err != nil {
					return fmt.Errorf("server, before message %d: %v", k+1, err)
				}
				if err := writeStep(sc, st, payload(serverScript, st, c.Seed), c.Seed); err != nil {
					return fmt.Errorf("server message %d (%s, %d bytes): %v", k+1, st.API, st.Size, err)
				}
			}
			if serverFirst {
				job.hasSpoken()
				go pump(sc, &sGot, each, end)
			}
			err := waitErr(end, "the server's reader")
			if ce, ok := err.(*websocket.CloseError); !ok || ce.Code != websocket.CloseNormalClosure {
				return fmt.Errorf("server's reader ended with %v, want the client's close frame 1000", err)
			}
			return nil
		}
		path := addJob(job)
		var rc *recConn
		d := websocket.Dialer{EnableCompression: cs.Client.Compress, ReadBufferSize: crbuf, WriteBufferSize: cbuf, HandshakeTimeout: 2 * ioWait,
			NetDial: func(network, a string) (net.Conn, error) {
				nc, err := net.Dial(network, a)
				if err != nil {
					return nil, err
				}
				rc = &recConn{Conn: nc}
				if serverFirst {
					rc.gate = job.spoke
				}
				return rc, nil
			}}
		hdr := http.Header{}
		switch cs.Client.Origin {
		case "same":
			hdr.Set("Origin", "http://"+addr)
		case "other":
			hdr.Set("Origin", "http://evil.example")
		}
		desc := fmt.Sprintf("Dialer(compression %v, origin %s, read buffer %d, write buffer %d) <-> Upgrader(compression %v, origin policy %s, read buffer %d, write buffer %d), %s speaks first, pings %v / %v",
			cs.Client.Compress, cs.Client.Origin, crbuf, cbuf, cs.Server.Compress, cs.Server.Policy, srbuf, sbuf, map[bool]string{true: "server", false: "client"}[serverFirst], cPings, sPings)
		conn, resp, err := d.Dial("ws://"+addr+path, hdr)
		if !cs.Up {
			dropJob(path)
			if err == nil {
				conn.Close()
				return rp.Fail(i, "the session came up, the table says status %d: %s", cs.Status, desc)
			}
			if resp == nil || resp.StatusCode != cs.Status {
				return rp.Fail(i, "refused handshake: Dial returned %v with response %v, the table says status %d: %s", err, resp, cs.Status, desc)
			}
			continue
		}
		if err != nil {
			dropJob(path)
			return rp.Fail(i, "library client and library server do not connect (%v): %s", err, desc)
		}
		conn.SetCompressionLevel([]int{9, 1, -2, 1}[combo])
		var cGot []rdMsg
		each, end := make(chan int, 64), make(chan error, 1)
		go pump(conn, &cGot, each, end)
		fail := func(format string, a ...interface{}) rp.Result {
			conn.Close()
			dropJob(path)
			return rp.Fail(i, format+" ("+desc+")", a...)
		}
		for k := range clientScript.Steps {
			st := &clientScript.Steps[k]
			if err := pingBefore(conn, cPings, k); err != nil {
				return fail("client, before message %d: %v", k+1, err)
			}
			if err := writeStep(conn, st, payload(clientScript, st, c.Seed), c.Seed); err != nil {
				return fail("client message %d (%s, %d bytes): %v", k+1, st.API, st.Size, err)
			}
		}
		// client first: the close frame goes out when everything the server sends has arrived.
		// server first: everything the server sends was written before Dial returned; the close frame goes out at
		// once and its echo arrives behind the server's messages - no waiting, whatever the client made of them.
		for n := 0; !serverFirst && n < len(serverScript.Steps); {
			select {
			case n = <-each:
			case e := <-end:
				return fail("the client's reader ended after %d of %d messages: %v", len(cGot), len(serverScript.Steps), e)
			case <-time.After(ioWait):
				return fail("the client received %d of %d messages within %v", len(cGot), len(serverScript.Steps), ioWait)
			}
		}
		cm, cw := msgsOf(clientScript, cs.Z, c.Seed)
		sm, sw := msgsOf(serverScript, cs.Z, c.Seed)
		if err := conn.WriteControl(websocket.CloseMessage, websocket.FormatCloseMessage(websocket.CloseNormalClosure, ""), time.Time{}); err != nil {
			return fail("client close: %v", err)
		}
		cerr := waitErr(end, "the client's reader")
		if ce, ok := cerr.(*websocket.CloseError); !ok || ce.Code != websocket.CloseNormalClosure {
			if e := sameMsgs("the client's ReadMessage", cGot, sw[:min(len(cGot), len(sw))], sm); e != nil {
				return fail("%v; its reader ended with %v", e, cerr)
			}
			return fail("the client's reader ended after %d of the server's %d messages with %v, want the echoed close frame 1000", len(cGot), len(sw), cerr)
		}
		if serr := waitErr(job.done, "the server's handler"); serr != nil {
			return fail("%v", serr)
		}
		conn.Close()
		dropJob(path)

		if e := sameMsgs("the server's ReadMessage", sGot, cw, cm); e != nil {
			return rp.Fail(i, "%v (%s)", e, desc)
		}
		if e := sameMsgs("the client's ReadMessage", cGot, sw, sm); e != nil {
			return rp.Fail(i, "%v (%s)", e, desc)
		}
		rc.mu.Lock()
		up, down := afterHeader(rc.w.Bytes()), afterHeader(rc.r.Bytes())
		rc.mu.Unlock()
		s1, err1 := checkStream(c, "the dialed client", "client", up, cm, cw)
		s2, err2 := checkStream(c, "the upgraded server", "server", down, sm, sw)
		sess = append(sess, s1, s2)
		for _, e := range []error{err1, err2} {
			if e != nil {
				return rp.Result{What: fmt.Sprintf("%v (%s)", e, desc), Info: map[string]interface{}{"s": sess}}
			}
		}
	}
	return rp.Result{OK: true, Nontriv: true, Info: map[string]interface{}{"s": sess}}
}

func init() {
	if acceptOf(hsKeys["k1"]) != "s3pPLMBiTxaQ9kYGzzhZRbK+xOo=" {
		panic("harness: accept key of the RFC 6455 example is wrong")
	}
	registry["wshandshake"] = func(c *rp.Ctx, i int, raw json.RawMessage) rp.Result {
		cs := hsCase{}
		if err := json.Unmarshal(raw, &cs); err != nil {
			panic(err)
		}
		switch cs.Kind {
		case "upgrade":
			return runUpgrade(c, i, rp.ContentHash(raw), &cs)
		case "dial":
			return runDial(c, i, rp.ContentHash(raw), &cs)
		case "session":
			return runSession(c, i, &cs)
		}
		rp.Bug("unknown kind %q", cs.Kind)
		return rp.Result{}
	}
}
