package main

// The certificate authority of the fake ACME server: a self-signed issuer and leaves made from the client's CSR.

import (
	"crypto/ecdsa"
	"crypto/elliptic"
	"crypto/rand"
	"crypto/x509"
	"crypto/x509/pkix"
	"math/big"
	"time"

	"verifharness/rp"
)

type caT struct {
	key    *ecdsa.PrivateKey
	cert   *x509.Certificate
	der    []byte
	serial int64
}

func newCA() *caT {
	k, err := ecdsa.GenerateKey(elliptic.P256(), rand.Reader)
	if err != nil {
		rp.Bug("ca key: %v", err)
	}
	tpl := &x509.Certificate{
		SerialNumber: big.NewInt(1), Subject: pkix.Name{CommonName: "X04 fake issuer"},
		NotBefore: time.Now().Add(-time.Hour), NotAfter: time.Now().Add(24 * 365 * time.Hour),
		IsCA: true, BasicConstraintsValid: true, KeyUsage: x509.KeyUsageCertSign,
	}
	der, err := x509.CreateCertificate(rand.Reader, tpl, tpl, &k.PublicKey, k)
	if err != nil {
		rp.Bug("ca cert: %v", err)
	}
	c, _ := x509.ParseCertificate(der)
	return &caT{key: k, cert: c, der: der, serial: 100}
}

// issue makes a leaf for the names of a CSR (CN first, as real CAs do: the CN is repeated in the SAN list)
func (ca *caT) issue(cn string, san []string, pub interface{}) []byte {
	ca.serial++
	names := append([]string{cn}, san...)
	tpl := &x509.Certificate{
		SerialNumber: big.NewInt(ca.serial), Subject: pkix.Name{CommonName: cn}, DNSNames: names,
		NotBefore: time.Now().Add(-time.Hour), NotAfter: time.Now().Add(90 * 24 * time.Hour),
		KeyUsage: x509.KeyUsageDigitalSignature, ExtKeyUsage: []x509.ExtKeyUsage{x509.ExtKeyUsageServerAuth},
	}
	der, err := x509.CreateCertificate(rand.Reader, tpl, ca.cert, pub, ca.key)
	if err != nil {
		rp.Bug("leaf cert: %v", err)
	}
	return der
}
