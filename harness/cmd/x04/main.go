package main

// X04 (extra): the ACME v1 client of https/acme against a fake ACME server (spec/acme/Acme.tla).
//
// Direction code -> model.  A case is a server script enumerated by TLC (MC_Acme): which answers, errors, statuses,
// missing Replay-Nonce headers the server will give, what the application's challenge provider does.  The real
// package runs freely against an in-process server (net/http/httptest on loopback) that follows the script and
// records every request it receives (JWS verified with the standard library, nonce, resource, payload fields), every
// provider callback, every API call and its return as ndjson events, numbered under one mutex.  Trace_Acme.tla
// accepts or rejects each session.  The harness itself gives no verdict except for reports of the race detector
// that involve package acme.

import (
	"bytes"
	"crypto"
	"crypto/ecdsa"
	"crypto/elliptic"
	"crypto/rand"
	"crypto/rsa"
	"encoding/json"
	"encoding/pem"
	"fmt"
	"io"
	"log"
	"net/http/httptest"
	"os"
	"path/filepath"
	"sort"
	"strconv"
	"strings"
	"sync"
	"syscall"

	"github.com/ossrs/go-oryx-lib/https/acme"
	"verifharness/rp"
)

var registry = map[string]rp.Replayer{}
var batchRegistry = map[string]rp.Batch{}

func main() { rp.Main(registry, batchRegistry) }

type script struct {
	N      int      `json:"n"`
	Bundle bool     `json:"bundle"`
	Ops    []string `json:"ops"`
	Reg    string   `json:"reg"`
	Agree  string   `json:"agree"`
	Az     []string `json:"az"`
	Offer  []string `json:"offer"`
	Prov   []string `json:"prov"`
	Ch     []string `json:"ch"`
	Ch2    []string `json:"ch2"`
	Cert   string   `json:"cert"`
	Issuer string   `json:"issuer"`
	Revoke string   `json:"revoke"`
	Renew  string   `json:"renew"`
	Drop   []string `json:"drop"`
	Excl   []string `json:"excl"`
	Real   string   `json:"real"`
	Key    string   `json:"key"`
	Fam    string   `json:"fam"`
}

func (sc *script) drops(kind string) bool {
	for _, k := range sc.Drop {
		if k == kind {
			return true
		}
	}
	return false
}

// one recorded step, in the shape of the specification's events
type event struct {
	Q   int           `json:"q"`
	E   string        `json:"e"`
	A   string        `json:"a"`
	D   int           `json:"d"`
	C   int           `json:"c"`
	N   int           `json:"n"`
	Rn  int           `json:"rn"`
	St  string        `json:"st"`
	X   []interface{} `json:"x"`
	Why string        `json:"why,omitempty"`
}

// keys and the CA are made once per process
type keyring struct {
	ec   *ecdsa.PrivateKey
	rsa  *rsa.PrivateKey
	leaf *ecdsa.PrivateKey
	ca   *caT
}

func newKeyring() *keyring {
	k := &keyring{ca: newCA()}
	var err error
	if k.ec, err = ecdsa.GenerateKey(elliptic.P256(), rand.Reader); err != nil {
		rp.Bug("%v", err)
	}
	if k.leaf, err = ecdsa.GenerateKey(elliptic.P256(), rand.Reader); err != nil {
		rp.Bug("%v", err)
	}
	return k
}

func (k *keyring) rsaKey() *rsa.PrivateKey {
	if k.rsa == nil {
		var err error
		if k.rsa, err = rsa.GenerateKey(rand.Reader, 2048); err != nil {
			rp.Bug("%v", err)
		}
	}
	return k.rsa
}

type user struct {
	key crypto.PrivateKey
	reg *acme.RegistrationResource
}

func (u *user) GetEmail() string                        { return "x04@x04.test" }
func (u *user) GetRegistration() *acme.RegistrationResource { return u.reg }
func (u *user) GetPrivateKey() crypto.PrivateKey        { return u.key }

func domName(d int) string { return fmt.Sprintf("d%d.x04.test", d) }
func domIdx(name string) int {
	var d int
	if _, err := fmt.Sscanf(name, "d%d.x04.test", &d); err != nil || domName(d) != name {
		return 0
	}
	return d
}

type session struct {
	idx  int
	sc   script
	raw  json.RawMessage
	keys *keyring

	mu  sync.Mutex // one mutex for the sequence numbers and the server's state
	q   int
	evs []event

	srv   *httptest.Server
	base  string
	thumb string // thumbprint of the account key, computed by the harness

	nonceNum map[string]int
	nn       int
	used     map[int]bool
	round    int // obtains started in this session
	tokens   map[[3]int]string
	tokenOf  map[string][3]int
	polls    map[[3]int]int
	validCh  map[[3]int]bool
	curOp    string
	fetched  bool
	certq    int
	certDER  []byte
	cn       string
	san      []string
	leafPub  interface{}
	inflight int32

	addr     map[string]string // real provider kind -> address it listens on
	probeTok map[[2]int]string
}

func (ss *session) logLocked(e event) {
	ss.q++
	e.Q = ss.q
	if e.X == nil {
		e.X = []interface{}{}
	}
	ss.evs = append(ss.evs, e)
}

func (ss *session) log(e event) {
	ss.mu.Lock()
	ss.logLocked(e)
	ss.mu.Unlock()
}

// what an API call returned, in the specification's terms
type retT struct {
	st   string
	fail []int
	cert string
	good bool
	why  string
}

func certKind(ss *session, pemBytes []byte) (string, string) {
	if len(pemBytes) == 0 {
		return "none", ""
	}
	var ders [][]byte
	rest := pemBytes
	for {
		var b *pem.Block
		b, rest = pem.Decode(rest)
		if b == nil {
			break
		}
		ders = append(ders, b.Bytes)
	}
	ss.mu.Lock()
	leaf := ss.certDER
	ss.mu.Unlock()
	switch {
	case len(ders) == 1 && bytes.Equal(ders[0], leaf):
		return "leaf", ""
	case len(ders) == 2 && bytes.Equal(ders[0], leaf) && bytes.Equal(ders[1], ss.keys.ca.der):
		return "bundle", ""
	}
	return "other", fmt.Sprintf("the returned PEM holds %d blocks that are not <issued certificate>[<issuer certificate>]", len(ders))
}

func (ss *session) run(c *rp.Ctx) (hung bool) {
	sc := &ss.sc
	ss.srv = httptest.NewServer(ss)
	defer ss.srv.Close()
	ss.base = ss.srv.URL

	var acct crypto.PrivateKey = ss.keys.ec
	if sc.Key == "rsa" {
		acct = ss.keys.rsaKey()
	}
	switch k := acct.(type) {
	case *ecdsa.PrivateKey:
		ss.thumb = thumbprint(&k.PublicKey)
	case *rsa.PrivateKey:
		ss.thumb = thumbprint(&k.PublicKey)
	}
	u := &user{key: acct}
	var client *acme.Client
	var have acme.CertificateResource
	domains := make([]string, sc.N)
	for d := 1; d <= sc.N; d++ {
		domains[d-1] = domName(d)
	}

	for _, op := range sc.Ops {
		ss.mu.Lock()
		ss.curOp, ss.fetched = op, false
		if op == "obtain" {
			ss.round++
		}
		ss.logLocked(event{E: "call", A: op})
		ss.mu.Unlock()
		var body func() retT
		switch op {
		case "new":
			body = func() retT {
				cl, err := acme.NewClient(ss.base+"/dir", u, acme.EC256)
				if err != nil {
					return retT{st: "err", why: err.Error()}
				}
				client = cl
				ss.installProviders(client)
				return retT{st: "ok", good: true}
			}
		case "register":
			body = func() retT {
				reg, err := client.Register()
				if err != nil {
					return retT{st: "err", good: true, why: err.Error()}
				}
				u.reg = reg
				r := retT{st: "ok", good: reg.URI == ss.base+"/reg/1" && reg.NewAuthzURL == ss.base+"/new-authz" && reg.TosURL == ss.base+"/tos"}
				if !r.good {
					r.why = fmt.Sprintf("registration resource URI=%q NewAuthzURL=%q TosURL=%q", reg.URI, reg.NewAuthzURL, reg.TosURL)
				}
				return r
			}
		case "agree":
			body = func() retT {
				if err := client.AgreeToTOS(); err != nil {
					return retT{st: "err", good: true, why: err.Error()}
				}
				return retT{st: "ok", good: true}
			}
		case "obtain":
			body = func() retT {
				var pk crypto.PrivateKey
				if sc.Key != "rsa" {
					pk = ss.keys.leaf
				}
				cert, fails := client.ObtainCertificate(domains, sc.Bundle, pk)
				r := retT{st: "ok", good: true, fail: []int{}}
				var why []string
				for name, err := range fails {
					r.fail = append(r.fail, domIdx(name))
					why = append(why, fmt.Sprintf("%s: %v", name, err))
				}
				sort.Ints(r.fail)
				sort.Strings(why)
				if len(fails) > 0 {
					r.st = "err"
				}
				var w string
				r.cert, w = certKind(ss, cert.Certificate)
				if w != "" {
					why = append(why, w)
				}
				if r.cert != "none" {
					r.good = cert.Domain == domains[0] && cert.CertURL == ss.base+"/cert/1" && len(cert.PrivateKey) > 0 && cert.AccountRef == ss.base+"/reg/1"
					if !r.good {
						why = append(why, fmt.Sprintf("certificate resource Domain=%q CertURL=%q AccountRef=%q PrivateKey %d bytes", cert.Domain, cert.CertURL, cert.AccountRef, len(cert.PrivateKey)))
					}
					have = cert
				}
				r.why = strings.Join(why, "; ")
				return r
			}
		case "revoke":
			body = func() retT {
				if err := client.RevokeCertificate(have.Certificate); err != nil {
					return retT{st: "err", good: true, why: err.Error()}
				}
				return retT{st: "ok", good: true}
			}
		case "renew":
			body = func() retT {
				cert, err := client.RenewCertificate(have, sc.Bundle)
				r := retT{st: "ok", good: true}
				if err != nil {
					r.st, r.why = "err", err.Error()
				}
				var w string
				r.cert, w = certKind(ss, cert.Certificate)
				if w != "" {
					r.why += "; " + w
				}
				if r.cert != "none" && err == nil {
					r.good = cert.Domain == domains[0] && cert.CertURL == ss.base+"/cert/1"
					have = cert
				}
				return r
			}
		default:
			rp.Bug("unknown op %q", op)
		}
		r, state := ss.runOp(body)
		if state == "hang" {
			ss.log(event{E: "hang", A: op, Why: r.why})
			return true
		}
		if r.fail == nil {
			r.fail = []int{}
		}
		if r.cert == "" {
			r.cert = "none"
		}
		fl := make([]interface{}, len(r.fail))
		for i, d := range r.fail {
			fl[i] = d
		}
		ss.log(event{E: "ret", A: op, St: r.st, X: []interface{}{fl, r.cert, r.good}, Why: clip(r.why, 600)})
		if r.st != "ok" {
			break
		}
	}
	ss.log(event{E: "end"})
	return false
}

func clip(s string, n int) string {
	if len(s) > n {
		return s[:n] + "..."
	}
	return s
}

// ---------------------------------------------------------------- race reports (as in cmd/c18)

func raceLogPath() string {
	for _, f := range strings.Fields(os.Getenv("GORACE")) {
		if strings.HasPrefix(f, "log_path=") {
			return strings.TrimPrefix(f, "log_path=")
		}
	}
	return ""
}

type raceReader struct {
	path string
	off  int
}

func (r *raceReader) next() (lib []string, other []string) {
	b, err := os.ReadFile(r.path)
	if err != nil {
		return nil, nil
	}
	s := string(b[r.off:])
	r.off = len(b)
	for _, rep := range strings.Split(s, "==================") {
		if !strings.Contains(rep, "DATA RACE") {
			continue
		}
		if strings.Contains(rep, "go-oryx-lib/https/acme.") {
			lib = append(lib, strings.TrimSpace(rep))
		} else {
			other = append(other, strings.TrimSpace(rep))
		}
	}
	return
}

func raceSummary(rep string) string {
	var fr []string
	seen := map[string]bool{}
	for _, line := range strings.Split(rep, "\n") {
		line = strings.TrimSpace(line)
		if j := strings.Index(line, "go-oryx-lib/https/acme."); j >= 0 && strings.HasSuffix(line, ")") {
			f := line[j+len("go-oryx-lib/https/"):]
			if k := strings.Index(f, "("); k > 0 && !strings.HasPrefix(f[k:], "(*") {
				f = f[:k]
			}
			if !seen[f] {
				seen[f] = true
				fr = append(fr, f)
			}
		}
	}
	if len(fr) > 6 {
		fr = fr[:6]
	}
	return strings.Join(fr, ", ")
}

func init() {
	batchRegistry["acme"] = func(c *rp.Ctx, cases []json.RawMessage) []rp.Result {
		if c.Extra["race"] != "off" {
			if !raceEnabled {
				rp.Bug("the X04 replayer must be built with -race")
			}
			if raceLogPath() == "" {
				if os.Getenv("X04_REEXEC") != "" {
					rp.Bug("GORACE log_path not honoured")
				}
				tmp, err := os.MkdirTemp("", "x04race")
				if err != nil {
					rp.Bug("%v", err)
				}
				env := append(os.Environ(), "GORACE=halt_on_error=0 exitcode=0 log_path="+filepath.Join(tmp, "race"), "X04_REEXEC="+tmp)
				exe, err := os.Executable()
				if err != nil {
					rp.Bug("%v", err)
				}
				err = syscall.Exec(exe, os.Args, env)
				rp.Bug("re-exec: %v", err)
			}
		}
		if tmp := os.Getenv("X04_REEXEC"); tmp != "" {
			defer os.RemoveAll(tmp)
		}
		dir := c.Dir
		if dir == "" {
			tmp, err := os.MkdirTemp("", "x04trace")
			if err != nil {
				rp.Bug("%v", err)
			}
			defer os.RemoveAll(tmp)
			dir = tmp
		}
		acme.Logger = log.New(io.Discard, "", 0)
		log.SetOutput(io.Discard)
		rr := &raceReader{path: raceLogPath() + "." + strconv.Itoa(os.Getpid())}
		keys := newKeyring()
		first := 0
		if v := c.Extra["first"]; v != "" {
			first, _ = strconv.Atoi(v)
		}
		tracePath := filepath.Join(dir, "trace.ndjson")
		var buf bytes.Buffer
		enc := json.NewEncoder(&buf)
		enc.SetEscapeHTML(false)
		res := make([]rp.Result, len(cases))
		for i, raw := range cases {
			ss := &session{idx: first + i, raw: raw, keys: keys}
			if err := json.Unmarshal(raw, &ss.sc); err != nil {
				panic(err)
			}
			sc := &ss.sc
			if sc.N < 1 || len(sc.Az) != sc.N || len(sc.Offer) != sc.N || len(sc.Prov) != sc.N || len(sc.Ch) != sc.N || (len(sc.Ch2) != 0 && len(sc.Ch2) != sc.N) {
				rp.Bug("malformed script %s", raw)
			}
			ss.init()
			start := buf.Len()
			enc.Encode(map[string]interface{}{"e": "reset", "sess": ss.idx, "sc": json.RawMessage(raw)})
			hung := ss.run(c)
			for _, e := range ss.evs {
				if err := enc.Encode(e); err != nil {
					rp.Bug("trace encoding: %v", err)
				}
			}
			info := map[string]interface{}{"events": len(ss.evs), "hung": hung, "lines": bytes.Count(buf.Bytes()[start:], []byte{'\n'})}
			res[i] = rp.Result{I: i, OK: true, Nontriv: true, Info: info}
			lib, other := rr.next()
			if len(other) > 0 {
				rp.Bug("race report that does not involve package acme (harness bug?):\n%s", other[0])
			}
			if len(lib) > 0 {
				rep := lib[0]
				info["race_reports"] = len(lib)
				res[i].OK = false
				res[i].Deviation = "X04/nonce-pool-unsynchronised"
				if !strings.Contains(rep, "acme.(*jws).Nonce") && !strings.Contains(rep, "acme.(*jws).getNonceFromResponse") {
					res[i].Deviation = ""
				}
				res[i].What = fmt.Sprintf("race detector: %d DATA RACE report(s) involving package acme in a session with %d domains; first: %s", len(lib), sc.N, raceSummary(rep))
				if len(rep) > 3000 {
					rep = rep[:3000]
				}
				res[i].Observed = rep
			}
		}
		enc.Encode(map[string]interface{}{"e": "eof"})
		if err := os.WriteFile(tracePath, buf.Bytes(), 0o644); err != nil {
			rp.Bug("trace file: %v", err)
		}
		if len(res) > 0 {
			res[0].Info.(map[string]interface{})["trace"] = tracePath
		}
		return res
	}
}
