package main

// The application's challenge providers: a mock that follows the script, and wrappers around the package's own
// HTTPProviderServer / TLSProviderServer that record the callbacks and let the fake ACME server look at what is
// being served (probe events).

import (
	"crypto/sha256"
	"crypto/tls"
	"encoding/hex"
	"errors"
	"fmt"
	"io"
	"net"
	"net/http"
	"strings"
	"time"

	"github.com/ossrs/go-oryx-lib/https/acme"
	"verifharness/rp"
)

type provider struct {
	ss   *session
	typ  string // http-01 | tls-sni-01
	real acme.ChallengeProvider
}

func (ss *session) installProviders(client *acme.Client) {
	for _, typ := range []string{"http-01", "tls-sni-01"} {
		if err := client.SetChallengeProvider(acme.Challenge(typ), &provider{ss: ss, typ: typ}); err != nil {
			rp.Bug("SetChallengeProvider: %v", err)
		}
	}
	if len(ss.sc.Excl) > 0 {
		var ex []acme.Challenge
		for _, t := range ss.sc.Excl {
			ex = append(ex, acme.Challenge(t))
		}
		client.ExcludeChallenges(ex)
	}
}

func (p *provider) isReal() bool {
	return (p.ss.sc.Real == "http" && p.typ == "http-01") || (p.ss.sc.Real == "tls" && p.typ == "tls-sni-01")
}

// which challenge of the session a callback is about, and whether its arguments are the specification's
func (p *provider) identify(domain, token, keyAuth string) (d, c int, ok bool, why string) {
	ss := p.ss
	d = domIdx(domain)
	ss.mu.Lock()
	key, known := ss.tokenOf[token]
	round := ss.round
	ss.mu.Unlock()
	if known && key[0] == round && key[1] == d {
		c = key[2]
	}
	ok = c != 0 && keyAuth == token+"."+ss.thumb && chs(ss.sc.Offer[d-1])[c-1] == p.typ
	if !ok {
		why = fmt.Sprintf("provider %s called with (%q, %q, %q); key authorization of the specification: %q", p.typ, domain, token, keyAuth, token+"."+ss.thumb)
	}
	return
}

func freePort() string {
	l, err := net.Listen("tcp", "127.0.0.1:0")
	if err != nil {
		rp.Bug("no free port: %v", err)
	}
	defer l.Close()
	_, port, _ := net.SplitHostPort(l.Addr().String())
	return port
}

func (p *provider) Present(domain, token, keyAuth string) error {
	ss := p.ss
	d, c, ok, why := p.identify(domain, token, keyAuth)
	if d < 1 || d > ss.sc.N {
		ss.log(event{E: "cb", A: "present", D: 0, C: 0, St: "ok", X: []interface{}{false}, Why: why})
		return nil
	}
	if !p.isReal() {
		st := "ok"
		var err error
		if ss.sc.Prov[d-1] == "perr" {
			st, err = "err", errors.New("scripted: the provider cannot present")
		}
		ss.log(event{E: "cb", A: "present", D: d, C: c, St: st, X: []interface{}{ok}, Why: why})
		return err
	}
	var err error
	for try := 0; try < 5; try++ {
		port := freePort()
		addr := net.JoinHostPort("127.0.0.1", port)
		ss.mu.Lock()
		ss.addr[p.typ] = addr
		ss.mu.Unlock()
		ss.probe("right", d, c, p.typ, token, keyAuth) // nothing is served before Present
		if p.typ == "http-01" {
			p.real = acme.NewHTTPProviderServer("127.0.0.1", port)
		} else {
			p.real = acme.NewTLSProviderServer("127.0.0.1", port)
		}
		err = p.real.Present(domain, token, keyAuth)
		if err == nil || !strings.Contains(err.Error(), "address already in use") {
			break
		}
	}
	st := "ok"
	if err != nil {
		st = "err"
		why += " Present: " + err.Error()
	}
	ss.log(event{E: "cb", A: "present", D: d, C: c, St: st, X: []interface{}{ok}, Why: why})
	return err
}

func (p *provider) CleanUp(domain, token, keyAuth string) error {
	ss := p.ss
	d, c, ok, why := p.identify(domain, token, keyAuth)
	if d < 1 || d > ss.sc.N {
		ss.log(event{E: "cb", A: "cleanup", D: 0, C: 0, St: "ok", X: []interface{}{false}, Why: why})
		return nil
	}
	if !p.isReal() {
		st := "ok"
		var err error
		if ss.sc.Prov[d-1] == "cerr" {
			st, err = "err", errors.New("scripted: the provider cannot clean up")
		}
		ss.log(event{E: "cb", A: "cleanup", D: d, C: c, St: st, X: []interface{}{ok}, Why: why})
		return err
	}
	var err error
	if p.real != nil {
		err = p.real.CleanUp(domain, token, keyAuth)
	}
	st := "ok"
	if err != nil {
		st = "err"
	}
	ss.log(event{E: "cb", A: "cleanup", D: d, C: c, St: st, X: []interface{}{ok}, Why: why})
	ss.probe("right", d, c, p.typ, token, keyAuth) // nothing is served after CleanUp
	return err
}

// the ACME server validates a challenge response: it looks at the client's server, with the right and a wrong Host
func (ss *session) probeChallenge(d, c int) {
	if ss.sc.Real == "mock" || d < 1 || d > ss.sc.N || c < 1 || c > len(chs(ss.sc.Offer[d-1])) {
		return
	}
	typ := chs(ss.sc.Offer[d-1])[c-1]
	if (ss.sc.Real == "http") != (typ == "http-01") || typ == "dns-01" {
		return
	}
	ss.mu.Lock()
	tok := ss.tokens[[3]int{ss.round, d, c}]
	ss.mu.Unlock()
	ss.probe("right", d, c, typ, tok, tok+"."+ss.thumb)
	if typ == "http-01" {
		ss.probe("wrong", d, c, typ, tok, tok+"."+ss.thumb)
	}
}

var probeClient = &http.Client{Timeout: 10 * time.Second, Transport: &http.Transport{DisableKeepAlives: true, Proxy: nil}}

func sniName(keyAuth string) string {
	z := sha256.Sum256([]byte(keyAuth))
	h := hex.EncodeToString(z[:])
	return h[:32] + "." + h[32:] + ".acme.invalid"
}

func (ss *session) probe(host string, d, c int, typ, token, keyAuth string) {
	ss.mu.Lock()
	addr := ss.addr[typ]
	ss.mu.Unlock()
	res, why := "refused", ""
	if addr != "" {
		if typ == "http-01" {
			req, _ := http.NewRequest("GET", "http://"+addr+"/.well-known/acme-challenge/"+token, nil)
			req.Host = domName(d)
			if host == "wrong" {
				req.Host = "evil.x04.test"
			}
			resp, err := probeClient.Do(req)
			if err != nil {
				if !strings.Contains(err.Error(), "connection refused") {
					res, why = "error", err.Error()
				}
			} else {
				b, _ := io.ReadAll(io.LimitReader(resp.Body, 4096))
				resp.Body.Close()
				if resp.StatusCode == 200 && string(b) == keyAuth {
					res = "ka"
				} else {
					res, why = "other", fmt.Sprintf("status %d body %q", resp.StatusCode, clip(string(b), 80))
				}
			}
		} else {
			name := sniName(keyAuth)
			conn, err := tls.DialWithDialer(&net.Dialer{Timeout: 10 * time.Second}, "tcp", addr, &tls.Config{ServerName: name, InsecureSkipVerify: true})
			if err != nil {
				if !strings.Contains(err.Error(), "connection refused") {
					res, why = "error", err.Error()
				}
			} else {
				certs := conn.ConnectionState().PeerCertificates
				conn.Close()
				res = "other"
				if len(certs) > 0 {
					for _, n := range certs[0].DNSNames {
						if n == name {
							res = "ka"
						}
					}
					why = fmt.Sprintf("certificate names %v, want %s", certs[0].DNSNames, name)
				}
			}
		}
	}
	ss.log(event{E: "probe", A: host, D: d, C: c, St: res, Why: why})
}
