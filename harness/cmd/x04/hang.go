package main

// An API call that never returns.  No timing is involved in the verdict: the call is declared blocked for ever only
// when the goroutine that made it is parked on a channel operation inside package acme itself, no other goroutine
// has a frame of package acme (nobody is left who could wake it) and the server has no request in flight.  That
// state cannot change any more.  A generous watchdog is the fallback for everything else.

import (
	"fmt"
	"os"
	"runtime"
	"runtime/debug"
	"strings"
	"sync/atomic"
	"time"

	"verifharness/rp"
)

const acmePkg = "github.com/ossrs/go-oryx-lib/https/acme."

//go:noinline
func x04OpGoroutine(body func() retT, done chan<- retT, id chan<- string) {
	var hb [64]byte
	id <- strings.Fields(string(hb[:runtime.Stack(hb[:], false)]))[1] // "goroutine N [running]:"
	defer func() {
		if e := recover(); e != nil {
			if _, ok := e.(rp.HarnessBug); ok {
				fmt.Fprintf(os.Stderr, "replay: harness bug: %v\n%s\n", e, debug.Stack())
				os.Exit(3)
			}
			st := string(debug.Stack())
			if j := strings.Index(st, "panic("); j >= 0 {
				st = st[j:]
			}
			done <- retT{st: "panic", good: true, why: fmt.Sprintf("panic: %v | %s", e, strings.Join(strings.Fields(clip(st, 700)), " "))}
		}
	}()
	done <- body()
}

func blockedForEver(goid string) (bool, string) {
	buf := make([]byte, 8<<20)
	buf = buf[:runtime.Stack(buf, true)]
	var mine string
	others := 0
	for _, g := range strings.Split(string(buf), "\n\n") {
		if !strings.Contains(g, acmePkg) {
			continue
		}
		if strings.HasPrefix(g, "goroutine "+goid+" [") {
			mine = g
		} else if strings.Contains(g, "main.x04OpGoroutine") {
			// the call of an earlier session that never returned
		} else if !strings.Contains(g, "ProviderServer).serve") && !strings.Contains(g, "ProviderServer).Present.func") {
			others++
		}
	}
	if mine == "" || others > 0 {
		return false, ""
	}
	lines := strings.Split(mine, "\n")
	if len(lines) < 2 {
		return false, ""
	}
	hdr := lines[0]
	parked := strings.Contains(hdr, "[select") || strings.Contains(hdr, "[chan receive") || strings.Contains(hdr, "[chan send")
	if !parked || !strings.HasPrefix(lines[1], acmePkg) {
		return false, ""
	}
	where := lines[1]
	if len(lines) > 2 {
		where += " " + strings.TrimSpace(lines[2])
	}
	return true, strings.TrimSpace(hdr) + " " + where
}

func (ss *session) runOp(body func() retT) (retT, string) {
	done := make(chan retT, 1)
	idc := make(chan string, 1)
	go x04OpGoroutine(body, done, idc)
	goid := <-idc
	first := time.NewTimer(30 * time.Millisecond)
	defer first.Stop()
	select {
	case r := <-done:
		return r, "ret"
	case <-first.C:
	}
	deadline := time.Now().Add(rp.CaseTimeout)
	seen := 0
	for {
		select {
		case r := <-done:
			return r, "ret"
		case <-time.After(2 * time.Millisecond):
		}
		if atomic.LoadInt32(&ss.inflight) == 0 {
			if b, where := blockedForEver(goid); b {
				seen++
				if seen >= 2 {
					return retT{why: "the call never returns: " + where}, "hang"
				}
				continue
			}
		}
		seen = 0
		if time.Now().After(deadline) {
			return retT{why: fmt.Sprintf("the call did not return within %v", rp.CaseTimeout)}, "hang"
		}
	}
}
