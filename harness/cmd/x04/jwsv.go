package main

// JWS verification of the fake ACME server: standard library only (the code under test signs with /repo's jose,
// the judge must not share it).  Flattened JSON serialization, ES256 / RS256, RFC 7638 thumbprints.

import (
	"crypto"
	"crypto/ecdsa"
	"crypto/elliptic"
	"crypto/rsa"
	"crypto/sha256"
	"encoding/base64"
	"encoding/json"
	"fmt"
	"math/big"
)

func b64(b []byte) string { return base64.RawURLEncoding.EncodeToString(b) }

func unb64(s string) ([]byte, error) {
	for len(s) > 0 && s[len(s)-1] == '=' {
		s = s[:len(s)-1]
	}
	return base64.RawURLEncoding.DecodeString(s)
}

type jwkT struct {
	Kty string `json:"kty"`
	Crv string `json:"crv"`
	X   string `json:"x"`
	Y   string `json:"y"`
	N   string `json:"n"`
	E   string `json:"e"`
}

type parsedJWS struct {
	Alg     string
	Nonce   string
	JWK     json.RawMessage
	Thumb   string // RFC 7638 thumbprint of the embedded key, base64url
	Payload []byte
	SigOK   bool   // the signature verifies under the embedded key
	Problem string // why not
}

// thumbprint of a public key, computed from the key itself (not from the peer's JSON)
func thumbprint(pub crypto.PublicKey) string {
	var in string
	switch k := pub.(type) {
	case *ecdsa.PublicKey:
		size := (k.Curve.Params().BitSize + 7) / 8
		in = fmt.Sprintf(`{"crv":"%s","kty":"EC","x":"%s","y":"%s"}`, k.Curve.Params().Name, b64(pad(k.X.Bytes(), size)), b64(pad(k.Y.Bytes(), size)))
	case *rsa.PublicKey:
		in = fmt.Sprintf(`{"e":"%s","kty":"RSA","n":"%s"}`, b64(big.NewInt(int64(k.E)).Bytes()), b64(k.N.Bytes()))
	default:
		return ""
	}
	h := sha256.Sum256([]byte(in))
	return b64(h[:])
}

func pad(b []byte, n int) []byte {
	if len(b) >= n {
		return b
	}
	return append(make([]byte, n-len(b)), b...)
}

func (j *jwkT) public() (crypto.PublicKey, error) {
	switch j.Kty {
	case "EC":
		var c elliptic.Curve
		switch j.Crv {
		case "P-256":
			c = elliptic.P256()
		case "P-384":
			c = elliptic.P384()
		default:
			return nil, fmt.Errorf("curve %q", j.Crv)
		}
		x, err := unb64(j.X)
		if err != nil {
			return nil, err
		}
		y, err := unb64(j.Y)
		if err != nil {
			return nil, err
		}
		return &ecdsa.PublicKey{Curve: c, X: new(big.Int).SetBytes(x), Y: new(big.Int).SetBytes(y)}, nil
	case "RSA":
		n, err := unb64(j.N)
		if err != nil {
			return nil, err
		}
		e, err := unb64(j.E)
		if err != nil {
			return nil, err
		}
		return &rsa.PublicKey{N: new(big.Int).SetBytes(n), E: int(new(big.Int).SetBytes(e).Int64())}, nil
	}
	return nil, fmt.Errorf("kty %q", j.Kty)
}

func parseJWS(body []byte) (p parsedJWS) {
	var raw struct {
		Payload   string          `json:"payload"`
		Protected string          `json:"protected"`
		Signature string          `json:"signature"`
		Header    json.RawMessage `json:"header"`
	}
	if err := json.Unmarshal(body, &raw); err != nil {
		p.Problem = "body is not a JWS in JSON serialization: " + err.Error()
		return
	}
	prot, err := unb64(raw.Protected)
	if err != nil {
		p.Problem = "protected header is not base64url"
		return
	}
	var hdr struct {
		Alg   string          `json:"alg"`
		Nonce string          `json:"nonce"`
		JWK   json.RawMessage `json:"jwk"`
	}
	if err := json.Unmarshal(prot, &hdr); err != nil {
		p.Problem = "protected header is not JSON"
		return
	}
	p.Alg, p.Nonce, p.JWK = hdr.Alg, hdr.Nonce, hdr.JWK
	p.Payload, err = unb64(raw.Payload)
	if err != nil {
		p.Problem = "payload is not base64url"
		return
	}
	sig, err := unb64(raw.Signature)
	if err != nil {
		p.Problem = "signature is not base64url"
		return
	}
	if len(hdr.JWK) == 0 {
		p.Problem = "no jwk in the protected header"
		return
	}
	var jk jwkT
	if err := json.Unmarshal(hdr.JWK, &jk); err != nil {
		p.Problem = "jwk: " + err.Error()
		return
	}
	pub, err := jk.public()
	if err != nil {
		p.Problem = "jwk: " + err.Error()
		return
	}
	p.Thumb = thumbprint(pub)
	digest := sha256.Sum256([]byte(raw.Protected + "." + raw.Payload))
	switch k := pub.(type) {
	case *ecdsa.PublicKey:
		if hdr.Alg != "ES256" || len(sig) != 64 {
			p.Problem = fmt.Sprintf("alg %q / signature of %d bytes for a P-256 key", hdr.Alg, len(sig))
			return
		}
		if !ecdsa.Verify(k, digest[:], new(big.Int).SetBytes(sig[:32]), new(big.Int).SetBytes(sig[32:])) {
			p.Problem = "ES256 signature does not verify"
			return
		}
	case *rsa.PublicKey:
		if hdr.Alg != "RS256" {
			p.Problem = fmt.Sprintf("alg %q for an RSA key", hdr.Alg)
			return
		}
		if err := rsa.VerifyPKCS1v15(k, crypto.SHA256, digest[:], sig); err != nil {
			p.Problem = "RS256 signature does not verify"
			return
		}
	}
	p.SigOK = true
	return
}
