package main

// The fake ACME server (ACME v1 as spoken by boulder in 2016): it follows the session's script, which TLC generated,
// and records every request it receives as one event at the moment it decides the answer (under the session mutex:
// the order of the events is the order in which the server consumed the nonces).

import (
	"crypto/x509"
	"encoding/json"
	"fmt"
	"io"
	"net/http"
	"sort"
	"strconv"
	"strings"
	"sync/atomic"
)

func (ss *session) init() {
	ss.nonceNum = map[string]int{}
	ss.used = map[int]bool{}
	ss.tokens = map[[3]int]string{}
	ss.tokenOf = map[string][3]int{}
	ss.polls = map[[3]int]int{}
	ss.validCh = map[[3]int]bool{}
	ss.addr = map[string]string{}
}

func chs(o string) []string {
	switch o {
	case "h", "nocombo":
		return []string{"http-01"}
	case "t":
		return []string{"tls-sni-01"}
	case "ht", "h+t":
		return []string{"http-01", "tls-sni-01"}
	case "dh":
		return []string{"dns-01", "http-01"}
	case "d":
		return []string{"dns-01"}
	}
	panic("offer " + o)
}

func combos(o string) [][]int { // 0-based, as on the wire
	switch o {
	case "h", "t", "d":
		return [][]int{{0}}
	case "ht", "dh":
		return [][]int{{0}, {1}}
	case "h+t":
		return [][]int{{0, 1}}
	case "nocombo":
		return nil
	}
	panic("offer " + o)
}

func chalAns(ch string, p int) string {
	switch ch {
	case "valid", "invalid", "revoked":
		return ch
	case "err", "bn":
		return "err"
	case "p-valid":
		if p == 0 {
			return "pending"
		}
		return "valid"
	case "pp-invalid":
		if p <= 1 {
			return "pending"
		}
		return "invalid"
	case "p-err":
		if p == 0 {
			return "pending"
		}
		return "err"
	}
	panic("ch " + ch)
}

func (ss *session) chOf(d int) string {
	if ss.round > 1 && len(ss.sc.Ch2) > 0 {
		return ss.sc.Ch2[d-1]
	}
	return ss.sc.Ch[d-1]
}

// what the handler decided, written after the event was logged
type answer struct {
	code   int
	hdr    [][2]string
	body   []byte
	ctype  string
	nonce  string
	isHead bool
}

func problem(code int, typ, detail string) answer {
	b, _ := json.Marshal(map[string]interface{}{"type": "urn:acme:error:" + typ, "detail": detail, "status": code})
	return answer{code: code, body: b, ctype: "application/problem+json"}
}

func scripted(st string) (answer, bool) {
	switch st {
	case "err":
		return problem(500, "serverInternal", "scripted failure"), true
	case "bn":
		return problem(400, "badNonce", "JWS has invalid anti-replay nonce (scripted: the server forgot it)"), true
	}
	return answer{}, false
}

func jsonAnswer(code int, v interface{}) answer {
	b, err := json.Marshal(v)
	if err != nil {
		panic(err)
	}
	return answer{code: code, body: b, ctype: "application/json"}
}

func (ss *session) ServeHTTP(w http.ResponseWriter, r *http.Request) {
	atomic.AddInt32(&ss.inflight, 1)
	defer atomic.AddInt32(&ss.inflight, -1)
	body, _ := io.ReadAll(io.LimitReader(r.Body, 1<<20))
	ua := strings.Contains(r.UserAgent(), "xenolf-acme")
	path := r.URL.Path
	parts := strings.Split(strings.Trim(path, "/"), "/")
	num := func(i int) int {
		if i < len(parts) {
			n, _ := strconv.Atoi(parts[i])
			return n
		}
		return 0
	}

	var jw parsedJWS
	var payload map[string]interface{}
	if r.Method == "POST" {
		jw = parseJWS(body)
		json.Unmarshal(jw.Payload, &payload)
	}
	str := func(k string) string { s, _ := payload[k].(string); return s }

	// validation of a challenge response: the server looks at what the client's provider serves (real providers only)
	if r.Method == "POST" && parts[0] == "chal" {
		ss.probeChallenge(num(1), num(2))
	}

	ss.mu.Lock()
	ev := event{E: "http", X: []interface{}{ua}}
	var ans answer
	post := func(kind, resource string, extra ...interface{}) bool {
		// common part of every POST: JWS under the account key, nonce issued and unused
		ev.A = kind
		sig := jw.SigOK && jw.Thumb == ss.thumb
		ev.X = append([]interface{}{sig, ua, str("resource") == resource}, extra...)
		if !sig {
			ev.Why = "JWS: " + jw.Problem
			if jw.SigOK {
				ev.Why = "JWS signed by a key that is not the account key"
			}
		}
		n := ss.nonceNum[jw.Nonce]
		ev.N = n
		if n == 0 || ss.used[n] {
			ev.St = "badnonce!"
			if n == 0 {
				ev.Why = fmt.Sprintf("nonce %q was never issued by this server", jw.Nonce)
			} else {
				ev.Why = fmt.Sprintf("nonce %d (%q) was used before", n, jw.Nonce)
			}
			ans = problem(400, "badNonce", "JWS has invalid anti-replay nonce")
			return false
		}
		ss.used[n] = true
		return true
	}

	switch {
	case parts[0] == "dir" && (r.Method == "GET" || r.Method == "HEAD"):
		ev.A, ev.St = "dir", "ok"
		if r.Method == "HEAD" {
			ev.A = "head"
			ans.isHead = true
		}
		ans = jsonAnswer(200, map[string]string{"new-reg": ss.base + "/new-reg", "new-authz": ss.base + "/new-authz",
			"new-cert": ss.base + "/new-cert", "revoke-cert": ss.base + "/revoke-cert"})

	case parts[0] == "new-reg" && r.Method == "POST":
		if !post("new-reg", "new-reg") {
			break
		}
		ev.St = ss.sc.Reg
		if a, ok := scripted(ss.sc.Reg); ok {
			ans = a
			break
		}
		ans = jsonAnswer(201, map[string]interface{}{"id": 1, "key": jw.JWK, "contact": payload["contact"]})
		ans.hdr = append(ans.hdr, [2]string{"Location", ss.base + "/reg/1"})
		if ss.sc.Reg == "badlink" {
			ans.hdr = append(ans.hdr, [2]string{"Link", "<" + ss.base + "/help>"})
		}
		if ss.sc.Reg != "nonext" {
			ans.hdr = append(ans.hdr, [2]string{"Link", "<" + ss.base + "/new-authz>;rel=\"next\""})
		}
		ans.hdr = append(ans.hdr, [2]string{"Link", "<" + ss.base + "/tos>;rel=\"terms-of-service\""})

	case parts[0] == "reg" && r.Method == "POST":
		if !post("reg", "reg", str("agreement") == ss.base+"/tos") {
			break
		}
		ev.St = ss.sc.Agree
		if a, ok := scripted(ss.sc.Agree); ok {
			ans = a
			break
		}
		ans = jsonAnswer(202, map[string]interface{}{"id": 1, "key": jw.JWK, "contact": payload["contact"], "agreement": str("agreement")})

	case parts[0] == "new-authz" && r.Method == "POST":
		id, _ := payload["identifier"].(map[string]interface{})
		d := 0
		if t, _ := id["type"].(string); t == "dns" {
			v, _ := id["value"].(string)
			d = domIdx(v)
		}
		if d > ss.sc.N {
			d = 0
		}
		ev.D = d
		if !post("new-authz", "new-authz") {
			break
		}
		if d == 0 {
			ev.St = "unknown-domain!"
			ans = problem(400, "malformed", "identifier is not a name of this session")
			break
		}
		ev.St = ss.sc.Az[d-1]
		if a, ok := scripted(ev.St); ok {
			ans = a
			break
		}
		round := ss.round
		o := ss.sc.Offer[d-1]
		var cl []map[string]interface{}
		for c, typ := range chs(o) {
			key := [3]int{round, d, c + 1}
			tok, ok := ss.tokens[key]
			if !ok {
				tok = fmt.Sprintf("tok_%d_%d_%d_%d", ss.idx, round, d, c+1)
				ss.tokens[key] = tok
				ss.tokenOf[tok] = key
			}
			cl = append(cl, map[string]interface{}{"type": typ, "status": "pending", "token": tok,
				"uri": fmt.Sprintf("%s/chal/%d/%d", ss.base, d, c+1)})
		}
		az := map[string]interface{}{"identifier": map[string]string{"type": "dns", "value": domName(d)}, "status": "pending", "challenges": cl}
		if cb := combos(o); cb != nil {
			az["combinations"] = cb
		}
		ans = jsonAnswer(201, az)
		ans.hdr = append(ans.hdr, [2]string{"Location", fmt.Sprintf("%s/authz/%d", ss.base, d)})
		if ev.St != "nonext" {
			ans.hdr = append(ans.hdr, [2]string{"Link", "<" + ss.base + "/new-cert>;rel=\"next\""})
		}

	case parts[0] == "chal" && (r.Method == "POST" || r.Method == "GET"):
		d, c := num(1), num(2)
		if d < 1 || d > ss.sc.N || c < 1 || c > len(chs(ss.sc.Offer[d-1])) {
			ev.A, ev.St = "chal", "unknown-challenge!"
			ans = problem(404, "malformed", "no such challenge")
			break
		}
		ev.D, ev.C = d, c
		key := [3]int{ss.round, d, c}
		typ := chs(ss.sc.Offer[d-1])[c-1]
		tok := ss.tokens[key]
		var st string
		if r.Method == "POST" {
			kaok := tok != "" && str("keyAuthorization") == tok+"."+ss.thumb && (str("token") == "" || str("token") == tok)
			if !post("chal", "challenge", str("type"), kaok) {
				break
			}
			if !kaok {
				ev.Why = fmt.Sprintf("keyAuthorization %q, want %q", str("keyAuthorization"), tok+"."+ss.thumb)
			}
			ss.polls[key] = 0
			st = chalAns(ss.chOf(d), 0)
			if ss.chOf(d) == "bn" {
				ev.St = "err"
				ans, _ = scripted("bn")
				break
			}
		} else {
			ev.A = "chalpoll"
			p := ss.polls[key] + 1
			if p > 3 {
				p = 3
			}
			ss.polls[key] = p
			st = chalAns(ss.chOf(d), p)
		}
		ev.St = st
		if st == "err" {
			ans, _ = scripted("err")
			break
		}
		if st == "valid" {
			ss.validCh[key] = true
		}
		obj := map[string]interface{}{"type": typ, "status": st, "token": tok, "uri": fmt.Sprintf("%s/chal/%d/%d", ss.base, d, c),
			"keyAuthorization": tok + "." + ss.thumb}
		if st == "invalid" {
			obj["error"] = map[string]interface{}{"type": "urn:acme:error:unauthorized", "detail": "scripted: validation failed", "status": 403}
		}
		ans = jsonAnswer(202, obj)
		if st == "pending" {
			ans.hdr = append(ans.hdr, [2]string{"Retry-After", "0"})
		}

	case parts[0] == "new-cert" && r.Method == "POST":
		names := []interface{}{}
		var cn string
		var san []string
		var pub interface{}
		csrProblem := ""
		if der, err := unb64(str("csr")); err != nil {
			csrProblem = "csr is not base64url"
		} else if csr, err := x509.ParseCertificateRequest(der); err != nil {
			csrProblem = "csr does not parse: " + err.Error()
		} else if err := csr.CheckSignature(); err != nil {
			csrProblem = "csr signature: " + err.Error()
		} else {
			cn, san, pub = csr.Subject.CommonName, append([]string(nil), csr.DNSNames...), csr.PublicKey
			names = append(names, domIdx(cn))
			var rest []int
			for _, s := range san {
				if s != cn {
					rest = append(rest, domIdx(s))
				}
			}
			sort.Ints(rest)
			for _, k := range rest {
				names = append(names, k)
			}
		}
		if !post("new-cert", "new-cert", names) {
			break
		}
		if csrProblem != "" {
			ev.St, ev.Why = "bad-csr!", csrProblem
			ans = problem(400, "badCSR", csrProblem)
			break
		}
		// the CA's own rule: every name of the CSR has a valid authorization
		unauth := ""
		for _, k := range names {
			d := k.(int)
			ok := d >= 1 && d <= ss.sc.N
			if ok {
				ok = false
				for c := 1; c <= 2; c++ {
					if ss.validCh[[3]int{ss.round, d, c}] {
						ok = true
					}
				}
			}
			if !ok {
				unauth = fmt.Sprintf("no valid authorization for name %v of the CSR", k)
			}
		}
		if unauth != "" {
			ev.St, ev.Why = "unauthorized!", unauth
			ans = problem(403, "unauthorized", unauth)
			break
		}
		ss.cn, ss.san, ss.leafPub = cn, nil, pub
		for _, s := range san {
			if s != cn {
				ss.san = append(ss.san, s)
			}
		}
		ss.certq = 0
		switch ss.sc.Cert {
		case "now":
			ev.St = "cert"
			ss.certDER = ss.keys.ca.issue(ss.cn, ss.san, ss.leafPub)
			ans = answer{code: 201, body: ss.certDER, ctype: "application/pkix-cert"}
			ans.hdr = append(ans.hdr, [2]string{"Link", "<" + ss.base + "/issuer>;rel=\"up\""})
		case "err", "bn":
			ev.St = "err"
			ans, _ = scripted(ss.sc.Cert)
		default:
			ev.St = "empty"
			ans = answer{code: 201}
			ans.hdr = append(ans.hdr, [2]string{"Retry-After", "0"})
		}
		ans.hdr = append(ans.hdr, [2]string{"Location", ss.base + "/cert/1"})

	case parts[0] == "cert" && r.Method == "GET":
		if ss.curOp == "renew" && !ss.fetched {
			ss.fetched = true
			ev.A, ev.St = "certget", ss.sc.Renew
			if ss.sc.Renew != "new" {
				ss.round++ // the client will run the whole flow again
			}
			if ss.sc.Renew == "new" || ss.certDER == nil {
				ss.certDER = ss.keys.ca.issue(ss.cn, ss.san, ss.leafPub)
			}
			ans = answer{code: 200, body: ss.certDER, ctype: "application/pkix-cert"}
			ans.hdr = append(ans.hdr, [2]string{"Link", "<" + ss.base + "/issuer>;rel=\"up\""})
			break
		}
		ev.A = "certpoll"
		st := "err"
		switch ss.sc.Cert {
		case "d0-202":
			st = "cert"
		case "d1-202":
			st = map[bool]string{true: "empty", false: "cert"}[ss.certq == 0]
		case "d1-200":
			st = map[bool]string{true: "empty", false: "cert200"}[ss.certq == 0]
		}
		ss.certq++
		ev.St = st
		switch st {
		case "empty":
			ans = answer{code: 202}
			ans.hdr = append(ans.hdr, [2]string{"Retry-After", "0"})
		case "cert", "cert200":
			ss.certDER = ss.keys.ca.issue(ss.cn, ss.san, ss.leafPub)
			ans = answer{code: map[string]int{"cert": 202, "cert200": 200}[st], body: ss.certDER, ctype: "application/pkix-cert"}
			ans.hdr = append(ans.hdr, [2]string{"Link", "<" + ss.base + "/issuer>;rel=\"up\""})
		default:
			ans, _ = scripted("err")
		}

	case parts[0] == "issuer" && r.Method == "GET":
		ev.A, ev.St = "issuer", ss.sc.Issuer
		if ss.sc.Issuer == "ok" {
			ans = answer{code: 200, body: ss.keys.ca.der, ctype: "application/pkix-cert"}
		} else {
			ans, _ = scripted("err")
		}

	case parts[0] == "revoke-cert" && r.Method == "POST":
		der, _ := unb64(str("certificate"))
		if !post("revoke", "revoke-cert", ss.certDER != nil && string(der) == string(ss.certDER)) {
			break
		}
		ev.St = ss.sc.Revoke
		if a, ok := scripted(ss.sc.Revoke); ok {
			ans = a
			break
		}
		ans = answer{code: 200}

	default:
		ev.A, ev.St = "unknown!", r.Method+" "+path
		ans = problem(404, "malformed", "no such resource")
	}

	// every response carries a fresh nonce, unless the script drops the header for this resource
	if !ss.sc.drops(ev.A) {
		ss.nn++
		ev.Rn = ss.nn
		ans.nonce = fmt.Sprintf("N%d-%d-%x", ss.idx, ss.nn, (ss.idx*7919+ss.nn*104729)&0xffffff)
		ss.nonceNum[ans.nonce] = ss.nn
	}
	ss.logLocked(ev)
	ss.mu.Unlock()

	for _, h := range ans.hdr {
		w.Header().Add(h[0], h[1])
	}
	if ans.nonce != "" {
		w.Header().Set("Replay-Nonce", ans.nonce)
	}
	if ans.ctype != "" {
		w.Header().Set("Content-Type", ans.ctype)
	}
	w.WriteHeader(ans.code)
	if r.Method != "HEAD" {
		w.Write(ans.body)
	}
}
