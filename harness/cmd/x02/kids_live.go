//go:build !x02pre17

package main

import xctx "github.com/ossrs/go-oryx-lib/https/net/context"

const pre17Build = false

// kidsOf: the standard library's registries are not observable.
func kidsOf(c xctx.Context) (int, bool) { return 0, false }
