package main

// The concurrent clause: after the sequential prefix of a case, its "par" steps (cancel an existing context, derive
// a child from an existing context) run at the same time, one goroutine each, released together, while observer
// goroutines keep reading Done / Err / Deadline / Value of every context. Gen_CtxTree!ParOrderFree: the state
// after the par steps is a function of their SET, so the specification's observation after the last step is the
// expectation for every schedule. During the phase the observers check what must hold in every intermediate state:
// Err is nil or the final value and never changes once it is not nil; once Done is closed Err is not nil.
// The binary is built with -race: a report that involves the package is a violation.

import (
	"encoding/json"
	"fmt"
	"os"
	"path/filepath"
	"regexp"
	"runtime"
	"strconv"
	"strings"
	"sync"
	"sync/atomic"
	"syscall"
	"time"

	xctx "github.com/ossrs/go-oryx-lib/https/net/context"
	"verifharness/rp"
)

const libPkg = "go-oryx-lib/https/net/context"

func raceLogPath() string {
	for _, f := range strings.Fields(os.Getenv("GORACE")) {
		if strings.HasPrefix(f, "log_path=") {
			return strings.TrimPrefix(f, "log_path=")
		}
	}
	return ""
}

type raceReader struct {
	path string
	off  int
}

// next returns the race reports written since the last call.
func (r *raceReader) next() (lib []string, other []string) {
	b, err := os.ReadFile(r.path)
	if err != nil {
		return nil, nil // the runtime creates the file with its first report
	}
	s := string(b[r.off:])
	r.off = len(b)
	for _, rep := range strings.Split(s, "==================") {
		if !strings.Contains(rep, "DATA RACE") {
			continue
		}
		if strings.Contains(rep, libPkg+".") {
			lib = append(lib, strings.TrimSpace(rep))
		} else {
			other = append(other, strings.TrimSpace(rep))
		}
	}
	return
}

var frameRe = regexp.MustCompile(`go-oryx-lib/https/net/context\.[^\s]*\(\)\s+(\S+)`)

func raceSummary(rep string) string {
	var fr []string
	seen := map[string]bool{}
	for _, m := range frameRe.FindAllStringSubmatch(rep, -1) {
		s := strings.SplitN(m[0], "()", 2)[0] + " " + filepath.Base(m[1])
		s = s[strings.Index(s, "context."):]
		if !seen[s] {
			seen[s] = true
			fr = append(fr, s)
		}
	}
	return strings.Join(fr, ", ")
}

// parPhase runs the par steps of the case concurrently on the world built by the prefix.
func parPhase(w *world, tc *caseT) *mismatch {
	par := tc.Steps[tc.Seq:]
	final := &tc.Steps[len(tc.Steps)-1]
	n0 := len(w.ctxs)
	for i := range par {
		s := &par[i]
		if !s.Par || (s.Op != "cancel" && s.Op != "cancelctx" && s.Op != "value") {
			rp.Bug("par step %d is %q (par=%v)", i, s.Op, s.Par)
		}
		if (s.Op == "cancel" && s.C >= n0) || (s.Op != "cancel" && s.P >= n0) {
			rp.Bug("par step %d refers to a context made in the par phase", i)
		}
	}
	before := make([]string, n0)
	for x := 0; x < n0; x++ {
		before[x] = errName(w.ctxs[x].Err())
	}
	var bad atomic.Value // *mismatch
	report := func(m *mismatch) { bad.CompareAndSwap(nil, m) }
	stop := make(chan struct{})
	start := make(chan struct{})
	var obsWg, wg sync.WaitGroup
	for g := 0; g < 2; g++ {
		obsWg.Add(1)
		go func(g int) {
			defer obsWg.Done()
			first := make([]string, n0)
			<-start
			for round := 0; ; round++ {
				for x := 1; x < n0; x++ {
					c := w.ctxs[x]
					closed := c.Done() != nil && isClosed(c.Done())
					e := errName(c.Err())
					want := final.Obs[x].Err
					switch {
					case closed && e == "nil":
						report(&mismatch{what: fmt.Sprintf("concurrent phase: context %d: Done is closed and Err() is still nil", x)})
					case e != "nil" && e != want:
						report(&mismatch{what: fmt.Sprintf("concurrent phase: context %d: Err() = %s, the specification says %s after every schedule (it was %s before the phase)", x, e, want, before[x])})
					case first[x] != "" && e != first[x]:
						report(&mismatch{what: fmt.Sprintf("concurrent phase: context %d: Err() changed from %s to %s", x, first[x], e), dev: "X02/overwrite-err"})
					}
					if e != "nil" {
						first[x] = e
					}
					// CtxTreePre17!LockedPropagation (bound for the hand written tree only; the documented contract does not
					// promise it): Err takes the lock cancel holds while it cancels the children, so whoever has seen the
					// Err of a canceler finds every canceler registered below it cancelled
					if pre17Build && w.cancels[x] != nil {
						o := w.parent[x]
						for o != 0 && w.cancels[o] == nil {
							o = w.parent[o]
						}
						if o != 0 && w.ctxs[o].Err() != nil && c.Err() == nil {
							report(&mismatch{what: fmt.Sprintf("concurrent phase: context %d: Err() is nil after Err() of context %d, where it is registered, was seen non-nil: cancel released the lock before it cancelled the children", x, o),
								dev: "X02/unlock-early"})
						}
					}
					c.Deadline()
					for _, k := range tc.Keys {
						c.Value(ctxKey(k))
					}
				}
				select {
				case <-stop:
					return
				default:
					runtime.Gosched() // many phases run side by side: do not keep a P from the goroutines under observation
				}
			}
		}(g)
	}
	made := make([]xctx.Context, len(par))
	madeF := make([]xctx.CancelFunc, len(par))
	panics := make(chan interface{}, len(par))
	for i := range par {
		wg.Add(1)
		go func(i int) {
			defer wg.Done()
			defer func() {
				if e := recover(); e != nil {
					panics <- e
				}
			}()
			s := &par[i]
			<-start
			switch s.Op {
			case "cancel":
				w.cancels[s.C]()
			case "cancelctx":
				made[i], madeF[i] = xctx.WithCancel(w.ctxs[s.P])
			case "value":
				made[i] = xctx.WithValue(w.ctxs[s.P], ctxKey(s.K), s.V)
			}
		}(i)
	}
	close(start)
	finished := waitFor(&wg)
	close(stop)
	finished = finished && waitFor(&obsWg)
	select {
	case e := <-panics:
		panic(e) // a panic in the library (close of closed channel ...) is the case's verdict
	default:
	}
	if !finished {
		return &mismatch{what: fmt.Sprintf("concurrent phase (%s): a call into the package did not return within %v (deadlock)", parDesc(par), stallBound)}
	}
	// the contexts made in the phase take the ids the specification gave them
	for i := range par {
		s := &par[i]
		if s.Op == "cancel" {
			continue
		}
		if s.X != len(w.ctxs) {
			rp.Bug("par step creates %d, %d exist", s.X, len(w.ctxs))
		}
		if made[i] == nil {
			return &mismatch{what: describe(s) + " returned a nil context"}
		}
		w.add(made[i], madeF[i], s.P, -1)
	}
	if m, _ := bad.Load().(*mismatch); m != nil {
		return m
	}
	m, l := w.compare(len(tc.Steps)-1, final)
	if l != nil {
		rp.Bug("late after the concurrent phase although no deadline is pending: %s", l.msg)
	}
	if m != nil {
		m.what = "after the concurrent phase (" + parDesc(par) + "): " + m.what
		return m
	}
	// the registries of the hand written tree: only compared above when the variant exposes them
	return nil
}

const stallBound = 60 * time.Second

// hung counts the concurrent phases of this process that did not come back; as with closeWait, once the batch is
// failing the remaining cases are only screened (the check reproduces a failure in a fresh process, full bound).
var hung atomic.Int32

func stallWait() time.Duration {
	switch n := hung.Load(); {
	case n >= 6:
		return 200 * time.Millisecond
	case n >= 2:
		return 3 * time.Second
	}
	return stallBound
}

// waitFor waits for the goroutines of the phase; false: they are stuck (and leak: the verdict is out anyway).
func waitFor(wg *sync.WaitGroup) bool {
	ch := make(chan struct{})
	go func() { wg.Wait(); close(ch) }()
	select {
	case <-ch:
		return true
	case <-time.After(stallWait()):
		hung.Add(1)
		return false
	}
}

func parDesc(par []stepT) string {
	var s []string
	for i := range par {
		s = append(s, describe(&par[i]))
	}
	return strings.Join(s, " || ")
}

func runConc(i int, raw json.RawMessage, rounds int) rp.Result {
	tc := parse(raw)
	if tc.Seq >= len(tc.Steps) {
		rp.Bug("case %d has no par steps", i)
	}
	for r := 0; r < rounds; r++ {
		res := withRetries(tc, i, func(w *world) (*mismatch, *errLate) {
			if m, l := w.prefix(tc.Seq); m != nil || l != nil {
				return m, l
			}
			return parPhase(w, tc), nil
		})
		if !res.OK {
			res.What = fmt.Sprintf("round %d: %s", r, res.What)
			return res
		}
	}
	return rp.Result{OK: true, Nontriv: true}
}

func raceResult(i int, lib []string) rp.Result {
	return rp.Result{I: i, OK: false, Nontriv: true, Deviation: "X02/data-race", Observed: lib[0], Info: map[string]interface{}{"class": "X02/data-race"},
		What: fmt.Sprintf("race detector: %d DATA RACE report(s) involving the context package during the concurrent phase; first: %s", len(lib), raceSummary(lib[0]))}
}

func concBatch(stage string) rp.Batch {
	return func(c *rp.Ctx, cases []json.RawMessage) []rp.Result {
		needVariant(stage)
		if !raceEnabled {
			rp.Bug("the X02 %s stage must be built with -race", stage)
		}
		// the race detector's reports are read from its log file; without one, run again with one
		if raceLogPath() == "" {
			if os.Getenv("X02_REEXEC") != "" {
				rp.Bug("GORACE log_path not honoured")
			}
			tmp, err := os.MkdirTemp("", "x02race")
			if err != nil {
				rp.Bug("%v", err)
			}
			env := append(os.Environ(), "GORACE=halt_on_error=0 exitcode=0 log_path="+filepath.Join(tmp, "race"), "X02_REEXEC="+tmp)
			exe, err := os.Executable()
			if err != nil {
				rp.Bug("%v", err)
			}
			err = syscall.Exec(exe, os.Args, env)
			rp.Bug("re-exec: %v", err)
		}
		if tmp := os.Getenv("X02_REEXEC"); tmp != "" {
			defer os.RemoveAll(tmp)
		}
		rounds := 3
		if c.Tier == "thorough" {
			rounds = 6
		}
		if v, err := strconv.Atoi(c.Extra["rounds"]); err == nil && v > 0 {
			rounds = v
		}
		rr := &raceReader{path: raceLogPath() + "." + strconv.Itoa(os.Getpid())}
		res := make([]rp.Result, len(cases))
		// first pass: the cases on a pool (prefixes with ticks sleep); the race log tells whether anything raced
		var wg sync.WaitGroup
		next := make(chan int)
		for g := 0; g < 12; g++ {
			wg.Add(1)
			go func() {
				defer wg.Done()
				for i := range next {
					i := i
					res[i] = guarded(i, func() rp.Result { return runConc(i, cases[i], rounds) })
				}
			}()
		}
		for i := range cases {
			next <- i
		}
		close(next)
		wg.Wait()
		lib, other := rr.next()
		if len(other) > 0 {
			rp.Bug("race report that does not involve the context package (harness bug?):\n%s", other[0])
		}
		if len(lib) == 0 {
			return res
		}
		// second pass, only after a report: one case at a time, so that a report belongs to the case that ran
		attributed := false
		for i, raw := range cases {
			i, raw := i, raw
			r := guarded(i, func() rp.Result { return runConc(i, raw, rounds) })
			lib2, other := rr.next()
			if len(other) > 0 {
				rp.Bug("race report that does not involve the context package (harness bug?):\n%s", other[0])
			}
			if !r.OK && res[i].OK {
				res[i] = r
			}
			if len(lib2) > 0 {
				attributed = true
				if res[i].OK {
					res[i] = raceResult(i, lib2)
				}
			}
		}
		if !attributed {
			// the detector reports each racing pair of source locations once per process: name the case set instead
			k := 0
			for k < len(res)-1 && !res[k].OK {
				k++
			}
			if res[k].OK {
				res[k] = raceResult(k, lib)
				res[k].What += " (reported while the cases of the batch ran side by side; this case stands for the batch)"
			}
		}
		return res
	}
}
