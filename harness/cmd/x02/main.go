package main

// X02 (extra check): the context package fork https/net/context against spec/context/CtxTree.tla.
//
// A case is one behaviour of the specification: constructor / cancel / tick steps, each with the specification's
// Done / Err / Deadline / Value (and, for the hand written tree, registry size) of EVERY context after the step.
// The replayer builds the same tree with the real package and compares after every step.
//
// Two variants of the package are replayed, by two binaries built from the same source:
//   live  : what every Go >= 1.7 toolchain compiles (go17.go: thin wrappers around the standard library's context)
//   pre17 : the hand written cancellation tree of pre_go17.go. Its constraint "+build !go1.7" cannot be satisfied
//           with the installed toolchain by any flag, so checks/x02.py builds it through `go build -overlay`:
//           the file is compiled as it is in the working tree with nothing but the constraint line removed
//           (and go17.go switched off). Stage names pre17_*; the binary refuses to run a stage on the wrong variant.
//
// Time. The live implementation reads the real clock, so abstract instants are embedded into real time, per case:
//   instants <= 1 (the start)            -> one hour ago       (deadline already passed at creation)
//   instants reached by a tick (2..last) -> start + (t-1)*delta (fires later: real timer, delta = 40 ms, 400 ms, 4 s)
//   instants never reached               -> in one hour        (not yet)
// A tick sleeps until its instant and then BLOCKS on the Done channels the specification says are closed (bound:
// closeBound). After every step the clock is read: had the next instant already been reached, the attempt says
// nothing (the tree may be ahead of the specification) and the case is replayed with the next larger delta; a case
// that cannot be replayed in time with delta = 4 s is a harness failure (exit 3), never a verdict. So "still open"
// is only ever judged while the clock proves that no pending deadline has been reached.

import (
	"encoding/json"
	"fmt"
	"os"
	"reflect"
	"runtime/debug"
	"strings"
	"sync"
	"sync/atomic"
	"time"

	xctx "github.com/ossrs/go-oryx-lib/https/net/context"
	"verifharness/rp"
)

type obsT struct {
	Done string            `json:"done"`
	Err  string            `json:"err"`
	Dl   int               `json:"dl"`
	Vals map[string]string `json:"vals"`
	Kids int               `json:"kids"`
}

type stepT struct {
	Op  string `json:"op"`
	P   int    `json:"p"`
	X   int    `json:"x"`
	C   int    `json:"c"`
	D   int    `json:"d"`
	K   string `json:"k"`
	V   string `json:"v"`
	Now int    `json:"now"`
	Par bool   `json:"par"`
	Obs []obsT `json:"obs"`
}

type caseT struct {
	Fam   string   `json:"fam"`
	Seq   int      `json:"seq"`
	Keys  []string `json:"keys"`
	Steps []stepT  `json:"steps"`
}

type ctxKey string // the key type of the cases; a plain string with the same text is a different key

const closeBound = 30 * time.Second

// stalls counts the cases of this process in which a Done channel stayed open for the whole bound. After three of
// them the batch is failing already (the check runs cases of every failure class again in a fresh process, where the
// full bound applies), so the remaining cases are only screened: two seconds, after ten stalls 50 ms each.
var stalls atomic.Int32

func closeWait() time.Duration {
	switch n := stalls.Load(); {
	case n >= 10:
		return 50 * time.Millisecond
	case n >= 3:
		return 2 * time.Second
	}
	return closeBound
}

const settleBound = 5 * time.Second

var deltas = []time.Duration{40 * time.Millisecond, 400 * time.Millisecond, 4 * time.Second}

// errLate: the attempt ran behind its real-time schedule and proves nothing.
type errLate struct {
	msg    string
	waited bool // the attempt was in time until it had to wait for a Done the specification says is closed
}

// mismatch: the package disagrees with the specification.
type mismatch struct {
	what string
	dev  string
	obs  interface{}
	firm bool // cannot be an effect of the replayer running behind its schedule (values, nil-ness, "never closed")
}

type world struct {
	tc       *caseT
	t0       time.Time
	delta    time.Duration
	finalNow int
	now      int
	ctxs     []xctx.Context
	cancels  []xctx.CancelFunc
	parent   []int
	req      []int       // abstract deadline asked for (-1: none)
	real     []time.Time // the real deadline handed to the package (WithDeadline) ...
	lo, hi   []time.Time // ... or the bracket of time.Now()+timeout (WithTimeout)
	done     []<-chan struct{}
	lastErr  []error
	root     xctx.Context
}

func (w *world) instant(t int) time.Time {
	switch {
	case t <= 1:
		return w.t0.Add(-time.Hour + time.Duration(t)*time.Minute)
	case t <= w.finalNow:
		return w.t0.Add(time.Duration(t-1) * w.delta)
	default:
		return w.t0.Add(time.Hour + time.Duration(t)*time.Minute)
	}
}

func newWorld(tc *caseT, delta time.Duration, root xctx.Context) *world {
	w := &world{tc: tc, delta: delta, now: 1, root: root}
	w.finalNow = 1
	if n := len(tc.Steps); n > 0 {
		w.finalNow = tc.Steps[n-1].Now
	}
	w.t0 = time.Now()
	w.add(root, nil, 0, -1)
	return w
}

func (w *world) add(c xctx.Context, f xctx.CancelFunc, parent, req int) {
	w.ctxs = append(w.ctxs, c)
	w.cancels = append(w.cancels, f)
	w.parent = append(w.parent, parent)
	w.req = append(w.req, req)
	w.real = append(w.real, time.Time{})
	w.lo = append(w.lo, time.Time{})
	w.hi = append(w.hi, time.Time{})
	w.done = append(w.done, nil)
	w.lastErr = append(w.lastErr, nil)
}

func (w *world) release() {
	for _, f := range w.cancels {
		if f != nil {
			f()
		}
	}
}

// late reports whether the instant after the current one has been reached on the real clock.
func (w *world) late() *errLate {
	if w.now >= w.finalNow {
		return nil // every pending deadline is an hour away
	}
	if lim := w.instant(w.now + 1); !time.Now().Before(lim.Add(-time.Millisecond)) {
		return &errLate{msg: fmt.Sprintf("step at instant %d finished after instant %d was due (delta %v)", w.now, w.now+1, w.delta)}
	}
	return nil
}

func (w *world) construct(s *stepT) (*mismatch, *errLate) {
	if s.X != len(w.ctxs) {
		rp.Bug("step creates context %d but %d exist", s.X, len(w.ctxs))
	}
	if s.P < 0 || s.P >= len(w.ctxs) {
		rp.Bug("parent %d does not exist", s.P)
	}
	p := w.ctxs[s.P]
	switch s.Op {
	case "cancelctx":
		c, f := xctx.WithCancel(p)
		w.add(c, f, s.P, -1)
	case "deadline":
		d := w.instant(s.D)
		c, f := xctx.WithDeadline(p, d)
		w.add(c, f, s.P, s.D)
		w.real[s.X] = d
	case "timeout":
		d := w.instant(s.D)
		before := time.Now()
		to := d.Sub(before)
		c, f := xctx.WithTimeout(p, to)
		after := time.Now()
		w.add(c, f, s.P, s.D)
		w.lo[s.X], w.hi[s.X] = before.Add(to), after.Add(to)
		if after.Sub(before) > w.delta/4 {
			return nil, &errLate{msg: fmt.Sprintf("WithTimeout took %v (delta %v): its deadline is not ordered against the others", after.Sub(before), w.delta)}
		}
	case "value":
		w.add(xctx.WithValue(p, ctxKey(s.K), s.V), nil, s.P, -1)
	default:
		rp.Bug("unknown constructor %q", s.Op)
	}
	if w.ctxs[s.X] == nil || (s.Op != "value" && w.cancels[s.X] == nil) {
		return &mismatch{what: describe(s) + " returned a nil context or a nil CancelFunc", firm: true}, nil
	}
	return nil, nil
}

func errName(e error) string {
	switch e {
	case nil:
		return "nil"
	case xctx.Canceled:
		return "Canceled"
	case xctx.DeadlineExceeded:
		return "DeadlineExceeded"
	}
	return fmt.Sprintf("other(%T: %v)", e, e)
}

func isClosed(ch <-chan struct{}) bool {
	select {
	case <-ch:
		return true
	default:
		return false
	}
}

// acceptable: may the package report `got` as the deadline of x when the specification says instant dl?
// The real instant of every context on the path to the root that asked for instant dl is acceptable (a tie between
// a WithTimeout deadline and a WithDeadline one is broken by microseconds the specification does not know).
func (w *world) acceptable(x, dl int, got time.Time) bool {
	for a := x; a != 0; a = w.parent[a] {
		if w.req[a] != dl {
			continue
		}
		if !w.real[a].IsZero() && got.Equal(w.real[a]) {
			return true
		}
		if !w.lo[a].IsZero() && !got.Before(w.lo[a]) && !got.After(w.hi[a]) {
			return true
		}
	}
	return false
}

// compare checks every context against the specification's observation after a step, in three phases:
//
//	A  look, without blocking, at every Done channel; read the clock: if the next instant is already due the
//	   attempt proves nothing (errLate, the scheduler's fault); else what was seen was seen in time;
//	B  block on the channels the specification says are closed and that are still open (bound closeBound);
//	C  Err / Deadline / Value / registry of every context; read the clock again: if the next instant became due
//	   while phase B waited, the closure came too late to tell it from the next deadline (errLate with waited).
func (w *world) compare(si int, s *stepT) (*mismatch, *errLate) {
	if len(s.Obs) != len(w.ctxs) {
		rp.Bug("step %d: %d observations for %d contexts", si, len(s.Obs), len(w.ctxs))
	}
	at := func(x int) string { return fmt.Sprintf("step %d (%s): context %d", si+1, describe(s), x) }
	// ---- A
	var pending []int
	var early *mismatch
	for x, o := range s.Obs {
		c := w.ctxs[x]
		ch := c.Done()
		if ch2 := c.Done(); ch != ch2 {
			return &mismatch{what: at(x) + ": successive calls of Done return different channels", firm: true}, nil
		}
		if w.done[x] != nil && ch != w.done[x] {
			return &mismatch{what: at(x) + ": Done returns another channel than after the previous step", firm: true}, nil
		}
		w.done[x] = ch
		switch o.Done {
		case "never":
			if ch != nil {
				return &mismatch{what: at(x) + ": Done() is not nil although no context on the path to Background can be cancelled", dev: "X02/background-cancelable", firm: true}, nil
			}
		case "open":
			if ch == nil {
				return &mismatch{what: at(x) + ": Done() is nil for a context that can be cancelled", firm: true}, nil
			}
			if isClosed(ch) && early == nil {
				early = &mismatch{what: fmt.Sprintf("%s: Done is closed (Err %s), the specification says open", at(x), errName(c.Err()))}
				if o.Dl >= 0 && w.now < o.Dl {
					early.what += fmt.Sprintf("; its deadline, instant %d, is not reached at instant %d", o.Dl, w.now)
				}
			}
		case "closed":
			if ch == nil {
				return &mismatch{what: at(x) + ": Done() is nil, the specification says closed", firm: true}, nil
			}
			if !isClosed(ch) {
				pending = append(pending, x)
			}
		default:
			rp.Bug("done class %q", o.Done)
		}
	}
	if l := w.late(); l != nil {
		return nil, l
	}
	if early != nil {
		return early, nil
	}
	// ---- B
	t0 := time.Now()
	cw := closeWait()
	bound := time.After(cw)
	for _, x := range pending {
		select {
		case <-w.ctxs[x].Done():
		case <-bound:
			stalls.Add(1)
			m := &mismatch{what: fmt.Sprintf("%s: Done still open %v after the step, the specification says closed (Err %s)", at(x), cw, s.Obs[x].Err), firm: true}
			if s.Op == "cancel" && w.parent[x] != s.C && x != s.C && w.parent[x] != 0 && isClosed(w.ctxs[w.parent[x]].Done()) {
				m.dev = "X02/no-grandchildren"
			}
			return m, nil
		}
	}
	waited := time.Since(t0)
	// ---- C
	m, lr := w.compareRest(s, at)
	if lr != nil {
		return nil, lr
	}
	if m != nil && m.firm {
		return m, nil
	}
	if l := w.late(); l != nil {
		if len(pending) > 0 {
			l.waited = true
			l.msg = fmt.Sprintf("%s: Done was still open after the step (the specification says closed) and was closed only %v later, when the next deadline (instant %d) was due",
				at(pending[0]), waited.Round(time.Millisecond), w.now+1)
			if m != nil {
				l.msg += "; then " + m.what
			}
		}
		return nil, l
	}
	return m, nil
}

func (w *world) compareRest(s *stepT, at func(int) string) (*mismatch, *errLate) {
	for x, o := range s.Obs {
		c := w.ctxs[x]
		e := c.Err()
		if got := errName(e); got != o.Err {
			m := &mismatch{what: fmt.Sprintf("%s: Err() = %s, the specification says %s", at(x), got, o.Err)}
			if w.lastErr[x] != nil && e != w.lastErr[x] {
				m.what += fmt.Sprintf(" (it was %s after the previous step: Err changed after Done was closed)", errName(w.lastErr[x]))
				m.dev = "X02/overwrite-err"
			}
			return m, nil
		}
		w.lastErr[x] = e
		dl, ok := c.Deadline()
		if dl2, ok2 := c.Deadline(); ok != ok2 || !dl.Equal(dl2) {
			return &mismatch{what: at(x) + ": successive calls of Deadline return different results", firm: true}, nil
		}
		switch {
		case o.Dl < 0 && ok:
			return &mismatch{what: fmt.Sprintf("%s: Deadline() = %v, the specification says none", at(x), dl.Sub(w.t0)), firm: true}, nil
		case o.Dl >= 0 && !ok:
			return &mismatch{what: fmt.Sprintf("%s: no deadline, the specification says instant %d", at(x), o.Dl), firm: true}, nil
		case o.Dl >= 0 && !w.acceptable(x, o.Dl, dl):
			m := &mismatch{what: fmt.Sprintf("%s: Deadline() = start%+v, the specification says instant %d = start%+v (the minimum over the path to Background)",
				at(x), dl.Sub(w.t0), o.Dl, w.instant(o.Dl).Sub(w.t0)), firm: true} // the WithTimeout bracket was checked at construction
			if dl.After(w.instant(o.Dl)) && w.req[x] > o.Dl {
				m.dev = "X02/own-deadline"
			}
			return m, nil
		}
		for _, k := range w.tc.Keys {
			want, has := o.Vals[k]
			if !has {
				rp.Bug("no expectation for key %s", k)
			}
			got := c.Value(ctxKey(k))
			if want == "none" {
				if got != nil {
					return &mismatch{what: fmt.Sprintf("%s: Value(%s) = %v, the specification says nil", at(x), k, got), firm: true}, nil
				}
			} else if gs, isS := got.(string); !isS || gs != want {
				return &mismatch{what: fmt.Sprintf("%s: Value(%s) = %v, the specification says %s (the nearest binding on the path to Background)", at(x), k, got, want), firm: true}, nil
			}
			if got := c.Value(k); got != nil { // same text, other type: not the key
				return &mismatch{what: fmt.Sprintf("%s: Value(string %q) = %v although only ctxKey(%q) was bound", at(x), k, got, k), firm: true}, nil
			}
		}
		if n, ok := kidsOf(c); ok && n != o.Kids {
			// a timer goroutine closes Done first and leaves the parent's registry afterwards (CtxTreePre17: Rm follows
			// IterDone): the registry is judged once it has settled - but before the next deadline changes it again
			limit, cut := settleBound, false
			if w.now < w.finalNow {
				if u := time.Until(w.instant(w.now+1)) - 2*time.Millisecond; u < limit {
					limit, cut = u, true
				}
			}
			for t0 := time.Now(); n != o.Kids && time.Since(t0) < limit; n, _ = kidsOf(c) {
				time.Sleep(time.Millisecond)
			}
			if n != o.Kids {
				what := fmt.Sprintf("%s: %d children registered with the context (cancelCtx.children), the specification says %d", at(x), n, o.Kids)
				if cut {
					return nil, &errLate{waited: true, msg: what + fmt.Sprintf(" (not settled %v after the step, when the next deadline was due)", limit.Round(time.Millisecond))}
				}
				return &mismatch{what: what + fmt.Sprintf(" (%v after the step)", settleBound), dev: "X02/registry-leak", firm: true}, nil
			}
		}
	}
	return nil, nil
}

func describe(s *stepT) string {
	switch s.Op {
	case "cancelctx":
		return fmt.Sprintf("%d := WithCancel(%d)", s.X, s.P)
	case "deadline":
		return fmt.Sprintf("%d := WithDeadline(%d, instant %d)", s.X, s.P, s.D)
	case "timeout":
		return fmt.Sprintf("%d := WithTimeout(%d, until instant %d)", s.X, s.P, s.D)
	case "value":
		return fmt.Sprintf("%d := WithValue(%d, %s, %s)", s.X, s.P, s.K, s.V)
	case "cancel":
		return fmt.Sprintf("cancel(%d)", s.C)
	case "tick":
		return fmt.Sprintf("tick to instant %d", s.Now)
	}
	return s.Op
}

// step executes one step sequentially and compares.
func (w *world) step(si int, s *stepT) (*mismatch, *errLate) {
	switch s.Op {
	case "cancel":
		if s.C <= 0 || s.C >= len(w.cancels) || w.cancels[s.C] == nil {
			rp.Bug("cancel(%d): no CancelFunc", s.C)
		}
		w.cancels[s.C]()
	case "tick":
		if s.Now != w.now+1 || s.Now > w.finalNow {
			rp.Bug("tick to %d at %d", s.Now, w.now)
		}
		w.now = s.Now
		if d := time.Until(w.instant(w.now)); d > 0 {
			time.Sleep(d + time.Millisecond)
		}
		for !time.Now().After(w.instant(w.now)) {
			time.Sleep(time.Millisecond)
		}
	default:
		if m, l := w.construct(s); m != nil || l != nil {
			return m, l
		}
	}
	if s.Now != w.now {
		rp.Bug("step %d: instant %d, replayer at %d", si, s.Now, w.now)
	}
	return w.compare(si, s)
}

func (w *world) prefix(upto int) (*mismatch, *errLate) {
	for si := 0; si < upto; si++ {
		if m, l := w.step(si, &w.tc.Steps[si]); m != nil || l != nil {
			return m, l
		}
	}
	return nil, nil
}

func rootFor(i int) (xctx.Context, string) {
	if i%4 == 3 {
		return xctx.TODO(), "TODO"
	}
	return xctx.Background(), "Background"
}

func parse(raw json.RawMessage) *caseT {
	var tc caseT
	if err := json.Unmarshal(raw, &tc); err != nil {
		rp.Bug("case: %v", err)
	}
	if len(tc.Steps) == 0 || len(tc.Keys) == 0 {
		rp.Bug("empty case")
	}
	return &tc
}

// classOf groups failures for the check's reproduction step (a few cases per class are run again in isolation).
func classOf(m *mismatch) string {
	if m.dev != "" {
		return m.dev
	}
	for _, k := range []string{"Value(", "Deadline", "registered", "Err()", "did not return", "Done"} {
		if strings.Contains(m.what, k) {
			return strings.Trim(k, "(")
		}
	}
	return "other"
}

func fail(m *mismatch, root string, attempt int) rp.Result {
	what := m.what
	if root != "Background" {
		what += " [context 0 = " + root + "()]"
	}
	return rp.Result{OK: false, What: what, Deviation: m.dev, Observed: m.obs, Nontriv: true,
		Info: map[string]interface{}{"attempt": attempt, "class": classOf(m)}}
}

// withRetries runs attempts with growing delta until one is in time. An attempt that fell behind only because a Done
// channel that should have been closed stayed open until the next deadline is repeated with the largest delta at once;
// if it happens again there, the closure did not come within seconds of the step: that is the verdict.
func withRetries(tc *caseT, i int, attempt func(w *world) (*mismatch, *errLate)) rp.Result {
	root, rootName := rootFor(i)
	var last *errLate
	for a := 0; a < len(deltas); {
		w := newWorld(tc, deltas[a], root)
		m, l := attempt(w)
		w.release()
		switch {
		case l != nil && l.waited && a == len(deltas)-1:
			return fail(&mismatch{what: l.msg + fmt.Sprintf(" (instants %v apart)", deltas[a])}, rootName, a)
		case l != nil && l.waited:
			last, a = l, len(deltas)-1
		case l != nil:
			last, a = l, a+1
		case m != nil:
			return fail(m, rootName, a)
		default:
			return rp.Result{OK: true, Nontriv: true, Info: map[string]int{"attempt": a}}
		}
	}
	rp.Bug("case %d could not be replayed on schedule even with delta %v: %s", i, deltas[len(deltas)-1], last.msg)
	panic("unreachable")
}

func runSeq(i int, raw json.RawMessage) rp.Result {
	tc := parse(raw)
	return withRetries(tc, i, func(w *world) (*mismatch, *errLate) { return w.prefix(len(tc.Steps)) })
}

// caseTimeout bounds one case: a call into the package that never returns is a verdict ("stall"), as in rp.safe.
var caseTimeout atomic.Int64

func init() { caseTimeout.Store(int64(150 * time.Second)) }

// guarded runs one case under a watchdog, turns a panic that escapes the library into a verdict and a harness bug into
// exit 3 (as rp does for registry replayers; batch replayers have to do it themselves).
func guarded(i int, f func() rp.Result) rp.Result {
	done := make(chan rp.Result, 1)
	go func() {
		var r rp.Result
		defer func() {
			if e := recover(); e != nil {
				if _, bug := e.(rp.HarnessBug); bug {
					fmt.Fprintf(os.Stderr, "replay: harness bug on case %d: %v\n%s\n", i, e, debug.Stack())
					os.Exit(3)
				}
				r = rp.Result{OK: false, What: fmt.Sprintf("panic: %v", e), Observed: string(debug.Stack()), Nontriv: true,
					Info: map[string]interface{}{"class": "panic"}}
			}
			r.I = i
			done <- r
		}()
		r = f()
	}()
	to := time.Duration(caseTimeout.Load())
	select {
	case r := <-done:
		return r
	case <-time.After(to):
		caseTimeout.Store(int64(10 * time.Second)) // the verdict is a stall already
		return rp.Result{I: i, OK: false, Nontriv: true, Info: map[string]interface{}{"class": "stall"},
			What: fmt.Sprintf("stall: the case did not finish within %v (a call into the package never returned)", to)}
	}
}

// variant tells which implementation is compiled in.
func variant() string {
	c, f := xctx.WithCancel(xctx.Background())
	defer f()
	t := reflect.TypeOf(c)
	for t.Kind() == reflect.Ptr {
		t = t.Elem()
	}
	if strings.Contains(t.PkgPath(), "go-oryx-lib") {
		return "pre17"
	}
	if t.PkgPath() == "context" {
		return "live"
	}
	rp.Bug("context type %v of unknown origin", t)
	return ""
}

func needVariant(stage string) {
	want := "live"
	if strings.HasPrefix(stage, "pre17_") {
		want = "pre17"
	}
	if got := variant(); got != want || pre17Build != (want == "pre17") {
		rp.Bug("stage %s needs the %s build of the package, this binary has %s (checks/x02.py builds the pre17 variant through -overlay)", stage, want, got)
	}
}

// seqBatch replays cases on a pool: cases with ticks mostly sleep.
func seqBatch(stage string) rp.Batch {
	return func(c *rp.Ctx, cases []json.RawMessage) []rp.Result {
		needVariant(stage)
		res := make([]rp.Result, len(cases))
		var wg sync.WaitGroup
		next := make(chan int)
		for g := 0; g < 24; g++ {
			wg.Add(1)
			go func() {
				defer wg.Done()
				for i := range next {
					i := i
					res[i] = guarded(i, func() rp.Result { return runSeq(i, cases[i]) })
				}
			}()
		}
		for i := range cases {
			next <- i
		}
		close(next)
		wg.Wait()
		return res
	}
}

var registry = map[string]rp.Replayer{}
var batchRegistry = map[string]rp.Batch{}

func main() { rp.Main(registry, batchRegistry) }

func init() {
	batchRegistry["seq"] = seqBatch("seq")
	batchRegistry["pre17_seq"] = seqBatch("pre17_seq")
	batchRegistry["conc"] = concBatch("conc")
	batchRegistry["pre17_conc"] = concBatch("pre17_conc")
}
