//go:build x02pre17

package main

import xctx "github.com/ossrs/go-oryx-lib/https/net/context"

const pre17Build = true

// kidsOf reads len(cancelCtx.children) through the export file that checks/x02.py adds to the package by overlay
// (pre17_export.go.txt): the binding of RegistryClean / RegistryComplete of CtxTree.tla.
func kidsOf(c xctx.Context) (int, bool) { return xctx.VerifX02Kids(c) }
