package main

// C18: connection ids are unique and log lines whole under concurrency (spec/logger/LoggerCid.tla).
//
// Direction code -> model: a case is a run descriptor (goroutines, calls per goroutine, mix of
// the specification's actions); the Go scheduler, not the model, chooses the interleaving. Every
// run records what the library did - contexts made, aliases, logging calls, and every Write call
// that reached the writer installed with logger.Switch - and writes it as an ndjson trace that
// Trace_LoggerCid.tla accepts or rejects. The binary is built with -race: a race report that
// involves the logger package is a violation of the property's data-race clause.
//
// Operands (the property's "message"): a logging call gets them written out in the call ("lit") or as
// a window back[:n] of a slice the CALLER owns, whose backing array has cap >= n cells filled by the
// application - a goroutine's own slice, used again call after call with different contexts, or one
// made by the main goroutine that all goroutines pass read-only at the same time. After every call the
// caller looks at its slice up to the capacity: the specification's call only reads its operands
// (LoggerCid!OperandsUntouched), and every line must end in what the operands, as the application
// filled them, format to.
//
// Messages: the unit judged is the Write call, not the text line. A call's rendered message may be
// empty, hold interior newlines (written in the format or produced by an operand), end in one or more
// newlines, hold CR, or be longer than 4 KiB / 64 KiB (LoggerCid!AllShapes): it is still ONE write of
// label, time, prefix and the whole message. Application objects expose every class of Cid(): 0,
// negative, 32- and 64-bit extremes; the line must print that integer, the same through both call forms.
//
// The id a context carries is not readable through the public API (the key is unexported), so it
// is read the way an application sees it: after the concurrent phase every context made in the run
// is logged once through T and once through Tf and the id is parsed from the '[pid][cid]' prefix.

import (
	"bytes"
	"context"
	"encoding/json"
	"errors"
	"fmt"
	"hash/fnv"
	"math"
	"math/rand"
	"os"
	"path/filepath"
	"regexp"
	"runtime/debug"
	"sort"
	"strconv"
	"strings"
	"sync"
	"syscall"

	"github.com/ossrs/go-oryx-lib/logger"
	"verifharness/rp"
)

var registry = map[string]rp.Replayer{}
var batchRegistry = map[string]rp.Batch{}

func main() { rp.Main(registry, batchRegistry) }

type mixT struct {
	Name  string `json:"name"`
	New   int    `json:"new"`
	Alias int    `json:"alias"`
	Log   int    `json:"log"`
}

// how the operands of logging calls are passed, in percent
type opndT struct {
	Name   string `json:"name"`
	Lit    int    `json:"lit"`    // written out in the call
	Own    int    `json:"own"`    // window of the goroutine's own slice, used again and again
	Shared int    `json:"shared"` // window of a slice all goroutines pass (read-only) at the same time
}

type runDesc struct {
	N      int      `json:"n"`
	Ops    int      `json:"ops"`
	Mix    mixT     `json:"mix"`
	Shared int      `json:"shared"`
	Closer bool     `json:"closer"`
	Opnd   opndT    `json:"opnd"`
	Caps   []int    `json:"caps"`   // capacities of the caller-owned operand slices (a window is 1..cap cells)
	Shapes []string `json:"shapes"` // shapes of rendered messages (LoggerCid!AllShapes)
	ObjIds []string `json:"objids"` // classes of Cid() values of application objects
}

// names as in the specification
type ctxName struct {
	G int `json:"g"`
	I int `json:"i"`
}

type argT struct {
	K string `json:"k"` // nil | bg | obj | ctx
	G int    `json:"g"`
	I int    `json:"i"`
}

// how the operands of a call were passed (LoggerCid!Lit / Win)
type srcT struct {
	K string  `json:"k"` // lit | win
	B ctxName `json:"b"`
	N int     `json:"n"`
}

// a caller-owned operand slice: back[:n] is what a call is given, cap(back) == len(back)
type opBuf struct {
	name   ctxName
	back   []interface{} // the storage the library sees
	want   []interface{} // the application's own record of what it put there (never handed out)
	shrTok string        // shared slices: the token in cell 0
}

// abstract cells (LoggerCid!buf): j+1 = what the application put into cell j, 0 = something else
func (b *opBuf) cells() (abs []int, same bool) {
	abs = make([]int, len(b.want))
	same = true
	for j := range b.want {
		v := b.back[j]
		switch {
		case v == b.want[j]:
			abs[j] = j + 1
		default:
			same = false
			for k := range b.want {
				if v == b.want[k] {
					abs[j] = k + 1
					break
				}
			}
		}
	}
	return
}

type observed struct {
	Label string `json:"label"`
	Pid   int    `json:"pid"`
	Cid   int    `json:"cid"`
	Whole bool   `json:"whole"`
	why   string
	idx   int
	cidS  string // the cid as printed ("" = no '[cid]' part)
}

// call form and message shape (LoggerCid: m)
type formT struct {
	Form  string `json:"form"` // ln | f
	Shape string `json:"shape"`
}

// one recorded call of a goroutine
type event struct {
	kind           string // new | alias | log
	c              ctxName
	asrc           argT
	ctx            context.Context
	k              int
	level          string
	fn             string
	arg            argT
	token          string
	text           string
	w              []observed
	src            srcT
	buf            *opBuf
	shr            string // a call without a token of its own: the token of the shared slice it printed
	after          []int  // the caller's slice after the call, abstract cells
	cap            int    // kind "buf"
	m              formT
	objID          int  // arg kind obj: the object's Cid() (arg.I is its trace code)
	pos            bool // a call of the main goroutine while it is alone: the writes posFrom..posTo-1 are its writes
	posFrom, posTo int
}

type ctxEntry struct {
	name ctxName
	ctx  context.Context
}

// the application's own connection object
type appConn struct{ id int }

func (a *appConn) Cid() int { return a.id }

type otherKey string

// recWriter records every Write call as one event, under its own mutex.
type recWriter struct {
	mu     sync.Mutex
	writes [][]byte
}

func (w *recWriter) count() int {
	w.mu.Lock()
	defer w.mu.Unlock()
	return len(w.writes)
}

func (w *recWriter) Write(p []byte) (int, error) {
	cp := append([]byte(nil), p...)
	w.mu.Lock()
	w.writes = append(w.writes, cp)
	w.mu.Unlock()
	return len(p), nil
}

// the same, for runs where the writer is also an io.Closer (the library then never touches os.Stdout)
type recWriteCloser struct {
	recWriter
	closed int
}

func (w *recWriteCloser) Close() error { w.closed++; return nil }

var (
	headRe   = regexp.MustCompile(`^\[(info|trace|warn|error)\] (\d{4}/\d\d/\d\d) (\d\d:\d\d:\d\d\.\d{6}) `)
	tokAtRe  = regexp.MustCompile(`^(tok|probe):r\d+:g\d+:[ki]\d+(:[ab])?;`)
	shrAtRe  = regexp.MustCompile(`^shr:r\d+:b\d+;`)
	pidCidRe = regexp.MustCompile(`^\[(\d+)\]\[(-?\d+)\] {1,2}$`)
	pidRe    = regexp.MustCompile(`^\[(\d+)\] {1,2}$`)
	// before an empty message the separating space is not demanded
	pidCidRe0 = regexp.MustCompile(`^\[(\d+)\]\[(-?\d+)\] {0,2}$`)
	pidRe0    = regexp.MustCompile(`^\[(\d+)\] {0,2}$`)
)

// Cid() values outside 1..2^31-1 (TLC integers are 32-bit, 0 means "no cid part" in the trace): code -(10+k)
var wideIDs = []int{0, -1, -7, -100, -65536, math.MinInt32, math.MinInt64, math.MaxInt64, math.MaxInt32 + 1, 1 << 40}

// idCode: what stands for a cid in the trace (and in observed.Cid); ok = representable
func idCode(id int) (int, bool) {
	if id >= 1 && id <= math.MaxInt32 {
		return id, true
	}
	for k, v := range wideIDs {
		if v == id {
			return -(10 + k), true
		}
	}
	return -1, false
}

// cidCode: the code of a cid as printed; -1 = not the decimal form of any id the run uses
func cidCode(s string) int {
	n, err := strconv.ParseInt(s, 10, 64)
	if err != nil || strconv.FormatInt(n, 10) != s {
		return -1
	}
	c, _ := idCode(int(n))
	return c
}

// scanTokens: the tokens in p, left to right (calls' and probes' tokens, tokens of shared slices, or both).
// Writes may be longer than 64 KiB: the candidates are found by their literal heads.
func scanTokens(p []byte, calls, shr bool) (toks []string) {
	for off := 0; off < len(p); {
		j := bytes.IndexByte(p[off:], ':')
		if j < 0 {
			break
		}
		j += off
		off = j + 1
		for _, h := range []struct {
			lit string
			re  *regexp.Regexp
			on  bool
		}{{"tok", tokAtRe, calls}, {"probe", tokAtRe, calls}, {"shr", shrAtRe, shr}} {
			if !h.on || j < len(h.lit) || string(p[j-len(h.lit):j]) != h.lit {
				continue
			}
			end := j + 60
			if end > len(p) {
				end = len(p)
			}
			if m := h.re.Find(p[j-len(h.lit) : end]); m != nil {
				toks = append(toks, string(m))
				off = j - len(h.lit) + len(m)
			}
			break
		}
	}
	return
}

// parseWrite tokenises the bytes of one Write call that carried (part of) the message `text`. The unit is
// the Write: whole = it is label, date, time, prefix and the entire message, ending in a newline. Newlines at
// the end of the message are not compared (the standard logger adds one only when there is none).
func parseWrite(p []byte, text string) (o observed) {
	o.Label, o.Pid, o.Cid = "?", -1, -1
	if len(p) == 0 || p[len(p)-1] != '\n' {
		o.why = "does not end in a newline"
		return
	}
	head := p
	if len(head) > 64 {
		head = head[:64]
	}
	m := headRe.FindSubmatch(head)
	if m == nil {
		o.why = "does not start with '<level label><date> <time> '"
		return
	}
	o.Label = string(m[1])
	rest := string(bytes.TrimRight(p[len(m[0]):], "\n"))
	norm := strings.TrimRight(text, "\n")
	if !strings.HasSuffix(rest, norm) {
		o.why = "message differs from the one passed"
		if tt := scanTokens([]byte(text), true, true); len(tt) > 0 && strings.Index(rest, tt[0]) >= 0 {
			rest = rest[:strings.Index(rest, tt[0])]
		} else {
			return
		}
	} else {
		rest = rest[:len(rest)-len(norm)]
	}
	cr, pr := pidCidRe, pidRe
	if norm == "" {
		cr, pr = pidCidRe0, pidRe0
	}
	if m := cr.FindStringSubmatch(rest); m != nil {
		o.Pid, _ = strconv.Atoi(m[1])
		o.cidS = m[2]
		o.Cid = cidCode(m[2])
	} else if m := pr.FindStringSubmatch(rest); m != nil {
		o.Pid, _ = strconv.Atoi(m[1])
		o.Cid = 0
	} else if rest == "" {
		o.Pid, o.Cid = 0, 0
	}
	o.Whole = o.why == "" && strings.Join(scanTokens(p, true, true), "") == strings.Join(scanTokens([]byte(text), true, true), "")
	if o.why == "" && !o.Whole {
		o.why = "carries the message of more than one call"
	}
	return
}

var printable = []byte("abcdefghijklmnopqrstuvwxyzABCDEFGHIJKLMNOPQRSTUVWXYZ0123456789 []%(){}:;,.-_/\\\"'<>=+*&#@!?|~^$\t")

func randText(rng *rand.Rand) string {
	n := rng.Intn(40)
	b := make([]byte, n)
	for i := range b {
		b[i] = printable[rng.Intn(len(printable))]
	}
	s := string(b)
	// must not look like one of our tokens
	return strings.Replace(strings.Replace(strings.Replace(s, "tok:", "tok_", -1), "probe:", "probe_", -1), "shr:", "shr_", -1)
}

var logFns = []string{"I", "If", "T", "Tf", "W", "Wf", "E", "Ef",
	"Info.Println", "Info.Printf", "Trace.Println", "Trace.Printf", "Warn.Println", "Warn.Printf", "Error.Println", "Error.Printf"}

func levelOf(fn string) string {
	switch fn[0] {
	case 'I':
		return "info"
	case 'T':
		return "trace"
	case 'W':
		return "warn"
	}
	return "error"
}

// verbs for n operands of a printf-style call
func verbs(n int) string {
	if n == 0 {
		return ""
	}
	return "%v" + strings.Repeat("|%v", n-1)
}

var filler = strings.Repeat("0123456789abcdefghijklmnopqrstuvwxyzABCDEFGHIJKLMNOPQRSTUVWXYZ-+", 1200) // 76800 bytes

// shapeText: a message text of the given shape (LoggerCid!AllShapes) that starts with the call's token
func shapeText(rng *rand.Rand, shape, token string) string {
	a, b, c := token+randText(rng), "b"+randText(rng), "c"+randText(rng)
	switch shape {
	case "empty":
		return ""
	case "trail1":
		return a + "\n"
	case "trail2":
		return a + "\n\n"
	case "inner1":
		return a + "\n" + b
	case "inner2":
		return a + "\n" + b + "\n\t" + c
	case "inner1trail1":
		return a + "\n" + b + "\n"
	case "cr":
		return a + "\r" + b + "\r"
	case "crlf":
		return a + "\r\n" + b + "\r\n"
	case "long4k":
		return a + filler[:4200+rng.Intn(800)] + b
	case "long64k":
		return a + filler[:66000+rng.Intn(4000)] + b
	case "long64kinner":
		return a + filler[:40000+rng.Intn(3000)] + "\n" + filler[:30000] + b
	}
	rp.Bug("unknown message shape %q", shape)
	return ""
}

// doLog performs one logging call with operands written out in the call; returns the message text
// the write must hold after the prefix. A shape other than "plain" arrives in one of three ways: as one
// operand, written in the format (printf) / as several operands (println), or partly rendered by an
// error operand.
func doLog(rng *rand.Rand, fn string, ctx logger.Context, token string, shape string) string {
	printf := strings.HasSuffix(fn, "f")
	var format string
	var a []interface{}
	var text string
	if shape != "plain" {
		t := shapeText(rng, shape, token)
		how := rng.Intn(3)
		switch {
		case t == "":
			a = []interface{}{}
		case how == 0:
			format, a = "%s", []interface{}{t}
		case how == 1 && printf:
			format, a = strings.Replace(t, "%", "%%", -1), []interface{}{}
		case how == 1:
			// cut behind every newline: the pieces are operands of their own
			for _, piece := range strings.SplitAfter(t, "\n") {
				if piece != "" {
					a = append(a, piece)
				}
			}
		default:
			h := len(token) + (len(t)-len(token))/2 // never inside the token: println puts a space between operands
			format, a = "%v%s", []interface{}{errors.New(t[:h]), t[h:]}
		}
		if printf {
			text = fmt.Sprintf(format, a...)
		} else {
			text = strings.TrimSuffix(fmt.Sprintln(a...), "\n")
		}
		callLog(fn, ctx, format, a)
		return text
	}
	extra := randText(rng)
	num := rng.Intn(1 << 20)
	if printf {
		switch rng.Intn(3) {
		case 0:
			format, a = "%s", []interface{}{token + extra}
		case 1:
			format, a = "%v|%d|%s", []interface{}{token, num, extra}
		default:
			format, a = "%s <%5d> %q", []interface{}{token, num, extra}
		}
		text = fmt.Sprintf(format, a...)
	} else {
		switch rng.Intn(3) {
		case 0:
			a = []interface{}{token + extra}
		case 1:
			a = []interface{}{token, extra, num}
		default:
			a = []interface{}{token, num, extra, 1.5, true}
		}
		text = strings.TrimSuffix(fmt.Sprintln(a...), "\n")
	}
	callLog(fn, ctx, format, a)
	return text
}

// callLog hands the operand slice a to the library as it is (a... does not copy).
func callLog(fn string, ctx logger.Context, format string, a []interface{}) {
	switch fn {
	case "I":
		logger.I(ctx, a...)
	case "If":
		logger.If(ctx, format, a...)
	case "T":
		logger.T(ctx, a...)
	case "Tf":
		logger.Tf(ctx, format, a...)
	case "W":
		logger.W(ctx, a...)
	case "Wf":
		logger.Wf(ctx, format, a...)
	case "E":
		logger.E(ctx, a...)
	case "Ef":
		logger.Ef(ctx, format, a...)
	case "Info.Println":
		logger.Info.Println(ctx, a...)
	case "Info.Printf":
		logger.Info.Printf(ctx, format, a...)
	case "Trace.Println":
		logger.Trace.Println(ctx, a...)
	case "Trace.Printf":
		logger.Trace.Printf(ctx, format, a...)
	case "Warn.Println":
		logger.Warn.Println(ctx, a...)
	case "Warn.Printf":
		logger.Warn.Printf(ctx, format, a...)
	case "Error.Println":
		logger.Error.Println(ctx, a...)
	case "Error.Printf":
		logger.Error.Printf(ctx, format, a...)
	default:
		rp.Bug("unknown logging function %q", fn)
	}
}

type worker struct {
	g      int
	run    int
	d      runDesc
	rng    *rand.Rand
	own    []ctxEntry
	shared []ctxEntry
	evs    []event
	nlog   int
	panic  string
	bufs   []*opBuf // own operand slices, one per capacity of the run, made when first used
	nbuf   int
	shbufs []*opBuf   // made by the main goroutine, passed read-only by everybody
	rec    *recWriter // the main goroutine only: the writer, to see what a call of its own wrote while it is alone
	probs  []bufProblem
}

// what a goroutine saw when it looked at its operand slice after a call
type bufProblem struct {
	class string
	what  string
}

// newBuf: the application makes an operand slice with `capacity` cells, all filled by it with values
// that differ from each other (a window of a larger record: the cells behind the window matter as well).
// Slices that several goroutines pass at the same time hold strings only.
func (w *worker) newBuf(capacity int, shared bool) *opBuf {
	w.nbuf++
	b := &opBuf{name: ctxName{w.g, w.nbuf}, back: make([]interface{}, capacity), want: make([]interface{}, capacity)}
	for j := range b.back {
		var v interface{}
		switch {
		case shared || j%3 == 1:
			v = fmt.Sprintf("c%d.%s", j, randText(w.rng))
		case j%3 == 2:
			v = 1000*j + w.rng.Intn(1000)
		default:
			v = float64(j) + 0.25
		}
		b.back[j], b.want[j] = v, v
	}
	if shared {
		b.shrTok = fmt.Sprintf("shr:r%d:b%d;", w.run, w.nbuf)
		b.back[0], b.want[0] = b.shrTok, b.shrTok
	}
	w.evs = append(w.evs, event{kind: "buf", c: b.name, cap: capacity, buf: b})
	return b
}

func (w *worker) ownBuf() *opBuf {
	if w.bufs == nil {
		w.bufs = make([]*opBuf, len(w.d.Caps))
	}
	k := w.rng.Intn(len(w.d.Caps))
	if w.bufs[k] == nil {
		w.bufs[k] = w.newBuf(w.d.Caps[k], false)
	}
	return w.bufs[k]
}

func (w *worker) pickCtx() (ctxEntry, bool) {
	n := len(w.own) + len(w.shared)
	if n == 0 {
		return ctxEntry{}, false
	}
	// prefer recent own contexts, but reach every one
	if len(w.own) > 0 && w.rng.Intn(3) > 0 {
		k := len(w.own)
		if k > 4 && w.rng.Intn(2) == 0 {
			return w.own[k-1-w.rng.Intn(4)], true
		}
		return w.own[w.rng.Intn(k)], true
	}
	j := w.rng.Intn(n)
	if j < len(w.own) {
		return w.own[j], true
	}
	return w.shared[j-len(w.own)], true
}

// a context.Context that carries no connection id
func (w *worker) bgCtx() context.Context {
	if w.rng.Intn(2) == 0 {
		return context.Background()
	}
	return context.WithValue(context.Background(), otherKey("cid.logger.ossrs.org"), 4242)
}

func (w *worker) parent() context.Context {
	if e, ok := w.pickCtx(); ok && w.rng.Intn(10) < 3 {
		return e.ctx
	}
	return w.bgCtx()
}

func (w *worker) made(kind string, src argT, ctx context.Context) {
	name := ctxName{w.g, len(w.own) + 1}
	w.own = append(w.own, ctxEntry{name, ctx})
	w.evs = append(w.evs, event{kind: kind, c: name, asrc: src, ctx: ctx})
}

func (w *worker) opNew() {
	w.made("new", argT{}, logger.WithContext(w.parent()))
}

func (w *worker) opAlias() {
	r := w.rng.Intn(100)
	if e, ok := w.pickCtx(); ok && r < 60 {
		w.made("alias", argT{"ctx", e.name.G, e.name.I}, logger.AliasContext(w.parent(), e.ctx))
	} else if r < 85 {
		w.made("alias", argT{K: "bg"}, logger.AliasContext(w.parent(), w.bgCtx()))
	} else {
		w.made("alias", argT{K: "nil"}, logger.AliasContext(w.parent(), nil))
	}
}

var objIDs = []int{1, 7, 999, 1000, 1001, 1002, 1010, 1500, 65536, 2147483647}

// a Cid() value of the given class
func (w *worker) objID(class string) int {
	pick := func(v ...int) int { return v[w.rng.Intn(len(v))] }
	switch class {
	case "zero":
		return 0
	case "minus1":
		return -1
	case "negative":
		return pick(-7, -100, -65536)
	case "minint32":
		return math.MinInt32
	case "maxint32":
		return pick(math.MaxInt32, math.MaxInt32+1)
	case "minint64":
		return math.MinInt64
	case "maxint64":
		return pick(math.MaxInt64, 1<<40)
	case "small":
		return pick(1, 7, 999)
	case "librange":
		return pick(1000, 1001, 1002, 1010, 1500)
	case "random":
		return 1 + w.rng.Intn(70000)
	}
	rp.Bug("unknown class of object ids %q", class)
	return 0
}

func (w *worker) objArg(id int) (logger.Context, argT, int) {
	code, ok := idCode(id)
	if !ok {
		rp.Bug("object id %d has no trace code", id)
	}
	return &appConn{id}, argT{K: "obj", I: code}, id
}

func (w *worker) opLog() { w.opLogHow(w.pickSrc()) }

func (w *worker) opLogHow(how string) {
	fn := logFns[w.rng.Intn(len(logFns))]
	var ctx logger.Context
	var arg argT
	id := 0
	r := w.rng.Intn(100)
	e, have := w.pickCtx()
	switch {
	case r < 50 && have:
		ctx, arg = e.ctx, argT{"ctx", e.name.G, e.name.I}
	case r < 70:
		if len(w.d.ObjIds) > 0 {
			id = w.objID(w.d.ObjIds[w.rng.Intn(len(w.d.ObjIds))])
		} else if id = objIDs[w.rng.Intn(len(objIDs))]; w.rng.Intn(2) == 0 {
			id = 1 + w.rng.Intn(3000)
		}
		ctx, arg, id = w.objArg(id)
	case r < 85:
		ctx, arg = w.bgCtx(), argT{K: "bg"}
	default:
		ctx, arg = nil, argT{K: "nil"}
	}
	// a worker's message is plain in two calls out of three; long shapes are rarer than the others; an empty
	// message carries no token: only the main goroutine, while it is alone, logs one
	shape := "plain"
	if how == "lit" && len(w.d.Shapes) > 0 && w.rng.Intn(3) == 0 {
		shape = w.d.Shapes[w.rng.Intn(len(w.d.Shapes))]
		if strings.HasPrefix(shape, "long") && w.rng.Intn(4) > 0 {
			shape = w.d.Shapes[w.rng.Intn(len(w.d.Shapes))]
		}
		if shape == "empty" {
			shape = "plain"
		}
	}
	w.logShaped(fn, ctx, arg, id, how, shape)
}

func (w *worker) pickSrc() string {
	if len(w.d.Caps) == 0 {
		return "lit"
	}
	r := w.rng.Intn(100)
	switch {
	case r < w.d.Opnd.Lit:
		return "lit"
	case r < w.d.Opnd.Lit+w.d.Opnd.Own || len(w.shbufs) == 0:
		return "own"
	}
	return "shared"
}

// one logging call, operands passed as `how` says, message of the given shape (operands written out only)
func (w *worker) logShaped(fn string, ctx logger.Context, arg argT, id int, how string, shape string) {
	n0 := 0
	if w.rec != nil {
		n0 = w.rec.count()
	}
	w.logWith(fn, ctx, arg, how, shape)
	ev := &w.evs[len(w.evs)-1]
	ev.objID = id
	if w.rec != nil { // the main goroutine, alone: what arrived at the writer meanwhile is this call's
		ev.pos, ev.posFrom, ev.posTo = true, n0, w.rec.count()
	}
}

func (w *worker) logWith(fn string, ctx logger.Context, arg argT, how string, shape string) {
	w.nlog++
	token := fmt.Sprintf("tok:r%d:g%d:k%d;", w.run, w.g, w.nlog)
	form := "ln"
	if strings.HasSuffix(fn, "f") {
		form = "f"
	}
	ev := event{kind: "log", k: w.nlog, level: levelOf(fn), fn: fn, arg: arg, token: token, src: srcT{K: "lit"}, after: []int{},
		m: formT{form, "plain"}}
	if how == "lit" {
		ev.m.Shape = shape
		ev.text = doLog(w.rng, fn, ctx, token, shape)
		if shape == "empty" {
			ev.token = ""
		}
		w.evs = append(w.evs, ev)
		return
	}
	var b *opBuf
	if how == "own" {
		// the goroutine's own slice: it writes this call's token into cell 0 and passes a window
		b = w.ownBuf()
		v := token + randText(w.rng)
		b.back[0], b.want[0] = v, v
	} else {
		b = w.shbufs[w.rng.Intn(len(w.shbufs))]
	}
	n := 1 + w.rng.Intn(len(b.want))
	printf := strings.HasSuffix(fn, "f")
	var format string
	if printf {
		format = verbs(n)
		if how == "shared" {
			format = token + " " + format // the format is the call's own: it can carry a token
		}
		ev.text = fmt.Sprintf(format, b.want[:n]...)
	} else {
		ev.text = strings.TrimSuffix(fmt.Sprintln(b.want[:n]...), "\n")
		if how == "shared" {
			ev.token, ev.shr = "", b.shrTok // all operands are the shared ones: no token of its own
		}
	}
	// what the caller finds in its slice (up to the capacity) before and after the call; a slice passed by
	// several goroutines is blamed on this call only if it changed while the call ran
	before, _ := b.cells()
	callLog(fn, ctx, format, b.back[:n])
	after, same := b.cells()
	ev.src, ev.buf, ev.after = srcT{K: "win", B: b.name, N: n}, b, after
	if !same && !sameInts(before, after) {
		class := ""
		if isShiftOf(before, after, n) {
			class = "C18/prefix-inserted-in-place"
		}
		if len(w.probs) < 4 {
			w.probs = append(w.probs, bufProblem{class, fmt.Sprintf(
				"goroutine %d call %d logger.%s(%s ctx, back[:%d]...) with %s operand slice %v (cap %d): the caller's slice is not what it was before the call: cells %v -> %v (j = the application's cell j, 0 = foreign), cell 0 now %.40q",
				w.g, ev.k, fn, arg.K, n, map[string]string{"own": "the goroutine's own", "shared": "the shared read-only"}[how], b.name, len(b.want), before, after, fmt.Sprint(b.back[0]))})
		} else {
			w.probs = append(w.probs, bufProblem{class, ""})
		}
	}
	w.evs = append(w.evs, ev)
}

func sameInts(a, b []int) bool {
	if len(a) != len(b) {
		return false
	}
	for i := range a {
		if a[i] != b[i] {
			return false
		}
	}
	return true
}

// after = the in-place insert applied to `before` for a window of n cells
func isShiftOf(before, after []int, n int) bool {
	if n >= len(after) || after[0] != 0 {
		return false
	}
	for j := 1; j < len(after); j++ {
		if (j <= n && after[j] != before[j-1]) || (j > n && after[j] != before[j]) {
			return false
		}
	}
	return true
}

func (w *worker) body(start <-chan struct{}, wg *sync.WaitGroup) {
	defer wg.Done()
	defer func() {
		if e := recover(); e != nil {
			if _, ok := e.(rp.HarnessBug); ok {
				fmt.Fprintf(os.Stderr, "replay: harness bug: %v\n%s\n", e, debug.Stack())
				os.Exit(3)
			}
			w.panic = fmt.Sprintf("panic in goroutine %d: %v\n%s", w.g, e, debug.Stack())
		}
	}()
	<-start
	for i := 0; i < w.d.Ops; i++ {
		r := w.rng.Intn(100)
		switch {
		case r < w.d.Mix.New:
			w.opNew()
		case r < w.d.Mix.New+w.d.Mix.Alias:
			w.opAlias()
		default:
			w.opLog()
		}
	}
}

// ---------------------------------------------------------------- race reports

func raceLogPath() string {
	for _, f := range strings.Fields(os.Getenv("GORACE")) {
		if strings.HasPrefix(f, "log_path=") {
			return strings.TrimPrefix(f, "log_path=")
		}
	}
	return ""
}

type raceReader struct {
	path string
	off  int
}

// next returns the race reports written since the last call.
func (r *raceReader) next() (lib []string, other []string) {
	b, err := os.ReadFile(r.path)
	if err != nil {
		return nil, nil // the runtime creates the file with its first report
	}
	s := string(b[r.off:])
	r.off = len(b)
	for _, rep := range strings.Split(s, "==================") {
		if !strings.Contains(rep, "DATA RACE") {
			continue
		}
		if strings.Contains(rep, "go-oryx-lib/logger.") {
			lib = append(lib, strings.TrimSpace(rep))
		} else {
			other = append(other, strings.TrimSpace(rep))
		}
	}
	return
}

var frameRe = regexp.MustCompile(`go-oryx-lib/logger\.[^\s]*\(\)\s+(\S+)`)

func raceSummary(rep string) string {
	var fr []string
	seen := map[string]bool{}
	for _, m := range frameRe.FindAllStringSubmatch(rep, -1) {
		s := strings.TrimSuffix(strings.SplitN(m[0], "()", 2)[0], "(") + " " + filepath.Base(m[1])
		s = s[strings.Index(s, "logger."):]
		if !seen[s] {
			seen[s] = true
			fr = append(fr, s)
		}
	}
	return strings.Join(fr, ", ")
}

// ------------------------------------------------------------------- one run

type traceLine map[string]interface{}

func seedOf(seed int, raw json.RawMessage, g int) int64 {
	h := fnv.New64a()
	h.Write(bytes.TrimSpace(raw))
	return int64(h.Sum64()&0x7fffffffffff) ^ (int64(seed) * 1000003) ^ (int64(g) * 7919)
}

func oneRun(c *rp.Ctx, run int, raw json.RawMessage, rr *raceReader, dir string) rp.Result {
	var d runDesc
	if err := json.Unmarshal(raw, &d); err != nil {
		panic(err)
	}
	if d.N < 1 || d.Ops < 1 || d.Mix.New+d.Mix.Alias+d.Mix.Log != 100 {
		rp.Bug("malformed run descriptor %s", raw)
	}
	if len(d.Caps) > 0 && d.Opnd.Lit+d.Opnd.Own+d.Opnd.Shared != 100 {
		rp.Bug("malformed run descriptor (operand mix) %s", raw)
	}
	sort.Ints(d.Caps)
	for _, c := range d.Caps {
		if c < 1 {
			rp.Bug("malformed run descriptor (capacity) %s", raw)
		}
	}
	pid := os.Getpid()
	var problems []string
	classes := map[string]int{} // named deviation ("" = none) -> number of problems
	badAs := func(class, format string, a ...interface{}) {
		classes[class]++
		if classes[class] <= 4 && len(problems) < 10 {
			problems = append(problems, fmt.Sprintf(format, a...))
		}
	}
	bad := func(format string, a ...interface{}) { badAs("", format, a...) }

	// the writer of this run; it may also be an io.Closer
	var rec *recWriter
	var recc *recWriteCloser
	if d.Closer {
		recc = &recWriteCloser{}
		rec = &recc.recWriter
		logger.Switch(recc)
	} else {
		rec = &recWriter{}
		logger.Switch(rec)
	}

	// contexts made before the goroutines start, visible to all of them (goroutine 0)
	mainW := &worker{g: 0, run: run, d: d, rng: rand.New(rand.NewSource(seedOf(c.Seed, raw, 0)))}
	for i := 0; i < d.Shared; i++ {
		mainW.opNew()
	}
	// ... and the operand slices all goroutines will pass read-only, one per capacity. The main goroutine
	// is their first user, alone: a few calls one after the other with the same slice and different
	// contexts, and the same with a slice of its own.
	if d.Opnd.Shared > 0 {
		for _, c := range d.Caps {
			mainW.shbufs = append(mainW.shbufs, mainW.newBuf(c, true))
		}
	}
	// every message shape through both call forms, every class of object id through both call forms and the
	// same object: one call after the other, routed levels
	mainW.rec = rec
	lnFns, fFns := []string{"T", "W", "E", "Trace.Println", "Warn.Println", "Error.Println"}, []string{"Tf", "Wf", "Ef", "Trace.Printf", "Warn.Printf", "Error.Printf"}
	for _, shape := range d.Shapes {
		for _, fns := range [][]string{lnFns, fFns} {
			var ctx logger.Context
			var arg argT
			id := 0
			e, have := mainW.pickCtx()
			switch r := mainW.rng.Intn(4); {
			case r == 0 && have:
				ctx, arg = e.ctx, argT{"ctx", e.name.G, e.name.I}
			case r <= 1:
				ctx, arg, id = mainW.objArg(mainW.objID("random"))
			case r == 2:
				ctx, arg = mainW.bgCtx(), argT{K: "bg"}
			default:
				ctx, arg = nil, argT{K: "nil"}
			}
			mainW.logShaped(fns[mainW.rng.Intn(len(fns))], ctx, arg, id, "lit", shape)
		}
	}
	for _, class := range d.ObjIds {
		ctx, arg, id := mainW.objArg(mainW.objID(class))
		for _, fns := range [][]string{lnFns, fFns} {
			mainW.logShaped(fns[mainW.rng.Intn(len(fns))], ctx, arg, id, "lit", "plain")
		}
	}
	if len(d.Caps) > 0 && d.Opnd.Own+d.Opnd.Shared > 0 {
		for i := 0; i < 4*len(d.Caps); i++ {
			how := "own"
			if len(mainW.shbufs) > 0 && i%2 == 0 {
				how = "shared"
			}
			mainW.opLogHow(how)
		}
	}
	ws := make([]*worker, d.N+1)
	ws[0] = mainW
	start := make(chan struct{})
	var wg sync.WaitGroup
	for g := 1; g <= d.N; g++ {
		ws[g] = &worker{g: g, run: run, d: d, rng: rand.New(rand.NewSource(seedOf(c.Seed, raw, g))), shared: mainW.own, shbufs: mainW.shbufs}
		wg.Add(1)
		go ws[g].body(start, &wg)
	}
	mainW.rec = nil // from here on it is not alone
	close(start)
	wg.Wait()

	// read the id of every context made in the run: once through Println, once through Printf
	ids := map[ctxName]int{}
	probeText := map[string]string{}
	for _, w := range ws {
		for _, e := range w.own {
			ta := fmt.Sprintf("probe:r%d:g%d:i%d:a;", run, e.name.G, e.name.I)
			tb := fmt.Sprintf("probe:r%d:g%d:i%d:b;", run, e.name.G, e.name.I)
			probeText[ta], probeText[tb] = ta, tb
			logger.T(e.ctx, ta)
			logger.Tf(e.ctx, "%s", tb)
		}
	}
	if recc != nil {
		logger.Close()
	} else {
		logger.Switch(&recWriter{}) // nothing of a later run reaches this run's writer
	}
	writes := rec.writes

	// tokenise the writes
	type ref struct{ g, idx int }
	byTok := map[string]ref{}
	var byPos []ref             // calls of the main goroutine while it was alone, in order: they know which writes are theirs
	byShr := map[string][]ref{} // token of a shared slice -> the calls that have no token of their own, in program order
	nNew, nAlias, nLog, nRouted, nBuf, nWin := 0, 0, 0, 0, 0, 0
	for g, w := range ws {
		if w.panic != "" {
			bad("%s", w.panic)
		}
		for _, pr := range w.probs {
			if pr.what == "" {
				classes[pr.class]++
			} else {
				badAs(pr.class, "%s", pr.what)
			}
		}
		for i := range w.evs {
			switch w.evs[i].kind {
			case "buf":
				nBuf++
			case "log":
				if w.evs[i].token != "" {
					byTok[w.evs[i].token] = ref{g, i}
				} else if w.evs[i].shr != "" {
					byShr[w.evs[i].shr] = append(byShr[w.evs[i].shr], ref{g, i})
				} else if !w.evs[i].pos {
					rp.Bug("a call without a token that was not made by the main goroutine alone")
				}
				if w.evs[i].pos {
					byPos = append(byPos, ref{g, i})
				}
				if w.evs[i].src.K == "win" {
					nWin++
				}
				nLog++
				if w.evs[i].level != "info" {
					nRouted++
				}
			case "new":
				nNew++
			default:
				nAlias++
			}
		}
	}
	probeObs := map[string][]observed{}
	firstRef := make([]*ref, len(writes)) // the call a write is ordered by in the trace
	orphan := make([]bool, len(writes))
	var tokenless []int // writes that carry no token of a call
	for n, p := range writes {
		toks := scanTokens(p, true, false)
		known := 0
		for _, t := range toks {
			if r, ok := byTok[t]; ok {
				ev := &ws[r.g].evs[r.idx]
				o := parseWrite(p, ev.text)
				o.idx = n
				ev.w = append(ev.w, o)
				if firstRef[n] == nil {
					rr := r
					firstRef[n] = &rr
				}
				known++
			} else if text, ok := probeText[t]; ok {
				o := parseWrite(p, text)
				o.idx = n
				probeObs[t] = append(probeObs[t], o)
				known++
			}
		}
		if known == 0 {
			tokenless = append(tokenless, n)
		}
	}
	for _, w := range ws {
		for _, e := range w.own {
			var cid [2]int
			for j, sfx := range []string{"a", "b"} {
				t := fmt.Sprintf("probe:r%d:g%d:i%d:%s;", run, e.name.G, e.name.I, sfx)
				obs := probeObs[t]
				fn := []string{"T", "Tf"}[j]
				if len(obs) != 1 {
					bad("%s(ctx) with context %v made by the library: %d writes at the writer, want 1", fn, e.name, len(obs))
				} else if o := obs[0]; !o.Whole {
					bad("%s(ctx) with context %v: write #%d is not one whole line (%s): %q", fn, e.name, o.idx, o.why, clip(writes[o.idx]))
				} else if o.Pid != pid || o.Cid <= 0 {
					bad("%s(ctx) with context %v made by the library: prefix is not '[%d][cid]': %q", fn, e.name, pid, clip(writes[o.idx]))
				} else {
					cid[j] = o.Cid
				}
			}
			if cid[0] != 0 && cid[1] != 0 && cid[0] != cid[1] {
				bad("context %v prints as cid %d through T and as cid %d through Tf", e.name, cid[0], cid[1])
			}
			ids[e.name] = cid[0]
			if cid[0] == 0 {
				ids[e.name] = cid[1]
			}
		}
	}

	// writes without a call's token: lines of println-style calls whose operands were all taken from a shared
	// slice. A write is given to a call that has none yet and was made with that slice: first one whose line
	// (label, prefix, message) it is exactly, then one with the same label and message, then any.
	wantPrefix := func(ev *event) (int, int, bool) {
		switch ev.arg.K {
		case "nil":
			return pid, 0, true
		case "obj":
			return pid, ev.arg.I, true
		case "ctx":
			return pid, ids[ctxName{ev.arg.G, ev.arg.I}], true
		}
		return 0, 0, false
	}
	for _, n := range tokenless {
		p := writes[n]
		// made while the main goroutine was alone: the call that was running (an empty message has no token,
		// nor has a piece of a message that was not written whole)
		if k := sort.Search(len(byPos), func(k int) bool { return ws[byPos[k].g].evs[byPos[k].idx].posTo > n }); k < len(byPos) {
			r := byPos[k]
			if ev := &ws[r.g].evs[r.idx]; ev.posFrom <= n {
				o := parseWrite(p, ev.text)
				o.idx = n
				ev.w = append(ev.w, o)
				firstRef[n] = &r
				continue
			}
		}
		var cands []ref
		for _, t := range scanTokens(p, false, true) {
			if cands = byShr[t]; cands != nil {
				break
			}
		}
		best, rank := -1, 0
		for k, r := range cands {
			ev := &ws[r.g].evs[r.idx]
			if len(ev.w) > 0 {
				continue
			}
			o := parseWrite(p, ev.text)
			rk := 1
			if o.Whole && o.Label == ev.level {
				rk = 2
				if wp, wc, judged := wantPrefix(ev); (judged && o.Pid == wp && o.Cid == wc) || (!judged && o.Pid == 0 && o.Cid == 0) {
					rk = 3
				}
			}
			if rk > rank {
				best, rank = k, rk
			}
			if rk == 3 {
				break
			}
		}
		if best < 0 {
			orphan[n] = true
			bad("write #%d at the writer belongs to no logging call (not a whole line of one call): %q", n, clip(p))
			continue
		}
		r := cands[best]
		ev := &ws[r.g].evs[r.idx]
		o := parseWrite(p, ev.text)
		o.idx = n
		ev.w = append(ev.w, o)
		firstRef[n] = &r
	}

	// every logging call against what the property says about its line
	for _, w := range ws {
		for i := range w.evs {
			ev := &w.evs[i]
			if ev.kind != "log" {
				continue
			}
			call := fmt.Sprintf("goroutine %d call %d logger.%s(%s ctx)", w.g, ev.k, ev.fn, ev.arg.K)
			if ev.m.Shape != "plain" {
				call += fmt.Sprintf(" with a message of shape %q (%d bytes)", ev.m.Shape, len(ev.text))
			}
			if ev.src.K == "win" {
				call = fmt.Sprintf("goroutine %d call %d logger.%s(%s ctx, back[:%d]...) with operand slice %v (cap %d)", w.g, ev.k, ev.fn, ev.arg.K, ev.src.N, ev.src.B, len(ev.buf.want))
			}
			if ev.level == "info" && len(ev.w) == 0 {
				continue // Switch does not route Info to the writer
			}
			if len(ev.w) != 1 {
				bad("%s: %d writes at the writer carry its message, want exactly 1", call, len(ev.w))
				continue
			}
			o := ev.w[0]
			line := clip(writes[o.idx])
			if !o.Whole {
				bad("%s: write #%d is not its one whole line (%s): %q", call, o.idx, o.why, line)
				continue
			}
			if o.Label != ev.level {
				bad("%s: level label is [%s], want [%s]: %q", call, o.Label, ev.level, line)
			}
			switch ev.arg.K {
			case "nil":
				if o.Pid != pid || o.Cid != 0 {
					bad("%s: prefix is not '[%d]': %q", call, pid, line)
				}
			case "obj":
				if o.Pid == pid && o.Cid == 0 {
					// what the specification names ObjCid = FALSE
					badAs("C18/obj-cid-dropped", "%s: prefix is '[%d]' as for a nil context, want '[%d][%d]' (the object's Cid()): %q", call, pid, pid, ev.objID, line)
				} else if o.Pid == pid && ev.objID < 0 && o.cidS == strconv.FormatUint(uint64(ev.objID), 10) {
					// what the specification names SignedCid = FALSE
					badAs("C18/obj-cid-unsigned", "%s: prefix is '[%d][%s]', the object's Cid() %d printed as an unsigned number, want '[%d][%d]': %q", call, pid, o.cidS, ev.objID, pid, ev.objID, line)
				} else if o.Pid != pid || o.Cid != ev.arg.I {
					bad("%s: prefix is not '[%d][%d]' (the object's Cid()): %q", call, pid, ev.objID, line)
				}
			case "ctx":
				want := ids[ctxName{ev.arg.G, ev.arg.I}]
				if want != 0 && (o.Pid != pid || o.Cid != want) {
					bad("%s: prefix is not '[%d][%d]' (the id context %v carries): %q", call, pid, want, ctxName{ev.arg.G, ev.arg.I}, line)
				}
			}
		}
	}

	// the trace: goroutine 0 first; then in the order of the writes at the writer, every goroutine in program order
	var tr []traceLine
	tr = append(tr, traceLine{"e": "reset", "run": run, "pid": pid, "n": d.N})
	pos := make([]int, len(ws))
	emit := func(g, upto int) {
		w := ws[g]
		for ; pos[g] <= upto; pos[g]++ {
			ev := &w.evs[pos[g]]
			switch ev.kind {
			case "new":
				tr = append(tr, traceLine{"e": "new", "g": g, "c": ev.c, "id": ids[ev.c]})
			case "alias":
				tr = append(tr, traceLine{"e": "alias", "g": g, "c": ev.c, "src": ev.asrc, "id": ids[ev.c]})
			case "buf":
				tr = append(tr, traceLine{"e": "buf", "g": g, "b": ev.c, "cap": ev.cap})
			default:
				obs := ev.w
				if obs == nil {
					obs = []observed{}
				}
				tr = append(tr, traceLine{"e": "log", "g": g, "k": ev.k, "level": ev.level, "arg": ev.arg, "w": obs, "fn": ev.fn,
					"src": ev.src, "after": ev.after, "m": ev.m})
			}
		}
	}
	emit(0, len(ws[0].evs)-1)
	for n := range writes {
		if orphan[n] {
			tr = append(tr, traceLine{"e": "write", "idx": n, "raw": clip(writes[n])})
		} else if r := firstRef[n]; r != nil {
			emit(r.g, r.idx)
		}
	}
	for g := range ws {
		emit(g, len(ws[g].evs)-1)
	}
	tracePath := filepath.Join(dir, fmt.Sprintf("trace_%d.ndjson", run))
	var buf bytes.Buffer
	enc := json.NewEncoder(&buf)
	enc.SetEscapeHTML(false)
	for _, l := range tr {
		if err := enc.Encode(l); err != nil {
			rp.Bug("trace encoding: %v", err)
		}
	}
	if err := os.WriteFile(tracePath, buf.Bytes(), 0o644); err != nil {
		rp.Bug("trace file: %v", err)
	}

	res := rp.Result{I: run, OK: true, Nontriv: true}
	info := map[string]interface{}{"trace": tracePath, "events": len(tr), "new": nNew, "alias": nAlias, "log": nLog,
		"routed": nRouted, "writes": len(writes), "closer": recc != nil, "bufs": nBuf, "win": nWin}
	res.Info = info
	lib, other := rr.next()
	if len(other) > 0 {
		rp.Bug("race report that does not involve the logger package (harness bug?):\n%s", other[0])
	}
	if len(lib) > 0 {
		info["race_reports"] = len(lib)
		res.OK = false
		res.Deviation = "C18/data-race"
		res.What = fmt.Sprintf("race detector: %d DATA RACE report(s) involving the logger package with %d goroutines (%s); first: %s",
			len(lib), d.N, d.Mix.Name, raceSummary(lib[0]))
		rep := lib[0]
		if len(rep) > 3000 {
			rep = rep[:3000]
		}
		res.Observed = rep
	}
	if len(problems) > 0 {
		if res.OK && len(classes) == 1 {
			for k := range classes {
				res.Deviation = k // every problem of the run is this one named deviation
			}
		} else {
			res.Deviation = ""
		}
		res.OK = false
		if res.What != "" {
			res.What += "; "
		}
		n := 0
		for k, v := range classes {
			n += v
			if k != "" {
				info["n_"+k] = v
			}
		}
		res.What += fmt.Sprintf("%d problem(s): ", n) + strings.Join(problems, "; ")
	}
	return res
}

func clip(p []byte) string {
	if len(p) > 160 {
		return string(p[:160]) + "..."
	}
	return string(p)
}

func init() {
	batchRegistry["logger"] = func(c *rp.Ctx, cases []json.RawMessage) []rp.Result {
		if !raceEnabled {
			rp.Bug("the C18 replayer must be built with -race")
		}
		// the race detector's reports are read from its log file; without one, run again with one
		if raceLogPath() == "" {
			if os.Getenv("C18_REEXEC") != "" {
				rp.Bug("GORACE log_path not honoured")
			}
			tmp, err := os.MkdirTemp("", "c18race")
			if err != nil {
				rp.Bug("%v", err)
			}
			env := append(os.Environ(), "GORACE=halt_on_error=0 exitcode=0 log_path="+filepath.Join(tmp, "race"), "C18_REEXEC="+tmp)
			exe, err := os.Executable()
			if err != nil {
				rp.Bug("%v", err)
			}
			err = syscall.Exec(exe, os.Args, env)
			rp.Bug("re-exec: %v", err)
		}
		if tmp := os.Getenv("C18_REEXEC"); tmp != "" {
			defer os.RemoveAll(tmp)
		}
		dir := c.Dir
		if dir == "" {
			tmp, err := os.MkdirTemp("", "c18trace")
			if err != nil {
				rp.Bug("%v", err)
			}
			defer os.RemoveAll(tmp)
			dir = tmp
		}
		rr := &raceReader{path: raceLogPath() + "." + strconv.Itoa(os.Getpid())}
		res := make([]rp.Result, len(cases))
		for i, raw := range cases {
			res[i] = oneRun(c, i, raw, rr, dir)
			res[i].I = i
		}
		return res
	}
}
