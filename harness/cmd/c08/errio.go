package main

import (
	"bytes"
	"encoding/json"
	"errors"
	"fmt"
	"io"
	"math/rand"
	"strings"

	oe "github.com/ossrs/go-oryx-lib/errors"
	"github.com/ossrs/go-oryx-lib/flv"
	"github.com/ossrs/go-oryx-lib/rtmp"
	"verifharness/ld"
	"verifharness/rp"
	"verifharness/rtmpx"
	"verifharness/transport"
)

// C08: constructor nestings of spec/errio/ErrChain.tla against the errors package, and
// sessions / files of spec/errio/Gen_FramedIo.tla with EVERY cut offset and every read / write
// call index against rtmp.Protocol, the handshake and the flv muxer / demuxer (FramedIo.tla).

var registry = map[string]rp.Replayer{}
var batchRegistry = map[string]rp.Batch{}

func main() { rp.Main(registry, batchRegistry) }

// ---------------------------------------------------------------------- errors

type chainCase struct {
	Root   string            `json:"root"`
	Layers []json.RawMessage `json:"layers"`
	Nil    bool              `json:"nil"`
	Text   []string          `json:"text"`
}

func init() {
	registry["errchain"] = func(c *rp.Ctx, i int, raw json.RawMessage) rp.Result {
		var cs chainCase
		if err := json.Unmarshal(raw, &cs); err != nil {
			panic(err)
		}
		var root error
		rootText := ""
		switch cs.Root {
		case "nil":
		case "sentinel":
			root, rootText = &transport.ErrInjected{What: "root", Inner: io.ErrClosedPipe}, "injected fault: root"
		case "new":
			root, rootText = oe.New("root-new"), "root-new"
		case "errorf":
			root, rootText = oe.Errorf("root-%d", 7), "root-7"
		default:
			rp.Bug("unknown root %q", cs.Root)
		}
		err := root
		for _, lr := range cs.Layers {
			var l []string
			if e := json.Unmarshal(lr, &l); e != nil {
				panic(e)
			}
			switch l[0] {
			case "stack":
				err = oe.WithStack(err)
			case "msg":
				err = oe.WithMessage(err, l[1])
			case "wrap":
				err = oe.Wrap(err, l[1])
			case "wrapf":
				err = oe.Wrapf(err, "%s", l[1])
			default:
				rp.Bug("unknown layer %q", l[0])
			}
		}
		if cs.Nil {
			if err != nil {
				return rp.Fail(i, "wrapping nil through %d layers yields %v, must stay nil", len(cs.Layers), err)
			}
			if oe.Cause(nil) != nil {
				return rp.Fail(i, "Cause(nil) is not nil")
			}
			return rp.Result{OK: true}
		}
		if err == nil {
			return rp.Fail(i, "wrapping a non-nil error yields nil")
		}
		if got := oe.Cause(err); got != root {
			return rp.Fail(i, "Cause through %d layers is %T %v, not the root value", len(cs.Layers), got, got)
		}
		want := strings.Join(append(append([]string{}, cs.Text...), rootText), ": ")
		if err.Error() != want {
			return rp.Fail(i, "message chain %q, want %q", err.Error(), want)
		}
		if s := fmt.Sprintf("%+v|%v|%s|%q", err, err, err, err); !strings.Contains(s, rootText) {
			return rp.Fail(i, "formatted error lost the root text")
		}
		return rp.Result{OK: true}
	}
}

// ---------------------------------------------------------------------- framed streams

type framedCase struct {
	Kind  string            `json:"kind"`
	Items []json.RawMessage `json:"items"`
	Sizes []int             `json:"sizes"`
}

type rtmpItem struct {
	Type int   `json:"type"`
	Len  int   `json:"len"`
	Ts   int64 `json:"ts"`
	Scs  int64 `json:"scs"`
}

type flvItem struct {
	Type int   `json:"type"`
	N    int   `json:"n"`
	Ts   int64 `json:"ts"`
}

// a framed stream as the library wrote it: the bytes and the end offset of every item
type framed struct {
	kind string
	wire []byte
	ends []int
	// write replays the writer against w, returning after how many items it stopped and the error
	write func(w io.Writer) (int, error)
	// read consumes items from r until an error; returns how many complete items it returned and the error;
	// bad describes a returned item that is not the one written (truncated, duplicated, fabricated)
	read func(r io.Reader) (n int, err error, bad string)
}

func eofClass(err error) bool {
	c := oe.Cause(err)
	return c == io.EOF || c == io.ErrUnexpectedEOF
}

func complete(ends []int, n int) int {
	k := 0
	for _, e := range ends {
		if e <= n {
			k++
		}
	}
	return k
}

func buildRtmp(cs framedCase, seed int) *framed {
	var msgs []rtmpx.Msg
	for k, raw := range cs.Items {
		var it rtmpItem
		if err := json.Unmarshal(raw, &it); err != nil {
			panic(err)
		}
		msgs = append(msgs, rtmpx.Msg{ID: k + 1, Type: it.Type, Sid: 1, Ts: it.Ts, Len: it.Len, Scs: it.Scs})
	}
	f := &framed{kind: "rtmp"}
	f.write = func(w io.Writer) (int, error) {
		p := rtmp.NewProtocol(struct {
			io.Reader
			io.Writer
		}{bytes.NewReader(nil), w})
		for k, m := range msgs {
			if err := p.WriteMessage(m.Build(seed)); err != nil {
				return k, err
			}
		}
		return len(msgs), nil
	}
	f.read = func(r io.Reader) (int, error, string) {
		p := rtmp.NewProtocol(struct {
			io.Reader
			io.Writer
		}{r, io.Discard})
		for k := 0; ; k++ {
			m, err := p.ReadMessage()
			if err != nil {
				if m != nil {
					return k, err, "a message was returned together with the error"
				}
				return k, err, ""
			}
			if k >= len(msgs) {
				return k, nil, "a message beyond those written was returned"
			}
			if e := msgs[k].Same(m, seed); e != nil {
				return k, nil, fmt.Sprintf("message %d: %v", k+1, e)
			}
		}
	}
	return f
}

func buildFlv(cs framedCase, seed int) *framed {
	var tags []flvItem
	for _, raw := range cs.Items {
		var it flvItem
		if err := json.Unmarshal(raw, &it); err != nil {
			panic(err)
		}
		tags = append(tags, it)
	}
	f := &framed{kind: "flv"}
	f.write = func(w io.Writer) (int, error) {
		m, _ := flv.NewMuxer(w)
		if err := m.WriteHeader(true, true); err != nil {
			return 0, err
		}
		for k, t := range tags {
			if err := m.WriteTag(flv.TagType(t.Type), uint32(t.Ts), ld.FillBytes(t.N, k+1, seed)); err != nil {
				return k + 1, err
			}
		}
		return len(tags) + 1, nil
	}
	f.read = func(r io.Reader) (int, error, string) {
		d, _ := flv.NewDemuxer(r)
		ver, hv, ha, err := d.ReadHeader()
		if err != nil {
			return 0, err, ""
		}
		if ver != 1 || !hv || !ha {
			return 0, nil, "header values differ"
		}
		for k := 0; ; k++ {
			tt, size, ts, err := d.ReadTagHeader()
			if err != nil {
				return k + 1, err, ""
			}
			body, err := d.ReadTag(size)
			if err != nil {
				if body != nil {
					return k + 1, err, "a tag body was returned together with the error"
				}
				return k + 1, err, ""
			}
			if k >= len(tags) {
				return k + 1, nil, "a tag beyond those written was returned"
			}
			t := tags[k]
			if int(tt) != t.Type || int(size) != t.N || int64(ts) != t.Ts || !bytes.Equal(body, ld.FillBytes(t.N, k+1, seed)) {
				return k + 1, nil, fmt.Sprintf("tag %d differs (type %d size %d ts %d)", k+1, tt, size, ts)
			}
		}
	}
	return f
}

func buildHandshake(seed int) *framed {
	f := &framed{kind: "handshake"}
	f.write = func(w io.Writer) (int, error) {
		hs := rtmp.NewHandshake(rand.New(rand.NewSource(int64(seed))))
		if err := hs.WriteC0S0(w); err != nil {
			return 0, err
		}
		if err := hs.WriteC1S1(w); err != nil {
			return 1, err
		}
		if err := hs.WriteC2S2(w, ld.FillBytes(1536, 3, seed)); err != nil {
			return 2, err
		}
		return 3, nil
	}
	f.read = func(r io.Reader) (int, error, string) {
		hs := rtmp.NewHandshake(rand.New(rand.NewSource(int64(seed))))
		b, err := hs.ReadC0S0(r)
		if err != nil {
			return 0, err, map[bool]string{true: "bytes returned together with the error"}[b != nil]
		}
		if len(b) != 1 || b[0] != 3 {
			return 0, nil, "C0/S0 differs"
		}
		if b, err = hs.ReadC1S1(r); err != nil {
			return 1, err, map[bool]string{true: "bytes returned together with the error"}[b != nil]
		}
		if len(b) != 1536 {
			return 1, nil, "C1/S1 length differs"
		}
		if b, err = hs.ReadC2S2(r); err != nil {
			return 2, err, map[bool]string{true: "bytes returned together with the error"}[b != nil]
		}
		if !bytes.Equal(b, ld.FillBytes(1536, 3, seed)) {
			return 2, nil, "C2/S2 differs"
		}
		return 3, io.EOF, ""
	}
	return f
}

// offsets lists the cut offsets to try: all of them for small streams, else every boundary +-3,
// the first 24 bytes of every item and a stride.
func offsets(f *framed, tier string) []int {
	total := len(f.wire)
	lim := 4000
	if tier == "thorough" {
		lim = 150000
	}
	if total <= lim {
		all := make([]int, total+1)
		for i := range all {
			all[i] = i
		}
		return all
	}
	seen := map[int]bool{}
	var out []int
	add := func(n int) {
		if n >= 0 && n <= total && !seen[n] {
			seen[n] = true
			out = append(out, n)
		}
	}
	start := 0
	for _, e := range f.ends {
		for d := -3; d <= 3; d++ {
			add(e + d)
		}
		for d := 0; d < 24; d++ {
			add(start + d)
		}
		start = e
	}
	for n := 0; n <= total; n += 509 {
		add(n)
	}
	return out
}

func init() {
	registry["framed"] = func(c *rp.Ctx, i int, raw json.RawMessage) rp.Result {
		var cs framedCase
		if err := json.Unmarshal(raw, &cs); err != nil {
			panic(err)
		}
		var f *framed
		switch cs.Kind {
		case "rtmp":
			f = buildRtmp(cs, c.Seed)
		case "flv":
			f = buildFlv(cs, c.Seed)
		case "handshake":
			f = buildHandshake(c.Seed)
		default:
			rp.Bug("unknown kind %q", cs.Kind)
		}
		// the clean write, item by item, gives the wire and the true end offset of every item
		clean := transport.NewStream()
		cw := &countingWriter{w: clean}
		n, err := f.write(&endRecorder{w: cw, f: f})
		if err != nil || n != len(cs.Sizes) {
			return rp.Fail(i, "%s: clean write failed after %d items: %v", cs.Kind, n, err)
		}
		f.wire = clean.Bytes()
		f.ends = endsOf(cs, f, c.Seed)
		info := map[string]interface{}{"bytes": len(f.wire)}
		// the specification's predicted sizes are compared as information only: a writer is free to
		// lay out headers differently, the verdicts below use the observed offsets
		pred, sum := true, 0
		for k, s := range cs.Sizes {
			sum += s
			if k >= len(f.ends) || f.ends[k] != sum {
				pred = false
			}
		}
		info["spec_offsets_match"] = pred

		nCuts, nFaults := 0, 0
		// (1) every cut offset: exactly the completely transferred items, then an EOF-class error
		for _, cut := range offsets(f, c.Tier) {
			rp.Alive()
			for _, seg := range []string{"whole", "one", "whole+eof"} {
				if seg == "one" && len(f.wire) > 6000 && cut%7 != 0 {
					continue
				}
				s := transport.NewStream()
				s.Seg = transport.SegmenterByName(seg, 1)
				// a transport may return its last bytes together with io.EOF
				s.EOFWithData = seg == "whole+eof"
				s.Write(f.wire)
				s.CutAt(cut)
				got, err, bad := f.read(s)
				nCuts++
				want := complete(f.ends, cut)
				if bad != "" {
					return rp.Fail(i, "%s cut at %d of %d (%s): %s", cs.Kind, cut, len(f.wire), seg, bad)
				}
				if err == nil {
					return rp.Fail(i, "%s cut at %d of %d (%s): no error after %d items", cs.Kind, cut, len(f.wire), seg, got)
				}
				if got != want {
					return rp.Fail(i, "%s cut at %d of %d (%s): %d items returned before the error, %d were completely transferred (ends %v)", cs.Kind, cut, len(f.wire), seg, got, want, f.ends)
				}
				if !eofClass(err) {
					return rp.Fail(i, "%s cut at %d of %d (%s): root cause of %q is %T %v, not io.EOF / io.ErrUnexpectedEOF", cs.Kind, cut, len(f.wire), seg, err, oe.Cause(err), oe.Cause(err))
				}
			}
		}
		// (2) an injected error at every read call index: root cause is that very value
		for _, seg := range []string{"whole", "random"} {
			probe := transport.NewStream()
			probe.Seg = transport.SegmenterByName(seg, int64(c.Seed)+11)
			probe.Write(f.wire)
			probe.CloseWrite()
			f.read(probe)
			calls, _ := probe.Calls()
			step := 1
			if calls > 400 {
				step = calls / 400
			}
			for k := 0; k < calls; k += step {
				rp.Alive()
				s := transport.NewStream()
				s.Seg = transport.SegmenterByName(seg, int64(c.Seed)+11)
				s.Write(f.wire)
				s.CloseWrite()
				sent := &transport.ErrInjected{What: fmt.Sprintf("read call %d", k), Inner: io.ErrNoProgress}
				s.FailRead(k, sent)
				got, err, bad := f.read(s)
				nFaults++
				if bad != "" {
					return rp.Fail(i, "%s read fault at call %d (%s): %s", cs.Kind, k, seg, bad)
				}
				if err == nil {
					return rp.Fail(i, "%s read fault at call %d (%s): no error", cs.Kind, k, seg)
				}
				delivered := s.Consumed()
				if want := complete(f.ends, delivered); got != want && !(cs.Kind == "handshake" && got == 3) {
					return rp.Fail(i, "%s read fault at call %d (%s) after %d bytes: %d items returned, %d were completely transferred", cs.Kind, k, seg, delivered, got, want)
				}
				if cause := oe.Cause(err); cause != error(sent) && !(delivered == len(f.wire) && eofClass(err)) {
					return rp.Fail(i, "%s read fault at call %d (%s): root cause of %q is %T %v, not the injected error", cs.Kind, k, seg, err, cause, cause)
				}
			}
		}
		// (3) an injected error at every write call index: the write in progress fails with that root
		// cause, what reached the transport is a prefix, and a reader of it gets exactly the complete items
		probe := transport.NewStream()
		f.write(probe)
		_, wcalls := probe.Calls()
		step := 1
		if wcalls > 300 {
			step = wcalls / 300
		}
		for k := 0; k < wcalls; k += step {
			rp.Alive()
			s := transport.NewStream()
			sent := &transport.ErrInjected{What: fmt.Sprintf("write call %d", k), Inner: io.ErrShortWrite}
			s.FailWrite(k, sent)
			_, err := f.write(s)
			nFaults++
			if err == nil {
				return rp.Fail(i, "%s write fault at call %d: the writer reported no error", cs.Kind, k)
			}
			if cause := oe.Cause(err); cause != error(sent) {
				return rp.Fail(i, "%s write fault at call %d: root cause of %q is %T %v, not the injected error", cs.Kind, k, err, cause, cause)
			}
			p := s.Bytes()
			if !bytes.HasPrefix(f.wire, p) {
				return rp.Fail(i, "%s write fault at call %d: what reached the transport is not a prefix of the stream", cs.Kind, k)
			}
			r := transport.NewStream()
			r.Write(p)
			r.CloseWrite()
			got, rerr, bad := f.read(r)
			if bad != "" || rerr == nil || got != complete(f.ends, len(p)) {
				return rp.Fail(i, "%s write fault at call %d: reader of the %d transferred bytes returned %d items (%s, err %v), %d were complete", cs.Kind, k, len(p), got, bad, rerr, complete(f.ends, len(p)))
			}
		}
		info["cuts"], info["faults"] = nCuts, nFaults
		return rp.Result{OK: true, Info: info}
	}
}

// endsOf determines the end offset of every item by writing the items one prefix at a time.
func endsOf(cs framedCase, f *framed, seed int) []int {
	var ends []int
	switch cs.Kind {
	case "handshake":
		return []int{1, 1537, 3073}
	}
	for k := 1; k <= len(cs.Items); k++ {
		sub := cs
		sub.Items = cs.Items[:k]
		var g *framed
		if cs.Kind == "rtmp" {
			g = buildRtmp(sub, seed)
		} else {
			g = buildFlv(sub, seed)
		}
		var b bytes.Buffer
		g.write(&b)
		if cs.Kind == "flv" && k == 1 {
			ends = append(ends, 13)
		}
		ends = append(ends, b.Len())
	}
	if cs.Kind == "flv" && len(cs.Items) == 0 {
		ends = []int{13}
	}
	if len(ends) > 0 && ends[len(ends)-1] != len(f.wire) {
		rp.Bug("end offsets %v do not add up to the wire length %d", ends, len(f.wire))
	}
	return ends
}

type countingWriter struct {
	w io.Writer
	n int
}

func (c *countingWriter) Write(p []byte) (int, error) {
	n, err := c.w.Write(p)
	c.n += n
	return n, err
}

type endRecorder struct {
	w *countingWriter
	f *framed
}

func (e *endRecorder) Write(p []byte) (int, error) { return e.w.Write(p) }

var _ = errors.New
