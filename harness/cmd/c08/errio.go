package main

import (
	"bytes"
	"encoding/json"
	"errors"
	"fmt"
	"io"
	"math/rand"
	"strings"

	oe "github.com/ossrs/go-oryx-lib/errors"
	"github.com/ossrs/go-oryx-lib/flv"
	"github.com/ossrs/go-oryx-lib/rtmp"
	"verifharness/ld"
	"verifharness/rp"
	"verifharness/rtmpx"
	"verifharness/transport"
)

// C08: constructor nestings of spec/errio/ErrChain.tla against the errors package, and
// sessions / files of spec/errio/Gen_FramedIo.tla with EVERY cut offset and every read / write
// call index against rtmp.Protocol, the handshake and the flv muxer / demuxer (FramedIo.tla).

var registry = map[string]rp.Replayer{}
var batchRegistry = map[string]rp.Batch{}

func main() { rp.Main(registry, batchRegistry) }

// ---------------------------------------------------------------------- errors

type chainRun struct {
	K string `json:"k"` // stack | msg | wrap | wrapf
	M string `json:"m"`
	N int    `json:"n"` // the constructor is applied N times in a row
}

type chainCase struct {
	Root   string     `json:"root"`
	Layers []chainRun `json:"layers"` // innermost first
	Depth  int        `json:"depth"`
	Nil    bool       `json:"nil"`
	Text   []struct {
		M string `json:"m"`
		N int    `json:"n"`
	} `json:"text"` // outer to inner
}

func init() {
	registry["errchain"] = func(c *rp.Ctx, i int, raw json.RawMessage) rp.Result {
		var cs chainCase
		if err := json.Unmarshal(raw, &cs); err != nil {
			panic(err)
		}
		var root error
		rootText := ""
		switch cs.Root {
		case "nil":
		case "sentinel":
			root, rootText = &transport.ErrInjected{What: "root", Inner: io.ErrClosedPipe}, "injected fault: root"
		case "new":
			root, rootText = oe.New("root-new"), "root-new"
		case "errorf":
			root, rootText = oe.Errorf("root-%d", 7), "root-7"
		default:
			rp.Bug("unknown root %q", cs.Root)
		}
		err := root
		depth := 0
		for _, l := range cs.Layers {
			if l.N < 1 {
				rp.Bug("run of %d layers", l.N)
			}
			for r := 0; r < l.N; r++ {
				switch l.K {
				case "stack":
					err = oe.WithStack(err)
				case "msg":
					err = oe.WithMessage(err, l.M)
				case "wrap":
					err = oe.Wrap(err, l.M)
				case "wrapf":
					err = oe.Wrapf(err, "%s", l.M)
				default:
					rp.Bug("unknown layer %q", l.K)
				}
			}
			depth += l.N
		}
		if depth != cs.Depth {
			rp.Bug("depth %d, the case says %d", depth, cs.Depth)
		}
		if cs.Nil {
			if err != nil {
				return rp.Fail(i, "wrapping nil through %d layers yields %v, must stay nil", depth, err)
			}
			if oe.Cause(nil) != nil {
				return rp.Fail(i, "Cause(nil) is not nil")
			}
			return rp.Result{OK: true}
		}
		if err == nil {
			return rp.Fail(i, "wrapping a non-nil error yields nil")
		}
		if got := oe.Cause(err); got != root {
			r := rp.Fail(i, "Cause through %d layers (%v) is %T %.80q, not the root value", depth, cs.Layers, got, fmt.Sprint(got))
			if depth > 4 {
				r.Deviation = "C08/cause-depth-limited"
			}
			return r
		}
		var want strings.Builder
		for _, t := range cs.Text {
			want.WriteString(strings.Repeat(t.M+": ", t.N))
		}
		want.WriteString(rootText)
		if got := err.Error(); got != want.String() {
			return rp.Fail(i, "message chain of %d layers (%v) is %s, want %s", depth, cs.Layers, short(got), short(want.String()))
		}
		// %+v prints a stack per layer and every verb builds the whole text again: only for chains of moderate depth
		if depth <= 100 {
			if s := fmt.Sprintf("%+v|%v|%s|%q", err, err, err, err); !strings.Contains(s, rootText) {
				return rp.Fail(i, "formatted error lost the root text")
			}
		}
		return rp.Result{OK: true}
	}
	// the deep nestings (runs of up to 1000 layers) are a stage of their own, the replayer is the same
	registry["errdeep"] = registry["errchain"]
}

func short(s string) string {
	if len(s) <= 160 {
		return fmt.Sprintf("%q", s)
	}
	return fmt.Sprintf("%q...%q (%d bytes)", s[:60], s[len(s)-60:], len(s))
}

// ---------------------------------------------------------------------- framed streams

type framedCase struct {
	Kind  string            `json:"kind"`
	Items []json.RawMessage `json:"items"`
	Sizes []int             `json:"sizes"`
	// FramedIo's transport plans to replay at every position, and the segmentations of the read side
	Plans    []string `json:"plans"`
	ReadSegs []string `json:"readsegs"`
}

type rtmpItem struct {
	Type int   `json:"type"`
	Len  int   `json:"len"`
	Ts   int64 `json:"ts"`
	Scs  int64 `json:"scs"`
}

type flvItem struct {
	Type int   `json:"type"`
	N    int   `json:"n"`
	Ts   int64 `json:"ts"`
}

// a framed stream as the library wrote it: the bytes and the end offset of every item
type framed struct {
	kind string
	wire []byte
	ends []int
	// write replays the writer against w, returning after how many items it stopped and the error
	write func(w io.Writer) (int, error)
	// read consumes items from r until an error; returns how many complete items it returned and the error;
	// bad describes a returned item that is not the one written (truncated, duplicated, fabricated)
	read func(r io.Reader) (n int, err error, bad string)
	// fired, while a one-shot fault plan is replayed, tells whether the transport has failed yet: a library
	// call that returns a nil error although the transport failed during it has swallowed the failure
	// (FramedIo!ErrorSurfaces)
	fired func() bool
}

const swallowed = "FAULT SWALLOWED: "

// swallowedBy is what read / write report when a library call returned nil although the transport failed during it.
func (f *framed) swallowedBy(call string) string {
	if f.fired != nil && f.fired() {
		return swallowed + "the transport failed during " + call + ", which returned a nil error"
	}
	return ""
}

// errSwallowed is the writer's way to report the same.
type errSwallowed struct{ what string }

func (e *errSwallowed) Error() string { return e.what }

func eofClass(err error) bool {
	c := oe.Cause(err)
	return c == io.EOF || c == io.ErrUnexpectedEOF
}

func complete(ends []int, n int) int {
	k := 0
	for _, e := range ends {
		if e <= n {
			k++
		}
	}
	return k
}

func buildRtmp(cs framedCase, seed int) *framed {
	var msgs []rtmpx.Msg
	for k, raw := range cs.Items {
		var it rtmpItem
		if err := json.Unmarshal(raw, &it); err != nil {
			panic(err)
		}
		msgs = append(msgs, rtmpx.Msg{ID: k + 1, Type: it.Type, Sid: 1, Ts: it.Ts, Len: it.Len, Scs: it.Scs})
	}
	f := &framed{kind: "rtmp"}
	f.write = func(w io.Writer) (int, error) {
		p := rtmp.NewProtocol(struct {
			io.Reader
			io.Writer
		}{bytes.NewReader(nil), w})
		for k, m := range msgs {
			if err := p.WriteMessage(m.Build(seed)); err != nil {
				return k, err
			}
			if sw := f.swallowedBy(fmt.Sprintf("WriteMessage #%d", k+1)); sw != "" {
				return k, &errSwallowed{sw}
			}
		}
		return len(msgs), nil
	}
	f.read = func(r io.Reader) (int, error, string) {
		p := rtmp.NewProtocol(struct {
			io.Reader
			io.Writer
		}{r, io.Discard})
		for k := 0; ; k++ {
			m, err := p.ReadMessage()
			if err != nil {
				if m != nil {
					return k, err, "a message was returned together with the error"
				}
				return k, err, ""
			}
			if sw := f.swallowedBy(fmt.Sprintf("ReadMessage #%d", k+1)); sw != "" {
				return k, nil, sw
			}
			if k >= len(msgs) {
				return k, nil, "a message beyond those written was returned"
			}
			if e := msgs[k].Same(m, seed); e != nil {
				return k, nil, fmt.Sprintf("message %d: %v", k+1, e)
			}
		}
	}
	return f
}

func buildFlv(cs framedCase, seed int) *framed {
	var tags []flvItem
	for _, raw := range cs.Items {
		var it flvItem
		if err := json.Unmarshal(raw, &it); err != nil {
			panic(err)
		}
		tags = append(tags, it)
	}
	f := &framed{kind: "flv"}
	f.write = func(w io.Writer) (int, error) {
		m, _ := flv.NewMuxer(w)
		if err := m.WriteHeader(true, true); err != nil {
			return 0, err
		}
		if sw := f.swallowedBy("WriteHeader"); sw != "" {
			return 0, &errSwallowed{sw}
		}
		for k, t := range tags {
			if err := m.WriteTag(flv.TagType(t.Type), uint32(t.Ts), ld.FillBytes(t.N, k+1, seed)); err != nil {
				return k + 1, err
			}
			if sw := f.swallowedBy(fmt.Sprintf("WriteTag #%d", k+1)); sw != "" {
				return k + 1, &errSwallowed{sw}
			}
		}
		return len(tags) + 1, nil
	}
	f.read = func(r io.Reader) (int, error, string) {
		d, _ := flv.NewDemuxer(r)
		ver, hv, ha, err := d.ReadHeader()
		if err != nil {
			return 0, err, ""
		}
		if sw := f.swallowedBy("ReadHeader"); sw != "" {
			return 0, nil, sw
		}
		if ver != 1 || !hv || !ha {
			return 0, nil, "header values differ"
		}
		for k := 0; ; k++ {
			tt, size, ts, err := d.ReadTagHeader()
			if err != nil {
				return k + 1, err, ""
			}
			if sw := f.swallowedBy(fmt.Sprintf("ReadTagHeader #%d", k+1)); sw != "" {
				return k + 1, nil, sw
			}
			body, err := d.ReadTag(size)
			if err != nil {
				if body != nil {
					return k + 1, err, "a tag body was returned together with the error"
				}
				return k + 1, err, ""
			}
			if sw := f.swallowedBy(fmt.Sprintf("ReadTag #%d", k+1)); sw != "" {
				return k + 1, nil, sw
			}
			if k >= len(tags) {
				return k + 1, nil, "a tag beyond those written was returned"
			}
			t := tags[k]
			if int(tt) != t.Type || int(size) != t.N || int64(ts) != t.Ts || !bytes.Equal(body, ld.FillBytes(t.N, k+1, seed)) {
				return k + 1, nil, fmt.Sprintf("tag %d differs (type %d size %d ts %d)", k+1, tt, size, ts)
			}
		}
	}
	return f
}

func buildHandshake(seed int) *framed {
	f := &framed{kind: "handshake"}
	f.write = func(w io.Writer) (int, error) {
		hs := rtmp.NewHandshake(rand.New(rand.NewSource(int64(seed))))
		if err := hs.WriteC0S0(w); err != nil {
			return 0, err
		}
		if sw := f.swallowedBy("WriteC0S0"); sw != "" {
			return 0, &errSwallowed{sw}
		}
		if err := hs.WriteC1S1(w); err != nil {
			return 1, err
		}
		if sw := f.swallowedBy("WriteC1S1"); sw != "" {
			return 1, &errSwallowed{sw}
		}
		if err := hs.WriteC2S2(w, ld.FillBytes(1536, 3, seed)); err != nil {
			return 2, err
		}
		if sw := f.swallowedBy("WriteC2S2"); sw != "" {
			return 2, &errSwallowed{sw}
		}
		return 3, nil
	}
	f.read = func(r io.Reader) (int, error, string) {
		hs := rtmp.NewHandshake(rand.New(rand.NewSource(int64(seed))))
		b, err := hs.ReadC0S0(r)
		if err != nil {
			return 0, err, map[bool]string{true: "bytes returned together with the error"}[b != nil]
		}
		if sw := f.swallowedBy("ReadC0S0"); sw != "" {
			return 0, nil, sw
		}
		if len(b) != 1 || b[0] != 3 {
			return 0, nil, "C0/S0 differs"
		}
		if b, err = hs.ReadC1S1(r); err != nil {
			return 1, err, map[bool]string{true: "bytes returned together with the error"}[b != nil]
		}
		if sw := f.swallowedBy("ReadC1S1"); sw != "" {
			return 1, nil, sw
		}
		if len(b) != 1536 {
			return 1, nil, "C1/S1 length differs"
		}
		if b, err = hs.ReadC2S2(r); err != nil {
			return 2, err, map[bool]string{true: "bytes returned together with the error"}[b != nil]
		}
		if sw := f.swallowedBy("ReadC2S2"); sw != "" {
			return 2, nil, sw
		}
		if !bytes.Equal(b, ld.FillBytes(1536, 3, seed)) {
			return 2, nil, "C2/S2 differs"
		}
		return 3, io.EOF, ""
	}
	return f
}

// offsets lists the cut offsets to try: all of them for small streams (quick: up to 4 kB, thorough: up to 20 kB, and up
// to 150 kB for the streams on which `full` falls, a seeded 1/24 of the cases: a 66 kB stream costs 20 s at every
// offset, 130 kB four times that); else every item boundary +-3, the first 24 bytes of every item, every multiple of the
// 4 kB buffers +-1 and a stride (quick 509; thorough 61, coprime to the 128 + 1 byte chunk pattern, so that every position
// within a chunk is hit).
func offsets(f *framed, tier string, full bool) []int {
	total := len(f.wire)
	lim, stride := 4000, 509
	if tier == "thorough" {
		lim, stride = 20000, 61
		if full {
			lim = 150000
		}
	}
	if total <= lim {
		all := make([]int, total+1)
		for i := range all {
			all[i] = i
		}
		return all
	}
	seen := map[int]bool{}
	var out []int
	add := func(n int) {
		if n >= 0 && n <= total && !seen[n] {
			seen[n] = true
			out = append(out, n)
		}
	}
	start := 0
	for _, e := range f.ends {
		for d := -3; d <= 3; d++ {
			add(e + d)
		}
		for d := 0; d < 24; d++ {
			add(start + d)
		}
		start = e
	}
	for n := 0; n <= total; n += stride {
		add(n)
	}
	if tier == "thorough" {
		for n := 4096; n <= total; n += 4096 {
			add(n - 1)
			add(n)
			add(n + 1)
		}
	}
	return out
}

func init() {
	registry["framed"] = func(c *rp.Ctx, i int, raw json.RawMessage) rp.Result {
		var cs framedCase
		if err := json.Unmarshal(raw, &cs); err != nil {
			panic(err)
		}
		var f *framed
		switch cs.Kind {
		case "rtmp":
			f = buildRtmp(cs, c.Seed)
		case "flv":
			f = buildFlv(cs, c.Seed)
		case "handshake":
			f = buildHandshake(c.Seed)
		default:
			rp.Bug("unknown kind %q", cs.Kind)
		}
		// the clean write, item by item, gives the wire and the true end offset of every item
		clean := transport.NewStream()
		cw := &countingWriter{w: clean}
		n, err := f.write(&endRecorder{w: cw, f: f})
		if err != nil || n != len(cs.Sizes) {
			return rp.Fail(i, "%s: clean write failed after %d items: %v", cs.Kind, n, err)
		}
		f.wire = clean.Bytes()
		f.ends = endsOf(cs, f, c.Seed)
		info := map[string]interface{}{"bytes": len(f.wire)}
		// the specification's predicted sizes are compared as information only: a writer is free to
		// lay out headers differently, the verdicts below use the observed offsets
		pred, sum := true, 0
		for k, s := range cs.Sizes {
			sum += s
			if k >= len(f.ends) || f.ends[k] != sum {
				pred = false
			}
		}
		info["spec_offsets_match"] = pred

		if len(cs.Plans) == 0 || len(cs.ReadSegs) == 0 {
			rp.Bug("the case names no transport plans / read segmentations")
		}
		plans := map[string]bool{}
		for _, pl := range cs.Plans {
			switch pl {
			case "cut", "readfault", "writefault":
				plans[pl] = true
			default:
				rp.Bug("unknown plan %q", pl)
			}
		}
		atBoundary := func(n int) bool {
			if n == 0 {
				return true
			}
			for _, e := range f.ends {
				if e == n {
					return true
				}
			}
			return false
		}
		// a fault that the library did not report: the named deviation when it hit the first transport call of an item
		swallowedAt := func(r rp.Result, moved int) rp.Result {
			if atBoundary(moved) {
				r.Deviation = "C08/fault-swallowed-at-boundary"
			} else {
				r.Deviation = "C08/fault-swallowed"
			}
			return r
		}

		nCuts, nFaults := 0, 0
		// (1) every cut offset: exactly the completely transferred items, then an EOF-class error
		full := rp.ContentHash(raw)%24 == c.Seed%24
		for _, cut := range offsets(f, c.Tier, full) {
			if !plans["cut"] {
				break
			}
			rp.Alive()
			for _, seg := range []string{"whole", "one", "whole+eof"} {
				if seg == "one" && len(f.wire) > 6000 && cut%7 != 0 {
					continue
				}
				s := transport.NewStream()
				s.Seg = transport.SegmenterByName(seg, 1)
				// a transport may return its last bytes together with io.EOF
				s.EOFWithData = seg == "whole+eof"
				s.Write(f.wire)
				s.CutAt(cut)
				got, err, bad := f.read(s)
				nCuts++
				want := complete(f.ends, cut)
				if bad != "" {
					return rp.Fail(i, "%s cut at %d of %d (%s): %s", cs.Kind, cut, len(f.wire), seg, bad)
				}
				if err == nil {
					return rp.Fail(i, "%s cut at %d of %d (%s): no error after %d items", cs.Kind, cut, len(f.wire), seg, got)
				}
				if got != want {
					return rp.Fail(i, "%s cut at %d of %d (%s): %d items returned before the error, %d were completely transferred (ends %v)", cs.Kind, cut, len(f.wire), seg, got, want, f.ends)
				}
				if !eofClass(err) {
					return rp.Fail(i, "%s cut at %d of %d (%s): root cause of %q is %T %v, not io.EOF / io.ErrUnexpectedEOF", cs.Kind, cut, len(f.wire), seg, err, oe.Cause(err), oe.Cause(err))
				}
			}
		}
		// (2) the transport fails ONCE, at every read call index of every segmentation (later calls work again and
		// the stream is complete): the library call in progress reports it, root cause that very value, after exactly
		// the items completely delivered before
		for _, seg := range cs.ReadSegs {
			if !plans["readfault"] {
				break
			}
			mk := func() *transport.Stream {
				s := transport.NewStream()
				switch seg {
				case "whole", "one", "random":
					s.Seg = transport.SegmenterByName(seg, int64(c.Seed)+11)
				case "aligned":
					s.Seg = alignedSeg(f.ends, len(f.wire))
				default:
					rp.Bug("unknown segmentation %q", seg)
				}
				s.Write(f.wire)
				s.CloseWrite()
				return s
			}
			probe := mk()
			f.read(probe)
			calls, _ := probe.Calls()
			for _, k := range callIndices(calls, 400, seg, f.ends, c.Tier) {
				rp.Alive()
				s := mk()
				sent := &transport.ErrInjected{What: fmt.Sprintf("read call %d", k), Inner: io.ErrNoProgress}
				s.FailRead(k, sent)
				tap := &faultTap{k: k, moved: s.Consumed, r: s}
				fired := func() bool { return tap.n > k }
				f.fired = fired
				got, err, bad := f.read(tap)
				f.fired = nil
				nFaults++
				delivered := s.Consumed()
				if strings.HasPrefix(bad, swallowed) {
					return swallowedAt(rp.Fail(i, "%s read fault at call %d (%s) after %d bytes (ends %v): %s", cs.Kind, k, seg, tap.at, f.ends, bad), tap.at)
				}
				if bad != "" {
					return rp.Fail(i, "%s read fault at call %d (%s): %s", cs.Kind, k, seg, bad)
				}
				if err == nil {
					return rp.Fail(i, "%s read fault at call %d (%s): no error", cs.Kind, k, seg)
				}
				if want := complete(f.ends, delivered); got != want {
					return rp.Fail(i, "%s read fault at call %d (%s) after %d bytes: %d items returned, %d were completely transferred", cs.Kind, k, seg, delivered, got, want)
				}
				cause := oe.Cause(err)
				if fired() && cause != error(sent) {
					r := rp.Fail(i, "%s read fault at call %d (%s) after %d bytes (ends %v): the call during which the transport failed returned %q, root cause %T %v, not the transport's error", cs.Kind, k, seg, tap.at, f.ends, err, cause, cause)
					if eofClass(err) {
						// the failure was dropped and the end of the stream found behind it is reported instead
						r = swallowedAt(r, tap.at)
					}
					return r
				}
				if !fired() && !(delivered == len(f.wire) && eofClass(err)) {
					return rp.Fail(i, "%s read fault at call %d (%s): the reader stopped after %d calls and %d of %d bytes with %q", cs.Kind, k, seg, calls, delivered, len(f.wire), err)
				}
			}
		}
		// (3) the transport fails ONCE, at every write call index: the write in progress fails with that root
		// cause, what reached the transport is a prefix, and a reader of it gets exactly the complete items
		probe := transport.NewStream()
		f.write(probe)
		_, wcalls := probe.Calls()
		for _, k := range callIndices(wcalls, 300, "", nil, c.Tier) {
			if !plans["writefault"] {
				break
			}
			rp.Alive()
			s := transport.NewStream()
			sent := &transport.ErrInjected{What: fmt.Sprintf("write call %d", k), Inner: io.ErrShortWrite}
			s.FailWrite(k, sent)
			tap := &faultTap{k: k, moved: s.Len, w: s}
			f.fired = func() bool { return tap.n > k }
			_, err := f.write(tap)
			f.fired = nil
			nFaults++
			if sw, ok := err.(*errSwallowed); ok {
				return swallowedAt(rp.Fail(i, "%s write fault at call %d after %d bytes (ends %v): %s", cs.Kind, k, tap.at, f.ends, sw.what), tap.at)
			}
			if err == nil {
				return rp.Fail(i, "%s write fault at call %d: the writer reported no error", cs.Kind, k)
			}
			if cause := oe.Cause(err); cause != error(sent) {
				return rp.Fail(i, "%s write fault at call %d: root cause of %q is %T %v, not the injected error", cs.Kind, k, err, cause, cause)
			}
			p := s.Bytes()
			if !bytes.HasPrefix(f.wire, p) {
				return rp.Fail(i, "%s write fault at call %d: what reached the transport is not a prefix of the stream", cs.Kind, k)
			}
			r := transport.NewStream()
			r.Write(p)
			r.CloseWrite()
			got, rerr, bad := f.read(r)
			if bad != "" || rerr == nil || got != complete(f.ends, len(p)) {
				return rp.Fail(i, "%s write fault at call %d: reader of the %d transferred bytes returned %d items (%s, err %v), %d were complete", cs.Kind, k, len(p), got, bad, rerr, complete(f.ends, len(p)))
			}
		}
		info["cuts"], info["faults"] = nCuts, nFaults
		return rp.Result{OK: true, Info: info}
	}
}

// faultTap sits between the library and a transport.Stream whose call k fails: it counts the calls (n > k: the
// transport has failed) and notes how many bytes had moved when call k was issued (FramedIo: `moved` at the failure).
type faultTap struct {
	k, n, at int
	moved    func() int
	r        io.Reader
	w        io.Writer
}

func (t *faultTap) note() {
	if t.n == t.k {
		t.at = t.moved()
	}
	t.n++
}

func (t *faultTap) Read(p []byte) (int, error)  { t.note(); return t.r.Read(p) }
func (t *faultTap) Write(p []byte) (int, error) { t.note(); return t.w.Write(p) }

// alignedSeg cuts the stream into pieces that end exactly at the item ends: the transport call after an item end
// is the first one of the next item (FramedIo: moved = EndOf(incall - 1) when the call is issued).
func alignedSeg(ends []int, total int) transport.Segmenter {
	return func(avail int) int {
		off := total - avail
		for _, e := range ends {
			if e > off {
				return e - off
			}
		}
		return avail
	}
}

// callIndices lists the call indices 0..calls-1 at which to inject: all of them up to max, else a stride plus (one-byte
// segmentation: call k is issued after exactly k bytes) the calls at every item end +-2.
func callIndices(calls, max int, seg string, ends []int, tier string) []int {
	if seg == "one" && tier != "thorough" && max > 150 {
		max = 150
	}
	step := 1
	if calls > max {
		step = calls / max
	}
	seen := map[int]bool{}
	var out []int
	add := func(k int) {
		if k >= 0 && k < calls && !seen[k] {
			seen[k] = true
			out = append(out, k)
		}
	}
	for k := 0; k < calls; k += step {
		add(k)
	}
	if seg == "one" {
		for _, e := range ends {
			for d := -2; d <= 2; d++ {
				add(e + d)
			}
		}
	}
	add(calls - 1)
	return out
}

// endsOf determines the end offset of every item by writing the items one prefix at a time.
func endsOf(cs framedCase, f *framed, seed int) []int {
	var ends []int
	switch cs.Kind {
	case "handshake":
		return []int{1, 1537, 3073}
	}
	for k := 1; k <= len(cs.Items); k++ {
		sub := cs
		sub.Items = cs.Items[:k]
		var g *framed
		if cs.Kind == "rtmp" {
			g = buildRtmp(sub, seed)
		} else {
			g = buildFlv(sub, seed)
		}
		var b bytes.Buffer
		g.write(&b)
		if cs.Kind == "flv" && k == 1 {
			ends = append(ends, 13)
		}
		ends = append(ends, b.Len())
	}
	if cs.Kind == "flv" && len(cs.Items) == 0 {
		ends = []int{13}
	}
	if len(ends) > 0 && ends[len(ends)-1] != len(f.wire) {
		rp.Bug("end offsets %v do not add up to the wire length %d", ends, len(f.wire))
	}
	return ends
}

type countingWriter struct {
	w io.Writer
	n int
}

func (c *countingWriter) Write(p []byte) (int, error) {
	n, err := c.w.Write(p)
	c.n += n
	return n, err
}

type endRecorder struct {
	w *countingWriter
	f *framed
}

func (e *endRecorder) Write(p []byte) (int, error) { return e.w.Write(p) }

var _ = errors.New
