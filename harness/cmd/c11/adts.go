package main

import (
	"bytes"
	"encoding/json"
	"fmt"
	"math/rand"

	"github.com/ossrs/go-oryx-lib/aac"
	"verifharness/ld"
	"verifharness/rp"
)

// C11: ADTS framing and AudioSpecificConfig against spec/aac/Adts.tla (cases from Gen_Adts.tla).

var registry = map[string]rp.Replayer{}
var batchRegistry = map[string]rp.Batch{}

func main() { rp.Main(registry, batchRegistry) }

const devCrcHeader = "C11/adts-crc-header-size"

type adtsFrame struct {
	By  string          `json:"by"`  // "lib": written by aac.ADTS.Encode; "iso": written by the specification
	Asc []int           `json:"asc"` // lib: the AudioSpecificConfig given to SetASC
	Ld  json.RawMessage `json:"ld"`  // the frame as the specification lays it out
	Exp struct {
		Raw struct {
			N  int `json:"n"`
			ID int `json:"id"`
		} `json:"raw"`
		Prot    int `json:"prot"`
		Profile int `json:"profile"`
		Sfi     int `json:"sfi"`
		Chan    int `json:"chan"`
		Obj     int `json:"obj"`
		Hz      int `json:"hz"`
		Size    int `json:"size"`
		Left    int `json:"left"`
	} `json:"exp"`
}

type adtsCase struct {
	Kind   string      `json:"kind"`
	Fam    string      `json:"fam"`
	Mask   []int       `json:"mask"`
	Frames []adtsFrame `json:"frames"`
}

// payload of a raw data block: the property quantifies over arbitrary payloads
func payload(mode string, n, id, seed, caseIdx int) []byte {
	switch mode {
	case "pattern":
		return ld.FillBytes(n, id, seed)
	case "sync":
		// every 7 bytes a plausible ADTS header (sync word, small frame length): mis-framing is
		// not hidden by the next Decode failing
		hdr := []byte{0xff, 0xf1, 0x50, 0x80, 0x01, 0x3f, 0xfc, 0xff, 0xf0, 0x50, 0x80, 0x01, 0x7f, 0xfc, 0xff, 0xf1}
		b := make([]byte, n)
		for i := range b {
			b[i] = hdr[(i+id)%len(hdr)]
		}
		return b
	default:
		r := rand.New(rand.NewSource(int64(seed)*1000003 + int64(caseIdx)*31 + int64(id)))
		b := make([]byte, n)
		r.Read(b)
		return b
	}
}

// expand the specification's frame with the given payload in place of the fill
func expandFrame(l ld.LD, pay []byte, seed int) []byte {
	var out []byte
	for _, f := range l {
		if f.K == "fill" {
			if f.N != len(pay) {
				panic(fmt.Sprintf("fill of %d bytes, payload of %d", f.N, len(pay)))
			}
			out = append(out, pay...)
			continue
		}
		out = append(out, ld.LD{f}.Must(seed)...)
	}
	return out
}

func ascString(a *aac.AudioSpecificConfig) string {
	return fmt.Sprintf("object=%d sfi=%d channels=%d", a.Object, a.SampleRate, a.Channels)
}

func replayStream(c *rp.Ctx, i int, cs *adtsCase, mode string) rp.Result {
	var stream []byte
	var pays [][]byte
	var offs []int
	for k := range cs.Frames {
		f := &cs.Frames[k]
		l, err := ld.Parse(f.Ld)
		if err != nil {
			panic(err)
		}
		pay := payload(mode, f.Exp.Raw.N, f.Exp.Raw.ID, c.Seed, i)
		want := expandFrame(l, pay, c.Seed)
		if len(want) != f.Exp.Size {
			panic(fmt.Sprintf("frame %d: layout of %d bytes, specification says %d", k, len(want), f.Exp.Size))
		}
		var frame []byte
		switch f.By {
		case "iso":
			frame = want
		case "lib":
			m, err := aac.NewADTS()
			if err != nil {
				return rp.Fail(i, "NewADTS: %v", err)
			}
			asc := []byte{byte(f.Asc[0]), byte(f.Asc[1])}
			if err := m.SetASC(asc); err != nil {
				return rp.Fail(i, "[%s] frame %d: SetASC(% x) of an accepted configuration failed: %v", mode, k, asc, err)
			}
			in := append([]byte(nil), pay...)
			got, err := m.Encode(in)
			if err != nil {
				return rp.Fail(i, "[%s] frame %d: Encode of %d raw bytes with %s failed: %v", mode, k, len(pay), ascString(m.ASC()), err)
			}
			if !bytes.Equal(in, pay) {
				return rp.Fail(i, "[%s] frame %d: Encode modified its input", mode, k)
			}
			if len(got) != len(want) {
				return rp.Fail(i, "[%s] frame %d: Encode of %d raw bytes returned %d bytes, the ISO frame has %d", mode, k, len(pay), len(got), len(want))
			}
			// the header fields the property names, against ISO 13818-7 6.2
			for j := 0; j < 7; j++ {
				mk := byte(cs.Mask[j])
				if got[j]&mk != want[j]&mk {
					return rp.Fail(i, "[%s] frame %d: Encode header byte %d is %#02x, ISO layout %#02x under mask %#02x (asc % x, %d raw bytes; header % x, want % x)",
						mode, k, j, got[j], want[j], mk, asc, len(pay), got[:7], want[:7])
				}
			}
			if !bytes.Equal(got[7:], pay) {
				return rp.Fail(i, "[%s] frame %d: Encode output after the header is not the raw block: %s", mode, k, rp.FirstDiff(got[7:], pay))
			}
			frame = got
		default:
			panic("unknown writer " + f.By)
		}
		offs = append(offs, len(stream))
		pays = append(pays, pay)
		stream = append(stream, frame...)
	}

	pristine := append([]byte(nil), stream...)
	d, err := aac.NewADTS()
	if err != nil {
		return rp.Fail(i, "NewADTS: %v", err)
	}
	rest := stream
	for k := range cs.Frames {
		f := &cs.Frames[k]
		end := offs[k] + f.Exp.Size
		desc := fmt.Sprintf("[%s] frame %d/%d (%s, protection_absent=%d, profile=%d sfi=%d channels=%d, %d raw bytes, header % x)",
			mode, k, len(cs.Frames), f.By, f.Exp.Prot, f.Exp.Profile, f.Exp.Sfi, f.Exp.Chan, f.Exp.Raw.N, pristine[offs[k]:offs[k]+7])
		raw, left, err := d.Decode(rest)
		if err != nil {
			return rp.Result{OK: false, What: fmt.Sprintf("%s: Decode failed: %v", desc, err), Deviation: crcDeviation(f, pristine[offs[k]:end], pays[k])}
		}
		if !bytes.Equal(raw, pays[k]) {
			return rp.Result{OK: false, What: fmt.Sprintf("%s: raw block differs: %s", desc, rp.FirstDiff(raw, pays[k])),
				Deviation: crcDeviation(f, pristine[offs[k]:end], pays[k]), Observed: map[string]int{"raw": len(raw), "left": len(left)}}
		}
		if len(left) != f.Exp.Left || !bytes.Equal(left, pristine[end:]) {
			return rp.Fail(i, "%s: remainder has %d bytes, specification: %d bytes (the following frames): %s", desc, len(left), f.Exp.Left, rp.FirstDiff(left, pristine[end:]))
		}
		if len(left) > 0 && (len(left) < 2 || left[0] != 0xff || left[1]&0xf0 != 0xf0) {
			return rp.Fail(i, "%s: remainder does not start at a sync word: % x", desc, left[:2])
		}
		a := d.ASC()
		if a == nil {
			return rp.Fail(i, "%s: ASC() is nil after Decode", desc)
		}
		if int(a.Object.ToProfile()) != f.Exp.Profile || int(a.SampleRate) != f.Exp.Sfi || int(a.Channels) != f.Exp.Chan {
			return rp.Fail(i, "%s: Decode reports %s (ADTS profile %d), want profile=%d sfi=%d channels=%d", desc, ascString(a), a.Object.ToProfile(), f.Exp.Profile, f.Exp.Sfi, f.Exp.Chan)
		}
		if a.SampleRate.ToHz() != f.Exp.Hz {
			return rp.Fail(i, "%s: sampling index %d converts to %d Hz, ISO table: %d", desc, a.SampleRate, a.SampleRate.ToHz(), f.Exp.Hz)
		}
		if !bytes.Equal(stream, pristine) {
			return rp.Fail(i, "%s: Decode modified the stream: %s", desc, rp.FirstDiff(stream, pristine))
		}
		rest = left
	}
	if len(rest) != 0 {
		return rp.Fail(i, "[%s] %d bytes left over after the last frame", mode, len(rest))
	}

	// the configuration Decode left in the object is an accepted one: Encode with it round-trips too
	lastF := &cs.Frames[len(cs.Frames)-1]
	lastPay := pays[len(pays)-1]
	again, err := d.Encode(lastPay)
	if err != nil {
		return rp.Fail(i, "[%s] Encode with the configuration left by Decode (%s) failed: %v", mode, ascString(d.ASC()), err)
	}
	d2, _ := aac.NewADTS()
	raw, left, err := d2.Decode(again)
	if err != nil || !bytes.Equal(raw, lastPay) || len(left) != 0 {
		return rp.Fail(i, "[%s] re-encoded frame (%s, %d raw bytes) does not decode back: err=%v raw %d bytes, %d left", mode, ascString(d.ASC()), len(lastPay), err, len(raw), len(left))
	}
	if a := d2.ASC(); int(a.Object.ToProfile()) != lastF.Exp.Profile || int(a.SampleRate) != lastF.Exp.Sfi || int(a.Channels) != lastF.Exp.Chan {
		return rp.Fail(i, "[%s] re-encoded frame reports %s, want profile=%d sfi=%d channels=%d", mode, ascString(a), lastF.Exp.Profile, lastF.Exp.Sfi, lastF.Exp.Chan)
	}
	return rp.Result{OK: true}
}

// crcDeviation names the known deviation "CRC header counted as 7 bytes" when the library behaves exactly
// like it: with two more bytes behind the frame, a CRC frame yields its raw block plus those two bytes.
func crcDeviation(f *adtsFrame, frame, pay []byte) (dev string) {
	if f.Exp.Prot != 0 {
		return ""
	}
	defer func() {
		if recover() != nil {
			dev = ""
		}
	}()
	d, _ := aac.NewADTS()
	probe := append(append([]byte(nil), frame...), 0xa5, 0x5a)
	raw, left, err := d.Decode(probe)
	if err == nil && len(left) == 0 && len(raw) == len(pay)+2 && bytes.Equal(raw[:len(pay)], pay) {
		return devCrcHeader
	}
	return ""
}

func replayAsc(i int, raw json.RawMessage) rp.Result {
	var cs struct {
		B0  int     `json:"b0"`
		Exp [][]int `json:"exp"`
	}
	if err := json.Unmarshal(raw, &cs); err != nil {
		panic(err)
	}
	if len(cs.Exp) != 256 {
		panic("asc case without 256 expectations")
	}
	for b1, e := range cs.Exp {
		in := []byte{byte(cs.B0), byte(b1)}
		acc, obj, sfi, ch := e[0] == 1, e[1], e[2], e[3]
		canon := []byte{byte(e[4]), byte(e[5])}
		var a aac.AudioSpecificConfig
		err := a.UnmarshalBinary(in)
		m, _ := aac.NewADTS()
		errSet := m.SetASC(in)
		if !acc {
			if err == nil {
				return rp.Fail(i, "AudioSpecificConfig % x (object=%d sfi=%d channels=%d) is outside the accepted set but UnmarshalBinary accepted it as %s", in, obj, sfi, ch, ascString(&a))
			}
			if errSet == nil {
				return rp.Fail(i, "AudioSpecificConfig % x (object=%d sfi=%d channels=%d) is outside the accepted set but SetASC accepted it", in, obj, sfi, ch)
			}
			continue
		}
		if err != nil {
			return rp.Fail(i, "AudioSpecificConfig % x (object=%d sfi=%d channels=%d) is accepted by the specification, UnmarshalBinary: %v", in, obj, sfi, ch, err)
		}
		if errSet != nil {
			return rp.Fail(i, "AudioSpecificConfig % x is accepted by the specification, SetASC: %v", in, errSet)
		}
		for _, p := range []*aac.AudioSpecificConfig{&a, m.ASC()} {
			if int(p.Object) != obj || int(p.SampleRate) != sfi || int(p.Channels) != ch {
				return rp.Fail(i, "AudioSpecificConfig % x decoded as %s, want object=%d sfi=%d channels=%d", in, ascString(p), obj, sfi, ch)
			}
		}
		out, err := a.MarshalBinary()
		if err != nil {
			return rp.Fail(i, "MarshalBinary of the accepted %s failed: %v", ascString(&a), err)
		}
		if !bytes.Equal(out, canon) {
			return rp.Fail(i, "AudioSpecificConfig % x re-marshalled as % x, want % x (13 significant bits)", in, out, canon)
		}
	}
	return rp.Result{OK: true}
}

func replayAscMarshal(i int, raw json.RawMessage) rp.Result {
	var cs struct {
		Obj int     `json:"obj"`
		Exp [][]int `json:"exp"`
	}
	if err := json.Unmarshal(raw, &cs); err != nil {
		panic(err)
	}
	for _, e := range cs.Exp {
		sfi, ch, acc := e[0], e[1], e[2] == 1
		a := aac.AudioSpecificConfig{Object: aac.ObjectType(cs.Obj), SampleRate: aac.SampleRateIndex(sfi), Channels: aac.Channels(ch)}
		out, err := a.MarshalBinary()
		if !acc {
			if err == nil {
				return rp.Fail(i, "MarshalBinary of object=%d sfi=%d channels=%d (outside the accepted set) returned % x instead of an error", cs.Obj, sfi, ch, out)
			}
			continue
		}
		want := []byte{byte(e[3]), byte(e[4])}
		if err != nil {
			return rp.Fail(i, "MarshalBinary of the accepted object=%d sfi=%d channels=%d failed: %v", cs.Obj, sfi, ch, err)
		}
		if !bytes.Equal(out, want) {
			return rp.Fail(i, "MarshalBinary of object=%d sfi=%d channels=%d is % x, ISO layout % x", cs.Obj, sfi, ch, out, want)
		}
		var b aac.AudioSpecificConfig
		if err := b.UnmarshalBinary(out); err != nil || b != a {
			return rp.Fail(i, "UnmarshalBinary(MarshalBinary(object=%d sfi=%d channels=%d)) = %s, err=%v", cs.Obj, sfi, ch, ascString(&b), err)
		}
	}
	return rp.Result{OK: true}
}

func replayHz(i int, raw json.RawMessage) rp.Result {
	var cs struct {
		Table []int `json:"table"`
		Total int   `json:"total"`
	}
	if err := json.Unmarshal(raw, &cs); err != nil {
		panic(err)
	}
	for v := 0; v < cs.Total; v++ {
		hz, perr := func() (hz int, perr interface{}) {
			defer func() { perr = recover() }()
			_ = aac.SampleRateIndex(v).String()
			return aac.SampleRateIndex(v).ToHz(), nil
		}()
		if perr != nil {
			return rp.Fail(i, "SampleRateIndex(%d).ToHz() panics: %v", v, perr)
		}
		if v < len(cs.Table) && hz != cs.Table[v] {
			return rp.Fail(i, "SampleRateIndex(%d).ToHz() = %d, ISO table: %d", v, hz, cs.Table[v])
		}
	}
	return rp.Result{OK: true}
}

func replayConv(i int, raw json.RawMessage) rp.Result {
	var cs struct {
		Profile []int `json:"profile"`
		Obj     []int `json:"obj"`
	}
	if err := json.Unmarshal(raw, &cs); err != nil {
		panic(err)
	}
	for o, want := range cs.Profile {
		p, perr := func() (p aac.Profile, perr interface{}) {
			defer func() { perr = recover() }()
			_ = aac.ObjectType(o).String()
			_ = aac.Profile(o).String()
			_ = aac.Channels(o).String()
			_ = aac.Profile(o).ToObjectType()
			return aac.ObjectType(o).ToProfile(), nil
		}()
		if perr != nil {
			return rp.Fail(i, "conversions of value %d panic: %v", o, perr)
		}
		if want != 255 && int(p) != want {
			return rp.Fail(i, "ObjectType(%d).ToProfile() = %d, ADTS profile of that object type is %d", o, p, want)
		}
	}
	for p, want := range cs.Obj {
		if got := aac.Profile(p).ToObjectType(); int(got) != want {
			return rp.Fail(i, "Profile(%d).ToObjectType() = %d, want %d", p, got, want)
		}
		if back := aac.Profile(p).ToObjectType().ToProfile(); int(back) != p {
			return rp.Fail(i, "Profile(%d).ToObjectType().ToProfile() = %d", p, back)
		}
	}
	return rp.Result{OK: true}
}

func init() {
	registry["adts"] = func(c *rp.Ctx, i int, raw json.RawMessage) rp.Result {
		var cs adtsCase
		if err := json.Unmarshal(raw, &cs); err != nil {
			panic(err)
		}
		switch cs.Kind {
		case "asc":
			return replayAsc(i, raw)
		case "ascm":
			return replayAscMarshal(i, raw)
		case "hz":
			return replayHz(i, raw)
		case "conv":
			return replayConv(i, raw)
		case "stream":
			if len(cs.Frames) == 0 || len(cs.Mask) != 7 {
				panic("malformed stream case")
			}
			for _, mode := range []string{"pattern", "sync", "random"} {
				if r := replayStream(c, i, &cs, mode); !r.OK {
					return r
				}
			}
			return rp.Result{OK: true}
		}
		panic("unknown kind " + cs.Kind)
	}
}
