package main

import (
	"bytes"
	"encoding/json"
	"fmt"
	"math/rand"

	"github.com/ossrs/go-oryx-lib/aac"
	"verifharness/ld"
	"verifharness/rp"
)

// C11: ADTS framing and AudioSpecificConfig against spec/aac/Adts.tla (cases from Gen_Adts.tla).

var registry = map[string]rp.Replayer{}
var batchRegistry = map[string]rp.Batch{}

func main() { rp.Main(registry, batchRegistry) }

const devCrcHeader = "C11/adts-crc-header-size"

type adtsFrame struct {
	By  string          `json:"by"`  // "lib": written by aac.ADTS.Encode; "iso": written by the specification
	Asc []int           `json:"asc"` // lib: the AudioSpecificConfig given to SetASC
	Ld  json.RawMessage `json:"ld"`  // the frame as the specification lays it out
	Hf  int             `json:"hf"`  // the first hf fields of ld are the header (+ error check), the rest is the raw data block
	Rep int             `json:"rep"` // long streams: so many frames of this kind in a row (distinct raw blocks); absent = 1
	Exp struct {
		Raw struct {
			N  int `json:"n"`
			ID int `json:"id"`
		} `json:"raw"`
		Prot    int `json:"prot"`
		Profile int `json:"profile"`
		Sfi     int `json:"sfi"`
		Chan    int `json:"chan"`
		Obj     int `json:"obj"`
		Hz      int `json:"hz"`
		Size    int `json:"size"`
		Left    int `json:"left"`
	} `json:"exp"`
}

type adtsCase struct {
	Kind   string      `json:"kind"`
	Fam    string      `json:"fam"`
	Mask   []int       `json:"mask"`
	Frames []adtsFrame `json:"frames"`
	Cyc    int         `json:"cyc"`   // long streams: the runs of Frames in turn, so many times over; absent = 1
	Total  int         `json:"total"` // long streams: bytes of the whole stream
}

// payload of a raw data block: the property quantifies over arbitrary payloads
func payload(mode string, n, id, seed, caseIdx int) []byte {
	switch mode {
	case "pattern":
		return ld.FillBytes(n, id, seed)
	case "sync":
		// every 7 bytes a plausible ADTS header (sync word, small frame length): mis-framing is
		// not hidden by the next Decode failing
		hdr := []byte{0xff, 0xf1, 0x50, 0x80, 0x01, 0x3f, 0xfc, 0xff, 0xf0, 0x50, 0x80, 0x01, 0x7f, 0xfc, 0xff, 0xf1}
		b := make([]byte, n)
		for i := range b {
			b[i] = hdr[(i+id)%len(hdr)]
		}
		return b
	default:
		r := rand.New(rand.NewSource(int64(seed)*1000003 + int64(caseIdx)*31 + int64(id)))
		b := make([]byte, n)
		r.Read(b)
		return b
	}
}

// splitFrame expands the specification's frame: the header (+ error check) literally, the raw data block with every
// pattern fill replaced by the payload of the mode (literal parts of the block - a frame carried as payload, bytes
// that look like a header - stay what the specification says). inst tells frames of one run apart.
func splitFrame(l ld.LD, hf int, mode string, seed, caseIdx, inst int, rng *rand.Rand) (head, body []byte) {
	if hf < 1 || hf > 2 || hf >= len(l)+1 {
		panic(fmt.Sprintf("frame layout of %d fields with %d header fields", len(l), hf))
	}
	head = l[:hf].Must(seed)
	for _, f := range l[hf:] {
		if f.K == "fill" {
			if rng != nil && mode == "random" { // long streams: one generator per stream, not one per frame
				o := len(body)
				body = append(body, make([]byte, f.N)...)
				rng.Read(body[o:])
				continue
			}
			body = append(body, payload(mode, f.N, f.ID+17*inst, seed, caseIdx)...)
			continue
		}
		body = append(body, ld.LD{f}.Must(seed)...)
	}
	return head, body
}

func ascString(a *aac.AudioSpecificConfig) string {
	return fmt.Sprintf("object=%d sfi=%d channels=%d", a.Object, a.SampleRate, a.Channels)
}

func replayStream(c *rp.Ctx, i int, cs *adtsCase, mode string) rp.Result {
	var stream []byte
	var pays [][]byte
	var offs []int
	var kinds []int // index into cs.Frames of every frame of the stream
	var runEnd []bool
	cyc := cs.Cyc
	if cyc == 0 {
		cyc = 1
	}
	lds := make([]ld.LD, len(cs.Frames))
	for k := range cs.Frames {
		l, err := ld.Parse(cs.Frames[k].Ld)
		if err != nil {
			panic(err)
		}
		lds[k] = l
	}
	var rng *rand.Rand
	if cyc > 1 || cs.Total != 0 {
		rng = rand.New(rand.NewSource(int64(c.Seed)*1000003 + int64(i)*31))
	}
	inst := 0
	for cy := 0; cy < cyc; cy++ {
		for k := range cs.Frames {
			f := &cs.Frames[k]
			rep := f.Rep
			if rep == 0 {
				rep = 1
			}
			var m aac.ADTS // one muxer per run
			for r := 0; r < rep; r, inst = r+1, inst+1 {
				if inst&1023 == 1023 {
					rp.Alive()
				}
				head, pay := splitFrame(lds[k], f.Hf, mode, c.Seed, i, inst, rng)
				if len(pay) != f.Exp.Raw.N || len(head)+len(pay) != f.Exp.Size {
					panic(fmt.Sprintf("frame %d: layout of %d+%d bytes, specification says %d raw of %d", k, len(head), len(pay), f.Exp.Raw.N, f.Exp.Size))
				}
				var frame []byte
				switch f.By {
				case "iso":
					frame = append(head, pay...)
				case "lib":
					asc := []byte{byte(f.Asc[0]), byte(f.Asc[1])}
					if m == nil {
						var err error
						if m, err = aac.NewADTS(); err != nil {
							return rp.Fail(i, "NewADTS: %v", err)
						}
						if err := m.SetASC(asc); err != nil {
							return rp.Fail(i, "[%s] frame %d: SetASC(% x) of an accepted configuration failed: %v", mode, inst, asc, err)
						}
					}
					in := append([]byte(nil), pay...)
					got, err := m.Encode(in)
					if err != nil {
						return rp.Fail(i, "[%s] frame %d: Encode of %d raw bytes (% x..) with %s failed: %v", mode, inst, len(pay), pay[:min(len(pay), 8)], ascString(m.ASC()), err)
					}
					if !bytes.Equal(in, pay) {
						return rp.Fail(i, "[%s] frame %d: Encode modified its input", mode, inst)
					}
					if len(got) != len(head)+len(pay) {
						return rp.Fail(i, "[%s] frame %d: Encode of %d raw bytes (% x..) returned %d bytes, the ISO frame has %d", mode, inst, len(pay), pay[:min(len(pay), 8)], len(got), len(head)+len(pay))
					}
					// the header fields the property names, against ISO 13818-7 6.2
					for j := 0; j < 7; j++ {
						mk := byte(cs.Mask[j])
						if got[j]&mk != head[j]&mk {
							return rp.Fail(i, "[%s] frame %d: Encode header byte %d is %#02x, ISO layout %#02x under mask %#02x (asc % x, %d raw bytes; header % x, want % x)",
								mode, inst, j, got[j], head[j], mk, asc, len(pay), got[:7], head[:7])
						}
					}
					if !bytes.Equal(got[7:], pay) {
						return rp.Fail(i, "[%s] frame %d: Encode output after the header is not the raw block: %s", mode, inst, rp.FirstDiff(got[7:], pay))
					}
					frame = got
				default:
					panic("unknown writer " + f.By)
				}
				offs = append(offs, len(stream))
				pays = append(pays, pay)
				kinds = append(kinds, k)
				runEnd = append(runEnd, cy == cyc-1 && r == rep-1)
				stream = append(stream, frame...)
			}
		}
	}
	if cs.Total != 0 && cs.Total != len(stream) {
		panic(fmt.Sprintf("stream of %d bytes, specification says %d", len(stream), cs.Total))
	}

	// one demuxer, one buffer: every Decode gets what the one before left
	pristine := append([]byte(nil), stream...)
	long := len(stream) > 1<<15
	d, err := aac.NewADTS()
	if err != nil {
		return rp.Fail(i, "NewADTS: %v", err)
	}
	rest := stream
	for n, k := range kinds {
		if n&1023 == 1023 {
			rp.Alive()
		}
		f := &cs.Frames[k]
		end := offs[n] + f.Exp.Size
		wantLeft := len(pristine) - end
		if runEnd[n] && wantLeft != f.Exp.Left {
			panic(fmt.Sprintf("frame %d: %d bytes follow, specification says %d", n, wantLeft, f.Exp.Left))
		}
		desc := func() string {
			return fmt.Sprintf("[%s] frame %d/%d at offset %d of %d (%s, protection_absent=%d, profile=%d sfi=%d channels=%d, %d raw bytes, header % x; Decode was given %d bytes)",
				mode, n, len(kinds), offs[n], len(pristine), f.By, f.Exp.Prot, f.Exp.Profile, f.Exp.Sfi, f.Exp.Chan, f.Exp.Raw.N, pristine[offs[n]:offs[n]+7], len(rest))
		}
		raw, left, err := d.Decode(rest)
		if err != nil {
			return rp.Result{OK: false, What: fmt.Sprintf("%s: Decode failed: %v", desc(), err), Deviation: crcDeviation(f, pristine[offs[n]:end], pays[n])}
		}
		if !bytes.Equal(raw, pays[n]) {
			return rp.Result{OK: false, What: fmt.Sprintf("%s: raw block differs: %s", desc(), rp.FirstDiff(raw, pays[n])),
				Deviation: crcDeviation(f, pristine[offs[n]:end], pays[n]), Observed: map[string]int{"raw": len(raw), "left": len(left)}}
		}
		// the remainder: exactly the following frames (a remainder that IS the tail of the buffer handed in needs no
		// byte comparison of its own: the buffer is compared with its pristine copy below)
		if len(left) != wantLeft || !(len(left) > 0 && long && &left[0] == &stream[end]) && !bytes.Equal(left, pristine[end:]) {
			return rp.Fail(i, "%s: remainder has %d bytes, specification: %d bytes (the following frames): %s", desc(), len(left), wantLeft, rp.FirstDiff(left, pristine[end:]))
		}
		if len(left) > 0 && (len(left) < 2 || left[0] != 0xff || left[1]&0xf0 != 0xf0) {
			return rp.Fail(i, "%s: remainder does not start at a sync word: % x", desc(), left[:2])
		}
		a := d.ASC()
		if a == nil {
			return rp.Fail(i, "%s: ASC() is nil after Decode", desc())
		}
		if int(a.Object.ToProfile()) != f.Exp.Profile || int(a.SampleRate) != f.Exp.Sfi || int(a.Channels) != f.Exp.Chan {
			return rp.Fail(i, "%s: Decode reports %s (ADTS profile %d), want profile=%d sfi=%d channels=%d", desc(), ascString(a), a.Object.ToProfile(), f.Exp.Profile, f.Exp.Sfi, f.Exp.Chan)
		}
		if a.SampleRate.ToHz() != f.Exp.Hz {
			return rp.Fail(i, "%s: sampling index %d converts to %d Hz, ISO table: %d", desc(), a.SampleRate, a.SampleRate.ToHz(), f.Exp.Hz)
		}
		// long streams: this frame and the head of the next one now, the whole buffer after the last frame
		lo, hi := 0, len(stream)
		if long {
			lo, hi = offs[n], min(end+16, len(stream))
		}
		if !bytes.Equal(stream[lo:hi], pristine[lo:hi]) {
			return rp.Fail(i, "%s: Decode modified the stream: %s", desc(), rp.FirstDiff(stream[lo:hi], pristine[lo:hi]))
		}
		rest = left
	}
	if len(rest) != 0 {
		return rp.Fail(i, "[%s] %d bytes left over after the last frame", mode, len(rest))
	}
	if !bytes.Equal(stream, pristine) {
		return rp.Fail(i, "[%s] Decode modified the stream: %s", mode, rp.FirstDiff(stream, pristine))
	}

	// the configuration Decode left in the object is an accepted one: Encode with it round-trips too
	lastF := &cs.Frames[len(cs.Frames)-1]
	lastPay := pays[len(pays)-1]
	again, err := d.Encode(lastPay)
	if err != nil {
		return rp.Fail(i, "[%s] Encode with the configuration left by Decode (%s) failed: %v", mode, ascString(d.ASC()), err)
	}
	d2, _ := aac.NewADTS()
	raw, left, err := d2.Decode(again)
	if err != nil || !bytes.Equal(raw, lastPay) || len(left) != 0 {
		return rp.Fail(i, "[%s] re-encoded frame (%s, %d raw bytes) does not decode back: err=%v raw %d bytes, %d left", mode, ascString(d.ASC()), len(lastPay), err, len(raw), len(left))
	}
	if a := d2.ASC(); int(a.Object.ToProfile()) != lastF.Exp.Profile || int(a.SampleRate) != lastF.Exp.Sfi || int(a.Channels) != lastF.Exp.Chan {
		return rp.Fail(i, "[%s] re-encoded frame reports %s, want profile=%d sfi=%d channels=%d", mode, ascString(a), lastF.Exp.Profile, lastF.Exp.Sfi, lastF.Exp.Chan)
	}
	return rp.Result{OK: true}
}

// crcDeviation names the known deviation "CRC header counted as 7 bytes" when the library behaves exactly
// like it: with two more bytes behind the frame, a CRC frame yields its raw block plus those two bytes.
func crcDeviation(f *adtsFrame, frame, pay []byte) (dev string) {
	if f.Exp.Prot != 0 {
		return ""
	}
	defer func() {
		if recover() != nil {
			dev = ""
		}
	}()
	d, _ := aac.NewADTS()
	probe := append(append([]byte(nil), frame...), 0xa5, 0x5a)
	raw, left, err := d.Decode(probe)
	if err == nil && len(left) == 0 && len(raw) == len(pay)+2 && bytes.Equal(raw[:len(pay)], pay) {
		return devCrcHeader
	}
	return ""
}

func replayAsc(i int, raw json.RawMessage) rp.Result {
	var cs struct {
		B0  int     `json:"b0"`
		Exp [][]int `json:"exp"`
	}
	if err := json.Unmarshal(raw, &cs); err != nil {
		panic(err)
	}
	if len(cs.Exp) != 256 {
		panic("asc case without 256 expectations")
	}
	for b1, e := range cs.Exp {
		in := []byte{byte(cs.B0), byte(b1)}
		acc, obj, sfi, ch := e[0] == 1, e[1], e[2], e[3]
		canon := []byte{byte(e[4]), byte(e[5])}
		var a aac.AudioSpecificConfig
		err := a.UnmarshalBinary(in)
		m, _ := aac.NewADTS()
		errSet := m.SetASC(in)
		if !acc {
			if err == nil {
				return rp.Fail(i, "AudioSpecificConfig % x (object=%d sfi=%d channels=%d) is outside the accepted set but UnmarshalBinary accepted it as %s", in, obj, sfi, ch, ascString(&a))
			}
			if errSet == nil {
				return rp.Fail(i, "AudioSpecificConfig % x (object=%d sfi=%d channels=%d) is outside the accepted set but SetASC accepted it", in, obj, sfi, ch)
			}
			continue
		}
		if err != nil {
			return rp.Fail(i, "AudioSpecificConfig % x (object=%d sfi=%d channels=%d) is accepted by the specification, UnmarshalBinary: %v", in, obj, sfi, ch, err)
		}
		if errSet != nil {
			return rp.Fail(i, "AudioSpecificConfig % x is accepted by the specification, SetASC: %v", in, errSet)
		}
		for _, p := range []*aac.AudioSpecificConfig{&a, m.ASC()} {
			if int(p.Object) != obj || int(p.SampleRate) != sfi || int(p.Channels) != ch {
				return rp.Fail(i, "AudioSpecificConfig % x decoded as %s, want object=%d sfi=%d channels=%d", in, ascString(p), obj, sfi, ch)
			}
		}
		out, err := a.MarshalBinary()
		if err != nil {
			return rp.Fail(i, "MarshalBinary of the accepted %s failed: %v", ascString(&a), err)
		}
		if !bytes.Equal(out, canon) {
			return rp.Fail(i, "AudioSpecificConfig % x re-marshalled as % x, want % x (13 significant bits)", in, out, canon)
		}
	}
	return rp.Result{OK: true}
}

func replayAscMarshal(i int, raw json.RawMessage) rp.Result {
	var cs struct {
		Obj int     `json:"obj"`
		Exp [][]int `json:"exp"`
	}
	if err := json.Unmarshal(raw, &cs); err != nil {
		panic(err)
	}
	for _, e := range cs.Exp {
		sfi, ch, acc := e[0], e[1], e[2] == 1
		a := aac.AudioSpecificConfig{Object: aac.ObjectType(cs.Obj), SampleRate: aac.SampleRateIndex(sfi), Channels: aac.Channels(ch)}
		out, err := a.MarshalBinary()
		if !acc {
			if err == nil {
				return rp.Fail(i, "MarshalBinary of object=%d sfi=%d channels=%d (outside the accepted set) returned % x instead of an error", cs.Obj, sfi, ch, out)
			}
			continue
		}
		want := []byte{byte(e[3]), byte(e[4])}
		if err != nil {
			return rp.Fail(i, "MarshalBinary of the accepted object=%d sfi=%d channels=%d failed: %v", cs.Obj, sfi, ch, err)
		}
		if !bytes.Equal(out, want) {
			return rp.Fail(i, "MarshalBinary of object=%d sfi=%d channels=%d is % x, ISO layout % x", cs.Obj, sfi, ch, out, want)
		}
		var b aac.AudioSpecificConfig
		if err := b.UnmarshalBinary(out); err != nil || b != a {
			return rp.Fail(i, "UnmarshalBinary(MarshalBinary(object=%d sfi=%d channels=%d)) = %s, err=%v", cs.Obj, sfi, ch, ascString(&b), err)
		}
	}
	return rp.Result{OK: true}
}

func replayHz(i int, raw json.RawMessage) rp.Result {
	var cs struct {
		Table []int `json:"table"`
		Total int   `json:"total"`
	}
	if err := json.Unmarshal(raw, &cs); err != nil {
		panic(err)
	}
	for v := 0; v < cs.Total; v++ {
		hz, perr := func() (hz int, perr interface{}) {
			defer func() { perr = recover() }()
			_ = aac.SampleRateIndex(v).String()
			return aac.SampleRateIndex(v).ToHz(), nil
		}()
		if perr != nil {
			return rp.Fail(i, "SampleRateIndex(%d).ToHz() panics: %v", v, perr)
		}
		if v < len(cs.Table) && hz != cs.Table[v] {
			return rp.Fail(i, "SampleRateIndex(%d).ToHz() = %d, ISO table: %d", v, hz, cs.Table[v])
		}
	}
	return rp.Result{OK: true}
}

func replayConv(i int, raw json.RawMessage) rp.Result {
	var cs struct {
		Profile []int `json:"profile"`
		Obj     []int `json:"obj"`
	}
	if err := json.Unmarshal(raw, &cs); err != nil {
		panic(err)
	}
	for o, want := range cs.Profile {
		p, perr := func() (p aac.Profile, perr interface{}) {
			defer func() { perr = recover() }()
			_ = aac.ObjectType(o).String()
			_ = aac.Profile(o).String()
			_ = aac.Channels(o).String()
			_ = aac.Profile(o).ToObjectType()
			return aac.ObjectType(o).ToProfile(), nil
		}()
		if perr != nil {
			return rp.Fail(i, "conversions of value %d panic: %v", o, perr)
		}
		if want != 255 && int(p) != want {
			return rp.Fail(i, "ObjectType(%d).ToProfile() = %d, ADTS profile of that object type is %d", o, p, want)
		}
	}
	for p, want := range cs.Obj {
		if got := aac.Profile(p).ToObjectType(); int(got) != want {
			return rp.Fail(i, "Profile(%d).ToObjectType() = %d, want %d", p, got, want)
		}
		if back := aac.Profile(p).ToObjectType().ToProfile(); int(back) != p {
			return rp.Fail(i, "Profile(%d).ToObjectType().ToProfile() = %d", p, back)
		}
	}
	return rp.Result{OK: true}
}

func init() {
	registry["adts"] = func(c *rp.Ctx, i int, raw json.RawMessage) rp.Result {
		var cs adtsCase
		if err := json.Unmarshal(raw, &cs); err != nil {
			panic(err)
		}
		switch cs.Kind {
		case "asc":
			return replayAsc(i, raw)
		case "ascm":
			return replayAscMarshal(i, raw)
		case "hz":
			return replayHz(i, raw)
		case "conv":
			return replayConv(i, raw)
		case "stream":
			if len(cs.Frames) == 0 || len(cs.Mask) != 7 {
				panic("malformed stream case")
			}
			for _, mode := range []string{"pattern", "sync", "random"} {
				if r := replayStream(c, i, &cs, mode); !r.OK {
					return r
				}
			}
			return rp.Result{OK: true}
		}
		panic("unknown kind " + cs.Kind)
	}
}
