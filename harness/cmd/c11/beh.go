package main

import (
	"bytes"
	"encoding/json"
	"fmt"

	"github.com/ossrs/go-oryx-lib/aac"
	"verifharness/ld"
	"verifharness/rp"
)

// Behaviours of spec/aac/Adts.tla (Gen_AdtsBeh.tla): one ADTS object and one byte stream are stepped through
// SetASC / Encode / Write (the independent ISO writer) / Decode; after every step the object's configuration,
// the result class and the number of bytes in the stream must equal the specification's.

type behStep struct {
	Op      string          `json:"op"`
	B       []int           `json:"b"`
	Res     string          `json:"res"`
	Asc     []int           `json:"asc"`
	Profile int             `json:"profile"`
	Wl      int             `json:"wl"`
	Np      int             `json:"np"`
	Prot    int             `json:"prot"`
	Ld      json.RawMessage `json:"ld"`
	Hf      int             `json:"hf"` // header fields of ld; the rest is the raw data block
	Mask    []int           `json:"mask"`
	Raw     struct {
		N  int `json:"n"`
		ID int `json:"id"`
	} `json:"raw"`
	Ok bool `json:"ok"`
	Hz int  `json:"hz"`
}

func replayBeh(c *rp.Ctx, i int, steps []behStep, mode string) rp.Result {
	obj, err := aac.NewADTS()
	if err != nil {
		return rp.Fail(i, "NewADTS: %v", err)
	}
	var stream []byte
	type pendFrame struct {
		pay   []byte
		frame []byte
	}
	var pend []pendFrame
	for k := range steps {
		s := &steps[k]
		at := fmt.Sprintf("[%s] step %d %s", mode, k, s.Op)
		switch s.Op {
		case "setasc":
			b := []byte{byte(s.B[0]), byte(s.B[1])}
			err := obj.SetASC(b)
			if (err == nil) != (s.Res == "ok") {
				return rp.Fail(i, "%s(% x): err=%v, specification: %s", at, b, err, s.Res)
			}
			if err == nil {
				if a := obj.ASC(); int(a.Object) != s.Asc[0] || int(a.SampleRate) != s.Asc[1] || int(a.Channels) != s.Asc[2] {
					return rp.Fail(i, "%s(% x): configuration is %s, want %v", at, b, ascString(a), s.Asc)
				}
			}
		case "encode", "write":
			l, err := ld.Parse(s.Ld)
			if err != nil {
				panic(err)
			}
			head, pay := splitFrame(l, s.Hf, mode, c.Seed, i, 0, nil)
			n := len(pay)
			if s.Op == "encode" && n != s.Raw.N {
				panic(fmt.Sprintf("raw block layout of %d bytes, specification says %d", n, s.Raw.N))
			}
			want := append(append([]byte(nil), head...), pay...)
			frame := want
			if s.Op == "encode" {
				got, err := obj.Encode(pay)
				if err != nil {
					return rp.Fail(i, "%s of %d raw bytes with %s failed: %v", at, n, ascString(obj.ASC()), err)
				}
				if len(got) != len(want) {
					return rp.Fail(i, "%s of %d raw bytes with %s returned %d bytes, the ISO frame has %d", at, n, ascString(obj.ASC()), len(got), len(want))
				}
				for j := 0; j < 7; j++ {
					mk := byte(s.Mask[j])
					if got[j]&mk != want[j]&mk {
						return rp.Fail(i, "%s with %s: header byte %d is %#02x, ISO layout %#02x under mask %#02x (header % x, want % x)", at, ascString(obj.ASC()), j, got[j], want[j], mk, got[:7], want[:7])
					}
				}
				if !bytes.Equal(got[7:], pay) {
					return rp.Fail(i, "%s: output after the header is not the raw block: %s", at, rp.FirstDiff(got[7:], pay))
				}
				frame = got
				c.Hold(i, fmt.Sprintf("frame returned by %s", at), got) // the caller's: later Encode calls must not write to it
			}
			stream = append(append([]byte(nil), stream...), frame...)
			pend = append(pend, pendFrame{pay, frame})
		case "decode":
			if len(pend) == 0 || !s.Ok {
				panic("specification decodes without a pending frame")
			}
			before := append([]byte(nil), stream...)
			raw, left, err := obj.Decode(stream)
			head := pend[0]
			pend = pend[1:]
			fr := &adtsFrame{}
			fr.Exp.Prot = s.Prot
			if err != nil {
				return rp.Result{OK: false, What: fmt.Sprintf("%s (protection_absent=%d, %d raw bytes, header % x): %v", at, s.Prot, s.Raw.N, head.frame[:7], err), Deviation: crcDeviation(fr, head.frame, head.pay)}
			}
			if len(head.pay) != s.Raw.N || !bytes.Equal(raw, head.pay) {
				return rp.Result{OK: false, What: fmt.Sprintf("%s (protection_absent=%d, %d raw bytes, header % x): raw block differs: %s", at, s.Prot, s.Raw.N, head.frame[:7], rp.FirstDiff(raw, head.pay)), Deviation: crcDeviation(fr, head.frame, head.pay)}
			}
			if len(left) != s.Wl || !bytes.Equal(left, before[len(before)-s.Wl:]) {
				return rp.Fail(i, "%s: remainder has %d bytes, specification: the %d bytes of the %d pending frames: %s", at, len(left), s.Wl, s.Np, rp.FirstDiff(left, before[len(before)-s.Wl:]))
			}
			if len(left) > 0 && (left[0] != 0xff || left[1]&0xf0 != 0xf0) {
				return rp.Fail(i, "%s: remainder does not start at a sync word: % x", at, left[:2])
			}
			if hz := obj.ASC().SampleRate.ToHz(); hz != s.Hz {
				return rp.Fail(i, "%s: sampling index %d converts to %d Hz, ISO table: %d", at, obj.ASC().SampleRate, hz, s.Hz)
			}
			stream = left
		default:
			panic("unknown op " + s.Op)
		}
		// abstract state after the step
		if len(stream) != s.Wl {
			return rp.Fail(i, "%s: stream holds %d bytes, specification %d", at, len(stream), s.Wl)
		}
		rp.Alive()
		if s.Res == "ok" {
			a := obj.ASC()
			if int(a.Object.ToProfile()) != s.Profile || int(a.SampleRate) != s.Asc[1] || int(a.Channels) != s.Asc[2] {
				return rp.Fail(i, "%s: object reports %s (ADTS profile %d), specification: profile=%d sfi=%d channels=%d", at, ascString(a), a.Object.ToProfile(), s.Profile, s.Asc[1], s.Asc[2])
			}
		}
	}
	return rp.Result{OK: true}
}

func init() {
	registry["adtsbeh"] = func(c *rp.Ctx, i int, raw json.RawMessage) rp.Result {
		var cs struct {
			Kind  string    `json:"kind"`
			Steps []behStep `json:"steps"`
		}
		if err := json.Unmarshal(raw, &cs); err != nil {
			panic(err)
		}
		if cs.Kind != "beh" || len(cs.Steps) == 0 {
			panic("malformed behaviour case")
		}
		for _, mode := range []string{"pattern", "sync", "random"} {
			if r := replayBeh(c, i, cs.Steps, mode); !r.OK {
				return r
			}
		}
		return rp.Result{OK: true}
	}
}
