package main

import (
	"encoding/json"
	"fmt"

	"github.com/ossrs/go-oryx-lib/amf0"
	"verifharness/amf0x"
	"verifharness/ld"
	"verifharness/rp"
)

// C05: AMF0 values round-trip and report their exact encoded size, against
// spec/amf0/Amf0.tla with the library's own strict-array layout (StrictKeyed = TRUE).

var registry = map[string]rp.Replayer{}
var batchRegistry = map[string]rp.Batch{}

func main() { rp.Main(registry, batchRegistry) }

func init() {
	registry["amf0"] = func(c *rp.Ctx, i int, raw json.RawMessage) rp.Result {
		cs := amf0x.ParseCase(raw)
		switch cs.Kind {
		case "tree":
			return tree(c, i, cs)
		case "raw":
			return rawCase(c, i, cs)
		case "live":
			return liveCase(c, i, cs)
		}
		amf0x.Broken("unknown case kind %q", cs.Kind)
		return rp.Result{}
	}
}

// marshalled checks MarshalBinary and Size() of a value against the specification's bytes.
// Positions the format leaves to the writer (free: the ECMA associative count) are not compared.
func marshalled(i int, who string, a amf0.Amf0, want []byte, free []bool) ([]byte, *rp.Result) {
	// Size() first: it must not depend on a previous MarshalBinary
	if n := a.Size(); n != len(want) {
		r := rp.Fail(i, "%s: Size() = %d before marshalling, the specification's encoding has %d bytes", who, n, len(want))
		return nil, &r
	}
	got, err := a.MarshalBinary()
	if err != nil {
		r := rp.Fail(i, "%s: MarshalBinary failed: %v", who, err)
		return nil, &r
	}
	if d := ld.DiffFree(got, want, free); d != "" {
		r := rp.Fail(i, "%s: MarshalBinary differs from the specification's encoding: %s", who, d)
		return nil, &r
	}
	if n := a.Size(); n != len(got) {
		r := rp.Fail(i, "%s: Size() = %d but MarshalBinary wrote %d bytes", who, n, len(got))
		return nil, &r
	}
	return got, nil
}

// decodedAs checks one decoding: success, Size() = consumed, the tree, and the bytes it marshals to.
// canon: what the decoded value must marshal to, positions marked free excepted (nil: every byte counts).
func decodedAs(i int, who string, stream []byte, v *amf0x.Node, size int, canon []byte, free []bool, seed int) (amf0x.Decoded, *rp.Result) {
	d := amf0x.Decode(stream)
	if !d.OK {
		r := rp.Fail(i, "%s: decoding %d bytes failed: %v", who, len(stream), d.Err)
		return d, &r
	}
	if d.Size != size {
		r := rp.Fail(i, "%s: Size() after decoding = %d, the decoder consumed %d bytes (a caller advancing by Size() is misaligned)", who, d.Size, size)
		return d, &r
	}
	if err := amf0x.Same(v, d.Value, seed, "v"); err != nil {
		r := rp.Fail(i, "%s: decoded tree differs: %v", who, err)
		return d, &r
	}
	again, err := d.Value.MarshalBinary()
	if err != nil {
		r := rp.Fail(i, "%s: marshalling the decoded value failed: %v", who, err)
		return d, &r
	}
	if df := ld.DiffFree(again, canon, free); df != "" {
		r := rp.Fail(i, "%s: marshalling the decoded value does not reproduce the bytes (names, order, values): %s", who, df)
		return d, &r
	}
	if n := d.Value.Size(); n != size {
		r := rp.Fail(i, "%s: Size() = %d after re-marshalling, want %d", who, n, size)
		return d, &r
	}
	return d, nil
}

func tree(c *rp.Ctx, i int, cs *amf0x.Case) rp.Result {
	seed := c.Seed
	want, free := amf0x.MustLDFree(cs.Enc, seed)
	if len(want) != cs.Size {
		amf0x.Broken("case %d: encoding has %d bytes, size says %d", i, len(want), cs.Size)
	}
	// model -> code: the tree built through the public API marshals to exactly these Size() bytes
	if cs.API {
		got, f := marshalled(i, "tree built with New*/Set", amf0x.Build(&cs.V, seed), want, free)
		if f != nil {
			return *f
		}
		// ... and unmarshalling THOSE bytes yields an equal tree whose re-marshalling reproduces them, every byte
		if _, f := decodedAs(i, "the bytes the library marshalled", got, &cs.V, cs.Size, got, nil, seed); f != nil {
			return *f
		}
		if len(cs.Calls) > 0 {
			// the behaviour itself, Set replacing values of existing names
			got, f := marshalled(i, fmt.Sprintf("behaviour of %d New/Set calls", len(cs.Calls)), amf0x.Replay(cs.Calls, seed), want, free)
			if f != nil {
				return *f
			}
			if _, f := decodedAs(i, "the bytes the library marshalled after the New/Set calls", got, &cs.V, cs.Size, got, nil, seed); f != nil {
				return *f
			}
		}
	} else if len(cs.Calls) > 0 {
		amf0x.Broken("case %d: a behaviour of the builder that is not buildable", i)
	}
	// the bytes alone
	dec, f := decodedAs(i, "exact bytes", want, &cs.V, cs.Size, want, free, seed)
	if f != nil {
		return *f
	}
	// a decoded tree is a value like any other: after growing a container BELOW the root through the public API,
	// the root still marshals to exactly Size() bytes (no size remembered from decoding)
	if r := editedBelowRoot(i, dec.Value, &cs.V, seed); r != nil {
		return *r
	}
	// stray bytes behind the value are not its business
	trail := amf0x.MustLD(cs.Trail, seed)
	if _, f := decodedAs(i, fmt.Sprintf("with %d trailing bytes", len(trail)), amf0x.Cat(want, trail), &cs.V, cs.Size, want, free, seed); f != nil {
		return *f
	}
	// the way rtmp's command parsers walk a message: decode, advance by Size(), decode the next field
	if cs.Next != nil {
		next, freeNext := amf0x.MustLDFree(cs.EncNext, seed)
		if len(next) != cs.SizeNext {
			amf0x.Broken("case %d: next encoding has %d bytes, size_next says %d", i, len(next), cs.SizeNext)
		}
		stream := amf0x.Cat(want, next, trail)
		d, f := decodedAs(i, "followed by another value", stream, &cs.V, cs.Size, want, free, seed)
		if f != nil {
			return *f
		}
		if d.Size > len(stream) {
			return rp.Fail(i, "Size() = %d exceeds the %d bytes that were decoded", d.Size, len(stream))
		}
		if _, f := decodedAs(i, fmt.Sprintf("the value that follows at offset Size() = %d", d.Size), stream[d.Size:], cs.Next, cs.SizeNext, next, freeNext, seed); f != nil {
			return *f
		}
	}
	return rp.Result{OK: true, Nontriv: true}
}

// liveCase: a history of calls on live objects (spec/amf0/Amf0Live.tla). Whatever was marshalled, changed below,
// decoded or moved before: the node the behaviour observes reports Size() = the size of the value it has NOW and
// marshals to exactly those bytes.
func liveCase(c *rp.Ctx, i int, cs *amf0x.Case) rp.Result {
	k, what := amf0x.RunLive(cs.Steps, c.Seed, func(k int, st *amf0x.Step, a amf0.Amf0) string {
		want, free := amf0x.MustLDFree(st.Enc, c.Seed)
		if len(want) != st.Size {
			amf0x.Broken("case %d step %d: encoding has %d bytes, size says %d", i, k, len(want), st.Size)
		}
		got, f := marshalled(i, fmt.Sprintf("node #%d", st.N), a, want, free)
		if f != nil {
			return f.What
		}
		// the bytes belong to the caller: later calls of the history must not change them
		c.Hold(i, fmt.Sprintf("bytes MarshalBinary returned for node #%d at step %d", st.N, k), got)
		return ""
	})
	if k >= 0 {
		return rp.Fail(i, "history [%s]: step %d: %s", amf0x.History(cs.Steps, k), k, what)
	}
	return rp.Result{OK: true, Nontriv: true}
}

// rawCase: a decodable encoding that is not the canonical one (boolean byte other than 0 / 1).
func rawCase(c *rp.Ctx, i int, cs *amf0x.Case) rp.Result {
	wire := amf0x.MustLD(cs.Wire, c.Seed)
	canon, free := amf0x.MustLDFree(cs.Enc, c.Seed)
	if len(wire) != cs.Size {
		amf0x.Broken("case %d: wire has %d bytes, size says %d", i, len(wire), cs.Size)
	}
	if _, f := decodedAs(i, "non-canonical bytes", amf0x.Cat(wire, []byte{0, 0, 9}), &cs.V, cs.Size, canon, free, c.Seed); f != nil {
		return *f
	}
	return rp.Result{OK: true, Nontriv: true}
}

type getter interface {
	Get(string) amf0.Amf0
}

// editedBelowRoot grows the first nested container of a decoded tree and compares Size() with the marshalled length
// on the root and on the edited container.
func editedBelowRoot(i int, root amf0.Amf0, n *amf0x.Node, seed int) *rp.Result {
	g, ok := root.(getter)
	if !ok {
		return nil
	}
	seen := map[string]bool{}
	for _, p := range n.P {
		key := amf0x.Text(p.K, seed)
		if seen[key] {
			continue // a repeated name: Get finds the first one only
		}
		seen[key] = true
		if p.V.T != "obj" && p.V.T != "ecma" && p.V.T != "strictk" {
			continue
		}
		child := g.Get(key)
		switch c := child.(type) {
		case *amf0.Object:
			c.Set("grown-after-decoding", amf0.NewString("0123456789abcdef"))
		case *amf0.EcmaArray:
			c.Set("grown-after-decoding", amf0.NewString("0123456789abcdef"))
		case *amf0.StrictArray:
			c.Set("grown-after-decoding", amf0.NewString("0123456789abcdef"))
		default:
			return nil
		}
		for who, v := range map[string]amf0.Amf0{"the root": root, "the edited container": child} {
			b, err := v.MarshalBinary()
			if err != nil {
				r := rp.Fail(i, "after growing a nested container of a decoded tree, marshalling %s failed: %v", who, err)
				return &r
			}
			if v.Size() != len(b) {
				r := rp.Fail(i, "after growing a nested container of a decoded tree, %s marshals to %d bytes but Size() = %d", who, len(b), v.Size())
				return &r
			}
		}
		return nil
	}
	return nil
}
