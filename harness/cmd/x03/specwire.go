package main

import (
	"encoding/binary"
	"encoding/json"
	"fmt"

	"verifharness/ld"
	"verifharness/rp"
)

// Stage "specwire": the loop model -> bytes -> tokenizer -> model. Chunk streams written by the specification's own
// sender (ConformantSend of spec/rtmp/RtmpChunk.tla with every header type and basic-header form, rendered to bytes by
// ChunkLD - the wires C02 feeds to the library's reader) go through the same tokenizer and recorder as the library's
// output. Undoctored they must all be accepted by Trace_RtmpWriter (the acceptor is not fitted to the fmt 0 / fmt 3
// shape of the library's writer); doctored (doctor.go) each must be rejected.

type specCase struct {
	Name   string            `json:"name"`
	Wire   []json.RawMessage `json:"wire"`
	Expect []struct {
		ID   int   `json:"id"`
		Type int   `json:"type"`
		Sid  int64 `json:"sid"`
		Ts   int64 `json:"ts"`
		Len  int   `json:"len"`
	} `json:"expect"`
	Err       string          `json:"err"`
	RawBodies json.RawMessage `json:"bodies"`
	Doctor    string          `json:"doctor"`
}

func init() {
	batchRegistry["specwire"] = func(c *rp.Ctx, cases []json.RawMessage) []rp.Result {
		if c.Dir == "" {
			rp.Bug("specwire needs -dir")
		}
		tw := newTraceWriter(c.Dir)
		defer tw.close()
		nextID := 0
		var res []rp.Result
		for i, raw := range cases {
			var cs specCase
			if err := json.Unmarshal(raw, &cs); err != nil {
				panic(err)
			}
			if cs.Err != "no" {
				rp.Bug("specwire case %d is not a conformant wire (%s)", i, cs.Err)
			}
			bodies := map[string]struct {
				Ctl string `json:"ctl"`
				Scs int64  `json:"scs"`
			}{}
			if len(cs.RawBodies) > 0 && cs.RawBodies[0] == '{' { // an empty TLA+ function is rendered as []
				if err := json.Unmarshal(cs.RawBodies, &bodies); err != nil {
					panic(err)
				}
			}
			var wire []byte
			for _, ch := range cs.Wire {
				l, err := ld.Parse(ch)
				if err != nil {
					panic(err)
				}
				wire = append(wire, l.Must(0)...)
			}
			var app []appMsg
			for _, e := range cs.Expect {
				nextID++
				a := appMsg{ID: nextID, Type: e.Type, Sid: e.Sid, Ts: e.Ts, Len: e.Len, Ctl: "none"}
				switch b := bodies[fmt.Sprint(e.ID)]; b.Ctl {
				case "":
					a.body = ld.FillBytes(e.Len, e.ID, 0)
				case "scs":
					a.Ctl, a.Scs = "scs", b.Scs
					a.body = binary.BigEndian.AppendUint32(nil, uint32(b.Scs))
				case "uc":
					a.body = []byte{0, 6, 0, 0, 0, byte(e.ID % 256)}
				case "ack":
					a.body = binary.BigEndian.AppendUint32(nil, 2500000)
				default:
					rp.Bug("unknown control body %q", b.Ctl)
				}
				if len(a.body) != e.Len {
					rp.Bug("specwire case %d: body of message %d has %d bytes, specification says %d", i, e.ID, len(a.body), e.Len)
				}
				app = append(app, a)
			}
			if cs.Doctor != "" {
				w2, ok := doctor(cs.Doctor, cs.Name, wire)
				if !ok {
					res = append(res, rp.Result{I: i, OK: false, What: "not applicable"})
					continue
				}
				wire = w2
			}
			res = append(res, rp.Result{I: i, OK: true, Info: tw.session(cs.Name, i, app, wire)})
		}
		return res
	}
}
