package main

import "verifharness/rp"

// Binding self-test: named deviations applied to conformant bytes (written by the specification's own sender,
// so the self-test does not depend on the library under test). Each of them must make Trace_RtmpWriter reject
// the trace; a doctored trace that is accepted means the check binds nothing.
// The positions come from tokenising the undoctored bytes. ok = false: the wire offers no chunk to apply it to.
func doctor(what, name string, wire []byte) (out []byte, ok bool) {
	toks, jk := tokenizeAll(wire)
	if jk != nil {
		rp.Bug("doctor %s: session %s is not clean before doctoring: %+v", what, name, *jk)
	}
	cut := func(from, n int) []byte {
		o := append([]byte(nil), wire[:from]...)
		return append(o, wire[from+n:]...)
	}
	ins := func(at int, b ...byte) []byte {
		o := append([]byte(nil), wire[:at]...)
		o = append(o, b...)
		return append(o, wire[at:]...)
	}
	switch what {
	case "ext-timestamp-dropped":
		// a chunk announces an extended timestamp (field 0xFFFFFF) and does not carry it
		for _, t := range toks {
			if t.Ext >= 0 && t.Fmt <= 2 {
				return cut(t.At+t.Hl-4, 4), true
			}
		}
	case "ext-timestamp-dropped-c3":
		// the writer of the RTMP 1.0 text: no extended timestamp in fmt-3 chunks (the specification models Adobe's behaviour)
		for _, t := range toks {
			if t.Ext >= 0 && t.Fmt == 3 {
				return cut(t.At+t.Hl-4, 4), true
			}
		}
	case "ext-timestamp-added":
		// four extra bytes after a header whose timestamp field is not 0xFFFFFF
		for _, t := range toks {
			if t.Ext < 0 && t.Fmt == 0 && t.Tsf >= 0 {
				return ins(t.At+t.Hl, byte(t.Tsf>>24), byte(t.Tsf>>16), byte(t.Tsf>>8), byte(t.Tsf)), true
			}
		}
	case "timestamp-little-endian":
		for _, t := range toks {
			if t.Fmt <= 2 && t.Tsf>>16 != t.Tsf&0xff {
				o := append([]byte(nil), wire...)
				p := t.At + t.Bl
				o[p], o[p+2] = o[p+2], o[p]
				return o, true
			}
		}
	case "wrong-chunk-cut":
		// the first chunk of a message of several chunks carries one byte more than the chunk size in force
		for k, t := range toks {
			if t.Fmt == 3 && t.Off > 0 && t.Pay >= 1 && t.Hl == 1 && k > 0 {
				o := append([]byte(nil), wire...)
				o[t.At], o[t.At+1] = o[t.At+1], o[t.At]
				return o, true
			}
		}
	case "continuation-header-dropped":
		for _, t := range toks {
			if t.Fmt == 3 && t.Off > 0 {
				return cut(t.At, t.Hl), true
			}
		}
	case "stream-id-big-endian":
		for _, t := range toks {
			if t.Fmt == 0 && t.Sid > 0 && t.Sid&0xff != t.Sid>>24 {
				o := append([]byte(nil), wire...)
				p := t.At + t.Bl + 7
				o[p], o[p+1], o[p+2], o[p+3] = o[p+3], o[p+2], o[p+1], o[p]
				return o, true
			}
		}
	default:
		rp.Bug("unknown doctoring %q", what)
	}
	return nil, false
}
