package main

import (
	"bufio"
	"bytes"
	"encoding/binary"
	"encoding/json"
	"fmt"
	"os"
	"path/filepath"

	"github.com/ossrs/go-oryx-lib/rtmp"
	"verifharness/rp"
	"verifharness/rtmpx"
	"verifharness/transport"
)

// X03 (extra check): code -> model trace validation of the bytes the library's chunk writer produces.
// A session (a sequence of application writes chosen by TLC, or of real packets) is written by a real
// rtmp.Protocol through WriteMessage / WritePacket into a recording stream; the bytes are tokenised
// (tokenizer.go) and recorded as one ndjson trace that spec/rtmp/Trace_RtmpWriter.tla accepts or rejects.

var registry = map[string]rp.Replayer{}
var batchRegistry = map[string]rp.Batch{}

func main() { rp.Main(registry, batchRegistry) }

type step struct {
	M      *rtmpx.Msg `json:"m"`
	P      *rtmpx.Pkt `json:"p"`
	Sid    int        `json:"sid"`    // message stream id of a packet
	Cid    int        `json:"cid"`    // chunk stream id override for a message (0: the library's choice)
	Raw    bool       `json:"raw"`    // build the message with rtmp.NewMessage() and leave the chunk stream id alone
	ViaPkt bool       `json:"viapkt"` // Set Chunk Size through WritePacket instead of WriteMessage
}

type session struct {
	Name  string `json:"name"`
	Steps []step `json:"steps"`
}

// appMsg is what the application handed to the writer.
type appMsg struct {
	ID   int    `json:"id"`
	Type int    `json:"type"`
	Sid  int64  `json:"sid"`
	Ts   int64  `json:"ts"`
	Len  int    `json:"len"`
	Ctl  string `json:"ctl"`
	Scs  int64  `json:"scs"`
	body []byte
}

type resetRec struct {
	Ev   string   `json:"ev"`
	Name string   `json:"name"`
	Case int      `json:"case"`
	Msgs []appMsg `json:"msgs"`
	// Hint is diagnosis only (it names the class of a rejection, it never decides one): "fixed-chunk-size-128" when the
	// bytes do not frame into the written messages at the chunk size in force but do if the chunk size never changes.
	Hint string `json:"hint"`
}

type chunkRec struct {
	Ev   string `json:"ev"`
	Fmt  int    `json:"fmt"`
	Cid  int    `json:"cid"`
	Form int    `json:"form"`
	Tsf  int    `json:"tsf"`
	Ext  int64  `json:"ext"`
	Top  bool   `json:"top"`
	Len  int    `json:"len"`
	Type int    `json:"type"`
	Sid  int64  `json:"sid"`
	Pay  int    `json:"pay"`
	Pm   bool   `json:"pm"`
	Pmn  int    `json:"pmn"` // leading payload bytes that match (= pay when pm)
	Mi   int    `json:"mi"`
	Off  int    `json:"off"`
	Rep  int    `json:"rep"`
	At   int    `json:"at"`
}

type junkRec struct {
	Ev  string `json:"ev"`
	At  int    `json:"at"`
	N   int    `json:"n"`
	Why string `json:"why"`
}

type endRec struct {
	Ev    string `json:"ev"`
	Bytes int    `json:"bytes"`
}

// write drives the real writer through the session and returns what the application wrote and the bytes on the wire.
func write(c *rp.Ctx, s session, nextID *int) (app []appMsg, wire []byte, err error) {
	out := transport.NewStream()
	p := rtmp.NewProtocol(&transport.Duplex{In: transport.NewStream(), Out: out})
	for k, st := range s.Steps {
		a := appMsg{Ctl: "none"}
		switch {
		case st.P != nil:
			pkt := st.P.Build(c.Seed)
			body, merr := pkt.MarshalBinary()
			if merr != nil {
				rp.Bug("session %s step %d: packet does not marshal: %v", s.Name, k, merr)
			}
			a.Type, a.Sid, a.Ts, a.Len, a.body = int(pkt.Type()), int64(st.Sid), 0, len(body), body
			err = p.WritePacket(pkt, st.Sid)
		case st.M != nil:
			var m *rtmp.Message
			if st.Raw {
				m = rtmp.NewMessage()
				m.MessageType, m.Timestamp, m.Payload = rtmp.MessageType(st.M.Type), uint64(st.M.Ts), st.M.Body(c.Seed)
			} else {
				m = st.M.Build(c.Seed)
			}
			if st.Cid > 0 {
				m.VerifSetCid(uint32(st.Cid))
			}
			a.Type, a.Sid, a.Ts, a.Len = st.M.Type, int64(m.VerifStreamID()), st.M.Ts, len(m.Payload)
			a.body = append([]byte(nil), m.Payload...)
			if st.M.Type == 1 && st.ViaPkt && !st.Raw {
				pk := rtmp.NewSetChunkSize()
				pk.ChunkSize = uint32(st.M.Scs)
				a.Sid, a.Ts = int64(st.M.Sid), 0
				err = p.WritePacket(pk, int(st.M.Sid))
			} else {
				err = p.WriteMessage(m)
			}
		default:
			rp.Bug("session %s step %d has neither message nor packet", s.Name, k)
		}
		if a.Type == 1 && len(a.body) >= 4 {
			a.Ctl, a.Scs = "scs", int64(binary.BigEndian.Uint32(a.body)&0x7fffffff)
		}
		if err != nil {
			return app, out.Bytes(), fmt.Errorf("step %d (type %d, %d bytes): %v", k, a.Type, a.Len, err)
		}
		*nextID++
		a.ID = *nextID
		app = append(app, a)
	}
	return app, out.Bytes(), nil
}

// records tokenises the wire, compares every chunk's payload with the slice of the message the application
// wrote, and run-length encodes runs of identical continuation chunks (never a first chunk; same header tokens, same payload size,
// consecutive offsets, payload matching): a 65536-byte message at chunk size 1 is three records.
func records(app []appMsg, wire []byte) (recs []interface{}, nchunks int) {
	var last *chunkRec
	jk := tokenize(wire, true, func(t token) {
		nchunks++
		pm, pmn := false, 0
		if t.Mi >= 1 && t.Mi <= len(app) {
			b := app[t.Mi-1].body
			pm = t.Off+t.Pay <= len(b) && bytes.Equal(b[t.Off:t.Off+t.Pay], t.Body)
			for pmn < t.Pay && t.Off+pmn < len(b) && b[t.Off+pmn] == t.Body[pmn] {
				pmn++
			}
		}
		sid := t.Sid
		if sid > 0x7fffffff {
			sid = -2 // not representable in TLC; no application message has it
		}
		r := &chunkRec{Ev: "chunk", Fmt: t.Fmt, Cid: t.Cid, Form: t.Form, Tsf: t.Tsf, Ext: t.Ext, Top: t.Top, Len: t.Len, Type: t.Type,
			Sid: sid, Pay: t.Pay, Pm: pm, Pmn: pmn, Mi: t.Mi, Off: t.Off, Rep: 1, At: t.At}
		if last != nil && pm && last.Pm && r.Fmt == 3 && last.Fmt == 3 && last.Off > 0 && r.Cid == last.Cid && r.Form == last.Form && r.Ext == last.Ext &&
			r.Top == last.Top && r.Pay == last.Pay && r.Pay > 0 && r.Mi == last.Mi && r.Off == last.Off+last.Rep*last.Pay {
			last.Rep++
			return
		}
		recs = append(recs, r)
		last = r
	})
	if jk != nil {
		recs = append(recs, &junkRec{Ev: "junk", At: jk.At, N: jk.N, Why: jk.Why})
	}
	return
}

// traceWriter appends sessions to <dir>/trace.ndjson.
type traceWriter struct {
	f    *os.File
	w    *bufio.Writer
	enc  *json.Encoder
	line int
}

func newTraceWriter(dir string) *traceWriter {
	f, err := os.Create(filepath.Join(dir, "trace.ndjson"))
	if err != nil {
		rp.Bug("%v", err)
	}
	w := bufio.NewWriterSize(f, 1<<20)
	return &traceWriter{f: f, w: w, enc: json.NewEncoder(w)}
}

func (t *traceWriter) put(v interface{}) {
	if err := t.enc.Encode(v); err != nil {
		rp.Bug("%v", err)
	}
	t.line++
}

// session writes reset, the chunk records of wire, end.
func (t *traceWriter) session(name string, i int, app []appMsg, wire []byte) sessInfo {
	if app == nil {
		app = []appMsg{}
	}
	recs, nchunks := records(app, wire)
	info := sessInfo{First: t.line + 1, Chunks: nchunks, Bytes: len(wire), Msgs: len(app)}
	t.put(&resetRec{Ev: "reset", Name: name, Case: i, Msgs: app, Hint: hint(app, wire, recs)})
	for _, rec := range recs {
		t.put(rec)
	}
	t.put(&endRec{Ev: "end", Bytes: len(wire)})
	info.Last = t.line
	return info
}

func (t *traceWriter) close() {
	if err := t.w.Flush(); err != nil {
		rp.Bug("%v", err)
	}
	t.f.Close()
}

// hint: see resetRec.Hint.
func hint(app []appMsg, wire []byte, recs []interface{}) string {
	clean := true
	for _, r := range recs {
		if c, ok := r.(*chunkRec); !ok || !c.Pm {
			clean = false
		}
	}
	if clean {
		return ""
	}
	ok, done := true, 0
	jk := tokenize(wire, false, func(t token) {
		if t.Mi < 1 || t.Mi > len(app) {
			ok = false
			return
		}
		b := app[t.Mi-1].body
		if t.Off+t.Pay > len(b) || !bytes.Equal(b[t.Off:t.Off+t.Pay], t.Body) {
			ok = false
		} else if t.Off+t.Pay == len(b) {
			done++
		}
	})
	if jk == nil && ok && done == len(app) {
		return "fixed-chunk-size-128"
	}
	return ""
}

type sessInfo struct {
	First  int `json:"first"` // 1-based line of the reset record
	Last   int `json:"last"`
	Chunks int `json:"chunks"`
	Bytes  int `json:"bytes"`
	Msgs   int `json:"msgs"`
}

func init() {
	batchRegistry["record"] = func(c *rp.Ctx, cases []json.RawMessage) []rp.Result {
		if c.Dir == "" {
			// vcheck X03 --replay <file>: re-record the session; the records are in <tmp>/trace.ndjson (the verdict is TLC's: ./vcheck X03)
			d, err := os.MkdirTemp("", "x03-replay-")
			if err != nil {
				rp.Bug("%v", err)
			}
			c.Dir = d
			fmt.Fprintln(os.Stderr, "x03: trace written to", filepath.Join(d, "trace.ndjson"))
		}
		tw := newTraceWriter(c.Dir)
		nextID := 0
		var res []rp.Result
		for i, raw := range cases {
			var s session
			if err := json.Unmarshal(raw, &s); err != nil {
				panic(err)
			}
			r := func() (r rp.Result) {
				defer func() {
					if e := recover(); e != nil {
						if _, bug := e.(rp.HarnessBug); bug {
							panic(e)
						}
						r = rp.Result{I: i, OK: false, What: fmt.Sprintf("session %s: panic in the writer: %v", s.Name, e), Deviation: "X03/writer-panic"}
					}
				}()
				app, wire, werr := write(c, s, &nextID)
				if werr != nil {
					return rp.Result{I: i, OK: false, What: fmt.Sprintf("session %s: the writer refused a message: %v", s.Name, werr), Deviation: "X03/write-error"}
				}
				return rp.Result{I: i, OK: true, Info: tw.session(s.Name, i, app, wire), Nontriv: true}
			}()
			res = append(res, r)
		}
		tw.close()
		return res
	}
}
