package main

// The tokenizer turns the raw bytes a chunk-stream writer produced into chunk records.
// It knows only the grammar of rtmp_specification_1.0 section 5.3.1:
//   - basic header: 1 byte for chunk stream ids 2..63, 2 bytes (marker 0) for 64..319,
//     3 bytes (marker 1) for 64..65599; the two top bits of the first byte are fmt;
//   - message header: 11 / 7 / 3 / 0 bytes for fmt 0 / 1 / 2 / 3 (timestamp field u24 BE,
//     message length u24 BE, type u8, message stream id u32 LE);
//   - extended timestamp: 4 bytes (u32 BE) follow the message header iff the timestamp field is
//     0xFFFFFF; a fmt-3 chunk has them iff the preceding timestamp field of its chunk stream was
//     0xFFFFFF (the behaviour of Adobe's products and FFmpeg that spec/rtmp/RtmpChunk.tla models);
//   - payload: min(chunk size in force, bytes the message still lacks); the chunk size in force
//     starts at 128 and changes when a complete Set Chunk Size message (type 1) has gone by.
//
// It judges nothing: whether a header type was allowed, whether a timestamp is right, whether the
// chunk size is the one the writer should have used - all that is decided by TLC (Trace_RtmpWriter.tla).
// Bytes it cannot frame as a chunk become one final "junk" record.

type token struct {
	At   int // byte offset of the chunk
	Hl   int // bytes of basic header + message header + extended timestamp
	Bl   int // bytes of the basic header
	Fmt  int
	Cid  int
	Form int   // basic header form: 1, 2 or 3 bytes
	Tsf  int   // 24-bit timestamp field, -1 when the header has none (fmt 3)
	Ext  int64 // low 31 bits of the extended timestamp, -1 when absent
	Top  bool  // top bit of the extended timestamp
	Len  int   // message length field, -1 when the header has none (fmt 2, 3)
	Type int   // message type field, -1 when the header has none
	Sid  int64 // message stream id field, -1 when the header has none (fmt 1, 2, 3)
	Pay  int   // payload bytes of this chunk
	Mi   int   // ordinal (1-based) of the message this chunk belongs to: k-th message started on the wire
	Off  int   // offset of the payload inside that message
	Body []byte
}

type junk struct {
	At  int
	N   int
	Why string
}

type cidState struct {
	has    bool
	length int
	typ    int
	got    int
	tsf    int
	mi     int
	body   []byte // collected only for type 1
}

// tokenizeAll collects the tokens (small inputs only).
func tokenizeAll(data []byte) (toks []token, jk *junk) {
	jk = tokenize(data, true, func(t token) { toks = append(toks, t) })
	return
}

// tokenize calls emit for every chunk in order (a 16 MB message at chunk size 1 is 16 M chunks: nothing is kept).
// followSCS = false is used for a diagnostic hint only: how the bytes frame if the chunk size never changes.
func tokenize(data []byte, followSCS bool, emit func(token)) (jk *junk) {
	cs := 128
	st := map[int]*cidState{}
	started := 0
	o := 0
	fail := func(at int, why string) *junk {
		return &junk{At: at, N: len(data) - at, Why: why}
	}
	for o < len(data) {
		at := o
		b0 := int(data[o])
		t := token{At: at, Fmt: b0 >> 6, Tsf: -1, Ext: -1, Len: -1, Type: -1, Sid: -1}
		switch b0 & 0x3f {
		case 0:
			if o+2 > len(data) {
				return fail(at, "basic header cut")
			}
			t.Form, t.Cid, t.Bl = 2, 64+int(data[o+1]), 2
		case 1:
			if o+3 > len(data) {
				return fail(at, "basic header cut")
			}
			t.Form, t.Cid, t.Bl = 3, 64+int(data[o+1])+256*int(data[o+2]), 3
		default:
			t.Form, t.Cid, t.Bl = 1, b0&0x3f, 1
		}
		o += t.Bl
		mh := [4]int{11, 7, 3, 0}[t.Fmt]
		if o+mh > len(data) {
			return fail(at, "message header cut")
		}
		h := data[o : o+mh]
		o += mh
		c := st[t.Cid]
		if c == nil {
			c = &cidState{}
			st[t.Cid] = c
		}
		if t.Fmt <= 2 {
			t.Tsf = int(h[0])<<16 | int(h[1])<<8 | int(h[2])
		}
		if t.Fmt <= 1 {
			t.Len = int(h[3])<<16 | int(h[4])<<8 | int(h[5])
			t.Type = int(h[6])
		}
		if t.Fmt == 0 {
			t.Sid = int64(h[7]) | int64(h[8])<<8 | int64(h[9])<<16 | int64(h[10])<<24
		}
		hasExt := false
		if t.Fmt <= 2 {
			hasExt = t.Tsf == 0xFFFFFF
		} else {
			hasExt = c.has && c.tsf == 0xFFFFFF
		}
		if hasExt {
			if o+4 > len(data) {
				return fail(at, "extended timestamp cut")
			}
			v := uint32(data[o])<<24 | uint32(data[o+1])<<16 | uint32(data[o+2])<<8 | uint32(data[o+3])
			t.Ext, t.Top = int64(v&0x7fffffff), v>>31 == 1
			o += 4
		}
		t.Hl = o - at
		// which message, how many bytes
		if c.got == 0 {
			// a new message starts on this chunk stream
			if t.Fmt <= 1 {
				c.length, c.typ = t.Len, t.Type
			} else if !c.has {
				return fail(at, "message length unknown: chunk stream starts with fmt 2/3")
			}
			started++
			c.mi = started
			c.body = c.body[:0]
		}
		if t.Fmt <= 2 {
			c.tsf = t.Tsf
		}
		c.has = true
		t.Mi, t.Off = c.mi, c.got
		t.Pay = c.length - c.got
		if t.Pay > cs {
			t.Pay = cs
		}
		if o+t.Pay > len(data) {
			return fail(at, "payload cut")
		}
		t.Body = data[o : o+t.Pay]
		o += t.Pay
		if c.typ == 1 && len(c.body) < 8 {
			c.body = append(c.body, t.Body...)
		}
		c.got += t.Pay
		if c.got >= c.length {
			c.got = 0
			if followSCS && c.typ == 1 && len(c.body) >= 4 {
				if v := int(uint32(c.body[0])<<24|uint32(c.body[1])<<16|uint32(c.body[2])<<8|uint32(c.body[3])) & 0x7fffffff; v > 0 {
					cs = v
				}
			}
		}
		emit(t)
	}
	return nil
}
