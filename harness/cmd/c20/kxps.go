package main

import (
	"encoding/json"
	"fmt"
	"math"
	"os"
	"time"

	"github.com/ossrs/go-oryx-lib/kxps"
	"verifharness/rp"
)

// C20: rate meters against spec/kxps/Kxps.tla.
//
// A case is one behaviour of the specification (Gen_Kxps.tla): the list of actions with the
// specification's expected rates and average after every observation. It is replayed
//  (1) against the shared meter through the verif hook with an injected clock, the model counter
//      (Z/2^16) embedded by the identity,
//  (2) the same with the counter multiplied by 2^48, so that the model's wrap-around and sign
//      boundary are the real ones of the uint64 counter / int64 difference,
//  (3) through the public bitrate meter (kbit/s scaling, refusal before Start),
//  (4) through the public request-rate meter.
// After every observation the three rates and the average are compared with the specification.
//
// Cases of the family "life" are histories of {Start, Close, Observe, ReadRate(1..4)}: every call of
// the history is made on the public bitrate meter and on the public request-rate meter (Start by
// the hook flag, sampling by the hook with the injected clock, Close and every read by the public
// methods) and each read is judged by the lifecycle state the specification says it happens in;
// histories without observations are replayed once more with the real Start(), which spawns the
// sampling goroutine (the counter stays 0 there, so the goroutine changes nothing; every meter
// that was really started is closed before the case ends, which stops its goroutine).

type kxCase struct {
	Fam string    `json:"fam"`
	W   []int64   `json:"w"`
	Kb  []int64   `json:"kb"`
	Kr  []int64   `json:"kr"`
	H   [][]int64 `json:"h"`
}

// kinds of history entries
const (
	kObserve = 0
	kStart   = 1
	kClose   = 2
	kRead    = 3
)

// indices into a read entry <<3, i, ok, cls, num, den>>
const (
	rKind = iota
	rWhich
	rOk
	rCls
	rNum
	rDen
	rLen
)

// indices into an observe entry
const (
	eKind = iota
	eSt
	eDt
	eMk
	eMv
	eCnt
	eNow
	eF1
	eF2
	eF3
	eN1
	eN2
	eN3
	eA1
	eA2
	eA3
	eAvn
	eAvd
	eAva
	eLen
)

const relTol = 1e-12

type counter struct{ n uint64 }

func (c *counter) Count() uint64      { return c.n }
func (c *counter) TotalBytes() uint64 { return c.n }
func (c *counter) NbRequests() uint64 { return c.n }

// broken reports a failure of the harness itself (never a verdict about the library).
func broken(format string, a ...interface{}) {
	fmt.Fprintf(os.Stderr, "c20 harness broken: "+format+"\n", a...)
	os.Exit(2)
}

func sane(v float64) bool { return !math.IsNaN(v) && !math.IsInf(v, 0) && v >= 0 }

func closeTo(obs, exp float64) bool {
	if exp == 0 {
		return obs == 0
	}
	return math.Abs(obs-exp) <= relTol*math.Abs(exp)
}

// rateOf is num/den per second, times scale (an exact power of two) times mul/div.
func rateOf(num, den int64, scale float64, mul, div int64) float64 {
	v := float64(num) * scale / float64(den)
	if mul != 1 || div != 1 {
		v = v * float64(mul) / float64(div)
	}
	return v
}

var winName = [3]string{"10s", "30s", "300s"}
var readName = [4]string{"10s rate", "30s rate", "300s rate", "average"}

func moveString(e []int64) string {
	if e[eMk] == 0 {
		return fmt.Sprintf("counter %+d", e[eMv])
	}
	return fmt.Sprintf("counter := %d", e[eMv])
}

func describe(h [][]int64, upto int, shift uint) string {
	s := ""
	for k := 0; k <= upto && k < len(h); k++ {
		e := h[k]
		switch e[eKind] {
		case kStart:
			s += " Start;"
			continue
		case kClose:
			s += " Close;"
			continue
		case kRead:
			s += " read " + readName[e[rWhich]-1] + ";"
			continue
		}
		s += fmt.Sprintf(" [t=%dms %s -> %d]", e[eNow], moveString(e), e[eCnt])
	}
	if shift > 0 {
		s += fmt.Sprintf(" (counter values x 2^%d)", shift)
	}
	return s
}

// meterView is what the replayer remembers of one meter between observations: the value each
// window reported after the previous observation, and the windows that are no longer compared
// because the property left the meter a choice the replayer cannot see (see f = 2 below).
type meterView struct {
	cur   [3]float64
	loose [3]bool
}

// checkRates compares the three window rates with the specification.
//   f = 1: the window samples: its rate is n/w (or a/w where the two readings of "increase" differ)
//   f = 0: the window does not sample: its rate is what it was
//   f = 2: the window's own length has elapsed but a shorter window did not sample (the library's
//          cascade does not consult it) or the counter reads 0 (the library does not sample then).
//          The property does not forbid a meter that samples it. Both are accepted; if the meter
//          may have sampled, its window state is unknown from here on and the window is only
//          checked for finite, non-negative values.
func checkRates(cs *kxCase, k int, e []int64, obs [3]float64, mv *meterView, scale float64, shift uint, who string) *rp.Result {
	for w := 0; w < 3; w++ {
		o := obs[w]
		if !sane(o) {
			r := rp.Fail(0, "%s: %s rate after observation %d is %v: not finite and non-negative; history:%s", who, winName[w], k, o, describe(cs.H, k, shift))
			return &r
		}
		if mv.loose[w] {
			mv.cur[w] = o
			continue
		}
		exp := rateOf(e[eN1+w], cs.W[w], scale, 1, 1)
		alt := rateOf(e[eA1+w], cs.W[w], scale, 1, 1)
		switch e[eF1+w] {
		case 1:
			if !closeTo(o, exp) && !closeTo(o, alt) {
				r := rp.Fail(0, "%s: %s window sampled at observation %d: rate %v, want %v (growth*1000/window = %d/%d%s); history:%s",
					who, winName[w], k, o, exp, e[eN1+w], cs.W[w], altNote(e[eN1+w], e[eA1+w]), describe(cs.H, k, shift))
				return &r
			}
		case 0:
			if !closeTo(o, mv.cur[w]) {
				r := rp.Fail(0, "%s: %s window must not sample at observation %d (its rate stays %v) but the rate is now %v; history:%s",
					who, winName[w], k, mv.cur[w], o, describe(cs.H, k, shift))
				return &r
			}
		case 2:
			sampled := closeTo(o, exp) || closeTo(o, alt)
			if !sampled && !closeTo(o, mv.cur[w]) {
				r := rp.Fail(0, "%s: %s window at observation %d: rate %v is neither the previous rate %v nor the rate of a sample now, %v; history:%s",
					who, winName[w], k, o, mv.cur[w], exp, describe(cs.H, k, shift))
				return &r
			}
			if sampled {
				mv.loose[w] = true
				if e[eCnt] == 0 {
					// a meter that samples a zero counter may start all windows afresh afterwards
					mv.loose = [3]bool{true, true, true}
				}
			}
		default:
			broken("entry %d: f=%d", k, e[eF1+w])
		}
		mv.cur[w] = o
	}
	return nil
}

func altNote(n, a int64) string {
	if n == a {
		return ""
	}
	return fmt.Sprintf(", or %d under the plain-number reading of a move across the sign boundary", a)
}

func checkAvg(cs *kxCase, k int, e []int64, o float64, scale float64, shift uint, who string) *rp.Result {
	if !sane(o) {
		r := rp.Fail(0, "%s: average after observation %d is %v: not finite and non-negative; history:%s", who, k, o, describe(cs.H, k, shift))
		return &r
	}
	if e[eAvd] == 0 {
		return nil // no time since the first non-zero observation: the property fixes no value
	}
	exp := rateOf(e[eAvn], e[eAvd], scale, 1, 1)
	alt := rateOf(e[eAva], e[eAvd], scale, 1, 1)
	if !closeTo(o, exp) && !closeTo(o, alt) {
		r := rp.Fail(0, "%s: average after observation %d is %v, want %v (total growth*1000 / ms since first non-zero observation = %d/%d%s); history:%s",
			who, k, o, exp, e[eAvn], e[eAvd], altNote(e[eAvn], e[eAva]), describe(cs.H, k, shift))
		return &r
	}
	return nil
}

// replayHook: passes (1) and (2).
func replayHook(cs *kxCase, shift uint) *rp.Result {
	who := "shared meter"
	src := &counter{}
	m := kxps.VerifNewMeter(src)
	if m == nil {
		broken("VerifNewMeter returned nil")
	}
	base := time.Unix(1600000000, 0)
	scale := math.Ldexp(1, int(shift))
	var cur meterView
	for k, e := range cs.H {
		if e[eKind] == 1 {
			m.SetStarted(true)
			continue
		}
		src.n = uint64(e[eCnt]) << shift
		now := base.Add(time.Duration(e[eNow]) * time.Millisecond)
		if err := m.Sample(now); err != nil {
			r := rp.Fail(0, "%s: sampling step at observation %d failed: %v; history:%s", who, k, err, describe(cs.H, k, shift))
			return &r
		}
		var obs [3]float64
		obs[0], obs[1], obs[2] = m.Rates()
		if r := checkRates(cs, k, e, obs, &cur, scale, shift, who); r != nil {
			return r
		}
		if r := checkAvg(cs, k, e, m.Average(now), scale, shift, who); r != nil {
			return r
		}
	}
	return nil
}

// read calls a public accessor; refused reports a panic (the meter's way of refusing).
func read(f func() float64) (v float64, refused bool, why interface{}) {
	defer func() {
		if e := recover(); e != nil {
			refused, why = true, e
		}
	}()
	return f(), false, nil
}

type pubMeter struct {
	who      string
	mul, div int64
	rates    [3]func() float64
	average  func() float64
	start    func() error
	close    func() error
}

func newPub(kind string, cs *kxCase, src *counter) (*pubMeter, *kxps.VerifMeter) {
	if kind == "kbps" {
		m := kxps.NewKbps(nil, src)
		return &pubMeter{who: "Kbps", mul: cs.Kb[0], div: cs.Kb[1],
			rates: [3]func() float64{m.Kbps10s, m.Kbps30s, m.Kbps300s}, average: m.Average, start: m.Start, close: m.Close}, kxps.VerifOf(m)
	}
	m := kxps.NewKrps(nil, src)
	return &pubMeter{who: "Krps", mul: cs.Kr[0], div: cs.Kr[1],
		rates: [3]func() float64{m.Rps10s, m.Rps30s, m.Rps300s}, average: m.Average, start: m.Start, close: m.Close}, kxps.VerifOf(m)
}

// replayPublic: passes (3) and (4). The sampling step is driven through the hook (the public API
// samples on a wall-clock timer), every value is read through the public accessors.
func replayPublic(cs *kxCase, kind string) *rp.Result {
	src := &counter{}
	p, h := newPub(kind, cs, src)
	if h == nil {
		broken("VerifOf(%s) returned nil", kind)
	}
	var total int64
	for _, e := range cs.H {
		if e[eKind] == 0 {
			total = e[eNow]
		}
	}
	// all injected instants lie in the real past, so the public Average (which reads the real
	// clock) sees a positive time since the first non-zero observation; base carries a monotonic
	// reading, so elapsed times do not depend on wall-clock adjustments.
	base := time.Now().Add(-time.Duration(total+2000) * time.Millisecond)
	var cur meterView
	started := false
	for k, e := range cs.H {
		if e[eKind] == 1 {
			h.SetStarted(true)
			started = true
			continue
		}
		if (e[eSt] == 1) != started {
			broken("case inconsistent: started flag of entry %d", k)
		}
		src.n = uint64(e[eCnt])
		now := base.Add(time.Duration(e[eNow]) * time.Millisecond)
		if err := h.Sample(now); err != nil {
			r := rp.Fail(0, "%s: sampling step at observation %d failed: %v", p.who, k, err)
			return &r
		}
		h.Average(now) // the read of the average that belongs to this observation (sets the baseline)
		// the underlying rates, checked against the specification again
		var under [3]float64
		under[0], under[1], under[2] = h.Rates()
		if r := checkRates(cs, k, e, under, &cur, 1, 0, p.who+" (shared part)"); r != nil {
			return r
		}
		for w := 0; w < 3; w++ {
			v, refused, why := read(p.rates[w])
			if !started {
				if !refused {
					r := rp.Fail(0, "%s: reading the %s rate before Start is not refused (returned %v); history:%s", p.who, winName[w], v, describe(cs.H, k, 0))
					return &r
				}
				continue
			}
			if refused {
				r := rp.Fail(0, "%s: reading the %s rate after Start panics: %v; history:%s", p.who, winName[w], why, describe(cs.H, k, 0))
				return &r
			}
			exp := cur.cur[w] * float64(p.mul) / float64(p.div)
			if !sane(v) || !closeTo(v, exp) {
				r := rp.Fail(0, "%s: %s rate reads %v, want %v (= %v per second x %d/%d); history:%s", p.who, winName[w], v, exp, cur.cur[w], p.mul, p.div, describe(cs.H, k, 0))
				return &r
			}
		}
		t1 := time.Now()
		v, refused, why := read(p.average)
		t2 := time.Now()
		if !started {
			if !refused {
				r := rp.Fail(0, "%s: reading the average before Start is not refused (returned %v); history:%s", p.who, v, describe(cs.H, k, 0))
				return &r
			}
			continue
		}
		if refused {
			r := rp.Fail(0, "%s: reading the average after Start panics: %v; history:%s", p.who, why, describe(cs.H, k, 0))
			return &r
		}
		if !sane(v) {
			r := rp.Fail(0, "%s: average reads %v: not finite and non-negative; history:%s", p.who, v, describe(cs.H, k, 0))
			return &r
		}
		if r := checkPubAverage(cs, p, k, e, now, v, t1, t2); r != nil {
			return r
		}
	}
	return nil
}

// checkPubAverage judges a value v the public Average() returned at a real instant in [t1, t2] when the last
// observation was entry e (index k) at the injected instant now.
func checkPubAverage(cs *kxCase, p *pubMeter, k int, e []int64, now time.Time, v float64, t1, t2 time.Time) *rp.Result {
	if e[eCnt] == 0 || (e[eAvn] == 0 && e[eAva] == 0) {
		if v != 0 {
			r := rp.Fail(0, "%s: average reads %v, want 0 (no growth since the first non-zero observation); history:%s", p.who, v, describe(cs.H, k, 0))
			return &r
		}
		return nil
	}
	// the read happened at some real instant in [t1, t2]; the first non-zero observation was
	// at injected instant now - avd
	t0 := now.Add(-time.Duration(e[eAvd]) * time.Millisecond)
	d1 := int64(t1.Sub(t0) / time.Millisecond)
	d2 := int64(t2.Sub(t0) / time.Millisecond)
	if d1 <= 0 || d2 < d1 {
		broken("clock: d1=%d d2=%d", d1, d2)
	}
	ok := false
	var lo, hi float64
	for _, num := range []int64{e[eAvn], e[eAva]} {
		if num == 0 {
			if v == 0 {
				ok = true
			}
			continue
		}
		lo = rateOf(num, d2, 1, p.mul, p.div)
		hi = rateOf(num, d1, 1, p.mul, p.div)
		if v >= lo*(1-relTol) && v <= hi*(1+relTol) {
			ok = true
		}
	}
	if !ok {
		r := rp.Fail(0, "%s: average reads %v, want growth*1000/elapsed x %d/%d in [%v, %v] (growth*1000 = %d, elapsed %d..%d ms); history:%s",
			p.who, v, p.mul, p.div, lo, hi, e[eAvn], d1, d2, describe(cs.H, k, 0))
		return &r
	}
	return nil
}

// replayLife: one history of the lifecycle family on a public meter.
//   real = false: Start is the hook's flag, observations are driven through the hook with the injected clock;
//   real = true:  Start is the real Start() (sampling goroutine), the counter stays 0 and observations are skipped
//                 (the goroutine samples a zero counter: nothing changes), so every answered read must return 0.
// Close and the reads are the public methods in both modes. A read entry is judged by its class:
//   0 the meter was never started (new, or closed without a start): must be refused;
//   1 the meter is running: must be answered, with the value the specification holds;
//   2 closed after a start / started again after Close: the property is silent, either outcome is
//     accepted; a value, if one is returned, must be finite and non-negative.
func replayLife(cs *kxCase, kind string, real bool) (res *rp.Result) {
	src := &counter{}
	p, h := newPub(kind, cs, src)
	if h == nil {
		broken("VerifOf(%s) returned nil", kind)
	}
	mode := " (Start = hook flag)"
	if real {
		mode = " (real Start)"
	}
	p.who += mode
	var total int64
	for _, e := range cs.H {
		if e[eKind] == kObserve {
			total = e[eNow]
		}
	}
	base := time.Now().Add(-time.Duration(total+2000) * time.Millisecond)
	var cur meterView
	var lastObs []int64
	var lastNow time.Time
	lastK := -1
	closedBefore, startedReal := false, false
	defer func() {
		if startedReal {
			p.close() // stops the sampling goroutine of this case
		}
	}()
	for k, e := range cs.H {
		switch e[eKind] {
		case kStart:
			if !real {
				h.SetStarted(true)
				continue
			}
			err := p.start()
			startedReal = true
			if err != nil && !closedBefore {
				r := rp.Fail(0, "%s: Start failed: %v; history:%s", p.who, err, describe(cs.H, k, 0))
				return &r
			}
		case kClose:
			p.close() // what Close returns is not judged
			closedBefore = true
		case kObserve:
			if real {
				continue
			}
			src.n = uint64(e[eCnt])
			now := base.Add(time.Duration(e[eNow]) * time.Millisecond)
			if err := h.Sample(now); err != nil {
				r := rp.Fail(0, "%s: sampling step at observation %d failed: %v", p.who, k, err)
				return &r
			}
			h.Average(now)
			var under [3]float64
			under[0], under[1], under[2] = h.Rates()
			if r := checkRates(cs, k, e, under, &cur, 1, 0, p.who+" (shared part)"); r != nil {
				return r
			}
			lastObs, lastNow, lastK = e, now, k
		case kRead:
			w := int(e[rWhich]) - 1
			f := p.average
			if w < 3 {
				f = p.rates[w]
			}
			t1 := time.Now()
			v, refused, why := read(f)
			t2 := time.Now()
			switch e[rCls] {
			case 0:
				if !refused {
					r := rp.Fail(0, "%s: the meter was never started, but reading its %s is not refused (returned %v); history:%s", p.who, readName[w], v, describe(cs.H, k, 0))
					if closedBefore {
						r.Deviation = "C20/closed-counts-as-started"
					} else {
						r.Deviation = "C20/read-unguarded"
					}
					return &r
				}
				continue
			case 1:
				if refused {
					r := rp.Fail(0, "%s: the meter is started and not closed, but reading its %s panics: %v; history:%s", p.who, readName[w], why, describe(cs.H, k, 0))
					return &r
				}
			case 2:
				if refused {
					continue
				}
				if !sane(v) {
					r := rp.Fail(0, "%s: %s reads %v: not finite and non-negative; history:%s", p.who, readName[w], v, describe(cs.H, k, 0))
					return &r
				}
				continue
			default:
				broken("entry %d: read class %d", k, e[rCls])
			}
			// a running meter: the value
			if !sane(v) {
				r := rp.Fail(0, "%s: %s reads %v: not finite and non-negative; history:%s", p.who, readName[w], v, describe(cs.H, k, 0))
				return &r
			}
			if real || lastObs == nil {
				if v != 0 {
					r := rp.Fail(0, "%s: %s of a meter that never saw a non-zero counter reads %v; history:%s", p.who, readName[w], v, describe(cs.H, k, 0))
					return &r
				}
				continue
			}
			if w < 3 {
				if cur.loose[w] {
					continue
				}
				if den := e[rDen]; den > 0 && !closeTo(cur.cur[w], rateOf(e[rNum], den, 1, 1, 1)) {
					broken("entry %d: the read's value %d/%d is not the rate after the last observation, %v", k, e[rNum], den, cur.cur[w])
				}
				exp := cur.cur[w] * float64(p.mul) / float64(p.div)
				if !closeTo(v, exp) {
					r := rp.Fail(0, "%s: %s reads %v, want %v (= %v per second x %d/%d); history:%s", p.who, readName[w], v, exp, cur.cur[w], p.mul, p.div, describe(cs.H, k, 0))
					return &r
				}
				continue
			}
			if r := checkPubAverage(cs, p, lastK, lastObs, lastNow, v, t1, t2); r != nil {
				r.What += fmt.Sprintf(" (read at entry %d of%s)", k, describe(cs.H, k, 0))
				return r
			}
		}
	}
	return nil
}

// realStart: a fresh public meter over a counter that stays 0 (so that the sampling goroutine,
// which reads the real clock, never changes anything) refuses every read until Start() and
// answers 0 afterwards.
func realStart(cs *kxCase, kind string) *rp.Result {
	src := &counter{}
	p, _ := newPub(kind, cs, src)
	all := []func() float64{p.rates[0], p.rates[1], p.rates[2], p.average}
	names := []string{"10s rate", "30s rate", "300s rate", "average"}
	for j, f := range all {
		if v, refused, _ := read(f); !refused {
			r := rp.Fail(0, "%s: reading the %s of a meter that was never started is not refused (returned %v)", p.who, names[j], v)
			return &r
		}
	}
	if err := p.start(); err != nil {
		r := rp.Fail(0, "%s: Start failed: %v", p.who, err)
		return &r
	}
	for j, f := range all {
		v, refused, why := read(f)
		if refused {
			r := rp.Fail(0, "%s: reading the %s after Start() panics: %v", p.who, names[j], why)
			return &r
		}
		if v != 0 {
			r := rp.Fail(0, "%s: %s of a counter that is 0 reads %v", p.who, names[j], v)
			return &r
		}
	}
	if err := p.close(); err != nil {
		r := rp.Fail(0, "%s: Close failed: %v", p.who, err)
		return &r
	}
	return nil
}

var registry = map[string]rp.Replayer{}
var batchRegistry = map[string]rp.Batch{}

func main() { rp.Main(registry, batchRegistry) }

func init() {
	registry["kxps"] = func(c *rp.Ctx, i int, raw json.RawMessage) rp.Result {
		var cs kxCase
		if err := json.Unmarshal(raw, &cs); err != nil {
			broken("case %d: %v", i, err)
		}
		if len(cs.W) != 3 || len(cs.Kb) != 2 || len(cs.Kr) != 2 {
			broken("case %d: malformed header", i)
		}
		hasStart, hasObserve := false, false
		for k, e := range cs.H {
			if len(e) < 2 || e[eKind] < 0 || e[eKind] > kRead {
				broken("case %d: malformed entry %d", i, k)
			}
			switch e[eKind] {
			case kObserve:
				hasObserve = true
				if len(e) != eLen {
					broken("case %d: malformed observe entry %d", i, k)
				}
			case kStart:
				hasStart = true
			case kRead:
				if len(e) != rLen || e[rWhich] < 1 || e[rWhich] > 4 {
					broken("case %d: malformed read entry %d", i, k)
				}
			}
			if e[eKind] >= kClose && cs.Fam != "life" {
				broken("case %d: entry %d of kind %d outside the lifecycle family", i, k, e[eKind])
			}
		}
		if cs.Fam == "life" {
			for _, kind := range []string{"kbps", "krps"} {
				if r := replayLife(&cs, kind, false); r != nil {
					return *r
				}
				if !hasObserve {
					if r := replayLife(&cs, kind, true); r != nil {
						return *r
					}
				}
			}
			return rp.Result{OK: true, Nontriv: true}
		}
		if r := replayHook(&cs, 0); r != nil {
			return *r
		}
		if r := replayHook(&cs, 48); r != nil {
			return *r
		}
		for _, kind := range []string{"kbps", "krps"} {
			if r := replayPublic(&cs, kind); r != nil {
				return *r
			}
			if cs.Fam == "api" && hasStart {
				if r := realStart(&cs, kind); r != nil {
					return *r
				}
			}
		}
		return rp.Result{OK: true, Nontriv: true}
	}
}
