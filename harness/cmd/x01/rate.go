package main

import (
	"encoding/json"
	"fmt"
	"time"

	"github.com/ossrs/go-oryx-lib/https/time/rate"
	"verifharness/rp"
)

// X01: the token-bucket limiter https/time/rate against spec/rate/RateLimiter.tla.
//
// A case is one behaviour of the specification: a sequence of calls, each with the `now` the caller passes (model
// ticks) and everything the call returns according to the specification.  The replayer drives one real rate.Limiter
// through the calls with time.Time values derived from the ticks and compares every returned value: AllowN's bool,
// Reservation.OK(), DelayFrom(now) as an exact time.Duration, Limit(), Burst().  The bucket's content is not
// exported; it is observed through the calls that follow and through the final probe (ReserveN(now, burst), whose
// delay is (burst - tokens) / limit).  No hook, no change to the library.

var registry = map[string]rp.Replayer{}
var batchRegistry = map[string]rp.Batch{}

func main() { rp.Main(registry, batchRegistry) }

const (
	devZeroLimit = "X01/zero-limit-grants"
	devCrossed   = "X01/cancel-after-setlimit-exceeds-burst"
)

type rateCase struct {
	Fam     string    `json:"fam"`
	Unit    int64     `json:"unit"`
	TickMs  int64     `json:"tick_ms"`
	Burst   int       `json:"burst"`
	Limit0  int64     `json:"limit0"`
	Mono    int       `json:"mono"`
	NoInf   int       `json:"noinf"`
	Crossed int       `json:"crossed"`
	Bound   int       `json:"bound"`
	H       [][]int64 `json:"h"`
}

type rateRun struct {
	c        *rateCase
	tick     time.Duration
	base     time.Time
	useEvery bool
}

func (r *rateRun) at(t int64) time.Time { return r.base.Add(time.Duration(t) * r.tick) }

// limitOf maps the model's limit (units per tick) to the library's tokens per second.
func (r *rateRun) limitOf(l int64, every bool) (rate.Limit, error) {
	switch {
	case l == -1:
		return rate.Inf, nil
	case l == 0:
		return 0, nil
	case l < 0:
		rp.Bug("limit %d", l)
	}
	perSec := int64(time.Second / r.tick)
	if time.Duration(perSec)*r.tick != time.Second {
		rp.Bug("tick %v does not divide a second", r.tick)
	}
	direct := rate.Limit(float64(l*perSec) / float64(r.c.Unit))
	if every {
		// the same limit given as the interval between two events
		num := time.Duration(r.c.Unit) * r.tick
		if num%time.Duration(l) == 0 {
			ev := rate.Every(num / time.Duration(l))
			if ev != direct {
				return 0, fmt.Errorf("Every(%v) = %v, want %v events per second", num/time.Duration(l), float64(ev), float64(direct))
			}
			return ev, nil
		}
	}
	return direct, nil
}

// ticks converts num/den model ticks to an exact duration.
func (r *rateRun) ticks(num, den int64) time.Duration {
	if den <= 0 {
		rp.Bug("delay denominator %d", den)
	}
	ns := num * int64(r.tick)
	if ns%den != 0 {
		rp.Bug("delay %d/%d ticks is not a whole number of nanoseconds", num, den)
	}
	return time.Duration(ns / den)
}

func init() {
	registry["rate"] = replayRate
}

func replayRate(c *rp.Ctx, i int, raw json.RawMessage) rp.Result {
	var cs rateCase
	if err := json.Unmarshal(raw, &cs); err != nil {
		panic(err)
	}
	if cs.Unit <= 0 || cs.TickMs <= 0 || len(cs.H) == 0 {
		rp.Bug("malformed case %s", string(raw))
	}
	run := &rateRun{c: &cs, tick: time.Duration(cs.TickMs) * time.Millisecond}
	// the base instant is irrelevant to the specification: wall-clock only or carrying a monotonic reading
	// (as time.Now() does), shifted by the seed
	switch (i + c.Seed) % 3 {
	case 0:
		run.base = time.Date(2020, 1, 1, 0, 0, 0, 0, time.UTC).Add(time.Duration(c.Seed) * 3600 * time.Second)
	case 1:
		run.base = time.Unix(1700000000+int64(c.Seed)*86400, int64((c.Seed*7919+i)%1000000000))
	default:
		run.base = time.Now().Add(time.Duration(c.Seed) * time.Minute)
	}
	run.useEvery = (i+c.Seed)%2 == 1

	fail := func(step int, dev string, format string, a ...interface{}) rp.Result {
		return rp.Result{OK: false, Deviation: dev,
			What: fmt.Sprintf("step %d %v: ", step, cs.H[step]) + fmt.Sprintf(format, a...),
			Info: map[string]interface{}{"burst": cs.Burst, "limit0": cs.Limit0, "fam": cs.Fam}}
	}

	l0, err := run.limitOf(cs.Limit0, run.useEvery)
	if err != nil {
		return fail(0, "", "%v", err)
	}
	lim := rate.NewLimiter(l0, cs.Burst)
	cur := cs.Limit0 // the limit in force, model units
	var res []*rate.Reservation

	// the token-bucket bound over the Allow grants the LIBRARY made (documented guarantee, evaluated on observed results)
	type grant struct{ pot, units int64 }
	var grants []grant
	var pot, prevT int64
	first := true

	for k, e := range cs.H {
		kind := e[0]
		if kind == 7 {
			break
		}
		t := e[1]
		now := run.at(t)
		if first {
			first = false
		} else if t > prevT && cur > 0 {
			pot += (t - prevT) * cur
		}
		prevT = t
		switch kind {
		case 0: // AllowN
			n, want := int(e[2]), e[3] == 1
			got := lim.AllowN(now, n)
			if got != want {
				dev := ""
				if cur == 0 && got && !want && n <= cs.Burst {
					dev = devZeroLimit
				}
				return fail(k, dev, "AllowN(base+%v, %d) = %v, specification: %v (limit %d units/tick)", now.Sub(run.base), n, got, want, cur)
			}
			if got && n > 0 && cur >= 0 {
				grants = append(grants, grant{pot, int64(n) * cs.Unit})
			}
		case 1, 5: // ReserveN
			n := int(e[2])
			var okWant int64 = 1
			var num, den int64
			if kind == 1 {
				okWant, num, den = e[3], e[4], e[5]
				if int(e[6]) != len(res)+1 {
					rp.Bug("reservation id %d, have %d", e[6], len(res))
				}
			} else {
				num, den = e[3], e[4]
			}
			r := lim.ReserveN(now, n)
			if r == nil {
				return fail(k, "", "ReserveN returned nil")
			}
			if kind == 1 {
				res = append(res, r)
			}
			d := r.DelayFrom(now)
			switch okWant {
			case 1:
				want := run.ticks(num, den)
				if !r.OK() || d != want {
					return fail(k, "", "ReserveN(base+%v, %d): OK=%v DelayFrom(now)=%v, specification: OK=true delay=%v (limit %d units/tick)",
						now.Sub(run.base), n, r.OK(), d, want, cur)
				}
			case 0:
				if r.OK() || d != rate.InfDuration {
					return fail(k, "", "ReserveN(base+%v, %d): OK=%v DelayFrom(now)=%v, specification: OK=false, InfDuration (n exceeds burst %d)",
						now.Sub(run.base), n, r.OK(), d, cs.Burst)
				}
			case 2:
				// limit 0 and the bucket does not cover n: the tokens never arrive
				if r.OK() && d < 100*365*24*time.Hour {
					dev := ""
					if cur == 0 && n <= cs.Burst {
						dev = devZeroLimit
					}
					return fail(k, dev, "ReserveN(base+%v, %d) under limit 0 with an uncovered request: OK=true DelayFrom(now)=%v, specification: not OK or an infinite delay",
						now.Sub(run.base), n, d)
				}
			default:
				rp.Bug("ok code %d", okWant)
			}
		case 2: // CancelAt
			id := int(e[2])
			if id < 1 || id > len(res) {
				rp.Bug("cancel of reservation %d of %d", id, len(res))
			}
			res[id-1].CancelAt(now)
		case 3: // SetLimitAt
			nl, err := run.limitOf(e[2], run.useEvery)
			if err != nil {
				return fail(k, "", "%v", err)
			}
			lim.SetLimitAt(now, nl)
			cur = e[2]
		case 4: // DelayFrom
			id := int(e[2])
			if id < 1 || id > len(res) {
				rp.Bug("delay of reservation %d of %d", id, len(res))
			}
			want := rate.InfDuration
			if e[3] >= 0 {
				want = run.ticks(e[3], 1)
			}
			if got := res[id-1].DelayFrom(now); got != want {
				return fail(k, "", "reservation %d: DelayFrom(base+%v) = %v, specification: %v", id, now.Sub(run.base), got, want)
			}
		case 6: // drain under limit 0
			n := int(e[2])
			if n > 0 && !lim.AllowN(now, n) {
				return fail(k, "", "limit 0: AllowN(%d) = false, the bucket holds %d tokens according to the specification", n, n)
			}
			if lim.AllowN(now, 1) {
				return fail(k, devZeroLimit, "limit 0: AllowN(1) = true after the bucket was drained, specification: false")
			}
		default:
			rp.Bug("entry kind %d", kind)
		}
		// the getters
		wantL, _ := run.limitOf(cur, false)
		if got := lim.Limit(); got != wantL {
			return fail(k, "", "Limit() = %v, specification: %v", float64(got), float64(wantL))
		}
		if got := lim.Burst(); got != cs.Burst {
			return fail(k, "", "Burst() = %d, specification: %d", got, cs.Burst)
		}
	}

	// every call returned what the specification says.  The documented token-bucket bound over the grants observed:
	if cs.Mono == 1 && cs.NoInf == 1 {
		b := int64(cs.Burst) * cs.Unit
		holds := true
		var wi, wj int
		for a := range grants {
			var sum int64
			for z := a; z < len(grants); z++ {
				sum += grants[z].units
				if sum > b+grants[z].pot-grants[a].pot {
					if holds {
						wi, wj = a, z
					}
					holds = false
				}
			}
		}
		if holds != (cs.Bound == 1) {
			rp.Bug("bound over observed grants %v, the specification's history says %v: %s", holds, cs.Bound == 1, string(raw))
		}
		if !holds {
			dev := ""
			if cs.Crossed == 1 {
				dev = devCrossed
			}
			var sum int64
			for z := wi; z <= wj; z++ {
				sum += grants[z].units
			}
			return rp.Result{OK: false, Deviation: dev, What: fmt.Sprintf(
				"token-bucket bound: Allow granted %d/%d tokens (grants %d..%d of the behaviour) while burst + refill over that interval is %d/%d tokens; "+
					"a reservation obtained before SetLimitAt was cancelled after it (CancelAt restored more tokens than it took)",
				sum, cs.Unit, wi+1, wj+1, b+grants[wj].pot-grants[wi].pot, cs.Unit)}
		}
	}
	return rp.Result{OK: true, Nontriv: true}
}
