package main

import (
	"encoding/json"
	"fmt"
	"time"

	"github.com/ossrs/go-oryx-lib/https/net/context"
	"github.com/ossrs/go-oryx-lib/https/time/rate"
	"verifharness/rp"
)

// The entry points that read the real clock (Allow, Reserve, Wait, SetLimit, Cancel, Delay) are shorthands for the
// calls the specification models: WaitN = ReserveN + sleep, and CancelAt when the context ends first.  They are
// bound here by a fixed list of scenarios on limiters with one token per hour, so that no verdict depends on how
// long anything takes: a delay is "about an hour" (one reservation outstanding) or "about two hours" (two).

const devWaitInf = "X01/wait-inf-exceeds-burst"

func init() {
	registry["api"] = replayAPI
}

func aboutAnHour(d time.Duration) bool { return d > 59*time.Minute && d < 61*time.Minute }

func replayAPI(c *rp.Ctx, i int, raw json.RawMessage) rp.Result {
	var cs struct {
		Kind string `json:"kind"`
	}
	if err := json.Unmarshal(raw, &cs); err != nil {
		panic(err)
	}
	bad := func(dev string, format string, a ...interface{}) rp.Result {
		return rp.Result{OK: false, Deviation: dev, What: cs.Kind + ": " + fmt.Sprintf(format, a...)}
	}
	hourly := rate.Every(time.Hour)
	bg := context.Background()
	switch cs.Kind {
	case "every":
		for _, x := range []struct {
			d    time.Duration
			want rate.Limit
		}{{time.Second, 1}, {500 * time.Millisecond, 2}, {125 * time.Millisecond, 8}, {4 * time.Second, 0.25}, {0, rate.Inf}, {-time.Second, rate.Inf}} {
			if got := rate.Every(x.d); got != x.want {
				return bad("", "Every(%v) = %v, want %v", x.d, float64(got), float64(x.want))
			}
		}
		if rate.InfDuration != time.Duration(1<<63-1) {
			return bad("", "InfDuration = %d", int64(rate.InfDuration))
		}
	case "zero-value":
		// "The zero value is a valid Limiter, but it will reject all events."
		var z rate.Limiter
		now := time.Now()
		if z.AllowN(now, 1) || z.Allow() {
			return bad("", "the zero Limiter allowed an event")
		}
		if r := z.ReserveN(now, 1); r.OK() || r.DelayFrom(now) != rate.InfDuration {
			return bad("", "the zero Limiter reserved an event: OK=%v delay=%v", r.OK(), r.DelayFrom(now))
		}
		if err := z.WaitN(bg, 1); err == nil {
			return bad("", "the zero Limiter let Wait pass")
		}
	case "shorthands":
		lim := rate.NewLimiter(hourly, 2)
		if !lim.Allow() || !lim.Allow() || lim.Allow() {
			return bad("", "Allow() on a fresh limiter of burst 2 did not answer true, true, false")
		}
		r := lim.Reserve()
		if !r.OK() || !aboutAnHour(r.Delay()) {
			return bad("", "Reserve() on the drained limiter: OK=%v Delay()=%v, want about 1h", r.OK(), r.Delay())
		}
		r.Cancel()
		r2 := lim.Reserve()
		if !r2.OK() || !aboutAnHour(r2.Delay()) {
			return bad("", "Reserve() after Cancel(): OK=%v Delay()=%v, want about 1h (the cancelled token is back)", r2.OK(), r2.Delay())
		}
		lim.SetLimit(rate.Inf)
		if lim.Limit() != rate.Inf || !lim.Allow() {
			return bad("", "SetLimit(Inf): Limit()=%v, Allow()=false", float64(lim.Limit()))
		}
	case "wait-exceeds-burst":
		lim := rate.NewLimiter(hourly, 2)
		if err := lim.WaitN(bg, 3); err == nil {
			return bad("", "WaitN(3) with burst 2 returned nil")
		}
		if !lim.AllowN(time.Now(), 2) {
			return bad("", "the refused WaitN(3) consumed tokens")
		}
	case "wait-cancelled-context":
		lim := rate.NewLimiter(hourly, 2)
		ctx, cancel := context.WithCancel(bg)
		cancel()
		if err := lim.WaitN(ctx, 1); err != context.Canceled {
			return bad("", "WaitN with a cancelled context returned %v", err)
		}
		if !lim.AllowN(time.Now(), 2) {
			return bad("", "WaitN with a cancelled context consumed a token")
		}
	case "wait-available":
		lim := rate.NewLimiter(hourly, 2)
		if err := lim.WaitN(bg, 1); err != nil {
			return bad("", "WaitN(1) on a full bucket: %v", err)
		}
		now := time.Now()
		if lim.AllowN(now, 2) || !lim.AllowN(now, 1) {
			return bad("", "WaitN(1) on a full bucket of 2 did not consume exactly one token")
		}
	case "wait-deadline":
		lim := rate.NewLimiter(hourly, 1)
		if !lim.Allow() {
			return bad("", "fresh limiter refused")
		}
		ctx, cancel := context.WithTimeout(bg, 50*time.Millisecond)
		defer cancel()
		if err := lim.WaitN(ctx, 1); err == nil {
			return bad("", "WaitN returned nil although the token arrives an hour after the deadline")
		}
		if r := lim.Reserve(); !r.OK() || !aboutAnHour(r.Delay()) {
			return bad("", "after the refused WaitN the next reservation waits %v, want about 1h (nothing was reserved)", r.Delay())
		}
	case "wait-cancel-midway":
		lim := rate.NewLimiter(hourly, 1)
		if !lim.Allow() {
			return bad("", "fresh limiter refused")
		}
		ctx, cancel := context.WithCancel(bg)
		go func() {
			time.Sleep(30 * time.Millisecond)
			cancel()
		}()
		if err := lim.WaitN(ctx, 1); err != context.Canceled {
			return bad("", "WaitN cancelled while waiting returned %v", err)
		}
		if r := lim.Reserve(); !r.OK() || !aboutAnHour(r.Delay()) {
			return bad("", "after the cancelled WaitN the next reservation waits %v, want about 1h (the reservation was given back)", r.Delay())
		}
	case "wait-short":
		lim := rate.NewLimiter(rate.Every(20*time.Millisecond), 1)
		if !lim.Allow() {
			return bad("", "fresh limiter refused")
		}
		if err := lim.WaitN(bg, 1); err != nil {
			return bad("", "WaitN for a token 20ms away: %v", err)
		}
	case "wait-inf":
		// "Inf is the infinite rate limit; it allows all events (even if burst is zero)."
		lim := rate.NewLimiter(rate.Inf, 0)
		if !lim.AllowN(time.Now(), 5) || !lim.ReserveN(time.Now(), 5).OK() {
			return bad("", "Inf limit refused AllowN / ReserveN")
		}
		if err := lim.WaitN(bg, 1); err != nil {
			return bad(devWaitInf, "limit Inf, burst 0: AllowN and ReserveN grant every request but WaitN(1) returns %q", err.Error())
		}
	default:
		rp.Bug("unknown api case %q", cs.Kind)
	}
	return rp.Result{OK: true, Nontriv: true}
}
