package main

import (
	"encoding/json"
	"fmt"
	"runtime"
	"sync"

	"verifharness/rp"
)

// Stage "pair": two sessions of ONE process.  The property is stated per session; RtmpSession.tla models one session
// and assumes (NoSharedState) that a second session in the same process is a second, disjoint copy of its state.
// This stage tests the assumption: two behaviours of the case file are replayed at the same time by two goroutines,
// each over its own transport with 1-byte or random read segmentation, and the sessions change turns at every
// transport read - a reader that has half a chunk header waits while the other session reads its own.
// Even pairs: strict alternation through a baton (deterministic); odd pairs: free running with runtime.Gosched()
// and no synchronisation of the harness's own between the sessions, so that the race detector (the stage is built
// with -race) sees every unsynchronised access of the two Protocols to common memory.
// A wrong message in either session is a failing result; race reports inside package rtmp are collected by checks/c01.py.

type pairCase struct {
	A sessionCase `json:"a"`
	B sessionCase `json:"b"`
}

// baton: strict alternation of two goroutines; who finishes releases the other for good.
type baton struct {
	mu   sync.Mutex
	cond *sync.Cond
	cur  int
	done [2]bool
}

func newBaton() *baton { b := &baton{}; b.cond = sync.NewCond(&b.mu); return b }

func (b *baton) wait(me int) {
	for b.cur != me && !b.done[1-me] {
		b.cond.Wait()
	}
}
func (b *baton) acquire(me int) { b.mu.Lock(); b.wait(me); b.mu.Unlock() }
func (b *baton) yield(me int) {
	b.mu.Lock()
	if !b.done[1-me] {
		b.cur = 1 - me
		b.cond.Broadcast()
		b.wait(me)
	}
	b.mu.Unlock()
}
func (b *baton) finish(me int) {
	b.mu.Lock()
	b.done[me] = true
	b.cur = 1 - me
	b.cond.Broadcast()
	b.mu.Unlock()
}

func runPair(c *rp.Ctx, i int, pc pairCase) rp.Result {
	strict := i%2 == 0
	seg := "one"
	if i%4 == 3 {
		seg = "random"
	}
	bt := newBaton()
	var fails [2]*failure
	var wg sync.WaitGroup
	for me, cs := range []sessionCase{pc.A, pc.B} {
		wg.Add(1)
		go func(me int, cs sessionCase) {
			defer wg.Done()
			yield := runtime.Gosched
			if strict {
				bt.acquire(me)
				defer bt.finish(me)
				yield = func() { bt.yield(me) }
			}
			defer func() {
				if r := recover(); r != nil {
					fails[me] = failf("panic: %v", r)
				}
			}()
			fails[me] = runSessionYield(c, -1, cs, seg, me == 0, yield)
		}(me, cs)
	}
	wg.Wait()
	rp.Alive()
	for me, f := range fails {
		if f != nil {
			mode := "free running"
			if strict {
				mode = "turns change at every transport read"
			}
			return rp.Result{I: i, OK: false, Deviation: "C01/sessions-share-state",
				What: fmt.Sprintf("two sessions in one process (%s, segmentation %s): session %d, which passes alone: %s", mode, seg, me, f.what)}
		}
	}
	return rp.Result{I: i, OK: true}
}

func init() {
	batchRegistry["pair"] = func(c *rp.Ctx, cases []json.RawMessage) []rp.Result {
		out := make([]rp.Result, 0, len(cases))
		for i, raw := range cases {
			var pc pairCase
			if err := json.Unmarshal(raw, &pc); err != nil {
				panic(err)
			}
			// each session alone first: a failure here is not this stage's finding
			var alone *rp.Result
			for k, cs := range []sessionCase{pc.A, pc.B} {
				if f := runSession(c, -1, cs, "one", k == 0); f != nil && alone == nil {
					alone = &rp.Result{I: i, OK: false, What: fmt.Sprintf("session %d of the pair fails alone: %s", k, f.what), Deviation: f.deviation}
				}
			}
			if alone != nil {
				out = append(out, *alone)
				continue
			}
			out = append(out, runPair(c, i, pc))
		}
		return out
	}
}
