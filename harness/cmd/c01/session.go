package main

import (
	"encoding/json"
	"fmt"
	"math/rand"
	"strings"

	"github.com/ossrs/go-oryx-lib/rtmp"
	"verifharness/rp"
	"verifharness/rtmpx"
	"verifharness/transport"
)

// C01: behaviours of spec/rtmp/RtmpSession.tla replayed into two real endpoints (rtmp.Handshake, then
// rtmp.Protocol on the same connection) over the in-memory transport.

var registry = map[string]rp.Replayer{}
var batchRegistry = map[string]rp.Batch{}

func main() { rp.Main(registry, batchRegistry) }

type step struct {
	E        string    `json:"e"`
	M        rtmpx.Msg `json:"m"`
	Cs       int64     `json:"cs"`
	OutAfter int64     `json:"out_after"`
}

// entry is one step of the specification's schedule (RtmpSession!sched): a handshake write ("W") or read ("R")
// of N bytes by endpoint E, or ("m") the N-th session write (Steps[N-1]); C is the specification's byte counter
// of E that the step advances, after the step: bytes written into its direction (W, m), bytes taken out of the
// peer's direction (R).
type entry struct {
	K string `json:"k"`
	E string `json:"e"`
	N int    `json:"n"`
	C int    `json:"c"`
}

type sessionCase struct {
	Steps []step  `json:"steps"`
	Sched []entry `json:"sched"`
}

func (c sessionCase) bytes() int {
	n := 0
	for _, s := range c.Steps {
		cs := s.Cs
		if cs <= 0 {
			cs = 128
		}
		n += s.M.Len + 16 + 5*int((int64(s.M.Len)+cs-1)/cs)
	}
	return n
}

// failure is a mismatch, optionally one the specification knows as a named deviation.
type failure struct {
	what      string
	deviation string
}

func failf(format string, a ...interface{}) *failure {
	return &failure{what: fmt.Sprintf(format, a...)}
}

var hsNames = [3]string{"C0S0", "C1S1", "C2S2"}

// runSession replays one behaviour under one segmentation and one read schedule.
// Handshake and session of a direction travel over ONE byte stream (transport.Stream, like a TCP connection): the
// handshake calls of both endpoints and the session writes are made in the order of the specification's schedule,
// so a handshake read finds in the transport whatever the peer has written by then - its next handshake packets,
// its first session messages - and the segmenter alone decides how much of that one transport read returns
// ("whole": as much as the caller asks for).  The replay is single-threaded: the schedule enables a read only
// when its bytes have been written, a reader that wants more fails at once (NoBlock).
// lockstep: every message is read by the peer as soon as it can (after the write, or after the peer's own
// handshake if that is still going on); otherwise all writes first, then all reads.
func runSession(c *rp.Ctx, idx int, cs sessionCase, seg string, lockstep bool) (res *failure) {
	return runSessionYield(c, idx, cs, seg, lockstep, nil)
}

// runSessionYield: yield, when set, is called before every transport read of the session (after the handshake):
// the pair stage lets another session of the same process run there (idx < 0: nothing is registered with c.Hold).
func runSessionYield(c *rp.Ctx, idx int, cs sessionCase, seg string, lockstep bool, yield func()) (res *failure) {
	a, b := transport.NewPair()
	a.In.Seg = transport.SegmenterByName(seg, int64(c.Seed)*7919+1)
	b.In.Seg = transport.SegmenterByName(seg, int64(c.Seed)*7919+2)
	inSession := false
	if yield != nil {
		for _, st := range []*transport.Stream{a.In, b.In} {
			inner := st.Seg
			st.Seg = func(avail int) int {
				if inSession {
					yield()
				}
				return inner(avail)
			}
		}
	}
	a.In.NoBlock, b.In.NoBlock = true, true
	conn := map[string]*transport.Duplex{"A": a, "B": b}
	hs := map[string]*rtmp.Handshake{
		"A": rtmp.NewHandshake(rand.New(rand.NewSource(int64(c.Seed)))),
		"B": rtmp.NewHandshake(rand.New(rand.NewSource(int64(c.Seed) + 1))),
	}
	nw, nr := map[string]int{}, map[string]int{}
	c1s1 := map[string][]byte{} // what ReadC1S1 returned: the argument of WriteC2S2
	end := map[string]*rtmp.Protocol{}
	peer := map[string]string{"A": "B", "B": "A"}
	done := func(e string) bool { return nw[e] == 3 && nr[e] == 3 }
	const hsTotal = 1 + 1536 + 1536
	// what the byte counters of the transport say against the specification's (put, took): explanation of a
	// later failure, never a verdict of its own
	var notes []string
	noteDev := ""
	note := func(dev, format string, a ...interface{}) {
		if len(notes) < 3 {
			notes = append(notes, fmt.Sprintf(format, a...))
		}
		if noteDev == "" {
			noteDev = dev
		}
	}
	defer func() {
		if res != nil && len(notes) > 0 {
			res.what += " | before that: " + strings.Join(notes, "; ")
			if res.deviation == "" {
				res.deviation = noteDev
			}
		}
	}()

	// every message handed out stays what it was: messages are kept and compared again at the end
	// (a reader that recycles buffers would change a message the application already holds)
	type held struct {
		k int
		s step
		m *rtmp.Message
	}
	var kept []held
	pending := map[string][]int{} // reader -> indexes of Steps written to it and not yet read
	read := func(k int, s step) *failure {
		r := end[peer[s.E]]
		got, err := r.ReadMessage()
		if err == nil {
			kept = append(kept, held{k, s, got})
			if idx >= 0 && len(got.Payload) <= 70000 {
				// ... and after every later case of the pass (a buffer pooled across connections)
				c.Hold(idx, fmt.Sprintf("payload of message id %d read by %s", s.M.ID, peer[s.E]), got.Payload)
			}
		}
		if err != nil {
			return failf("step %d: %s reading message id %d (type %d, %d bytes, cut with %d): %v", k, peer[s.E], s.M.ID, s.M.Type, s.M.Len, s.Cs, err)
		}
		if err := s.M.Same(got, c.Seed); err != nil {
			return failf("step %d: %s read message id %d (type %d, %d bytes, ts %d, cut with %d): %v", k, peer[s.E], s.M.ID, s.M.Type, s.M.Len, s.M.Ts, s.Cs, err)
		}
		if in, _ := r.VerifChunkSizes(); int64(in) != s.OutAfter {
			return failf("step %d: %s input chunk size %d after reading, specification says %d", k, peer[s.E], in, s.OutAfter)
		}
		return nil
	}
	drain := func() *failure {
		for _, e := range []string{"A", "B"} {
			if !done(e) {
				continue
			}
			for _, k := range pending[e] {
				if f := read(k, cs.Steps[k]); f != nil {
					return f
				}
			}
			pending[e] = nil
		}
		return nil
	}
	write := func(k int, s step) *failure {
		w := end[s.E]
		var err error
		if s.M.Type == 1 && (k+s.M.ID)%2 == 0 {
			// the packet API and the raw message API must behave alike
			p := rtmp.NewSetChunkSize()
			p.ChunkSize = uint32(s.M.Scs)
			err = w.WritePacket(p, int(s.M.Sid))
		} else {
			err = w.WriteMessage(s.M.Build(c.Seed))
		}
		if err != nil {
			return failf("step %d: %s writing message id %d: %v", k, s.E, s.M.ID, err)
		}
		if _, out := w.VerifChunkSizes(); int64(out) != s.OutAfter {
			return failf("step %d: %s output chunk size %d after writing (type %d scs %d), specification says %d", k, s.E, out, s.M.Type, s.M.Scs, s.OutAfter)
		}
		pending[peer[s.E]] = append(pending[peer[s.E]], k)
		return nil
	}

	for i, x := range cs.Sched {
		t := conn[x.E]
		switch x.K {
		case "W":
			var err error
			k := nw[x.E]
			switch k {
			case 0:
				err = hs[x.E].WriteC0S0(t)
			case 1:
				err = hs[x.E].WriteC1S1(t)
			case 2:
				err = hs[x.E].WriteC2S2(t, c1s1[x.E])
			default:
				panic("schedule has a fourth handshake write")
			}
			nw[x.E]++
			if err != nil {
				return failf("schedule %d: %s Write%s: %v", i, x.E, hsNames[k], err)
			}
			if t.Out.Len() != x.C {
				note("", "schedule %d: %s has written %d bytes after Write%s (%d bytes), specification says %d", i, x.E, t.Out.Len(), hsNames[k], x.N, x.C)
			}
		case "R":
			var err error
			k := nr[x.E]
			before, avail := t.In.Consumed(), t.In.Len()-t.In.Consumed()
			switch k {
			case 0:
				_, err = hs[x.E].ReadC0S0(t)
			case 1:
				c1s1[x.E], err = hs[x.E].ReadC1S1(t)
			case 2:
				_, err = hs[x.E].ReadC2S2(t)
			default:
				panic("schedule has a fourth handshake read")
			}
			nr[x.E]++
			if err != nil {
				return failf("schedule %d: %s Read%s with %d bytes in the transport (%d consumed before): %v", i, x.E, hsNames[k], avail, before, err)
			}
			// The specification's reader takes exactly the packet (HsExact).  The verdict stays with the messages: a
			// handshake that reads ahead inside its own 3073 bytes and keeps them for its next call loses nothing, one
			// that takes a byte of what follows the handshake has taken it from the session for good (the Protocol is
			// created on the connection, not on the Handshake) - some message below cannot be read any more, and this
			// is the explanation that goes with it.
			if got := t.In.Consumed(); got > hsTotal {
				note("C01/handshake-overread", "schedule %d: %s Read%s took %d bytes out of the transport (%d of the peer's bytes were there: the %d of the packet and what the peer "+
					"wrote behind it); the handshake has now consumed %d bytes of the peer's stream, %d more than its %d: session bytes, lost to the Protocol",
					i, x.E, hsNames[k], got-before, avail, x.N, got, got-hsTotal, hsTotal)
			} else if got > x.C {
				note("C01/handshake-overread", "schedule %d: %s Read%s took %d bytes out of the transport, the packet has %d (%d of the peer's bytes were there)", i, x.E, hsNames[k], got-before, x.N, avail)
			} else if got < x.C {
				note("", "schedule %d: %s has consumed %d bytes after Read%s, specification says %d", i, x.E, got, hsNames[k], x.C)
			}
		case "m":
			if x.N < 1 || x.N > len(cs.Steps) || cs.Steps[x.N-1].E != x.E {
				panic(fmt.Sprintf("schedule %d does not fit the steps", i))
			}
			if !done(x.E) {
				panic(fmt.Sprintf("schedule %d: session write before the writer's handshake is complete", i))
			}
			if f := write(x.N-1, cs.Steps[x.N-1]); f != nil {
				return f
			}
		default:
			panic("unknown schedule entry " + x.K)
		}
		if done(x.E) && end[x.E] == nil {
			// the application goes on with the session on the same connection
			end[x.E] = rtmp.NewProtocol(t)
			inSession = true
		}
		if lockstep {
			if f := drain(); f != nil {
				return f
			}
		}
	}
	if !done("A") || !done("B") {
		panic("schedule ends before both handshakes are complete")
	}
	if f := drain(); f != nil {
		return f
	}
	if len(kept) != len(cs.Steps) {
		panic(fmt.Sprintf("%d of %d messages read", len(kept), len(cs.Steps)))
	}
	for _, h := range kept {
		if err := h.s.M.Same(h.m, c.Seed); err != nil {
			return failf("step %d: the message id %d that %s had read changed after later reads: %v", h.k, h.s.M.ID, peer[h.s.E], err)
		}
	}
	// exactly that sequence: the endpoints have gone quiet, nothing is written behind the last message of a direction,
	// and a further read finds no message nobody wrote
	for _, e := range []string{"A", "B"} {
		rp.Alive()
		if m, err := end[e].ReadMessage(); err == nil {
			return failf("%s read all %d messages its peer wrote and then one more that nobody wrote: type %d, %d bytes", e, len(cs.Steps), m.MessageType, len(m.Payload))
		}
	}
	// nothing may be fabricated: a reader never has more than was written
	if a.In.Consumed() > b.Out.Len() || b.In.Consumed() > a.Out.Len() {
		return failf("reader consumed more than was written")
	}
	return nil
}

func init() {
	registry["session"] = func(c *rp.Ctx, i int, raw json.RawMessage) rp.Result {
		var cs sessionCase
		if err := json.Unmarshal(raw, &cs); err != nil {
			panic(err)
		}
		if len(cs.Sched) < 12+len(cs.Steps) {
			panic("case without a complete schedule")
		}
		n := cs.bytes()
		idx := i
		i = rp.ContentHash(raw) // per-case choices derive from the content, so the case replays alone identically
		type mode struct {
			seg      string
			lockstep bool
		}
		modes := []mode{{"whole", true}, {"whole", false}}
		if n <= 400000 {
			modes = append(modes, mode{"random", i%2 == 0})
		}
		if n <= 20000 {
			modes = append(modes, mode{"one", i%2 == 1})
		}
		for _, m := range modes {
			rp.Alive()
			if f := runSession(c, idx, cs, m.seg, m.lockstep); f != nil {
				return rp.Result{OK: false, What: fmt.Sprintf("[segmentation %s, lockstep %v] %s", m.seg, m.lockstep, f.what), Deviation: f.deviation}
			}
		}
		return rp.Result{OK: true}
	}
}
