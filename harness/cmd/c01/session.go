package main

import (
	"encoding/json"
	"fmt"

	"github.com/ossrs/go-oryx-lib/rtmp"
	"verifharness/rp"
	"verifharness/rtmpx"
	"verifharness/transport"
)

// C01: behaviours of spec/rtmp/RtmpSession.tla replayed into two real rtmp.Protocol
// endpoints over the in-memory transport, after the real simple handshake.

var registry = map[string]rp.Replayer{}
var batchRegistry = map[string]rp.Batch{}

func main() { rp.Main(registry, batchRegistry) }

type step struct {
	E        string    `json:"e"`
	M        rtmpx.Msg `json:"m"`
	Cs       int64     `json:"cs"`
	OutAfter int64     `json:"out_after"`
}

type sessionCase struct {
	Steps []step `json:"steps"`
}

func (c sessionCase) bytes() int {
	n := 0
	for _, s := range c.Steps {
		cs := s.Cs
		if cs <= 0 {
			cs = 128
		}
		n += s.M.Len + 16 + 5*int((int64(s.M.Len)+cs-1)/cs)
	}
	return n
}

// runSession replays one behaviour under one segmentation and one read schedule.
// lockstep: every write is followed at once by the peer's read; otherwise all writes, then all reads.
func runSession(c *rp.Ctx, cs sessionCase, seg string, lockstep bool) error {
	a, b := transport.NewPair()
	a.In.Seg = transport.SegmenterByName(seg, int64(c.Seed)*7919+1)
	b.In.Seg = transport.SegmenterByName(seg, int64(c.Seed)*7919+2)
	hsErr := rtmpx.Handshake(a, b, int64(c.Seed))
	// from here on the replay is single-threaded: whatever a reader needs has been written before
	a.In.NoBlock, b.In.NoBlock = true, true
	if err := hsErr; err != nil {
		return fmt.Errorf("handshake failed: %v", err)
	}
	if a.Out.Len() != 3073 || b.Out.Len() != 3073 || a.In.Consumed() != 3073 || b.In.Consumed() != 3073 {
		return fmt.Errorf("handshake moved %d/%d bytes and consumed %d/%d, want 3073 each", a.Out.Len(), b.Out.Len(), a.In.Consumed(), b.In.Consumed())
	}
	end := map[string]*rtmp.Protocol{"A": rtmp.NewProtocol(a), "B": rtmp.NewProtocol(b)}
	peer := map[string]string{"A": "B", "B": "A"}
	expIn := map[string]int64{"A": 128, "B": 128}

	// every message handed out stays what it was: messages are kept and compared again at the end
	// (a reader that recycles buffers would change a message the application already holds)
	type held struct {
		k int
		s step
		m *rtmp.Message
	}
	var kept []held
	read := func(k int, s step) error {
		r := end[peer[s.E]]
		got, err := r.ReadMessage()
		if err == nil {
			kept = append(kept, held{k, s, got})
		}
		if err != nil {
			return fmt.Errorf("step %d: %s reading message id %d (type %d, %d bytes, cut with %d): %v", k, peer[s.E], s.M.ID, s.M.Type, s.M.Len, s.Cs, err)
		}
		if err := s.M.Same(got, c.Seed); err != nil {
			return fmt.Errorf("step %d: %s read message id %d (type %d, %d bytes, ts %d, cut with %d): %v", k, peer[s.E], s.M.ID, s.M.Type, s.M.Len, s.M.Ts, s.Cs, err)
		}
		expIn[peer[s.E]] = s.OutAfter
		if in, _ := r.VerifChunkSizes(); int64(in) != s.OutAfter {
			return fmt.Errorf("step %d: %s input chunk size %d after reading, specification says %d", k, peer[s.E], in, s.OutAfter)
		}
		return nil
	}
	for k, s := range cs.Steps {
		w := end[s.E]
		var err error
		if s.M.Type == 1 && (k+s.M.ID)%2 == 0 {
			// the packet API and the raw message API must behave alike
			p := rtmp.NewSetChunkSize()
			p.ChunkSize = uint32(s.M.Scs)
			err = w.WritePacket(p, int(s.M.Sid))
		} else {
			err = w.WriteMessage(s.M.Build(c.Seed))
		}
		if err != nil {
			return fmt.Errorf("step %d: %s writing message id %d: %v", k, s.E, s.M.ID, err)
		}
		if _, out := w.VerifChunkSizes(); int64(out) != s.OutAfter {
			return fmt.Errorf("step %d: %s output chunk size %d after writing (type %d scs %d), specification says %d", k, s.E, out, s.M.Type, s.M.Scs, s.OutAfter)
		}
		if lockstep {
			if err := read(k, s); err != nil {
				return err
			}
		}
	}
	if !lockstep {
		for k, s := range cs.Steps {
			if err := read(k, s); err != nil {
				return err
			}
		}
	}
	for _, h := range kept {
		if err := h.s.M.Same(h.m, c.Seed); err != nil {
			return fmt.Errorf("step %d: the message id %d that %s had read changed after later reads: %v", h.k, h.s.M.ID, peer[h.s.E], err)
		}
	}
	// nothing may be left over or fabricated: both directions are drained exactly
	if a.In.Consumed() != b.Out.Len() || b.In.Consumed() != a.Out.Len() {
		// bufio may have read ahead, but never beyond what was written; what matters is that every byte written was needed
		if a.In.Consumed() > b.Out.Len() || b.In.Consumed() > a.Out.Len() {
			return fmt.Errorf("reader consumed more than was written")
		}
	}
	return nil
}

func init() {
	registry["session"] = func(c *rp.Ctx, i int, raw json.RawMessage) rp.Result {
		var cs sessionCase
		if err := json.Unmarshal(raw, &cs); err != nil {
			panic(err)
		}
		n := cs.bytes()
		i = rp.ContentHash(raw) // per-case choices derive from the content, so the case replays alone identically
		type mode struct {
			seg      string
			lockstep bool
		}
		modes := []mode{{"whole", true}, {"whole", false}}
		if n <= 400000 {
			modes = append(modes, mode{"random", i%2 == 0})
		}
		if n <= 20000 {
			modes = append(modes, mode{"one", i%2 == 1})
		}
		for _, m := range modes {
			if err := runSession(c, cs, m.seg, m.lockstep); err != nil {
				return rp.Result{OK: false, What: fmt.Sprintf("[segmentation %s, lockstep %v] %v", m.seg, m.lockstep, err)}
			}
		}
		return rp.Result{OK: true}
	}
}
