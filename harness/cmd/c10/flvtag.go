package main

import (
	"bytes"
	"encoding/json"
	"fmt"
	"os"

	"github.com/ossrs/go-oryx-lib/flv"
	"verifharness/ld"
	"verifharness/rp"
)

// C10: FLV audio/video tag bodies through the packagers, against spec/flvtag/FlvTag.tla.
//
// Verdicts (exactly the property's clauses):
//   frame direction  Decode(Encode(f)) = f for every canonical frame; the first byte of Encode(f) is the
//                    specification's (format / frame type and codec id are the frame's own); the decoded
//                    rate code converts to the frequency of the specification's table
//   bytes direction  for the specification's body of the frame (and bodies only another writer produces) that
//                    the packager accepts: Encode(Decode(b)) = b
//   rate tables      ToHz / OpusToHz never panic over 0..255 and give the table's value for defined codes
// Not a verdict (reported as info): whether the bytes after the first one equal the documented layout - the
// property asks for round trips, a layout that differs consistently in encoder and decoder does not break it.

type audioFrame struct {
	Fmt, Rate, Size, Type, Trait, Level, N, ID int
}

type videoFrame struct {
	Ft, Codec, Trait, Cts, N, ID int
}

type tagCase struct {
	Kind  string          `json:"kind"`
	Dir   string          `json:"dir"`
	F     json.RawMessage `json:"f"`
	Enc   json.RawMessage `json:"enc"`
	First int             `json:"first"`
	Canon bool            `json:"canon"`
	HzDef bool            `json:"hzdef"`
	Hz    int             `json:"hz"`
	// rate cases
	Table   string `json:"table"`
	Rate    int    `json:"rate"`
	Defined bool   `json:"defined"`
}

var registry = map[string]rp.Replayer{}
var batchRegistry = map[string]rp.Batch{}

func main() { rp.Main(registry, batchRegistry) }

const (
	devOpusRate = "C10/opus-rate-corrupts-format"
	devOpusHz   = "C10/opus-to-hz"
)

func (f audioFrame) String() string {
	return fmt.Sprintf("{format=%d rate=%d size=%d type=%d trait=%#02x level=%d raw=%d bytes}", f.Fmt, f.Rate, f.Size, f.Type, f.Trait, f.Level, f.N)
}

func (f videoFrame) String() string {
	return fmt.Sprintf("{frametype=%d codec=%d trait=%#02x cts=%d raw=%d bytes}", f.Ft, f.Codec, f.Trait, f.Cts, f.N)
}

func sameAudio(want audioFrame, raw []byte, got *flv.AudioFrame) error {
	if got == nil {
		return fmt.Errorf("nil frame")
	}
	if int(got.SoundFormat) != want.Fmt || int(got.SoundRate) != want.Rate || int(got.SoundSize) != want.Size ||
		int(got.SoundType) != want.Type || int(got.Trait) != want.Trait || int(got.AudioLevel) != want.Level {
		return fmt.Errorf("decoded {format=%d rate=%d size=%d type=%d trait=%#02x level=%d raw=%d bytes}, want %v",
			got.SoundFormat, got.SoundRate, got.SoundSize, got.SoundType, uint8(got.Trait), got.AudioLevel, len(got.Raw), want)
	}
	if !bytes.Equal(got.Raw, raw) {
		return fmt.Errorf("decoded Raw differs: %s", rp.FirstDiff(got.Raw, raw))
	}
	return nil
}

func sameVideo(want videoFrame, raw []byte, got *flv.VideoFrame) error {
	if got == nil {
		return fmt.Errorf("nil frame")
	}
	if int(got.FrameType) != want.Ft || int(got.CodecID) != want.Codec || int(got.Trait) != want.Trait || int(got.CTS) != want.Cts {
		return fmt.Errorf("decoded {frametype=%d codec=%d trait=%#02x cts=%d raw=%d bytes}, want %v",
			got.FrameType, got.CodecID, uint8(got.Trait), got.CTS, len(got.Raw), want)
	}
	if !bytes.Equal(got.Raw, raw) {
		return fmt.Errorf("decoded Raw differs: %s", rp.FirstDiff(got.Raw, raw))
	}
	return nil
}

// callHz calls a rate conversion and reports a panic instead of propagating it.
func callHz(f func() int) (hz int, panicked interface{}) {
	defer func() {
		if e := recover(); e != nil {
			panicked = e
		}
	}()
	return f(), nil
}

func checkHz(table string, rate int, defined bool, want int) *rp.Result {
	r := flv.AudioSamplingRate(rate)
	fn, name := r.ToHz, "ToHz"
	if table == "opus" {
		fn, name = r.OpusToHz, "OpusToHz"
	}
	hz, p := callHz(fn)
	dev := ""
	if table == "opus" {
		dev = devOpusHz
	}
	if p != nil {
		return &rp.Result{OK: false, What: fmt.Sprintf("AudioSamplingRate(%d).%s() panics: %v", rate, name, p), Deviation: dev}
	}
	if defined && hz != want {
		return &rp.Result{OK: false, What: fmt.Sprintf("AudioSamplingRate(%d).%s() = %d, want %d Hz", rate, name, hz, want), Deviation: dev}
	}
	return nil
}

// the first byte the pre-3a4dfcf encoder wrote for an Opus frame: rate<<2 or-ed in unmasked, then bits 2-3 cleared
func unmaskedOpusFirst(f audioFrame) byte {
	return (byte(f.Fmt)<<4 | byte(f.Rate)<<2 | byte(f.Size)<<1 | byte(f.Type)) & 0xf3
}

func replayAudio(c *rp.Ctx, i int, cs *tagCase) rp.Result {
	var f audioFrame
	if err := json.Unmarshal(cs.F, &f); err != nil {
		broken("case %d: %v", i, err)
	}
	l, err := ld.Parse(cs.Enc)
	if err != nil {
		broken("case %d: %v", i, err)
	}
	body, err := l.Expand(c.Seed)
	if err != nil {
		broken("case %d: %v", i, err)
	}
	raw := ld.FillBytes(f.N, f.ID, c.Seed)
	if f.N > len(body) || !bytes.Equal(body[len(body)-f.N:], raw) || int(body[0]) != cs.First {
		broken("case %d inconsistent: the body does not start with the first byte / end with the frame's payload", i)
	}
	p, err := flv.NewAudioPackager()
	if err != nil {
		return rp.Fail(i, "NewAudioPackager: %v", err)
	}
	info := map[string]interface{}{}

	if cs.Dir == "both" {
		fr := &flv.AudioFrame{
			SoundFormat: flv.AudioCodec(f.Fmt), SoundRate: flv.AudioSamplingRate(f.Rate), SoundSize: flv.AudioSampleBits(f.Size),
			SoundType: flv.AudioChannels(f.Type), Trait: flv.AudioFrameTrait(f.Trait), AudioLevel: uint16(f.Level),
			Raw: append([]byte(nil), raw...),
		}
		tag, err := p.Encode(fr)
		if err != nil {
			return rp.Fail(i, "Encode(%v) failed: %v", f, err)
		}
		if len(tag) == 0 {
			return rp.Fail(i, "Encode(%v) returned an empty body", f)
		}
		c.Hold(i, "tag body returned by Encode", tag)
		if int(tag[0]) != cs.First {
			dev := ""
			if f.Fmt == 13 && tag[0] == unmaskedOpusFirst(f) {
				dev = devOpusRate
			}
			return rp.Result{OK: false, Deviation: dev, What: fmt.Sprintf(
				"Encode(%v): first byte %#02x (format %d, rate %d, size %d, type %d), want %#02x (format %d)",
				f, tag[0], tag[0]>>4, tag[0]>>2&3, tag[0]>>1&1, tag[0]&1, cs.First, f.Fmt)}
		}
		// an encoded body stays what it was, and a decoded frame stays what it was, while the same packager goes on
		// encoding and decoding other frames (no recycled buffers)
		keep := append([]byte(nil), tag...)
		back, err := p.Decode(tag)
		if err != nil {
			return rp.Fail(i, "Decode(Encode(%v)) failed: %v (body % x...)", f, err, head(tag))
		}
		other := &flv.AudioFrame{SoundFormat: fr.SoundFormat, SoundRate: fr.SoundRate, SoundSize: 1 - fr.SoundSize&1, SoundType: fr.SoundType,
			Trait: fr.Trait, AudioLevel: fr.AudioLevel ^ 0x5a5a, Raw: bytes.Repeat([]byte{0xa5}, len(raw)+3)}
		if otag, err := p.Encode(other); err == nil {
			p.Decode(otag)
		}
		if !bytes.Equal(tag, keep) {
			return rp.Fail(i, "the body Encode(%v) returned changed when the packager encoded another frame: %s", f, rp.FirstDiff(tag, keep))
		}
		if err := sameAudio(f, raw, back); err != nil {
			return rp.Fail(i, "Decode(Encode(f)) != f: %v (body % x...)", err, head(tag))
		}
		if cs.HzDef {
			table := "flv"
			if f.Fmt == 13 {
				table = "opus"
			}
			if r := checkHz(table, int(back.SoundRate), true, cs.Hz); r != nil {
				return *r
			}
		}
		if !bytes.Equal(tag, body) {
			info["layout"] = "encoded body differs from the documented layout after the first byte: " + rp.FirstDiff(tag, body)
		}
	}

	// bytes direction: the specification is the writer
	in := append([]byte(nil), body...)
	fr, err := p.Decode(in)
	if err != nil {
		// not accepted: the property asks nothing (the frame direction has already shown that the
		// library's own encoding of this frame is accepted)
		info["rejected"] = err.Error()
		return rp.Result{OK: true, Info: info, Nontriv: cs.Dir == "both"}
	}
	if !cs.Canon {
		// e.g. Opus with rate bits in the first byte: accepted, nothing else is asked
		return rp.Result{OK: true, Info: info, Nontriv: false}
	}
	again, err := p.Encode(fr)
	if err != nil {
		return rp.Fail(i, "Encode(Decode(b)) failed: %v (b = % x...)", err, head(body))
	}
	if !bytes.Equal(again, body) {
		dev := ""
		if f.Fmt == 13 && len(again) == len(body) && len(again) > 0 && again[0] == unmaskedOpusFirst(f) && bytes.Equal(again[1:], body[1:]) {
			dev = devOpusRate
		}
		return rp.Result{OK: false, Deviation: dev, What: fmt.Sprintf("Encode(Decode(b)) != b for the canonical body % x... of %v: %s",
			head(body), f, rp.FirstDiff(again, body))}
	}
	if err := sameAudio(f, raw, fr); err != nil {
		info["decode"] = "decoded fields differ from the documented layout: " + err.Error()
	} else if cs.HzDef {
		table := "flv"
		if f.Fmt == 13 {
			table = "opus"
		}
		if r := checkHz(table, int(fr.SoundRate), true, cs.Hz); r != nil {
			return *r
		}
	}
	return rp.Result{OK: true, Info: nilIfEmpty(info), Nontriv: true}
}

func replayVideo(c *rp.Ctx, i int, cs *tagCase) rp.Result {
	var f videoFrame
	if err := json.Unmarshal(cs.F, &f); err != nil {
		broken("case %d: %v", i, err)
	}
	l, err := ld.Parse(cs.Enc)
	if err != nil {
		broken("case %d: %v", i, err)
	}
	body, err := l.Expand(c.Seed)
	if err != nil {
		broken("case %d: %v", i, err)
	}
	raw := ld.FillBytes(f.N, f.ID, c.Seed)
	if f.N > len(body) || !bytes.Equal(body[len(body)-f.N:], raw) || int(body[0]) != cs.First {
		broken("case %d inconsistent: the body does not start with the first byte / end with the frame's payload", i)
	}
	p, err := flv.NewVideoPackager()
	if err != nil {
		return rp.Fail(i, "NewVideoPackager: %v", err)
	}
	info := map[string]interface{}{}

	if cs.Dir == "both" {
		fr := flv.NewVideoFrame()
		fr.CodecID, fr.FrameType, fr.Trait, fr.CTS = flv.VideoCodec(f.Codec), flv.VideoFrameType(f.Ft), flv.VideoFrameTrait(f.Trait), int32(f.Cts)
		fr.Raw = append([]byte(nil), raw...)
		tag, err := p.Encode(fr)
		if err != nil {
			return rp.Fail(i, "Encode(%v) failed: %v", f, err)
		}
		if len(tag) == 0 {
			return rp.Fail(i, "Encode(%v) returned an empty body", f)
		}
		c.Hold(i, "tag body returned by Encode", tag)
		if int(tag[0]) != cs.First {
			return rp.Fail(i, "Encode(%v): first byte %#02x (frame type %d, codec %d), want %#02x", f, tag[0], tag[0]>>4, tag[0]&15, cs.First)
		}
		keep := append([]byte(nil), tag...)
		back, err := p.Decode(tag)
		if err != nil {
			return rp.Fail(i, "Decode(Encode(%v)) failed: %v (body % x...)", f, err, head(tag))
		}
		other := flv.NewVideoFrame()
		other.CodecID, other.FrameType, other.Trait, other.CTS = fr.CodecID, fr.FrameType, fr.Trait, fr.CTS^0x155
		other.Raw = bytes.Repeat([]byte{0xa5}, len(raw)+3)
		if otag, err := p.Encode(other); err == nil {
			p.Decode(otag)
		}
		if !bytes.Equal(tag, keep) {
			return rp.Fail(i, "the body Encode(%v) returned changed when the packager encoded another frame: %s", f, rp.FirstDiff(tag, keep))
		}
		if err := sameVideo(f, raw, back); err != nil {
			return rp.Fail(i, "Decode(Encode(f)) != f: %v (body % x...)", err, head(tag))
		}
		if !bytes.Equal(tag, body) {
			info["layout"] = "encoded body differs from the documented layout after the first byte: " + rp.FirstDiff(tag, body)
		}
	}

	in := append([]byte(nil), body...)
	fr, err := p.Decode(in)
	if err != nil {
		info["rejected"] = err.Error()
		return rp.Result{OK: true, Info: info, Nontriv: cs.Dir == "both"}
	}
	if !cs.Canon {
		return rp.Result{OK: true, Info: info, Nontriv: false}
	}
	again, err := p.Encode(fr)
	if err != nil {
		return rp.Fail(i, "Encode(Decode(b)) failed: %v (b = % x...)", err, head(body))
	}
	if !bytes.Equal(again, body) {
		return rp.Fail(i, "Encode(Decode(b)) != b for the canonical body % x... of %v: %s", head(body), f, rp.FirstDiff(again, body))
	}
	if err := sameVideo(f, raw, fr); err != nil {
		info["decode"] = "decoded fields differ from the documented layout: " + err.Error()
	}
	return rp.Result{OK: true, Info: nilIfEmpty(info), Nontriv: true}
}

// broken reports a fault of the harness or of the generated case (never a verdict about the library): exit 2.
func broken(format string, a ...interface{}) {
	fmt.Fprintf(os.Stderr, "c10 replayer broken: "+format+"\n", a...)
	os.Exit(2)
}

func head(b []byte) []byte {
	if len(b) > 8 {
		return b[:8]
	}
	return b
}

func nilIfEmpty(m map[string]interface{}) interface{} {
	if len(m) == 0 {
		return nil
	}
	return m
}

func init() {
	registry["flvtag"] = func(c *rp.Ctx, i int, raw json.RawMessage) rp.Result {
		var cs tagCase
		if err := json.Unmarshal(raw, &cs); err != nil {
			broken("case %d: %v", i, err)
		}
		switch cs.Kind {
		case "audio":
			return replayAudio(c, i, &cs)
		case "video":
			return replayVideo(c, i, &cs)
		case "rate":
			if r := checkHz(cs.Table, cs.Rate, cs.Defined, cs.Hz); r != nil {
				return *r
			}
			return rp.Result{OK: true, Nontriv: true}
		}
		broken("case %d: unknown kind %q", i, cs.Kind)
		return rp.Result{}
	}
}
