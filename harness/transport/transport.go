// Package transport is the in-memory byte transport of the replayers (DESIGN.md 2.4):
// an unbounded one-directional Stream with read segmentation, cut, fault injection
// at a chosen read/write call index and write gates, and a Duplex / net.Conn built
// from two of them. It knows nothing about any protocol.
package transport

import (
	"errors"
	"io"
	"math/rand"
	"net"
	"sync"
	"time"
)

// Segmenter decides how many bytes (1..avail) one Read call may return.
type Segmenter func(avail int) int

// Whole returns everything available.
func Whole(avail int) int { return avail }

// OneByte returns one byte per Read.
func OneByte(avail int) int { return 1 }

// Random returns a seeded random segmenter (1..min(avail,max) bytes).
func Random(seed int64, max int) Segmenter {
	r := rand.New(rand.NewSource(seed))
	var mu sync.Mutex
	return func(avail int) int {
		mu.Lock()
		defer mu.Unlock()
		n := avail
		if n > max {
			n = max
		}
		return 1 + r.Intn(n)
	}
}

// SegmenterByName maps "whole", "one", "random".
func SegmenterByName(name string, seed int64) Segmenter {
	switch name {
	case "one":
		return OneByte
	case "random":
		return Random(seed, 97)
	}
	return Whole
}

// ErrWouldBlock is returned by Read of a NoBlock stream that has nothing to deliver.
var ErrWouldBlock = errors.New("transport: read would block (the reader wants more bytes than were written)")

// ErrInjected is the class of injected faults; each injection gets its own value.
type ErrInjected struct {
	What string
	// Inner, when set, makes the injected error itself a wrapper (like *net.OpError or *os.PathError,
	// which every non-EOF error of a real connection or file is): the root cause of a failure is the
	// transport's error VALUE, not whatever that value wraps.
	Inner error
}

func (e *ErrInjected) Error() string { return "injected fault: " + e.What }

// Unwrap exposes the inner error, as the standard library's wrappers do.
func (e *ErrInjected) Unwrap() error { return e.Inner }

// Stream is an unbounded FIFO of bytes with one writer side and one reader side.
type Stream struct {
	mu   sync.Mutex
	cond *sync.Cond

	data   []byte // everything ever written
	roff   int    // read offset into data
	closed bool   // writer closed: reader gets EOF after the data
	cutAt  int    // reader sees EOF once roff reaches cutAt (-1: none)

	Seg Segmenter

	readCalls, writeCalls int
	failRead, failWrite   map[int]error // call index (0-based) -> error

	// WriteGate, when set, is called (without the lock) at the start of every Write with
	// the call index and the bytes; Write proceeds when it returns. A non-nil error is returned by Write.
	WriteGate func(call int, p []byte) error
	// AfterWrite, when set, is called (without the lock) after the bytes were appended.
	AfterWrite func(call int, p []byte)

	Writes [][]byte // the payload of every successful Write call, in order
	Record bool

	// NoBlock makes Read return ErrWouldBlock instead of waiting when nothing is available:
	// for single-goroutine replays in which everything the reader may need was written before,
	// so that a reader wanting more (a desynchronised decoder) fails at once instead of hanging.
	NoBlock bool

	// EOFWithData makes the Read that hands out the last available byte of an ended (closed or cut)
	// stream return it together with io.EOF, which the io.Reader contract allows.
	EOFWithData bool
}

// NewStream creates a stream.
func NewStream() *Stream {
	s := &Stream{cutAt: -1, Seg: Whole, failRead: map[int]error{}, failWrite: map[int]error{}}
	s.cond = sync.NewCond(&s.mu)
	return s
}

// Write appends p.
func (s *Stream) Write(p []byte) (int, error) {
	s.mu.Lock()
	call := s.writeCalls
	s.writeCalls++
	if err, ok := s.failWrite[call]; ok {
		s.mu.Unlock()
		return 0, err
	}
	if s.closed {
		s.mu.Unlock()
		return 0, io.ErrClosedPipe
	}
	gate := s.WriteGate
	s.mu.Unlock()

	if gate != nil {
		if err := gate(call, p); err != nil {
			return 0, err
		}
	}

	s.mu.Lock()
	s.data = append(s.data, p...)
	if s.Record {
		s.Writes = append(s.Writes, append([]byte(nil), p...))
	}
	after := s.AfterWrite
	s.cond.Broadcast()
	s.mu.Unlock()
	if after != nil {
		after(call, p)
	}
	return len(p), nil
}

// Read returns the next segment; blocks until data, close or cut.
func (s *Stream) Read(p []byte) (int, error) {
	s.mu.Lock()
	defer s.mu.Unlock()
	call := s.readCalls
	s.readCalls++
	if err, ok := s.failRead[call]; ok {
		return 0, err
	}
	if len(p) == 0 {
		return 0, nil
	}
	for {
		limit := len(s.data)
		if s.cutAt >= 0 && s.cutAt < limit {
			limit = s.cutAt
		}
		if avail := limit - s.roff; avail > 0 {
			n := s.Seg(avail)
			if n < 1 {
				n = 1
			}
			if n > avail {
				n = avail
			}
			if n > len(p) {
				n = len(p)
			}
			copy(p, s.data[s.roff:s.roff+n])
			s.roff += n
			if s.EOFWithData && s.roff == limit && (s.closed || (s.cutAt >= 0 && s.roff >= s.cutAt)) {
				return n, io.EOF
			}
			return n, nil
		}
		if s.cutAt >= 0 && s.roff >= s.cutAt {
			return 0, io.EOF
		}
		if s.closed {
			return 0, io.EOF
		}
		if s.NoBlock {
			return 0, ErrWouldBlock
		}
		s.cond.Wait()
	}
}

// CloseWrite ends the stream: the reader gets io.EOF after the buffered bytes.
func (s *Stream) CloseWrite() {
	s.mu.Lock()
	s.closed = true
	s.cond.Broadcast()
	s.mu.Unlock()
}

// CutAt makes the reader see io.EOF after n bytes in total.
func (s *Stream) CutAt(n int) {
	s.mu.Lock()
	s.cutAt = n
	s.cond.Broadcast()
	s.mu.Unlock()
}

// FailRead makes the k-th Read call (0-based) return err.
func (s *Stream) FailRead(k int, err error) { s.mu.Lock(); s.failRead[k] = err; s.mu.Unlock() }

// FailWrite makes the k-th Write call (0-based) return err.
func (s *Stream) FailWrite(k int, err error) { s.mu.Lock(); s.failWrite[k] = err; s.mu.Unlock() }

// Bytes returns a copy of everything written so far.
func (s *Stream) Bytes() []byte {
	s.mu.Lock()
	defer s.mu.Unlock()
	return append([]byte(nil), s.data...)
}

// Len is the number of bytes written so far.
func (s *Stream) Len() int { s.mu.Lock(); defer s.mu.Unlock(); return len(s.data) }

// Consumed is the number of bytes the reader took so far.
func (s *Stream) Consumed() int { s.mu.Lock(); defer s.mu.Unlock(); return s.roff }

// Calls reports the number of Read and Write calls so far.
func (s *Stream) Calls() (reads, writes int) {
	s.mu.Lock()
	defer s.mu.Unlock()
	return s.readCalls, s.writeCalls
}

// Duplex is one endpoint of a bidirectional in-memory connection.
type Duplex struct {
	In  *Stream // what this endpoint reads
	Out *Stream // what this endpoint writes
}

func (d *Duplex) Read(p []byte) (int, error)  { return d.In.Read(p) }
func (d *Duplex) Write(p []byte) (int, error) { return d.Out.Write(p) }

// NewPair creates two connected endpoints.
func NewPair() (a, b *Duplex) {
	ab, ba := NewStream(), NewStream()
	return &Duplex{In: ba, Out: ab}, &Duplex{In: ab, Out: ba}
}

// Conn adapts a Duplex to net.Conn (deadlines are accepted and ignored).
type Conn struct {
	*Duplex
	closeOnce sync.Once
	Closed    chan struct{}
}

// NewConnPair creates two connected net.Conn.
func NewConnPair() (a, b *Conn) {
	da, db := NewPair()
	return &Conn{Duplex: da, Closed: make(chan struct{})}, &Conn{Duplex: db, Closed: make(chan struct{})}
}

// ErrClosed is returned by operations on a closed Conn.
var ErrClosed = errors.New("transport: use of closed connection")

func (c *Conn) Write(p []byte) (int, error) {
	select {
	case <-c.Closed:
		return 0, ErrClosed
	default:
	}
	return c.Duplex.Write(p)
}

// Close closes both directions of this endpoint.
func (c *Conn) Close() error {
	c.closeOnce.Do(func() {
		close(c.Closed)
		c.Out.CloseWrite()
		c.In.CloseWrite()
	})
	return nil
}

type addr struct{}

func (addr) Network() string { return "mem" }
func (addr) String() string  { return "mem" }

func (c *Conn) LocalAddr() net.Addr                { return addr{} }
func (c *Conn) RemoteAddr() net.Addr               { return addr{} }
func (c *Conn) SetDeadline(t time.Time) error      { return nil }
func (c *Conn) SetReadDeadline(t time.Time) error  { return nil }
func (c *Conn) SetWriteDeadline(t time.Time) error { return nil }
