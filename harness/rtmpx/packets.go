package rtmpx

import (
	"encoding/binary"
	"encoding/json"
	"fmt"
	"math"

	"github.com/ossrs/go-oryx-lib/amf0"
	"github.com/ossrs/go-oryx-lib/rtmp"
	"verifharness/ld"
)

// Val is the specification's small AMF0 value language (spec/rtmp/RtmpPacket.tla).
type Val struct {
	A  string            `json:"a"`
	B  []int             `json:"b"`
	N  int               `json:"n"`
	ID int               `json:"id"`
	V  bool              `json:"v"`
	P  []json.RawMessage `json:"p"` // pairs: [keybytes, value]
}

func ints2bytes(b []int) []byte {
	o := make([]byte, len(b))
	for i, x := range b {
		o[i] = byte(x)
	}
	return o
}

// NumOf turns 8 IEEE bytes into the float64.
func NumOf(b []int) float64 {
	if len(b) != 8 {
		panic(fmt.Sprintf("number needs 8 bytes, got %v", b))
	}
	return math.Float64frombits(binary.BigEndian.Uint64(ints2bytes(b)))
}

// Str is the string content of a "str"/"strf" value.
func (v Val) Str(seed int) string {
	if v.A == "strf" {
		return string(ld.FillBytes(v.N, v.ID, seed))
	}
	return string(ints2bytes(v.B))
}

// Amf0 builds the library value.
func (v Val) Amf0(seed int) amf0.Amf0 {
	switch v.A {
	case "num":
		return amf0.NewNumber(NumOf(v.B))
	case "str", "strf":
		return amf0.NewString(v.Str(seed))
	case "bool":
		return amf0.NewBoolean(v.V)
	case "null":
		return amf0.NewNull()
	case "undef":
		return amf0.NewUndefined()
	case "obj":
		return v.Object(seed)
	}
	panic("unknown value kind " + v.A)
}

// Object builds an *amf0.Object.
func (v Val) Object(seed int) *amf0.Object {
	o := amf0.NewObject()
	for _, raw := range v.P {
		var pair []json.RawMessage
		if err := json.Unmarshal(raw, &pair); err != nil || len(pair) != 2 {
			panic(fmt.Sprintf("bad pair %s", raw))
		}
		var key []int
		var val Val
		if err := json.Unmarshal(pair[0], &key); err != nil {
			panic(err)
		}
		if err := json.Unmarshal(pair[1], &val); err != nil {
			panic(err)
		}
		o.Set(string(ints2bytes(key)), val.Amf0(seed))
	}
	return o
}

// Pkt is the specification's abstract packet.
type Pkt struct {
	K       string `json:"k"`
	Tid     []int  `json:"tid"`
	Sid     []int  `json:"sid"`
	Cmd     []int  `json:"cmd"`
	Obj     Val    `json:"obj"`
	Args    Val    `json:"args"`
	HasObj  bool   `json:"hasobj"`
	HasArgs bool   `json:"hasargs"`
	Name    Val    `json:"name"`
	Type    Val    `json:"type"`
	Hi      uint32 `json:"hi"`
	Lo      uint32 `json:"lo"`
	Limit   int    `json:"limit"`
	Et      int    `json:"et"`
	Dhi     uint32 `json:"dhi"`
	Dlo     uint32 `json:"dlo"`
	Xhi     uint32 `json:"xhi"`
	Xlo     uint32 `json:"xlo"`
	D0      int    `json:"d0"`
}

// Build constructs the library packet through its public constructors and fields.
func (p Pkt) Build(seed int) rtmp.Packet {
	switch p.K {
	case "connect":
		v := rtmp.NewConnectAppPacket()
		v.TransactionID = amf0.Number(NumOf(p.Tid))
		v.CommandObject = p.Obj.Object(seed)
		if p.HasArgs {
			v.Args = p.Args.Object(seed)
		}
		return v
	case "connectRes":
		v := rtmp.NewConnectAppResPacket(amf0.Number(NumOf(p.Tid)))
		v.CommandObject = p.Obj.Object(seed)
		if p.HasArgs {
			v.Args = p.Args.Object(seed)
		}
		return v
	case "createStream":
		v := rtmp.NewCreateStreamPacket()
		v.TransactionID = amf0.Number(NumOf(p.Tid))
		v.CommandObject = p.Obj.Amf0(seed)
		return v
	case "createStreamRes":
		v := rtmp.NewCreateStreamResPacket(amf0.Number(NumOf(p.Tid)))
		v.CommandObject = p.Obj.Amf0(seed)
		v.StreamID = amf0.Number(NumOf(p.Sid))
		return v
	case "publish":
		v := rtmp.NewPublishPacket()
		v.TransactionID = amf0.Number(NumOf(p.Tid))
		v.CommandObject = p.Obj.Amf0(seed)
		v.StreamName = amf0.String(p.Name.Str(seed))
		v.StreamType = amf0.String(p.Type.Str(seed))
		return v
	case "play":
		v := rtmp.NewPlayPacket()
		v.TransactionID = amf0.Number(NumOf(p.Tid))
		v.CommandObject = p.Obj.Amf0(seed)
		v.StreamName = amf0.String(p.Name.Str(seed))
		return v
	case "call":
		var v *rtmp.CallPacket
		if string(ints2bytes(p.Cmd)) == "closeStream" && p.HasObj && p.Obj.A == "null" {
			v = rtmp.NewCloseStreamPacket()
		} else {
			v = rtmp.NewCallPacket()
			v.CommandName = amf0.String(ints2bytes(p.Cmd))
			if p.HasObj {
				v.CommandObject = p.Obj.Amf0(seed)
			}
		}
		v.TransactionID = amf0.Number(NumOf(p.Tid))
		if p.HasArgs {
			v.Args = p.Args.Amf0(seed)
		}
		return v
	case "scs":
		v := rtmp.NewSetChunkSize()
		v.ChunkSize = p.Hi<<16 | p.Lo
		return v
	case "winack":
		v := rtmp.NewWindowAcknowledgementSize()
		v.AckSize = p.Hi<<16 | p.Lo
		return v
	case "peerbw":
		v := rtmp.NewSetPeerBandwidth()
		v.Bandwidth = p.Hi<<16 | p.Lo
		v.LimitType = rtmp.LimitType(p.Limit)
		return v
	case "uc":
		v := rtmp.NewUserControl()
		v.EventType = rtmp.EventType(p.Et)
		if p.Et == 0x1a {
			v.EventData = int32(p.D0)
		} else {
			v.EventData = int32(p.Dhi<<16 | p.Dlo)
		}
		if p.Et == 3 {
			v.ExtraData = int32(p.Xhi<<16 | p.Xlo)
		}
		return v
	}
	panic("unknown packet kind " + p.K)
}

// Fresh returns an empty packet of the same Go type, the way a receiver creates it.
func (p Pkt) Fresh() rtmp.Packet {
	switch p.K {
	case "connect":
		return rtmp.NewConnectAppPacket()
	case "connectRes":
		return rtmp.NewConnectAppResPacket(0)
	case "createStream":
		return rtmp.NewCreateStreamPacket()
	case "createStreamRes":
		return rtmp.NewCreateStreamResPacket(0)
	case "publish":
		return rtmp.NewPublishPacket()
	case "play":
		return rtmp.NewPlayPacket()
	case "call":
		return rtmp.NewCallPacket()
	case "scs":
		return rtmp.NewSetChunkSize()
	case "winack":
		return rtmp.NewWindowAcknowledgementSize()
	case "peerbw":
		return rtmp.NewSetPeerBandwidth()
	case "uc":
		return rtmp.NewUserControl()
	}
	panic("unknown packet kind " + p.K)
}
