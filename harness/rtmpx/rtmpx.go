// Package rtmpx holds what the RTMP replayers (C01-C04, C08) share: message
// construction from the specification's abstract messages, the handshake over
// the in-memory transport and comparison of received messages.
package rtmpx

import (
	"bytes"
	"encoding/binary"
	"fmt"
	"math/rand"

	"github.com/ossrs/go-oryx-lib/rtmp"
	"verifharness/ld"
	"verifharness/transport"
)

// Msg is the specification's abstract message.
type Msg struct {
	ID   int    `json:"id"`
	Type int    `json:"type"`
	Sid  int64  `json:"sid"`
	Ts   int64  `json:"ts"`
	Len  int    `json:"len"`
	Scs  int64  `json:"scs"`
	Ctl  string `json:"ctl"`
}

// Body is the payload of the message: the pattern for data messages, a well-formed body for
// protocol-control messages (Set Chunk Size = the size; User Control = PingRequest + 4 bytes;
// Window Acknowledgement Size = 4 bytes; Set Peer Bandwidth = 4 bytes + limit type).
func (m Msg) Body(seed int) []byte {
	switch m.Type {
	case 1:
		b := make([]byte, 4)
		binary.BigEndian.PutUint32(b, uint32(m.Scs))
		return b
	case 4:
		if m.Len == 6 {
			return append([]byte{0, 6}, ld.FillBytes(4, m.ID, seed)...)
		}
	case 6:
		if m.Len == 5 {
			return append(ld.FillBytes(4, m.ID, seed), byte(m.ID%3))
		}
	}
	return ld.FillBytes(m.Len, m.ID, seed)
}

// Build makes the library message for m.
func (m Msg) Build(seed int) *rtmp.Message {
	v := rtmp.NewStreamMessage(int(m.Sid))
	v.MessageType = rtmp.MessageType(m.Type)
	v.Timestamp = uint64(m.Ts)
	v.Payload = m.Body(seed)
	if m.Type >= 1 && m.Type <= 6 {
		v.VerifSetCid(2) // protocol control messages travel on chunk stream 2
	}
	return v
}

// Same compares a received library message with m.
func (m Msg) Same(got *rtmp.Message, seed int) error {
	if got == nil {
		return fmt.Errorf("nil message")
	}
	if int(got.MessageType) != m.Type {
		return fmt.Errorf("message type %d, want %d", got.MessageType, m.Type)
	}
	if int64(got.VerifStreamID()) != m.Sid {
		return fmt.Errorf("stream id %d, want %d", got.VerifStreamID(), m.Sid)
	}
	if int64(got.Timestamp) != m.Ts {
		return fmt.Errorf("timestamp %d, want %d", got.Timestamp, m.Ts)
	}
	if want := m.Body(seed); !bytes.Equal(got.Payload, want) {
		n := len(want)
		if len(got.Payload) < n {
			n = len(got.Payload)
		}
		at := n
		for i := 0; i < n; i++ {
			if got.Payload[i] != want[i] {
				at = i
				break
			}
		}
		return fmt.Errorf("payload differs: len %d want %d, first difference at %d", len(got.Payload), len(want), at)
	}
	return nil
}

// Handshake runs the simple handshake of the library's example code between the
// two ends of an in-memory connection (client on a, server on b).
func Handshake(a, b *transport.Duplex, seed int64) error {
	errc := make(chan error, 2)
	go func() {
		hs := rtmp.NewHandshake(rand.New(rand.NewSource(seed)))
		if err := hs.WriteC0S0(a); err != nil {
			errc <- err
			return
		}
		if err := hs.WriteC1S1(a); err != nil {
			errc <- err
			return
		}
		if _, err := hs.ReadC0S0(a); err != nil {
			errc <- err
			return
		}
		s1, err := hs.ReadC1S1(a)
		if err != nil {
			errc <- err
			return
		}
		if _, err := hs.ReadC2S2(a); err != nil {
			errc <- err
			return
		}
		errc <- hs.WriteC2S2(a, s1)
	}()
	go func() {
		hs := rtmp.NewHandshake(rand.New(rand.NewSource(seed + 1)))
		if _, err := hs.ReadC0S0(b); err != nil {
			errc <- err
			return
		}
		c1, err := hs.ReadC1S1(b)
		if err != nil {
			errc <- err
			return
		}
		if err := hs.WriteC0S0(b); err != nil {
			errc <- err
			return
		}
		if err := hs.WriteC1S1(b); err != nil {
			errc <- err
			return
		}
		if err := hs.WriteC2S2(b, c1); err != nil {
			errc <- err
			return
		}
		_, err = hs.ReadC2S2(b)
		errc <- err
	}()
	for i := 0; i < 2; i++ {
		if err := <-errc; err != nil {
			return err
		}
	}
	return nil
}
