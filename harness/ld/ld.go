// Package ld expands layout descriptors emitted by the TLA+ specifications
// (spec/common/LD.tla) into bytes. It knows nothing about any wire format.
package ld

import (
	"encoding/json"
	"fmt"
)

// Field is one field of a layout descriptor.
type Field struct {
	K   string `json:"k"`
	V   int64  `json:"v"`
	Hi  int64  `json:"hi"`
	Lo  int64  `json:"lo"`
	B   []int  `json:"b"`
	N   int    `json:"n"`
	ID  int    `json:"id"`
	Off int    `json:"off"`
}

// LD is a sequence of fields.
type LD []Field

// FillByte is the pattern of payload bytes: never constant, able to look like headers.
func FillByte(id, i, seed int) byte {
	return byte((id*131 + i*7 + seed) % 251)
}

// FillBytes returns n pattern bytes.
func FillBytes(n, id, seed int) []byte {
	b := make([]byte, n)
	for i := range b {
		b[i] = FillByte(id, i, seed)
	}
	return b
}

// Len is the number of bytes the descriptor expands to.
func (l LD) Len() int {
	n := 0
	for _, f := range l {
		switch f.K {
		case "u8":
			n++
		case "u16":
			n += 2
		case "u24":
			n += 3
		case "u32", "u32x", "u32f", "u32le":
			n += 4
		case "raw":
			n += len(f.B)
		case "fill", "fillo":
			n += f.N
		}
	}
	return n
}

// Expand turns the descriptor into bytes.
func (l LD) Expand(seed int) ([]byte, error) {
	out := make([]byte, 0, l.Len())
	for i, f := range l {
		switch f.K {
		case "u8":
			if f.V < 0 || f.V > 0xff {
				return nil, fmt.Errorf("field %d: u8 out of range %d", i, f.V)
			}
			out = append(out, byte(f.V))
		case "u16":
			if f.V < 0 || f.V > 0xffff {
				return nil, fmt.Errorf("field %d: u16 out of range %d", i, f.V)
			}
			out = append(out, byte(f.V>>8), byte(f.V))
		case "u24":
			if f.V < 0 || f.V > 0xffffff {
				return nil, fmt.Errorf("field %d: u24 out of range %d", i, f.V)
			}
			out = append(out, byte(f.V>>16), byte(f.V>>8), byte(f.V))
		case "u32":
			if f.V < 0 || f.V > 0xffffffff {
				return nil, fmt.Errorf("field %d: u32 out of range %d", i, f.V)
			}
			out = append(out, byte(f.V>>24), byte(f.V>>16), byte(f.V>>8), byte(f.V))
		case "u32x", "u32f":
			if f.Hi < 0 || f.Hi > 0xffff || f.Lo < 0 || f.Lo > 0xffff {
				return nil, fmt.Errorf("field %d: u32x out of range %d %d", i, f.Hi, f.Lo)
			}
			out = append(out, byte(f.Hi>>8), byte(f.Hi), byte(f.Lo>>8), byte(f.Lo))
		case "u32le":
			if f.V < 0 || f.V > 0xffffffff {
				return nil, fmt.Errorf("field %d: u32le out of range %d", i, f.V)
			}
			out = append(out, byte(f.V), byte(f.V>>8), byte(f.V>>16), byte(f.V>>24))
		case "raw":
			for _, b := range f.B {
				if b < 0 || b > 0xff {
					return nil, fmt.Errorf("field %d: raw byte out of range %d", i, b)
				}
				out = append(out, byte(b))
			}
		case "fill":
			out = append(out, FillBytes(f.N, f.ID, seed)...)
		case "fillo":
			for j := 0; j < f.N; j++ {
				out = append(out, FillByte(f.ID, f.Off+j, seed))
			}
		default:
			return nil, fmt.Errorf("field %d: unknown kind %q", i, f.K)
		}
	}
	return out, nil
}

// Free marks the byte positions of fields whose value the format leaves to the writer ("u32f"): bytes
// written by the code under test are not compared there. nil if the descriptor has no such field.
func (l LD) Free() []bool {
	var mask []bool
	off := 0
	for _, f := range l {
		n := LD{f}.Len()
		if f.K == "u32f" {
			if mask == nil {
				mask = make([]bool, l.Len())
			}
			for j := 0; j < n; j++ {
				mask[off+j] = true
			}
		}
		off += n
	}
	return mask
}

// DiffFree compares code-written bytes with expanded ones, skipping free positions; "" when they agree.
func DiffFree(got, want []byte, free []bool) string {
	if len(got) != len(want) {
		return fmt.Sprintf("len %d vs %d", len(got), len(want))
	}
	for i := range got {
		if got[i] != want[i] && (free == nil || !free[i]) {
			return fmt.Sprintf("len %d vs %d, first difference at offset %d: %#02x vs %#02x", len(got), len(want), i, got[i], want[i])
		}
	}
	return ""
}

// Parse decodes a JSON layout descriptor.
func Parse(raw json.RawMessage) (LD, error) {
	var l LD
	if len(raw) == 0 {
		return nil, nil
	}
	err := json.Unmarshal(raw, &l)
	return l, err
}

// Must expands or panics (the descriptor comes from our own specification).
func (l LD) Must(seed int) []byte {
	b, err := l.Expand(seed)
	if err != nil {
		panic(err)
	}
	return b
}
