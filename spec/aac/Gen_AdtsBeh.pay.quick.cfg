INIT BInit
NEXT BNext
CONSTANTS
  AscInputs <- BAscPay
  RawLens = {7}
  LibIds = {0}
  Frames <- BFramesPay
  MaxFrames = 3
  CrcCounted = TRUE
  PayFrames <- BPayFrames
  PayHeads <- BPayHeads
  TwiceLens = {1}
  PassThrough = FALSE
  LenMod = 0
  Depth = 4
INVARIANTS Emit DecodeExact WireIsPending
CHECK_DEADLOCK FALSE
