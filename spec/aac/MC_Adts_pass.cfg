SPECIFICATION Spec
CONSTANTS
  AscInputs <- PayAscInputs
  RawLens = {2}
  LibIds = {0}
  Frames <- PayMcFrames
  MaxFrames = 3
  CrcCounted = TRUE
  PayFrames <- McPayFrames
  PayHeads <- McPayHeads
  TwiceLens = {2}
  PassThrough = TRUE
  LenMod = 0
INVARIANTS DecodeExact
CHECK_DEADLOCK FALSE
