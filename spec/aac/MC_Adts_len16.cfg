SPECIFICATION Spec
CONSTANTS
  AscInputs = {}
  RawLens = {}
  LibIds = {0}
  Frames <- LongFrames
  MaxFrames = 9
  CrcCounted = TRUE
  PayFrames = {}
  PayHeads = {}
  TwiceLens = {}
  PassThrough = FALSE
  LenMod = 65536
ACTION_CONSTRAINT WriteFirst
ALIAS LongView
INVARIANTS DecodeExact
CHECK_DEADLOCK FALSE
