------------------------------ MODULE MC_Adts ------------------------------
(* Exhaustive run of the ADTS object on small frames: every interleaving of   *)
(* SetASC / Encode / Write / Decode that writes at most MaxFrames frames.      *)
EXTENDS Adts
\* AudioSpecificConfig inputs: LC 44.1k stereo, Main 88.2k mono, HEv2 7.35k 7.1,
\* SSR 8k 5.1 with trailing bits set; rejected: object type 4, index 0, channels 0
McAscInputs == { AscBytes(2, 4, 2), AscBytes(1, 1, 1), AscBytes(29, 12, 7),
                 <<AscBytes(3, 11, 6)[1], AscBytes(3, 11, 6)[2] + 5>>,
                 AscBytes(4, 4, 2), AscBytes(2, 0, 2), AscBytes(2, 4, 0) }
AuxAll == [priv |-> 1, orig |-> 1, home |-> 1, cib |-> 1, cis |-> 1, bf |-> 0]
Fr(id, prot, profile, sfi, chan, n, crc, aux) ==
  [id |-> id, prot |-> prot, profile |-> profile, sfi |-> sfi, chan |-> chan,
   n |-> n, fid |-> 0, crc |-> crc, aux |-> aux]
\* the ISO writer: both IDs, with and without CRC (one CRC that looks like a sync word)
McFrames == { Fr(1, 1, 1, 4, 2, 1, 0, Aux0),
              Fr(0, 0, 1, 4, 2, 2, 65521, Aux0),
              Fr(1, 0, 0, 1, 1, 1, 4660, AuxAll),
              Fr(0, 1, 2, 12, 7, 3, 0, AuxAll),
              Fr(1, 0, 2, 11, 5, 3, 65535, Aux0) }
=============================================================================
