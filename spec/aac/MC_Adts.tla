------------------------------ MODULE MC_Adts ------------------------------
(* Exhaustive run of the ADTS object on small frames: every interleaving of   *)
(* SetASC / Encode / Write / Decode that writes at most MaxFrames frames.      *)
EXTENDS Adts
\* AudioSpecificConfig inputs: LC 44.1k stereo, Main 88.2k mono, HEv2 7.35k 7.1,
\* SSR 8k 5.1 with trailing bits set; rejected: object type 4, index 0, channels 0
McAscInputs == { AscBytes(2, 4, 2), AscBytes(1, 1, 1), AscBytes(29, 12, 7),
                 <<AscBytes(3, 11, 6)[1], AscBytes(3, 11, 6)[2] + 5>>,
                 AscBytes(4, 4, 2), AscBytes(2, 0, 2), AscBytes(2, 4, 0) }
AuxAll == [priv |-> 1, orig |-> 1, home |-> 1, cib |-> 1, cis |-> 1, bf |-> 0]
Fr(id, prot, profile, sfi, chan, n, crc, aux) ==
  [id |-> id, prot |-> prot, profile |-> profile, sfi |-> sfi, chan |-> chan,
   n |-> n, fid |-> 0, crc |-> crc, aux |-> aux, pre |-> <<>>]
\* the ISO writer: both IDs, with and without CRC (one CRC that looks like a sync word)
McFrames == { Fr(1, 1, 1, 4, 2, 1, 0, Aux0),
              Fr(0, 0, 1, 4, 2, 2, 65521, Aux0),
              Fr(1, 0, 0, 1, 1, 1, 4660, AuxAll),
              Fr(0, 1, 2, 12, 7, 3, 0, AuxAll),
              Fr(1, 0, 2, 11, 5, 3, 65535, Aux0) }

\* ---- payload classes (MC_Adts_pay / MC_Adts_pass): a smaller alphabet, plus raw blocks with content
PayAscInputs == { AscBytes(2, 4, 2), AscBytes(29, 12, 7), AscBytes(4, 4, 2) }
\* the ISO writer: a CRC frame, and a frame that carries a complete frame as its raw block
PayMcFrames == { Fr(0, 0, 1, 4, 2, 2, 65521, Aux0),
                 [Fr(1, 1, 0, 3, 1, 9, 0, Aux0) EXCEPT !.pre = PreFrame(Fr(0, 1, 1, 4, 2, 2, 0, Aux0))] }
\* raw blocks handed to Encode that are complete frames: another configuration without and
\* with CRC (either ID), and a frame whose block is a frame again
McPayFrames == { Fr(0, 1, 0, 3, 1, 2, 0, Aux0),
                 Fr(1, 0, 2, 11, 5, 1, 65521, AuxAll),
                 [Fr(1, 1, 1, 4, 2, 8, 0, Aux0) EXCEPT !.pre = PreFrame(Fr(0, 1, 0, 3, 1, 1, 0, Aux0))] }
\* raw blocks that start like a header: sync word only, and a header of a 3-byte frame
McPayHeads == { <<255, 241>>, <<255, 249, 80>> }

\* ---- long streams (MC_Adts_long / MC_Adts_len16): frames of the maximum size, written until the
\* stream is longer than 64 KiB, then decoded one at a time
LongFrames == { Fr(1, 0, 0, 3, 6, 8182, 4660, Aux0) }
\* all frames are written before the first is taken
\* what an error trace of these runs shows (the stream itself is 64 KiB of numbers)
LongView == [asc |-> asc, res |-> res, nw |-> nw, wire_len |-> Len(wire), pending |-> Len(pend),
             got |-> IF got = <<>> THEN "-" ELSE [ok |-> got[1].ok, why |-> got[1].why, fl |-> got[1].fl,
                                                   raw_len |-> Len(got[1].raw), left_len |-> Len(got[1].left)]]
WriteFirst == (Len(pend') < Len(pend)) => nw = MaxFrames
=============================================================================
