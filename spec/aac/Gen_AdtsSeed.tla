---------------------------- MODULE Gen_AdtsSeed ----------------------------
(* Overwritten by checks/c11.py with VERIF_SEED for every run.               *)
Seed == 1
=============================================================================
