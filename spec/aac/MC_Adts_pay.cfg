SPECIFICATION Spec
CONSTANTS
  AscInputs <- PayAscInputs
  RawLens = {2}
  LibIds = {0}
  Frames <- PayMcFrames
  MaxFrames = 3
  CrcCounted = TRUE
  PayFrames <- McPayFrames
  PayHeads <- McPayHeads
  TwiceLens = {2}
  PassThrough = FALSE
  LenMod = 0
INVARIANTS WireIsPending SyncAtHead Drained DecodeExact SetAscOk
CHECK_DEADLOCK FALSE
