INIT TabInit
NEXT TabNext
CONSTANTS
  AscInputs = {}
  RawLens = {}
  LibIds = {}
  Frames = {}
  MaxFrames = 0
  CrcCounted = TRUE
  PayFrames = {}
  PayHeads = {}
  TwiceLens = {}
  PassThrough = FALSE
  LenMod = 0
INVARIANTS AscOk FieldsOk HdrOk ObjOk HzOk
CHECK_DEADLOCK FALSE
