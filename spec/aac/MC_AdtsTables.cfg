INIT TabInit
NEXT TabNext
CONSTANTS
  AscInputs = {}
  RawLens = {}
  LibIds = {}
  Frames = {}
  MaxFrames = 0
  CrcCounted = TRUE
INVARIANTS AscOk FieldsOk HdrOk ObjOk HzOk
CHECK_DEADLOCK FALSE
