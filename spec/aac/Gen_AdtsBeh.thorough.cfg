INIT BInit
NEXT BNext
CONSTANTS
  AscInputs <- BAscQuick
  RawLens = {1, 249}
  LibIds = {0}
  Frames <- BFramesQuick
  MaxFrames = 3
  CrcCounted = TRUE
  PayFrames = {}
  PayHeads = {}
  TwiceLens = {}
  PassThrough = FALSE
  LenMod = 0
  Depth = 6
INVARIANTS Emit DecodeExact WireIsPending
CHECK_DEADLOCK FALSE
