SPECIFICATION Spec
CONSTANTS
  AscInputs <- McAscInputs
  RawLens = {1, 3}
  LibIds = {0, 1}
  Frames <- McFrames
  MaxFrames = 3
  CrcCounted = FALSE
  PayFrames = {}
  PayHeads = {}
  TwiceLens = {}
  PassThrough = FALSE
  LenMod = 0
INVARIANTS DecodeExact
CHECK_DEADLOCK FALSE
