INIT BInit
NEXT BNext
CONSTANTS
  AscInputs <- BAscPay
  RawLens = {7, 249}
  LibIds = {0}
  Frames <- BFramesPay
  MaxFrames = 3
  CrcCounted = TRUE
  PayFrames <- BPayFrames
  PayHeads <- BPayHeads
  TwiceLens = {1, 249}
  PassThrough = FALSE
  LenMod = 0
  Depth = 5
INVARIANTS Emit DecodeExact WireIsPending
CHECK_DEADLOCK FALSE
